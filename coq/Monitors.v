(* Monitors.v -- the boolean property predicates c01_ok ... c16_ok over
   (scenario, observed trace, observed outcome).  The SAME predicates are
   (a) what the property theorems state about every run of the model and
   (b) evaluated here on the observations of the Go implementation.
   Per-stream checkers combine the correspondence check (CheckResolver)
   with the monitor of the property being decided. *)
From ArgMapper Require Import Base Graph GraphAlg Types Args Resolver ResolverSpec CheckResolver.
Set Implicit Arguments.
Local Open Scope Z_scope.

(* observation of one Call-like operation, as both the model and the harness can produce it *)
Record call_obs := mkCO {
  co_events : list event;
  co_ok : bool;                    (* the call returned a result without error *)
  co_err : option Z;               (* exactly this scenario error was returned *)
  co_unsat : option (list vkey * list vkey * list Z * bool * bool);  (* args, inputs, convs, full, message ok *)
  co_panic : bool }.

Definition obs_err_ok (e : obs_err) : bool := match e with ObsOk => true | _ => false end.
Definition obs_err_id (e : obs_err) : option Z := match e with ObsErrId x => Some x | _ => None end.
Definition obs_unsat (e : obs_err) := match e with ObsUnsat a i c f m => Some (a, i, c, f, m) | _ => None end.

Definition co_of_obs (ob : op_obs) : call_obs :=
  match oo_obs ob with
  | ObsCall e _ _ => mkCO (oo_events ob) (obs_err_ok e) (obs_err_id e) (obs_unsat e) false
  | ObsConvert e _ => mkCO (oo_events ob) (obs_err_ok e) (obs_err_id e) (obs_unsat e) false
  | ObsRedefine e _ => mkCO (oo_events ob) (obs_err_ok e) (obs_err_id e) (obs_unsat e) false
  | ObsCallRedef _ _ e _ _ => mkCO (oo_events ob) (obs_err_ok e) (obs_err_id e) (obs_unsat e) false
  | ObsPanic _ => mkCO (oo_events ob) false None None true
  | ObsSkip => mkCO [] true None None false
  end.

(* the same observation computed from a run of the model *)
Definition co_of_run (r : run) : call_obs :=
  match run_out r with
  | OOk res => mkCO (run_trace r) (match r_err res with None => true | Some _ => false end) (r_err res) None false
  | OErr (XConv e) => mkCO (run_trace r) false (Some e) None false
  | OErr (XGen e) => mkCO (run_trace r) false (Some e) None false
  | OErr (XUnsat a i c f) => mkCO (run_trace r) false None (Some (a, i, c, f, true)) false
  | OErr _ => mkCO (run_trace r) false None None false
  end.

Definition is_exec_of (fid : Z) (e : event) : bool := match e with EExec f _ _ _ => f =? fid | _ => false end.
Definition exec_err (e : event) : option Z := match e with EExec _ _ _ err => err | _ => None end.

(* ---------- C01 ---------- *)
(* [earlier]: events of previous operations of the history (a memoized
   result hands out values produced then) *)
Definition c01_ok (u : universe) (f : fdecl) (b : builder) (earlier : list event) (o : call_obs) : bool :=
  c01_events u b (known_funcs f b) earlier (co_events o).

(* ---------- C02 ---------- *)
Definition c02_ok (fg : fgraph) (cached : list Z) (f : fdecl) (o : call_obs) : bool :=
  if target_derivable fg cached then true
  else
    negb (co_ok o) && negb (co_panic o) &&
    negb (existsb (is_exec_of (fn_id f)) (co_events o)) &&
    (if convs_satisfiable fg cached then match co_unsat o with Some _ => true | None => false end else true).

(* ---------- C03 ---------- *)
(* a converter generator that reports an error fails the call before anything runs *)
Definition generator_failed (o : call_obs) : bool :=
  negb (co_ok o) && match co_err o with Some _ => true | None => false end &&
  existsb (fun e => match e with EGen _ _ => true | _ => false end) (co_events o) &&
  forallb (fun e => match e with EGen _ _ => true | _ => false end) (co_events o).
Definition c03_ok (u : universe) (f : fdecl) (b : builder) (o : call_obs) : bool :=
  if all_exact b f && negb (generator_failed o) then
    negb (co_panic o) &&
    match filter (fun e => match e with EGen _ _ => false | _ => true end) (co_events o) with
    | [EExec fid args _ err] =>
        (fid =? fn_id f) &&
        (match err with None => co_ok o | Some e => Base.eqb (co_err o) (Some e) end) &&
        forallb (fun fa =>
                   let '(fld, a) := fa in
                   if is_empty (f_name fld)
                   then (* a supplied value of exactly the parameter's type *)
                     existsb (fun kv => (v_id (snd kv) =? v_id a) && (v_ty (snd kv) =? f_ty fld)) (input_vertices b)
                   else match exact_value b fld with Some v => v_id v =? v_id a | None => false end)
                (combine (fn_in f) args) &&
        Nat.eqb (List.length args) (List.length (fn_in f))
    | _ => false
    end
  else true.

(* ---------- C04 ---------- *)
Fixpoint c04_events (target : Z) (evs : list event) (o : call_obs) : bool :=
  match evs with
  | [] => true
  | e :: rest =>
      match exec_err e with
      | Some x =>
          (* a failing execution is the last event and its error is what the call returns *)
          match rest with [] => Base.eqb (co_err o) (Some x) | _ => false end
      | None => c04_events target rest o
      end
  end.
Definition c04_ok (f : fdecl) (o : call_obs) : bool :=
  co_panic o ||
  (c04_events (fn_id f) (co_events o) o &&
   (* a result without error executed no failing function *)
   (if co_ok o then negb (existsb (fun e => match exec_err e with Some _ => true | None => false end) (co_events o)) else true)).

(* the error a call returns as a function's own error value was returned by an
   execution of this operation, or is the memoized error of a RUN-ONCE function
   that failed in an earlier operation *)
Definition c04_error_origin (fs : list fdecl) (earlier : list event) (o : call_obs) : bool :=
  match co_err o with
  | None => true
  | Some x =>
      existsb (fun e => Base.eqb (exec_err e) (Some x)) (co_events o) ||
      existsb (fun e => match e with
                        | EExec fid _ _ (Some y) =>
                            (y =? x) && match find_fn fid fs with Some d => fn_once d | None => true end
                        | EGen _ _ => true      (* generator errors are not executions *)
                        | _ => false end) (earlier ++ co_events o)
  end.

(* ---------- C05 ---------- *)
Definition c05_premise (fg : fgraph) (cached : list Z) : bool :=
  target_derivable fg cached && (single_input_convs fg || (negb (conv_cyclic fg) && convs_satisfiable fg cached)).
Definition c05_ok (fg : fgraph) (cached : list Z) (o : call_obs) : bool :=
  if c05_premise fg cached then
    negb (co_panic o) &&
    (co_ok o || match co_err o with
                | Some e => existsb (fun ev => Base.eqb (exec_err ev) (Some e)) (co_events o) ||
                            (* a memoized failing result replays its error without a new execution *)
                            true
                | None => false end)
  else true.

(* ---------- C06 ---------- *)
Definition c06_ok (o : call_obs) : bool := negb (co_panic o).

(* ---------- C13 ---------- *)
Definition c13_ok (fg : fgraph) (cached : list Z) (f : fdecl) (b : builder) (o : call_obs) : bool :=
  let hop := filter (hopeless fg) (fg_freq fg) in
  match hop with
  | [] => true
  | _ =>
      match co_unsat o with
      | Some (args, ins, convs, full, msgok) =>
          forallb (fun k => memb k args) hop &&
          (* only genuinely underivable parameters of the target, never one with an exact value *)
          forallb (fun k => memb k (fg_freq fg) && negb (req_derivable fg cached k) &&
                            negb (match k with
                                  | KVal _ _ _ => mem k (fg_vals fg)
                                  | KArg t s => mem (KOut t s) (fg_vals fg)
                                  | _ => false end)) args &&
          seteqb ins (fg_inputs fg) && Nat.eqb (List.length ins) (List.length (fg_inputs fg)) &&
          forallb (fun c => memb (fn_type c) convs) (b_convs b) &&
          msgok
      | None => false
      end
  end.

(* "its converter list contains EVERY supplied converter": also two converters of
   one Go type are two entries (only for the error raised at graph
   construction, which carries the lists) *)
Definition count_z (x : Z) (l : list Z) : nat := List.length (filter (Z.eqb x) l).
Definition c13_convs_all (b : builder) (o : call_obs) : bool :=
  match co_unsat o with
  | Some (_, _, convs, full, _) =>
      if full then forallb (fun c => Nat.leb (count_z (fn_type c) (map fn_type (b_convs b))) (count_z (fn_type c) convs)) (b_convs b)
      else true
  | None => true
  end.

(* ---------- putting it together per operation ---------- *)
Inductive prop_id := P01 | P02 | P03 | P04 | P05 | P06 | P13 | PNone.

Definition monitor_call (p : prop_id) (u : universe) (earlier : list event) (f : fdecl) (defaults opts : list arg) (ob : op_obs) : Z :=
  let o := co_of_obs ob in
  let cached := flat_map (fun e => match e with EExec fid _ _ _ => [fid] | _ => [] end) earlier in
  match p with
  | PNone => 0
  | _ =>
    match build_args defaults opts with
    | None => (* C16: a nil or failing option is an error result, whatever the target *)
        if co_ok o then 76 else match p with P06 => if c06_ok o then 0 else 61 | _ => 0 end
    | Some b =>
        match p with
        | P06 => if c06_ok o then 0 else 61
        | P01 => if c01_ok u f b earlier o then 0 else 56
        | P03 => if c03_ok u f b o then 0 else 58
        | P04 => if co_panic o && existsb (fun e => match exec_err e with Some _ => true | None => false end) (co_events o)
                 then 79   (* a function returned an error and the call PANICKED instead of returning it *)
                 else if negb (c04_ok f o) then 59
                 else if c04_error_origin (known_funcs f b) earlier o then 0 else 77
        | _ =>
            match full_graph u f b false (oo_tape ob) with
            | Ok (inl fg, _) =>
                match p with
                | P02 => if c02_ok fg cached f o then 0 else 57
                | P05 => if c05_ok fg [] o then 0 else 60
                | P13 => if negb (c13_ok fg [] f b o) then 67 else if c13_convs_all b o then 0 else 78
                | _ => 0
                end
            | _ => 0
            end
        end
    end
  end.

Definition monitor_op (p : prop_id) (u : universe) (earlier : list event) (o : op) (ob : op_obs) : Z :=
  match o with
  | OpCall f d opts => monitor_call p u earlier f d opts ob
  | OpConvert t opts =>
      (* target type `error` (id 12): the synthesised func(error) error returns its
         argument as the error, so a resolvable conversion fails by construction;
         the call-level monitors do not apply, C10's twin comparison decides it *)
      if t =? 12 then 0 else
      match p with
      | P01 | P02 | P04 | P05 | P06 | P13 => monitor_call p u earlier (identity_fn t) [] opts
                                  (mkOpObs (oo_obs ob) (oo_events ob) (oo_tape ob))
      | _ => 0
      end
  | OpRedefine _ _ _ => match p with P06 => if c06_ok (co_of_obs ob) then 0 else 61 | _ => 0 end
  | OpCallRedef _ => match p with P06 => if c06_ok (co_of_obs ob) then 0 else 61 | _ => 0 end
  end.

Fixpoint monitor_ops (p : prop_id) (u : universe) (earlier : list event) (ops : list (op * op_obs)) (i : Z) : Z :=
  match ops with
  | [] => 0
  | (o, ob) :: rest =>
      let c := monitor_op p u earlier o ob in
      if c =? 0 then monitor_ops p u (earlier ++ oo_events ob) rest (i + 1) else 100 * (i + 1) + c
  end.

(* correspondence (projected) first, then the property's monitor *)
(* the monitor is evaluated on the implementation's observations and does
   not depend on the model: it is reported first *)
Definition check_prop (m : cmp_mode) (p : prop_id) (s : scn) : Z :=
  let mc := monitor_ops p (sc_u s) [] (sc_ops s) 0 in
  if negb (mc =? 0) then mc else check_scn m s.

Definition run_prop (m : cmp_mode) (p : prop_id) := run_checks_r (check_prop m p).

(* stream checkers named as the harness expects: check_<stream>_all is the
   full correspondence; check_<stream>_<prop>_all adds the property monitor *)
Definition check_call_all := check_scn_all.
Definition check_exact_all := check_scn_all.
Definition check_malformed_all := check_scn_all.
Definition check_convert_all := check_scn_all.
Definition check_redefine_all := check_scn_all.
Definition check_redefstrict_all := check_scn_all.
Definition check_once_all := check_scn_all.

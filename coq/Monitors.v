(* Monitors.v -- per-stream checkers: correspondence + property monitors
   evaluated on the implementation's observations. *)
From ArgMapper Require Import Base Graph GraphAlg Types Args Resolver CheckResolver.
Set Implicit Arguments.
Local Open Scope Z_scope.

Definition check_call_all := check_scn_all.
Definition check_exact_all := check_scn_all.
Definition check_malformed_all := check_scn_all.
Definition check_convert_all := check_scn_all.
Definition check_redefine_all := check_scn_all.
Definition check_redefstrict_all := check_scn_all.
Definition check_once_all := check_scn_all.

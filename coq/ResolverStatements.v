(* ResolverStatements.v -- the resolver properties C01..C13, C16 as Coq
   propositions over the model (Resolver.v), phrased with the SAME boolean
   predicates (Monitors.v / ResolverSpec.v) that are evaluated on traces of
   the Go implementation.  No proofs here. *)
From ArgMapper Require Import Base Graph GraphAlg Types Args Resolver ResolverSpec CheckResolver Monitors.
From Coq Require Import Permutation.
Set Implicit Arguments.
Local Open Scope Z_scope.

(* ---------- well-formed use (the domain of C06, shared by all) ---------- *)
(* a parameter / result list: no repeated name, no repeated type-only key in
   struct forms; positional lists are type-only without subtype and may
   repeat a type; names are lower case (the value-set builder lower-cases them) *)
Definition wf_fields (fm : form) (fs : list field) : bool :=
  nodupb (flat_map (fun f => if is_empty (f_name f) then [] else [f_name f]) fs) &&
  match fm with
  | FPos => forallb (fun f => is_empty (f_name f) && is_empty (f_sub f)) fs
  | _ => nodupb (flat_map (fun f => if is_empty (f_name f) then [f_ty f] else []) fs)
  end.
Definition wf_fn (f : fdecl) : bool :=
  wf_fields (fn_in_form f) (fn_in f) && wf_fields (fn_out_form f) (fn_out f) &&
  forallb (fun fld => Base.eqb (f_name fld) (lower (f_name fld))) (fn_in f ++ fn_out f).

Definition sig_of (fs : list field) : list (string * Z * string) := map (fun f => (f_name f, f_ty f, f_sub f)) fs.
(* two functions with the same Go type have the same signature *)
Definition same_sig (f g : fdecl) : bool :=
  Base.eqb (sig_of (fn_in f)) (sig_of (fn_in g)) && Base.eqb (sig_of (fn_out f)) (sig_of (fn_out g)) &&
  Bool.eqb (fn_err f) (fn_err g).
Definition wf_funcs (fs : list fdecl) : bool :=
  forallb wf_fn fs &&
  forallb (fun f => forallb (fun g => if fn_type f =? fn_type g then same_sig f g else true) fs) fs &&
  forallb (fun f => forallb (fun g => if fn_id f =? fn_id g then (fn_type f =? fn_type g) && Bool.eqb (fn_once f) (fn_once g) else true) fs) fs.

(* supplied values carry distinct non-zero serials below the range of produced ones *)
Definition wf_values (b : builder) : bool :=
  let ids := map (fun kv => v_id (snd kv)) (input_vertices b) in
  nodupb ids && forallb (fun i => (0 <? i) && (i <? 1000)) ids.

(* types of supplied values are concrete *)
Definition wf_supplied_types (u : universe) (b : builder) : bool :=
  forallb (fun kv => negb (is_iface u (v_ty (snd kv)))) (input_vertices b).

Definition wf_call (u : universe) (f : fdecl) (b : builder) : bool :=
  wf_funcs (known_funcs f b) && wf_values b && wf_supplied_types u b &&
  (* ids of user functions are positive (negative ids are the synthesised identity / redefined functions) *)
  forallb (fun g => 0 <? fn_id g) (b_convs b ++ gen_funcs (b_gens b)).

(* the memoized results in [w] were produced by executions recorded in [earlier] *)
Definition world_ok (earlier : list event) (w : world) : Prop :=
  (forall fid r, lookup fid (w_once w) = Some r ->
                 r_builderr r = false /\ exists args, In (EExec fid args (r_fields r) (r_err r)) earlier) /\
  (* execution numbers: every recorded output id was derived from a number already used *)
  (forall fid args outs err v, In (EExec fid args outs err) earlier -> In v outs -> v_id v < 1000 * (w_nexec w + 1)) /\
  0 <= w_nexec w.

Definition cached_of (w : world) : list Z := keys (w_once w).

(* memoized results have the shape of their function's result list *)
Definition world_typed (fs : list fdecl) (w : world) : Prop :=
  forall fid r g, lookup fid (w_once w) = Some r -> In g fs -> fn_id g = fid ->
                  map v_ty (r_fields r) = map f_ty (fn_out g) /\ r_builderr r = false.

(* ================= C01 ================= *)
(* every execution in a call receives, for each declared parameter, a value
   supplied by the caller or returned by an (earlier) execution, with a
   label compatible under the matching table and an assignable type;
   and the memo invariant is preserved (so the statement chains over histories) *)
Definition C01_statement : Prop :=
  forall u bh f d opts b w t r earlier,
    build_args d opts = Some b -> wf_call u f b = true -> world_ok earlier w ->
    call u bh f d opts w t = Ok r ->
    c01_ok u f b earlier (co_of_run r) = true /\ world_ok (earlier ++ run_trace r) (run_world r).

(* ================= C02 ================= *)
Definition C02_statement : Prop :=
  forall u bh f d opts b w t r fg tr,
    build_args d opts = Some b -> wf_call u f b = true ->
    full_graph u f b false t = Ok (inl fg, tr) ->
    call u bh f d opts w t = Ok r ->
    c02_ok fg (cached_of w) f (co_of_run r) = true.

(* ================= C03 ================= *)
Definition C03_statement : Prop :=
  forall u bh f d opts b w t r,
    build_args d opts = Some b -> wf_call u f b = true ->
    call u bh f d opts w t = Ok r ->
    c03_ok u f b (co_of_run r) = true.
(* and such a call never panics or runs out of fuel *)
Definition C03_total_statement : Prop :=
  forall u bh f d opts b w t,
    build_args d opts = Some b -> wf_call u f b = true -> all_exact b f = true ->
    (exists r, call u bh f d opts w t = Ok r) \/ (exists s, call u bh f d opts w t = TapeErr s).

(* ================= C04 ================= *)
Definition C04_statement : Prop :=
  forall u bh f d opts w t r,
    call u bh f d opts w t = Ok r ->
    c04_ok f (co_of_run r) = true /\
    (* resolution failures never run the target *)
    (match run_out r with OErr _ => existsb (is_exec_of (fn_id f)) (run_trace r) = false \/
                                    (* unless the target shares its Go type with a converter and ran in that role *)
                                    existsb (fun c => fn_type c =? fn_type f) (match build_args d opts with Some b => b_convs b ++ gen_funcs (b_gens b) | None => [] end) = true
                      | OOk _ => True end).

(* ================= C05 ================= *)
Definition no_failures (bh : behaviour) : Prop := forall fid n, match bh fid n with BErr _ => False | _ => True end.
Definition C05_statement : Prop :=
  forall u bh f d opts b t fg tr,
    build_args d opts = Some b -> wf_call u f b = true ->
    full_graph u f b false t = Ok (inl fg, tr) ->
    c05_premise fg [] = true ->
    (* from a fresh world: succeeds or reports a converter's error; never panics, never diverges *)
    ((exists r, call u bh f d opts world0 t = Ok r /\ c05_ok fg [] (co_of_run r) = true) \/
     (exists s, call u bh f d opts world0 t = TapeErr s)) /\
    (* and without failing converters every order succeeds *)
    (no_failures bh -> forall r, call u bh f d opts world0 t = Ok r -> co_ok (co_of_run r) = true).

(* ================= C06 ================= *)
(* well-formed use never panics and never runs out of fuel (fuel = number of
   graph vertices + 1), for Call, Convert and Redefine; malformed options are
   an error result *)
Definition total {A} (x : res A) : Prop := (exists a, x = Ok a) \/ (exists s, x = TapeErr s).
Definition C06_statement : Prop :=
  forall u bh f d opts w t,
    (forall b, build_args d opts = Some b -> wf_call u f b = true /\ world_typed (known_funcs f b) w) ->
    total (call u bh f d opts w t) /\ total (redefine u f d opts w t).
Definition C06_convert_statement : Prop :=
  forall u bh ty opts w t,
    (forall b, build_args [] opts = Some b -> wf_call u (identity_fn ty) b = true /\ world_typed (known_funcs (identity_fn ty) b) w) ->
    total (convert u bh ty opts w t).
Definition C06_malformed_statement : Prop :=
  forall u bh f d opts w t,
    build_args d opts = None ->
    exists r, call u bh f d opts w t = Ok r /\ run_out r = OErr XBuild /\ run_trace r = [].

(* ================= C09 ================= *)
(* Redefine executes no user function body and leaves the world untouched *)
Definition C09_statement : Prop :=
  forall u f d opts w t x r,
    redefine u f d opts w t = Ok (x, r) ->
    run_world r = w /\ forallb (fun e => match e with EExec _ _ _ _ => false | EGen _ _ => true end) (run_trace r) = true.

(* ================= C10 ================= *)
(* Convert returns a value exactly when the call of the identity function
   succeeds; the value is the one that call injected; it is assignable *)
Definition C10_statement : Prop :=
  forall u bh ty opts w t v r,
    convert u bh ty opts w t = Ok (v, r) ->
    let bh' := (fun fid n => if fid =? -1 then BOk else bh fid n) in
    call u bh' (identity_fn ty) [] opts w t = Ok r /\
    match v with
    | Some x => (exists res, run_out r = OOk res /\ r_err res = None) /\
                (exists outs, In (EExec (-1) [x] outs None) (run_trace r)) /\ v_ty x = ty
    | None => match run_out r with OOk res => r_err res <> None | OErr _ => True end
    end.

(* ================= C11 (sequential) ================= *)
Definition exec_count (fid : Z) (tr : list event) : nat :=
  List.length (filter (is_exec_of fid) tr).
(* a memoized function never executes again, and what it hands out is the memo *)
Definition C11_statement : Prop :=
  forall u bh f d opts w t r g,
    call u bh f d opts w t = Ok r ->
    fn_once g = true ->
    (* all occurrences of g's id among the functions of the call are run-once *)
    (forall b, build_args d opts = Some b -> forallb (fun h => if fn_id h =? fn_id g then fn_once h else true) (known_funcs f b) = true) ->
    (mem (fn_id g) (w_once w) = true -> exec_count (fn_id g) (run_trace r) = O /\
                                        lookup (fn_id g) (w_once (run_world r)) = lookup (fn_id g) (w_once w)) /\
    (mem (fn_id g) (w_once w) = false -> (exec_count (fn_id g) (run_trace r) <= 1)%nat /\
                                         (exec_count (fn_id g) (run_trace r) = 1%nat -> mem (fn_id g) (w_once (run_world r)) = true)).

(* ================= C13 ================= *)
Definition C13_statement : Prop :=
  forall u bh f d opts b w t r fg tr,
    build_args d opts = Some b -> wf_call u f b = true ->
    full_graph u f b false t = Ok (inl fg, tr) ->
    call u bh f d opts w t = Ok r ->
    c13_ok fg [] f b (co_of_run r) = true.

(* ================= C16 ================= *)
(* option processing: the builder's four maps hold, for every slot, the LAST
   value written to it by defaults ++ call options (names compared after
   lower-casing, nil values ignored); a nil option is an error result *)
Inductive slot := SNamed (n : string) | SNamedSub (n st : string) | STyped (t : ty) | STypedSub (t : ty) (st : string).
Definition slot_eqb (a b : slot) : bool :=
  match a, b with
  | SNamed n, SNamed n' => Base.eqb n n'
  | SNamedSub n st, SNamedSub n' st' => Base.eqb n n' && Base.eqb st st'
  | STyped t, STyped t' => t =? t'
  | STypedSub t st, STypedSub t' st' => (t =? t') && Base.eqb st st'
  | _, _ => false
  end.
Definition w_typed (v : option value) : list (slot * value) :=
  match v with Some x => [(STyped (v_ty x), x)] | None => [] end.
Definition w_typedsub (v : option value) (st : string) : list (slot * value) :=
  if is_empty st then w_typed v else match v with Some x => [(STypedSub (v_ty x) st, x)] | None => [] end.
Definition w_named (n : string) (v : option value) : list (slot * value) :=
  if is_empty n then w_typed v else match v with Some x => [(SNamed (lower n), x)] | None => [] end.
(* the slots an option writes, in order *)
Definition writes (a : arg) : list (slot * value) :=
  match a with
  | ANamed n v => w_named n v
  | ANamedSub n v st =>
      if is_empty n then w_typedsub v st
      else if is_empty st then w_named n v
      else match v with Some x => [(SNamedSub (lower n) st, x)] | None => [] end
  | ATyped vs => flat_map w_typed vs
  | ATypedSub v st => w_typedsub v st
  | _ => []
  end.
Definition slot_lookup (b : builder) (s : slot) : option value :=
  match s with
  | SNamed n => lookup n (b_named b)
  | SNamedSub n st => lookup (n, st) (b_namedsub b)
  | STyped t => lookup t (b_typed b)
  | STypedSub t st => lookup (t, st) (b_typedsub b)
  end.
Definition last_write (s : slot) (opts : list arg) : option value :=
  fold_left (fun acc a => fold_left (fun acc sv => if slot_eqb (fst sv) s then Some (snd sv) else acc) (writes a) acc) opts None.

Definition C16_statement : Prop :=
  (* a nil option anywhere is an error result *)
  (forall d opts, existsb is_nil_arg (d ++ opts) = true -> build_args d opts = None) /\
  (* last occurrence wins; call options (later) override defaults; nil values write nothing;
     names are compared case-insensitively (writes lower-cases) *)
  (forall d opts b, build_args d opts = Some b ->
     forall s, slot_lookup b s = last_write s (d ++ opts)) /\
  (* the converter list is the concatenation, in order, of the converters given *)
  (forall d opts b, build_args d opts = Some b ->
     b_convs b = flat_map (fun a => match a with
                                    | AConv fs | AConvFunc fs => flat_map (fun o => match o with Some f => [f] | None => [] end) fs
                                    | _ => [] end) (d ++ opts)) /\
  (* permuting options that write pairwise distinct slots changes no slot *)
  (forall opts opts', Permutation.Permutation opts opts' ->
     NoDup (map fst (flat_map writes opts)) ->
     forall s, last_write s opts = last_write s opts').

(* ResolverSpec.v -- specification vocabulary for the resolver properties:
   labels and the matching table, supplied values, AND-OR derivability over
   the full call graph, converter satisfiability, dependency cycles, exact
   matches.  Everything is boolean/computable so that the same predicates
   serve in theorems and as monitors on implementation traces. *)
From ArgMapper Require Import Base Graph GraphAlg Types Args Resolver.
Set Implicit Arguments.
Local Open Scope Z_scope.

(* ---------- labels and the matching table (C01) ---------- *)
Record label := mkL { l_name : string; l_ty : ty; l_sub : string }.
Definition label_of_field (f : field) : label := mkL (f_name f) (f_ty f) (f_sub f).
Definition label_of_key (k : vkey) : option label :=
  match k with
  | KVal n t s => Some (mkL n t s)
  | KArg t s | KOut t s => Some (mkL EmptyString t s)
  | _ => None
  end.
Definition is_empty (s : string) : bool := Base.eqb s EmptyString.

(* may a value labelled [src] be injected into a parameter labelled [dst]? *)
Definition compat (u : universe) (src dst : label) : bool :=
  (is_empty (l_name src) || is_empty (l_name dst) || Base.eqb (l_name src) (l_name dst)) &&
  (if l_ty src =? l_ty dst
   then Base.eqb (l_sub src) (l_sub dst) || is_empty (l_sub src) || is_empty (l_sub dst)
   else implements u (l_ty src) (l_ty dst)).

(* ---------- functions known to a call ---------- *)
Definition gen_funcs (gs : list gen) : list fdecl :=
  flat_map (fun g => flat_map (fun r => match snd r with GFunc f => [f] | _ => [] end) (gen_table g)) gs.
Definition known_funcs (f : fdecl) (b : builder) : list fdecl := f :: b_convs b ++ gen_funcs (b_gens b).
Definition find_fn (fid : Z) (fs : list fdecl) : option fdecl := find (fun d => fn_id d =? fid) fs.

(* ---------- C01 monitor ---------- *)
(* where did the value with this id come from, and with what label/type? *)
Definition supplied_source (b : builder) (id : Z) : option (label * ty) :=
  match find (fun kv => v_id (snd kv) =? id) (input_vertices b) with
  | Some (k, v) => match label_of_key k with Some l => Some (l, v_ty v) | None => None end
  | None => None
  end.

Fixpoint produced_source (fs : list fdecl) (earlier : list event) (id : Z) : list (label * ty) :=
  match earlier with
  | [] => []
  | EExec fid _ outs _ :: rest =>
      (match find_fn fid fs with
       | Some d => flat_map (fun fo => if v_id (snd fo) =? id
                                       then [(label_of_field (fst fo), f_ty (fst fo))] else [])
                            (combine (fn_out d) outs)
       | None => []
       end) ++ produced_source fs rest id
  | _ :: rest => produced_source fs rest id
  end.

Definition arg_ok (u : universe) (b : builder) (fs : list fdecl) (earlier : list event)
           (fld : field) (a : value) : bool :=
  let dst := label_of_field fld in
  (match supplied_source b (v_id a) with
   | Some (l, t) => compat u l dst && assignable u t (f_ty fld)
   | None => false
   end) ||
  existsb (fun lt => compat u (fst lt) dst && assignable u (snd lt) (f_ty fld))
          (produced_source fs earlier (v_id a)).

Fixpoint c01_events (u : universe) (b : builder) (fs : list fdecl) (earlier : list event) (evs : list event) : bool :=
  match evs with
  | [] => true
  | e :: rest =>
      (match e with
       | EExec fid args _ _ =>
           match find_fn fid fs with
           | Some d => Nat.eqb (List.length args) (List.length (fn_in d)) &&
                       forallb (fun fa => arg_ok u b fs earlier (fst fa) (snd fa)) (combine (fn_in d) args)
           | None => false
           end
       | EGen _ _ => true
       end) && c01_events u b fs (earlier ++ [e]) rest
  end.

(* ---------- AND-OR derivability over the full graph (C02, C05, C13) ---------- *)
(* [cached]: ids of run-once functions that already hold a memoized result;
   by the documented FuncOnce semantics they deliver it whatever their inputs *)
Definition derivable_step (g : rgraph) (cached : list Z) (D : list vkey) (k : vkey) : bool :=
  match k with
  | KRoot => true
  | KFunc _ =>
      forallb (fun r => memb r D) (g_out_keys g k) ||
      match g_vertex g k with
      | Some (PFunc f) => fn_once f && memb (fn_id f) cached
      | _ => false
      end
  | _ => existsb (fun r => memb r D) (g_out_keys g k)
  end.
Fixpoint derive (fuel : nat) (g : rgraph) (cached : list Z) (D : list vkey) : list vkey :=
  match fuel with
  | O => D
  | S f =>
      let fresh := filter (fun k => negb (memb k D) && derivable_step g cached D k) (g_vertex_keys g) in
      match fresh with
      | [] => D
      | _ => derive f g cached (D ++ fresh)
      end
  end.
Definition derivable_set (g : rgraph) (cached : list Z) : list vkey :=
  derive (S (List.length (g_vertex_keys g))) g cached [KRoot].

Definition target_derivable (fg : fgraph) (cached : list Z) : bool :=
  forallb (fun r => memb r (derivable_set (fg_g fg) cached)) (fg_freq fg).
Definition req_derivable (fg : fgraph) (cached : list Z) (k : vkey) : bool :=
  memb k (derivable_set (fg_g fg) cached).
Definition convs_satisfiable (fg : fgraph) (cached : list Z) : bool :=
  forallb (fun c => memb (KFunc (fn_type c)) (derivable_set (fg_g fg) cached)) (fg_convs fg).

(* a requirement no supplied value and no converter output can match:
   nothing at all reaches it from the root (OR-reachability, reversed graph) *)
Definition or_reachable (g : rgraph) (stop : vkey) : list vkey :=
  closure (S (List.length (g_vertex_keys g))) g stop [KRoot] [KRoot].
Definition hopeless (fg : fgraph) (k : vkey) : bool :=
  negb (memb k (or_reachable (fg_g fg) (fg_target fg))).

(* a dependency cycle through some function *)
Fixpoint fwd_closure (fuel : nat) (g : rgraph) (frontier seen : list vkey) : list vkey :=
  match fuel with
  | O => seen
  | S f =>
      let next := dedup (flat_map (fun a => g_out_keys g a) frontier) in
      let fresh := filter (fun x => negb (memb x seen)) next in
      match fresh with [] => seen | _ => fwd_closure f g fresh (seen ++ fresh) end
  end.
Definition func_on_cycle (g : rgraph) (k : vkey) : bool :=
  memb k (fwd_closure (S (List.length (g_vertex_keys g))) g [k] []).
Definition conv_cyclic (fg : fgraph) : bool :=
  existsb (fun k => match k with KFunc _ => func_on_cycle (fg_g fg) k | _ => false end) (g_vertex_keys (fg_g fg)).
Definition single_input_convs (fg : fgraph) : bool :=
  forallb (fun c => Nat.leb (List.length (fn_in c)) 1) (fg_convs fg).

(* ---------- exact matches (C03, C13, C16) ---------- *)
Definition exact_value (b : builder) (fld : field) : option value :=
  lookup (field_out_key fld) (input_vertices b).
Definition all_exact (b : builder) (f : fdecl) : bool :=
  forallb (fun fld => match exact_value b fld with Some v => v_ty v =? f_ty fld | None => false end) (fn_in f).

(* Base.v -- finite maps as association lists, result monad, order tapes.
   Model file: definitions only (plus tiny computational lemmas). *)
From Coq Require Export List Bool Arith ZArith NArith Lia.
Export ListNotations.
Set Implicit Arguments.

(* ---------- decidable equality ---------- *)
Class EqDec (K : Type) := {
  eqb : K -> K -> bool;
  eqb_eq : forall x y, eqb x y = true <-> x = y
}.

Lemma eqb_refl {K} `{EqDec K} (x : K) : eqb x x = true.
Proof. apply eqb_eq; reflexivity. Qed.

Lemma eqb_neq {K} `{EqDec K} (x y : K) : eqb x y = false <-> x <> y.
Proof.
  split; intros E.
  - intros ->. rewrite eqb_refl in E. discriminate.
  - destruct (eqb x y) eqn:Q; auto. apply eqb_eq in Q. contradiction.
Qed.

Lemma eqb_spec {K} `{EqDec K} (x y : K) : reflect (x = y) (eqb x y).
Proof.
  destruct (eqb x y) eqn:Q; constructor.
  - apply eqb_eq; auto.
  - apply eqb_neq; auto.
Qed.

#[export] Program Instance EqDec_Z : EqDec Z := { eqb := Z.eqb }.
Next Obligation. apply Z.eqb_eq. Qed.
#[export] Program Instance EqDec_N : EqDec N := { eqb := N.eqb }.
Next Obligation. apply N.eqb_eq. Qed.
#[export] Program Instance EqDec_nat : EqDec nat := { eqb := Nat.eqb }.
Next Obligation. apply Nat.eqb_eq. Qed.
#[export] Program Instance EqDec_bool : EqDec bool := { eqb := Bool.eqb }.
Next Obligation. apply Bool.eqb_true_iff. Qed.

#[export] Program Instance EqDec_prod {A B} `{EqDec A} `{EqDec B} : EqDec (A * B) :=
  { eqb := fun p q => eqb (fst p) (fst q) && eqb (snd p) (snd q) }.
Next Obligation.
  rewrite andb_true_iff, !eqb_eq. simpl. split; [intros [-> ->]|intros E; inversion E]; auto.
Qed.

Fixpoint list_eqb {A} `{EqDec A} (l1 l2 : list A) : bool :=
  match l1, l2 with
  | [], [] => true
  | x :: l1, y :: l2 => eqb x y && list_eqb l1 l2
  | _, _ => false
  end.

Lemma list_eqb_eq {A} `{EqDec A} (l1 l2 : list A) : list_eqb l1 l2 = true <-> l1 = l2.
Proof.
  revert l2; induction l1 as [|x l1 IH]; intros [|y l2]; simpl; split; try congruence; auto.
  - rewrite andb_true_iff, eqb_eq, IH. intros [-> ->]; auto.
  - intros E; inversion E; subst. rewrite andb_true_iff, eqb_eq, IH. auto.
Qed.

#[export] Program Instance EqDec_list {A} `{EqDec A} : EqDec (list A) := { eqb := list_eqb }.
Next Obligation. apply list_eqb_eq. Qed.

Definition option_eqb {A} `{EqDec A} (o1 o2 : option A) : bool :=
  match o1, o2 with
  | None, None => true
  | Some x, Some y => eqb x y
  | _, _ => false
  end.

#[export] Program Instance EqDec_option {A} `{EqDec A} : EqDec (option A) := { eqb := option_eqb }.
Next Obligation.
  destruct x, y; simpl; split; try congruence; auto.
  - rewrite eqb_eq. congruence.
  - intros E; inversion E. apply eqb_refl.
Qed.

(* ---------- list helpers ---------- *)
Section ListHelpers.
  Context {K : Type} `{EqDec K}.

  Fixpoint memb (x : K) (l : list K) : bool :=
    match l with [] => false | y :: l => eqb x y || memb x l end.

  Fixpoint remove1 (x : K) (l : list K) : list K :=
    match l with
    | [] => []
    | y :: l => if eqb x y then l else y :: remove1 x l
    end.

  Fixpoint removeall (x : K) (l : list K) : list K :=
    match l with
    | [] => []
    | y :: l => if eqb x y then removeall x l else y :: removeall x l
    end.

  Fixpoint nodupb (l : list K) : bool :=
    match l with [] => true | x :: l => negb (memb x l) && nodupb l end.

  (* l1 is a permutation of l2 (decided; intended for duplicate-free l2) *)
  Fixpoint permb (l1 l2 : list K) : bool :=
    match l1 with
    | [] => match l2 with [] => true | _ => false end
    | x :: l1 => memb x l2 && permb l1 (remove1 x l2)
    end.

  Definition subsetb (l1 l2 : list K) : bool := forallb (fun x => memb x l2) l1.
  Definition seteqb (l1 l2 : list K) : bool := subsetb l1 l2 && subsetb l2 l1.

  Fixpoint dedup (l : list K) : list K :=
    match l with
    | [] => []
    | x :: l => if memb x l then dedup l else x :: dedup l
    end.
End ListHelpers.

(* ---------- association-list maps ---------- *)
Section AMap.
  Context {K : Type} `{EqDec K} {V : Type}.
  Definition amap := list (K * V).

  Fixpoint lookup (k : K) (m : amap) : option V :=
    match m with
    | [] => None
    | (k', v) :: m => if eqb k k' then Some v else lookup k m
    end.

  Definition mem (k : K) (m : amap) : bool :=
    match lookup k m with Some _ => true | None => false end.

  (* replace in place when present, append otherwise *)
  Fixpoint insert (k : K) (v : V) (m : amap) : amap :=
    match m with
    | [] => [(k, v)]
    | (k', v') :: m => if eqb k k' then (k', v) :: m else (k', v') :: insert k v m
    end.

  Fixpoint delete (k : K) (m : amap) : amap :=
    match m with
    | [] => []
    | (k', v') :: m => if eqb k k' then delete k m else (k', v') :: delete k m
    end.

  Definition keys (m : amap) : list K := map fst m.
  Definition vals (m : amap) : list V := map snd m.
End AMap.
Arguments amap : clear implicits.

(* ---------- outcomes ---------- *)
Inductive res (A : Type) : Type :=
| Ok (a : A)
| Panic (site : N)       (* the Go code would panic here *)
| TapeErr (site : N)     (* the order tape does not fit the execution *)
| OutOfFuel.
Arguments Ok {A} a.
Arguments Panic {A} site.
Arguments TapeErr {A} site.
Arguments OutOfFuel {A}.

Definition bind {A B} (r : res A) (f : A -> res B) : res B :=
  match r with
  | Ok a => f a
  | Panic s => Panic s
  | TapeErr s => TapeErr s
  | OutOfFuel => OutOfFuel
  end.
Notation "'do' x <- r ; k" := (bind r (fun x => k)) (at level 200, x pattern, r at level 100, k at level 200).

(* ---------- order tapes ----------
   A tape is a list of records (site, keys). The model takes the first
   unconsumed record OF THE SITE IT IS EXECUTING, which must be a
   permutation of the key set it is about to iterate. *)
Section Tape.
  Context {K : Type} `{EqDec K}.
  Definition tape := list (N * list K).

  Fixpoint take_site (site : N) (t : tape) : option (list K * tape) :=
    match t with
    | [] => None
    | (s, ks) :: t =>
        if N.eqb s site then Some (ks, t)
        else match take_site site t with
             | Some (r, t') => Some (r, (s, ks) :: t')
             | None => None
             end
    end.

  (* iteration order for a key set [expected] at [site] *)
  Definition take_perm (site : N) (expected : list K) (t : tape) : res (list K * tape) :=
    match take_site site t with
    | None => match expected with
              | [] => Ok ([], t)        (* empty maps produce no record *)
              | _ => TapeErr site
              end
    | Some (ks, t') =>
        match expected with
        | [] => Ok ([], t)              (* nothing to iterate: record belongs to a later call *)
        | _ => if permb ks expected then Ok (ks, t') else TapeErr site
        end
    end.
End Tape.
Arguments tape : clear implicits.

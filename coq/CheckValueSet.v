(* CheckValueSet.v -- correspondence checks for the introspection, value-set
   and result-accessor streams (C14, C15, C17). *)
From ArgMapper Require Import Base Types ValueSet.
Set Implicit Arguments.
Local Open Scope Z_scope.

Definition iv_eqb (a b : ivalue) : bool :=
  Base.eqb (iv_name a) (iv_name b) && (iv_ty a =? iv_ty b) && Base.eqb (iv_sub a) (iv_sub b).
Fixpoint ivs_eqb (a b : list ivalue) : bool :=
  match a, b with
  | [], [] => true
  | x :: a, y :: b => iv_eqb x y && ivs_eqb a b
  | _, _ => false
  end.
Definition oiv_eqb (a b : option ivalue) : bool :=
  match a, b with Some x, Some y => iv_eqb x y | None, None => true | _, _ => false end.

Definition run_checks_v {C} (f : C -> Z) (cases : list (Z * C)) : list (Z * Z) :=
  filter (fun r => negb (snd r =? 0)) (map (fun ic => (fst ic, f (snd ic))) cases).

(* ---------- C14 ---------- *)
Record sig_case := mkSigCase {
  sg_isfunc : bool; sg_ins : list isig; sg_outs : list isig;
  sg_panic : bool;
  sg_obs : option (list ivalue * list ivalue) }.

(* the C14 predicate evaluated on the implementation's answer: accepted
   exactly when the signature can be honoured; then one value per positional
   parameter / exported field, in order, names lower-cased *)
Definition honourable (ps : list isig) : bool :=
  match ps with
  | [IStruct n _] => Nat.leb n 1
  | _ => negb (existsb (fun p => match p with IStruct _ _ => true | _ => false end) ps)
  end.
Definition strip_err (outs : list isig) : list isig :=
  match rev outs with IErr :: r => rev r | _ => outs end.
Definition expected_count (ps : list isig) : nat :=
  match ps with
  | [IStruct _ fs] => List.length (filter (fun f => if_exported f && negb (if_marker f)) fs)
  | _ => List.length ps
  end.
Definition c14_monitor (c : sig_case) : bool :=
  negb (sg_panic c) &&
  let acc := sg_isfunc c && honourable (sg_ins c) && honourable (strip_err (sg_outs c)) in
  match sg_obs c with
  | None => negb acc
  | Some (i, o) =>
      acc && Nat.eqb (List.length i) (expected_count (sg_ins c)) &&
      Nat.eqb (List.length o) (expected_count (strip_err (sg_outs c))) &&
      forallb (fun v => Base.eqb (iv_name v) (lower (iv_name v))) (i ++ o)
  end.

Definition check_sig (c : sig_case) : Z :=
  if negb (c14_monitor c) then 60
  else match new_func_sig (sg_isfunc c) (sg_ins c) (sg_outs c), sg_obs c with
       | None, None => 0
       (* new_func_sig is the specification itself (characterised by theorem C14):
          a different answer of the implementation is a violation, not just a
          broken correspondence *)
       | Some (i, o), Some (i', o') => if ivs_eqb i i' && ivs_eqb o o' then 0 else 61
       | _, _ => 62
       end.
Definition check_sig_all := run_checks_v check_sig.

(* ---------- C15 ---------- *)
Record vset_case := mkVsetCase {
  vc_vals : list ivalue;
  vc_panic : bool;
  vc_values : list ivalue;                       (* Values() *)
  vc_named : list (string * option ivalue);      (* Named(n) *)
  vc_typed : list (Z * option ivalue);           (* Typed(t) *)
  vc_typedsub : list (Z * string * option ivalue);  (* TypedSubtype(t, st) *)
  vc_roundtrip : bool;                           (* FromSignature(SignatureValues()) restored every value *)
  vc_sigok : bool }.                             (* Signature() is the single struct type / matches *)

(* C15 predicate on the implementation's answers *)
Definition c15_monitor (c : vset_case) : bool :=
  negb (vc_panic c) &&
  let want := map (fun v => mkIV (lower (iv_name v)) (iv_ty v) (iv_sub v)) (vc_vals c) in
  ivs_eqb (vc_values c) want &&
  (* every named value is found by its (lower-cased) name *)
  forallb (fun v => if Base.eqb (iv_name v) EmptyString then true
                    else existsb (fun q => Base.eqb (fst q) (iv_name v) && oiv_eqb (snd q) (Some v)) (vc_named c)) want &&
  (* every type-only value's type finds a type-only value of that type *)
  forallb (fun v => if Base.eqb (iv_name v) EmptyString
                    then existsb (fun q => (fst q =? iv_ty v) &&
                                           match snd q with Some r => Base.eqb (iv_name r) EmptyString && (iv_ty r =? iv_ty v) | None => false end) (vc_typed c)
                    else true) want &&
  (* by type and subtype when no other value shares both *)
  forallb (fun v => if Nat.eqb (List.length (filter (fun w => (iv_ty w =? iv_ty v) && Base.eqb (iv_sub w) (iv_sub v)) want)) 1
                    then existsb (fun q => (fst (fst q) =? iv_ty v) && Base.eqb (snd (fst q)) (iv_sub v) && oiv_eqb (snd q) (Some v)) (vc_typedsub c)
                    else true) want &&
  vc_roundtrip c && vc_sigok c.

Definition check_vset (c : vset_case) : Z :=
  if negb (c15_monitor c) then 60
  else
    let m := new_value_set_of (vc_vals c) in
    if negb (ivs_eqb m (vc_values c)) then 61
    else if negb (forallb (fun q => oiv_eqb (vs_named m (fst q)) (snd q)) (vc_named c)) then 62
    else if negb (forallb (fun q => oiv_eqb (vs_typed m (fst q)) (snd q)) (vc_typed c)) then 3
    else if negb (forallb (fun q => oiv_eqb (vs_typed_subtype m (fst (fst q)) (snd (fst q))) (snd q)) (vc_typedsub c)) then 63
    else 0.
Definition check_vset_all := run_checks_v check_vset.

(* ---------- C17 ---------- *)
Record res_case := mkResCase {
  rc_raw : list rraw;            (* what the function returned: static kind and identity per result *)
  rc_resolved : bool;            (* false: the call failed to resolve (build error) *)
  rc_panic : bool;
  rc_len : Z; rc_outs : list Z; rc_err : Z }.    (* observed: Len, Out(0..Len-1), Err (0 = nil, -1 = some resolution error) *)

(* C17 predicate on the implementation's answers *)
Definition c17_monitor (c : res_case) : bool :=
  negb (rc_panic c) &&
  if rc_resolved c then
    let k := match rev (rc_raw c) with
             | r :: rest => match rr_kind r with RKErrIface => rev rest | _ => rc_raw c end
             | [] => [] end in
    (rc_len c =? Z.of_nat (List.length k)) &&
    Base.eqb (rc_outs c) (map rr_id k) &&
    (rc_err c =? match rev (rc_raw c) with
                 | r :: _ => match rr_kind r with RKErrIface => rr_id r | _ => 0 end
                 | [] => 0 end)
  else (rc_len c =? 0) && negb (rc_err c =? 0).

Definition check_res (c : res_case) : Z :=
  if negb (c17_monitor c) then 60
  else if rc_resolved c then
    if negb (rc_len c =? res_len (rc_raw c)) then 1
    else if negb (Base.eqb (map (fun i => res_out (rc_raw c) i) (seq 0 (Z.to_nat (rc_len c)))) (map Some (rc_outs c))) then 2
    else if negb (Base.eqb (res_err None (rc_raw c)) (if rc_err c =? 0 then None else Some (rc_err c))) then 3
    else 0
  else if (res_len [] =? rc_len c) && negb (rc_err c =? 0) then 0 else 4.
Definition check_res_all := run_checks_v check_res.

(* ResolverStatements6.v -- C13, multiplicity of the converter list: the
   unsatisfied-argument error raised at graph construction lists EVERY
   supplied converter, two converters of one Go type twice
   (Monitors.c13_convs_all, also evaluated on the implementation).
   Statement only; proof in proofs/C13Convs.v. *)
From ArgMapper Require Import Base Graph GraphAlg Types Args Resolver ResolverSpec CheckResolver Monitors ResolverStatements.
Set Implicit Arguments.
Local Open Scope Z_scope.

Definition C13_convs_statement : Prop :=
  forall u bh f d opts b w t r,
    build_args d opts = Some b ->
    call u bh f d opts w t = Ok r ->
    c13_convs_all b (co_of_run r) = true.

(* GraphStatements.v -- the property statements C18, C19, C20 as Coq
   propositions over the graph-layer model.  No proofs here. *)
From ArgMapper Require Import Base Graph GraphAlg GraphHist GraphSpec.
From Coq Require Import Permutation.
Set Implicit Arguments.
Local Open Scope Z_scope.

Section Statements.
  Context {K : Type} `{EqDec K} {V : Type}.
  Notation graph := (graph K V).

  (* ================= C18: shortest-path search =================
     For every well-formed graph with non-negative weights whose total
     weight is below the representable infinity (the domain bound of the
     repaired code: distances are Go ints), every source, and EVERY pop
     sequence the priority queue may produce (each pop is validated to be a
     minimal unvisited element; nothing else is assumed about tie-breaking): *)
  Definition C18_domain (g : graph) (src : K) : Prop :=
    wf_graph g /\ vertex g src /\ nonneg g /\ total_weight g < INF.

  Definition C18_statement : Prop :=
    forall (g : graph) (src : K) (pops : list K) (d : amap K Z) (p : amap K K),
      C18_domain g src ->
      dijkstra g src pops = Ok (d, p) ->
      forall v, vertex g v ->
        (* (a) exact distances for reachable vertices, infinity otherwise *)
        (reach g src v -> exists dv, lookup v d = Some dv /\ min_dist g src v dv) /\
        (~ reach g src v -> lookup v d = Some INF) /\
        (* (b) following the predecessor map from a reachable vertex yields a
           source-to-vertex walk over existing edges whose weight is that distance *)
        (reach g src v -> exists path dv, edge_to_path g p v = Ok path /\
                                        lookup v d = Some dv /\ walk g src v path dv) /\
        (* (c) from an unreachable vertex the chain never leads to the source *)
        (~ reach g src v -> exists path, edge_to_path g p v = Ok path /\ ~ In src path).

  (* the search never panics on the domain and always has admissible pop
     sequences (non-vacuity of the hypothesis "= Ok") *)
  Definition C18_total_statement : Prop :=
    forall (g : graph) (src : K), C18_domain g src ->
      (exists pops d p, dijkstra g src pops = Ok (d, p)) /\
      (forall pops, (exists d p, dijkstra g src pops = Ok (d, p)) \/
                    dijkstra g src pops = TapeErr SITE_POP).

  (* ================= C19: mutations, copies, reversed views =================
     Abstract specification: a plain adjacency model per allocation class
     (functions, not data structures), handles are (class, reversed?). *)
  Record amodel := mkA { mv : K -> option V; me : K -> K -> option Z }.
  Definition a_empty : amodel := mkA (fun _ => None) (fun _ _ => None).
  Definition upd1 {A} (f : K -> A) (k : K) (x : A) : K -> A := fun k' => if eqb k' k then x else f k'.
  Definition upd2 {A} (f : K -> K -> A) (a b : K) (x : A) : K -> K -> A :=
    fun a' b' => if eqb a' a && eqb b' b then x else f a' b'.

  Definition a_add (m : amodel) (k : K) (v : V) : amodel :=
    match mv m k with Some _ => m | None => mkA (upd1 (mv m) k (Some v)) (me m) end.
  Definition a_overwrite (m : amodel) (k : K) (v : V) : amodel := mkA (upd1 (mv m) k (Some v)) (me m).
  Definition a_remove (m : amodel) (k : K) : amodel :=
    mkA (upd1 (mv m) k None) (fun a b => if eqb a k || eqb b k then None else me m a b).
  Definition a_add_edge (m : amodel) (a b : K) (w : Z) : amodel :=
    match mv m a, mv m b with
    | Some _, Some _ => mkA (mv m) (upd2 (me m) a b (Some w))
    | _, _ => m
    end.
  Definition a_remove_edge (m : amodel) (a b : K) : amodel := mkA (mv m) (upd2 (me m) a b None).

  Record astate := mkAS { classes : list amodel; hmap : list (nat * bool) }.
  Definition as0 : astate := mkAS [] [].
  Definition a_handle (s : astate) (h : nat) : nat * bool := nth h (hmap s) (O, false).
  Definition a_class (s : astate) (c : nat) : amodel := nth c (classes s) a_empty.
  Definition on_class (s : astate) (h : nat) (f : amodel -> bool -> amodel) : astate :=
    let (c, r) := a_handle s h in mkAS (set_nth c (f (a_class s c) r) (classes s)) (hmap s).

  Definition astep (s : astate) (o : gop K V) : astate :=
    match o with
    | ONew => mkAS (classes s ++ [a_empty]) (hmap s ++ [(length (classes s), false)])
    | OAdd h k v => on_class s h (fun m _ => a_add m k v)
    | OAddOverwrite h k v => on_class s h (fun m _ => a_overwrite m k v)
    | ORemove h k => on_class s h (fun m _ => a_remove m k)
    | OAddEdge h a b w => on_class s h (fun m r => if r then a_add_edge m b a w else a_add_edge m a b w)
    | ORemoveEdge h a b => on_class s h (fun m r => if r then a_remove_edge m b a else a_remove_edge m a b)
    | OVertex h k => s
    | OCopy h => let (c, r) := a_handle s h in
                 mkAS (classes s ++ [a_class s c]) (hmap s ++ [(length (classes s), r)])
    | OReverse h => let (c, r) := a_handle s h in mkAS (classes s) (hmap s ++ [(c, negb r)])
    end.
  Definition arun (ops : list (gop K V)) : astate := fold_left astep ops as0.

  (* operations mention only handles that exist *)
  Fixpoint ops_ok (n : nat) (ops : list (gop K V)) : Prop :=
    match ops with
    | [] => True
    | o :: ops =>
        match o with
        | ONew => ops_ok (S n) ops
        | OCopy h | OReverse h => (h < n)%nat /\ ops_ok (S n) ops
        | OAdd h _ _ | OAddOverwrite h _ _ | ORemove h _ | OAddEdge h _ _ _
        | ORemoveEdge h _ _ | OVertex h _ => (h < n)%nat /\ ops_ok n ops
        end
    end.

  (* what handle h of the concrete state shows, against the abstract model *)
  Definition agrees (g : graph) (m : amodel) (r : bool) : Prop :=
    (forall k, g_vertex g k = mv m k) /\
    (forall a b, g_weight g a b = if r then me m b a else me m a b) /\       (* successors *)
    (forall a b, lookup a (inner (gin g) b) = if r then me m b a else me m a b) /\  (* predecessors: the mirror *)
    wf_graph g.

  Definition C19_statement : Prop :=
    forall ops : list (gop K V), ops_ok 0 ops ->
      exists s, hrun h0 ops = Ok s /\                        (* never panics *)
        length (handles s) = length (hmap (arun ops)) /\
        forall h, (h < length (handles s))%nat ->
          let (c, r) := a_handle (arun ops) h in
          agrees (view s h) (a_class (arun ops) c) r.

  (* ================= C20: traversals and orderings ================= *)
  (* (a) DFS with a pure descent predicate, no abort *)
  Definition C20a_statement : Prop :=
    forall (g : graph) (desc : K -> bool) (start : K) (t t' : tape K) (rep : list K),
      wf_graph g -> vertex g start ->
      dfs_run g desc (fun _ => false) start t = Ok (rep, false, t') ->
      (forall w, In w rep <->
                 (w <> start /\ exists p wt, walk g start w p wt /\
                                             forall x, In x (interior p) -> desc x = true /\ x <> start)) /\
      (* every vertex the traversal descends into is reported exactly once *)
      NoDup (filter desc rep).

  (* the traversal never panics and never runs out of fuel: fuel |V|+1 is enough *)
  Definition C20a_total_statement : Prop :=
    forall (g : graph) (desc stop : K -> bool) (start : K) (t : tape K),
      wf_graph g -> vertex g start ->
      (exists r, dfs_run g desc stop start t = Ok r) \/ (exists s, dfs_run g desc stop start t = TapeErr s).

  (* abort: the callback's error stops the traversal at once *)
  Definition C20a_abort_statement : Prop :=
    forall (g : graph) (desc stop : K -> bool) (start : K) (t t' : tape K) (rep : list K),
      wf_graph g -> vertex g start ->
      dfs_run g desc stop start t = Ok (rep, true, t') ->
      exists pre w, rep = pre ++ [w] /\ stop w = true /\ forall x, In x pre -> stop x = false.

  (* (b) Kahn *)
  Definition index_lt (L : list K) (a b : K) : Prop :=
    exists l1 l2 l3, L = l1 ++ a :: l2 ++ b :: l3.
  Definition C20b_statement : Prop :=
    forall (g : graph) (t : tape K), wf_graph g ->
      (forall L t', kahn g t = Ok (L, t') ->
                    Permutation L (keys (ghash g)) /\
                    (forall a b w, edge g a b w -> index_lt L a b) /\ acyclic g) /\
      (forall s, kahn g t = Panic s -> ~ acyclic g) /\
      (acyclic g -> forall s, kahn g t <> Panic s) /\
      kahn g t <> OutOfFuel.

  (* (c) Tarjan: the components are exactly the mutual-reachability classes *)
  Definition C20c_statement : Prop :=
    forall (g : graph) (t t' : tape K) (cs : list (list K)), wf_graph g ->
      strongly_connected g t = Ok (cs, t') ->
      Permutation (concat cs) (keys (ghash g)) /\
      (forall c, In c cs -> c <> []) /\
      (forall c a b, In c cs -> In a c -> (In b c <-> (reach g a b /\ reach g b a))).
  Definition C20c_total_statement : Prop :=
    forall (g : graph) (t : tape K), wf_graph g ->
      (exists r, strongly_connected g t = Ok r) \/ (exists s, strongly_connected g t = TapeErr s).

  (* (d) on a single-rooted DAG the topological shortest-path routine agrees
     with the general search on every non-root vertex *)
  Definition single_root (g : graph) (r : K) : Prop :=
    vertex g r /\ forall v, vertex g v -> ((forall a w, ~ edge g a v w) <-> v = r).
  Definition C20d_statement : Prop :=
    forall (g : graph) (r : K) (t t' : tape K) (L : list K) (pops : list K) (d : amap K Z) (p : amap K K),
      C18_domain g r -> single_root g r ->
      kahn g t = Ok (L, t') ->
      dijkstra g r pops = Ok (d, p) ->
      forall v, vertex g v -> v <> r ->
        lookup v (fst (topo_shortest_path g L)) = lookup v d.
End Statements.

(* GraphHist.v -- histories of graph operations over several Go Graph values
   (handles) that may share maps (Reverse) or not (Copy).  Model file. *)
From ArgMapper Require Import Base Graph.
Set Implicit Arguments.
Local Open Scope Z_scope.

Section Hist.
  Context {K : Type} `{EqDec K} {V : Type}.
  Notation graph := (graph K V).
  Notation heap := (heap K V).

  Inductive gop :=
  | ONew                                    (* var g Graph *)
  | OAdd (h : nat) (k : K) (v : V)
  | OAddOverwrite (h : nat) (k : K) (v : V)
  | ORemove (h : nat) (k : K)
  | OAddEdge (h : nat) (k1 k2 : K) (w : Z)  (* AddEdgeWeighted; AddEdge is w = 1 *)
  | ORemoveEdge (h : nat) (k1 k2 : K)
  | OCopy (h : nat)
  | OReverse (h : nat)
  | OVertex (h : nat) (k : K).              (* Vertex(id): reads, but calls init() *)

  Record hstate := mkH { hp : heap; handles : list handle }.
  Definition h0 : hstate := mkH hp_empty [].

  Definition get_handle (s : hstate) (h : nat) : handle := nth h (handles s) zero_handle.

  (* run a mutator that calls init() first *)
  Definition with_init (s : hstate) (h : nat) (f : graph -> option graph) : res hstate :=
    let '(hp1, hd) := h_init (hp s) (get_handle s h) in
    match f (load hp1 hd) with
    | Some g' => Ok (mkH (store hp1 hd g') (set_nth h hd (handles s)))
    | None => Panic 300%N
    end.

  Definition hstep (s : hstate) (o : gop) : res hstate :=
    match o with
    | ONew => Ok (mkH (hp s) (handles s ++ [zero_handle]))
    | OAdd h k v => with_init s h (fun g => Some (g_add g k v))
    | OAddOverwrite h k v => with_init s h (fun g => Some (g_add_overwrite g k v))
    | ORemove h k =>
        (* no init(): deletes on nil maps are no-ops *)
        let hd := get_handle s h in
        Ok (mkH (store (hp s) hd (g_remove (load (hp s) hd) k)) (handles s))
    | OAddEdge h k1 k2 w => with_init s h (fun g => g_add_edge g k1 k2 w)
    | ORemoveEdge h k1 k2 => with_init s h (fun g => Some (g_remove_edge g k1 k2))
    | OVertex h k => with_init s h (fun g => Some g)
    | OCopy h =>
        let '(hp1, hd) := h_copy (hp s) (get_handle s h) in
        Ok (mkH hp1 (handles s ++ [hd]))
    | OReverse h =>
        let '(hp1, hd, hr) := h_reverse (hp s) (get_handle s h) in
        Ok (mkH hp1 (set_nth h hd (handles s) ++ [hr]))
    end.

  Fixpoint hrun (s : hstate) (ops : list gop) : res hstate :=
    match ops with
    | [] => Ok s
    | o :: ops => do s' <- hstep s o; hrun s' ops
    end.

  Definition view (s : hstate) (h : nat) : graph := load (hp s) (get_handle s h).
End Hist.
Arguments gop : clear implicits.
Arguments hstate : clear implicits.

(* Resolver.v -- model of call.go / func.go / redefine.go / convert.go:
   call-graph construction, reachTarget, callDirect, outputValues, Call,
   Convert, Redefine.  Model file: definitions only.

   The model follows the Go code statement by statement where order or
   aliasing can matter (see the comments); iteration orders that can reach
   an observable come from the tape. *)
From ArgMapper Require Import Base Graph GraphAlg Types Args.
Set Implicit Arguments.
Local Open Scope Z_scope.
Local Open Scope list_scope.

(* tape sites of the resolver *)
Definition SITE_REACH_OUT : N := 10%N.   (* reachTarget: g.OutEdges(target) *)
Definition SITE_REACH_IN : N := 11%N.    (* reachTarget: g.InEdges(v) handed to outputValues *)
Definition SITE_GEN_VERTS : N := 12%N.   (* argBuilder.graph: g.Vertices() for generators *)

(* edge weights: regenerated from /repo/graph.go into GenWeights.v *)
From ArgMapper Require Import GenWeights.

(* vertex payload: only function vertices carry one (first Add wins) *)
Inductive vpay := PNone | PFunc (f : fdecl).
Notation rgraph := (graph vkey vpay).

Definition add_v (g : rgraph) (k : vkey) : rgraph := g_add g k PNone.
Definition add_e (g : rgraph) (a b : vkey) (w : Z) : rgraph :=
  match g_add_edge g a b w with Some g' => g' | None => g end.

(* ---------- Func.graph ---------- *)
Definition func_graph (g : rgraph) (f : fdecl) (include_output : bool) : rgraph :=
  let fk := KFunc (fn_type f) in
  let g := g_add g fk (PFunc f) in
  let g := match fn_in f with [] => add_e g fk KRoot w_normal | _ => g end in
  let g := fold_left (fun g fld =>
                        let k := field_key fld in
                        let g := add_v g k in
                        add_e g fk k (if String.eqb (f_name fld) EmptyString then w_typed else w_normal))
                     (fn_in f) g in
  if include_output then
    let g := fold_left (fun g fld => let k := field_out_key fld in add_e (add_v g k) k fk w_normal)
                       (named_entries (fn_out f)) g in
    fold_left (fun g fld => let k := field_out_key fld in add_e (add_v g k) k fk w_typed)
              (typed_entries (fn_out f)) g
  else g.

(* ---------- events and results ---------- *)
Inductive event :=
| EExec (fid : Z) (args : list value) (outs : list value) (err : option Z)   (* a user function body ran *)
| EGen (gid : Z) (k : vkey).                                                  (* a generator was consulted *)

Record result := mkR {
  r_fields : list value;       (* output field values, declaration order *)
  r_err : option Z;            (* the final error result, if non-nil *)
  r_builderr : bool }.         (* Result{buildErr}: an argument was missing *)

(* what a function body does on its n-th execution (scenario component) *)
Inductive beh := BOk | BErr (e : Z) | BNil.      (* BNil: returns a nil *struct *)
Definition behaviour := Z -> Z -> beh.            (* function id -> global execution number -> outcome *)

Inductive rerr :=
| XBuild                         (* option processing failed *)
| XGen (e : Z)                   (* a generator reported an error *)
| XUnsat (args : list vkey) (inputs : list vkey) (convs : list Z (* Go types, in order *)) (full : bool)
| XConv (e : Z)                  (* a converter returned this error *)
| XMissing                       (* callDirect: "argument cannot be satisfied ... this is a bug" *)
| XFilterOut                     (* Redefine: an output does not satisfy the output filter *)
| XDupInput.                     (* Redefine: two required inputs share a name *)

(* ---------- argBuilder.graph ---------- *)
Definition value_of_vertex (k : vkey) : bool :=
  match k with KVal _ _ _ | KOut _ _ => true | _ => false end.

Definition run_gens (g : rgraph) (gens : list gen) (ks : list vkey) (convs : list fdecl) (tr : list event)
  : rgraph * list fdecl * list event * option Z :=
  fold_left (fun acc k =>
    let '(g, convs, tr, err) := acc in
    match err with
    | Some _ => acc
    | None =>
      if value_of_vertex k then
        fold_left (fun acc gn =>
          let '(g, convs, tr, err) := acc in
          match err with
          | Some _ => acc
          | None =>
              let tr := tr ++ [EGen (gen_id gn) k] in
              match lookup k (gen_table gn) with
              | Some (GErr e) => (g, convs, tr, Some e)
              | Some (GFunc f) => (func_graph g f true, convs ++ [f], tr, None)
              | _ => (g, convs, tr, None)
              end
          end) gens acc
      else acc
    end) ks (g, convs, tr, None).

(* ---------- callGraph ---------- *)
Definition val_keys (g : rgraph) : list vkey :=
  filter (fun k => match k with KVal _ _ _ => true | _ => false end) (g_vertex_keys g).
Definition arg_keys (g : rgraph) : list vkey :=
  filter (fun k => match k with KArg _ _ => true | _ => false end) (g_vertex_keys g).
Definition out_keys (g : rgraph) : list vkey :=
  filter (fun k => match k with KOut _ _ => true | _ => false end) (g_vertex_keys g).

Definition step_values (g : rgraph) : rgraph :=
  fold_left (fun g k => match k with
    | KVal n t s =>
        let g := add_e (add_v g (KOut t EmptyString)) k (KOut t EmptyString) w_typed in
        let g := add_e (add_v g (KArg t EmptyString)) (KArg t EmptyString) k w_typed in
        if String.eqb s EmptyString then g else add_e (add_v g (KArg t s)) (KArg t s) k w_typed
    | _ => g end) (val_keys g) g.
Definition step_args (g : rgraph) : rgraph :=
  fold_left (fun g k => match k with
    | KArg t s => add_e (add_v g (KOut t s)) k (KOut t s) w_typed
    | _ => g end) (arg_keys g) g.
Definition step_ifaces (u : universe) (g : rgraph) : rgraph :=
  fold_left (fun g k => match k with
    | KOut t s =>
        if is_iface u t then
          fold_left (fun g k2 => match k2 with
            | KOut t2 s2 => if negb (Base.eqb k k2) && negb (t2 =? t) && implements u t2 t then add_e g k k2 w_typed else g
            | _ => g end) (out_keys g) g
        else g
    | _ => g end) (out_keys g) g.
Definition step_named_sub (valued : vkey -> bool) (g : rgraph) : rgraph :=
  fold_left (fun g k => match k with
    | KVal n t s =>
        if String.eqb s EmptyString && negb (valued k) then
          fold_left (fun g k2 => match k2 with
            | KVal n2 t2 s2 => if String.eqb n2 n && (t2 =? t) && negb (String.eqb s2 EmptyString)
                               then add_e g k k2 w_typed else g
            | _ => g end) (val_keys g) g
        else g
    | _ => g end) (val_keys g) g.
Definition step_arg_sub (g : rgraph) : rgraph :=
  fold_left (fun g k => match k with
    | KArg t s =>
        fold_left (fun g k2 => match k2 with
          | KOut t2 s2 =>
              if (t2 =? t) && (if String.eqb s EmptyString then negb (String.eqb s2 EmptyString) else String.eqb s2 EmptyString)
              then add_e g k k2 w_other_subtype else g
          | _ => g end) (out_keys g) g
    | _ => g end) (arg_keys g) g.
Definition step_redefine (u : universe) (fin : option flt) (g : rgraph) : rgraph :=
  fold_left (fun g k =>
    let t := match k with KVal n t s => Some (n, t, s) | KArg t s => Some (EmptyString, t, s) | _ => None end in
    match t with
    | Some (n, t, s) => if match fin with Some f => flt_okv u f n t s | None => true end
                then add_e g k KRoot w_normal else g
    | None => g end) (g_vertex_keys g) g.

(* vertices reachable from [from] in the REVERSED graph without passing
   through [stop] (closure computed breadth-first; order-free by C20a) *)
Fixpoint closure (fuel : nat) (g : rgraph) (stop : vkey) (frontier seen : list vkey) : list vkey :=
  match fuel with
  | O => seen
  | S f =>
      let next := dedup (flat_map (fun a => if Base.eqb a stop then [] else g_in_keys g a) frontier) in
      let fresh := filter (fun x => negb (memb x seen)) next in
      match fresh with
      | [] => seen
      | _ => closure f g stop fresh (seen ++ fresh)
      end
  end.

Record cgraph := mkCG {
  cg_g : rgraph;
  cg_vals : amap vkey value;       (* Value fields of the vertices *)
  cg_target : vkey;
  cg_inputs : list vkey;           (* vertexI *)
  cg_convs : list fdecl;
  cg_trace : list event;
  cg_tape : tape vkey }.

(* the graph before pruning, with everything callGraph knows *)
Record fgraph := mkFG {
  fg_g : rgraph;
  fg_vals : amap vkey value;
  fg_target : vkey;
  fg_freq : list vkey;             (* requirements of the target *)
  fg_inputs : list vkey;
  fg_convs : list fdecl;
  fg_trace : list event;
  fg_tape : tape vkey }.

Definition full_graph (u : universe) (f : fdecl) (b : builder) (redefining : bool) (t : tape vkey)
  : res ((fgraph + rerr) * list event) :=
  let g := g_add g_empty KRoot PNone in
  let g := func_graph g f false in
  let tk := KFunc (fn_type f) in
  let freq := g_out_keys g tk in
  (* inputs: AddOverwrite + edge to the root *)
  let ins := input_vertices b in
  let g := fold_left (fun g kv => add_e (g_add_overwrite g (fst kv) PNone) (fst kv) KRoot w_normal) ins g in
  let vals := fold_left (fun m kv => insert (fst kv) (snd kv) m) ins [] in
  (* converters *)
  let g := fold_left (fun g c => func_graph g c true) (b_convs b) g in
  (* generators *)
  do (ks, t) <- match b_gens b with
                | [] => Ok ([], t)
                | _ => take_perm SITE_GEN_VERTS (g_vertex_keys g) t
                end;
  let '(g, convs, tr, gerr) := run_gens g (b_gens b) ks (b_convs b) [] in
  match gerr with
  | Some e => Ok (inr (XGen e), tr)
  | None =>
      let g := step_values g in
      let g := step_args g in
      let g := step_ifaces u g in
      let g := step_named_sub (fun k => mem k vals) g in
      let g := step_arg_sub g in
      let g := if redefining then step_redefine u (b_fin b) g else g in
      Ok (inl (mkFG g vals tk freq (map fst ins) convs tr t), tr)
  end.

(* prune what the inputs cannot reach; report pruned requirements *)
Definition prune (fg : fgraph) : cgraph + rerr :=
  let g := fg_g fg in
  let keep := closure (S (List.length (g_vertex_keys g))) g (fg_target fg) [KRoot] [KRoot] in
  let g := fold_left (fun g k => if memb k keep then g else g_remove g k) (g_vertex_keys g) g in
  let unsat := filter (fun k => negb (mem k (ghash g))) (fg_freq fg) in
  match unsat with
  | [] => inl (mkCG g (fg_vals fg) (fg_target fg) (fg_inputs fg) (fg_convs fg) (fg_trace fg) (fg_tape fg))
  | _ => inr (XUnsat unsat (fg_inputs fg) (map fn_type (fg_convs fg)) true)
  end.

Definition call_graph (u : universe) (f : fdecl) (b : builder) (redefining : bool) (t : tape vkey)
  : res ((cgraph + rerr) * list event) :=
  do (r, tr) <- full_graph u f b redefining t;
  match r with
  | inr e => Ok (inr e, tr)
  | inl fg => Ok (prune fg, tr)
  end.

(* ---------- reachTarget ---------- *)
Record rstate := mkS {
  s_vals : amap vkey value;
  s_last : option value;          (* callState.Value *)
  s_inputs : list vkey;           (* callState.InputSet (keys) *)
  s_inprog : list vkey;           (* callState.InProgress *)
  s_world : amap Z result;        (* FuncOnce caches, by function id *)
  s_trace : list event;
  s_nexec : Z;                    (* executions so far: fresh value ids *)
  s_tape : tape vkey }.

Definition set_vals (s : rstate) (m : amap vkey value) : rstate :=
  mkS m (s_last s) (s_inputs s) (s_inprog s) (s_world s) (s_trace s) (s_nexec s) (s_tape s).
Definition set_last (s : rstate) (v : option value) : rstate :=
  mkS (s_vals s) v (s_inputs s) (s_inprog s) (s_world s) (s_trace s) (s_nexec s) (s_tape s).
Definition set_tape (s : rstate) (t : tape vkey) : rstate :=
  mkS (s_vals s) (s_last s) (s_inputs s) (s_inprog s) (s_world s) (s_trace s) (s_nexec s) t.
Definition add_input (s : rstate) (k : vkey) : rstate :=
  mkS (s_vals s) (s_last s) (if memb k (s_inputs s) then s_inputs s else s_inputs s ++ [k])
      (s_inprog s) (s_world s) (s_trace s) (s_nexec s) (s_tape s).
Definition set_inprog (s : rstate) (l : list vkey) : rstate :=
  mkS (s_vals s) (s_last s) (s_inputs s) l (s_world s) (s_trace s) (s_nexec s) (s_tape s).
Definition set_val (s : rstate) (k : vkey) (v : option value) : rstate :=
  set_vals s (match v with Some x => insert k x (s_vals s) | None => delete k (s_vals s) end).

Definition argmap := amap vkey value.

Section Run.
  Variable u : universe.
  Variable behave : behaviour.
  Variable g : rgraph.            (* the pruned call graph; never mutated *)
  Variable redefine : bool.

  (* Graph.Copy + the matching-name discount for a named requirement *)
  Definition discount (cur : vkey) : rgraph :=
    match cur with
    | KVal n _ _ =>
        fold_left (fun g' k => match k with
          | KVal n2 _ _ => if String.eqb n2 n
                           then fold_left (fun g' src => add_e g' src k w_matching_name) (g_in_keys g' k) g'
                           else g'
          | _ => g' end) (g_vertex_keys g) g
    | _ => g
    end.

  Definition fresh_outs (f : fdecl) (n : Z) : list value :=
    map (fun it => mkV (1000 * n + Z.of_nat (fst it) + 1) (f_ty (snd it)))
        (combine (seq 0 (List.length (fn_out f))) (fn_out f)).
  Definition zero_outs (f : fdecl) : list value := map (fun fld => zero_of (f_ty fld)) (fn_out f).

  (* callDirect *)
  Definition call_direct (f : fdecl) (am : argmap) (s : rstate) : res (result * rstate) :=
    match (if fn_once f then lookup (fn_id f) (s_world s) else None) with
    | Some r => Ok (r, s)                      (* cached result, nothing runs *)
    | None =>
        let args := map (fun fld => (fld, lookup (field_key fld) am)) (fn_in f) in
        if existsb (fun a => match snd a with
                             | Some v => negb (assignable u (v_ty v) (f_ty (fst a)))
                             | None => false end) args
        then Panic 400%N                       (* reflect.Set: value not assignable *)
        else if existsb (fun a => match snd a with None => true | Some _ => false end) args
        then Ok (mkR [] None true, s)          (* Result{buildErr}; not cached *)
        else
          let argv := flat_map (fun a => match snd a with Some v => [mkV (v_id v) (f_ty (fst a))] | None => [] end) args in
          if redefine then
            (* the vertex holds a copy whose body produces zero values; the
               memo of the copy is private, nothing is recorded *)
            Ok (mkR (zero_outs f) None false, s)
          else
            let n := s_nexec s + 1 in
            let '(outs, err) := match behave (fn_id f) n with
                                | BOk => (fresh_outs f n, None)
                                | BErr e => (zero_outs f, Some e)
                                | BNil => (zero_outs f, None)
                                end in
            let err := if fn_err f then err else None in
            let r := mkR outs err false in
            let w := if fn_once f then insert (fn_id f) r (s_world s) else s_world s in
            Ok (r, mkS (s_vals s) (s_last s) (s_inputs s) (s_inprog s) w
                       (s_trace s ++ [EExec (fn_id f) argv outs err]) n (s_tape s))
    end.

  (* outputValues: write the results onto the vertices that depend on f *)
  Definition output_values (f : fdecl) (r : result) (ins : list vkey) (s : rstate) : res rstate :=
    fold_left (fun acc k =>
      do s <- acc;
      match k with
      | KVal n _ _ => match last_named n (fn_out f) 0 None with
                      | Some (i, _) => Ok (set_val s k (nth_error (r_fields r) i))
                      | None => Panic 401%N        (* namedValues[v.Name] is nil *)
                      end
      | KOut t _ => match last_typed t (fn_out f) 0 None with
                    | Some (i, _) => Ok (set_val s k (nth_error (r_fields r) i))
                    | None => Panic 402%N          (* typedValues[v.Type] is nil *)
                    end
      | _ => Ok s
      end) ins (Ok s).

  Definition is_func (k : vkey) : bool := match k with KFunc _ => true | _ => false end.

  (* plan one requirement: discount, Dijkstra on the reversed graph, path,
     self-dependency check, input recording, redefine zeroing *)
  Definition plan (cur : vkey) (s : rstate) : res (list vkey * bool * rstate) :=
    let cg := discount cur in
    do (d, p, t') <- dijkstra_t (g_reverse cg) KRoot (s_tape s);
    do path <- edge_to_path cg p cur;
    let input := match path with
                 | KRoot :: x :: _ => x
                 | x :: _ => x
                 | [] => cur
                 end in
    let bad := existsb (fun v => memb v (s_inprog s)) path in
    let s := add_input (set_tape s t') input in
    let s := if redefine then
               match input with
               | KVal _ t _ => if mem input (s_vals s) then s else set_val s input (Some (zero_of t))
               | KArg t _ => set_val s input (Some (zero_of t))
               | _ => s
               end
             else s in
    Ok (path, bad, s).

  Fixpoint reach (fuel : nat) (target : vkey) (s : rstate) : res (rstate * (argmap + rerr)) :=
    match fuel with
    | O => OutOfFuel
    | S fuel' =>
      let s := set_inprog s (target :: s_inprog s) in
      let leave (s : rstate) := set_inprog s (remove1 target (s_inprog s)) in
      do (outs, t') <- take_perm SITE_REACH_OUT (g_out_keys g target) (s_tape s);
      let s := set_tape s t' in
      (* which requirements still need a value *)
      let '(am, todo) :=
        fold_left (fun acc o =>
          let '(am, todo) := acc in
          match o with
          | KRoot => (am, todo)
          | KArg _ _ => match lookup o (s_vals s) with
                        | Some v => (insert o v am, todo)
                        | None => (am, todo ++ [o])
                        end
          | KVal _ _ _ => match (if redefine then None else lookup o (s_vals s)) with
                          | Some v => (insert o v am, todo)
                          | None => (am, todo ++ [o])
                          end
          | _ => (am, todo ++ [o])
          end) outs (([] : argmap), ([] : list vkey)) in
      match todo with
      | [] => Ok (leave s, inl am)
      | _ =>
        (* plan every missing requirement first *)
        do (paths, unsat, s) <-
          fold_left (fun acc cur =>
            do (paths, unsat, s) <- acc;
            do (path, bad, s) <- plan cur s;
            Ok (paths ++ [path], (if (bad : bool) then unsat ++ [cur] else unsat), s))
            todo (Ok ([], [], s));
        match unsat with
        | _ :: _ => Ok (leave s, inr (XUnsat unsat [] [] false))
        | [] =>
          (* then walk the paths in order *)
          (fix walk_paths (paths : list (list vkey)) (am : argmap) (s : rstate)
             : res (rstate * (argmap + rerr)) :=
             match paths with
             | [] => Ok (leave s, inl am)
             | path :: rest =>
               bind ((fix walk (prev : option vkey) (vs : list vkey) (final : option value) (s : rstate)
                  : res (rstate * (option value + rerr)) :=
                  match vs with
                  | [] => Ok (s, inl final)
                  | v :: vs =>
                    match v with
                    | KRoot => walk (Some v) vs final s
                    | KVal _ _ _ =>
                        let s := match prev with
                                 | Some (KOut t st) => set_val s v (lookup (KOut t st) (s_vals s))
                                 | Some (KVal n2 t2 s2) =>
                                     (* a named value also takes over the value of the named
                                        value it follows (the same-named value with a subtype) *)
                                     match lookup (KVal n2 t2 s2) (s_vals s) with
                                     | Some x => set_val s v (Some x)
                                     | None => s
                                     end
                                 | _ => s end in
                        let cur := lookup v (s_vals s) in
                        let s := set_last s cur in
                        walk (Some v) vs (match cur with Some x => Some x | None => final end) s
                    | KArg t _ =>
                        let s := match s_last s with
                                 | Some x => if assignable u (v_ty x) t then set_val s v (Some x) else s
                                 | None => s end in
                        walk (Some v) vs (lookup v (s_vals s)) s
                    | KOut _ _ =>
                        let s := match prev with
                                 | Some (KOut t st) => set_val s v (lookup (KOut t st) (s_vals s))
                                 | _ => s end in
                        let s := set_last s (lookup v (s_vals s)) in
                        walk (Some v) vs final s
                    | KFunc _ =>
                        match g_vertex g v with
                        | Some (PFunc f) =>
                            do (s, r) <- reach fuel' v s;
                            match r with
                            | inr e => Ok (s, inr e)
                            | inl fam =>
                                do (res, s) <- call_direct f fam s;
                                if r_builderr res then Ok (s, inr XMissing)
                                else match r_err res with
                                     | Some e => Ok (s, inr (XConv e))
                                     | None =>
                                         do (ins, t') <- take_perm SITE_REACH_IN (g_in_keys g v) (s_tape s);
                                         do s <- output_values f res ins (set_tape s t');
                                         walk (Some v) vs final s
                                     end
                            end
                        | _ => Panic 403%N       (* function vertex without a function *)
                        end
                    end
                  end) None path None s)
               (fun sr =>
                 let '(s, r) := sr in
                 match r with
                 | inr e => Ok (leave s, inr e)
                 | inl None => Panic 404%N       (* "didn't reach a final value for path" *)
                 | inl (Some fv) => walk_paths rest (insert (last path KRoot) fv am) s
                 end)
             end) paths am s
        end
      end
    end.
End Run.

(* ================= top level: Call, Convert, Redefine ================= *)
Record world := mkW { w_once : amap Z result; w_nexec : Z }.
Definition world0 : world := mkW [] 0.

Inductive outcome :=
| OOk (r : result)           (* the target ran; r carries its outputs and error *)
| OErr (e : rerr).           (* resolution failed; the target did not run *)

Record run := mkRun { run_out : outcome; run_trace : list event; run_world : world; run_tape : tape vkey;
                      run_inputs : list vkey (* InputSet, for Redefine *) }.

Definition init_state (cg : cgraph) (w : world) : rstate :=
  mkS (cg_vals cg) None [] [] (w_once w) (cg_trace cg) (w_nexec w) (cg_tape cg).

Definition fuel_of (cg : cgraph) : nat := S (List.length (g_vertex_keys (cg_g cg))).

(* Func.Call *)
Definition call (u : universe) (behave : behaviour) (f : fdecl) (defaults opts : list arg)
           (w : world) (t : tape vkey) : res run :=
  match build_args defaults opts with
  | None => Ok (mkRun (OErr XBuild) [] w t [])
  | Some b =>
      do (cgr, tr0) <- call_graph u f b false t;
      match cgr with
      | inr e => Ok (mkRun (OErr e) tr0 w t [])
      | inl cg =>
          do (s, r) <- reach u behave (cg_g cg) false (fuel_of cg) (cg_target cg) (init_state cg w);
          match r with
          | inr e => Ok (mkRun (OErr e) (s_trace s) (mkW (s_world s) (s_nexec s)) (s_tape s) (s_inputs s))
          | inl am =>
              do (res, s) <- call_direct u behave false f am s;
              Ok (mkRun (if r_builderr res then OErr XMissing else OOk res)
                        (s_trace s) (mkW (s_world s) (s_nexec s)) (s_tape s) (s_inputs s))
          end
      end
  end.

(* Convert(T, opts...): Call on a synthesised func(T) T; the converted value
   is the identity function's first raw result *)
Definition identity_fn (t : ty) : fdecl :=
  mkFn (-1) (-1 - t) FPos [mkF EmptyString t EmptyString] FPos [mkF EmptyString t EmptyString] false false.

Definition convert (u : universe) (behave : behaviour) (t : ty) (opts : list arg)
           (w : world) (tp : tape vkey) : res (option value * run) :=
  (* the identity body returns its argument: behaviour is fixed, not a scenario component *)
  do r <- call u (fun fid n => if fid =? -1 then BOk else behave fid n) (identity_fn t) [] opts w tp;
  match run_out r with
  | OOk res =>
      match r_err res with
      | Some _ => Ok (None, r)
      | None =>
          (* the value the identity received = the argument of its (last) execution *)
          let arg := match rev (run_trace r) with
                     | EExec _ [a] _ _ :: _ => Some a
                     | _ => None end in
          Ok (arg, r)
      end
  | OErr _ => Ok (None, r)
  end.

(* Func.Redefine: the inputs of the redefined function *)
Inductive rfield := RNamed (n : string) (t : ty) | RTyped (t : ty).

Definition redefine (u : universe) (f : fdecl) (defaults opts : list arg)
           (w : world) (t : tape vkey) : res ((list rfield + rerr) * run) :=
  (* redefineOutputs uses the Redefine options only *)
  match build_args [] opts with
  | None => Ok (inr XBuild, mkRun (OErr XBuild) [] w t [])
  | Some bo =>
    if match b_fout bo with
       | Some flt => negb (forallb (fun fld => flt_okv u flt (f_name fld) (f_ty fld) (f_sub fld)) (fn_out f))
       | None => false end
    then Ok (inr XFilterOut, mkRun (OErr XFilterOut) [] w t [])
    else
      match build_args defaults opts with
      | None => Ok (inr XBuild, mkRun (OErr XBuild) [] w t [])
      | Some b =>
          do (cgr, tr0) <- call_graph u f b true t;
          match cgr with
          | inr e => Ok (inr e, mkRun (OErr e) tr0 w t [])
          | inl cg =>
              do (s, r) <- reach u (fun _ _ => BOk) (cg_g cg) true (fuel_of cg) (cg_target cg) (init_state cg w);
              let rn := mkRun (match r with inr e => OErr e | inl _ => OOk (mkR [] None false) end)
                              (s_trace s) (mkW (s_world s) (s_nexec s)) (s_tape s) (s_inputs s) in
              match r with
              | inr e => Ok (inr e, rn)
              | inl _ =>
                  let provided := cg_inputs cg ++
                                  flat_map (fun k => match k with KOut t st => [KArg t st] | _ => [] end) (cg_inputs cg) in
                  let missing := filter (fun k => negb (memb k provided)) (s_inputs s) in
                  let names := flat_map (fun k => match k with KVal n _ _ => [upper n] | _ => [] end) missing in
                  if negb (nodupb names) then Ok (inr XDupInput, rn)
                  else
                  Ok (inl (flat_map (fun k => match k with
                                              | KVal n t _ => [RNamed n t]
                                              | KArg t _ => [RTyped t]
                                              | _ => [] end) missing), rn)
              end
          end
      end
  end.

(* calling a redefined function: the original Call with the Redefine options
   followed by one Named/Typed option per declared input *)
Definition redefined_opts (opts : list arg) (ins : list (rfield * value)) : list arg :=
  opts ++ map (fun iv => match fst iv with
                         | RNamed n _ => ANamed n (Some (snd iv))
                         | RTyped _ => ATyped [Some (snd iv)]
                         end) ins.

(* C1112Conc.v -- proofs of the statements of ConcStatements.v:
   C11 (concurrent half: interleaving model of the run-once protocol) and
   C12 (calls without run-once functions neither write nor read the memo
   table shared between calls). *)
From ArgMapper Require Import Base Graph GraphAlg Types Args Resolver ResolverSpec CheckResolver Monitors Conc ConcStatements.
From ArgMapper.proofs Require Import C0911OnceLemmas C0911Once C1112ConcLemmas C1112ConcSim.
Set Implicit Arguments.
Local Open Scope Z_scope.
Local Open Scope list_scope.

(* ================= C11, concurrent ================= *)
Theorem C11_conc_proof : C11_conc_statement.
Proof.
  unfold C11_conc_statement. intros k sched. cbv zeta.
  apply cinv_final. apply cinv_run. apply cinv_init.
Qed.
Print Assumptions C11_conc_proof.

Theorem C11_conc_progress_proof : C11_conc_progress_statement.
Proof.
  unfold C11_conc_progress_statement. intros k.
  exists (turns 0 k). intros i L.
  destruct (@good_turns k k 0%nat (cinit k) (le_n _) (good_init k)) as [_ [_ [HD _]]].
  apply HD. exact L.
Qed.
Print Assumptions C11_conc_progress_proof.

Theorem C11_unlocked_refuted_proof : C11_unlocked_refuted_statement.
Proof.
  unfold C11_unlocked_refuted_statement.
  exists [0%nat; 1%nat; 0%nat; 1%nat]. vm_compute. reflexivity.
Qed.
Print Assumptions C11_unlocked_refuted_proof.

(* ================= C12 ================= *)
Lemma no_once_known f d opts b :
  no_once f d opts -> build_args d opts = Some b ->
  forall h, In h (known_funcs f b) -> fn_once h = false.
Proof.
  intros NO BA h I. specialize (NO b BA). rewrite forallb_forall in NO.
  specialize (NO h I). destruct (fn_once h); [discriminate|reflexivity].
Qed.

Lemma reach_world u bh g rd fuel target s s' r :
  (forall v f, g_vertex g v = Some (PFunc f) -> fn_once f = false) ->
  reach u bh g rd fuel target s = Ok (s', r) -> s_world s' = s_world s.
Proof.
  intros Hno E.
  assert (Q : fst (fst (core s)) = fst (fst (core s'))); [|symmetry; exact Q].
  eapply (@reach_inv u bh g rd (fun a b => fst (fst a) = fst (fst b))); [| | |exact E].
  - intros; reflexivity.
  - intros a b c -> ->; reflexivity.
  - intros v f am s0 r0 s1 GV CD. unfold core. cbn [fst].
    symmetry. eapply call_direct_world; [|exact CD]. eapply Hno; exact GV.
Qed.

Theorem C12_nowrite_proof : C12_nowrite_statement.
Proof.
  unfold C12_nowrite_statement. intros u bh f d opts w t r NO E.
  unfold call in E.
  destruct (build_args d opts) as [b|] eqn:BA; [|inversion E; reflexivity].
  pose proof (no_once_known NO BA) as HK.
  destruct (call_graph u f b false t) as [[cgr tr0]| | |] eqn:CG; cbn [bind] in E; try discriminate.
  apply call_graph_ok in CG. destruct CG as [_ R].
  destruct cgr as [cg|e]; [|inversion E; reflexivity].
  destruct R as [P _].
  destruct (reach u bh (cg_g cg) false (fuel_of cg) (cg_target cg) (init_state cg w))
    as [[s r0]| | |] eqn:R; cbn [bind] in E; try discriminate.
  apply reach_world in R.
  2:{ intros v h GV. apply HK. apply (P v h). exact GV. }
  unfold init_state in R. cbn [s_world] in R.
  destruct r0 as [am|e].
  - destruct (call_direct u bh false f am s) as [[res s2]| | |] eqn:CD; cbn [bind] in E; try discriminate.
    apply call_direct_world in CD; [|apply HK; apply known_f].
    inversion E; subst. cbn [run_world w_once]. congruence.
  - inversion E; subst. cbn [run_world w_once]. exact R.
Qed.
Print Assumptions C12_nowrite_proof.

Theorem C12_independent_proof : C12_independent_statement.
Proof.
  unfold C12_independent_statement. intros u bh f d opts w1 w2 t NO HN.
  unfold call.
  destruct (build_args d opts) as [b|] eqn:BA; [|cbn [run_out run_trace run_tape]; auto].
  pose proof (no_once_known NO BA) as HK.
  destruct (call_graph u f b false t) as [[cgr tr0]| | |] eqn:CG; cbn [bind]; auto.
  apply call_graph_ok in CG. destruct CG as [_ R].
  destruct cgr as [cg|e]; [|cbn [run_out run_trace run_tape]; auto].
  destruct R as [P _].
  assert (Hno : forall v h, g_vertex (cg_g cg) v = Some (PFunc h) -> fn_once h = false).
  { intros v h GV. apply HK. apply (P v h). exact GV. }
  assert (IS : init_state cg w2 = ww (w_once w2) (init_state cg w1)).
  { unfold init_state, ww. cbn [s_vals s_last s_inputs s_inprog s_trace s_nexec s_tape].
    rewrite HN. reflexivity. }
  rewrite IS. rewrite (@reach_ww u bh (cg_g cg) false (w_once w2) Hno).
  destruct (reach u bh (cg_g cg) false (fuel_of cg) (cg_target cg) (init_state cg w1))
    as [[s r0]| | |]; cbn [lift rmap bind fst snd]; auto.
  destruct r0 as [am|e]; [|cbn [run_out run_trace run_tape]; auto].
  rewrite (call_direct_ww u bh false f am (w_once w2) s (HK f (known_f f b))).
  destruct (call_direct u bh false f am s) as [[res s2]| | |]; cbn [lift2 rmap bind fst snd]; auto.
Qed.
Print Assumptions C12_independent_proof.

(* C05CompleteClosureBase.v -- generic helpers for C05CompleteClosure.v:
   list helpers (dedup / filter / NoDup), a generic breadth-first closure
   [gbfs] with its fuel argument, closedness and induction principle, the
   neighbour-list / edge correspondence on well-formed graphs and the effect
   of removing a set of vertices.  Self-contained (stdlib + C18/C19 helpers). *)
From ArgMapper Require Import Base Graph GraphAlg GraphHist GraphSpec GraphStatements.
From ArgMapper.proofs Require Import C18DijkstraLemmas C19RefineMap C19RefineGraph.
From Coq Require Import Lia ZArith List.
Import ListNotations.
Set Implicit Arguments.

Section Gen.
  Context {K : Type} {E : EqDec K} {V : Type}.
  Notation graph := (graph K V).

  (* ---------- list helpers ---------- *)
  Lemma cc_in_dedup (x : K) (l : list K) : In x (dedup l) <-> In x l.
  Proof.
    induction l as [|y l IH]; simpl; [tauto|].
    destruct (memb y l) eqn:M.
    - rewrite IH. apply memb_In in M. split; [auto|]. intros [->|A]; auto.
    - simpl. rewrite IH. tauto.
  Qed.

  Lemma cc_nodup_dedup (l : list K) : NoDup (dedup l).
  Proof.
    induction l as [|y l IH]; simpl; [constructor|].
    destruct (memb y l) eqn:M; [exact IH|].
    constructor; [|exact IH]. rewrite cc_in_dedup. apply memb_false. exact M.
  Qed.

  Lemma cc_nodup_filter {A} (p : A -> bool) (l : list A) : NoDup l -> NoDup (filter p l).
  Proof.
    induction 1 as [|x l NI ND IH]; simpl; [constructor|].
    destruct (p x); [|exact IH]. constructor; [|exact IH].
    intros I. apply filter_In in I. destruct I as [I _]. contradiction.
  Qed.

  Lemma cc_nodup_app {A} (l1 l2 : list A) :
    NoDup l1 -> NoDup l2 -> (forall x, In x l1 -> In x l2 -> False) -> NoDup (l1 ++ l2).
  Proof.
    induction 1 as [|x l NI ND IH]; simpl; intros N2 D; [exact N2|].
    constructor.
    - rewrite in_app_iff. intros [I|I]; [contradiction|]. apply (D x); [left; reflexivity|exact I].
    - apply IH; [exact N2|]. intros y I1 I2. apply (D y); [right; exact I1|exact I2].
  Qed.

  Lemma cc_filter_nil_all {A} (p : A -> bool) (l : list A) :
    filter p l = [] -> forall x, In x l -> p x = false.
  Proof.
    induction l as [|y l IH]; simpl; intros Q x I; [destruct I|].
    destruct (p y) eqn:Py; [discriminate|].
    destruct I as [->|I]; [exact Py|apply IH; assumption].
  Qed.

  (* ---------- generic breadth-first closure ---------- *)
  Section Bfs.
    Variable succ : K -> list K.

    Fixpoint gbfs (fuel : nat) (frontier seen : list K) : list K :=
      match fuel with
      | O => seen
      | S f =>
          let next := dedup (flat_map succ frontier) in
          let fresh := filter (fun x => negb (memb x seen)) next in
          match fresh with
          | [] => seen
          | _ => gbfs f fresh (seen ++ fresh)
          end
      end.

    Definition gfresh (frontier seen : list K) : list K :=
      filter (fun x => negb (memb x seen)) (dedup (flat_map succ frontier)).

    Lemma gbfs_0 frontier seen : gbfs 0 frontier seen = seen.
    Proof. reflexivity. Qed.

    Lemma gbfs_S fuel frontier seen :
      gbfs (S fuel) frontier seen =
      match gfresh frontier seen with
      | [] => seen
      | _ :: _ => gbfs fuel (gfresh frontier seen) (seen ++ gfresh frontier seen)
      end.
    Proof. unfold gfresh. cbn [gbfs]. destruct (filter _ _); reflexivity. Qed.

    Lemma gfresh_in frontier seen x :
      In x (gfresh frontier seen) <->
      (exists a, In a frontier /\ In x (succ a)) /\ ~ In x seen.
    Proof.
      unfold gfresh. rewrite filter_In, cc_in_dedup, in_flat_map, negb_true_iff, memb_false.
      reflexivity.
    Qed.

    Lemma gfresh_nodup frontier seen : NoDup (gfresh frontier seen).
    Proof. unfold gfresh. apply cc_nodup_filter, cc_nodup_dedup. Qed.

    Lemma gbfs_incl : forall fuel frontier seen, incl seen (gbfs fuel frontier seen).
    Proof.
      induction fuel as [|f IH]; intros frontier seen x I.
      - rewrite gbfs_0. exact I.
      - rewrite gbfs_S. destruct (gfresh frontier seen) as [|y fr] eqn:Fr; [exact I|].
        apply IH. apply in_or_app. left. exact I.
    Qed.

    (* induction principle: everything in the result is obtained from the
       initial frontier / seen set by following [succ] *)
    Lemma gbfs_ind (P : K -> Prop) :
      (forall a x, P a -> In x (succ a) -> P x) ->
      forall fuel frontier seen,
        (forall k, In k frontier -> P k) -> (forall k, In k seen -> P k) ->
        forall k, In k (gbfs fuel frontier seen) -> P k.
    Proof.
      intros St. induction fuel as [|f IH]; intros frontier seen Pf Ps k Ik.
      - rewrite gbfs_0 in Ik. apply Ps. exact Ik.
      - rewrite gbfs_S in Ik.
        assert (PF : forall x, In x (gfresh frontier seen) -> P x).
        { intros x I. apply gfresh_in in I. destruct I as [(a & Ia & Ix) _].
          apply (St a x); auto. }
        destruct (gfresh frontier seen) as [|y fr] eqn:Fr.
        + apply Ps. exact Ik.
        + revert Ik. apply IH; [exact PF|].
          intros x I. apply in_app_or in I. destruct I as [I|I]; [apply Ps|apply PF]; exact I.
    Qed.

    (* the fuel argument *)
    Variable univ : list K.
    Hypothesis Hsucc : forall a x, In x (succ a) -> In x univ.

    Lemma gbfs_closed : forall fuel frontier seen,
      NoDup seen -> incl seen univ ->
      (forall a x, In a seen -> ~ In a frontier -> In x (succ a) -> In x seen) ->
      (length univ + 1 <= fuel + length seen)%nat ->
      forall a x, In a (gbfs fuel frontier seen) \/ In a frontier ->
                  In x (succ a) -> In x (gbfs fuel frontier seen).
    Proof.
      induction fuel as [|f IH]; intros frontier seen ND Inc Cl Len a x Ia Ix.
      - exfalso. pose proof (NoDup_incl_length ND Inc) as B. simpl in Len. lia.
      - rewrite gbfs_S.
        assert (Step : forall a' x', In a' frontier -> In x' (succ a') ->
                                     In x' seen \/ In x' (gfresh frontier seen)).
        { intros a' x' Ia' Ix'. destruct (In_dec_K x' seen) as [Q|Q]; [left; exact Q|].
          right. apply gfresh_in. split; [exists a'; auto|exact Q]. }
        rewrite gbfs_S in Ia.
        destruct (gfresh frontier seen) as [|y fr] eqn:Fr.
        + destruct (In_dec_K a frontier) as [Af|Af].
          * destruct (Step a x Af Ix) as [Q|[]]. exact Q.
          * destruct Ia as [Ia|Ia]; [|contradiction]. apply (Cl a x); auto.
        + set (fresh := y :: fr) in *.
          assert (FrIn : forall z, In z fresh ->
                    (exists a', In a' frontier /\ In z (succ a')) /\ ~ In z seen).
          { intros z I. apply gfresh_in. rewrite Fr. exact I. }
          assert (ND' : NoDup (seen ++ fresh)).
          { apply cc_nodup_app; [exact ND| |].
            - rewrite <- Fr. apply gfresh_nodup.
            - intros z I1 I2. apply FrIn in I2. destruct I2 as [_ N]. contradiction. }
          assert (Inc' : incl (seen ++ fresh) univ).
          { intros z I. apply in_app_or in I. destruct I as [I|I]; [apply Inc; exact I|].
            apply FrIn in I. destruct I as [(a' & _ & Iz) _]. eapply Hsucc; eauto. }
          assert (Cl' : forall a' x', In a' (seen ++ fresh) -> ~ In a' fresh -> In x' (succ a') ->
                                      In x' (seen ++ fresh)).
          { intros a' x' Ia' Na' Ix'. apply in_app_or in Ia'.
            destruct Ia' as [Ia'|Ia']; [|contradiction].
            destruct (In_dec_K a' frontier) as [Af|Af].
            - apply in_or_app. apply (Step a' x'); auto.
            - apply in_or_app. left. apply (Cl a' x'); auto. }
          assert (Len' : (length univ + 1 <= f + length (seen ++ fresh))%nat).
          { rewrite app_length. unfold fresh. simpl. lia. }
          destruct Ia as [Ia|Af].
          * apply (IH fresh (seen ++ fresh) ND' Inc' Cl' Len' a x); auto.
          * apply gbfs_incl. apply in_or_app. apply (Step a x); auto.
    Qed.
  End Bfs.

  (* ---------- neighbour lists and edges ---------- *)
  Lemma cc_in_out_keys (g : graph) (a b : K) : In b (g_out_keys g a) <-> exists w, edge g a b w.
  Proof. unfold g_out_keys, edge. apply in_keys_lookup. Qed.

  Lemma cc_in_in_keys (g : graph) (a b : K) :
    wf_graph g -> (In a (g_in_keys g b) <-> exists w, edge g a b w).
  Proof.
    intros W. unfold g_in_keys, edge. rewrite in_keys_lookup. split.
    - intros [w Q]. exists w. apply (wf_mirror W). exact Q.
    - intros [w Q]. exists w. apply (wf_mirror W). exact Q.
  Qed.

  Lemma cc_in_vertex_keys (g : graph) (k : K) : In k (g_vertex_keys g) <-> vertex g k.
  Proof. reflexivity. Qed.

  Lemma cc_vertex_lookup (g : graph) (k : K) : vertex g k <-> g_vertex g k <> None.
  Proof.
    unfold vertex, g_vertex. rewrite in_keys_lookup.
    destruct (lookup k (ghash g)) as [v|]; split; try congruence; eauto.
    intros [v Q]; discriminate.
  Qed.

  Lemma cc_walk_head (g : graph) a b p w : walk g a b p w -> exists p', p = a :: p'.
  Proof. intros Wk. destruct Wk; eauto. Qed.

  (* ---------- the functional view of a well-formed graph ---------- *)
  Lemma cc_wf_gspec (g : graph) :
    wf_graph g -> gspec g (fun k => lookup k (ghash g)) (fun a b => lookup b (inner (gout g) a)).
  Proof.
    intros W. split; [reflexivity|]. split; [reflexivity|]. split; [|exact W].
    intros a b.
    destruct (lookup b (inner (gout g) a)) as [w|] eqn:Q.
    - apply (wf_mirror W). exact Q.
    - destruct (lookup a (inner (gin g) b)) as [w|] eqn:Q'; [|reflexivity].
      apply (wf_mirror W) in Q'. congruence.
  Qed.

  (* ---------- removing a set of vertices ---------- *)
  Definition cc_removed (keep l : list K) (k : K) : bool := memb k l && negb (memb k keep).

  Lemma cc_fold_remove_gspec (keep : list K) (l : list K) : forall (g : graph) fv fe,
    gspec g fv fe ->
    gspec (fold_left (fun g k => if memb k keep then g else g_remove g k) l g)
          (fun k => if cc_removed keep l k then None else fv k)
          (fun a b => if cc_removed keep l a || cc_removed keep l b then None else fe a b).
  Proof.
    induction l as [|x l IH]; intros g fv fe G; simpl.
    - eapply gspec_ext; [exact G| |]; reflexivity.
    - destruct (memb x keep) eqn:M.
      + assert (R : forall c, cc_removed keep (x :: l) c = cc_removed keep l c).
        { intros c. unfold cc_removed. simpl.
          destruct (eqb_spec c x) as [->|N]; simpl; [|reflexivity].
          rewrite M. simpl. rewrite andb_false_r. reflexivity. }
        eapply gspec_ext; [exact (IH g fv fe G)| |].
        * intros k. simpl. rewrite R. reflexivity.
        * intros a b. simpl. rewrite !R. reflexivity.
      + pose proof (gspec_remove x G) as G1.
        assert (R : forall c, cc_removed keep (x :: l) c = (eqb c x || cc_removed keep l c)).
        { intros c. unfold cc_removed. simpl.
          destruct (eqb_spec c x) as [->|N]; simpl; [|reflexivity].
          rewrite M. reflexivity. }
        eapply gspec_ext; [exact (IH _ _ _ G1)| |].
        * intros k. simpl. rewrite R. unfold upd1.
          destruct (eqb k x); simpl; destruct (cc_removed keep l k); reflexivity.
        * intros a b. simpl. rewrite !R.
          destruct (eqb a x); destruct (eqb b x); simpl;
            destruct (cc_removed keep l a); destruct (cc_removed keep l b); reflexivity.
  Qed.
End Gen.

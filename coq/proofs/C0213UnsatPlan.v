(* C0213UnsatPlan.v -- what [plan] returns: a path that starts at the root,
   ends at the requirement and follows (reversed) edges of the call graph.
   Uses the Dijkstra completeness of C0213UnsatDijkstra on the discounted,
   reversed graph. *)
From ArgMapper Require Import Base Graph GraphAlg GraphSpec Types Args Resolver ResolverSpec GenWeights.
From ArgMapper.proofs Require Import C18DijkstraLemmas C18Dijkstra C19RefineMap C19RefineGraph
     C0213UnsatGraph C0213UnsatBuild C0213UnsatDijkstra.
From Coq Require Import List Lia ZArith.
Import ListNotations.
Set Implicit Arguments.
Local Open Scope Z_scope.

Inductive rreach (g : rgraph) : vkey -> Prop :=
| rr_root : rreach g KRoot
| rr_step a x : rreach g a -> ew g x a <> None -> rreach g x.

Fixpoint linkedR (g : rgraph) (l : list vkey) : Prop :=
  match l with
  | a :: (b :: _) as t => ew g b a <> None /\ linkedR g t
  | _ => True
  end.

(* ---------- the discounted copy ---------- *)
Definition DI (g g' : rgraph) : Prop :=
  wf_graph g' /\ ghash g' = ghash g /\
  (forall a b, ew g' a b <> None <-> ew g a b <> None) /\
  (forall a b w, ew g' a b = Some w -> -20 <= w <= 20).

Lemma ghash_add_e (g : rgraph) a b w : ghash (add_e g a b w) = ghash g.
Proof.
  unfold add_e, g_add_edge. destruct (mem a (ghash g) && mem b (ghash g)); [|reflexivity].
  destruct (lookup a (gout g)); [|reflexivity]. destruct (lookup b (gin g)); reflexivity.
Qed.

Lemma discount_step g g' src k :
  DI g g' -> ew g src k <> None -> DI g (add_e g' src k w_matching_name).
Proof.
  intros (W' & Hh & He & Hw) Ex.
  destruct (add_e_spec src k w_matching_name W') as (W2 & Hv2 & He2).
  split; [exact W2|]. split; [rewrite ghash_add_e; exact Hh|]. split.
  - intros a b. rewrite He2.
    destruct (present g' src && present g' k) eqn:P; cbn [andb]; [|apply He].
    destruct (Base.eqb_spec a src) as [->|Na]; cbn [andb]; [|apply He].
    destruct (Base.eqb_spec b k) as [->|Nb]; [|apply He].
    split; intros _; [exact Ex|discriminate].
  - intros a b w. rewrite He2.
    destruct (present g' src && present g' k && Base.eqb a src && Base.eqb b k).
    + intros Q; inversion Q; subst. unfold w_matching_name. lia.
    + apply Hw.
Qed.

Lemma discount_DI g cur :
  wf_graph g -> (forall a b w, ew g a b = Some w -> 0 <= w <= 20) -> DI g (discount g cur).
Proof.
  intros W Wt.
  assert (D0 : DI g g).
  { split; [exact W|]. split; [reflexivity|]. split; [intros a b; reflexivity|].
    intros a b w Q. pose proof (Wt _ _ _ Q). lia. }
  unfold discount. destruct cur as [|ft|n t s|t s|t s]; try exact D0.
  apply (fold_left_inv (DI g)); [exact D0|].
  intros g1 k I1 _. destruct k as [|ft2|n2 t2 s2|t2 s2|t2 s2]; try exact I1.
  destruct (String.eqb n2 n); [|exact I1].
  assert (Src : forall x, In x (g_in_keys g1 (KVal n2 t2 s2)) -> ew g x (KVal n2 t2 s2) <> None).
  { intros x Ix. destruct I1 as (W1 & _ & He1 & _). apply He1. apply (in_in_keys x (KVal n2 t2 s2) W1). exact Ix. }
  revert Src. generalize (g_in_keys g1 (KVal n2 t2 s2)). intros l Src.
  apply (fold_left_inv (DI g)); [exact I1|].
  intros g2 x I2 Ix. apply discount_step; [exact I2|apply Src; exact Ix].
Qed.

(* ---------- plan ---------- *)
Section Plan.
  Variable g : rgraph.
  Hypothesis W : wf_graph g.
  Hypothesis Wt : forall a b w, ew g a b = Some w -> 0 <= w <= 20.
  Hypothesis Root : vtx g KRoot <> None.
  Hypothesis Small : 20 * Z.of_nat (length (g_vertex_keys g)) < INF.

  Lemma plan_ok (cur : vkey) (s : rstate) path bad s' :
    rreach g cur ->
    plan g false cur s = Ok (path, bad, s') ->
    (exists rest, path = KRoot :: rest) /\ last path KRoot = cur /\ linkedR g path /\
    s_vals s' = s_vals s /\ s_world s' = s_world s /\ s_trace s' = s_trace s.
  Proof.
    intros RR P. unfold plan in P.
    destruct (discount_DI cur W Wt) as (Wc & Hh & He & Hw).
    set (cg := discount g cur) in *.
    destruct (reverse_spec Wc) as (WH & HvH & HeH).
    set (H := g_reverse cg) in *.
    destruct (dijkstra_t H KRoot (s_tape s)) as [[[d p] t']| | |] eqn:DT; cbn [bind] in P; try discriminate.
    destruct (edge_to_path cg p cur) as [pth| | |] eqn:EP; cbn [bind] in P; try discriminate.
    inversion P; subst path bad s'; clear P.
    unfold dijkstra_t in DT.
    destruct (take_pops (length (g_vertex_keys H)) (s_tape s)) as [[pops t1]| | |]; cbn [bind] in DT; try discriminate.
    destruct (dijkstra H KRoot pops) as [[d1 p1]| | |] eqn:DJ; cbn [bind] in DT; try discriminate.
    inversion DT; subst d1 p1 t1; clear DT.
    assert (VK : g_vertex_keys H = g_vertex_keys g).
    { unfold g_vertex_keys, H. simpl. fold (ghash cg). rewrite Hh. reflexivity. }
    assert (VR : vtx H KRoot <> None).
    { rewrite HvH. unfold vtx. rewrite Hh. exact Root. }
    assert (WtH : forall a b w, ew H a b = Some w -> -20 <= w <= 20).
    { intros a b w. rewrite HeH. apply Hw. }
    assert (SmH : 20 * Z.of_nat (length (g_vertex_keys H)) < INF) by (rewrite VK; exact Small).
    destruct (dij_complete KRoot WH WtH SmH pops VR DJ) as (P1 & P2 & P3).
    unfold edge_to_path in EP. apply etp_chain_inv in EP. destruct EP as (l & C & ->).
    rewrite app_nil_r.
    assert (FRall : forall y, rreach g y -> freach H KRoot y).
    { intros y Ry. induction Ry as [|a x Ry IH Ex]; [constructor|].
      apply fr_step with (u := a); [exact IH|]. rewrite HeH. apply He. exact Ex. }
    pose proof (FRall cur RR) as FR.
    destruct (chain_path H P1 P2 C (P3 _ FR)) as (rest & -> & La & Li).
    split; [eauto|]. split; [exact La|]. split.
    - clear - Li HeH He. revert Li. generalize (KRoot :: rest). intros l.
      induction l as [|a l IH]; [auto|]. destruct l as [|b l]; [auto|].
      intros [Eab Li]. split; [|apply IH; exact Li].
      apply He. rewrite <- HeH. exact Eab.
    - unfold add_input, set_tape. simpl. auto.
  Qed.
End Plan.

(* C20cTarjanLemmas.v -- generic lemmas used by the proof of C20c:
   association lists, permb/take_perm, reachability, the result monad. *)
From ArgMapper Require Import Base Graph GraphAlg GraphHist GraphSpec GraphStatements.
From Coq Require Import Permutation Lia List.
Set Implicit Arguments.

(* ---------- the result monad: "Ok with P, or a tape error" ---------- *)
Definition okres {A} (P : A -> Prop) (r : res A) : Prop :=
  match r with
  | Ok a => P a
  | TapeErr _ => True
  | _ => False
  end.

Lemma okres_bind {A B} (P : A -> Prop) (Q : B -> Prop) (r : res A) (f : A -> res B) :
  okres P r -> (forall a, P a -> okres Q (f a)) -> okres Q (bind r f).
Proof.
  destruct r as [a|s|s|]; simpl; intros HP HQ; auto.
Qed.

Lemma okres_weaken {A} (P Q : A -> Prop) (r : res A) :
  okres P r -> (forall a, P a -> Q a) -> okres Q r.
Proof.
  destruct r as [a|s|s|]; simpl; intros HP HQ; auto.
Qed.

Section Lists.
  Context {K : Type} `{EqDec K}.

  Lemma memb_In (x : K) (l : list K) : memb x l = true <-> In x l.
  Proof.
    induction l as [|y l IH]; simpl.
    - split; [discriminate|tauto].
    - rewrite orb_true_iff, IH, eqb_eq. split; intros [E|E]; auto.
  Qed.

  Lemma memb_false (x : K) (l : list K) : memb x l = false <-> ~ In x l.
  Proof.
    rewrite <- memb_In. destruct (memb x l); split; intros E; try congruence;
      exfalso; apply E; reflexivity.
  Qed.

  Lemma remove1_perm (x : K) (l : list K) : In x l -> Permutation l (x :: remove1 x l).
  Proof.
    induction l as [|y l IH]; simpl; intros HI; [tauto|].
    destruct (eqb_spec x y) as [->|NE].
    - reflexivity.
    - destruct HI as [E|HI]; [congruence|].
      rewrite perm_swap. constructor. auto.
  Qed.

  Lemma permb_Permutation (l1 l2 : list K) : permb l1 l2 = true -> Permutation l1 l2.
  Proof.
    revert l2; induction l1 as [|x l1 IH]; intros l2; simpl.
    - destruct l2; [constructor|discriminate].
    - rewrite andb_true_iff. intros [M P].
      apply memb_In in M. apply IH in P.
      rewrite (remove1_perm x l2 M). constructor. exact P.
  Qed.

  Lemma take_perm_spec (site : N) (expected : list K) (t : tape K) :
    okres (fun r => Permutation (fst r) expected) (take_perm site expected t).
  Proof.
    unfold take_perm.
    destruct (take_site site t) as [[ks t']|].
    - destruct expected as [|e expected]; simpl; [constructor|].
      destruct (permb ks (e :: expected)) eqn:P; simpl; auto.
      apply permb_Permutation; exact P.
    - destruct expected; simpl; auto.
  Qed.

  Lemma NoDup_app_disjoint (l1 l2 : list K) (x : K) :
    NoDup (l1 ++ l2) -> In x l1 -> In x l2 -> False.
  Proof.
    induction l1 as [|y l1 IH]; simpl; intros ND I1 I2; [tauto|].
    inversion ND as [|? ? NI ND']; subst.
    destruct I1 as [->|I1].
    - apply NI. apply in_or_app; right; exact I2.
    - apply IH; auto.
  Qed.

  Lemma NoDup_app_l (l1 l2 : list K) : NoDup (l1 ++ l2) -> NoDup l1.
  Proof.
    induction l1 as [|y l1 IH]; simpl; intros ND; [constructor|].
    inversion ND as [|? ? NI ND']; subst. constructor.
    - intros I; apply NI; apply in_or_app; left; exact I.
    - apply IH; exact ND'.
  Qed.

  Lemma pop_until_spec (v : K) (s r acc : list K) :
    ~ In v s -> pop_until v (s ++ v :: r) acc = (acc ++ s ++ [v], r).
  Proof.
    revert acc; induction s as [|x s IH]; intros acc NI; simpl.
    - rewrite eqb_refl. reflexivity.
    - destruct (eqb_spec x v) as [->|NE].
      + exfalso; apply NI; left; reflexivity.
      + rewrite IH.
        * rewrite <- app_assoc. reflexivity.
        * intros I; apply NI; right; exact I.
  Qed.

  Lemma perm_pop (s stk : list K) (v : K) (cs : list (list K)) :
    Permutation (stk ++ concat (cs ++ [s ++ [v]])) ((s ++ v :: stk) ++ concat cs).
  Proof.
    rewrite concat_app. simpl. rewrite app_nil_r.
    replace ((s ++ v :: stk) ++ concat cs) with ((s ++ [v]) ++ (stk ++ concat cs))
      by (rewrite <- !app_assoc; reflexivity).
    rewrite (app_assoc stk). apply Permutation_app_comm.
  Qed.
End Lists.

Section Maps.
  Context {K : Type} `{EqDec K} {A : Type}.

  Lemma lookup_insert (k k' : K) (x : A) (m : amap K A) :
    lookup k (insert k' x m) = if eqb k k' then Some x else lookup k m.
  Proof.
    induction m as [|[k2 v2] m IH]; simpl.
    - reflexivity.
    - destruct (eqb_spec k' k2) as [->|NE]; simpl.
      + destruct (eqb k k2); reflexivity.
      + rewrite IH.
        destruct (eqb_spec k k') as [->|N1].
        * rewrite (proj2 (eqb_neq k' k2) NE). reflexivity.
        * destruct (eqb k k2); reflexivity.
  Qed.

  Lemma lookup_In_keys (k : K) (m : amap K A) :
    (exists x, lookup k m = Some x) <-> In k (keys m).
  Proof.
    induction m as [|[k2 v2] m IH]; simpl.
    - split; [intros [x E]; discriminate|tauto].
    - destruct (eqb_spec k k2) as [->|NE].
      + split; [auto|]. intros _. eexists; reflexivity.
      + rewrite IH. split; [auto|]. intros [E|I]; [congruence|exact I].
  Qed.
End Maps.

Section Reach.
  Context {K : Type} `{EqDec K} {V : Type}.
  Variable g : graph K V.
  Hypothesis WF : wf_graph g.

  Lemma reach_refl (a : K) : vertex g a -> reach g a a.
  Proof. intros Va. exists [a], 0%Z. constructor. exact Va. Qed.

  Lemma walk_trans (a b c : K) p w q w' :
    walk g a b p w -> walk g b c q w' -> exists p' w'', walk g a c p' w''.
  Proof.
    intros W1; revert q w'.
    induction W1 as [a Va|a b1 b p w1 w2 E W1 IH]; intros q w' W2.
    - eauto.
    - destruct (IH _ _ W2) as [p' [w'' W3]].
      eexists; eexists. eapply walk_cons; eauto.
  Qed.

  Lemma reach_trans (a b c : K) : reach g a b -> reach g b c -> reach g a c.
  Proof.
    intros [p [w W1]] [q [w' W2]]. eapply walk_trans; eauto.
  Qed.

  Lemma edge_vertices (a b : K) (w : Z) : edge g a b w -> vertex g a /\ vertex g b.
  Proof. intros E. exact (wf_closed WF a b E). Qed.

  Lemma reach_edge (a b : K) (w : Z) : edge g a b w -> reach g a b.
  Proof.
    intros E. destruct (edge_vertices E) as [_ Vb].
    eexists; eexists. eapply walk_cons; [exact E|]. constructor. exact Vb.
  Qed.

  Lemma edge_out_keys (a b : K) : (exists w, edge g a b w) <-> In b (g_out_keys g a).
  Proof. unfold edge, g_out_keys. apply lookup_In_keys. Qed.
End Reach.

(* C08Redefine.v -- C08 (Redefine on the domain [c08_domain]).

   Redefine fails with XFilterOut exactly when an output of the function is
   rejected by the output filter; when it succeeds every input of the
   redefined function passes the input filter and none of them is keyed
   like a value the caller supplied.

   The theorem carries the size bound of C02_partial_statement
   (20 * |V| < INF for the full call graph): it is what makes the model's
   Dijkstra (64-bit wrapping arithmetic, distInfinity = MaxInt64) find a
   predecessor chain to the root for every requirement, so that the input
   recorded by [plan] is a neighbour of the root. *)
From ArgMapper Require Import Base Graph GraphAlg GraphSpec Types Args Resolver ResolverSpec GenWeights
     CheckResolver Monitors Monitors2 ResolverStatements ResolverStatements2.
From ArgMapper.proofs Require Import C18DijkstraLemmas C19RefineMap C19RefineGraph
     C0213UnsatGraph C0213UnsatClosure C0213UnsatBuild C0213UnsatPrune C0213UnsatDijkstra C0213UnsatPlan
     C04ErrorsLemmas C08RedefineGraph C08RedefineReach C08RedefineVertex.
From Coq Require Import List Lia ZArith.
Import ListNotations.
Set Implicit Arguments.
Local Open Scope Z_scope.

Definition C08_alt_statement : Prop :=
  forall u f d opts b bo w t x r,
    build_args d opts = Some b -> build_args [] opts = Some bo ->
    wf_call u f b = true -> c08_domain u f b = true ->
    (* ADDED: the size bound, stated as in C02_partial_statement *)
    (forall fg tr, full_graph u f b true t = Ok (inl fg, tr) ->
                   20 * Z.of_nat (length (g_vertex_keys (fg_g fg))) < INF) ->
    redefine u f d opts w t = Ok (x, r) ->
    (x = inr XFilterOut <->
     match b_fout bo with Some flt => forallb (fun fld => flt_okv u flt (f_name fld) (f_ty fld) (f_sub fld)) (fn_out f) = false | None => False end) /\
    (forall ins, x = inl ins ->
       forall i, In i ins ->
         match b_fin b with Some flt => flt_okv u flt (rfield_name i) (rfield_ty i) EmptyString = true | None => True end /\
         match i with
         | RNamed n ty => mem (KVal n ty EmptyString) (input_vertices b) = false
         | RTyped ty => mem (KOut ty EmptyString) (input_vertices b) = false
         end).

Lemma full_graph_err u f b rd t e tr :
  full_graph u f b rd t = Ok (inr e, tr) -> exists z, e = XGen z.
Proof.
  unfold full_graph.
  match goal with |- bind ?m _ = _ -> _ => destruct m as [[ks t']| | |] end; cbn [bind]; try discriminate.
  match goal with |- context [run_gens ?a ?b ?c ?d ?e0] => destruct (run_gens a b c d e0) as [[[g4 convs] trg] gerr] end.
  destruct gerr as [z|]; intros Q; inversion Q; subst. eauto.
Qed.

Lemma mem_notin (k : vkey) (m : list (vkey * value)) : ~ In k (map fst m) -> mem k m = false.
Proof.
  intros N. unfold mem. destruct (lookup k m) as [v|] eqn:Q; [|reflexivity].
  exfalso. apply N. apply in_keys_lookup. exists v. exact Q.
Qed.

(* the path planned for a requirement enters through a neighbour of the root *)
Lemma plan_root_adjacent (g : rgraph) rd :
  wf_graph g ->
  (forall a b w, ew g a b = Some w -> 0 <= w <= 20) ->
  vtx g KRoot <> None ->
  20 * Z.of_nat (length (g_vertex_keys g)) < INF ->
  (forall k, vtx g k <> None -> rreach g k) ->
  forall cur s path bad s',
    vtx g cur <> None -> cur <> KRoot ->
    plan g rd cur s = Ok (path, bad, s') -> ew g (plan_input path cur) KRoot <> None.
Proof.
  intros W Wt Root Small RR cur s path bad s' Vc Nc P.
  destruct (plan_shape _ _ _ _ P) as [(s0 & P0) _].
  destruct (@plan_ok g W Wt Root Small cur s path bad s0 (RR _ Vc) P0) as ((rest & ->) & La & Li & _).
  destruct rest as [|x rest].
  - simpl in La. contradiction Nc. symmetry. exact La.
  - cbn [plan_input]. destruct Li as [Ex _]. exact Ex.
Qed.

(* the bound-free part: the error clause, and "not keyed like a supplied value" *)
Definition C08_partial_statement : Prop :=
  forall u f d opts b bo w t x r,
    build_args d opts = Some b -> build_args [] opts = Some bo ->
    wf_call u f b = true -> c08_domain u f b = true ->
    redefine u f d opts w t = Ok (x, r) ->
    (x = inr XFilterOut <->
     match b_fout bo with Some flt => forallb (fun fld => flt_okv u flt (f_name fld) (f_ty fld) (f_sub fld)) (fn_out f) = false | None => False end) /\
    (forall ins, x = inl ins ->
       forall i, In i ins ->
         match i with
         | RNamed n ty => mem (KVal n ty EmptyString) (input_vertices b) = false
         | RTyped ty => mem (KOut ty EmptyString) (input_vertices b) = false
         end).

Definition twin_keys (l : list vkey) : list vkey :=
  flat_map (fun k => match k with KOut t st => [KArg t st] | _ => [] end) l.
Definition rfields_of (k : vkey) : list rfield :=
  match k with KVal n t _ => [RNamed n t] | KArg t _ => [RTyped t] | _ => [] end.

(* the skeleton of Redefine, for any property [Rk] of the inputs [plan] records *)
Section Core.
  Variables (u : universe) (f : fdecl) (d opts : list arg) (b bo : builder) (w : world) (t : tape vkey).
  Hypothesis HB : build_args d opts = Some b.
  Hypothesis HBo : build_args [] opts = Some bo.
  Hypothesis Dom : c08_domain u f b = true.
  Variable Rk : rgraph -> vkey -> Prop.
  Hypothesis HRk : forall fg tr, full_graph u f b true t = Ok (inl fg, tr) ->
    forall cur s path bad s',
      vtx (pruned (fg_g fg) (fg_target fg)) cur <> None -> cur <> KRoot ->
      plan (pruned (fg_g fg) (fg_target fg)) true cur s = Ok (path, bad, s') ->
      Rk (pruned (fg_g fg) (fg_target fg)) (plan_input path cur).

  Lemma redefine_core x r :
    redefine u f d opts w t = Ok (x, r) ->
    (x = inr XFilterOut <->
     match b_fout bo with Some flt => forallb (fun fld => flt_okv u flt (f_name fld) (f_ty fld) (f_sub fld)) (fn_out f) = false | None => False end) /\
    (forall ins, x = inl ins ->
       exists fg tr, full_graph u f b true t = Ok (inl fg, tr) /\
         forall i, In i ins ->
           exists k, Rk (pruned (fg_g fg) (fg_target fg)) k /\
                     ~ In k (map fst (input_vertices b) ++ twin_keys (map fst (input_vertices b))) /\
                     In i (rfields_of k)).
  Proof.
    intros H.
    unfold redefine in H. rewrite HBo in H.
    destruct (match b_fout bo with
              | Some flt => negb (forallb (fun fld => flt_okv u flt (f_name fld) (f_ty fld) (f_sub fld)) (fn_out f))
              | None => false end) eqn:Chk.
    { (* an output is rejected *)
      inversion H; subst x r; clear H. split.
      - split; [intros _|reflexivity].
        destruct (b_fout bo) as [flt|]; [|discriminate].
        apply negb_true_iff in Chk. exact Chk.
      - intros ins Q. discriminate. }
    assert (NoFlt : ~ match b_fout bo with
                      | Some flt => forallb (fun fld => flt_okv u flt (f_name fld) (f_ty fld) (f_sub fld)) (fn_out f) = false
                      | None => False end).
    { destruct (b_fout bo) as [flt|]; [|tauto]. apply negb_false_iff in Chk. rewrite Chk. discriminate. }
    (* every other outcome is not XFilterOut *)
    assert (Main : x <> inr XFilterOut /\
                   (forall ins, x = inl ins ->
       exists fg tr, full_graph u f b true t = Ok (inl fg, tr) /\
         forall i, In i ins ->
           exists k, Rk (pruned (fg_g fg) (fg_target fg)) k /\
                     ~ In k (map fst (input_vertices b) ++ twin_keys (map fst (input_vertices b))) /\
                     In i (rfields_of k))).
    2:{ destruct Main as [M1 M2]. split; [|exact M2]. split; [intros E; contradiction|intros Q; contradiction]. }
    rewrite HB in H. unfold call_graph in H.
    destruct (full_graph u f b true t) as [[[fg|e] tr]| | |] eqn:FG; cbn [bind] in H; try discriminate.
    2:{ inversion H; subst x r; clear H. destruct (full_graph_err _ _ _ _ _ FG) as (z & ->).
        split; [discriminate|intros ins Q; discriminate]. }
    rewrite prune_unfold in H.
    destruct (unsat_of fg) as [|u0 us].
    2:{ inversion H; subst x r; clear H. split; [discriminate|intros ins Q; discriminate]. }
    cbn [cg_g cg_target cg_inputs fuel_of] in H.
    destruct (full_graph_RI _ _ _ _ _ Dom FG) as (RIG & Tg & Inp & Vl).
    set (g := pruned (fg_g fg) (fg_target fg)) in *.
    pose proof (pruned_RI (fg_target fg) RIG) as RIg. fold g in RIg.
    pose proof (ri_wf RIg) as Wg.
    match type of H with
    | bind (reach ?uu ?bh ?gg ?rd ?fuel ?tgt ?s0) _ = _ =>
        destruct (reach uu bh gg rd fuel tgt s0) as [[s r0]| | |] eqn:RE; cbn [bind] in H; try discriminate
    end.
    destruct (@reach_inputs u (fun _ _ => BOk) g true (Rk g) Wg (@HRk fg tr eq_refl) _ _ _ _ _ RE)
      as [IS1 Okr].
    { intros k []. }
    destruct r0 as [am|e].
    2:{ inversion H; subst x r; clear H. split; [|intros ins Q; discriminate].
        intros Q. inversion Q. apply Okr. assumption. }
    cbv zeta in H.
    match type of H with (if ?c then _ else _) = _ => destruct c end.
    { inversion H; subst x r; clear H. split; [discriminate|intros ins Q; discriminate]. }
    inversion H; subst x r; clear H.
    split; [discriminate|].
    intros ins Q. inversion Q; subst ins; clear Q.
    exists fg, tr. split; [reflexivity|].
    intros i Ii. apply in_flat_map in Ii. destruct Ii as (k & Ik & Ii).
    apply filter_In in Ik. destruct Ik as [Ik Np].
    apply negb_true_iff in Np. apply membF in Np. rewrite Inp in Np.
    exists k. split; [apply (IS1 k Ik)|]. split; [exact Np|exact Ii].
  Qed.
End Core.

(* from a recorded input to the declared input: subtype-free, not supplied *)
Lemma rfield_not_supplied (b : builder) (k : vkey) (i : rfield) :
  se k ->
  ~ In k (map fst (input_vertices b) ++ twin_keys (map fst (input_vertices b))) ->
  In i (rfields_of k) ->
  match i with
  | RNamed n ty => mem (KVal n ty EmptyString) (input_vertices b) = false
  | RTyped ty => mem (KOut ty EmptyString) (input_vertices b) = false
  end.
Proof.
  intros Sk Np Ii.
  destruct k as [|ft|n ty st|ty st|ty st]; try (destruct Ii; fail).
  - destruct Ii as [<-|[]]. simpl in Sk. subst st.
    apply mem_notin. intros I1. apply Np. apply in_or_app. left. exact I1.
  - destruct Ii as [<-|[]]. simpl in Sk. subst st.
    apply mem_notin. intros I1. apply Np. apply in_or_app. right.
    unfold twin_keys. apply in_flat_map. exists (KOut ty ""). split; [exact I1|left; reflexivity].
Qed.

Theorem C08_partial_proof : C08_partial_statement.
Proof.
  intros u f d opts b bo w t x r HB HBo WF Dom H.
  destruct (@redefine_core u f d opts b bo w t HB HBo Dom (fun g k => vtx g k <> None)) with (x := x) (r := r)
    as [C1 C2]; [|exact H|].
  { intros fg tr FG cur s path bad s' Vc Nc P.
    destruct (full_graph_RI _ _ _ _ _ Dom FG) as (RIG & _).
    pose proof (pruned_RI (fg_target fg) RIG) as RIg.
    assert (VV : forall v, vertex (pruned (fg_g fg) (fg_target fg)) v <-> vtx (pruned (fg_g fg) (fg_target fg)) v <> None).
    { intros v. unfold vertex. apply in_vertex_keys. }
    assert (Vp : forall v, In v path -> vtx (pruned (fg_g fg) (fg_target fg)) v <> None).
    { intros v Iv. apply VV.
      apply (@plan_path_vertices _ true (ri_wf RIg) (proj2 (VV _) (ri_root RIg)) cur s path bad s' (proj2 (VV _) Vc) P v Iv). }
    unfold plan_input. destruct path as [|a [|x0 rest]].
    - exact Vc.
    - destruct a; apply Vp; left; reflexivity.
    - destruct a; try (apply Vp; left; reflexivity). apply Vp. right. left. reflexivity. }
  split; [exact C1|].
  intros ins Q i Ii. destruct (C2 ins Q) as (fg & tr & FG & C3).
  destruct (C3 i Ii) as (k & Vk & Np & Ik).
  destruct (full_graph_RI _ _ _ _ _ Dom FG) as (RIG & _).
  pose proof (pruned_RI (fg_target fg) RIG) as RIg.
  apply (rfield_not_supplied b k i (ri_se RIg _ Vk) Np Ik).
Qed.

Print Assumptions C08_partial_proof.

Theorem C08_alt_proof : C08_alt_statement.
Proof.
  intros u f d opts b bo w t x r HB HBo WF Dom Small H.
  destruct (@redefine_core u f d opts b bo w t HB HBo Dom (fun g k => ew g k KRoot <> None)) with (x := x) (r := r)
    as [C1 C2]; [|exact H|].
  { intros fg tr FG.
    destruct (full_graph_RI _ _ _ _ _ Dom FG) as (RIG & _).
    pose proof (pruned_RI (fg_target fg) RIG) as RIg.
    set (g := pruned (fg_g fg) (fg_target fg)) in *.
    assert (Smg : 20 * Z.of_nat (length (g_vertex_keys g)) < INF).
    { pose proof (pruned_size (fg_target fg) (ri_wf RIG)) as Le. fold g in Le.
      pose proof (Small fg tr FG) as Sm. lia. }
    assert (RR : forall k, vtx g k <> None -> rreach g k).
    { intros k Vk. apply (pruned_rreach (fg_target fg) (ri_wf RIG) (ri_root RIG)). exact Vk. }
    apply (@plan_root_adjacent g true (ri_wf RIg) (ri_wt RIg) (ri_root RIg) Smg RR). }
  split; [exact C1|].
  intros ins Q i Ii. destruct (C2 ins Q) as (fg & tr & FG & C3).
  destruct (C3 i Ii) as (k & Ek & Np & Ik).
  destruct (full_graph_RI _ _ _ _ _ Dom FG) as (RIG & _).
  pose proof (pruned_RI (fg_target fg) RIG) as RIg.
  pose proof (ri_se RIg _ (proj1 (ew_closed _ _ (ri_wf RIg) Ek))) as Sk.
  split; [|apply (rfield_not_supplied b k i Sk Np Ik)].
  destruct (ri_re RIg _ Ek) as [I1|[Fk|Fin]].
  - exfalso. apply Np. apply in_or_app. left. exact I1.
  - destruct k; try discriminate Fk. destruct Ik.
  - destruct k as [|ft|n ty st|ty st|ty st]; try contradiction.
    + destruct Ik as [<-|[]]. cbn [rfield_ty rfield_name]. cbn [se] in Sk. subst st.
      unfold fin_ok in Fin. destruct (b_fin b); [exact Fin|exact I].
    + destruct Ik as [<-|[]]. cbn [rfield_ty rfield_name]. cbn [se] in Sk. subst st.
      unfold fin_ok in Fin. destruct (b_fin b); [exact Fin|exact I].
Qed.

Print Assumptions C08_alt_proof.

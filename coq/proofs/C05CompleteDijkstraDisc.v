(* C05CompleteDijkstraDisc.v -- the matching-name discount of the resolver
   ([Resolver.discount]) only changes weights: same vertices and payloads,
   same key list, same set of edge pairs, well-formedness preserved, weights
   still within [-20,20] (contract [discount_spec] of C05CompleteDefs). *)
From ArgMapper Require Import Base Graph GraphAlg GraphSpec GraphStatements Types Args
     GenWeights Resolver.
From ArgMapper.proofs Require Import C19RefineMap C19RefineGraph C05CompleteDefs.
From Coq Require Import Lia ZArith List.
From Coq Require String.
Import ListNotations.
Set Implicit Arguments.
Local Open Scope Z_scope.

Section AddEdge.
  Context {K : Type} {E : EqDec K} {V : Type}.
  Notation graph := (graph K V).

  Definition fvof (g : graph) (k : K) : option V := lookup k (ghash g).
  Definition feof (g : graph) (a b : K) : option Z := lookup b (inner (gout g) a).

  Lemma wf_gspec_self (g : graph) : wf_graph g -> gspec g (fvof g) (feof g).
  Proof.
    intros W. split; [reflexivity|]. split; [reflexivity|]. split; [|exact W].
    intros a b. unfold feof.
    destruct (lookup b (inner (gout g) a)) as [w|] eqn:Q.
    - apply (wf_mirror W). exact Q.
    - destruct (lookup a (inner (gin g) b)) as [w|] eqn:Q'; [|reflexivity].
      apply (wf_mirror W) in Q'. congruence.
  Qed.

  Lemma add_edge_hash (g g' : graph) a b w : g_add_edge g a b w = Some g' -> ghash g' = ghash g.
  Proof.
    unfold g_add_edge. destruct (mem a (ghash g) && mem b (ghash g)).
    - destruct (lookup a (gout g)); [|discriminate].
      destruct (lookup b (gin g)); [|discriminate].
      intros Q; inversion Q; reflexivity.
    - intros Q; inversion Q; reflexivity.
  Qed.

  (* re-weighting an existing edge of a well-formed graph *)
  Lemma add_edge_existing (g : graph) a b w w0 :
    wf_graph g -> edge g a b w0 ->
    exists g', g_add_edge g a b w = Some g' /\ wf_graph g' /\ ghash g' = ghash g /\
      (forall x y, lookup y (inner (gout g') x) =
                   if Base.eqb x a && Base.eqb y b then Some w else lookup y (inner (gout g) x)).
  Proof.
    intros W Ed.
    destruct (gspec_add_edge a b w (wf_gspec_self W)) as (g' & Q & G).
    exists g'. split; [exact Q|].
    destruct (wf_closed W _ _ Ed) as [Va Vb].
    apply in_keys_lookup in Va. apply in_keys_lookup in Vb.
    destruct Va as (va & Qa). destruct Vb as (vb & Qb).
    unfold fvof in G at 2 3. rewrite Qa, Qb in G.
    destruct G as (_ & Ho & _ & W').
    split; [exact W'|]. split; [apply (add_edge_hash _ _ _ _ Q)|].
    intros x y. rewrite Ho. reflexivity.
  Qed.
End AddEdge.

(* ---------- the discount ---------- *)
Definition same_shape (g0 g : rgraph) : Prop :=
  wf_graph g /\ ghash g = ghash g0 /\
  (forall a b, (exists w, edge g a b w) <-> (exists w, edge g0 a b w)) /\
  (forall a b w, edge g a b w -> -20 <= w <= 20).

Lemma same_shape_refl (g : rgraph) :
  wf_graph g -> (forall a b w, edge g a b w -> -20 <= w <= 20) -> same_shape g g.
Proof.
  intros W B. split; [exact W|]. split; [reflexivity|]. split; [|exact B].
  intros a b. reflexivity.
Qed.

Lemma add_e_shape (g0 g : rgraph) (a b : vkey) :
  same_shape g0 g -> (exists w, edge g0 a b w) -> same_shape g0 (add_e g a b w_matching_name).
Proof.
  intros (W & Hh & Dom & Bd) Ex.
  apply Dom in Ex. destruct Ex as (w0 & Ed).
  destruct (add_edge_existing w_matching_name W Ed) as (g' & Q & W' & Hh' & Ho).
  unfold add_e. rewrite Q.
  split; [exact W'|]. split; [congruence|]. split.
  - intros x y. rewrite <- Dom. unfold edge. rewrite Ho.
    destruct (Base.eqb_spec x a) as [->|Nx]; cbn [andb]; [|reflexivity].
    destruct (Base.eqb_spec y b) as [->|Ny]; [|reflexivity].
    split; intros _; [exists w0; exact Ed|eexists; reflexivity].
  - intros x y w. unfold edge. rewrite Ho.
    destruct (Base.eqb x a && Base.eqb y b).
    + intros Q'. inversion Q'. unfold w_matching_name. lia.
    + apply Bd.
Qed.

Lemma inner_fold_shape (g0 : rgraph) (k : vkey) : forall (l : list vkey) (g : rgraph),
  same_shape g0 g -> (forall s, In s l -> exists w, edge g0 s k w) ->
  same_shape g0 (fold_left (fun g' src => add_e g' src k w_matching_name) l g).
Proof.
  induction l as [|s l IH]; intros g S Hl; cbn [fold_left]; [exact S|].
  apply IH.
  - apply add_e_shape; [exact S|]. apply Hl. left; reflexivity.
  - intros s' A. apply Hl. right; exact A.
Qed.

Lemma in_keys_edge (g0 g : rgraph) (k s : vkey) :
  same_shape g0 g -> In s (g_in_keys g k) -> exists w, edge g0 s k w.
Proof.
  intros (W & _ & Dom & _) A. unfold g_in_keys in A.
  apply in_keys_lookup in A. destruct A as (w & Q).
  apply Dom. exists w. unfold edge. apply (wf_mirror W). exact Q.
Qed.

Lemma discount_step_shape (g0 g : rgraph) (n : String.string) (k : vkey) :
  same_shape g0 g ->
  same_shape g0 (match k with
                 | KVal n2 _ _ =>
                     if String.eqb n2 n
                     then fold_left (fun g' src => add_e g' src k w_matching_name) (g_in_keys g k) g
                     else g
                 | _ => g
                 end).
Proof.
  intros S. destruct k as [|ft|n2 t s|t s|t s]; try exact S.
  destruct (String.eqb n2 n); [|exact S].
  apply inner_fold_shape; [exact S|].
  intros s0 A. apply in_keys_edge with (g := g); assumption.
Qed.

Lemma discount_fold_shape (g0 : rgraph) (n : String.string) : forall (ks : list vkey) (g : rgraph),
  same_shape g0 g ->
  same_shape g0
    (fold_left (fun g' k => match k with
        | KVal n2 _ _ => if String.eqb n2 n
                         then fold_left (fun g' src => add_e g' src k w_matching_name) (g_in_keys g' k) g'
                         else g'
        | _ => g' end) ks g).
Proof.
  induction ks as [|k ks IH]; intros g S; cbn [fold_left]; [exact S|].
  apply IH. apply discount_step_shape. exact S.
Qed.

Lemma discount_shape (g : rgraph) (cur : vkey) :
  wf_graph g -> (forall a b w, edge g a b w -> -20 <= w <= 20) -> same_shape g (discount g cur).
Proof.
  intros W B. pose proof (same_shape_refl W B) as S.
  unfold discount. destruct cur as [|ft|n t s|t s|t s]; try exact S.
  apply discount_fold_shape. exact S.
Qed.

Theorem discount_main : discount_spec.
Proof.
  unfold discount_spec. intros g cur W B. cbv zeta.
  destruct (discount_shape cur W B) as (W' & Hh & Dom & Bd).
  split; [exact W'|]. split; [|split; [|split; [|split]]].
  - intros k. unfold g_vertex. rewrite Hh. reflexivity.
  - unfold g_vertex_keys. rewrite Hh. reflexivity.
  - exact Dom.
  - exact Bd.
  - destruct cur; first [reflexivity|exact I].
Qed.

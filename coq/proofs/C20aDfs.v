(* C20aDfs.v -- exactness, abort behaviour and totality of the depth-first
   traversal [dfs_run] for every order tape (C20a). *)
From ArgMapper Require Import Base Graph GraphAlg GraphHist GraphSpec GraphStatements.
From Coq Require Import List Lia ZArith Permutation.
Import ListNotations.
Set Implicit Arguments.

Section DfsProofs.
  Context {K : Type} {E : EqDec K} {V : Type}.
  Notation graph := (graph K V).

  (* ------------------------------------------------------------------ *)
  (* list / map helpers *)

  Lemma memb_In (x : K) (l : list K) : memb x l = true <-> In x l.
  Proof.
    induction l as [|y l IH]; simpl.
    - split; [discriminate|tauto].
    - rewrite orb_true_iff, IH, eqb_eq. split; intros [A|A]; auto.
  Qed.

  Lemma memb_false (x : K) (l : list K) : memb x l = false <-> ~ In x l.
  Proof.
    rewrite <- memb_In. destruct (memb x l); split; intros A; try congruence;
      exfalso; apply A; reflexivity.
  Qed.

  Lemma In_remove1 (x y : K) (l : list K) : In y l -> y = x \/ In y (remove1 x l).
  Proof.
    induction l as [|a l IH]; simpl; [tauto|].
    intros [A|A].
    - subst a. destruct (eqb_spec x y) as [Q|Q]; [left; auto|right; simpl; auto].
    - destruct (eqb_spec x a) as [Q|Q]; [right; auto|].
      destruct (IH A) as [B|B]; [left; auto|right; simpl; auto].
  Qed.

  Lemma remove1_In (x y : K) (l : list K) : In y (remove1 x l) -> In y l.
  Proof.
    induction l as [|a l IH]; simpl; [tauto|].
    destruct (eqb_spec x a) as [Q|Q]; simpl; [auto|].
    intros [A|A]; auto.
  Qed.

  Lemma permb_In (l1 l2 : list K) :
    permb l1 l2 = true -> forall x, In x l1 <-> In x l2.
  Proof.
    revert l2; induction l1 as [|a l1 IH]; intros l2 P x.
    - simpl in P. destruct l2; [tauto|discriminate].
    - simpl in P. apply andb_true_iff in P. destruct P as [M P].
      apply memb_In in M. specialize (IH _ P x). simpl. split.
      + intros [A|A]; [subst; auto|]. apply IH in A. eapply remove1_In; eauto.
      + intros A. destruct (In_remove1 a _ _ A) as [B|B]; [left; auto|right].
        apply IH; auto.
  Qed.

  Lemma take_perm_In (s : N) (ex : list K) (t t' : tape K) (ws : list K) :
    take_perm s ex t = Ok (ws, t') -> forall x, In x ws <-> In x ex.
  Proof.
    unfold take_perm. intros T.
    destruct (take_site s t) as [[ks t1]|].
    - destruct ex as [|e ex].
      + inversion T; subst. tauto.
      + destruct (permb ks (e :: ex)) eqn:P; [|discriminate].
        inversion T; subst. apply permb_In; auto.
    - destruct ex as [|e ex]; [|discriminate].
      inversion T; subst. tauto.
  Qed.

  Lemma take_perm_total (s : N) (ex : list K) (t : tape K) :
    (exists r, take_perm s ex t = Ok r) \/ take_perm s ex t = TapeErr s.
  Proof.
    unfold take_perm.
    destruct (take_site s t) as [[ks t1]|]; destruct ex as [|e ex]; eauto.
    destruct (permb ks (e :: ex)); eauto.
  Qed.

  Lemma lookup_In_keys {A : Type} (k : K) (m : amap K A) (a : A) :
    lookup k m = Some a -> In k (keys m).
  Proof.
    induction m as [|[k' a'] m IH]; simpl; [discriminate|].
    destruct (eqb_spec k k') as [Q|Q]; [auto|]. intros L; right; apply IH; auto.
  Qed.

  Lemma In_keys_lookup {A : Type} (k : K) (m : amap K A) :
    In k (keys m) -> exists a, lookup k m = Some a.
  Proof.
    induction m as [|[k' a'] m IH]; simpl; [tauto|].
    destruct (eqb_spec k k') as [Q|Q]; [eauto|].
    intros [A1|A1]; [congruence|auto].
  Qed.

  Lemma NoDup_snoc (l : list K) (x : K) : NoDup l -> ~ In x l -> NoDup (l ++ [x]).
  Proof.
    induction l as [|a l IH]; simpl; intros N1 N2.
    - constructor; [simpl; tauto|constructor].
    - inversion N1 as [|a' l' Na Nl]; subst. constructor.
      + rewrite in_app_iff. simpl. intros [A|[A|[]]]; [auto|]. apply N2; auto.
      + apply IH; auto.
  Qed.

  Lemma In_removelast (x : K) (l : list K) : In x (removelast l) -> In x l.
  Proof.
    induction l as [|a l IH]; simpl; [tauto|].
    destruct l as [|b l]; [simpl; tauto|].
    intros [A|A]; [auto|right; apply IH; auto].
  Qed.

  Lemma In_removelast_tl (x : K) (l : list K) :
    In x (removelast (tl l)) -> In x (removelast l).
  Proof.
    destruct l as [|a l]; simpl; [tauto|].
    destruct l as [|b l]; [simpl; tauto|]. intros A; right; exact A.
  Qed.

  (* ------------------------------------------------------------------ *)
  (* the inner loop of [dfs] as a function of the recursive call *)

  Variable g : graph.
  Variables desc stop : K -> bool.

  Definition dfs_loop (rec : K -> dfs_st -> res (@dfs_st K * bool)) :=
    fix loop (ws : list K) (st : dfs_st) : res (dfs_st * bool) :=
      match ws with
      | [] => Ok (st, false)
      | w :: ws =>
          if memb w (visited st) then loop ws st
          else
            let st := mkDfs (visited st) (reported st ++ [w]) (dtape st) in
            if stop w then Ok (st, true)
            else if desc w then
                   do (st', ab) <- rec w st;
                   if (ab : bool) then Ok (st', true) else loop ws st'
                 else loop ws st
      end.

  Lemma dfs_S (f : nat) (v : K) (st : dfs_st) :
    dfs g desc stop (S f) v st =
    (do (ws, t') <- take_perm SITE_DFS (g_out_keys g v) (dtape st);
     dfs_loop (dfs g desc stop f) ws (mkDfs (v :: visited st) (reported st) t')).
  Proof. reflexivity. Qed.

  Lemma dfs_loop_nil rec (st : @dfs_st K) : dfs_loop rec [] st = Ok (st, false).
  Proof. reflexivity. Qed.

  Lemma dfs_loop_cons rec (w : K) (ws : list K) (st : dfs_st) :
    dfs_loop rec (w :: ws) st =
    if memb w (visited st) then dfs_loop rec ws st
    else
      let st1 := mkDfs (visited st) (reported st ++ [w]) (dtape st) in
      if stop w then Ok (st1, true)
      else if desc w then
             do (st', ab) <- rec w st1;
             if (ab : bool) then Ok (st', true) else dfs_loop rec ws st'
           else dfs_loop rec ws st1.
  Proof. reflexivity. Qed.

  (* ------------------------------------------------------------------ *)
  (* graph facts *)
  Hypothesis wf : wf_graph g.

  Lemma edge_out (a b : K) (w : Z) : edge g a b w -> In b (g_out_keys g a).
  Proof. unfold edge, g_out_keys. apply lookup_In_keys. Qed.

  Lemma out_edge (a b : K) : In b (g_out_keys g a) -> exists w, edge g a b w.
  Proof. unfold edge, g_out_keys. apply In_keys_lookup. Qed.

  Lemma edge_vertex_r (a b : K) (w : Z) : edge g a b w -> vertex g b.
  Proof. intros Ed. apply (wf_closed wf a b Ed). Qed.

  Lemma walk_head (a z : K) (p : list K) (w : Z) :
    walk g a z p w -> exists q, p = a :: q.
  Proof. intros W; destruct W; eauto. Qed.

  Lemma walk_inv (a z : K) (p : list K) (w : Z) :
    walk g a z p w ->
    (a = z /\ p = [a]) \/
    (exists b q w1 w2, p = a :: b :: q /\ edge g a b w1 /\ walk g b z (b :: q) w2).
  Proof.
    intros W; destruct W as [a Va|a b c p w1 w2 Ed W]; [left; auto|right].
    destruct (walk_head W) as [q ->]. exists b, q, w1, w2. auto.
  Qed.

  Lemma walk_snoc (a z c : K) (p : list K) (w1 w2 : Z) :
    walk g a z p w1 -> edge g z c w2 -> exists w, walk g a c (p ++ [c]) w.
  Proof.
    intros W. induction W as [a Va|a b z p w1 w3 Eab W IH]; intros Ed.
    - simpl. eexists. eapply walk_cons; [exact Ed|].
      apply walk_nil. eapply edge_vertex_r; eauto.
    - destruct (IH Ed) as [w W']. simpl. eexists. eapply walk_cons; eauto.
  Qed.

  (* ------------------------------------------------------------------ *)
  (* exactness *)
  Variable start : K.
  Hypothesis Hstart : vertex g start.

  (* a walk from start all of whose vertices but the first are descended into *)
  Definition dpath (v : K) : Prop :=
    exists p wt, walk g start v p wt /\
                 forall x, In x (tl p) -> desc x = true /\ x <> start.
  Definition okpath (w : K) : Prop :=
    exists p wt, walk g start w p wt /\
                 forall x, In x (interior p) -> desc x = true /\ x <> start.

  Lemma dpath_start : dpath start.
  Proof. exists [start], 0%Z. split; [apply walk_nil; auto|simpl; tauto]. Qed.

  Lemma dpath_report (v w : K) (wt : Z) : dpath v -> edge g v w wt -> okpath w.
  Proof.
    intros (p & w0 & W & Hp) Ed.
    destruct (walk_snoc W Ed) as [w1 W1].
    exists (p ++ [w]), w1. split; auto.
    destruct (walk_head W) as [q ->].
    unfold interior. simpl tl. rewrite removelast_last. exact Hp.
  Qed.

  Lemma dpath_descend (v w : K) (wt : Z) :
    dpath v -> edge g v w wt -> desc w = true -> w <> start -> dpath w.
  Proof.
    intros (p & w0 & W & Hp) Ed Dw Nw.
    destruct (walk_snoc W Ed) as [w1 W1].
    exists (p ++ [w]), w1. split; auto.
    destruct (walk_head W) as [q ->]. simpl tl in *.
    intros x Hx. apply in_app_iff in Hx.
    destruct Hx as [A|[A|[]]]; [auto|subst; auto].
  Qed.

  Record Inv (vis rep : list K) : Prop := {
    inv_vis : forall x, In x vis -> x = start \/ (In x rep /\ desc x = true);
    inv_rep : forall x, In x rep -> desc x = true -> In x vis;
    inv_nodup : NoDup (filter desc rep);
    inv_start : In start vis;
    inv_sound : forall x, In x rep -> x <> start /\ okpath x
  }.

  Definition closed (st : @dfs_st K) (x : K) : Prop :=
    forall y, In y (g_out_keys g x) -> In y (visited st) \/ In y (reported st).

  Lemma closed_mono (st st' : @dfs_st K) (x : K) :
    incl (visited st) (visited st') -> incl (reported st) (reported st') ->
    closed st x -> closed st' x.
  Proof.
    intros I1 I2 C y Hy. destruct (C y Hy) as [A|A]; [left; apply I1|right; apply I2]; auto.
  Qed.

  Definition dfs_post (f : nat) : Prop :=
    forall v st st',
      dfs g desc stop f v st = Ok (st', false) ->
      Inv (v :: visited st) (reported st) -> dpath v ->
      incl (v :: visited st) (visited st') /\
      incl (reported st) (reported st') /\
      (forall x, In x (visited st') -> In x (visited st) \/ closed st' x) /\
      Inv (visited st') (reported st').

  Definition loop_post (ws : list K) (st st' : @dfs_st K) : Prop :=
    incl (visited st) (visited st') /\
    incl (reported st) (reported st') /\
    (forall y, In y ws -> In y (visited st') \/ In y (reported st')) /\
    (forall x, In x (visited st') -> In x (visited st) \/ closed st' x) /\
    Inv (visited st') (reported st').

  Lemma Inv_descend (vis rep : list K) (w : K) :
    Inv vis rep -> ~ In w vis -> desc w = true -> okpath w ->
    Inv (w :: vis) (rep ++ [w]).
  Proof.
    intros I NV Dw Ow.
    assert (Wn : w <> start) by (intros ->; apply NV; apply (inv_start I)).
    constructor.
    - intros x [<-|Hx].
      + right; split; [apply in_or_app; right; left; auto|auto].
      + destruct (inv_vis I x Hx) as [A|[A B]]; [left; auto|right; split; auto].
        apply in_or_app; left; auto.
    - intros x Hx Dx. apply in_app_iff in Hx.
      destruct Hx as [Hx|[<-|[]]]; [right; apply (inv_rep I); auto|left; auto].
    - rewrite filter_app. simpl. rewrite Dw. apply NoDup_snoc; [apply (inv_nodup I)|].
      intros A. apply filter_In in A. destruct A as [A _]. apply NV. apply (inv_rep I); auto.
    - right; apply (inv_start I).
    - intros x Hx. apply in_app_iff in Hx.
      destruct Hx as [Hx|[<-|[]]]; [apply (inv_sound I); auto|split; auto].
  Qed.

  Lemma Inv_skip (vis rep : list K) (w : K) :
    Inv vis rep -> ~ In w vis -> desc w = false -> okpath w ->
    Inv vis (rep ++ [w]).
  Proof.
    intros I NV Dw Ow.
    assert (Wn : w <> start) by (intros ->; apply NV; apply (inv_start I)).
    constructor.
    - intros x Hx.
      destruct (inv_vis I x Hx) as [A|[A B]]; [left; auto|right; split; auto].
      apply in_or_app; left; auto.
    - intros x Hx Dx. apply in_app_iff in Hx.
      destruct Hx as [Hx|[<-|[]]]; [apply (inv_rep I); auto|congruence].
    - rewrite filter_app. simpl. rewrite Dw. rewrite app_nil_r. apply (inv_nodup I).
    - apply (inv_start I).
    - intros x Hx. apply in_app_iff in Hx.
      destruct Hx as [Hx|[<-|[]]]; [apply (inv_sound I); auto|split; auto].
  Qed.

  Lemma loop_spec (f : nat) (IHf : dfs_post f) (v : K) (Dv : dpath v) :
    forall ws st st',
      dfs_loop (dfs g desc stop f) ws st = Ok (st', false) ->
      Inv (visited st) (reported st) ->
      (forall w, In w ws -> In w (g_out_keys g v)) ->
      loop_post ws st st'.
  Proof.
    induction ws as [|w ws IHws]; intros st st' R I Sub.
    - rewrite dfs_loop_nil in R. inversion R; subst st'.
      split; [apply incl_refl|split; [apply incl_refl|split; [|split]]]; auto.
      simpl; tauto.
    - rewrite dfs_loop_cons in R.
      assert (Sub' : forall w', In w' ws -> In w' (g_out_keys g v))
        by (intros w' Hw'; apply Sub; right; auto).
      destruct (memb w (visited st)) eqn:M.
      + apply memb_In in M.
        destruct (IHws _ _ R I Sub') as (P1 & P2 & P3 & P4 & P5).
        split; [|split; [|split; [|split]]]; auto.
        intros y [<-|Hy]; [left; apply P1; auto|apply P3; auto].
      + apply memb_false in M.
        destruct (out_edge _ _ (Sub w (or_introl eq_refl))) as [wt Ed].
        cbv zeta in R.
        destruct (stop w) eqn:Sw; [discriminate|].
        assert (Wn : w <> start) by (intros ->; apply M; apply (inv_start I)).
        assert (Ow : okpath w) by (eapply dpath_report; eauto).
        destruct (desc w) eqn:Dw.
        * destruct (dfs g desc stop f w (mkDfs (visited st) (reported st ++ [w]) (dtape st)))
            as [[st2 ab]| | |] eqn:R1; simpl in R; try discriminate.
          destruct ab; [discriminate|].
          assert (I1 : Inv (w :: visited st) (reported st ++ [w]))
            by (apply Inv_descend; auto).
          destruct (IHf _ _ _ R1 I1 (dpath_descend Dv Ed Dw Wn)) as (Q1 & Q2 & Q3 & Q4).
          simpl in Q1, Q2, Q3.
          destruct (IHws _ _ R Q4 Sub') as (P1 & P2 & P3 & P4 & P5).
          split; [|split; [|split; [|split]]].
          -- intros x Hx. apply P1, Q1. right; exact Hx.
          -- intros x Hx. apply P2, Q2. apply in_or_app; left; auto.
          -- intros y [<-|Hy]; [left; apply P1, Q1; left; auto|apply P3; auto].
          -- intros x Hx. destruct (P4 x Hx) as [A|A]; [|right; auto].
             destruct (Q3 x A) as [B|B]; [left; exact B|right].
             eapply closed_mono; eauto.
          -- exact P5.
        * assert (I1 : Inv (visited st) (reported st ++ [w]))
            by (apply Inv_skip; auto).
          destruct (IHws (mkDfs (visited st) (reported st ++ [w]) (dtape st)) _ R I1 Sub')
            as (P1 & P2 & P3 & P4 & P5).
          simpl in P1, P2, P4.
          split; [|split; [|split; [|split]]]; auto.
          -- intros x Hx. apply P2. apply in_or_app; left; auto.
          -- intros y [<-|Hy]; [right; apply P2; apply in_or_app; right; left; auto
                               |apply P3; auto].
  Qed.

  Lemma dfs_spec : forall f, dfs_post f.
  Proof.
    induction f as [|f IHf]; intros v st st' R I Dv.
    - simpl in R. discriminate.
    - rewrite dfs_S in R.
      destruct (take_perm SITE_DFS (g_out_keys g v) (dtape st)) as [[ws t1]| | |] eqn:T;
        simpl in R; try discriminate.
      pose proof (take_perm_In _ _ _ T) as TI.
      assert (Sub : forall w, In w ws -> In w (g_out_keys g v)) by (intros w Hw; apply TI; auto).
      destruct (loop_spec IHf Dv ws (mkDfs (v :: visited st) (reported st) t1) R I Sub)
        as (P1 & P2 & P3 & P4 & P5).
      simpl in P1, P2, P4.
      split; [|split; [|split]]; auto.
      intros x Hx. destruct (P4 x Hx) as [[<-|A]|A]; auto.
      right. intros y Hy. apply P3. apply TI; auto.
  Qed.

  Lemma complete (st : @dfs_st K) :
    Inv (visited st) (reported st) ->
    (forall x, In x (visited st) -> closed st x) ->
    forall a w p wt, walk g a w p wt ->
      In a (visited st) -> w <> start ->
      (forall x, In x (removelast p) -> desc x = true /\ x <> start) ->
      In w (reported st).
  Proof.
    intros I C a w p wt W.
    induction W as [a Va|a b c p w1 w2 Eab W IH]; intros Ha Nw Hint.
    - destruct (inv_vis I a Ha) as [A|[A _]]; [contradiction|auto].
    - assert (Sb : b <> start -> In b (reported st)).
      { intros Nb. destruct (C a Ha b (edge_out Eab)) as [A|A]; auto.
        destruct (inv_vis I b A) as [B|[B _]]; [contradiction|auto]. }
      destruct (walk_inv W) as [[-> ->]|(b' & q & w3 & w4 & -> & _ & _)].
      + auto.
      + assert (Db : desc b = true /\ b <> start).
        { apply Hint. change (In b (a :: removelast (b :: b' :: q))). right; left; auto. }
        destruct Db as [Db Nb].
        apply IH; auto.
        * apply (inv_rep I); auto.
        * intros x Hx. apply Hint.
          change (In x (a :: removelast (b :: b' :: q))). right; auto.
  Qed.

  Lemma dfs_run_exact (t t' : tape K) (rep : list K) :
    dfs_run g desc stop start t = Ok (rep, false, t') ->
    (forall w, In w rep <->
               (w <> start /\ exists p wt, walk g start w p wt /\
                  forall x, In x (interior p) -> desc x = true /\ x <> start)) /\
    NoDup (filter desc rep).
  Proof.
    unfold dfs_run. rewrite dfs_S. simpl dtape. simpl visited. simpl reported.
    intros R.
    destruct (take_perm SITE_DFS (g_out_keys g start) t) as [[ws t1]| | |] eqn:T;
      simpl in R; try discriminate.
    destruct (dfs_loop (dfs g desc stop (length (g_vertex_keys g))) ws (mkDfs [start] [] t1))
      as [[st ab]| | |] eqn:L; simpl in R; try discriminate.
    inversion R; subst rep ab t'. clear R.
    pose proof (take_perm_In _ _ _ T) as TI.
    assert (I0 : Inv [start] []).
    { constructor; simpl; try tauto.
      - intros x [A|[]]; auto.
      - constructor. }
    assert (Sub : forall w, In w ws -> In w (g_out_keys g start)) by (intros w Hw; apply TI; auto).
    destruct (loop_spec (dfs_spec _) dpath_start ws (mkDfs [start] [] t1) L I0 Sub)
      as (P1 & P2 & P3 & P4 & P5).
    simpl in P1, P4.
    assert (C : forall x, In x (visited st) -> closed st x).
    { intros x Hx. destruct (P4 x Hx) as [[<-|[]]|A]; auto.
      intros y Hy. apply P3. apply TI; auto. }
    split; [|apply (inv_nodup P5)].
    intros w; split.
    - intros Hw. exact (inv_sound P5 w Hw).
    - intros [Nw (p & wt & W & Hint)].
      destruct (walk_inv W) as [[A _]|(b & q & w1 & w2 & -> & Ed & W')]; [congruence|].
      unfold interior in Hint. simpl tl in Hint.
      assert (Sb : b <> start -> In b (reported st)).
      { intros Nb. destruct (C start (inv_start P5) b (edge_out Ed)) as [A|A]; auto.
        destruct (inv_vis P5 b A) as [B|[B _]]; [contradiction|auto]. }
      destruct (walk_inv W') as [[-> _]|(b' & q' & w3 & w4 & Eq & _ & _)]; [auto|].
      inversion Eq; subst q. clear Eq.
      assert (Db : desc b = true /\ b <> start).
      { apply Hint. change (In b (b :: removelast (b' :: q'))). left; auto. }
      destruct Db as [Db Nb].
      eapply complete; eauto.
      apply (inv_rep P5); auto.
  Qed.

  (* ------------------------------------------------------------------ *)
  (* abort *)
  Definition ab_post (st' : @dfs_st K) (ab : bool) : Prop :=
    if ab then exists pre w, reported st' = pre ++ [w] /\ stop w = true /\
                             forall x, In x pre -> stop x = false
    else forall x, In x (reported st') -> stop x = false.

  Definition abort_post (f : nat) : Prop :=
    forall v st st' ab,
      dfs g desc stop f v st = Ok (st', ab) ->
      (forall x, In x (reported st) -> stop x = false) ->
      ab_post st' ab.

  Lemma abort_loop (f : nat) (IHf : abort_post f) :
    forall ws st st' ab,
      dfs_loop (dfs g desc stop f) ws st = Ok (st', ab) ->
      (forall x, In x (reported st) -> stop x = false) ->
      ab_post st' ab.
  Proof.
    induction ws as [|w ws IHws]; intros st st' ab R NS.
    - rewrite dfs_loop_nil in R. inversion R; subst st' ab. exact NS.
    - rewrite dfs_loop_cons in R.
      destruct (memb w (visited st)); [eapply IHws; eauto|].
      cbv zeta in R.
      destruct (stop w) eqn:Sw.
      + inversion R; subst st' ab. simpl. exists (reported st), w. auto.
      + assert (NS1 : forall x, In x (reported st ++ [w]) -> stop x = false).
        { intros x Hx. apply in_app_iff in Hx. destruct Hx as [Hx|[<-|[]]]; auto. }
        destruct (desc w).
        * destruct (dfs g desc stop f w (mkDfs (visited st) (reported st ++ [w]) (dtape st)))
            as [[st2 ab2]| | |] eqn:R1; simpl in R; try discriminate.
          pose proof (IHf _ _ _ _ R1 NS1) as Q.
          destruct ab2.
          -- inversion R; subst st' ab. exact Q.
          -- eapply IHws; eauto.
        * eapply (IHws (mkDfs (visited st) (reported st ++ [w]) (dtape st))); eauto.
  Qed.

  Lemma abort_spec : forall f, abort_post f.
  Proof.
    induction f as [|f IHf]; intros v st st' ab R NS.
    - simpl in R. discriminate.
    - rewrite dfs_S in R.
      destruct (take_perm SITE_DFS (g_out_keys g v) (dtape st)) as [[ws t1]| | |] eqn:T;
        simpl in R; try discriminate.
      eapply (abort_loop IHf ws (mkDfs (v :: visited st) (reported st) t1)); eauto.
  Qed.

  Lemma dfs_run_abort (s0 : K) (t t' : tape K) (rep : list K) :
    dfs_run g desc stop s0 t = Ok (rep, true, t') ->
    exists pre w, rep = pre ++ [w] /\ stop w = true /\ forall x, In x pre -> stop x = false.
  Proof.
    unfold dfs_run. intros R.
    destruct (dfs g desc stop (S (length (g_vertex_keys g))) s0 (mkDfs [] [] t))
      as [[st ab]| | |] eqn:D; simpl in R; try discriminate.
    inversion R; subst rep ab t'.
    pose proof (abort_spec (S (length (g_vertex_keys g)))) as Q. unfold abort_post in Q. change (ab_post st true). eapply Q; [exact D|simpl; tauto].
  Qed.

  (* ------------------------------------------------------------------ *)
  (* totality: no panic, and fuel |V|+1 is enough *)
  Definition tot_ok (len : nat) (r : res (@dfs_st K * bool)) : Prop :=
    (exists st' ab, r = Ok (st', ab) /\ NoDup (visited st') /\
                    incl (visited st') (g_vertex_keys g) /\
                    (len <= length (visited st'))%nat) \/
    (exists s, r = TapeErr s).

  Lemma tot_ok_weaken (m m' : nat) r : (m <= m')%nat -> tot_ok m' r -> tot_ok m r.
  Proof.
    intros L [(st' & ab & R & A & B & C)|[s R]]; [left|right; eauto].
    exists st', ab. repeat split; auto. lia.
  Qed.

  Definition total_post (f : nat) : Prop :=
    forall v st,
      NoDup (visited st) -> incl (visited st) (g_vertex_keys g) ->
      ~ In v (visited st) -> vertex g v ->
      (length (visited st) + f > length (g_vertex_keys g))%nat ->
      tot_ok (length (visited st)) (dfs g desc stop f v st).

  Lemma total_loop (f : nat) (IHf : total_post f) :
    forall ws st,
      (forall w, In w ws -> vertex g w) ->
      NoDup (visited st) -> incl (visited st) (g_vertex_keys g) ->
      (length (visited st) + f > length (g_vertex_keys g))%nat ->
      tot_ok (length (visited st)) (dfs_loop (dfs g desc stop f) ws st).
  Proof.
    induction ws as [|w ws IHws]; intros st Vw ND IN LEN.
    - rewrite dfs_loop_nil. left. exists st, false. auto.
    - rewrite dfs_loop_cons.
      assert (Vw' : forall w', In w' ws -> vertex g w') by (intros w' Hw'; apply Vw; right; auto).
      destruct (memb w (visited st)) eqn:M; [apply IHws; auto|].
      apply memb_false in M. cbv zeta.
      destruct (stop w).
      { left. eexists _, true. split; [reflexivity|]. simpl. auto. }
      destruct (desc w).
      + destruct (IHf w (mkDfs (visited st) (reported st ++ [w]) (dtape st)) ND IN M
                      (Vw w (or_introl eq_refl)) LEN)
          as [(st2 & ab & R1 & ND2 & IN2 & LE2)|[s R1]]; simpl in *.
        * rewrite R1. simpl. destruct ab.
          -- left. exists st2, true. auto.
          -- assert (LEN2 : (length (visited st2) + f > length (g_vertex_keys g))%nat) by lia.
             eapply tot_ok_weaken; [exact LE2|]. apply IHws; auto.
        * right. exists s. rewrite R1. reflexivity.
      + apply (IHws (mkDfs (visited st) (reported st ++ [w]) (dtape st))); auto.
  Qed.

  Lemma total_spec : forall f, total_post f.
  Proof.
    induction f as [|f IHf]; intros v st ND IN NV Vv LEN.
    - exfalso.
      assert (L : (length (v :: visited st) <= length (g_vertex_keys g))%nat).
      { apply NoDup_incl_length; [constructor; auto|].
        intros x [<-|Hx]; [exact Vv|apply IN; auto]. }
      simpl in L. lia.
    - rewrite dfs_S.
      destruct (take_perm_total SITE_DFS (g_out_keys g v) (dtape st)) as [[[ws t1] T]|T];
        rewrite T; simpl; [|right; eauto].
      pose proof (take_perm_In _ _ _ T) as TI.
      apply tot_ok_weaken with (m' := length (visited (mkDfs (v :: visited st) (reported st) t1)));
        [simpl; lia|].
      apply total_loop; simpl; auto.
      + intros w Hw. apply TI in Hw. destruct (out_edge _ _ Hw) as [wt Ed].
        eapply edge_vertex_r; eauto.
      + constructor; auto.
      + intros x [<-|Hx]; [exact Vv|apply IN; auto].
      + lia.
  Qed.

  Lemma dfs_run_total (t : tape K) :
    (exists r, dfs_run g desc stop start t = Ok r) \/
    (exists s, dfs_run g desc stop start t = TapeErr s).
  Proof.
    unfold dfs_run.
    pose proof (total_spec (S (length (g_vertex_keys g)))) as Q. unfold total_post in Q.
    assert (A1 : NoDup (visited (mkDfs [] [] t))) by (simpl; constructor).
    assert (A2 : incl (visited (mkDfs [] [] t)) (g_vertex_keys g)) by (simpl; intros x []).
    assert (A3 : ~ In start (visited (mkDfs [] [] t))) by (simpl; tauto).
    assert (A4 : (length (visited (mkDfs [] [] t)) + S (length (g_vertex_keys g))
                  > length (g_vertex_keys g))%nat) by (simpl; lia).
    destruct (Q start (mkDfs [] [] t) A1 A2 A3 Hstart A4) as [(st' & ab & R & _)|[s R]].
    - left. rewrite R. simpl. eauto.
    - right. rewrite R. simpl. eauto.
  Qed.

End DfsProofs.

Theorem C20a_proof : forall (K : Type) (E : EqDec K) (V : Type), @C20a_statement K E V.
Proof.
  intros K E V g desc start t t' rep WF VS R.
  eapply dfs_run_exact; eauto.
Qed.
Print Assumptions C20a_proof.

Theorem C20a_abort_proof : forall (K : Type) (E : EqDec K) (V : Type), @C20a_abort_statement K E V.
Proof.
  intros K E V g desc stop start t t' rep WF VS R.
  eapply dfs_run_abort; eauto.
Qed.
Print Assumptions C20a_abort_proof.

Theorem C20a_total_proof : forall (K : Type) (E : EqDec K) (V : Type), @C20a_total_statement K E V.
Proof.
  intros K E V g desc stop start t WF VS.
  apply dfs_run_total; auto.
Qed.
Print Assumptions C20a_total_proof.

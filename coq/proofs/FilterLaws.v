(* FilterLaws.v -- algebraic laws of the filter combinators (filter.go:
   FilterType / FilterOr / FilterAnd) as modelled by Types.flt_ok, the
   definition the Redefine model and the correspondence check evaluate.
   They hold for every universe, every type and filter lists of any length
   and nesting depth.  Proof file: no definitions the model depends on. *)
From ArgMapper Require Import Base Types Args Resolver.
From Coq Require Import List Bool.
Import ListNotations.

Section FilterLaws.
  Variable u : universe.

  (* FilterOr() accepts nothing, FilterAnd() accepts everything *)
  Lemma flt_or_nil t : flt_ok u (FltOr []) t = false.
  Proof. reflexivity. Qed.
  Lemma flt_and_nil t : flt_ok u (FltAnd []) t = true.
  Proof. reflexivity. Qed.

  Lemma flt_or_cons f fs t :
    flt_ok u (FltOr (f :: fs)) t = flt_ok u f t || flt_ok u (FltOr fs) t.
  Proof. reflexivity. Qed.
  Lemma flt_and_cons f fs t :
    flt_ok u (FltAnd (f :: fs)) t = flt_ok u f t && flt_ok u (FltAnd fs) t.
  Proof. reflexivity. Qed.

  (* a one-element combinator is its element *)
  Lemma flt_or_single f t : flt_ok u (FltOr [f]) t = flt_ok u f t.
  Proof. cbn [flt_ok existsb]. apply orb_false_r. Qed.
  Lemma flt_and_single f t : flt_ok u (FltAnd [f]) t = flt_ok u f t.
  Proof. cbn [flt_ok forallb]. apply andb_true_r. Qed.

  (* concatenation of argument lists *)
  Lemma flt_or_app fs gs t :
    flt_ok u (FltOr (fs ++ gs)) t = flt_ok u (FltOr fs) t || flt_ok u (FltOr gs) t.
  Proof. cbn [flt_ok]. apply existsb_app. Qed.
  Lemma flt_and_app fs gs t :
    flt_ok u (FltAnd (fs ++ gs)) t = flt_ok u (FltAnd fs) t && flt_ok u (FltAnd gs) t.
  Proof. cbn [flt_ok]. apply forallb_app. Qed.

  (* nesting flattens: FilterOr(FilterOr(fs...), gs...) = FilterOr(fs..., gs...) *)
  Lemma flt_or_flatten fs gs t :
    flt_ok u (FltOr (FltOr fs :: gs)) t = flt_ok u (FltOr (fs ++ gs)) t.
  Proof. rewrite flt_or_cons, flt_or_app. reflexivity. Qed.
  Lemma flt_and_flatten fs gs t :
    flt_ok u (FltAnd (FltAnd fs :: gs)) t = flt_ok u (FltAnd (fs ++ gs)) t.
  Proof. rewrite flt_and_cons, flt_and_app. reflexivity. Qed.

  (* characterisation by membership: Or = some member accepts, And = all do *)
  Lemma flt_or_spec fs t :
    flt_ok u (FltOr fs) t = true <-> exists f, In f fs /\ flt_ok u f t = true.
  Proof. cbn [flt_ok]. apply existsb_exists. Qed.
  Lemma flt_and_spec fs t :
    flt_ok u (FltAnd fs) t = true <-> forall f, In f fs -> flt_ok u f t = true.
  Proof. cbn [flt_ok]. apply forallb_forall. Qed.

  (* the order and multiplicity of the arguments do not matter *)
  Lemma flt_or_incl fs gs t :
    incl fs gs -> flt_ok u (FltOr fs) t = true -> flt_ok u (FltOr gs) t = true.
  Proof.
    intros Hi H. apply flt_or_spec in H. destruct H as [f [Hf Hok]].
    apply flt_or_spec. exists f. split; [apply Hi; exact Hf | exact Hok].
  Qed.
  Lemma flt_and_incl fs gs t :
    incl fs gs -> flt_ok u (FltAnd gs) t = true -> flt_ok u (FltAnd fs) t = true.
  Proof.
    intros Hi H. apply flt_and_spec. intros f Hf.
    apply (proj1 (flt_and_spec gs t) H). apply Hi. exact Hf.
  Qed.

  (* And is below each member, each member is below Or *)
  Lemma flt_and_le f fs t :
    In f fs -> flt_ok u (FltAnd fs) t = true -> flt_ok u f t = true.
  Proof. intros Hf H. exact (proj1 (flt_and_spec fs t) H f Hf). Qed.
  Lemma flt_le_or f fs t :
    In f fs -> flt_ok u f t = true -> flt_ok u (FltOr fs) t = true.
  Proof. intros Hf H. apply flt_or_spec. exists f. split; assumption. Qed.

  (* absorption *)
  Lemma flt_absorb_or_and f gs t :
    flt_ok u (FltOr [f; FltAnd (f :: gs)]) t = flt_ok u f t.
  Proof.
    cbn [flt_ok existsb forallb].
    destruct (flt_ok u f t); cbn; [reflexivity|reflexivity].
  Qed.
  Lemma flt_absorb_and_or f gs t :
    flt_ok u (FltAnd [f; FltOr (f :: gs)]) t = flt_ok u f t.
  Proof.
    cbn [flt_ok existsb forallb].
    destruct (flt_ok u f t); cbn; [reflexivity|reflexivity].
  Qed.

  (* a type filter accepts its own type *)
  Lemma flt_type_refl t : flt_ok u (FltType t) t = true.
  Proof. cbn [flt_ok]. rewrite Z.eqb_refl. reflexivity. Qed.
End FilterLaws.

Print Assumptions flt_or_flatten.
Print Assumptions flt_and_incl.

(* Through Redefine: an output filter that permits nothing (FilterOr()) makes
   Redefine of any function with at least one output fail with the
   output-filter error -- for every universe, world, order tape, default and
   option list, before any graph is built. *)
Lemma redefine_or_nil_rejects u f d opts w t bo fld flds :
  build_args [] opts = Some bo -> b_fout bo = Some (FltOr []) -> fn_out f = fld :: flds ->
  exists r, redefine u f d opts w t = Ok (inr XFilterOut, r).
Proof.
  intros Hb Hf Ho. unfold redefine. rewrite Hb, Hf, Ho.
  cbn [forallb flt_ok existsb negb andb]. eexists. reflexivity.
Qed.
Print Assumptions redefine_or_nil_rejects.

(* FilterLaws.v -- algebraic laws of the filter combinators (filter.go:
   FilterType / FilterOr / FilterAnd) as modelled by Types.flt_okv (filters over whole values:
   name, type, subtype; FltName / FltSub are the tests a caller-written
   FilterFunc can make on Value.Name / Value.Subtype), the
   definition the Redefine model and the correspondence check evaluate.
   They hold for every universe, every type and filter lists of any length
   and nesting depth.  Proof file: no definitions the model depends on. *)
From ArgMapper Require Import Base Types Args Resolver.
From Coq Require Import List Bool.
Import ListNotations.

Section FilterLaws.
  Variable u : universe.

  (* FilterOr() accepts nothing, FilterAnd() accepts everything *)
  Lemma flt_or_nil n t s : flt_okv u (FltOr []) n t s = false.
  Proof. reflexivity. Qed.
  Lemma flt_and_nil n t s : flt_okv u (FltAnd []) n t s = true.
  Proof. reflexivity. Qed.

  Lemma flt_or_cons f fs n t s :
    flt_okv u (FltOr (f :: fs)) n t s = flt_okv u f n t s || flt_okv u (FltOr fs) n t s.
  Proof. reflexivity. Qed.
  Lemma flt_and_cons f fs n t s :
    flt_okv u (FltAnd (f :: fs)) n t s = flt_okv u f n t s && flt_okv u (FltAnd fs) n t s.
  Proof. reflexivity. Qed.

  (* a one-element combinator is its element *)
  Lemma flt_or_single f n t s : flt_okv u (FltOr [f]) n t s = flt_okv u f n t s.
  Proof. cbn [flt_okv existsb]. apply orb_false_r. Qed.
  Lemma flt_and_single f n t s : flt_okv u (FltAnd [f]) n t s = flt_okv u f n t s.
  Proof. cbn [flt_okv forallb]. apply andb_true_r. Qed.

  (* concatenation of argument lists *)
  Lemma flt_or_app fs gs n t s :
    flt_okv u (FltOr (fs ++ gs)) n t s = flt_okv u (FltOr fs) n t s || flt_okv u (FltOr gs) n t s.
  Proof. cbn [flt_okv]. apply existsb_app. Qed.
  Lemma flt_and_app fs gs n t s :
    flt_okv u (FltAnd (fs ++ gs)) n t s = flt_okv u (FltAnd fs) n t s && flt_okv u (FltAnd gs) n t s.
  Proof. cbn [flt_okv]. apply forallb_app. Qed.

  (* nesting flattens: FilterOr(FilterOr(fs...), gs...) = FilterOr(fs..., gs...) *)
  Lemma flt_or_flatten fs gs n t s :
    flt_okv u (FltOr (FltOr fs :: gs)) n t s = flt_okv u (FltOr (fs ++ gs)) n t s.
  Proof. rewrite flt_or_cons, flt_or_app. reflexivity. Qed.
  Lemma flt_and_flatten fs gs n t s :
    flt_okv u (FltAnd (FltAnd fs :: gs)) n t s = flt_okv u (FltAnd (fs ++ gs)) n t s.
  Proof. rewrite flt_and_cons, flt_and_app. reflexivity. Qed.

  (* characterisation by membership: Or = some member accepts, And = all do *)
  Lemma flt_or_spec fs n t s :
    flt_okv u (FltOr fs) n t s = true <-> exists f, In f fs /\ flt_okv u f n t s = true.
  Proof. cbn [flt_okv]. apply existsb_exists. Qed.
  Lemma flt_and_spec fs n t s :
    flt_okv u (FltAnd fs) n t s = true <-> forall f, In f fs -> flt_okv u f n t s = true.
  Proof. cbn [flt_okv]. apply forallb_forall. Qed.

  (* the order and multiplicity of the arguments do not matter *)
  Lemma flt_or_incl fs gs n t s :
    incl fs gs -> flt_okv u (FltOr fs) n t s = true -> flt_okv u (FltOr gs) n t s = true.
  Proof.
    intros Hi H. apply flt_or_spec in H. destruct H as [f [Hf Hok]].
    apply flt_or_spec. exists f. split; [apply Hi; exact Hf | exact Hok].
  Qed.
  Lemma flt_and_incl fs gs n t s :
    incl fs gs -> flt_okv u (FltAnd gs) n t s = true -> flt_okv u (FltAnd fs) n t s = true.
  Proof.
    intros Hi H. apply flt_and_spec. intros f Hf.
    apply (proj1 (flt_and_spec gs n t s) H). apply Hi. exact Hf.
  Qed.

  (* And is below each member, each member is below Or *)
  Lemma flt_and_le f fs n t s :
    In f fs -> flt_okv u (FltAnd fs) n t s = true -> flt_okv u f n t s = true.
  Proof. intros Hf H. exact (proj1 (flt_and_spec fs n t s) H f Hf). Qed.
  Lemma flt_le_or f fs n t s :
    In f fs -> flt_okv u f n t s = true -> flt_okv u (FltOr fs) n t s = true.
  Proof. intros Hf H. apply flt_or_spec. exists f. split; assumption. Qed.

  (* absorption *)
  Lemma flt_absorb_or_and f gs n t s :
    flt_okv u (FltOr [f; FltAnd (f :: gs)]) n t s = flt_okv u f n t s.
  Proof.
    cbn [flt_okv existsb forallb].
    destruct (flt_okv u f n t s); cbn; [reflexivity|reflexivity].
  Qed.
  Lemma flt_absorb_and_or f gs n t s :
    flt_okv u (FltAnd [f; FltOr (f :: gs)]) n t s = flt_okv u f n t s.
  Proof.
    cbn [flt_okv existsb forallb].
    destruct (flt_okv u f n t s); cbn; [reflexivity|reflexivity].
  Qed.

  (* a type filter accepts its own type *)
  Lemma flt_type_refl n t s : flt_okv u (FltType t) n t s = true.
  Proof. cbn [flt_okv]. rewrite Z.eqb_refl. reflexivity. Qed.
End FilterLaws.

Print Assumptions flt_or_flatten.
Print Assumptions flt_and_incl.

(* Through Redefine: an output filter that permits nothing (FilterOr()) makes
   Redefine of any function with at least one output fail with the
   output-filter error -- for every universe, world, order tape, default and
   option list, before any graph is built. *)
Lemma redefine_or_nil_rejects u f d opts w t bo fld flds :
  build_args [] opts = Some bo -> b_fout bo = Some (FltOr []) -> fn_out f = fld :: flds ->
  exists r, redefine u f d opts w t = Ok (inr XFilterOut, r).
Proof.
  intros Hb Hf Ho. unfold redefine. rewrite Hb, Hf, Ho.
  cbn [forallb flt_okv existsb negb andb]. eexists. reflexivity.
Qed.
Print Assumptions redefine_or_nil_rejects.

(* C08CallableOps.v -- the call graph as a list of primitive operations
   (C07AffinityOps), for ANY call: every construction step of [full_graph]
   is an [app_ops]; a stage-wise monotonicity lemma.  Helper of C08Callable.v. *)
From ArgMapper Require Import Base Graph GraphAlg GraphSpec Types Args Resolver ResolverSpec GenWeights.
From ArgMapper.proofs Require Import C18DijkstraLemmas C19RefineMap C19RefineGraph
     C0213UnsatGraph C0213UnsatBuild C0213UnsatPlan C07AffinityOps.
From Coq Require Import List Lia ZArith.
Import ListNotations.
Set Implicit Arguments.
Local Open Scope Z_scope.

(* ---------- inclusion of operation lists ---------- *)
Definition ops_le (L1 L2 : list op) : Prop :=
  (forall k, In k (verts L1) -> In k (verts L2)) /\
  (forall a b w, In (OE a b w) L1 -> In (OE a b w) L2).

Lemma ops_le_refl L : ops_le L L.
Proof. split; auto. Qed.

Lemma in_verts_app k o1 o2 : In k (verts (o1 ++ o2)) <-> In k (verts o1) \/ In k (verts o2).
Proof. rewrite verts_app. apply in_app_iff. Qed.

Lemma ops_le_app L1 L2 M1 M2 : ops_le L1 M1 -> ops_le L2 M2 -> ops_le (L1 ++ L2) (M1 ++ M2).
Proof.
  intros [A1 B1] [A2 B2]. split.
  - intros k. rewrite !in_verts_app. intros [I|I]; [left; apply A1; exact I|right; apply A2; exact I].
  - intros a b w. rewrite !in_app_iff. intros [I|I]; [left; apply B1; exact I|right; apply B2; exact I].
Qed.

Lemma in_verts_flat_map {A} k (h : A -> list op) l :
  In k (verts (flat_map h l)) <-> exists x, In x l /\ In k (verts (h x)).
Proof.
  induction l as [|y l IH]; simpl.
  - split; [intros []|intros (x & [] & _)].
  - rewrite in_verts_app, IH. split.
    + intros [I|(x & Ix & I)]; [exists y; auto|exists x; auto].
    + intros (x & [<-|Ix] & I); [left; exact I|right; exists x; auto].
Qed.

Lemma ops_le_flat_map {A} (h : A -> list op) l1 l2 :
  (forall x, In x l1 -> In x l2) -> ops_le (flat_map h l1) (flat_map h l2).
Proof.
  intros Inc. split.
  - intros k. rewrite !in_verts_flat_map. intros (x & Ix & I). exists x. auto.
  - intros a b w. rewrite !in_flat_map. intros (x & Ix & I). exists x. auto.
Qed.

(* one stage of the construction, applied to two graphs *)
Lemma stage_mono (g1 g2 : rgraph) (L1 L2 : list op) :
  wf_graph g1 -> wf_graph g2 -> gle g1 g2 -> ops_le L1 L2 ->
  wseq (fun k => present g2 k = true) L2 ->
  gle (app_ops L1 g1) (app_ops L2 g2).
Proof.
  intros W1 W2 [Gv Ge] [Lv Le] Ws.
  destruct (app_ops_spec L1 W1) as (_ & Hv1 & Hs1 & _ & _).
  destruct (app_ops_spec L2 W2) as (_ & Hv2 & _ & Hm2 & Hc2).
  split.
  - intros k V. apply present_true in V. rewrite Hv1 in V. apply present_true. rewrite Hv2.
    apply orb_true_iff in V. apply orb_true_iff. destruct V as [V|V].
    + left. apply present_true. apply Gv. apply present_true. exact V.
    + right. apply membT. apply Lv. apply membT. exact V.
  - intros a b N. destruct (ew (app_ops L1 g1) a b) as [w|] eqn:Q; [|contradiction N; reflexivity].
    destruct (Hs1 _ _ _ Q) as [Q1|Q1].
    + apply Hm2. apply Ge. rewrite Q1. discriminate.
    + apply (Hc2 Ws a b w). apply Le. exact Q1.
Qed.

Lemma stage_facts (g : rgraph) (L : list op) :
  wf_graph g -> wseq (fun k => present g k = true) L ->
  wf_graph (app_ops L g) /\ gle g (app_ops L g) /\
  (forall k, present (app_ops L g) k = present g k || memb k (verts L)) /\
  (forall a b w, In (OE a b w) L -> ew (app_ops L g) a b <> None) /\
  (forall a b w, ew (app_ops L g) a b = Some w -> ew g a b = Some w \/ In (OE a b w) L).
Proof.
  intros W Ws. destruct (app_ops_spec L W) as (W' & Hv & Hs & Hm & Hc).
  split; [exact W'|]. split; [|split; [exact Hv|split; [apply Hc; exact Ws|exact Hs]]].
  split; [|exact Hm].
  intros k V. apply present_true. rewrite Hv. apply present_true in V. rewrite V. reflexivity.
Qed.

(* ---------- well-sequencedness of the standard chunks ---------- *)
Lemma wseq_pairs_out {A} (P : vkey -> Prop) (fk : vkey) (key : A -> vkey) (wt : A -> Z) (l : list A) :
  P fk -> wseq P (flat_map (fun x => [OV (key x); OE fk (key x) (wt x)]) l).
Proof.
  intros Pf. apply wseq_flat_map. intros x Q _ PQ. simpl.
  split; [left; apply PQ; exact Pf|]. split; [right; left; reflexivity|exact I].
Qed.

Lemma wseq_pairs_in {A} (P : vkey -> Prop) (fk : vkey) (key : A -> vkey) (wt : Z) (l : list A) :
  P fk -> wseq P (flat_map (fun x => [OV (key x); OE (key x) fk wt]) l).
Proof.
  intros Pf. apply wseq_flat_map. intros x Q _ PQ. simpl.
  split; [right; left; reflexivity|]. split; [left; apply PQ; exact Pf|exact I].
Qed.

Lemma wseq_fops (P : vkey -> Prop) c io : P KRoot -> wseq P (fops c io).
Proof.
  intros Pr. unfold fops.
  set (fk := KFunc (fn_type c)).
  set (P1 := fun k => P k \/ In k (verts [OF fk (PFunc c)])).
  assert (P1f : P1 fk) by (right; left; reflexivity).
  assert (P1r : P1 KRoot) by (left; exact Pr).
  apply wseq_app; [exact I|]. fold P1.
  apply wseq_app.
  { destruct (fn_in c); simpl; auto. }
  apply wseq_app.
  { apply wseq_pairs_out with (key := field_key)
      (wt := fun fld => if String.eqb (f_name fld) EmptyString then w_typed else w_normal). cbv beta. left. exact P1f. }
  destruct io; [|exact I].
  apply wseq_app.
  - apply wseq_pairs_in with (key := field_out_key). cbv beta. left. left. exact P1f.
  - apply wseq_pairs_in with (key := field_out_key). cbv beta. left. left. left. exact P1f.
Qed.

Lemma wseq_ins_ops (P : vkey -> Prop) ins : P KRoot -> wseq P (ins_ops ins).
Proof.
  intros Pr. unfold ins_ops. apply wseq_flat_map. intros kv Q _ PQ. simpl.
  split; [right; left; reflexivity|]. split; [left; apply PQ; exact Pr|exact I].
Qed.

Lemma wseq_val_ops (P : vkey -> Prop) l : (forall k, In k l -> P k) -> wseq P (flat_map val_ops l).
Proof.
  intros Pl. apply wseq_flat_map. intros k Q Ik PQ.
  destruct k as [|ft|n t s|t s|t s]; try exact I.
  assert (Qk : Q (KVal n t s)) by (apply PQ, Pl, Ik).
  unfold val_ops. destruct (String.eqb s EmptyString); simpl.
  - split; [left; exact Qk|]. split; [right; left; reflexivity|].
    split; [right; left; reflexivity|]. split; [left; left; exact Qk|exact I].
  - split; [left; exact Qk|]. split; [right; left; reflexivity|].
    split; [right; left; reflexivity|]. split; [left; left; exact Qk|].
    split; [right; left; reflexivity|]. split; [left; left; left; exact Qk|exact I].
Qed.

Lemma wseq_arg_ops (P : vkey -> Prop) l : (forall k, In k l -> P k) -> wseq P (flat_map arg_ops l).
Proof.
  intros Pl. apply wseq_flat_map. intros k Q Ik PQ.
  destruct k as [|ft|n t s|t s|t s]; try exact I.
  simpl. split; [left; apply PQ, Pl, Ik|]. split; [right; left; reflexivity|exact I].
Qed.

(* ---------- step_ifaces as operations ---------- *)
Definition iface_inner (u : universe) (k : vkey) (t : ty) (k2 : vkey) : list op :=
  match k2 with
  | KOut t2 s2 => if negb (Base.eqb k k2) && negb (t2 =? t) && implements u t2 t then [OE k k2 w_typed] else []
  | _ => []
  end.
Definition iface_ops (u : universe) (ks : list vkey) (k : vkey) : list op :=
  match k with
  | KOut t s => if is_iface u t then flat_map (iface_inner u k t) ks else []
  | _ => []
  end.

Lemma verts_iface_inner u k t ks : verts (flat_map (iface_inner u k t) ks) = [].
Proof.
  induction ks as [|k2 ks IH2]; simpl; [reflexivity|]. rewrite verts_app, IH2, app_nil_r.
  destruct k2 as [|ft2|n2 t2 s2|t2 s2|t2 s2]; try reflexivity. unfold iface_inner.
  match goal with |- context [if ?c then _ else _] => destruct c end; reflexivity.
Qed.

Lemma verts_iface u ks l : verts (flat_map (iface_ops u ks) l) = [].
Proof.
  induction l as [|k l IH]; simpl; [reflexivity|]. rewrite verts_app, IH, app_nil_r.
  destruct k as [|ft|n t s|t s|t s]; try reflexivity. unfold iface_ops.
  destruct (is_iface u t); [|reflexivity]. apply verts_iface_inner.
Qed.

Lemma ghash_app_ops_noverts L : forall g, verts L = [] -> ghash (app_ops L g) = ghash g.
Proof.
  induction L as [|o L IH]; intros g V; [reflexivity|].
  change (app_ops (o :: L) g) with (app_ops L (app_op g o)).
  destruct o as [k|k p|k|a b w]; try discriminate V.
  rewrite IH; [|exact V]. apply ghash_add_e.
Qed.

Lemma step_ifaces_ops u g :
  step_ifaces u g = app_ops (flat_map (iface_ops u (out_keys g)) (out_keys g)) g.
Proof.
  unfold step_ifaces. set (ks := out_keys g).
  assert (G : forall l g', out_keys g' = ks ->
            fold_left (fun g0 k => match k with
              | KOut t s =>
                  if is_iface u t then
                    fold_left (fun g1 k2 => match k2 with
                      | KOut t2 s2 => if negb (Base.eqb k k2) && negb (t2 =? t) && implements u t2 t
                                      then add_e g1 k k2 w_typed else g1
                      | _ => g1 end) (out_keys g0) g0
                  else g0
              | _ => g0 end) l g' = app_ops (flat_map (iface_ops u ks) l) g').
  { induction l as [|k l IH]; intros g' Ek; [reflexivity|].
    cbn [fold_left flat_map]. rewrite app_ops_app.
    assert (St : match k with
              | KOut t s =>
                  if is_iface u t then
                    fold_left (fun g1 k2 => match k2 with
                      | KOut t2 s2 => if negb (Base.eqb k k2) && negb (t2 =? t) && implements u t2 t
                                      then add_e g1 k k2 w_typed else g1
                      | _ => g1 end) (out_keys g') g'
                  else g'
              | _ => g' end = app_ops (iface_ops u ks k) g').
    { destruct k as [|ft|n t s|t s|t s]; try reflexivity. unfold iface_ops.
      destruct (is_iface u t); [|reflexivity].
      rewrite Ek. rewrite <- app_ops_flat_map. apply fold_left_ext.
      intros a k2. destruct k2 as [|ft2|n2 t2 s2|t2 s2|t2 s2]; try reflexivity. unfold iface_inner.
      match goal with |- context [if ?c then _ else _] => destruct c end; reflexivity. }
    rewrite St. apply IH.
    unfold out_keys, g_vertex_keys. rewrite ghash_app_ops_noverts.
    - exact Ek.
    - pose proof (verts_iface u ks [k]) as V. simpl in V. rewrite app_nil_r in V. exact V. }
  apply G. reflexivity.
Qed.

Lemma wseq_iface_ops (P : vkey -> Prop) u ks l :
  (forall k, In k ks -> P k) -> (forall k, In k l -> P k) -> wseq P (flat_map (iface_ops u ks) l).
Proof.
  intros Pks Pl. apply wseq_flat_map. intros k Q Ik PQ.
  destruct k as [|ft|n t s|t s|t s]; try exact I. unfold iface_ops.
  destruct (is_iface u t); [|exact I].
  apply wseq_flat_map. intros k2 Q2 Ik2 PQ2.
  destruct k2 as [|ft2|n2 t2 s2|t2 s2|t2 s2]; try exact I. unfold iface_inner.
  match goal with |- context [if ?c then _ else _] => destruct c end; [|exact I].
  cbn [wseq]. split; [apply PQ2, PQ, Pl, Ik|]. split; [apply PQ2, PQ, Pks, Ik2|exact I].
Qed.

Lemma in_iface_ops u ks l a b w :
  In (OE a b w) (flat_map (iface_ops u ks) l) <->
  exists t s t2 s2, a = KOut t s /\ b = KOut t2 s2 /\ w = w_typed /\ In a l /\ In b ks /\
    is_iface u t = true /\ a <> b /\ t2 <> t /\ implements u t2 t = true.
Proof.
  rewrite in_flat_map. split.
  - intros (k & Ik & I). destruct k as [|ft|n t s|t s|t s]; try (destruct I). unfold iface_ops in I.
    destruct (is_iface u t) eqn:If; [|destruct I].
    apply in_flat_map in I. destruct I as (k2 & Ik2 & I).
    destruct k2 as [|ft2|n2 t2 s2|t2 s2|t2 s2]; try (destruct I). unfold iface_inner in I.
    destruct (negb (Base.eqb (KOut t s) (KOut t2 s2)) && negb (t2 =? t) && implements u t2 t) eqn:C; [|destruct I].
    destruct I as [I|[]]. inversion I; subst a b w.
    apply andb_true_iff in C. destruct C as [C C3]. apply andb_true_iff in C. destruct C as [C1 C2].
    exists t, s, t2, s2. repeat (split; [first [reflexivity|assumption]|]).
    split; [|split; [|exact C3]].
    + apply negb_true_iff in C1. apply Base.eqb_neq in C1. exact C1.
    + apply negb_true_iff in C2. apply Z.eqb_neq in C2. exact C2.
  - intros (t & s & t2 & s2 & -> & -> & -> & Ia & Ib & If & Ne & Nt & Im).
    exists (KOut t s). split; [exact Ia|]. unfold iface_ops. rewrite If.
    apply in_flat_map. exists (KOut t2 s2). split; [exact Ib|]. unfold iface_inner.
    apply Base.eqb_neq in Ne. apply Z.eqb_neq in Nt. rewrite Ne, Nt, Im. left. reflexivity.
Qed.

(* ---------- step_redefine only adds edges to the root ---------- *)
Lemma step_redefine_facts u fin g :
  wf_graph g ->
  wf_graph (step_redefine u fin g) /\
  (forall k, vtx (step_redefine u fin g) k = vtx g k) /\
  (forall a b, b <> KRoot -> ew (step_redefine u fin g) a b = ew g a b) /\
  (forall a b, ew g a b <> None -> ew (step_redefine u fin g) a b <> None).
Proof.
  intros W. unfold step_redefine.
  apply (fold_left_inv (fun g' => wf_graph g' /\ (forall k, vtx g' k = vtx g k) /\
                                  (forall a b, b <> KRoot -> ew g' a b = ew g a b) /\
                                  (forall a b, ew g a b <> None -> ew g' a b <> None))).
  - split; [exact W|]. split; [reflexivity|]. split; auto.
  - intros g' k (W' & Hv & He & Hm) _.
    assert (St : forall x, wf_graph (add_e g' x KRoot w_normal) /\
                           (forall k0, vtx (add_e g' x KRoot w_normal) k0 = vtx g k0) /\
                           (forall a b, b <> KRoot -> ew (add_e g' x KRoot w_normal) a b = ew g a b) /\
                           (forall a b, ew g a b <> None -> ew (add_e g' x KRoot w_normal) a b <> None)).
    { intros x. destruct (add_e_spec x KRoot w_normal W') as (W2 & Hv2 & He2).
      split; [exact W2|]. split; [intros k0; rewrite Hv2; apply Hv|]. split.
      - intros a b Nb. rewrite He2.
        destruct (Base.eqb_spec b KRoot) as [->|_]; [contradiction Nb; reflexivity|].
        rewrite andb_false_r. apply He. exact Nb.
      - intros a b N. rewrite He2.
        destruct (present g' x && present g' KRoot && Base.eqb a x && Base.eqb b KRoot); [discriminate|].
        apply Hm. exact N. }
    destruct k as [|ft|n t s|t s|t s]; try (split; [exact W'|split; [exact Hv|split; [exact He|exact Hm]]]).
    + destruct (match fin with Some f => flt_okv u f n t s | None => true end); [apply St|].
      split; [exact W'|split; [exact Hv|split; [exact He|exact Hm]]].
    + destruct (match fin with Some f => flt_okv u f EmptyString t s | None => true end); [apply St|].
      split; [exact W'|split; [exact Hv|split; [exact He|exact Hm]]].
Qed.

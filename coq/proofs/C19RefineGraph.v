(* C19RefineGraph.v -- single-graph level of the C19 refinement: every
   mutator of Graph.v preserves [wf_graph] and acts on the (vertex, edge)
   lookup functions exactly like the abstract operations. *)
From ArgMapper Require Import Base Graph GraphAlg GraphHist GraphSpec GraphStatements.
From ArgMapper.proofs Require Import C19RefineMap.
From Coq Require Import Lia.
Set Implicit Arguments.

Section G.
  Context {K : Type} {E : EqDec K} {V : Type}.
  Notation graph := (graph K V).
  Notation adj := (adj K).

  (* g shows vertex function fv and edge function fe (both adjacency maps) *)
  Definition gspec (g : graph) (fv : K -> option V) (fe : K -> K -> option Z) : Prop :=
    (forall k, lookup k (ghash g) = fv k) /\
    (forall a b, lookup b (inner (gout g) a) = fe a b) /\
    (forall a b, lookup a (inner (gin g) b) = fe a b) /\
    wf_graph g.

  Lemma agrees_gspec (g : graph) (m : amodel) (r : bool) :
    agrees g m r <-> gspec g (mv m) (fun a b => if r then me m b a else me m a b).
  Proof. unfold agrees, gspec, g_vertex, g_weight. reflexivity. Qed.

  Lemma gspec_ext (g : graph) fv fe fv' fe' :
    gspec g fv fe -> (forall k, fv k = fv' k) -> (forall a b, fe a b = fe' a b) -> gspec g fv' fe'.
  Proof.
    intros (Hv & Ho & Hi & W) Ev Ee. split; [|split; [|split]].
    - intros k. rewrite <- Ev. apply Hv.
    - intros a b. rewrite <- Ee. apply Ho.
    - intros a b. rewrite <- Ee. apply Hi.
    - exact W.
  Qed.

  Lemma memb_in (x : K) (l : list K) : memb x l = true <-> In x l.
  Proof.
    induction l as [|y l IH]; simpl.
    - split; [discriminate|intros []].
    - rewrite orb_true_iff, IH. destruct (eqb_spec x y) as [->|N].
      + split; auto.
      + split; (intros [Q|Q]; [first [discriminate|congruence]|right; exact Q]).
  Qed.

  (* ---------- inner ---------- *)
  Lemma inner_insert (m : adj) (a a' : K) (i : amap K Z) :
    inner (insert a i m) a' = if eqb a' a then i else inner m a'.
  Proof. unfold inner. rewrite lookup_insert. destruct (eqb a' a); reflexivity. Qed.

  Lemma inner_delete (m : adj) (k a : K) :
    inner (delete k m) a = if eqb a k then [] else inner m a.
  Proof. unfold inner. rewrite lookup_delete. destruct (eqb a k); reflexivity. Qed.

  Lemma inner_none (m : adj) (a : K) : lookup a m = None -> inner m a = [].
  Proof. unfold inner. intros ->. reflexivity. Qed.

  Lemma inner_some (m : adj) (a : K) i : lookup a m = Some i -> inner m a = i.
  Proof. unfold inner. intros ->. reflexivity. Qed.

  (* ---------- adj_del ---------- *)
  Lemma keys_adj_del (m : adj) (a b : K) : keys (adj_del m a b) = keys m.
  Proof.
    unfold adj_del. destruct (lookup a m) as [i|] eqn:Q; [|reflexivity].
    apply keys_insert_present with (v0 := i). exact Q.
  Qed.

  Lemma lookup_inner_adj_del (m : adj) (a b a' b' : K) :
    lookup b' (inner (adj_del m a b) a') =
    if eqb a' a && eqb b' b then None else lookup b' (inner m a').
  Proof.
    unfold adj_del. destruct (lookup a m) as [i|] eqn:Q.
    - rewrite inner_insert. destruct (eqb_spec a' a) as [->|N]; simpl.
      + rewrite lookup_delete. rewrite (inner_some _ _ Q). reflexivity.
      + reflexivity.
    - destruct (eqb_spec a' a) as [->|N]; simpl; [|reflexivity].
      rewrite (inner_none _ _ Q). simpl. destruct (eqb b' b); reflexivity.
  Qed.

  Lemma inner_nodup_adj_del (m : adj) (a b : K) :
    (forall k i, lookup k m = Some i -> NoDup (keys i)) ->
    forall k i, lookup k (adj_del m a b) = Some i -> NoDup (keys i).
  Proof.
    intros Hm k i. unfold adj_del. destruct (lookup a m) as [i0|] eqn:Q.
    - rewrite lookup_insert. destruct (eqb_spec k a) as [->|N].
      + intros Q'. inversion Q'; subst. apply nodup_keys_delete. eapply Hm; eauto.
      + apply Hm.
    - apply Hm.
  Qed.

  (* ---------- the two loops of Remove ---------- *)
  Lemma keys_fold_adj_del (k : K) (l : list K) (m : adj) :
    keys (fold_left (fun m o => adj_del m o k) l m) = keys m.
  Proof.
    revert m; induction l as [|x l IH]; intros m; simpl; [reflexivity|].
    rewrite IH. apply keys_adj_del.
  Qed.

  Lemma lookup_inner_fold_adj_del (k : K) (l : list K) (m : adj) (a b : K) :
    lookup b (inner (fold_left (fun m o => adj_del m o k) l m) a) =
    if memb a l && eqb b k then None else lookup b (inner m a).
  Proof.
    revert m; induction l as [|x l IH]; intros m; simpl; [reflexivity|].
    rewrite IH, lookup_inner_adj_del.
    destruct (eqb a x), (memb a l), (eqb b k); reflexivity.
  Qed.

  Lemma inner_nodup_fold_adj_del (k : K) (l : list K) (m : adj) :
    (forall a i, lookup a m = Some i -> NoDup (keys i)) ->
    forall a i, lookup a (fold_left (fun m o => adj_del m o k) l m) = Some i -> NoDup (keys i).
  Proof.
    revert m; induction l as [|x l IH]; intros m Hm; simpl; [exact Hm|].
    apply IH. apply inner_nodup_adj_del. exact Hm.
  Qed.

  (* ---------- building / using gspec ---------- *)
  Lemma gspec_intro (g : graph) fv fe :
    NoDup (keys (gout g)) -> NoDup (keys (gin g)) -> NoDup (keys (ghash g)) ->
    (forall k, In k (keys (gout g)) <-> In k (keys (ghash g))) ->
    (forall k, In k (keys (gin g)) <-> In k (keys (ghash g))) ->
    (forall k i, lookup k (gout g) = Some i -> NoDup (keys i)) ->
    (forall k i, lookup k (gin g) = Some i -> NoDup (keys i)) ->
    (forall k, lookup k (ghash g) = fv k) ->
    (forall a b, lookup b (inner (gout g) a) = fe a b) ->
    (forall a b, lookup a (inner (gin g) b) = fe a b) ->
    (forall a b w, fe a b = Some w -> fv a <> None /\ fv b <> None) ->
    gspec g fv fe.
  Proof.
    intros N1 N2 N3 K1 K2 I1 I2 Hv Ho Hi Hc.
    split; [exact Hv|]. split; [exact Ho|]. split; [exact Hi|].
    constructor; auto.
    - intros a b w. rewrite Ho, Hi. reflexivity.
    - intros a b w Q. rewrite Ho in Q. apply Hc in Q. destruct Q as [Qa Qb].
      rewrite <- Hv in Qa, Qb. split; apply in_keys_lookup.
      + destruct (lookup a (ghash g)) as [v|]; [eauto|contradiction Qa; reflexivity].
      + destruct (lookup b (ghash g)) as [v|]; [eauto|contradiction Qb; reflexivity].
  Qed.

  Lemma gspec_closed (g : graph) fv fe a b w :
    gspec g fv fe -> fe a b = Some w -> fv a <> None /\ fv b <> None.
  Proof.
    intros (Hv & Ho & Hi & W) Q. rewrite <- Ho in Q.
    apply (wf_closed W) in Q. destruct Q as [Qa Qb].
    apply in_keys_lookup in Qa. apply in_keys_lookup in Qb.
    destruct Qa as [va Qa]. destruct Qb as [vb Qb].
    rewrite <- !Hv. rewrite Qa, Qb. split; discriminate.
  Qed.

  Lemma gspec_out_none (g : graph) fv fe k :
    gspec g fv fe -> (lookup k (gout g) = None <-> fv k = None).
  Proof.
    intros (Hv & Ho & Hi & W). rewrite <- Hv.
    rewrite <- !not_in_keys_lookup. rewrite (wf_out_keys W). reflexivity.
  Qed.

  Lemma gspec_in_none (g : graph) fv fe k :
    gspec g fv fe -> (lookup k (gin g) = None <-> fv k = None).
  Proof.
    intros (Hv & Ho & Hi & W). rewrite <- Hv.
    rewrite <- !not_in_keys_lookup. rewrite (wf_in_keys W). reflexivity.
  Qed.

  Lemma gspec_fe_none_l (g : graph) fv fe a b :
    gspec g fv fe -> fv a = None -> fe a b = None.
  Proof.
    intros G Q. destruct (fe a b) as [w|] eqn:F; [|reflexivity].
    destruct (gspec_closed _ _ G F) as [Qa _]. contradiction.
  Qed.

  Lemma gspec_fe_none_r (g : graph) fv fe a b :
    gspec g fv fe -> fv b = None -> fe a b = None.
  Proof.
    intros G Q. destruct (fe a b) as [w|] eqn:F; [|reflexivity].
    destruct (gspec_closed _ _ G F) as [_ Qb]. contradiction.
  Qed.

  Lemma gspec_eta (g : graph) fv fe :
    gspec g fv fe -> gspec (mkGraph (gout g) (gin g) (ghash g)) fv fe.
  Proof. destruct g; auto. Qed.

  (* ---------- empty ---------- *)
  Lemma wf_empty : wf_graph (@g_empty K V).
  Proof.
    constructor; simpl; try constructor; try tauto; try discriminate.
  Qed.

  Lemma gspec_empty fv fe :
    (forall k, fv k = None) -> (forall a b, fe a b = None) -> gspec (@g_empty K V) fv fe.
  Proof.
    intros Hv He. split; [|split; [|split]]; simpl; auto using wf_empty.
  Qed.

  (* ---------- Reverse ---------- *)
  Lemma gspec_reverse (g : graph) fv fe :
    gspec g fv fe -> gspec (g_reverse g) fv (fun a b => fe b a).
  Proof.
    intros G. pose proof G as (Hv & Ho & Hi & W).
    apply gspec_intro; simpl.
    - apply (wf_in_nodup W).
    - apply (wf_out_nodup W).
    - apply (wf_hash_nodup W).
    - apply (wf_in_keys W).
    - apply (wf_out_keys W).
    - apply (wf_inner_in_nodup W).
    - apply (wf_inner_out_nodup W).
    - exact Hv.
    - intros a b. apply Hi.
    - intros a b. apply Ho.
    - intros a b w Q. destruct (gspec_closed _ _ G Q) as [Qa Qb]. split; assumption.
  Qed.

  (* ---------- Add ---------- *)
  Lemma gspec_add (g : graph) fv fe k v :
    gspec g fv fe ->
    gspec (g_add g k v) (match fv k with Some _ => fv | None => upd1 fv k (Some v) end) fe.
  Proof.
    intros G. pose proof G as (Hv & Ho & Hi & W).
    unfold g_add. destruct (mem k (gout g)) eqn:M.
    - apply mem_true in M. apply (wf_out_keys W) in M. apply in_keys_lookup in M.
      destruct M as [v0 M]. rewrite <- Hv, M. exact G.
    - apply mem_false in M. pose proof M as Mv. apply (gspec_out_none k G) in Mv.
      pose proof Mv as Mi. apply (gspec_in_none k G) in Mi.
      rewrite Mv.
      apply gspec_intro; simpl.
      + apply nodup_keys_insert, (wf_out_nodup W).
      + apply nodup_keys_insert, (wf_in_nodup W).
      + apply nodup_keys_insert, (wf_hash_nodup W).
      + intros k0. rewrite !in_keys_insert, (wf_out_keys W). reflexivity.
      + intros k0. rewrite !in_keys_insert, (wf_in_keys W). reflexivity.
      + intros k0 i. rewrite lookup_insert. destruct (eqb k0 k).
        * intros Q; inversion Q; subst. constructor.
        * apply (wf_inner_out_nodup W).
      + intros k0 i. rewrite lookup_insert. destruct (eqb k0 k).
        * intros Q; inversion Q; subst. constructor.
        * apply (wf_inner_in_nodup W).
      + intros k0. rewrite lookup_insert. unfold upd1. rewrite Hv. reflexivity.
      + intros a b. rewrite inner_insert. destruct (eqb_spec a k) as [->|N].
        * simpl. symmetry. apply (gspec_fe_none_l k b G Mv).
        * apply Ho.
      + intros a b. rewrite inner_insert. destruct (eqb_spec b k) as [->|N].
        * simpl. symmetry. apply (gspec_fe_none_r a k G Mv).
        * apply Hi.
      + intros a b w Q. destruct (gspec_closed _ _ G Q) as [Qa Qb]. unfold upd1.
        split; [destruct (eqb a k)|destruct (eqb b k)]; auto; discriminate.
  Qed.

  (* ---------- AddOverwrite ---------- *)
  Lemma gspec_overwrite (g : graph) fv fe k v :
    gspec g fv fe -> gspec (g_add_overwrite g k v) (upd1 fv k (Some v)) fe.
  Proof.
    intros G. pose proof G as (Hv & Ho & Hi & W).
    assert (Hc : forall a b w, fe a b = Some w ->
                 upd1 fv k (Some v) a <> None /\ upd1 fv k (Some v) b <> None).
    { intros a b w Q. destruct (gspec_closed _ _ G Q) as [Qa Qb]. unfold upd1.
      split; [destruct (eqb a k)|destruct (eqb b k)]; auto; discriminate. }
    assert (Hv' : forall k0, lookup k0 (insert k v (ghash g)) = upd1 fv k (Some v) k0).
    { intros k0. rewrite lookup_insert. unfold upd1. rewrite Hv. reflexivity. }
    unfold g_add_overwrite. destruct (mem k (gout g)) eqn:M.
    - apply mem_true in M. pose proof M as Mi.
      apply (wf_out_keys W) in Mi. apply (wf_in_keys W) in Mi.
      apply gspec_intro; simpl; auto.
      + apply (wf_out_nodup W).
      + apply (wf_in_nodup W).
      + apply nodup_keys_insert, (wf_hash_nodup W).
      + intros k0. rewrite in_keys_insert, <- (wf_out_keys W). split; auto.
        intros [->|Q]; auto.
      + intros k0. rewrite in_keys_insert, <- (wf_in_keys W). split; auto.
        intros [->|Q]; auto.
      + apply (wf_inner_out_nodup W).
      + apply (wf_inner_in_nodup W).
    - apply mem_false in M. pose proof M as Mv. apply (gspec_out_none k G) in Mv.
      pose proof Mv as Mi. apply (gspec_in_none k G) in Mi.
      apply gspec_intro; simpl; auto.
      + apply nodup_keys_insert, (wf_out_nodup W).
      + apply nodup_keys_insert, (wf_in_nodup W).
      + apply nodup_keys_insert, (wf_hash_nodup W).
      + intros k0. rewrite !in_keys_insert, (wf_out_keys W). reflexivity.
      + intros k0. rewrite !in_keys_insert, (wf_in_keys W). reflexivity.
      + intros k0 i. rewrite lookup_insert. destruct (eqb k0 k).
        * intros Q; inversion Q; subst. constructor.
        * apply (wf_inner_out_nodup W).
      + intros k0 i. rewrite lookup_insert. destruct (eqb k0 k).
        * intros Q; inversion Q; subst. constructor.
        * apply (wf_inner_in_nodup W).
      + intros a b. rewrite inner_insert. destruct (eqb_spec a k) as [->|N].
        * simpl. symmetry. apply (gspec_fe_none_l k b G Mv).
        * apply Ho.
      + intros a b. rewrite inner_insert. destruct (eqb_spec b k) as [->|N].
        * simpl. symmetry. apply (gspec_fe_none_r a k G Mv).
        * apply Hi.
  Qed.

  (* ---------- RemoveEdge ---------- *)
  Lemma gspec_remove_edge (g : graph) fv fe a b :
    gspec g fv fe -> gspec (g_remove_edge g a b) fv (upd2 fe a b None).
  Proof.
    intros G. pose proof G as (Hv & Ho & Hi & W).
    unfold g_remove_edge. apply gspec_intro; simpl.
    - rewrite keys_adj_del. apply (wf_out_nodup W).
    - rewrite keys_adj_del. apply (wf_in_nodup W).
    - apply (wf_hash_nodup W).
    - intros k0. rewrite keys_adj_del. apply (wf_out_keys W).
    - intros k0. rewrite keys_adj_del. apply (wf_in_keys W).
    - apply inner_nodup_adj_del. apply (wf_inner_out_nodup W).
    - apply inner_nodup_adj_del. apply (wf_inner_in_nodup W).
    - exact Hv.
    - intros a' b'. rewrite lookup_inner_adj_del. unfold upd2. rewrite Ho. reflexivity.
    - intros a' b'. rewrite lookup_inner_adj_del. unfold upd2. rewrite Hi.
      rewrite andb_comm. reflexivity.
    - intros a' b' w. unfold upd2. destruct (eqb a' a && eqb b' b); [discriminate|].
      apply (gspec_closed _ _ G).
  Qed.

  (* ---------- AddEdgeWeighted ---------- *)
  Lemma gspec_add_edge (g : graph) fv fe a b w :
    gspec g fv fe ->
    exists g', g_add_edge g a b w = Some g' /\
      gspec g' fv (match fv a, fv b with
                   | Some _, Some _ => upd2 fe a b (Some w)
                   | _, _ => fe
                   end).
  Proof.
    intros G. pose proof G as (Hv & Ho & Hi & W).
    unfold g_add_edge, mem. rewrite !Hv.
    destruct (fv a) as [va|] eqn:Fa; simpl.
    2:{ exists g. split; [reflexivity|exact G]. }
    destruct (fv b) as [vb|] eqn:Fb; simpl.
    2:{ exists g. split; [reflexivity|exact G]. }
    destruct (lookup a (gout g)) as [o|] eqn:Lo.
    2:{ apply (gspec_out_none a G) in Lo. congruence. }
    destruct (lookup b (gin g)) as [i|] eqn:Li.
    2:{ apply (gspec_in_none b G) in Li. congruence. }
    eexists. split; [reflexivity|].
    apply gspec_intro; simpl.
    - rewrite (keys_insert_present _ _ _ Lo). apply (wf_out_nodup W).
    - rewrite (keys_insert_present _ _ _ Li). apply (wf_in_nodup W).
    - apply (wf_hash_nodup W).
    - intros k0. rewrite (keys_insert_present _ _ _ Lo). apply (wf_out_keys W).
    - intros k0. rewrite (keys_insert_present _ _ _ Li). apply (wf_in_keys W).
    - intros k0 i0. rewrite lookup_insert. destruct (eqb k0 a).
      + intros Q; inversion Q; subst. apply nodup_keys_insert.
        apply (wf_inner_out_nodup W _ Lo).
      + apply (wf_inner_out_nodup W).
    - intros k0 i0. rewrite lookup_insert. destruct (eqb k0 b).
      + intros Q; inversion Q; subst. apply nodup_keys_insert.
        apply (wf_inner_in_nodup W _ Li).
      + apply (wf_inner_in_nodup W).
    - exact Hv.
    - intros a' b'. rewrite inner_insert. unfold upd2.
      destruct (eqb_spec a' a) as [->|N]; simpl.
      + rewrite lookup_insert. rewrite <- Ho. rewrite (inner_some _ _ Lo). reflexivity.
      + apply Ho.
    - intros a' b'. rewrite inner_insert. unfold upd2.
      destruct (eqb_spec b' b) as [->|N]; simpl.
      + rewrite lookup_insert. rewrite andb_true_r. rewrite <- Hi.
        rewrite (inner_some _ _ Li). reflexivity.
      + rewrite andb_false_r. apply Hi.
    - intros a' b' w'. unfold upd2.
      destruct (eqb_spec a' a) as [->|Na]; simpl.
      + destruct (eqb_spec b' b) as [->|Nb].
        * intros _. rewrite Fa, Fb. split; discriminate.
        * apply (gspec_closed _ _ G).
      + apply (gspec_closed _ _ G).
  Qed.

  (* ---------- Remove ---------- *)
  Lemma gspec_remove (g : graph) fv fe k :
    gspec g fv fe ->
    gspec (g_remove g k) (upd1 fv k None)
          (fun a b => if eqb a k || eqb b k then None else fe a b).
  Proof.
    intros G. pose proof G as (Hv & Ho & Hi & W).
    unfold g_remove.
    set (gin1 := fold_left (fun m o => adj_del m o k) (keys (inner (gout g) k)) (gin g)).
    assert (Kin1 : keys gin1 = keys (gin g)) by apply keys_fold_adj_del.
    assert (Iin1 : forall a i, lookup a gin1 = Some i -> NoDup (keys i)).
    { apply inner_nodup_fold_adj_del. apply (wf_inner_in_nodup W). }
    assert (Lin1 : forall a b, lookup a (inner gin1 b) =
                     if memb b (keys (inner (gout g) k)) && eqb a k then None else fe a b).
    { intros a b. unfold gin1. rewrite lookup_inner_fold_adj_del, Hi. reflexivity. }
    apply gspec_intro; simpl.
    - rewrite keys_fold_adj_del. apply nodup_keys_delete, (wf_out_nodup W).
    - apply nodup_keys_delete. rewrite Kin1. apply (wf_in_nodup W).
    - apply nodup_keys_delete, (wf_hash_nodup W).
    - intros k0. rewrite keys_fold_adj_del, !in_keys_delete, (wf_out_keys W). reflexivity.
    - intros k0. rewrite !in_keys_delete, Kin1, (wf_in_keys W). reflexivity.
    - apply inner_nodup_fold_adj_del. intros a i. rewrite lookup_delete.
      destruct (eqb a k); [discriminate|]. apply (wf_inner_out_nodup W).
    - intros a i. rewrite lookup_delete. destruct (eqb a k); [discriminate|]. apply Iin1.
    - intros k0. rewrite lookup_delete. unfold upd1. rewrite Hv. reflexivity.
    - intros a b. rewrite lookup_inner_fold_adj_del, inner_delete.
      destruct (eqb_spec a k) as [->|Na]; simpl.
      + destruct (memb k (keys (inner gin1 k)) && eqb b k); reflexivity.
      + destruct (eqb_spec b k) as [->|Nb]; simpl.
        * rewrite andb_true_r. destruct (memb a (keys (inner gin1 k))) eqn:M; [reflexivity|].
          rewrite Ho.
          assert (Q : lookup a (inner gin1 k) = None).
          { apply not_in_keys_lookup. intros I. apply memb_in in I. congruence. }
          rewrite Lin1 in Q.
          destruct (eqb_spec a k) as [->|_]; [contradiction Na; reflexivity|].
          rewrite andb_false_r in Q. exact Q.
        * rewrite andb_false_r. apply Ho.
    - intros a b. rewrite inner_delete.
      destruct (eqb_spec b k) as [->|Nb]; simpl.
      + rewrite orb_true_r. reflexivity.
      + rewrite orb_false_r. rewrite Lin1.
        destruct (eqb_spec a k) as [->|Na]; simpl.
        * rewrite andb_true_r. destruct (memb b (keys (inner (gout g) k))) eqn:M; [reflexivity|].
          rewrite <- Ho.
          apply not_in_keys_lookup. intros I. apply memb_in in I. congruence.
        * rewrite andb_false_r. reflexivity.
    - intros a b w. unfold upd1.
      destruct (eqb a k); simpl; [discriminate|].
      destruct (eqb b k); simpl; [discriminate|].
      apply (gspec_closed _ _ G).
  Qed.
End G.

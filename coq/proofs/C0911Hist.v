(* C0911Hist.v -- history-level forms of C09 and C11, by induction over the
   history from the per-operation theorems C09_proof and C11_proof. *)
From ArgMapper Require Import Base Graph GraphAlg Types Args Resolver ResolverSpec CheckResolver Monitors ResolverStatements HistoryStatements.
From ArgMapper.proofs Require Import C0911Once.
Set Implicit Arguments.
Local Open Scope Z_scope.
Local Open Scope list_scope.

(* ================= C09 over histories ================= *)
Theorem C09_history_proof : C09_history_statement.
Proof.
  unfold C09_history_statement. intros u bh w ops. revert w.
  induction ops as [|o ops IH]; intros w rs E.
  - cbn [hist_run] in E. inversion E; subst. exists []. split; reflexivity.
  - destruct o as [f d opts t|f d opts t].
    + cbn [hist_run] in E.
      destruct (call u bh f d opts w t) as [r| | |] eqn:C; cbn [bind] in E; try discriminate.
      destruct (hist_run u bh (run_world r) ops) as [rs1| | |] eqn:H; cbn [bind] in E; try discriminate.
      inversion E; subst. clear E.
      destruct (IH _ _ H) as [rs1' [H' M]].
      exists (r :: rs1'). split.
      * cbn [filter is_call hist_run]. rewrite C. cbn [bind]. rewrite H'. reflexivity.
      * cbn [calls_of is_call map]. rewrite M. reflexivity.
    + cbn [hist_run] in E.
      destruct (redefine u f d opts w t) as [[x r]| | |] eqn:R; cbn [bind] in E; try discriminate.
      cbn [snd] in E.
      destruct (C09_proof _ _ _ _ _ _ R) as [W _]. rewrite W in E.
      destruct (hist_run u bh w ops) as [rs1| | |] eqn:H; cbn [bind] in E; try discriminate.
      inversion E; subst. clear E.
      destruct (IH _ _ H) as [rs1' [H' M]].
      exists rs1'. split.
      * cbn [filter is_call]. exact H'.
      * cbn [calls_of is_call]. exact M.
Qed.
Print Assumptions C09_history_proof.

(* ================= C11 over histories ================= *)
Lemma mem_of_lookup (gid : Z) (w w' : amap Z result) :
  lookup gid w' = lookup gid w -> mem gid w' = mem gid w.
Proof. unfold mem. intros ->. reflexivity. Qed.

Lemma C11_history_gen u bh g ops : forall w rs,
  hist_run u bh w ops = Ok rs ->
  fn_once g = true ->
  (forall o h, In o ops -> In h (hop_funcs o) -> fn_id h = fn_id g -> fn_once h = true) ->
  (mem (fn_id g) (w_once w) = true -> exec_count (fn_id g) (flat_map run_trace rs) = O) /\
  (mem (fn_id g) (w_once w) = false -> (exec_count (fn_id g) (flat_map run_trace rs) <= 1)%nat).
Proof.
  induction ops as [|o ops IH]; intros w rs E ONCE HK.
  - cbn [hist_run] in E. inversion E; subst. cbn [flat_map]. split; intros _; [reflexivity|apply Nat.le_0_l].
  - assert (HK' : forall o0 h, In o0 ops -> In h (hop_funcs o0) -> fn_id h = fn_id g -> fn_once h = true).
    { intros o0 h I. apply HK. right; exact I. }
    destruct o as [f d opts t|f d opts t].
    + cbn [hist_run] in E.
      destruct (call u bh f d opts w t) as [r| | |] eqn:C; cbn [bind] in E; try discriminate.
      destruct (hist_run u bh (run_world r) ops) as [rs1| | |] eqn:H; cbn [bind] in E; try discriminate.
      inversion E; subst. clear E.
      cbn [flat_map]. rewrite exec_count_app.
      destruct (IH _ _ H ONCE HK') as [IA IB].
      assert (HKb : forall b, build_args d opts = Some b ->
                forallb (fun h => if fn_id h =? fn_id g then fn_once h else true) (known_funcs f b) = true).
      { intros b BA. apply forallb_forall. intros h I.
        destruct (Z.eqb_spec (fn_id h) (fn_id g)) as [EQ|NE]; [|reflexivity].
        apply (HK (HCall f d opts t) h); [left; reflexivity| |exact EQ].
        cbn [hop_funcs]. rewrite BA. exact I. }
      destruct (C11_proof _ _ _ _ _ _ _ g C ONCE HKb) as [CA CB].
      split.
      * intros M. destruct (CA M) as [C0 L].
        rewrite C0. rewrite IA; [reflexivity|].
        rewrite (mem_of_lookup _ _ _ L). exact M.
      * intros M. destruct (CB M) as [C1 D1].
        destruct (exec_count (fn_id g) (run_trace r)) as [|[|n]] eqn:X; [| |lia].
        -- destruct (mem (fn_id g) (w_once (run_world r))) eqn:M'.
           ++ rewrite IA by reflexivity. lia.
           ++ specialize (IB eq_refl). lia.
        -- rewrite IA; [lia|]. apply D1. reflexivity.
    + cbn [hist_run] in E.
      destruct (redefine u f d opts w t) as [[x r]| | |] eqn:R; cbn [bind] in E; try discriminate.
      cbn [snd] in E.
      destruct (C09_proof _ _ _ _ _ _ R) as [W G]. rewrite W in E.
      destruct (hist_run u bh w ops) as [rs1| | |] eqn:H; cbn [bind] in E; try discriminate.
      inversion E; subst. clear E.
      cbn [flat_map]. rewrite exec_count_app.
      fold is_gen in G. change (gen_only (run_trace r)) in G.
      rewrite (gen_only_count (fn_id g) G). cbn [Nat.add].
      exact (IH _ _ H ONCE HK').
Qed.

Theorem C11_history_proof : C11_history_statement.
Proof.
  unfold C11_history_statement. intros u bh ops rs g E ONCE HK.
  destruct (@C11_history_gen u bh g ops _ _ E ONCE HK) as [_ B].
  apply B. reflexivity.
Qed.
Print Assumptions C11_history_proof.

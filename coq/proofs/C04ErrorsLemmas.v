(* C04ErrorsLemmas.v -- unfolding equations for [reach] (the nested loops
   restated as separate fixpoints with the recursive call abstracted). *)
From ArgMapper Require Import Base Graph GraphAlg Types Args Resolver.
Set Implicit Arguments.
Local Open Scope Z_scope.
Local Open Scope list_scope.

Section Unfold.
  Variable u : universe.
  Variable behave : behaviour.
  Variable g : rgraph.
  Variable redefine : bool.
  Variable rec : vkey -> rstate -> res (rstate * (argmap + rerr)).

  Fixpoint walk (prev : option vkey) (vs : list vkey) (final : option value) (s : rstate)
    : res (rstate * (option value + rerr)) :=
    match vs with
    | [] => Ok (s, inl final)
    | v :: vs =>
      match v with
      | KRoot => walk (Some v) vs final s
      | KVal _ _ _ =>
          let s := match prev with
                   | Some (KOut t st) => set_val s v (lookup (KOut t st) (s_vals s))
                   | Some (KVal n2 t2 s2) =>
                       match lookup (KVal n2 t2 s2) (s_vals s) with
                       | Some x => set_val s v (Some x)
                       | None => s
                       end
                   | _ => s end in
          let cur := lookup v (s_vals s) in
          let s := set_last s cur in
          walk (Some v) vs (match cur with Some x => Some x | None => final end) s
      | KArg t _ =>
          let s := match s_last s with
                   | Some x => if assignable u (v_ty x) t then set_val s v (Some x) else s
                   | None => s end in
          walk (Some v) vs (lookup v (s_vals s)) s
      | KOut _ _ =>
          let s := match prev with
                   | Some (KOut t st) => set_val s v (lookup (KOut t st) (s_vals s))
                   | _ => s end in
          let s := set_last s (lookup v (s_vals s)) in
          walk (Some v) vs final s
      | KFunc _ =>
          match g_vertex g v with
          | Some (PFunc f) =>
              do (s, r) <- rec v s;
              match r with
              | inr e => Ok (s, inr e)
              | inl fam =>
                  do (res, s) <- call_direct u behave redefine f fam s;
                  if r_builderr res then Ok (s, inr XMissing)
                  else match r_err res with
                       | Some e => Ok (s, inr (XConv e))
                       | None =>
                           do (ins, t') <- take_perm SITE_REACH_IN (g_in_keys g v) (s_tape s);
                           do s <- output_values f res ins (set_tape s t');
                           walk (Some v) vs final s
                       end
              end
          | _ => Panic 403%N
          end
      end
    end.

  Definition leave (target : vkey) (s : rstate) : rstate :=
    set_inprog s (remove1 target (s_inprog s)).

  Definition walk_paths (target : vkey) : list (list vkey) -> argmap -> rstate -> res (rstate * (argmap + rerr)) :=
    fix walk_paths (paths : list (list vkey)) (am : argmap) (s : rstate)
    : res (rstate * (argmap + rerr)) :=
    match paths with
    | [] => Ok (leave target s, inl am)
    | path :: rest =>
        bind (walk None path None s)
             (fun sr =>
                let '(s, r) := sr in
                match r with
                | inr e => Ok (leave target s, inr e)
                | inl None => Panic 404%N
                | inl (Some fv) => walk_paths rest (insert (last path KRoot) fv am) s
                end)
    end.

  Definition classify (s : rstate) (outs : list vkey) : argmap * list vkey :=
    fold_left (fun acc o =>
          let '(am, todo) := acc in
          match o with
          | KRoot => (am, todo)
          | KArg _ _ => match lookup o (s_vals s) with
                        | Some v => (insert o v am, todo)
                        | None => (am, todo ++ [o])
                        end
          | KVal _ _ _ => match (if redefine then None else lookup o (s_vals s)) with
                          | Some v => (insert o v am, todo)
                          | None => (am, todo ++ [o])
                          end
          | _ => (am, todo ++ [o])
          end) outs (([] : argmap), ([] : list vkey)).

  Definition plan_step (acc : res (list (list vkey) * list vkey * rstate)) (cur : vkey)
    : res (list (list vkey) * list vkey * rstate) :=
    do (paths, unsat, s) <- acc;
    do (path, bad, s) <- plan g redefine cur s;
    Ok (paths ++ [path], (if (bad : bool) then unsat ++ [cur] else unsat), s).

  Definition plan_all (todo : list vkey) (s : rstate) : res (list (list vkey) * list vkey * rstate) :=
    fold_left plan_step todo (Ok ([], [], s)).

  Definition reach_body (target : vkey) (s : rstate) : res (rstate * (argmap + rerr)) :=
    let s := set_inprog s (target :: s_inprog s) in
    do (outs, t') <- take_perm SITE_REACH_OUT (g_out_keys g target) (s_tape s);
    let s := set_tape s t' in
    let '(am, todo) := classify s outs in
    match todo with
    | [] => Ok (leave target s, inl am)
    | _ =>
        do (paths, unsat, s) <- plan_all todo s;
        match unsat with
        | _ :: _ => Ok (leave target s, inr (XUnsat unsat [] [] false))
        | [] => walk_paths target paths am s
        end
    end.
End Unfold.

Lemma reach_O u behave g redefine target s :
  reach u behave g redefine O target s = OutOfFuel.
Proof. reflexivity. Qed.

Lemma reach_S u behave g redefine fuel target s :
  reach u behave g redefine (S fuel) target s =
  reach_body u behave g redefine (reach u behave g redefine fuel) target s.
Proof. reflexivity. Qed.

Lemma walk_paths_nil u behave g redefine rec target am s :
  walk_paths u behave g redefine rec target [] am s = Ok (leave target s, inl am).
Proof. reflexivity. Qed.

Lemma walk_paths_cons u behave g redefine rec target path rest am s :
  walk_paths u behave g redefine rec target (path :: rest) am s =
  bind (walk u behave g redefine rec None path None s)
       (fun sr =>
          let '(s, r) := sr in
          match r with
          | inr e => Ok (leave target s, inr e)
          | inl None => Panic 404%N
          | inl (Some fv) => walk_paths u behave g redefine rec target rest (insert (last path KRoot) fv am) s
          end).
Proof. reflexivity. Qed.

(* ================= generic fold lemmas ================= *)
Lemma fold_left_inv_in {A B} (I : A -> Prop) (f : A -> B -> A) (l : list B) :
  forall a, I a -> (forall a x, In x l -> I a -> I (f a x)) -> I (fold_left f l a).
Proof.
  induction l as [|x l IH]; intros a Ha Hstep; simpl; auto.
  apply IH.
  - apply Hstep; [left; reflexivity|exact Ha].
  - intros a' x' Hin Ha'. apply Hstep; [right; exact Hin|exact Ha'].
Qed.

Lemma fold_left_inv {A B} (I : A -> Prop) (f : A -> B -> A) (l : list B) :
  forall a, I a -> (forall a x, I a -> I (f a x)) -> I (fold_left f l a).
Proof.
  intros a Ha Hstep. apply fold_left_inv_in; auto.
Qed.

Lemma fold_res_nonok {A B} (F : res A -> B -> res A) :
  (forall r x a', F r x = Ok a' -> exists a, r = Ok a) ->
  forall l r a', fold_left F l r = Ok a' -> exists a, r = Ok a.
Proof.
  intros HF l; induction l as [|x l IH]; intros r a' H; simpl in H.
  - exists a'; exact H.
  - apply IH in H. destruct H as [a1 H]. apply HF in H. exact H.
Qed.

Lemma fold_res_inv {A B} (F : res A -> B -> res A) (I : A -> Prop) :
  (forall r x a', F r x = Ok a' -> exists a, r = Ok a) ->
  (forall a x a', F (Ok a) x = Ok a' -> I a -> I a') ->
  forall l a a', fold_left F l (Ok a) = Ok a' -> I a -> I a'.
Proof.
  intros HF HI l; induction l as [|x l IH]; intros a a' H Ha; simpl in H.
  - inversion H; subst; exact Ha.
  - destruct (fold_res_nonok F HF l _ H) as [a1 E].
    rewrite E in H. eapply IH; [exact H|]. eapply HI; [exact E|exact Ha].
Qed.

Lemma bind_ok {A B} (r : res A) (k : A -> res B) b :
  bind r k = Ok b -> exists a, r = Ok a /\ k a = Ok b.
Proof. destruct r; simpl; intros H; try discriminate. exists a; auto. Qed.

Lemma remove1_head (x : vkey) (l : list vkey) : remove1 x (x :: l) = l.
Proof. cbn [remove1]. rewrite Base.eqb_refl. reflexivity. Qed.

(* ================= trace / in-progress footprint of the helpers ================= *)
Definition ti (s : rstate) : list event * list vkey := (s_trace s, s_inprog s).

Lemma ti_eq s s' : ti s' = ti s -> s_trace s' = s_trace s /\ s_inprog s' = s_inprog s.
Proof. unfold ti; intros E; inversion E; auto. Qed.

Section Footprint.
  Variable u : universe.
  Variable behave : behaviour.
  Variable g : rgraph.
  Variable redefine : bool.

  Lemma plan_spec cur s path bad s' :
    plan g redefine cur s = Ok (path, bad, s') ->
    ti s' = ti s /\ bad = existsb (fun v => memb v (s_inprog s)) path.
  Proof.
    unfold plan. intros H.
    apply bind_ok in H. destruct H as [[[d p] t'] [_ H]].
    apply bind_ok in H. destruct H as [pth [_ H]].
    inversion H; subst; clear H. split; [|reflexivity].
    destruct redefine; [|reflexivity].
    match goal with |- ti (match ?x with _ => _ end) = _ => destruct x end; try reflexivity.
    match goal with |- ti (if ?c then _ else _) = _ => destruct c end; reflexivity.
  Qed.

  Lemma call_direct_spec f am s r s' :
    call_direct u behave redefine f am s = Ok (r, s') ->
    s_inprog s' = s_inprog s /\
    (s_trace s' = s_trace s \/
     (r_builderr r = false /\
      exists argv outs, s_trace s' = s_trace s ++ [EExec (fn_id f) argv outs (r_err r)])).
  Proof.
    unfold call_direct. intros H.
    destruct (if fn_once f then lookup (fn_id f) (s_world s) else None) as [r0|].
    { inversion H; subst. split; [reflexivity|left; reflexivity]. }
    match type of H with (if ?c then _ else _) = _ => destruct c end; [discriminate|].
    match type of H with (if ?c then _ else _) = _ => destruct c end.
    { inversion H; subst. split; [reflexivity|left; reflexivity]. }
    destruct redefine.
    { inversion H; subst. split; [reflexivity|left; reflexivity]. }
    destruct (behave (fn_id f) (s_nexec s + 1)); inversion H; subst; clear H;
      (split; [reflexivity|right; split; [reflexivity|]; eexists; eexists; reflexivity]).
  Qed.

  Lemma output_values_spec f r ins s s' :
    output_values f r ins s = Ok s' -> ti s' = ti s.
  Proof.
    unfold output_values. intros H.
    eapply (fold_res_inv _ (fun s1 => ti s1 = ti s)); [| |exact H|reflexivity].
    - intros r0 x a' E. apply bind_ok in E. destruct E as [a [E _]]. exists a; exact E.
    - intros a x a' E Ha. cbn [bind] in E.
      destruct x; try (inversion E; subst; exact Ha).
      + destruct (last_named n (fn_out f) 0 None) as [[i fl]|]; [|discriminate].
        inversion E; subst. rewrite <- Ha. destruct (nth_error (r_fields r) i); reflexivity.
      + destruct (last_typed t (fn_out f) 0 None) as [[i fl]|]; [|discriminate].
        inversion E; subst. rewrite <- Ha. destruct (nth_error (r_fields r) i); reflexivity.
  Qed.

  Lemma plan_all_spec todo s paths unsat s' :
    plan_all g redefine todo s = Ok (paths, unsat, s') ->
    ti s' = ti s /\
    (unsat = [] -> forall p v, In p paths -> In v p -> memb v (s_inprog s) = false).
  Proof.
    unfold plan_all. intros H.
    apply (fold_res_inv (plan_step g redefine)
             (fun acc => let '(paths, unsat, s1) := acc in
                         ti s1 = ti s /\
                         (unsat = [] -> forall p v, In p paths -> In v p -> memb v (s_inprog s) = false))
             ) with (l := todo) (a := ([], [], s)) (a' := (paths, unsat, s')); [| |exact H|].
    - intros r0 x a' E. unfold plan_step in E. apply bind_ok in E. destruct E as [a [E _]]. exists a; exact E.
    - intros [[ps un] s1] cur [[ps' un'] s2] E [Hti Hun].
      unfold plan_step in E. cbn [bind] in E.
      apply bind_ok in E. destruct E as [[[path bad] s3] [Ep E]].
      inversion E; subst; clear E.
      apply plan_spec in Ep. destruct Ep as [Hti' Hbad].
      split; [rewrite Hti'; exact Hti|].
      intros Hnil p v Hp Hv.
      destruct bad.
      { destruct un; discriminate. }
      apply in_app_or in Hp. destruct Hp as [Hp|[Hp|[]]].
      + eapply Hun; eauto.
      + subst p. symmetry in Hbad.
        apply ti_eq in Hti. destruct Hti as [_ Hti]. rewrite Hti in Hbad.
        destruct (memb v (s_inprog s)) eqn:Em; [|reflexivity].
        assert (X : existsb (fun v0 : vkey => memb v0 (s_inprog s)) path = true).
        { apply existsb_exists. exists v; auto. }
        congruence.
    - split; [reflexivity|]. intros _ p v [].
  Qed.

  (* a non-function vertex only touches values *)
  Lemma walk_nonfunc rec prev v vs final s :
    is_func v = false ->
    exists final' s'', ti s'' = ti s /\
      walk u behave g redefine rec prev (v :: vs) final s =
      walk u behave g redefine rec (Some v) vs final' s''.
  Proof.
    intros Hv. destruct v as [|ft|n t st|t st|t st]; try discriminate.
    - exists final, s. split; reflexivity.
    - pose (s1 := match prev with
                  | Some (KOut t0 st0) => set_val s (KVal n t st) (lookup (KOut t0 st0) (s_vals s))
                  | Some (KVal n2 t2 s2) =>
                      match lookup (KVal n2 t2 s2) (s_vals s) with
                      | Some x => set_val s (KVal n t st) (Some x)
                      | None => s
                      end
                  | _ => s end).
      exists (match lookup (KVal n t st) (s_vals s1) with Some x => Some x | None => final end),
             (set_last s1 (lookup (KVal n t st) (s_vals s1))).
      split; [|reflexivity].
      subst s1. destruct prev as [[|ft0|n2 t2 s2|t0 st0|t0 st0]|]; try reflexivity.
      destruct (lookup (KVal n2 t2 s2) (s_vals s)); reflexivity.
    - pose (s1 := match s_last s with
                  | Some x => if assignable u (v_ty x) t then set_val s (KArg t st) (Some x) else s
                  | None => s end).
      exists (lookup (KArg t st) (s_vals s1)), s1.
      split; [|reflexivity].
      subst s1. destruct (s_last s) as [x|]; [|reflexivity].
      destruct (assignable u (v_ty x) t); reflexivity.
    - pose (s1 := match prev with
                  | Some (KOut t0 st0) => set_val s (KOut t st) (lookup (KOut t0 st0) (s_vals s))
                  | _ => s end).
      exists final, (set_last s1 (lookup (KOut t st) (s_vals s1))).
      split; [|reflexivity].
      subst s1. destruct prev as [[]|]; reflexivity.
  Qed.

  Lemma walk_func rec prev ft vs final s :
    walk u behave g redefine rec prev (KFunc ft :: vs) final s =
    match g_vertex g (KFunc ft) with
    | Some (PFunc f) =>
        do (s, r) <- rec (KFunc ft) s;
        match r with
        | inr e => Ok (s, inr e)
        | inl fam =>
            do (res, s) <- call_direct u behave redefine f fam s;
            if r_builderr res then Ok (s, inr XMissing)
            else match r_err res with
                 | Some e => Ok (s, inr (XConv e))
                 | None =>
                     do (ins, t') <- take_perm SITE_REACH_IN (g_in_keys g (KFunc ft)) (s_tape s);
                     do s <- output_values f res ins (set_tape s t');
                     walk u behave g redefine rec (Some (KFunc ft)) vs final s
                 end
        end
    | _ => Panic 403%N
    end.
  Proof. reflexivity. Qed.
End Footprint.

(* C0417Hist.v -- history-level forms of C04 and C17 (HistoryStatements2.v):
   over every history run from the empty world in which each function id
   denotes one declaration,
     - every Call satisfies c04_ok and c04_error_origin (the function error a
       call returns was returned by an execution of this call, or is the
       memoized error of a run-once function that failed earlier);
     - the raw outputs of every successful Call are the outputs of the last
       successful execution of the target in the history so far.
   Both follow from the memo/trace invariant MI of C0417HistInv.v, threaded
   through the history; c04_ok is the unconditional single-call theorem
   C04_errors_proof; Redefine leaves the world alone (C09_proof). *)
From ArgMapper Require Import Base Graph GraphAlg GenWeights Types Args Resolver ResolverSpec CheckResolver
     Monitors Monitors2 ResolverStatements HistoryStatements HistoryStatements2.
From ArgMapper.proofs Require Import C19RefineMap C18DijkstraLemmas C0911OnceLemmas C0911Once C0417HistInv.
From ArgMapper.proofs Require C04Errors.
Set Implicit Arguments.
Local Open Scope Z_scope.
Local Open Scope list_scope.

(* ================= last_exec_outs ================= *)
Definition le_step (fid : Z) (acc : option (list value)) (e : event) : option (list value) :=
  match e with EExec g _ outs None => if g =? fid then Some outs else acc | _ => acc end.

Lemma last_exec_outs_eq fid evs : last_exec_outs fid evs = fold_left (le_step fid) evs None.
Proof. reflexivity. Qed.

Lemma last_exec_snoc fid evs args outs :
  last_exec_outs fid (evs ++ [EExec fid args outs None]) = Some outs.
Proof.
  rewrite last_exec_outs_eq, fold_left_app. cbn [fold_left le_step]. rewrite Z.eqb_refl. reflexivity.
Qed.

Lemma last_exec_all fid o evs :
  (forall args outs err, In (EExec fid args outs err) evs -> outs = o /\ err = None) ->
  (exists args, In (EExec fid args o None) evs) ->
  last_exec_outs fid evs = Some o.
Proof.
  induction evs as [|e evs IH] using rev_ind; intros All [a Ia].
  - destruct Ia.
  - rewrite last_exec_outs_eq, fold_left_app. cbn [fold_left]. rewrite <- last_exec_outs_eq.
    assert (KEEP : In (EExec fid a o None) evs -> last_exec_outs fid evs = Some o).
    { intros X. apply IH.
      - intros args outs err Y. apply (All args). apply in_or_app. left. exact Y.
      - exists a. exact X. }
    apply in_app_or in Ia.
    destruct e as [g args outs err|gid k]; cbn [le_step].
    + destruct err as [x|].
      * destruct Ia as [Ia|[Ia|[]]]; [apply KEEP; exact Ia|discriminate].
      * destruct (Z.eqb_spec g fid) as [EQ|NEQ].
        -- subst g. destruct (All args outs None) as [-> _]; [|reflexivity].
           apply in_or_app. right. left. reflexivity.
        -- destruct Ia as [Ia|[Ia|[]]]; [apply KEEP; exact Ia|].
           inversion Ia. contradiction.
    + destruct Ia as [Ia|[Ia|[]]]; [apply KEEP; exact Ia|discriminate].
Qed.

(* ================= semantic forms of the two monitors ================= *)
Definition origin_sem (fs : list fdecl) (earlier : list event) (r : run) : Prop :=
  forall x, co_err (co_of_run r) = Some x ->
    (exists ev, In ev (run_trace r) /\ exec_err ev = Some x) \/
    has_gen (run_trace r) \/
    (exists fid args outs, In (EExec fid args outs (Some x)) earlier /\
                           forall d, find_fn fid fs = Some d -> fn_once d = true).

Definition c17_sem (f : fdecl) (earlier : list event) (r : run) : Prop :=
  forall res, run_out r = OOk res -> r_err res = None ->
              last_exec_outs (fn_id f) (earlier ++ run_trace r) = Some (r_fields res).

Lemma co_events_run r : co_events (co_of_run r) = run_trace r.
Proof. unfold co_of_run. destruct (run_out r) as [res|[]]; reflexivity. Qed.

Lemma origin_bool fs earlier r :
  origin_sem fs earlier r -> c04_error_origin fs earlier (co_of_run r) = true.
Proof.
  intros H. unfold c04_error_origin. rewrite co_events_run.
  destruct (co_err (co_of_run r)) as [x|] eqn:CE; [|reflexivity].
  apply orb_true_iff.
  destruct (H x CE) as [[ev [Iev Eev]]|[[gid [k Ig]]|[fid [args [outs [Ie Hd]]]]]].
  - left. apply existsb_exists. exists ev. split; [exact Iev|]. rewrite Eev. apply Base.eqb_refl.
  - right. apply existsb_exists. exists (EGen gid k). split; [|reflexivity].
    apply in_or_app. right. exact Ig.
  - right. apply existsb_exists. exists (EExec fid args outs (Some x)). split.
    + apply in_or_app. left. exact Ie.
    + rewrite Z.eqb_refl. cbn [andb].
      destruct (find_fn fid fs) as [d|] eqn:FD; [|reflexivity]. apply Hd. reflexivity.
Qed.

Lemma raw_of_event_fields f res : raw_of_event f (r_fields res) = raw_outs f res.
Proof. reflexivity. Qed.

Lemma c17_bool f earlier r :
  c17_sem f earlier r ->
  (match obs_of_run f r with
   | Some (len, outs) =>
       match last_exec_outs (fn_id f) (earlier ++ run_trace r) with
       | Some vs => let (l, os) := raw_of_event f vs in (l =? len) && Base.eqb os outs
       | None => false
       end
   | None => true
   end) = true.
Proof.
  intros H. unfold obs_of_run.
  destruct (run_out r) as [res|e] eqn:RO; [|reflexivity].
  destruct (r_err res) as [x|] eqn:RE; [reflexivity|].
  rewrite (H res RO RE), raw_of_event_fields.
  destruct (raw_outs f res) as [len outs].
  rewrite Z.eqb_refl, Base.eqb_refl. reflexivity.
Qed.

(* ================= one Call ================= *)
Section Step.
  Variable F : list fdecl.
  Hypothesis F_ids : forall h h', In h F -> In h' F -> fn_id h = fn_id h' -> h = h'.

  Lemma call_step u bh f d opts w t r earlier :
    (forall h, In h (hop_funcs (HCall f d opts t)) -> In h F) ->
    call u bh f d opts w t = Ok r ->
    MI F (w_once w) earlier ->
    MI F (w_once (run_world r)) (earlier ++ run_trace r) /\
    origin_sem (hop_funcs (HCall f d opts t)) earlier r /\
    c17_sem f earlier r.
  Proof.
    intros HF E M. cbn [hop_funcs] in *. unfold call in E.
    destruct (build_args d opts) as [b|] eqn:BA.
    2:{ inversion E; subst. cbn [run_world run_trace]. rewrite app_nil_r.
        split; [exact M|]. split.
        - intros x X. discriminate.
        - intros res X. discriminate. }
    destruct (call_graph u f b false t) as [[cgr tr0]| | |] eqn:CG; cbn [bind] in E; try discriminate.
    pose proof CG as CG'. apply call_graph_ok in CG'. destruct CG' as [G R].
    destruct cgr as [cg|e].
    2:{ inversion E; subst. cbn [run_world run_trace].
        split; [apply MI_gen; assumption|]. split.
        - intros x X. unfold co_of_run in X. cbn [run_out run_trace] in X.
          apply call_graph_err in CG. destruct CG as [[[y ->] HG]|[a [i [c [fl ->]]]]].
          + right. left. exact HG.
          + discriminate.
        - intros res X. discriminate. }
    destruct R as [P T].
    assert (PF : pay_in F (cg_g cg)).
    { intros k h L. apply HF. eapply P. exact L. }
    destruct (reach u bh (cg_g cg) false (fuel_of cg) (cg_target cg) (init_state cg w))
      as [[s r0]| | |] eqn:RC; cbn [bind] in E; try discriminate.
    assert (M0 : MI F (s_world (init_state cg w)) (earlier ++ s_trace (init_state cg w))).
    { unfold init_state. cbn [s_world s_trace]. rewrite T. apply MI_gen; assumption. }
    pose proof (@reach_MI F F_ids _ _ _ _ _ _ _ _ earlier PF RC M0) as M1.
    destruct r0 as [am|e].
    - destruct (call_direct u bh false f am s) as [[res s2]| | |] eqn:CD; cbn [bind] in E; try discriminate.
      assert (InF : In f F) by (apply HF; apply known_f).
      pose proof (@call_direct_MI F F_ids _ _ _ _ _ _ _ earlier InF CD M1) as M2.
      inversion E; subst; clear E. cbn [run_world run_trace run_out w_once].
      split; [exact M2|]. split.
      + intros x X. unfold co_of_run in X. cbn [run_out run_trace] in X.
        destruct (r_builderr res); [discriminate|]. cbn [co_err] in X.
        pose proof (@call_direct_expl _ _ _ _ _ _ _ _ CD X) as EX.
        destruct (@expl_origin F F_ids (known_funcs f b) earlier _ _ HF M2 EX) as [O1|O2].
        * left. exact O1.
        * right. right. exact O2.
      + intros res0 X RE. cbn [run_trace].
        destruct (r_builderr res) eqn:RB; [discriminate|]. inversion X; subst res0. clear X.
        apply call_direct_cases in CD.
        destruct CD as [[-> [_ L]]|[[-> B]|[argv [TR _]]]].
        * destruct M1 as [A _]. destruct (A _ _ L) as [_ [[a Ia] All]].
          rewrite RE in *. apply last_exec_all.
          -- intros args outs err Y. exact (All args outs err Y).
          -- exists a. exact Ia.
        * subst res. discriminate.
        * rewrite TR, RE, app_assoc. apply last_exec_snoc.
    - inversion E; subst; clear E. cbn [run_world run_trace run_out w_once].
      split; [exact M1|]. split.
      + intros x X. unfold co_of_run in X. cbn [run_out run_trace] in X.
        pose proof (@reach_expl _ _ _ _ _ _ _ _ RC) as EX.
        destruct e; cbn [co_err] in X; try discriminate.
        * destruct EX.
        * inversion X; subst. cbn [explR] in EX.
          destruct (@expl_origin F F_ids (known_funcs f b) earlier _ _ HF M1 EX) as [O1|O2].
          -- left. exact O1.
          -- right. right. exact O2.
      + intros res X. discriminate.
  Qed.
End Step.

(* ================= histories ================= *)
Section Hist.
  Variable F : list fdecl.
  Hypothesis F_ids : forall h h', In h F -> In h' F -> fn_id h = fn_id h' -> h = h'.
  Variable u : universe.
  Variable bh : behaviour.

  Lemma hist_gen : forall ops rs earlier w,
    (forall o h, In o ops -> In h (hop_funcs o) -> In h F) ->
    MI F (w_once w) earlier ->
    hist_run u bh w ops = Ok rs ->
    c04_history earlier ops rs = true /\ c17_history earlier ops rs = true.
  Proof.
    induction ops as [|o ops IH]; intros rs earlier w HF M E.
    - cbn [hist_run] in E. inversion E; subst. split; reflexivity.
    - assert (HF' : forall o0 h, In o0 ops -> In h (hop_funcs o0) -> In h F).
      { intros o0 h X. apply HF. right. exact X. }
      destruct o as [f d opts t|f d opts t].
      + cbn [hist_run] in E.
        destruct (call u bh f d opts w t) as [r| | |] eqn:C; cbn [bind] in E; try discriminate.
        destruct (hist_run u bh (run_world r) ops) as [rs1| | |] eqn:H; cbn [bind] in E; try discriminate.
        inversion E; subst; clear E.
        assert (HFo : forall h, In h (hop_funcs (HCall f d opts t)) -> In h F).
        { intros h X. apply (HF (HCall f d opts t)); [left; reflexivity|exact X]. }
        destruct (@call_step F F_ids _ _ _ _ _ _ _ _ earlier HFo C M) as [M' [OS CS]].
        destruct (IH _ _ _ HF' M' H) as [I4 I17].
        split.
        * cbn [c04_history]. rewrite I4.
          rewrite (@C04Errors.C04_errors_proof _ _ _ _ _ _ _ _ C).
          rewrite (origin_bool OS). reflexivity.
        * cbn [c17_history]. rewrite I17. rewrite (c17_bool CS). reflexivity.
      + cbn [hist_run] in E.
        destruct (redefine u f d opts w t) as [[x r]| | |] eqn:R; cbn [bind] in E; try discriminate.
        cbn [snd] in E.
        destruct (C09_proof _ _ _ _ _ _ R) as [W G].
        destruct (hist_run u bh (run_world r) ops) as [rs1| | |] eqn:H; cbn [bind] in E; try discriminate.
        inversion E; subst; clear E.
        assert (M' : MI F (w_once (run_world r)) (earlier ++ run_trace r)).
        { apply MI_gen; [exact G|exact M]. }
        destruct (IH _ _ _ HF' M' H) as [I4 I17].
        split; [cbn [c04_history]; exact I4|cbn [c17_history]; exact I17].
  Qed.
End Hist.

Lemma hist_both u bh ops rs :
  hist_run u bh world0 ops = Ok rs -> ids_consistent ops ->
  c04_history [] ops rs = true /\ c17_history [] ops rs = true.
Proof.
  intros E IC.
  apply (@hist_gen (flat_map hop_funcs ops)) with (u := u) (bh := bh) (w := world0).
  - intros h h' X X' EQ. apply in_flat_map in X. apply in_flat_map in X'.
    destruct X as [o [Io Ih]]. destruct X' as [o' [Io' Ih']].
    exact (IC o o' h h' Io Io' Ih Ih' EQ).
  - intros o h Io Ih. apply in_flat_map. exists o. split; assumption.
  - cbn [world0 w_once]. apply MI_0.
  - exact E.
Qed.

Theorem C04_history_proof : C04_history_statement.
Proof.
  unfold C04_history_statement. intros u bh ops rs E IC.
  exact (proj1 (@hist_both u bh ops rs E IC)).
Qed.
Print Assumptions C04_history_proof.

Theorem C17_history_proof : C17_history_statement.
Proof.
  unfold C17_history_statement. intros u bh ops rs E IC.
  exact (proj2 (@hist_both u bh ops rs E IC)).
Qed.
Print Assumptions C17_history_proof.

(* C01Labels.v -- property C01 (labels of injected values).

   RESULT.  [C01_statement] (ResolverStatements.v) is FALSE of the model as
   written; three independent counterexamples are given below
   ([C01_refuted_mutual_ifaces], [C01_refuted_many_results],
   [C01_refuted_untyped_memo]).  The closest true statement is proved as
   [C01_alt_proof]; it adds the hypotheses
     - [impl_acyclic u]      no cycle of strict "implements" between types
                             (boolean checker: [impl_acyclic_b], sound),
     - [few_results f b]     every known function has fewer than 1000 results,
     - [world_typed ...]     memoized results have the shape of their function
                             (boolean checker: [world_typed_b], sound), and is
                             shown to be preserved ([C01_alt_typed_proof]),
     - [small_graph u f b t] 20 * (number of call-graph vertices) < MaxInt64
   and keeps the conclusion unchanged. *)
From ArgMapper Require Import Base Graph GraphAlg GraphHist GraphSpec GraphStatements Types Args Resolver ResolverSpec CheckResolver Monitors ResolverStatements.
From ArgMapper.proofs Require Import C19RefineMap C19RefineGraph C18DijkstraLemmas C20aDfs
     C01LabelsDefs C01LabelsBase C01LabelsDijkstra C01LabelsGraphInv C01LabelsGraph C01LabelsWalk.
From Coq Require Import List ZArith Lia Relations.
Import ListNotations.
Set Implicit Arguments.
Local Open Scope Z_scope.

(* ================= the added hypotheses, as named definitions ================= *)
Definition few_results (f : fdecl) (b : builder) : bool :=
  forallb (fun g => Z.of_nat (length (fn_out g)) <? 1000) (known_funcs f b).

Definition small_graph (u : universe) (f : fdecl) (b : builder) (t : tape vkey) : bool :=
  match call_graph u f b false t with
  | Ok (inl cg, _) => 20 * Z.of_nat (length (g_vertex_keys (cg_g cg))) <? INF
  | _ => true
  end.

(* ================= the planner ================= *)
Section Plan.
  Variables (u : universe) (b : builder) (fs : list fdecl) (g : rgraph).
  Hypothesis Hg : ginv u b fs g.
  Hypothesis Hrch : forall k, In k (g_vertex_keys g) -> rchb g k.
  Hypothesis Hsmall : 20 * Z.of_nat (length (g_vertex_keys g)) < INF.

  Lemma pchain_lpath (p : amap vkey vkey) :
    (forall v q, lookup v p = Some q -> In v (g_in_keys g q)) ->
    forall l a, pchain p (Some a) l -> lpath g (Some a) l.
  Proof.
    intros S. induction l as [|v l IH]; intros a P.
    - constructor.
    - simpl in P. destruct P as [P1 P2]. constructor; [apply S; exact P1|apply IH; exact P2].
  Qed.

  Lemma plan_spec target cur s path bad s' :
    In cur (g_out_keys g target) -> cur <> KRoot ->
    plan g false cur s = Ok (path, bad, s') -> lpath g None path /\ same_core s s'.
  Proof.
    intros OC NR PL. unfold plan in PL.
    destruct (discount_spec cur Hg) as (Hd & Ed & Vd).
    set (cg := discount g cur) in *.
    destruct (dijkstra_t (g_reverse cg) KRoot (s_tape s)) as [[[d p] t']| | |] eqn:DT; cbn [bind] in PL; try discriminate.
    destruct (edge_to_path cg p cur) as [pth| | |] eqn:EP; cbn [bind] in PL; try discriminate.
    assert (E : pth = path /\ same_core s s').
    { inversion PL; subst. split; [reflexivity|]. unfold same_core. cbn. auto. }
    destruct E as [-> SC]. split; [|exact SC]. clear PL.
    (* the search *)
    unfold dijkstra_t in DT.
    destruct (take_pops (length (g_vertex_keys (g_reverse cg))) (s_tape s)) as [[pops t'']| | |];
      cbn [bind] in DT; try discriminate.
    destruct (dijkstra (g_reverse cg) KRoot pops) as [[d0 p0]| | |] eqn:DJ; cbn [bind] in DT; try discriminate.
    inversion DT; subst d0 p0 t''. clear DT.
    pose proof (dijkstra_prev_sound _ _ _ _ _ DJ) as SND.
    assert (SND1 : forall v q, lookup v p = Some q -> In v (g_in_keys g q)).
    { intros v q Q. apply Ed. destruct (SND v q Q) as [A _]. exact A. }
    assert (SND2 : forall v q, lookup v p = Some q -> q = KRoot \/ mem q p = true).
    { intros v q Q. destruct (SND v q Q) as [_ A]. exact A. }
    (* completeness: cur has a predecessor *)
    assert (Wd : wf_graph cg) by apply (gi_wf Hd).
    assert (Wr : wf_graph (g_reverse cg)).
    { destruct (gspec_reverse (wf_gspec Wd)) as (_ & _ & _ & W). exact W. }
    assert (WB : forall a c w, lookup c (inner (gout (g_reverse cg)) a) = Some w -> - 20 <= w <= 20).
    { intros a c w Q. cbn [g_reverse gout] in Q. apply (wf_mirror Wd) in Q. apply (gi_edge Hd) in Q. exact (proj2 Q). }
    assert (SM : 20 * Z.of_nat (length (g_vertex_keys (g_reverse cg))) < INF).
    { unfold g_vertex_keys, g_reverse. cbn [ghash]. fold (g_vertex_keys cg). rewrite Vd. exact Hsmall. }
    assert (CV : In cur (g_vertex_keys g)).
    { unfold g_out_keys in OC. apply keys_lookup in OC. destruct OC as [w OC].
      apply (wf_closed (gi_wf Hg)) in OC. exact (proj2 OC). }
    assert (RC : forall x, rchb g x -> drch (g_reverse cg) KRoot x).
    { intros x R. induction R as [|a x R IH A].
      - apply drch_src.
      - eapply drch_step; [exact IH|]. cbn [g_reverse gout]. apply Ed. exact A. }
    assert (MC : mem cur p = true).
    { assert (W0 : 0 <= 20) by lia.
      destruct (dijkstra_prev_complete _ _ 20 _ _ _ Wr W0 WB SM DJ cur (RC cur (Hrch _ CV))) as [A|A];
        [contradiction|exact A]. }
    (* the path *)
    unfold edge_to_path in EP.
    pose proof (etp_pchain _ _ _ _ _ EP Logic.I) as PC.
    destruct (etp_two _ _ _ _ EP MC) as (x & y & rest & ->).
    simpl in PC. destruct PC as (P1 & P2 & P3).
    assert (X : x = KRoot).
    { destruct (SND2 _ _ P2) as [A|A]; [exact A|]. unfold mem in A. rewrite P1 in A. discriminate. }
    subst x. apply lp_first. constructor; [apply SND1; exact P2|].
    apply pchain_lpath with (p := p); assumption.
  Qed.
End Plan.

(* ================= option processing: typed slots are keyed by the value's type ================= *)
Definition binv (b : builder) : Prop :=
  (forall t v, In (t, v) (b_typed b) -> t = v_ty v) /\
  (forall t st v, In ((t, st), v) (b_typedsub b) -> t = v_ty v).

Lemma In_insert {K V} {E : EqDec K} (k k' : K) (v v' : V) (m : amap K V) :
  In (k, v) (insert k' v' m) -> (k, v) = (k', v') \/ In (k, v) m.
Proof.
  induction m as [|[k0 v0] m IH]; simpl.
  - intros [A|[]]. left. symmetry. exact A.
  - destruct (Base.eqb_spec k' k0) as [->|N]; simpl.
    + intros [A|A]; [left; symmetry; exact A|right; right; exact A].
    + intros [A|A]; [right; left; exact A|]. destruct (IH A) as [B|B]; auto.
Qed.

Lemma binv_set_typed b v : binv b -> binv (set_typed b v).
Proof.
  intros [B1 B2]. destruct v as [x|]; [|split; assumption]. split; cbn.
  - intros t v A. apply In_insert in A. destruct A as [A|A]; [inversion A; reflexivity|apply B1; exact A].
  - exact B2.
Qed.

Lemma binv_set_typedsub b v st : binv b -> binv (set_typedsub b v st).
Proof.
  intros B. unfold set_typedsub. destruct (String.eqb st ""); [apply binv_set_typed; exact B|].
  destruct v as [x|]; [|exact B]. destruct B as [B1 B2]. split; cbn.
  - exact B1.
  - intros t st' v A. apply In_insert in A. destruct A as [A|A]; [inversion A; reflexivity|eapply B2; exact A].
Qed.

Lemma binv_set_named b n v : binv b -> binv (set_named b n v).
Proof.
  intros B. unfold set_named. destruct (String.eqb n ""); [apply binv_set_typed; exact B|].
  destruct v as [x|]; [|exact B]. destruct B as [B1 B2]. split; cbn; assumption.
Qed.

Lemma binv_set_namedsub b n v st : binv b -> binv (set_namedsub b n v st).
Proof.
  intros B. unfold set_namedsub. destruct (String.eqb n ""); [apply binv_set_typedsub; exact B|].
  destruct (String.eqb st ""); [apply binv_set_named; exact B|].
  destruct v as [x|]; [|exact B]. destruct B as [B1 B2]. split; cbn; assumption.
Qed.

Lemma binv_add_convs_raw fs : forall b, binv b -> binv (add_convs_raw b fs).
Proof.
  induction fs as [|[f|] fs IH]; intros b B; simpl.
  - exact B.
  - apply IH. destruct B as [B1 B2]. split; cbn; assumption.
  - destruct B as [B1 B2]. split; cbn; assumption.
Qed.

Lemma binv_fold_typed vs : forall b, binv b -> binv (fold_left set_typed vs b).
Proof.
  induction vs as [|v vs IH]; intros b B; simpl; [exact B|]. apply IH. apply binv_set_typed. exact B.
Qed.

Lemma binv_apply b a : binv b -> binv (apply_arg b a).
Proof.
  intros B. destruct a; simpl;
    first [ exact B
          | apply binv_set_named; exact B
          | apply binv_set_namedsub; exact B
          | apply binv_fold_typed; exact B
          | apply binv_set_typedsub; exact B
          | apply binv_add_convs_raw; exact B
          | (destruct B as [B1 B2]; split; cbn; assumption) ].
Qed.

Lemma binv_build_from opts : forall b b', binv b -> build_from b opts = Some b' -> binv b'.
Proof.
  induction opts as [|a opts IH]; intros b b' B Q; simpl in Q.
  - destruct (b_err b); [discriminate|]. inversion Q; subst. exact B.
  - destruct (is_nil_arg a); [discriminate|]. eapply IH; [|exact Q]. apply binv_apply. exact B.
Qed.

Lemma build_args_in_ok d opts b : build_args d opts = Some b -> forall k v, In (k, v) (input_vertices b) -> in_ok k v.
Proof.
  intros Q. assert (B : binv b).
  { eapply binv_build_from; [|exact Q]. split; simpl; intros; contradiction. }
  destruct B as [B1 B2]. intros k v A. unfold input_vertices in A.
  apply in_app_or in A. destruct A as [A|A].
  { apply in_map_iff in A. destruct A as ([n x] & E & _). inversion E; subst. reflexivity. }
  apply in_app_or in A. destruct A as [A|A].
  { apply in_map_iff in A. destruct A as ([[n st] x] & E & _). inversion E; subst. reflexivity. }
  apply in_app_or in A. destruct A as [A|A].
  { apply in_map_iff in A. destruct A as ([t x] & E & A). inversion E; subst. simpl. apply B1. exact A. }
  apply in_map_iff in A. destruct A as ([[t st] x] & E & A). inversion E; subst. simpl. eapply B2. exact A.
Qed.

(* ================= the initial state ================= *)
Lemma gen_no_exec tr fid args outs err : Forall is_gen tr -> ~ In (EExec fid args outs err) tr.
Proof.
  intros F A. rewrite Forall_forall in F. apply F in A. simpl in A. exact A.
Qed.

Lemma world_ok_gen earlier w tr : Forall is_gen tr -> world_ok earlier w -> world_ok (earlier ++ tr) w.
Proof.
  intros F (W1 & W2 & W3). split; [|split; [|exact W3]].
  - intros fid r Q. destruct (W1 fid r Q) as [B [args A]]. split; [exact B|]. exists args.
    apply in_or_app. left. exact A.
  - intros fid args outs err v A B. apply in_app_or in A. destruct A as [A|A].
    + eapply W2; eauto.
    + exfalso. eapply gen_no_exec; eauto.
Qed.

Lemma co_events_run r : co_events (co_of_run r) = run_trace r.
Proof.
  unfold co_of_run. destruct (run_out r) as [res|e]; [reflexivity|]. destruct e; reflexivity.
Qed.

Lemma init_inv u b fs earlier FS cg w :
  wf_values b = true ->
  (forall k v, In (k, v) (input_vertices b) -> in_ok k v) ->
  (forall k v, lookup k (cg_vals cg) = Some v -> In (k, v) (input_vertices b)) ->
  (forall k, In k (map fst (input_vertices b)) -> mem k (cg_vals cg) = true) ->
  Forall is_gen (cg_trace cg) ->
  world_ok earlier w -> world_typed FS w ->
  Inv u b fs earlier FS (init_state cg w).
Proof.
  intros Hwv Hin V1 V2 FG (W1 & W2 & W3) WT. unfold Inv, init_state. cbn [s_vals s_world s_trace s_nexec].
  constructor.
  - apply c01_events_gen. exact FG.
  - intros k v Q. apply V1 in Q. pose proof (Hin _ _ Q) as IO.
    destruct k as [|ft|n t st|t st|t st]; simpl in IO; try contradiction.
    + exists (mkL n t st). split; [left; apply supplied_source_in with (k := KVal n t st); auto|].
      split; [exact IO|]. simpl. left. unfold sub_ok. auto.
    + exists (mkL EmptyString t st). split; [left; apply supplied_source_in with (k := KOut t st); auto|].
      split; [exact IO|]. simpl. left. reflexivity.
  - intros fid r Q. destruct (W1 fid r Q) as [B [args A]]. split; [exact B|]. exists args.
    apply in_or_app. left. exact A.
  - intros fid r f Q Hf Id. exact (proj1 (WT fid r f Q Hf Id)).
  - intros fid args outs err v A B. apply in_app_or in A. destruct A as [A|A].
    + eapply W2; eauto.
    + exfalso. eapply gen_no_exec; eauto.
  - exact W3.
  - exact V2.
Qed.

Lemma inv_world_ok u b fs earlier FS s :
  Inv u b fs earlier FS s -> world_ok (earlier ++ s_trace s) (mkW (s_world s) (s_nexec s)).
Proof.
  intros I. split; [|split]; cbn [w_once w_nexec].
  - apply (i_world I).
  - apply (i_ids I).
  - apply (i_nexec I).
Qed.

Lemma inv_world_typed u b fs earlier FS s :
  Inv u b fs earlier FS s -> world_typed FS (mkW (s_world s) (s_nexec s)).
Proof.
  intros I fid r f Q Hf Id. cbn [w_once] in Q. split.
  - eapply (i_typed I); eauto.
  - exact (proj1 (i_world I _ Q)).
Qed.

(* ================= the main theorem ================= *)
Definition C01_alt_statement : Prop :=
  forall u bh f d opts b w t r earlier,
    build_args d opts = Some b -> wf_call u f b = true -> world_ok earlier w ->
    (* added hypotheses *)
    impl_acyclic u -> few_results f b = true ->
    world_typed (known_funcs f b) w -> small_graph u f b t = true ->
    call u bh f d opts w t = Ok r ->
    c01_ok u f b earlier (co_of_run r) = true /\ world_ok (earlier ++ run_trace r) (run_world r).

Definition C01_alt_typed_statement : Prop :=
  forall u bh f d opts b w t r earlier,
    build_args d opts = Some b -> wf_call u f b = true -> world_ok earlier w ->
    impl_acyclic u -> few_results f b = true ->
    world_typed (known_funcs f b) w -> small_graph u f b t = true ->
    call u bh f d opts w t = Ok r ->
    world_typed (known_funcs f b) (run_world r).

(* general form: the memo table is typed with respect to ANY well-formed
   function list FS that contains the functions of this call *)
Lemma C01_alt_general :
  forall u bh f d opts b w t r earlier FS,
    build_args d opts = Some b -> wf_call u f b = true -> world_ok earlier w ->
    impl_acyclic u -> few_results f b = true ->
    wf_funcs FS = true -> (forall g0, In g0 (known_funcs f b) -> In g0 FS) ->
    world_typed FS w -> small_graph u f b t = true ->
    call u bh f d opts w t = Ok r ->
    (c01_ok u f b earlier (co_of_run r) = true /\ world_ok (earlier ++ run_trace r) (run_world r)) /\
    world_typed FS (run_world r).
Proof.
  intros u bh f d opts b w t r earlier FS BA WF WO ACY FEW HFS INCL WT SMALL CALL.
  set (fs := known_funcs f b) in *.
  unfold wf_call in WF. rewrite !andb_true_iff in WF. destruct WF as [[[Hfs Hwv] _] _].
  fold fs in Hfs.
  assert (Hout : forall g0, In g0 fs -> Z.of_nat (length (fn_out g0)) < 1000).
  { intros g0 A. unfold few_results in FEW. rewrite forallb_forall in FEW. apply FEW in A. apply Z.ltb_lt in A. exact A. }
  unfold c01_ok. rewrite co_events_run. fold fs.
  unfold call in CALL. rewrite BA in CALL.
  destruct (call_graph u f b false t) as [[cgr tr0]| | |] eqn:CG; cbn [bind] in CALL; try discriminate.
  destruct cgr as [cg|e].
  2:{ inversion CALL; subst r. cbn [run_trace run_world].
      pose proof (call_graph_err _ _ _ _ CG) as FG.
      split; [split|].
      - apply c01_events_gen. exact FG.
      - apply world_ok_gen; assumption.
      - exact WT. }
  destruct (call_graph_spec _ _ _ _ CG) as (Hg & Hrch & V1 & V2 & TR & TG & FG).
  fold fs in Hg.
  assert (Hsmall : 20 * Z.of_nat (length (g_vertex_keys (cg_g cg))) < INF).
  { unfold small_graph in SMALL. rewrite CG in SMALL. apply Z.ltb_lt in SMALL. exact SMALL. }
  assert (I0 : Inv u b fs earlier FS (init_state cg w)).
  { apply init_inv; auto.
    - eapply build_args_in_ok; eauto.
    - rewrite TR. exact FG. }
  destruct (reach u bh (cg_g cg) false (fuel_of cg) (cg_target cg) (init_state cg w)) as [[s r1]| | |] eqn:RE;
    cbn [bind] in CALL; try discriminate.
  pose proof (@reach_inv u bh (cg_g cg) b fs earlier FS Hfs HFS INCL Hg Hout ACY
                (fun target cur s0 path bad s0' => @plan_spec u b fs (cg_g cg) Hg Hrch Hsmall target cur s0 path bad s0')
                (fuel_of cg)) as RS.
  destruct (RS _ _ _ _ I0 RE) as (I1 & E1 & AM1).
  destruct r1 as [am|e].
  2:{ inversion CALL; subst r. cbn [run_trace run_world].
      split; [split|].
      - apply (i_ev I1).
      - apply (inv_world_ok I1).
      - apply (inv_world_typed I1). }
  destruct (call_direct u bh false f am s) as [[res s2]| | |] eqn:CD; cbn [bind] in CALL; try discriminate.
  assert (Hf : In f fs) by (left; reflexivity).
  destruct (@call_direct_inv u bh b fs earlier FS Hfs HFS INCL Hout ACY f am s res s2 I1 Hf (AM1 am eq_refl) CD) as (I2 & _ & _ & _).
  inversion CALL; subst r. cbn [run_trace run_world].
  split; [split|].
  - apply (i_ev I2).
  - apply (inv_world_ok I2).
  - apply (inv_world_typed I2).
Qed.

Lemma C01_alt_both :
  forall u bh f d opts b w t r earlier,
    build_args d opts = Some b -> wf_call u f b = true -> world_ok earlier w ->
    impl_acyclic u -> few_results f b = true ->
    world_typed (known_funcs f b) w -> small_graph u f b t = true ->
    call u bh f d opts w t = Ok r ->
    (c01_ok u f b earlier (co_of_run r) = true /\ world_ok (earlier ++ run_trace r) (run_world r)) /\
    world_typed (known_funcs f b) (run_world r).
Proof.
  intros u bh f d opts b w t r earlier BA WF WO ACY FEW WT SMALL CALL.
  apply C01_alt_general with (bh := bh) (d := d) (opts := opts) (w := w) (t := t); auto.
  unfold wf_call in WF. rewrite !andb_true_iff in WF. destruct WF as [[[Hfs _] _] _]. exact Hfs.
Qed.

Lemma C01_alt_main : C01_alt_statement.
Proof.
  intros u bh f d opts b w t r earlier H1 H2 H3 H4 H5 H6 H7 H8.
  exact (proj1 (@C01_alt_both u bh f d opts b w t r earlier H1 H2 H3 H4 H5 H6 H7 H8)).
Qed.

Theorem C01_alt_typed_proof : C01_alt_typed_statement.
Proof.
  intros u bh f d opts b w t r earlier H1 H2 H3 H4 H5 H6 H7 H8.
  exact (proj2 (@C01_alt_both u bh f d opts b w t r earlier H1 H2 H3 H4 H5 H6 H7 H8)).
Qed.

(* ================= counterexamples to C01_statement ================= *)
Local Open Scope string_scope.
Local Open Scope list_scope.
Local Open Scope Z_scope.

Lemma world_ok_0 : world_ok [] world0.
Proof.
  split; [|split].
  - intros fid r Q. simpl in Q. discriminate.
  - intros fid args outs err v A. contradiction.
  - simpl. lia.
Qed.

(* ---- (1) two interface types that implement each other (in Go: two named
   interface types with the same method set).  Converter c returns
   struct{ T1 `subtype=a` }, converter d (T2) -> T9 only brings the vertex
   "out: T2" into the graph, the target takes struct{ T1 `subtype=b` }.
   The planner's path is
     root, c, out:T1/a, out:T2, out:T1/b, arg:T1/b
   (T1 is satisfied by its implementation T2, T2 by its implementation T1),
   so the target receives in its parameter (T1, subtype b) the value that c
   produced with label (T1, subtype a): same type, different non-empty
   subtypes, which the matching table forbids. *)
Definition cx1_u : universe := mkU [1; 2] [(1, 1); (2, 2); (1, 2); (2, 1)].
Definition cx1_c : fdecl := mkFn 1 101 FPos [] FStruct [mkF "" 1 "a"] false false.
Definition cx1_d : fdecl := mkFn 2 102 FPos [mkF "" 2 ""] FPos [mkF "" 9 ""] false false.
Definition cx1_f : fdecl := mkFn 3 103 FStruct [mkF "" 1 "b"] FPos [] false false.
Definition cx1_opts : list arg := [AConvFunc [Some cx1_c; Some cx1_d]].
Definition cx1_b : builder := mkB [] [] [] [] [cx1_c; cx1_d] [] None None false.
Definition cx1_tape : tape vkey :=
  [(SITE_REACH_OUT, [KArg 1 "b"]); (SITE_REACH_OUT, [KRoot]); (SITE_REACH_IN, [KOut 1 "a"]);
   (SITE_POP, [KRoot]); (SITE_POP, [KFunc 101]); (SITE_POP, [KOut 1 "a"]);
   (SITE_POP, [KOut 2 ""]); (SITE_POP, [KArg 2 ""]); (SITE_POP, [KOut 1 "b"]);
   (SITE_POP, [KArg 1 "b"]); (SITE_POP, [KFunc 102]); (SITE_POP, [KFunc 103]); (SITE_POP, [KOut 9 ""])].
Definition cx1_bh : behaviour := fun _ _ => BOk.

Example cx1_run :
  exists r, call cx1_u cx1_bh cx1_f [] cx1_opts world0 cx1_tape = Ok r /\
            run_trace r = [EExec 1 [] [mkV 1001 1] None; EExec 3 [mkV 1001 1] [] None] /\
            c01_ok cx1_u cx1_f cx1_b [] (co_of_run r) = false.
Proof. vm_compute. eexists. split; [reflexivity|]. split; reflexivity. Qed.

Example cx1_other_hypotheses :
  build_args [] cx1_opts = Some cx1_b /\ wf_call cx1_u cx1_f cx1_b = true /\
  few_results cx1_f cx1_b = true /\ small_graph cx1_u cx1_f cx1_b cx1_tape = true /\
  world_typed (known_funcs cx1_f cx1_b) world0.
Proof.
  split; [reflexivity|]. split; [vm_compute; reflexivity|]. split; [vm_compute; reflexivity|].
  split; [vm_compute; reflexivity|]. intros fid r g Q. simpl in Q. discriminate.
Qed.

Example cx1_not_acyclic : ~ impl_acyclic cx1_u.
Proof.
  intros A. apply (A 1). apply t_trans with (y := 2); apply t_step; split; try discriminate; reflexivity.
Qed.

Example C01_refuted_mutual_ifaces : ~ C01_statement.
Proof.
  intros H. destruct cx1_run as (r & C & _ & B).
  destruct cx1_other_hypotheses as (BA & WF & _).
  destruct (H cx1_u cx1_bh cx1_f [] cx1_opts cx1_b world0 cx1_tape r [] BA WF world_ok_0 C) as [X _].
  rewrite B in X. discriminate.
Qed.

(* ---- (2) model artefact: value ids are 1000 * n + position + 1, the memo
   invariant demands ids below 1000 * (n + 1): a function with 1000 results
   (allowed by wf_fn) breaks world_ok. *)
Definition cx2_f : fdecl := mkFn 1 101 FPos [] FPos (repeat (mkF "" 1 "") 1000) false false.
Definition cx2_u : universe := mkU [] [].
Definition ids_bad (r : run) : bool :=
  existsb (fun e => match e with
                    | EExec _ _ outs _ =>
                        existsb (fun v => negb (v_id v <? 1000 * (w_nexec (run_world r) + 1))) outs
                    | _ => false end) (run_trace r).

Example cx2_run :
  exists r, call cx2_u cx1_bh cx2_f [] [] world0 [(SITE_REACH_OUT, [KRoot])] = Ok r /\ ids_bad r = true.
Proof. vm_compute. eexists. split; reflexivity. Qed.

Example C01_refuted_many_results : ~ C01_statement.
Proof.
  intros H. destruct cx2_run as (r & C & B).
  assert (BA : build_args [] [] = Some b0) by reflexivity.
  assert (WF : wf_call cx2_u cx2_f b0 = true) by (vm_compute; reflexivity).
  destruct (H cx2_u cx1_bh cx2_f [] [] b0 world0 _ r [] BA WF world_ok_0 C) as [_ (_ & W2 & _)].
  unfold ids_bad in B. apply existsb_exists in B. destruct B as (e & A & B).
  destruct e as [fid args outs err|]; [|discriminate].
  apply existsb_exists in B. destruct B as (v & A2 & B2).
  specialize (W2 fid args outs err v A A2).
  apply negb_true_iff in B2. apply Z.ltb_ge in B2. lia.
Qed.

(* ---- (3) world_ok says nothing about the TYPES of memoized values: a memo
   of the run-once converter c (declared result type T1) holds a value of
   dynamic type T3.  T1 implements T2, T2 implements T3, T1 does not
   implement T3.  The memoized value passes the assignability test of the
   vertex "arg: T3" because of its dynamic type, but its recorded source
   label is (T1), which is not compatible with the parameter (T3). *)
Definition cx3_u : universe := mkU [2; 3] [(2, 2); (3, 3); (1, 2); (2, 3)].
Definition cx3_c : fdecl := mkFn 1 101 FPos [] FPos [mkF "" 1 ""] false true.
Definition cx3_d : fdecl := mkFn 2 102 FPos [mkF "" 2 ""] FPos [mkF "" 9 ""] false false.
Definition cx3_f : fdecl := mkFn 3 103 FPos [mkF "" 3 ""] FPos [] false false.
Definition cx3_opts : list arg := [AConvFunc [Some cx3_c; Some cx3_d]].
Definition cx3_b : builder := mkB [] [] [] [] [cx3_c; cx3_d] [] None None false.
Definition cx3_w : world := mkW [(1, mkR [mkV 5000 3] None false)] 5.
Definition cx3_earlier : list event := [EExec 1 [] [mkV 5000 3] None].
Definition cx3_tape : tape vkey :=
  [(SITE_REACH_OUT, [KArg 3 ""]); (SITE_REACH_OUT, [KRoot]); (SITE_REACH_IN, [KOut 1 ""]);
   (SITE_POP, [KRoot]); (SITE_POP, [KFunc 101]); (SITE_POP, [KOut 1 ""]);
   (SITE_POP, [KOut 2 ""]); (SITE_POP, [KArg 2 ""]); (SITE_POP, [KOut 3 ""]);
   (SITE_POP, [KArg 3 ""]); (SITE_POP, [KFunc 102]); (SITE_POP, [KFunc 103]); (SITE_POP, [KOut 9 ""])].

Example cx3_run :
  exists r, call cx3_u cx1_bh cx3_f [] cx3_opts cx3_w cx3_tape = Ok r /\
            c01_ok cx3_u cx3_f cx3_b cx3_earlier (co_of_run r) = false.
Proof. vm_compute. eexists. split; reflexivity. Qed.

Lemma cx3_world_ok : world_ok cx3_earlier cx3_w.
Proof.
  split; [|split].
  - intros fid r Q. simpl in Q. destruct (fid =? 1) eqn:E; [|discriminate].
    apply Z.eqb_eq in E. subst fid. inversion Q; subst r. split; [reflexivity|].
    exists []. left. reflexivity.
  - intros fid args outs err v A B. destruct A as [A|[]]. inversion A; subst.
    destruct B as [B|[]]. subst v. simpl. lia.
  - simpl. lia.
Qed.

Example C01_refuted_untyped_memo : ~ C01_statement.
Proof.
  intros H. destruct cx3_run as (r & C & B).
  assert (BA : build_args [] cx3_opts = Some cx3_b) by reflexivity.
  assert (WF : wf_call cx3_u cx3_f cx3_b = true) by (vm_compute; reflexivity).
  destruct (H cx3_u cx1_bh cx3_f [] cx3_opts cx3_b cx3_w cx3_tape r cx3_earlier BA WF cx3_world_ok C) as [X _].
  rewrite B in X. discriminate.
Qed.

(* ================= boolean checkers for the added hypotheses ================= *)
(* the strict "implements" edges of a universe *)
Definition strict_edges (u : universe) : list (ty * ty) :=
  filter (fun p => negb (fst p =? snd p) && is_iface u (snd p)) (u_impl u).

(* length of the longest chain of edges from a, cut off at [fuel] *)
Fixpoint idepth (E : list (ty * ty)) (fuel : nat) (a : ty) : nat :=
  match fuel with
  | O => O
  | S f => fold_left (fun m p => if fst p =? a then Nat.max m (S (idepth E f (snd p))) else m) E O
  end.

(* every strict edge goes from a deeper type to a shallower one: decides
   acyclicity of the finite relation (only soundness is proved and needed) *)
Definition impl_acyclic_b (u : universe) : bool :=
  let E := strict_edges u in
  let n := S (length E) in
  forallb (fun p => Nat.ltb (idepth E n (snd p)) (idepth E n (fst p))) E.

Lemma impl_acyclic_b_sound u : impl_acyclic_b u = true -> impl_acyclic u.
Proof.
  unfold impl_acyclic_b. set (E := strict_edges u). set (rk := idepth E (S (length E))).
  intros C. rewrite forallb_forall in C.
  assert (ST : forall a b0, strict_impl u a b0 -> (rk b0 < rk a)%nat).
  { intros a b0 [N I]. unfold implements in I. apply andb_true_iff in I. destruct I as [I1 I2].
    apply (proj1 (C18DijkstraLemmas.memb_In _ _)) in I2.
    assert (A : In (a, b0) E).
    { unfold E, strict_edges. apply filter_In. split; [exact I2|]. cbn [fst snd].
      rewrite I1. destruct (Z.eqb_spec a b0) as [Q|Q]; [contradiction|reflexivity]. }
    apply C in A. cbn [fst snd] in A. apply Nat.ltb_lt in A. exact A. }
  assert (TR : forall a b0, clos_trans ty (strict_impl u) a b0 -> (rk b0 < rk a)%nat).
  { intros a b0 T. induction T as [a b0 S|a b0 c _ IH1 _ IH2]; [apply ST; exact S|lia]. }
  intros a T. apply TR in T. lia.
Qed.

Definition world_typed_b (fs : list fdecl) (w : world) : bool :=
  forallb (fun kv =>
             forallb (fun g => if fn_id g =? fst kv
                               then Base.eqb (map v_ty (r_fields (snd kv))) (map f_ty (fn_out g)) &&
                                    negb (r_builderr (snd kv))
                               else true) fs) (w_once w).

Lemma world_typed_b_sound fs w : world_typed_b fs w = true -> world_typed fs w.
Proof.
  unfold world_typed_b. intros C fid r g Q Hg Id. rewrite forallb_forall in C.
  apply C18DijkstraLemmas.lookup_In in Q. apply C in Q. rewrite forallb_forall in Q. apply Q in Hg.
  cbn [fst snd] in Hg. rewrite Id, Z.eqb_refl in Hg. apply andb_true_iff in Hg. destruct Hg as [H1 H2].
  apply (proj1 (Base.eqb_eq _ _)) in H1. apply negb_true_iff in H2. split; assumption.
Qed.

(* sanity: the checker accepts the harness universe and rejects counterexample (1) *)
Example impl_acyclic_b_examples :
  impl_acyclic_b (mkU [10; 11] [(0, 10); (1, 10); (1, 11); (3, 10); (10, 10); (11, 10); (11, 11)]) = true /\
  impl_acyclic_b cx1_u = false /\ impl_acyclic_b cx3_u = true.
Proof. vm_compute. auto. Qed.

(* the alternative statement with boolean side conditions only *)
Corollary C01_alt_bool_proof :
  forall u bh f d opts b w t r earlier,
    build_args d opts = Some b -> wf_call u f b = true -> world_ok earlier w ->
    impl_acyclic_b u = true -> few_results f b = true ->
    world_typed_b (known_funcs f b) w = true -> small_graph u f b t = true ->
    call u bh f d opts w t = Ok r ->
    c01_ok u f b earlier (co_of_run r) = true /\ world_ok (earlier ++ run_trace r) (run_world r).
Proof.
  intros u bh f d opts b w t r earlier H1 H2 H3 H4 H5 H6 H7 H8.
  eapply C01_alt_main; eauto using impl_acyclic_b_sound, world_typed_b_sound.
Qed.

Print Assumptions C01_refuted_mutual_ifaces.
Print Assumptions C01_refuted_many_results.
Print Assumptions C01_refuted_untyped_memo.
Print Assumptions C01_alt_typed_proof.
Print Assumptions C01_alt_bool_proof.

(* ================= the closest true statement ================= *)
Theorem C01_alt_proof : C01_alt_statement.
Proof. exact C01_alt_main. Qed.
Print Assumptions C01_alt_proof.

(* C1112ConcSim.v -- the memo table (s_world) is neither read nor written
   by [reach]/[call_direct] when no function of the call graph is run-once:
   replacing the table commutes with the whole run. *)
From ArgMapper Require Import Base Graph GraphAlg Types Args Resolver.
From ArgMapper.proofs Require Import C0911OnceLemmas.
Set Implicit Arguments.
Local Open Scope Z_scope.
Local Open Scope list_scope.

(* replace the memo table *)
Definition ww (w : amap Z result) (s : rstate) : rstate :=
  mkS (s_vals s) (s_last s) (s_inputs s) (s_inprog s) w (s_trace s) (s_nexec s) (s_tape s).

Definition rmap {A B} (F : A -> B) (x : res A) : res B :=
  match x with
  | Ok a => Ok (F a)
  | Panic n => Panic n
  | TapeErr n => TapeErr n
  | OutOfFuel => OutOfFuel
  end.

(* state first (reach, walk) *)
Definition lift {A} (w : amap Z result) : res (rstate * A) -> res (rstate * A) :=
  rmap (fun sr => (ww w (fst sr), snd sr)).
(* state second (call_direct) *)
Definition lift2 {A} (w : amap Z result) : res (A * rstate) -> res (A * rstate) :=
  rmap (fun rs => (fst rs, ww w (snd rs))).
(* plan *)
Definition lift3 {A B} (w : amap Z result) : res (A * B * rstate) -> res (A * B * rstate) :=
  rmap (fun x => (fst x, ww w (snd x))).

Lemma ww_set_val w s k v : set_val (ww w s) k v = ww w (set_val s k v).
Proof. reflexivity. Qed.
Lemma ww_set_last w s v : set_last (ww w s) v = ww w (set_last s v).
Proof. reflexivity. Qed.
Lemma ww_set_tape w s t : set_tape (ww w s) t = ww w (set_tape s t).
Proof. reflexivity. Qed.
Lemma ww_set_inprog w s l : set_inprog (ww w s) l = ww w (set_inprog s l).
Proof. reflexivity. Qed.
Lemma ww_add_input w s k : add_input (ww w s) k = ww w (add_input s k).
Proof. reflexivity. Qed.
Lemma ww_leaveX w t s : leaveX t (ww w s) = ww w (leaveX t s).
Proof. reflexivity. Qed.
Lemma ww_ww w w' s : ww w (ww w' s) = ww w s.
Proof. reflexivity. Qed.
Lemma ww_same s : ww (s_world s) s = s.
Proof. destruct s; reflexivity. Qed.

(* ---------- call_direct ---------- *)
Lemma call_direct_ww u bh rd f am w s :
  fn_once f = false ->
  call_direct u bh rd f am (ww w s) = lift2 w (call_direct u bh rd f am s).
Proof.
  intros NO. unfold call_direct. rewrite NO.
  match goal with |- (if ?c then _ else _) = _ => destruct c end; [reflexivity|].
  match goal with |- (if ?c then _ else _) = _ => destruct c end; [reflexivity|].
  destruct rd; [reflexivity|].
  change (s_nexec (ww w s)) with (s_nexec s).
  destruct (bh (fn_id f) (s_nexec s + 1)); reflexivity.
Qed.

Lemma call_direct_world u bh rd f am s r s' :
  fn_once f = false ->
  call_direct u bh rd f am s = Ok (r, s') -> s_world s' = s_world s.
Proof.
  intros NO. unfold call_direct. rewrite NO. intros E.
  match type of E with (if ?c then _ else _) = _ => destruct c end; [discriminate|].
  match type of E with (if ?c then _ else _) = _ => destruct c end; [inversion E; reflexivity|].
  destruct rd; [inversion E; reflexivity|].
  destruct (bh (fn_id f) (s_nexec s + 1)); inversion E; reflexivity.
Qed.

(* ---------- output_values ---------- *)
Lemma ov_step_ww f r w (a : res rstate) k :
  ov_step f r (rmap (ww w) a) k = rmap (ww w) (ov_step f r a k).
Proof.
  destruct a as [s| | |]; try reflexivity.
  unfold ov_step. cbn [rmap bind].
  destruct k as [|ft|n t st|t st|t st]; try reflexivity.
  - destruct (last_named n (fn_out f) 0 None) as [[i fd]|]; reflexivity.
  - destruct (last_typed t (fn_out f) 0 None) as [[i fd]|]; reflexivity.
Qed.

Lemma ov_fold_ww f r w ins : forall a : res rstate,
  fold_left (ov_step f r) ins (rmap (ww w) a) = rmap (ww w) (fold_left (ov_step f r) ins a).
Proof.
  induction ins as [|k ins IH]; intros a; cbn [fold_left]; [reflexivity|].
  rewrite ov_step_ww. apply IH.
Qed.

Lemma output_values_ww f r w ins s :
  output_values f r ins (ww w s) = rmap (ww w) (output_values f r ins s).
Proof. rewrite !output_values_eq. apply (ov_fold_ww f r w ins (Ok s)). Qed.

(* ---------- plan ---------- *)
Lemma plan_ww g rd cur w s :
  plan g rd cur (ww w s) = lift3 w (plan g rd cur s).
Proof.
  unfold plan. change (s_tape (ww w s)) with (s_tape s).
  destruct (dijkstra_t (g_reverse (discount g cur)) KRoot (s_tape s)) as [[[d p] t']| | |];
    cbn [bind]; try reflexivity.
  destruct (edge_to_path (discount g cur) p cur) as [pth| | |]; cbn [bind]; try reflexivity.
  unfold lift3. cbn [rmap fst snd].
  destruct rd; [|reflexivity].
  match goal with |- context [add_input _ ?i] => destruct i as [|ft|n t st|t st|t st] end;
    try reflexivity.
  match goal with |- context [if ?c then _ else _] => destruct c eqn:M end.
  - cbn [s_vals ww add_input set_tape] in M |- *. rewrite M. reflexivity.
  - cbn [s_vals ww add_input set_tape] in M |- *. rewrite M. reflexivity.
Qed.

Definition F3 (w : amap Z result) (x : list (list vkey) * list vkey * rstate) :=
  (fst x, ww w (snd x)).

Lemma plan_step_ww g rd w a cur :
  plan_step g rd (rmap (F3 w) a) cur = rmap (F3 w) (plan_step g rd a cur).
Proof.
  destruct a as [[[paths unsat] s]| | |]; try reflexivity.
  unfold plan_step. cbn [rmap bind F3 fst snd].
  rewrite plan_ww.
  destruct (plan g rd cur s) as [[[path bad] s1]| | |]; reflexivity.
Qed.

Lemma plan_fold_ww g rd w todo : forall a,
  fold_left (plan_step g rd) todo (rmap (F3 w) a) = rmap (F3 w) (fold_left (plan_step g rd) todo a).
Proof.
  induction todo as [|k todo IH]; intros a; cbn [fold_left]; [reflexivity|].
  rewrite plan_step_ww. apply IH.
Qed.

(* ---------- the loops of reach ---------- *)
Section Sim.
  Variable u : universe.
  Variable bh : behaviour.
  Variable g : rgraph.
  Variable rd : bool.
  Variable w : amap Z result.
  Hypothesis Hno : forall v f, g_vertex g v = Some (PFunc f) -> fn_once f = false.

  Section Rec.
    Variable rec : vkey -> rstate -> res (rstate * (argmap + rerr)).
    Hypothesis Hrec : forall v s, rec v (ww w s) = lift w (rec v s).

    Lemma walkX_ww vs : forall prev final s,
      walkX u bh g rd rec prev vs final (ww w s) = lift w (walkX u bh g rd rec prev vs final s).
    Proof.
      induction vs as [|v vs IH]; intros prev final s.
      - reflexivity.
      - destruct v as [|ft|n t st|t st|t st].
        + cbn [walkX]. apply IH.
        + cbn [walkX].
          destruct (g_vertex g (KFunc ft)) as [[|f]|] eqn:GV; try reflexivity.
          rewrite Hrec.
          destruct (rec (KFunc ft) s) as [[s1 [fam|e]]| | |]; try reflexivity.
          unfold lift at 1. cbn [rmap bind fst snd].
          rewrite (call_direct_ww u bh rd f fam w s1 (Hno _ GV)).
          destruct (call_direct u bh rd f fam s1) as [[res s2]| | |]; try reflexivity.
          unfold lift2. cbn [rmap bind fst snd].
          destruct (r_builderr res); [reflexivity|].
          destruct (r_err res); [reflexivity|].
          change (s_tape (ww w s2)) with (s_tape s2).
          destruct (take_perm SITE_REACH_IN (g_in_keys g (KFunc ft)) (s_tape s2)) as [[ins t']| | |];
            try reflexivity.
          cbn [bind]. rewrite ww_set_tape, output_values_ww.
          destruct (output_values f res ins (set_tape s2 t')) as [s3| | |]; try reflexivity.
          cbn [rmap bind]. apply IH.
        + cbn [walkX]. destruct prev as [[| |n2 t2 s2| |t0 st0]|];
            try change (s_vals (ww w s)) with (s_vals s);
            try destruct (lookup (KVal n2 t2 s2) (s_vals s));
            (refine (eq_trans _ (IH _ _ _)); reflexivity).
        + cbn [walkX]. change (s_last (ww w s)) with (s_last s).
          destruct (s_last s) as [x|]; [destruct (assignable u (v_ty x) t)|];
            (refine (eq_trans _ (IH _ _ _)); reflexivity).
        + cbn [walkX]. destruct prev as [[| | | |t0 st0]|];
            (refine (eq_trans _ (IH _ _ _)); reflexivity).
    Qed.

    Lemma walk_pathsX_ww target paths : forall am s,
      walk_pathsX u bh g rd rec target paths am (ww w s) =
      lift w (walk_pathsX u bh g rd rec target paths am s).
    Proof.
      induction paths as [|path rest IH]; intros am s.
      - reflexivity.
      - rewrite !walk_pathsX_cons. rewrite walkX_ww.
        destruct (walkX u bh g rd rec None path None s) as [[s1 [[fv|]|e]]| | |]; try reflexivity.
        unfold lift at 1. cbn [rmap bind fst snd]. apply IH.
    Qed.

    Lemma reach_body_ww target s :
      reach_body u bh g rd rec target (ww w s) = lift w (reach_body u bh g rd rec target s).
    Proof.
      unfold reach_body.
      change (set_inprog (ww w s) (target :: s_inprog (ww w s)))
        with (ww w (set_inprog s (target :: s_inprog s))).
      set (s0 := set_inprog s (target :: s_inprog s)).
      change (s_tape (ww w s0)) with (s_tape s0).
      destruct (take_perm SITE_REACH_OUT (g_out_keys g target) (s_tape s0)) as [[outs t']| | |];
        try reflexivity.
      cbn [bind]. rewrite ww_set_tape.
      set (s1 := set_tape s0 t').
      change (todo_step rd (ww w s1)) with (todo_step rd s1).
      destruct (fold_left (todo_step rd s1) outs (([] : argmap), ([] : list vkey))) as [am todo].
      destruct todo as [|o todo]; [reflexivity|].
      change (Ok (([] : list (list vkey)), ([] : list vkey), ww w s1))
        with (rmap (F3 w) (Ok (([] : list (list vkey)), ([] : list vkey), s1))).
      rewrite plan_fold_ww.
      destruct (fold_left (plan_step g rd) (o :: todo) (Ok ([], [], s1))) as [[[paths unsat] s2]| | |];
        try reflexivity.
      cbn [rmap bind F3 fst snd].
      destruct unsat as [|x unsat]; [apply walk_pathsX_ww|reflexivity].
    Qed.
  End Rec.

  Theorem reach_ww fuel : forall target s,
    reach u bh g rd fuel target (ww w s) = lift w (reach u bh g rd fuel target s).
  Proof.
    induction fuel as [|fuel IH]; intros target s.
    - reflexivity.
    - rewrite !reach_S. apply reach_body_ww. exact IH.
  Qed.
End Sim.

(* C07AffinityOps.v -- the call-graph construction seen as a list of primitive
   operations (add a vertex, add an edge); membership-based characterisation
   of the vertices and edges of the resulting graph.  Helper of C07Affinity.v *)
From ArgMapper Require Import Base Graph GraphAlg GraphSpec Types Args Resolver ResolverSpec GenWeights.
From ArgMapper.proofs Require Import C18DijkstraLemmas C19RefineMap C19RefineGraph C0213UnsatGraph C0213UnsatBuild.
From Coq Require Import List Lia ZArith.
Import ListNotations.
Set Implicit Arguments.
Local Open Scope Z_scope.

Inductive op :=
| OV (k : vkey)                 (* add_v *)
| OF (k : vkey) (p : vpay)      (* g_add with a payload *)
| OW (k : vkey)                 (* g_add_overwrite .. PNone *)
| OE (a b : vkey) (w : Z).      (* add_e *)

Definition app_op (g : rgraph) (o : op) : rgraph :=
  match o with
  | OV k => add_v g k
  | OF k p => g_add g k p
  | OW k => g_add_overwrite g k PNone
  | OE a b w => add_e g a b w
  end.
Definition app_ops (ops : list op) (g : rgraph) : rgraph := fold_left app_op ops g.

Definition op_v (o : op) : list vkey :=
  match o with OV k | OF k _ | OW k => [k] | OE _ _ _ => [] end.
Definition verts (ops : list op) : list vkey := flat_map op_v ops.

Fixpoint wseq (P : vkey -> Prop) (ops : list op) : Prop :=
  match ops with
  | [] => True
  | OE a b w :: r => P a /\ P b /\ wseq P r
  | o :: r => wseq (fun k => P k \/ In k (op_v o)) r
  end.

Lemma veqb_true (a b : vkey) : Base.eqb a b = true -> a = b.
Proof. intros C. destruct (Base.eqb_spec a b) as [Q|Q]; [exact Q|discriminate]. Qed.

Lemma app_ops_app o1 o2 g : app_ops (o1 ++ o2) g = app_ops o2 (app_ops o1 g).
Proof. unfold app_ops. apply fold_left_app. Qed.

Lemma app_ops_flat_map {A} (h : A -> list op) (l : list A) : forall g,
  fold_left (fun g x => app_ops (h x) g) l g = app_ops (flat_map h l) g.
Proof.
  induction l as [|x l IH]; intros g; simpl; [reflexivity|].
  rewrite app_ops_app. apply IH.
Qed.

Lemma verts_app o1 o2 : verts (o1 ++ o2) = verts o1 ++ verts o2.
Proof. unfold verts. apply flat_map_app. Qed.

Lemma memb_app (k : vkey) (l1 l2 : list vkey) : memb k (l1 ++ l2) = memb k l1 || memb k l2.
Proof.
  induction l1 as [|x l1 IH]; simpl; [reflexivity|]. rewrite IH. apply orb_assoc.
Qed.

Lemma wseq_ext (P Q : vkey -> Prop) ops : (forall k, P k -> Q k) -> wseq P ops -> wseq Q ops.
Proof.
  revert P Q. induction ops as [|o r IH]; intros P Q PQ; simpl; [auto|].
  destruct o as [k|k p|k|a b w].
  - apply IH. intros k0 [A|A]; [left; auto|right; auto].
  - apply IH. intros k0 [A|A]; [left; auto|right; auto].
  - apply IH. intros k0 [A|A]; [left; auto|right; auto].
  - intros (A & B & C). split; [auto|]. split; [auto|]. apply (IH P Q); auto.
Qed.

Lemma wseq_app (P : vkey -> Prop) o1 o2 :
  wseq P o1 -> wseq (fun k => P k \/ In k (verts o1)) o2 -> wseq P (o1 ++ o2).
Proof.
  revert P. induction o1 as [|o r IH]; intros P W1 W2; simpl in *.
  - eapply wseq_ext; [|exact W2]. intros k [A|[]]. exact A.
  - destruct o as [k|k p|k|a b w]; simpl in *.
    + apply IH; [exact W1|]. eapply wseq_ext; [|exact W2].
      intros k0 [A|[A|A]]; [left; left; exact A|left; right; left; exact A|right; exact A].
    + apply IH; [exact W1|]. eapply wseq_ext; [|exact W2].
      intros k0 [A|[A|A]]; [left; left; exact A|left; right; left; exact A|right; exact A].
    + apply IH; [exact W1|]. eapply wseq_ext; [|exact W2].
      intros k0 [A|[A|A]]; [left; left; exact A|left; right; left; exact A|right; exact A].
    + destruct W1 as (A & B & C). split; [exact A|]. split; [exact B|]. apply IH; [exact C|exact W2].
Qed.

(* every chunk of a flat_map is well sequenced on its own, whatever was added before *)
Lemma wseq_flat_map {A} (P : vkey -> Prop) (h : A -> list op) (l : list A) :
  (forall x (Q : vkey -> Prop), In x l -> (forall k, P k -> Q k) -> wseq Q (h x)) -> wseq P (flat_map h l).
Proof.
  revert P. induction l as [|x l IH]; intros P Hc; simpl; [exact I|].
  apply wseq_app.
  - apply Hc; [left; reflexivity|auto].
  - apply IH. intros y Q Iy PQ. apply Hc; [right; exact Iy|]. intros k Pk. apply PQ. left. exact Pk.
Qed.

(* ---------- one operation ---------- *)
Lemma present_false g k : present g k = false <-> vtx g k = None.
Proof. unfold present. destruct (vtx g k); split; congruence. Qed.

Lemma app_op_spec g o :
  wf_graph g ->
  wf_graph (app_op g o) /\
  (forall k, present (app_op g o) k = present g k || memb k (op_v o)) /\
  (forall a b, ew (app_op g o) a b =
               match o with
               | OE a0 b0 w => if present g a0 && present g b0 && Base.eqb a a0 && Base.eqb b b0
                               then Some w else ew g a b
               | _ => ew g a b
               end).
Proof.
  intros W. destruct o as [k|k p|k|a0 b0 w]; cbn [app_op op_v memb].
  - destruct (add_v_spec k W) as (W1 & Hv & He). split; [exact W1|]. split; [|exact He].
    intros k0. unfold present in *. rewrite Hv. rewrite orb_false_r.
    destruct (vtx g k) eqn:Vk; destruct (Base.eqb_spec k0 k) as [->|N]; rewrite ?Vk;
      try reflexivity; destruct (vtx g k0); reflexivity.
  - destruct (add_spec k p W) as (W1 & Hv & He). split; [exact W1|]. split; [|exact He].
    intros k0. unfold present in *. rewrite Hv. rewrite orb_false_r.
    destruct (vtx g k) eqn:Vk; destruct (Base.eqb_spec k0 k) as [->|N]; rewrite ?Vk;
      try reflexivity; destruct (vtx g k0); reflexivity.
  - destruct (overwrite_spec k PNone W) as (W1 & Hv & He). split; [exact W1|]. split; [|exact He].
    intros k0. unfold present in *. rewrite Hv. rewrite orb_false_r.
    destruct (Base.eqb_spec k0 k) as [->|N]; [rewrite orb_true_r; reflexivity|].
    destruct (vtx g k0); reflexivity.
  - destruct (add_e_spec a0 b0 w W) as (W1 & Hv & He). split; [exact W1|]. split; [|exact He].
    intros k0. unfold present. rewrite Hv. rewrite orb_false_r. reflexivity.
Qed.

(* ---------- a list of operations ---------- *)
Lemma app_ops_spec ops : forall g,
  wf_graph g ->
  wf_graph (app_ops ops g) /\
  (forall k, present (app_ops ops g) k = present g k || memb k (verts ops)) /\
  (forall a b w, ew (app_ops ops g) a b = Some w -> ew g a b = Some w \/ In (OE a b w) ops) /\
  (forall a b, ew g a b <> None -> ew (app_ops ops g) a b <> None) /\
  (wseq (fun k => present g k = true) ops ->
   forall a b w, In (OE a b w) ops -> ew (app_ops ops g) a b <> None).
Proof.
  induction ops as [|o r IH]; intros g W.
  - simpl. split; [exact W|]. split; [intros k; rewrite orb_false_r; reflexivity|].
    split; [intros a b w Q; left; exact Q|]. split; [auto|]. intros _ a b w [].
  - change (app_ops (o :: r) g) with (app_ops r (app_op g o)).
    destruct (app_op_spec o W) as (W1 & Hv1 & He1).
    destruct (IH _ W1) as (W2 & Hv2 & Hs2 & Hm2 & Hc2).
    split; [exact W2|]. split; [|split; [|split]].
    + intros k. rewrite Hv2, Hv1. change (verts (o :: r)) with (op_v o ++ verts r).
      rewrite memb_app. rewrite orb_assoc. reflexivity.
    + intros a b w Q. destruct (Hs2 _ _ _ Q) as [Q1|Q1]; [|right; right; exact Q1].
      rewrite He1 in Q1. destruct o as [k|k p|k|a0 b0 w0]; try (left; exact Q1).
      destruct (present g a0 && present g b0 && Base.eqb a a0 && Base.eqb b b0) eqn:C; [|left; exact Q1].
      apply andb_true_iff in C. destruct C as [C Cb]. apply andb_true_iff in C. destruct C as [_ Ca].
      apply veqb_true in Ca. apply veqb_true in Cb. subst a b. inversion Q1; subst w0.
      right. left. reflexivity.
    + intros a b N. apply Hm2. rewrite He1. destruct o as [k|k p|k|a0 b0 w0]; try exact N.
      destruct (present g a0 && present g b0 && Base.eqb a a0 && Base.eqb b b0); [discriminate|exact N].
    + intros Ws a b w I.
      assert (Pm : forall k0, present g k0 = true \/ In k0 (op_v o) -> present (app_op g o) k0 = true).
      { intros k0 [A|A]; rewrite Hv1; [rewrite A; reflexivity|].
        assert (M : memb k0 (op_v o) = true) by (apply membT; exact A). rewrite M. apply orb_true_r. }
      destruct o as [k|k p|k|a0 b0 w0].
      * destruct I as [I|I]; [discriminate|]. simpl in Ws. apply (Hc2 (wseq_ext _ _ _ Pm Ws) a b w I).
      * destruct I as [I|I]; [discriminate|]. simpl in Ws. apply (Hc2 (wseq_ext _ _ _ Pm Ws) a b w I).
      * destruct I as [I|I]; [discriminate|]. simpl in Ws. apply (Hc2 (wseq_ext _ _ _ Pm Ws) a b w I).
      * simpl in Ws. destruct Ws as (Pa & Pb & Ws).
        destruct I as [I|I].
        -- inversion I; subst a0 b0 w0. apply Hm2. rewrite He1. rewrite Pa, Pb, !Base.eqb_refl. discriminate.
        -- apply (Hc2 (wseq_ext _ _ _ (fun k0 A => Pm k0 (or_introl A)) Ws) a b w I).
Qed.

(* edges of a graph built from an edge-free graph by well-sequenced, weight-consistent operations *)
Definition consistent (ops : list op) : Prop :=
  forall a b w w', In (OE a b w) ops -> In (OE a b w') ops -> w = w'.

Lemma app_ops_edges ops g :
  wf_graph g -> (forall a b, ew g a b = None) ->
  wseq (fun k => present g k = true) ops -> consistent ops ->
  forall a b w, ew (app_ops ops g) a b = Some w <-> In (OE a b w) ops.
Proof.
  intros W NoE Ws Co a b w.
  destruct (app_ops_spec ops W) as (_ & _ & Hs & _ & Hc).
  split.
  - intros Q. destruct (Hs _ _ _ Q) as [Q1|Q1]; [rewrite NoE in Q1; discriminate|exact Q1].
  - intros I. pose proof (Hc Ws a b w I) as N.
    destruct (ew (app_ops ops g) a b) as [w'|] eqn:Q; [|contradiction N; reflexivity].
    destruct (Hs _ _ _ Q) as [Q1|Q1]; [rewrite NoE in Q1; discriminate|].
    rewrite (Co a b w w' I Q1). reflexivity.
Qed.

(* ---------- payloads ---------- *)
Lemma vtx_stable ops : forall g k p,
  wf_graph g -> vtx g k = Some p -> ~ In (OW k) ops -> vtx (app_ops ops g) k = Some p.
Proof.
  induction ops as [|o r IH]; intros g k p W Q NI; [exact Q|].
  change (app_ops (o :: r) g) with (app_ops r (app_op g o)).
  destruct (app_op_spec o W) as (W1 & _ & _).
  apply IH; [exact W1| |intros I; apply NI; right; exact I].
  destruct o as [k0|k0 p0|k0|a0 b0 w0]; simpl.
  - destruct (add_v_spec k0 W) as (_ & Hv & _). rewrite Hv.
    destruct (present g k0) eqn:P0; [exact Q|].
    destruct (Base.eqb_spec k k0) as [->|N]; [|exact Q].
    apply present_false in P0. congruence.
  - destruct (add_spec k0 p0 W) as (_ & Hv & _). rewrite Hv.
    destruct (vtx g k0) eqn:V0; [exact Q|].
    destruct (Base.eqb_spec k k0) as [->|N]; [congruence|exact Q].
  - destruct (overwrite_spec k0 PNone W) as (_ & Hv & _). rewrite Hv.
    destruct (Base.eqb_spec k k0) as [->|N]; [|exact Q].
    exfalso. apply NI. left. reflexivity.
  - destruct (add_e_spec a0 b0 w0 W) as (_ & Hv & _). rewrite Hv. exact Q.
Qed.

Lemma vtx_new ops g k p :
  wf_graph g -> vtx g k = None -> ~ In (OW k) ops -> vtx (app_ops (OF k p :: ops) g) k = Some p.
Proof.
  intros W Q NI. change (app_ops (OF k p :: ops) g) with (app_ops ops (g_add g k p)).
  destruct (add_spec k p W) as (W1 & Hv & _).
  apply vtx_stable; [exact W1| |exact NI]. rewrite Hv, Q, Base.eqb_refl. reflexivity.
Qed.

(* ---------- the construction steps as operation lists ---------- *)
Definition fops (c : fdecl) (io : bool) : list op :=
  let fk := KFunc (fn_type c) in
  [OF fk (PFunc c)] ++
  (match fn_in c with [] => [OE fk KRoot w_normal] | _ => [] end) ++
  flat_map (fun fld => [OV (field_key fld);
                        OE fk (field_key fld) (if String.eqb (f_name fld) EmptyString then w_typed else w_normal)])
           (fn_in c) ++
  (if io then
     flat_map (fun fld => [OV (field_out_key fld); OE (field_out_key fld) fk w_normal]) (named_entries (fn_out c)) ++
     flat_map (fun fld => [OV (field_out_key fld); OE (field_out_key fld) fk w_typed]) (typed_entries (fn_out c))
   else []).

Lemma func_graph_ops g c io : func_graph g c io = app_ops (fops c io) g.
Proof.
  unfold func_graph, fops. rewrite !app_ops_app.
  change (app_ops [OF (KFunc (fn_type c)) (PFunc c)] g) with (g_add g (KFunc (fn_type c)) (PFunc c)).
  set (g1 := g_add g (KFunc (fn_type c)) (PFunc c)).
  assert (E1 : match fn_in c with [] => add_e g1 (KFunc (fn_type c)) KRoot w_normal | _ :: _ => g1 end =
               app_ops (match fn_in c with [] => [OE (KFunc (fn_type c)) KRoot w_normal] | _ :: _ => [] end) g1).
  { destruct (fn_in c); reflexivity. }
  rewrite E1. set (g2 := app_ops _ g1).
  rewrite <- (app_ops_flat_map _ (fn_in c) g2). cbn [app_ops fold_left app_op].
  set (g3 := fold_left _ (fn_in c) g2).
  destruct io; [|reflexivity].
  rewrite app_ops_app.
  rewrite <- (app_ops_flat_map _ (named_entries (fn_out c)) g3). cbn [app_ops fold_left app_op].
  rewrite <- (app_ops_flat_map _ (typed_entries (fn_out c))). cbn [app_ops fold_left app_op].
  reflexivity.
Qed.

Definition ins_ops (ins : list (vkey * value)) : list op :=
  flat_map (fun kv => [OW (fst kv); OE (fst kv) KRoot w_normal]) ins.

Lemma inputs_ops ins g :
  fold_left (fun g kv => add_e (g_add_overwrite g (fst kv) PNone) (fst kv) KRoot w_normal) ins g =
  app_ops (ins_ops ins) g.
Proof. unfold ins_ops. rewrite <- app_ops_flat_map. reflexivity. Qed.

Lemma fold_left_ext {A B} (F G : A -> B -> A) (l : list B) :
  (forall a x, F a x = G a x) -> forall a, fold_left F l a = fold_left G l a.
Proof. intros E. induction l as [|x l IH]; intros a; simpl; [reflexivity|]. rewrite E. apply IH. Qed.

Lemma fold_left_id {A B} (F : A -> B -> A) (l : list B) (a : A) :
  (forall x, In x l -> F a x = a) -> fold_left F l a = a.
Proof.
  induction l as [|x l IH]; intros E; simpl; [reflexivity|].
  rewrite E by (left; reflexivity). apply IH. intros y I. apply E. right. exact I.
Qed.

Definition val_ops (k : vkey) : list op :=
  match k with
  | KVal n t s =>
      [OV (KOut t EmptyString); OE k (KOut t EmptyString) w_typed;
       OV (KArg t EmptyString); OE (KArg t EmptyString) k w_typed] ++
      (if String.eqb s EmptyString then [] else [OV (KArg t s); OE (KArg t s) k w_typed])
  | _ => []
  end.

Lemma step_values_ops g : step_values g = app_ops (flat_map val_ops (val_keys g)) g.
Proof.
  unfold step_values. rewrite <- app_ops_flat_map. apply fold_left_ext.
  intros a k. destruct k as [|ft|n t s|t s|t s]; try reflexivity.
  cbn. destruct (String.eqb s EmptyString); reflexivity.
Qed.

Definition arg_ops (k : vkey) : list op :=
  match k with
  | KArg t s => [OV (KOut t s); OE k (KOut t s) w_typed]
  | _ => []
  end.

Lemma step_args_ops g : step_args g = app_ops (flat_map arg_ops (arg_keys g)) g.
Proof.
  unfold step_args. rewrite <- app_ops_flat_map. apply fold_left_ext.
  intros a k. destruct k as [|ft|n t s|t s|t s]; reflexivity.
Qed.

Lemma in_val_keys g k : In k (val_keys g) <-> (exists n t s, k = KVal n t s) /\ present g k = true.
Proof.
  unfold val_keys. rewrite filter_In, in_vertex_keys, <- present_true. split.
  - intros [P Q]. split; [|exact P]. destruct k; try discriminate. eauto.
  - intros [(n & t & s & ->) P]. split; [exact P|reflexivity].
Qed.
Lemma in_arg_keys g k : In k (arg_keys g) <-> (exists t s, k = KArg t s) /\ present g k = true.
Proof.
  unfold arg_keys. rewrite filter_In, in_vertex_keys, <- present_true. split.
  - intros [P Q]. split; [|exact P]. destruct k; try discriminate. eauto.
  - intros [(t & s & ->) P]. split; [exact P|reflexivity].
Qed.
Lemma in_out_keys' g k : In k (out_keys g) <-> (exists t s, k = KOut t s) /\ present g k = true.
Proof.
  unfold out_keys. rewrite filter_In, in_vertex_keys, <- present_true. split.
  - intros [P Q]. split; [|exact P]. destruct k; try discriminate. eauto.
  - intros [(t & s & ->) P]. split; [exact P|reflexivity].
Qed.

Lemma step_ifaces_id u g :
  (forall t s, present g (KOut t s) = true -> is_iface u t = false) -> step_ifaces u g = g.
Proof.
  intros Hn. unfold step_ifaces. apply fold_left_id.
  intros k I. apply in_out_keys' in I. destruct I as [(t & s & ->) P].
  rewrite (Hn t s P). reflexivity.
Qed.

Lemma step_named_sub_id valued g :
  (forall n t s, present g (KVal n t s) = true -> s = EmptyString) -> step_named_sub valued g = g.
Proof.
  intros Hn. unfold step_named_sub. apply fold_left_id.
  intros k I. apply in_val_keys in I. destruct I as [(n & t & s & ->) P].
  destruct (String.eqb s EmptyString && negb (valued (KVal n t s))); [|reflexivity].
  apply fold_left_id. intros k2 I2. apply in_val_keys in I2. destruct I2 as [(n2 & t2 & s2 & ->) P2].
  rewrite (Hn n2 t2 s2 P2). simpl. rewrite andb_false_r. reflexivity.
Qed.

Lemma step_arg_sub_id g :
  (forall t s, present g (KArg t s) = true -> s = EmptyString) ->
  (forall t s, present g (KOut t s) = true -> s = EmptyString) -> step_arg_sub g = g.
Proof.
  intros Ha Ho. unfold step_arg_sub. apply fold_left_id.
  intros k I. apply in_arg_keys in I. destruct I as [(t & s & ->) P].
  apply fold_left_id. intros k2 I2. apply in_out_keys' in I2. destruct I2 as [(t2 & s2 & ->) P2].
  rewrite (Ha t s P), (Ho t2 s2 P2). simpl. rewrite andb_false_r. reflexivity.
Qed.

(* C05CompleteDijkstraRun.v -- the model's Dijkstra on a well-formed graph whose
   weights are bounded by 20 in absolute value (possibly negative) and which
   is small enough for the tentative distances not to wrap: the loop
   invariant (over the list of popped vertices) and the facts it yields at
   the end of the run.  Part of the proof of the contracts
   [dijkstra_small_spec] / [dijkstra_path_spec] of C05CompleteDefs. *)
From ArgMapper Require Import Base Graph GraphAlg GraphSpec.
From ArgMapper.proofs Require Import C18DijkstraLemmas C18Dijkstra C05CompleteDefs.
From Coq Require Import Lia ZArith List.
Import ListNotations.
Set Implicit Arguments.
Local Open Scope Z_scope.

Section Run.
  Context {K : Type} {E : EqDec K} {V : Type}.
  Notation graph := (graph K V).

  (* ---------- rank: position in the pop order ---------- *)
  Fixpoint rank (l : list K) (x : K) : nat :=
    match l with [] => O | y :: l => if eqb x y then O else S (rank l x) end.

  Lemma rank_le l x : (rank l x <= length l)%nat.
  Proof. induction l as [|y l IH]; simpl; [lia|]. destruct (eqb x y); lia. Qed.

  Lemma rank_in l x : In x l -> (rank l x < length l)%nat.
  Proof.
    induction l as [|y l IH]; simpl; [tauto|]. intros A.
    destruct (eqb_spec x y) as [->|Ne]; [lia|]. destruct A as [A|A]; [congruence|].
    specialize (IH A). lia.
  Qed.

  Lemma rank_notin l x : ~ In x l -> rank l x = length l.
  Proof.
    induction l as [|y l IH]; simpl; [reflexivity|]. intros A.
    destruct (eqb_spec x y) as [->|Ne]; [exfalso; apply A; left; reflexivity|].
    rewrite IH; auto.
  Qed.

  Lemma rank_lt_in l x : (rank l x < length l)%nat -> In x l.
  Proof.
    intros L. destruct (In_dec_K x l) as [A|A]; auto.
    rewrite (rank_notin _ _ A) in L. lia.
  Qed.

  Lemma rank_app_in l l2 x : In x l -> rank (l ++ l2) x = rank l x.
  Proof.
    induction l as [|y l IH]; simpl; [tauto|]. intros A.
    destruct (eqb_spec x y) as [->|Ne]; [reflexivity|]. destruct A as [A|A]; [congruence|].
    rewrite IH; auto.
  Qed.

  Lemma rank_app_notin l l2 x : ~ In x l -> rank (l ++ l2) x = (length l + rank l2 x)%nat.
  Proof.
    induction l as [|y l IH]; simpl; intros A; [reflexivity|].
    destruct (eqb_spec x y) as [->|Ne]; [exfalso; apply A; left; reflexivity|].
    rewrite IH; auto.
  Qed.

  Lemma rank_app_new l u : ~ In u l -> rank (l ++ [u]) u = length l.
  Proof.
    intros A. rewrite rank_app_notin by exact A. simpl. rewrite eqb_refl. lia.
  Qed.

  Lemma rank_app_other l u x : ~ In x l -> x <> u -> rank (l ++ [u]) x = S (length l).
  Proof.
    intros A Ne. rewrite rank_app_notin by exact A. simpl.
    destruct (eqb_spec x u); [contradiction|lia].
  Qed.

  Lemma rank_app_ge l x u : (rank l x <= rank (l ++ [u]) x)%nat.
  Proof.
    destruct (In_dec_K x l) as [A|A].
    - rewrite rank_app_in; auto.
    - rewrite (rank_notin _ _ A). rewrite rank_app_notin by exact A. lia.
  Qed.

  Lemma rank_app_lt_r l u a b : In a l -> (rank l a < rank l b)%nat ->
    (rank (l ++ [u]) a < rank (l ++ [u]) b)%nat.
  Proof.
    intros A L. rewrite (rank_app_in _ _ _ A). pose proof (rank_app_ge l b u). lia.
  Qed.

  Lemma rank_app_lt_inv l u a b : In a l -> (rank (l ++ [u]) a < rank (l ++ [u]) b)%nat ->
    (rank l a < rank l b)%nat.
  Proof.
    intros A L. rewrite (rank_app_in _ _ _ A) in L.
    destruct (In_dec_K b l) as [B|B].
    - rewrite (rank_app_in _ _ _ B) in L. exact L.
    - rewrite (rank_notin _ _ B). apply rank_in; auto.
  Qed.

  (* ---------- NoDup helpers ---------- *)
  Lemma NoDup_app_notin (l1 l2 : list K) : NoDup (l1 ++ l2) -> forall x, In x l2 -> ~ In x l1.
  Proof.
    induction l1 as [|y l1 IH]; simpl; intros ND x A; [tauto|].
    inversion ND as [|? ? Hy ND']; subst. intros [B|B].
    - subst. apply Hy. apply in_or_app; auto.
    - apply (IH ND' x A B).
  Qed.

  Lemma NoDup_app_l (l1 l2 : list K) : NoDup (l1 ++ l2) -> NoDup l1.
  Proof.
    induction l1 as [|y l1 IH]; simpl; intros ND; [constructor|].
    inversion ND as [|? ? Hy ND']; subst. constructor; auto.
    intros A. apply Hy. apply in_or_app; auto.
  Qed.

  Lemma NoDup_move (l1 l2 : list K) u : NoDup (l1 ++ l2) -> In u l2 ->
    NoDup ((l1 ++ [u]) ++ remove1 u l2).
  Proof.
    intros ND A. rewrite <- app_assoc. simpl.
    pose proof (NoDup_app_r _ _ ND) as ND2. pose proof (NoDup_app_l _ _ ND) as ND1.
    pose proof (NoDup_app_notin _ _ ND) as Dis.
    induction l1 as [|y l1 IH]; simpl.
    - constructor.
      + intros B. apply remove1_In_NoDup in B; auto. tauto.
      + apply remove1_NoDup; auto.
    - simpl in ND. inversion ND as [|? ? Hy ND']; subst.
      constructor.
      + intros B. apply in_app_or in B. destruct B as [B|[B|B]].
        * apply Hy. apply in_or_app; auto.
        * subst y. apply (Dis u A). left; auto.
        * apply remove1_In_NoDup in B; auto. apply Hy. apply in_or_app; tauto.
      + apply IH; auto.
        * inversion ND1; auto.
        * intros x Ax Bx. apply (Dis x Ax). right; auto.
  Qed.

  (* ---------- rank versus [before] ---------- *)
  Lemma rank_before l a b : In b l -> (rank l a < rank l b)%nat -> before l a b.
  Proof.
    induction l as [|y l IH]; simpl; [tauto|]. intros Ib.
    destruct (eqb_spec a y) as [->|Na]; destruct (eqb_spec b y) as [->|Nb]; intros L; try lia.
    - destruct Ib as [Ib|Ib]; [congruence|].
      destruct (in_split _ _ Ib) as (l2 & l3 & ->).
      exists [], l2, l3. reflexivity.
    - destruct Ib as [Ib|Ib]; [congruence|].
      destruct (IH Ib) as (l1 & l2 & l3 & ->); [lia|].
      exists (y :: l1), l2, l3. reflexivity.
  Qed.

  Lemma before_rank l a b : NoDup l -> before l a b ->
    In a l /\ In b l /\ (rank l a < rank l b)%nat.
  Proof.
    intros ND (l1 & l2 & l3 & ->).
    assert (Ib : In b (a :: l2 ++ b :: l3)) by (right; apply in_or_app; right; left; reflexivity).
    pose proof (NoDup_app_notin _ _ ND) as Dis.
    assert (Na1 : ~ In a l1) by (apply Dis; left; reflexivity).
    assert (Nb1 : ~ In b l1) by (apply Dis; exact Ib).
    assert (Nab : b <> a).
    { pose proof (NoDup_app_r _ _ ND) as ND2. inversion ND2 as [|? ? Ha _]; subst.
      intros ->. apply Ha. apply in_or_app; right; left; reflexivity. }
    split; [apply in_or_app; right; left; reflexivity|].
    split; [apply in_or_app; right; exact Ib|].
    rewrite !rank_app_notin by assumption. simpl. rewrite eqb_refl.
    destruct (eqb_spec b a); [contradiction|lia].
  Qed.

  (* ---------- small facts ---------- *)
  Lemma wrap64_id2 z : - INF <= z -> z <= INF -> wrap64 z = z.
  Proof. unfold wrap64, INF. intros A B. rewrite Z.mod_small; lia. Qed.

  Lemma getd_lookup (d : amap K Z) (x : K) (dx : Z) : lookup x d = Some dx -> getd d x = dx.
  Proof. unfold getd. intros ->. reflexivity. Qed.

  Lemma getd_init (src x : K) ks :
    getd (insert src 0 (map (fun k => (k, INF)) ks)) x = if eqb x src then 0 else INF.
  Proof.
    unfold getd. rewrite dist0_lookup. destruct (eqb x src); [reflexivity|].
    destruct (memb x ks); reflexivity.
  Qed.

  Lemma inner_edge (g : graph) u x w : wf_graph g -> In (x, w) (inner (gout g) u) -> edge g u x w.
  Proof.
    intros WF A. unfold edge. unfold inner in *.
    destruct (lookup u (gout g)) as [i|] eqn:Q; [|destruct A].
    apply In_lookup; auto. apply (wf_inner_out_nodup WF _ Q).
  Qed.

  Lemma reach_refl (g : graph) a : vertex g a -> reach g a a.
  Proof. intros Va. exists [a], 0. constructor. exact Va. Qed.

  Lemma reach_snoc (g : graph) a b c w : wf_graph g -> reach g a b -> edge g b c w -> reach g a c.
  Proof.
    intros WF (p & w0 & W) Ed. exists (p ++ [c]), (w0 + w).
    eapply walk_snoc; eauto. apply (edge_vertices WF Ed).
  Qed.

  (* ---------- what one pop does (in terms of getd) ---------- *)
  Definition srel (g : graph) (st st' : @dstate K) (u : K) : Prop :=
    unvis st' = remove1 u (unvis st) /\
    (forall v, vertex g v -> exists dv, lookup v (dist st') = Some dv) /\
    (forall x,
       (getd (dist st') x = getd (dist st) x /\ lookup x (prev st') = lookup x (prev st)) \/
       (In x (unvis st') /\ getd (dist st) u <> INF /\
        exists w, edge g u x w /\ wrap64 (getd (dist st) u + w) < getd (dist st) x /\
                  getd (dist st') x = wrap64 (getd (dist st) u + w) /\
                  lookup x (prev st') = Some u)) /\
    (getd (dist st) u <> INF -> forall v w, edge g u v w -> In v (unvis st') ->
       getd (dist st') v <= wrap64 (getd (dist st) u + w)).

  Lemma dstep_srel (g : graph) st u :
    wf_graph g -> (forall v, vertex g v -> exists dv, lookup v (dist st) = Some dv) ->
    is_min st u = true ->
    exists st', dstep g st u = Ok st' /\ srel g st st' u.
  Proof.
    intros WF Tot Hm. unfold dstep. rewrite Hm. cbv zeta.
    destruct (getd (dist st) u =? INF) eqn:Einf.
    - apply Z.eqb_eq in Einf. eexists; split; [reflexivity|].
      split; [reflexivity|]. split; [exact Tot|]. split.
      + intros x. left. split; reflexivity.
      + intros N. contradiction.
    - apply Z.eqb_neq in Einf.
      destruct (relax_fold u (getd (dist st) u) (inner (gout g) u)
                           (mkD (remove1 u (unvis st)) (dist st) (prev st))) as (st' & Fold & Sp).
      { intros v w A. simpl. apply Tot. apply (edge_vertices WF (inner_edge _ _ _ WF A)). }
      exists st'. split; [exact Fold|].
      pose proof (upd_mono Sp) as Mono.
      destruct Sp as (Uv & Ch & Rl). cbn [unvis dist prev] in Uv, Ch, Rl, Mono.
      split; [exact Uv|]. split; [|split].
      + intros v Vv. destruct (Tot v Vv) as (dv & Q).
        destruct (Mono v dv Q) as (dv' & Q' & _). eauto.
      + intros x. destruct (Ch x) as [[A B]|(Ix & w & dx & A & Q & Lt & Qn & Pn)].
        * left. split; [|exact B]. unfold getd. rewrite A. reflexivity.
        * right. rewrite Uv. split; [exact Ix|]. split; [exact Einf|].
          exists w. split; [apply inner_edge; auto|].
          rewrite (getd_lookup _ _ Q), (getd_lookup _ _ Qn). auto.
      + intros _ v w Ed Iv. rewrite Uv in Iv.
        assert (A : In (v, w) (inner (gout g) u)) by (apply lookup_In; exact Ed).
        destruct (Rl v w A Iv) as (dv' & Q' & Le). rewrite (getd_lookup _ _ Q'). exact Le.
  Qed.

  (* ---------- the invariant ---------- *)
  Section Inv.
    Variable g : graph.
    Variable src : K.
    Hypothesis WF : wf_graph g.
    Hypothesis Vsrc : vertex g src.
    Hypothesis WB : wbound g 20.
    Hypothesis Small : 20 * (Z.of_nat (length (g_vertex_keys g)) + 1) < INF.

    Record DInv (st : @dstate K) (popped : list K) : Prop := {
      di_nodup : NoDup (popped ++ unvis st);
      di_all : forall x, In x (popped ++ unvis st) <-> vertex g x;
      di_total : forall v, vertex g v -> exists dv, lookup v (dist st) = Some dv;
      di_range : forall v, getd (dist st) v = INF \/
                   - 20 * Z.of_nat (length popped) <= getd (dist st) v <= 20 * Z.of_nat (length popped);
      di_src_prev : lookup src (prev st) = None;
      di_src_fin : getd (dist st) src <> INF;
      di_first : popped = [] -> forall v, v <> src -> getd (dist st) v = INF;
      di_src_popped : popped <> [] -> In src popped;
      di_prev : forall v u, lookup v (prev st) = Some u ->
                  In u popped /\ (rank popped u < rank popped v)%nat /\
                  getd (dist st) v <> INF /\
                  exists w, edge g u v w /\ getd (dist st) v = getd (dist st) u + w /\
                            getd (dist st) u <> INF;
      di_relaxed : forall a c w, edge g a c w -> In a popped ->
                  (rank popped a < rank popped c)%nat -> getd (dist st) a <> INF ->
                  getd (dist st) c <= getd (dist st) a + w;
      di_infs : forall x y, In x popped -> getd (dist st) x = INF -> In y (unvis st) ->
                  getd (dist st) y = INF;
      di_closed : forall a c w, edge g a c w -> In a popped -> getd (dist st) a <> INF ->
                  getd (dist st) c <> INF;
      di_hasprev : forall v, getd (dist st) v <> INF -> v <> src ->
                  exists u, lookup v (prev st) = Some u;
      di_reach : forall v, getd (dist st) v <> INF -> reach g src v
    }.

    Lemma DInv_init :
      exists st0, dinit g src = Ok st0 /\ DInv st0 [].
    Proof.
      unfold dinit.
      assert (M : memb src (g_vertex_keys g) = true) by (apply memb_In; exact Vsrc).
      rewrite M. eexists; split; [reflexivity|].
      constructor; cbn [unvis dist prev app length].
      - apply (wf_hash_nodup WF).
      - intros x. reflexivity.
      - intros v Vv. rewrite dist0_lookup. destruct (eqb v src); eauto.
        assert (M' : memb v (g_vertex_keys g) = true) by (apply memb_In; exact Vv).
        rewrite M'. eauto.
      - intros v. rewrite getd_init. destruct (eqb v src); [right; simpl; lia|left; reflexivity].
      - reflexivity.
      - rewrite getd_init, eqb_refl. unfold INF; lia.
      - intros _ v Ne. rewrite getd_init. destruct (eqb_spec v src); [contradiction|reflexivity].
      - intros N. contradiction N; reflexivity.
      - intros v u Q. discriminate.
      - intros a c w _ [].
      - intros x y [].
      - intros a c w _ [].
      - intros v Fv Ne. rewrite getd_init in Fv.
        destruct (eqb_spec v src); [contradiction|]. contradiction Fv; reflexivity.
      - intros v Fv. rewrite getd_init in Fv.
        destruct (eqb_spec v src) as [Q|Q]; [|contradiction Fv; reflexivity].
        rewrite Q. apply reach_refl; exact Vsrc.
    Qed.

    Lemma DInv_step st st' popped u :
      DInv st popped -> is_min st u = true -> srel g st st' u -> DInv st' (popped ++ [u]).
    Proof.
      intros I Hm (Uv & Tot' & Ch & Rl).
      destruct I as [ND All Tot Rng SrcP SrcF First SrcPop Pv Rel Infs Clo HasP Rch].
      unfold is_min in Hm. apply andb_true_iff in Hm. destruct Hm as [Hu Hmin].
      apply memb_In in Hu. rewrite forallb_forall in Hmin.
      assert (Min : forall x, In x (unvis st) -> getd (dist st) u <= getd (dist st) x).
      { intros x A. apply Z.leb_le. apply Hmin; auto. }
      clear Hmin.
      assert (Nu : ~ In u popped) by (apply (NoDup_app_notin _ _ ND); auto).
      pose proof (NoDup_app_r _ _ ND) as ND2.
      assert (InU' : forall x, In x (unvis st') <-> In x (unvis st) /\ x <> u).
      { intros x. rewrite Uv. apply remove1_In_NoDup; auto. }
      assert (ND' : NoDup ((popped ++ [u]) ++ unvis st')).
      { rewrite Uv. apply NoDup_move; auto. }
      assert (All' : forall x, In x ((popped ++ [u]) ++ unvis st') <-> vertex g x).
      { intros x. rewrite <- All. rewrite !in_app_iff, InU'. simpl.
        destruct (eq_dec_K x u) as [->|Ne]; intuition (subst; auto; congruence). }
      assert (Frozen : forall x, In x (popped ++ [u]) ->
                getd (dist st') x = getd (dist st) x /\ lookup x (prev st') = lookup x (prev st)).
      { intros x A. destruct (Ch x) as [L|(Ix & _)]; auto.
        exfalso. apply (NoDup_app_notin _ _ ND' x Ix A). }
      assert (Klen : Z.of_nat (length popped) + 1 <= Z.of_nat (length (g_vertex_keys g))).
      { assert (Inc : incl (popped ++ unvis st) (g_vertex_keys g)).
        { intros x A. apply All; exact A. }
        pose proof (NoDup_incl_length ND Inc) as L. rewrite app_length in L.
        pose proof (remove1_length u (unvis st) Hu). lia. }
      assert (Kq : Z.of_nat (length (popped ++ [u])) = Z.of_nat (length popped) + 1).
      { rewrite app_length. simpl. lia. }
      assert (Wr : getd (dist st) u <> INF -> forall x w, edge g u x w ->
                wrap64 (getd (dist st) u + w) = getd (dist st) u + w /\
                - 20 * (Z.of_nat (length popped) + 1) <= getd (dist st) u + w
                  <= 20 * (Z.of_nat (length popped) + 1)).
      { intros Fu x w Ed. pose proof (WB Ed) as Bw.
        destruct (Rng u) as [Ri|Ri]; [contradiction|].
        split; [apply wrap64_id2; lia|lia]. }
      assert (UnchInf : getd (dist st) u = INF -> forall x,
                getd (dist st') x = getd (dist st) x /\ lookup x (prev st') = lookup x (prev st)).
      { intros Ei x. destruct (Ch x) as [L|(_ & Fu & _)]; auto. contradiction. }
      assert (Mono : forall x, getd (dist st') x <= getd (dist st) x).
      { intros x. destruct (Ch x) as [[A _]|(_ & _ & w & _ & Lt & Qn & _)]; lia. }
      assert (FinStay : forall x, getd (dist st) x <> INF -> getd (dist st') x <> INF).
      { intros x Fx. pose proof (Mono x). destruct (Rng x) as [Ri|Ri]; [contradiction|]. lia. }
      assert (SrcIn : In src (popped ++ [u])).
      { destruct popped as [|p0 popped0] eqn:Ep.
        - destruct (eq_dec_K u src) as [->|Ne]; [left; reflexivity|].
          exfalso. pose proof (First eq_refl u Ne) as Iu.
          assert (Is : In src (unvis st)).
          { assert (A : In src ([] ++ unvis st)) by (apply All; exact Vsrc). exact A. }
          pose proof (Min src Is) as Le.
          destruct (Rng src) as [Ri|Ri]; [contradiction|]. simpl in Ri. lia.
        - apply in_or_app. left. apply SrcPop. discriminate. }
      constructor.
      - exact ND'.
      - exact All'.
      - exact Tot'.
      - (* range *)
        intros x. rewrite Kq.
        destruct (Ch x) as [[A _]|(_ & Fu & w & Ed & _ & Qn & _)].
        + rewrite A. destruct (Rng x) as [Ri|Ri]; [left; exact Ri|right; lia].
        + right. destruct (Wr Fu x w Ed) as [Wq Bd]. rewrite Qn, Wq. lia.
      - destruct (Frozen src SrcIn) as [_ B]. rewrite B. exact SrcP.
      - destruct (Frozen src SrcIn) as [A _]. rewrite A. exact SrcF.
      - intros C. destruct popped; discriminate C.
      - intros _. exact SrcIn.
      - (* prev *)
        intros v a Qp.
        destruct (Ch v) as [[A B]|(Iv & Fu & w & Ed & _ & Qn & Pn)].
        + rewrite B in Qp. destruct (Pv _ _ Qp) as (Ia & Rk & Fv & w & Ed & Dq & Fa).
          assert (Ia' : In a (popped ++ [u])) by (apply in_or_app; auto).
          destruct (Frozen a Ia') as [Aa _].
          split; [exact Ia'|]. split; [apply rank_app_lt_r; auto|].
          rewrite A, Aa. split; [exact Fv|]. exists w. auto.
        + rewrite Pn in Qp. inversion Qp; subst a.
          assert (Iu' : In u (popped ++ [u])) by (apply in_or_app; right; left; reflexivity).
          destruct (Frozen u Iu') as [Au _].
          apply InU' in Iv. destruct Iv as [Iv Nvu].
          assert (Nv : ~ In v popped) by (apply (NoDup_app_notin _ _ ND); auto).
          destruct (Wr Fu v w Ed) as [Wq Bd].
          split; [exact Iu'|]. split.
          * rewrite rank_app_new; auto. rewrite rank_app_other; auto.
          * rewrite Qn, Wq, Au. split; [lia|]. exists w. auto.
      - (* relaxed *)
        intros a c w Ed Ia Rk Fa.
        destruct (Frozen a Ia) as [Aa _]. rewrite Aa in Fa |- *.
        apply in_app_or in Ia. destruct Ia as [Ia|[Ia|[]]].
        + apply rank_app_lt_inv in Rk; auto.
          pose proof (Rel a c w Ed Ia Rk Fa). pose proof (Mono c). lia.
        + subst a. rewrite rank_app_new in Rk by exact Nu.
          assert (Nc : ~ In c popped).
          { intros C. rewrite (rank_app_in _ [u] _ C) in Rk. pose proof (rank_in _ _ C). lia. }
          assert (Ncu : c <> u).
          { intros ->. rewrite rank_app_new in Rk by exact Nu. lia. }
          assert (Ic : In c (unvis st')).
          { apply InU'. split; [|exact Ncu].
            assert (Vc : vertex g c) by apply (edge_vertices WF Ed).
            apply All in Vc. apply in_app_or in Vc. destruct Vc; [contradiction|assumption]. }
          destruct (Wr Fa c w Ed) as [Wq _].
          pose proof (Rl Fa c w Ed Ic) as Le. rewrite Wq in Le. exact Le.
      - (* infs *)
        intros x y Ix Ex Iy.
        destruct (Frozen x Ix) as [Ax _]. rewrite Ax in Ex.
        apply InU' in Iy. destruct Iy as [Iy Nyu].
        assert (Eu : getd (dist st) u = INF).
        { apply in_app_or in Ix. destruct Ix as [Ix|[Ix|[]]].
          - apply (Infs x u Ix Ex Hu).
          - subst x. exact Ex. }
        destruct (UnchInf Eu y) as [Ay _]. rewrite Ay.
        pose proof (Min y Iy) as Le. destruct (Rng y) as [Ri|Ri]; [exact Ri|]. lia.
      - (* closed *)
        intros a c w Ed Ia Fa.
        destruct (Frozen a Ia) as [Aa _]. rewrite Aa in Fa.
        apply in_app_or in Ia. destruct Ia as [Ia|[Ia|[]]].
        + apply FinStay. apply (Clo a c w Ed Ia Fa).
        + subst a.
          assert (Vc : vertex g c) by apply (edge_vertices WF Ed).
          destruct (In_dec_K c (unvis st')) as [Ic|Nc].
          * destruct (Wr Fa c w Ed) as [Wq Bd].
            pose proof (Rl Fa c w Ed Ic) as Le. rewrite Wq in Le. lia.
          * apply FinStay.
            apply All in Vc. apply in_app_or in Vc. destruct Vc as [Ic|Ic].
            -- intros Ec. apply Fa. apply (Infs c u Ic Ec Hu).
            -- destruct (eq_dec_K c u) as [->|Ncu]; [exact Fa|].
               exfalso. apply Nc. apply InU'. auto.
      - (* hasprev *)
        intros v Fv Ne.
        destruct (Ch v) as [[A B]|(_ & _ & w & _ & _ & _ & Pn)].
        + rewrite A in Fv. rewrite B. apply HasP; auto.
        + eauto.
      - (* reach *)
        intros v Fv.
        destruct (Ch v) as [[A B]|(_ & Fu & w & Ed & _ & _ & _)].
        + rewrite A in Fv. apply Rch; auto.
        + apply reach_snoc with (b := u) (w := w); auto.
    Qed.

    (* ---------- the loop ---------- *)
    Lemma dloop_DInv : forall pops st popped, DInv st popped ->
      (exists st' popped', dloop g st pops = Ok st' /\ DInv st' popped' /\ unvis st' = []) \/
      dloop g st pops = TapeErr SITE_POP.
    Proof.
      induction pops as [|u pops IH]; intros st popped I; cbn [dloop].
      - destruct (unvis st) eqn:Q; [left; eauto|right; reflexivity].
      - destruct (is_min st u) eqn:M.
        + destruct (@dstep_srel g st u WF (di_total I) M) as (st1 & S1 & R1).
          rewrite S1. cbn [bind]. apply (IH st1 (popped ++ [u])).
          apply DInv_step with (st := st); auto.
        + right. unfold dstep. rewrite M. reflexivity.
    Qed.

    (* ---------- the facts at the end ---------- *)
    Definition finite_reach (d : amap K Z) : Prop := forall v, getd d v <> INF -> reach g src v.

    Lemma DInv_facts st popped :
      DInv st popped -> unvis st = [] ->
      dijkstra_facts g src (dist st) (prev st) popped /\ finite_reach (dist st).
    Proof.
      intros I U.
      destruct I as [ND All Tot Rng SrcP SrcF First SrcPop Pv Rel Infs Clo HasP Rch].
      rewrite U, app_nil_r in ND.
      assert (All0 : forall x, In x popped <-> vertex g x).
      { intros x. rewrite <- All, U, app_nil_r. reflexivity. }
      assert (Fin : forall a c p w, walk g a c p w -> getd (dist st) a <> INF ->
                                    getd (dist st) c <> INF).
      { intros a c p w W. induction W as [a Va|a b c p w1 w2 Ed W IH]; intros Fa; auto.
        apply IH. apply (Clo a b w1 Ed); auto. apply All0. apply (edge_vertices WF Ed). }
      split; [|exact Rch].
      split; [exact ND|]. split; [exact All0|]. split; [exact SrcP|].
      split; [|split; [|split]].
      - intros v u Q. destruct (Pv _ _ Q) as (Iu & Rk & Fv & w & Ed & Dq & Fu).
        split; [|exists w; auto].
        apply rank_before; auto. apply All0. apply (edge_vertices WF Ed).
      - intros a c w Ed Bf Fa.
        destruct (before_rank ND Bf) as (Ia & Ic & Rk). apply Rel; auto.
      - intros v (p & w & W) Ne. apply HasP; auto. apply (Fin _ _ _ _ W SrcF).
      - intros v u Q. destruct (Pv _ _ Q) as (_ & _ & Fv & _). apply Rch; exact Fv.
    Qed.

    Lemma take_pops_cases n (t : tape K) :
      (exists pops t', take_pops n t = Ok (pops, t')) \/ take_pops n t = TapeErr SITE_POP.
    Proof.
      revert t. induction n as [|n IH]; intros t; cbn [take_pops].
      - left. eauto.
      - destruct (take_site SITE_POP t) as [[[|u [|u2 us]] t1]|]; auto.
        destruct (IH t1) as [(pops & t2 & Q)|Q]; rewrite Q; cbn [bind]; eauto.
    Qed.

    Theorem dijkstra_small_run (t : tape K) :
      (exists s, dijkstra_t g src t = TapeErr s) \/
      (exists d p t' ord, dijkstra_t g src t = Ok (d, p, t') /\
                          dijkstra_facts g src d p ord /\ finite_reach d).
    Proof.
      unfold dijkstra_t.
      destruct (take_pops_cases (length (g_vertex_keys g)) t) as [(pops & t1 & Q)|Q];
        rewrite Q; cbn [bind]; [|left; eauto].
      unfold dijkstra.
      destruct DInv_init as (st0 & D0 & I0). rewrite D0. cbn [bind].
      destruct (dloop_DInv pops I0) as [(st' & popped' & DL & I' & U')|DL]; rewrite DL; cbn [bind].
      - right. exists (dist st'), (prev st'), t1, popped'. split; [reflexivity|].
        apply DInv_facts; auto.
      - left. eauto.
    Qed.
  End Inv.
End Run.

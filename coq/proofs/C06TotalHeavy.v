(* C06TotalHeavy.v -- the main induction of the C06 totality proof: on a
   call graph satisfying [GOK], from a well-typed state, [reach] returns
   [Ok] or [TapeErr]: no panic (400: values are assignable; 401/402/403:
   value sets cover the in-edges; 404: every walked path ends in a value),
   no exhausted fuel. *)
From ArgMapper Require Import Base Graph GraphAlg GraphSpec GraphStatements Types Args GenWeights Resolver
     ResolverSpec CheckResolver Monitors ResolverStatements.
From ArgMapper.proofs Require Import C18DijkstraLemmas C18Dijkstra C19RefineMap C19RefineGraph
     C06TotalDijkstra C06TotalBase C06TotalLight C06TotalSpec.
From Coq Require Import Lia ZArith List.
Import ListNotations.
Set Implicit Arguments.
Local Open Scope Z_scope.
Local Open Scope list_scope.

(* ---------- value-set lookups ---------- *)
Lemma last_named_res n : forall l i acc,
  (last_named n l i acc = acc /\
   forall fld, In fld l -> ~ (f_name fld <> EmptyString /\ f_name fld = n)) \/
  (exists j fld0, last_named n l i acc = Some ((i + j)%nat, fld0) /\ nth_error l j = Some fld0 /\
                  f_name fld0 = n /\ n <> EmptyString).
Proof.
  induction l as [|f l IH]; intros i acc; simpl.
  - left. split; [reflexivity|]. intros fld [].
  - destruct (IH (S i) (if negb (String.eqb (f_name f) "") && String.eqb (f_name f) n then Some (i, f) else acc))
      as [[Q N]|(j & fld0 & Q & Nth & Nm & Ne)].
    + destruct (negb (String.eqb (f_name f) "") && String.eqb (f_name f) n) eqn:C.
      * right. exists O, f. rewrite Q. apply andb_true_iff in C. destruct C as [C1 C2].
        apply negb_true_iff in C1. apply String.eqb_neq in C1. apply String.eqb_eq in C2.
        rewrite Nat.add_0_r. repeat split; auto. congruence.
      * left. split; [exact Q|]. intros fld [<-|A]; [|apply N; exact A].
        intros [A1 A2]. apply andb_false_iff in C. destruct C as [C|C].
        -- apply negb_false_iff in C. apply String.eqb_eq in C. contradiction.
        -- apply String.eqb_neq in C. contradiction.
    + right. exists (S j), fld0. rewrite Q. replace (i + S j)%nat with (S i + j)%nat by lia. auto.
Qed.

Lemma last_typed_res t : forall l i acc,
  (last_typed t l i acc = acc /\
   forall fld, In fld l -> ~ (f_name fld = EmptyString /\ f_ty fld = t)) \/
  (exists j fld0, last_typed t l i acc = Some ((i + j)%nat, fld0) /\ nth_error l j = Some fld0 /\
                  f_name fld0 = EmptyString /\ f_ty fld0 = t).
Proof.
  induction l as [|f l IH]; intros i acc; simpl.
  - left. split; [reflexivity|]. intros fld [].
  - destruct (IH (S i) (if String.eqb (f_name f) "" && (f_ty f =? t) then Some (i, f) else acc))
      as [[Q N]|(j & fld0 & Q & Nth & Nm & Ne)].
    + destruct (String.eqb (f_name f) "" && (f_ty f =? t)) eqn:C.
      * right. exists O, f. rewrite Q. apply andb_true_iff in C. destruct C as [C1 C2].
        apply String.eqb_eq in C1. apply Z.eqb_eq in C2.
        rewrite Nat.add_0_r. repeat split; auto.
      * left. split; [exact Q|]. intros fld [<-|A]; [|apply N; exact A].
        intros [A1 A2]. apply andb_false_iff in C. destruct C as [C|C].
        -- apply String.eqb_neq in C. contradiction.
        -- apply Z.eqb_neq in C. contradiction.
    + right. exists (S j), fld0. rewrite Q. replace (i + S j)%nat with (S i + j)%nat by lia. auto.
Qed.

Definition names_of (fs : list field) : list string :=
  flat_map (fun f => if is_empty (f_name f) then [] else [f_name f]) fs.

Lemma named_unique fs :
  nodupb (names_of fs) = true ->
  forall a b, In a fs -> In b fs -> f_name a = f_name b -> f_name a <> EmptyString -> a = b.
Proof.
  assert (InN : forall fs a, In a fs -> f_name a <> EmptyString -> In (f_name a) (names_of fs)).
  { clear. induction fs as [|x fs IH]; intros a A Ne; [destruct A|]. destruct A as [->|A]; simpl.
    - unfold is_empty. destruct (Base.eqb_spec (f_name a) EmptyString); [contradiction|]. left; reflexivity.
    - apply in_or_app. right. apply IH; auto. }
  induction fs as [|x fs IH]; intros ND a b Ia Ib En Ne; [destruct Ia|].
  unfold names_of in ND. simpl in ND. fold (names_of fs) in ND.
  assert (NDfs : nodupb (names_of fs) = true).
  { destruct (is_empty (f_name x)); simpl in ND; auto. apply andb_true_iff in ND. tauto. }
  assert (Hx : forall c, In c fs -> f_name c = f_name x -> f_name c <> EmptyString -> False).
  { intros c Ic Ec Nc. unfold is_empty in ND.
    destruct (Base.eqb_spec (f_name x) EmptyString) as [Ex|Nx]; [congruence|].
    simpl in ND. apply andb_true_iff in ND. destruct ND as [ND _]. apply negb_true_iff in ND.
    apply memb_false in ND. apply ND. rewrite <- Ec. apply InN; auto. }
  destruct Ia as [<-|Ia], Ib as [<-|Ib]; auto.
  - exfalso. apply (Hx b Ib); congruence.
  - exfalso. apply (Hx a Ia); congruence.
Qed.

Lemma in_sig_of fs n t s :
  In (n, t, s) (sig_of fs) -> exists fld, In fld fs /\ f_name fld = n /\ f_ty fld = t /\ f_sub fld = s.
Proof.
  unfold sig_of. intros A. apply in_map_iff in A. destruct A as (fld & Q & A). inversion Q; subst. eauto.
Qed.

Lemma sig_of_in fs fld : In fld fs -> In (f_name fld, f_ty fld, f_sub fld) (sig_of fs).
Proof. intros A. unfold sig_of. apply in_map_iff. exists fld. auto. Qed.

Lemma sig_of_tys fs gs : sig_of fs = sig_of gs -> map f_ty fs = map f_ty gs.
Proof.
  revert gs; induction fs as [|x fs IH]; intros [|y gs]; simpl; intros Q; try discriminate; auto.
  inversion Q. f_equal; auto.
Qed.

(* interface hops compose *)
Lemma assignable_trans u x a b :
  u_transitive u -> assignable u x a = true -> implements u a b = true -> assignable u x b = true.
Proof.
  intros Tr A Im. unfold assignable in *. apply orb_true_iff in A. apply orb_true_iff. right.
  destruct A as [A|A].
  - apply Z.eqb_eq in A. subst. exact Im.
  - eapply Tr; eauto.
Qed.

Lemma assignable_refl u t : assignable u t t = true.
Proof. unfold assignable. rewrite Z.eqb_refl. reflexivity. Qed.

Section Heavy.
  Variable u : universe.
  Variable behave : behaviour.
  Variable g : rgraph.
  Variable rd : bool.
  Variable F : list fdecl.
  Variable inkeys : list vkey.
  Hypothesis Utrans : u_transitive u.
  Hypothesis WFF : wf_funcs F = true.
  Hypothesis G : GOK u F inkeys rd g.

  Let Gf : FOK u F inkeys rd g := gk_fok G.
  Let WF : wf_graph g := f_wf Gf.

  (* ---------- what wf_funcs gives ---------- *)
  Lemma same_type_sig f1 f2 : In f1 F -> In f2 F -> fn_type f1 = fn_type f2 ->
    sig_of (fn_out f1) = sig_of (fn_out f2).
  Proof.
    intros I1 I2 Et. pose proof WFF as W. unfold wf_funcs in W. apply andb_true_iff in W. destruct W as [W12 _].
    apply andb_true_iff in W12. destruct W12 as [_ W2].
    rewrite forallb_forall in W2. specialize (W2 _ I1). rewrite forallb_forall in W2. specialize (W2 _ I2).
    rewrite Et, Z.eqb_refl in W2. unfold same_sig in W2.
    apply andb_true_iff in W2. destruct W2 as [W2 _]. apply andb_true_iff in W2. destruct W2 as [_ W2].
    apply (proj1 (Base.eqb_eq _ _)) in W2. exact W2.
  Qed.

  Lemma same_id_type f1 f2 : In f1 F -> In f2 F -> fn_id f1 = fn_id f2 -> fn_type f1 = fn_type f2.
  Proof.
    intros I1 I2 Ei. pose proof WFF as W. unfold wf_funcs in W. apply andb_true_iff in W. destruct W as [_ W3].
    rewrite forallb_forall in W3. specialize (W3 _ I1). rewrite forallb_forall in W3. specialize (W3 _ I2).
    rewrite Ei, Z.eqb_refl in W3. apply andb_true_iff in W3. destruct W3 as [W3 _].
    apply Z.eqb_eq in W3. exact W3.
  Qed.

  Lemma wf_out_names f : In f F -> nodupb (names_of (fn_out f)) = true.
  Proof.
    intros I1. pose proof WFF as W. unfold wf_funcs in W. apply andb_true_iff in W. destruct W as [W12 _].
    apply andb_true_iff in W12. destruct W12 as [W1 _].
    rewrite forallb_forall in W1. specialize (W1 _ I1). unfold wf_fn in W1.
    apply andb_true_iff in W1. destruct W1 as [W1 _]. apply andb_true_iff in W1. destruct W1 as [_ W1].
    unfold wf_fields in W1. apply andb_true_iff in W1. destruct W1 as [W1 _]. exact W1.
  Qed.

  (* the value sets of the function on a vertex know every in-edge of the vertex *)
  Lemma out_edge_lookup f0 a :
    In f0 F -> out_edge F a (fn_type f0) ->
    match a with
    | KVal n t s => exists i fld0, last_named n (fn_out f0) 0 None = Some (i, fld0) /\
                                   nth_error (fn_out f0) i = Some fld0 /\ f_ty fld0 = t
    | KOut t s => exists i fld0, last_typed t (fn_out f0) 0 None = Some (i, fld0) /\
                                 nth_error (fn_out f0) i = Some fld0 /\ f_ty fld0 = t
    | _ => False
    end.
  Proof.
    intros I0 (f & fld & If & Et & Ifld & Ek).
    pose proof (same_type_sig _ _ I0 If (eq_sym Et)) as Sig.
    pose proof (sig_of_in _ _ Ifld) as Isig. rewrite <- Sig in Isig.
    apply in_sig_of in Isig. destruct Isig as (fld1 & I1 & N1 & T1 & S1).
    unfold field_out_key in Ek.
    destruct (String.eqb (f_name fld) "") eqn:En; subst a.
    - apply String.eqb_eq in En.
      destruct (last_typed_res (f_ty fld) (fn_out f0) 0 None) as [[_ N]|(j & fld0 & Q & Nth & Nm & Ty)].
      + exfalso. apply (N fld1 I1). split; congruence.
      + exists j, fld0. simpl in Q. auto.
    - apply String.eqb_neq in En.
      destruct (last_named_res (f_name fld) (fn_out f0) 0 None) as [[_ N]|(j & fld0 & Q & Nth & Nm & Ne)].
      + exfalso. apply (N fld1 I1). split; congruence.
      + exists j, fld0. simpl in Q. split; [exact Q|]. split; [exact Nth|].
        assert (fld0 = fld1); [|congruence].
        apply (named_unique (fn_out f0)); auto.
        * apply wf_out_names; auto.
        * eapply nth_error_In; eauto.
        * congruence.
        * congruence.
  Qed.

  (* ---------- the state invariant ---------- *)
  Record SOK (s : rstate) : Prop := {
    so_vals : forall k v, lookup k (s_vals s) = Some v -> val_ok u k v;
    so_world : forall fid r f, lookup fid (s_world s) = Some r -> In f F -> fn_id f = fid ->
                 map v_ty (r_fields r) = map f_ty (fn_out f) /\ r_builderr r = false;
    so_in : forall k, In k inkeys -> mem k (s_vals s) = true }.

  Definition mono (s s' : rstate) : Prop := forall k, mem k (s_vals s) = true -> mem k (s_vals s') = true.
  Definition post (s s' : rstate) : Prop := SOK s' /\ mono s s' /\ s_inprog s' = s_inprog s.
  Definition am_ok (am : argmap) : Prop := forall k v, lookup k am = Some v -> val_ok u k v.

  Lemma mono_refl s : mono s s.
  Proof. intros k A; exact A. Qed.
  Lemma mono_trans s1 s2 s3 : mono s1 s2 -> mono s2 s3 -> mono s1 s3.
  Proof. intros A B k C. apply B, A, C. Qed.
  Lemma post_refl s : SOK s -> post s s.
  Proof. intros H. split; [exact H|]. split; [apply mono_refl|reflexivity]. Qed.
  Lemma post_trans s1 s2 s3 : post s1 s2 -> post s2 s3 -> post s1 s3.
  Proof.
    intros (_ & M1 & I1) (S2 & M2 & I2). split; [exact S2|]. split; [eapply mono_trans; eauto|congruence].
  Qed.

  Lemma mem_insert_same (k : vkey) (v : value) m : mem k (insert k v m) = true.
  Proof. unfold mem. rewrite lookup_insert, Base.eqb_refl. reflexivity. Qed.
  Lemma mem_insert_mono (k k' : vkey) (v : value) m : mem k' m = true -> mem k' (insert k v m) = true.
  Proof. unfold mem. rewrite lookup_insert. destruct (Base.eqb k' k); auto. Qed.

  Lemma post_set_val s k v : SOK s -> val_ok u k v -> post s (set_val s k (Some v)).
  Proof.
    intros H Hv. split; [|split; [|reflexivity]].
    - constructor.
      + intros k' v'. cbn [set_val set_vals s_vals]. rewrite lookup_insert.
        destruct (Base.eqb_spec k' k) as [->|Ne]; [intros Q; inversion Q; subst; exact Hv|apply (so_vals H)].
      + apply (so_world H).
      + intros k' A. cbn [set_val set_vals s_vals]. apply mem_insert_mono. apply (so_in H); exact A.
    - intros k' A. cbn [set_val set_vals s_vals]. apply mem_insert_mono. exact A.
  Qed.

  Lemma SOK_same s s' : s_vals s' = s_vals s -> s_world s' = s_world s -> SOK s -> SOK s'.
  Proof.
    intros Ev Ew H. constructor.
    - rewrite Ev. apply (so_vals H).
    - rewrite Ew. apply (so_world H).
    - rewrite Ev. apply (so_in H).
  Qed.

  Lemma post_same s s' : s_vals s' = s_vals s -> s_world s' = s_world s -> s_inprog s' = s_inprog s ->
    SOK s -> post s s'.
  Proof.
    intros Ev Ew Ei H. split; [eapply SOK_same; eauto|]. split; [|exact Ei].
    intros k A. rewrite Ev. exact A.
  Qed.

  (* ---------- callDirect ---------- *)
  Lemma key_ty_field_key fld : key_ty (field_key fld) = Some (f_ty fld).
  Proof. unfold field_key. destruct (String.eqb (f_name fld) ""); reflexivity. Qed.

  Lemma map_ty_zero f : map v_ty (zero_outs f) = map f_ty (fn_out f).
  Proof. unfold zero_outs. rewrite map_map. reflexivity. Qed.

  Lemma map_ty_fresh f n : map v_ty (fresh_outs f n) = map f_ty (fn_out f).
  Proof.
    unfold fresh_outs. rewrite map_map. cbn [v_ty].
    generalize 0%nat as i. induction (fn_out f) as [|x l IH]; intros i; simpl; [reflexivity|].
    f_equal. apply IH.
  Qed.

  Lemma call_direct_heavy f am s :
    SOK s -> am_ok am -> In f F ->
    resP (fun rs => post s (snd rs) /\
                    (r_builderr (fst rs) = false -> map v_ty (r_fields (fst rs)) = map f_ty (fn_out f)))
         (call_direct u behave rd f am s).
  Proof.
    intros H Ham If. unfold call_direct.
    destruct (if fn_once f then lookup (fn_id f) (s_world s) else None) as [r|] eqn:Qc.
    - simpl. split; [apply post_refl; exact H|]. intros _.
      destruct (fn_once f); [|discriminate]. apply (so_world H _ Qc If eq_refl).
    - assert (Ex : existsb (fun a : field * option value =>
                      match snd a with
                      | Some v => negb (assignable u (v_ty v) (f_ty (fst a)))
                      | None => false
                      end) (map (fun fld => (fld, lookup (field_key fld) am)) (fn_in f)) = false).
      { apply not_true_iff_false. intros C. apply existsb_exists in C. destruct C as ([fld ov] & A & B).
        apply in_map_iff in A. destruct A as (fld' & Q & A). inversion Q; subst. simpl in B.
        destruct (lookup (field_key fld) am) as [v|] eqn:Ql; [|discriminate].
        apply Ham in Ql. unfold val_ok in Ql. rewrite key_ty_field_key in Ql. rewrite Ql in B. discriminate. }
      rewrite Ex. cbv iota.
      match goal with |- context [if existsb ?ff ?ll then _ else _] => destruct (existsb ff ll) end.
      + simpl. split; [apply post_refl; exact H|]. discriminate.
      + destruct rd.
        * simpl. split; [apply post_refl; exact H|]. intros _. apply map_ty_zero.
        * set (n := s_nexec s + 1).
          assert (Typed : forall outs err, (outs, err) = match behave (fn_id f) n with
                                          | BOk => (fresh_outs f n, None)
                                          | BErr e => (zero_outs f, Some e)
                                          | BNil => (zero_outs f, None)
                                          end -> map v_ty outs = map f_ty (fn_out f)).
          { intros outs err Q. destruct (behave (fn_id f) n); inversion Q; subst;
              [apply map_ty_fresh|apply map_ty_zero|apply map_ty_zero]. }
          destruct (match behave (fn_id f) n with
                    | BOk => (fresh_outs f n, None)
                    | BErr e => (zero_outs f, Some e)
                    | BNil => (zero_outs f, None)
                    end) as [outs err] eqn:Qb.
          specialize (Typed outs err eq_refl).
          simpl. split; [|intros _; exact Typed].
          split; [|split; [intros k A; exact A|reflexivity]].
          constructor; cbn [s_vals s_world].
          -- apply (so_vals H).
          -- intros fid r f' Q If' Eid. destruct (fn_once f); [|apply (so_world H _ Q If' Eid)].
             rewrite lookup_insert in Q. destruct (Base.eqb_spec fid (fn_id f)) as [E|Ne].
             ++ inversion Q; subst r. cbn [r_fields r_builderr]. split; [|reflexivity].
                rewrite Typed. apply sig_of_tys. apply same_type_sig; auto.
                apply same_id_type; auto. congruence.
             ++ apply (so_world H _ Q If' Eid).
          -- apply (so_in H).
  Qed.

  (* ---------- outputValues ---------- *)
  Lemma nth_typed (rf : list value) (outs : list field) i fld :
    map v_ty rf = map f_ty outs -> nth_error outs i = Some fld ->
    exists v, nth_error rf i = Some v /\ v_ty v = f_ty fld.
  Proof.
    intros Q Nth. apply (f_equal (fun l => nth_error l i)) in Q.
    rewrite !nth_error_map, Nth in Q. destruct (nth_error rf i) as [v|]; simpl in Q; [|discriminate].
    inversion Q. eauto.
  Qed.

  Lemma output_values_heavy f ft r ins s :
    SOK s -> In f F -> fn_type f = ft ->
    (forall k, In k ins -> exists w, Eg g k (KFunc ft) = Some w) ->
    map v_ty (r_fields r) = map f_ty (fn_out f) ->
    resP (fun s' => post s s' /\ forall k, In k ins -> mem k (s_vals s') = true)
         (output_values f r ins s).
  Proof.
    intros H If Et Hed Ty. unfold output_values.
    assert (Gn : forall ins done acc,
      (forall k, In k ins -> exists w, Eg g k (KFunc ft) = Some w) ->
      resP (fun s1 => post s s1 /\ forall k, In k done -> mem k (s_vals s1) = true) acc ->
      resP (fun s' => post s s' /\ forall k, In k done \/ In k ins -> mem k (s_vals s') = true)
        (fold_left (fun acc k =>
           do s <- acc;
           match k with
           | KVal n _ _ => match last_named n (fn_out f) 0 None with
                           | Some (i, _) => Ok (set_val s k (nth_error (r_fields r) i))
                           | None => Panic 401%N
                           end
           | KOut t _ => match last_typed t (fn_out f) 0 None with
                         | Some (i, _) => Ok (set_val s k (nth_error (r_fields r) i))
                         | None => Panic 402%N
                         end
           | _ => Ok s
           end) ins acc)).
    { clear ins Hed. induction ins as [|k ins IH]; intros done acc Hed Hacc; simpl.
      - eapply resP_imp; [exact Hacc|]. intros s1 (P1 & D1). split; auto. intros k [A|[]]. auto.
      - eapply resP_imp; [apply (IH (done ++ [k]))|].
        + intros k' A. apply Hed. right; exact A.
        + eapply resP_bind; [exact Hacc|]. intros s1 (P1 & D1).
          destruct (Hed k (or_introl eq_refl)) as (w & Qe).
          pose proof (f_edge Gf _ _ Qe) as (_ & Eo).
          assert (Step : forall i t, key_ty k = Some t ->
                    (exists fld0, nth_error (fn_out f) i = Some fld0 /\ f_ty fld0 = t) ->
                    resP (fun s2 => post s s2 /\ forall k', In k' (done ++ [k]) -> mem k' (s_vals s2) = true)
                         (Ok (set_val s1 k (nth_error (r_fields r) i)))).
          { intros i t Kt (fld0 & Nth & Tf). destruct (nth_typed _ _ _ Ty Nth) as (v & Nv & Tv).
            rewrite Nv. simpl.
            assert (Vk : val_ok u k v).
            { unfold val_ok. rewrite Kt. rewrite Tv, Tf. apply assignable_refl. }
            destruct P1 as (S1 & M1 & I1).
            pose proof (post_set_val k v S1 Vk) as P2.
            split; [apply post_trans with (s2 := s1); [split; auto|exact P2]|].
            intros k' A. apply in_app_or in A. destruct A as [A|[<-|[]]].
            - destruct P2 as (_ & M2 & _). apply M2. apply D1. exact A.
            - cbn [set_val set_vals s_vals]. apply mem_insert_same. }
          destruct k as [|ft'|n t st|t st|t st]; simpl in Eo; try contradiction.
          * subst ft. destruct (out_edge_lookup _ If Eo) as (i & fld0 & Q & Nth & Tf).
            rewrite Q. apply (Step i t); eauto.
          * subst ft. destruct (out_edge_lookup _ If Eo) as (i & fld0 & Q & Nth & Tf).
            rewrite Q. apply (Step i t); eauto.
        + intros s' (P' & D'). split; auto. intros k' [A|[<-|A]]; apply D'; auto.
          * left. apply in_or_app; auto.
          * left. apply in_or_app; right; left; reflexivity. }
    eapply resP_imp; [apply (Gn ins [] (Ok s)); auto|].
    - simpl. split; [apply post_refl; exact H|]. intros k [].
    - intros s' (P' & D'). split; auto.
  Qed.

  (* ---------- plan ---------- *)
  Definition adj_ok (path : list vkey) : Prop :=
    forall pre a b post, path = pre ++ a :: b :: post -> exists w, Eg g b a = Some w.

  Definition no_bad_tail (path : list vkey) : Prop :=
    forall pre n t s2, path <> pre ++ [KVal n t s2; KVal n t EmptyString; KArg t EmptyString].

  Record path_ok (path : list vkey) (s : rstate) : Prop := {
    po_root : exists rest, path = KRoot :: rest;
    po_adj : adj_ok path;
    po_cur : is_val (last path KRoot) = true \/ is_arg (last path KRoot) = true;
    po_first : forall x post, path = KRoot :: x :: post -> is_fn x = true \/ mem x (s_vals s) = true;
    po_tail : is_arg (last path KRoot) = true -> no_bad_tail path;
    po_vert : forall v, In v path -> vertex g v }.

  Lemma path_ok_mono path s s' : mono s s' -> path_ok path s -> path_ok path s'.
  Proof.
    intros M [A B C D E V]. constructor; auto.
    intros x post Q. destruct (D x post Q) as [X|X]; auto.
  Qed.

  Lemma chain_adj (p : amap vkey vkey) v l :
    chain p v l -> forall pre a b post, l = pre ++ a :: b :: post -> lookup b p = Some a.
  Proof.
    induction 1 as [v Q|v x l Q C IH]; intros pre a b post El.
    - destruct pre as [|? [|? ?]]; discriminate.
    - destruct (@exists_last _ (a :: b :: post)) as (m & z & Em); [discriminate|].
      rewrite Em in El. rewrite app_assoc in El. apply app_inj_tail in El. destruct El as [El Ez]. subst z.
      destruct post as [|c post].
      + (* b = v, l = pre ++ [a] *)
        assert (m = [a] /\ b = v) as [-> ->].
        { change [a; b] with ([a] ++ [b]) in Em. apply app_inj_tail in Em. destruct Em as [E1 E2]. split; [symmetry; exact E1|exact E2]. }
        subst l. pose proof (chain_last C KRoot) as L. rewrite last_last in L. subst x. exact Q.
      + destruct (@exists_last _ (c :: post)) as (m' & z' & Em'); [discriminate|].
        rewrite Em' in Em. change (a :: b :: m' ++ [z']) with ((a :: b :: m') ++ [z']) in Em.
        apply app_inj_tail in Em. destruct Em as [Em _]. subst m l.
        eapply IH. reflexivity.
  Qed.

  Lemma walk_support {K} {EK : EqDec K} {V} (G1 G2 : graph K V) :
    (forall a, vertex G1 a -> vertex G2 a) ->
    (forall a b w, edge G1 a b w -> exists w', edge G2 a b w') ->
    forall a b p w, GraphSpec.walk G1 a b p w -> exists w', GraphSpec.walk G2 a b p w'.
  Proof.
    intros Hv He a b p w W. induction W as [a Va|a b c p w1 w2 Ed W IH].
    - exists 0. constructor. auto.
    - destruct IH as (w2' & W2). destruct (He _ _ _ Ed) as (w1' & Ed').
      exists (w1' + w2'). econstructor; eauto.
  Qed.

  Lemma plan_tail s t' input :
    SOK s ->
    let s1 := add_input (set_tape s t') input in
    let s2 := if rd then
                match input with
                | KVal _ t _ => if mem input (s_vals s1) then s1 else set_val s1 input (Some (zero_of t))
                | KArg t _ => set_val s1 input (Some (zero_of t))
                | _ => s1
                end
              else s1 in
    post s s2 /\ (rd = true -> is_val input = true \/ is_arg input = true -> mem input (s_vals s2) = true).
  Proof.
    intros H s1 s2.
    assert (P1 : post s s1) by (apply post_same; auto).
    assert (Z : forall t, key_ty input = Some t -> val_ok u input (zero_of t)).
    { intros t Q. unfold val_ok. rewrite Q. apply assignable_refl. }
    subst s2. destruct rd.
    - destruct input as [|ft|n t st|t st|t st].
      + split; [exact P1|]. intros _ [A|A]; discriminate.
      + split; [exact P1|]. intros _ [A|A]; discriminate.
      + destruct (mem (KVal n t st) (s_vals s1)) eqn:M.
        * split; [exact P1|]. intros _ _. exact M.
        * split.
          -- eapply post_trans; [exact P1|]. apply post_set_val; [apply P1|]. apply Z; reflexivity.
          -- intros _ _. cbn [set_val set_vals s_vals]. apply mem_insert_same.
      + split.
        * eapply post_trans; [exact P1|]. apply post_set_val; [apply P1|]. apply Z; reflexivity.
        * intros _ _. cbn [set_val set_vals s_vals]. apply mem_insert_same.
      + split; [exact P1|]. intros _ [A|A]; discriminate.
    - split; [exact P1|]. discriminate.
  Qed.

  Lemma vertex_hash_eq (g1 g2 : rgraph) k : ghash g1 = ghash g2 -> (vertex g1 k <-> vertex g2 k).
  Proof. unfold vertex. intros ->. tauto. Qed.

  Lemma plan_heavy cur s :
    SOK s -> vertex g cur -> is_val cur = true \/ is_arg cur = true ->
    resP (fun r => let '(path, bad, s') := r in
                   post s s' /\ bad = existsb (fun v => memb v (s_inprog s)) path /\
                   last path KRoot = cur /\ path_ok path s')
         (plan g rd cur s).
  Proof.
    intros H Vc Kc. unfold plan.
    destruct (same_shape_discount WF cur) as (Wc & Hc & Sh & Wt).
    assert (Ecg : is_arg cur = true -> discount g cur = g) by (destruct cur; try discriminate; reflexivity).
    set (cg := discount g cur) in *.
    destruct (g_reverse_spec Wc) as (Wr & Hr & Er).
    assert (Hrg : ghash (g_reverse cg) = ghash g) by congruence.
    assert (Vr : vertex (g_reverse cg) KRoot) by (apply (vertex_hash_eq _ _ KRoot Hrg); apply (f_root Gf)).
    assert (Wb : forall a b w, edge (g_reverse cg) a b w -> - 20 <= w <= 20).
    { intros a b w Ed. unfold edge in Ed. change (Eg (g_reverse cg) a b = Some w) in Ed. rewrite Er in Ed.
      destruct (Wt _ _ _ Ed) as [Q| ->]; [|unfold w_matching_name; lia].
      destruct (f_edge Gf _ _ Q) as (Rg & _). lia. }
    assert (Sm : 20 * (Z.of_nat (length (g_vertex_keys (g_reverse cg))) + 1) < INF).
    { unfold g_vertex_keys. rewrite Hrg. apply (gk_size G). }
    destruct (@dijkstra_t_heavy _ _ _ (g_reverse cg) KRoot 20 (s_tape s) Wr Vr ltac:(lia) Wb Sm)
      as [(d & p & t' & D & (Pe & Pc) & Phd & Pnd)|D]; rewrite D; cbn [bind]; [|exact I].
    unfold edge_to_path.
    destruct (Pc cur (S (length (g_vertex_keys cg)))) as (l & Et & C).
    { unfold g_vertex_keys. rewrite Hr. lia. }
    rewrite Et. cbn [bind].
    (* edges of the chain are edges of g *)
    assert (PeG : forall v a, lookup v p = Some a -> exists w, Eg g v a = Some w).
    { intros v a Q. destruct (Pe _ _ Q) as (w & Ed). unfold edge in Ed.
      change (Eg (g_reverse cg) a v = Some w) in Ed. rewrite Er in Ed.
      destruct (Eg g v a) as [w'|] eqn:Q'; [eauto|]. apply Sh in Q'. congruence. }
    assert (Vl : forall v, In v l -> vertex g v).
    { apply (@chain_vertices _ _ (fun v => vertex g v) p) with (v := cur); auto.
      intros v a Q. destruct (PeG _ _ Q) as (w & Q'). apply (Eg_vertices _ _ WF Q'). }
    (* the chain starts at the root *)
    assert (Rc : GraphSpec.reach (g_reverse cg) KRoot cur).
    { destruct (gk_reach G _ Vc) as (pth & w & Wk).
      destruct (g_reverse_spec WF) as (Wrg & Hrg0 & Erg).
      destruct (@walk_support _ _ _ (g_reverse g) (g_reverse cg)) with (a := KRoot) (b := cur) (p := pth) (w := w)
        as (w' & Wk'); auto.
      - intros a. apply vertex_hash_eq. congruence.
      - intros a b w0 Ed. unfold edge in *. change (Eg (g_reverse g) a b = Some w0) in Ed. rewrite Erg in Ed.
        change (exists w', Eg (g_reverse cg) a b = Some w'). rewrite Er.
        destruct (Eg cg b a) as [w'|] eqn:Q'; [eauto|]. apply Sh in Q'. congruence.
      - exists pth, w'. exact Wk'. }
    pose proof (Phd cur l Rc C) as Hd.
    pose proof (chain_nonempty C) as Nl.
    destruct l as [|h rest]; [congruence|]. simpl in Hd. subst h.
    set (path := KRoot :: rest) in *.
    set (input := match path with KRoot :: x :: _ => x | x :: _ => x | [] => cur end).
    destruct (plan_tail t' input H) as (Pp & Pin).
    split; [exact Pp|]. split; [reflexivity|]. split; [apply (chain_last C)|].
    assert (Adj : adj_ok path).
    { intros pre a b post El. apply PeG. eapply chain_adj; eauto. }
    constructor.
    - exists rest. reflexivity.
    - exact Adj.
    - rewrite (chain_last C). exact Kc.
    - intros x post El. unfold path in El. inversion El; subst rest.
      assert (Ix : input = x) by reflexivity.
      destruct (Adj [] KRoot x post eq_refl) as (w & Qe).
      destruct (f_edge Gf _ _ Qe) as (_ & Ro).
      destruct Pp as (Sp & _ & _).
      destruct x as [|ft|n t st|t st|t st]; simpl in Ro.
      + contradiction.
      + left; reflexivity.
      + right. destruct Ro as [Ro|Ro].
        * rewrite <- Ix. apply Pin; auto.
        * apply (so_in Sp). exact Ro.
      + right. rewrite <- Ix. apply Pin; auto.
      + right. apply (so_in Sp). exact Ro.
    - rewrite (chain_last C). intros Ka pre n t s2 El.
      assert (Ecg' : cg = g) by (apply Ecg; exact Ka).
      set (X := KVal n t s2) in *. set (Y := KVal n t EmptyString) in *. set (Zz := KArg t EmptyString) in *.
      assert (Qz : lookup Zz p = Some Y).
      { eapply chain_adj with (pre := pre ++ [X]) (post := []); eauto. rewrite <- app_assoc. exact El. }
      assert (Qy : lookup Y p = Some X).
      { eapply chain_adj with (pre := pre) (post := [Zz]); eauto. }
      destruct (PeG _ _ Qz) as (w2 & E2). destruct (PeG _ _ Qy) as (w1 & E1).
      destruct (f_edge Gf _ _ E2) as (_ & O2). destruct (f_edge Gf _ _ E1) as (_ & O1).
      simpl in O1, O2. destruct O2 as (_ & _ & ->). destruct O1 as (_ & _ & _ & _ & ->).
      assert (E3 : Eg g Zz X = Some GenWeights.w_typed).
      { apply (gk_short G); [apply (Eg_vertices _ _ WF E1)|apply (Eg_vertices _ _ WF E2)]. }
      assert (GenWeights.w_typed + GenWeights.w_typed <= GenWeights.w_typed); [|unfold GenWeights.w_typed in *; lia].
      apply (Pnd X Y Zz); auto; unfold edge; change (Eg (g_reverse cg) ?a ?b) with (Eg (g_reverse cg) a b).
      + change (Eg (g_reverse cg) X Y = Some GenWeights.w_typed). rewrite Er, Ecg'. exact E1.
      + change (Eg (g_reverse cg) Y Zz = Some GenWeights.w_typed). rewrite Er, Ecg'. exact E2.
      + change (Eg (g_reverse cg) X Zz = Some GenWeights.w_typed). rewrite Er, Ecg'. exact E3.
    - exact Vl.
  Qed.

  (* ---------- the walk of one path ---------- *)
  Lemma SOK_lookup_mem s k : mem k (s_vals s) = true -> exists x, lookup k (s_vals s) = Some x.
  Proof. unfold mem. destruct (lookup k (s_vals s)); [eauto|discriminate]. Qed.

  Lemma lookup_mem s k x : lookup k (s_vals s) = Some x -> mem k (s_vals s) = true.
  Proof. unfold mem. intros ->. reflexivity. Qed.

  (* what is known after walking the vertices [rp] (most recent first) *)
  Definition WI (rp : list vkey) (s : rstate) (final : option value) : Prop :=
    match rp with
    | [] => True
    | KRoot :: r => r = []
    | KFunc ft :: _ => forall k, In k (g_in_keys g (KFunc ft)) -> mem k (s_vals s) = true
    | KOut t st :: _ => exists x, lookup (KOut t st) (s_vals s) = Some x /\ s_last s = Some x
    | KVal n t st :: r =>
        s_last s = lookup (KVal n t st) (s_vals s) /\
        exists fv, final = Some fv /\ assignable u (v_ty fv) t = true /\
                   (lookup (KVal n t st) (s_vals s) = None ->
                    st = EmptyString /\ exists s2 r', r = KVal n t s2 :: r')
    | KArg t st :: r =>
        final = lookup (KArg t st) (s_vals s) /\
        (final = None -> st = EmptyString /\
                         exists n s2 r', r = KVal n t EmptyString :: KVal n t s2 :: r')
    end.

  Section Walk.
    Variable rec : vkey -> rstate -> res (rstate * (argmap + rerr)).
    Variable L : list vkey.
    Hypothesis Hrec : forall ft s, vertex g (KFunc ft) -> ~ In (KFunc ft) L -> s_inprog s = L -> SOK s ->
      resP (fun r => post s (fst r) /\ forall am, snd r = inl am -> am_ok am) (rec (KFunc ft) s).

    Lemma walk_func_heavy ft s :
      vertex g (KFunc ft) -> ~ In (KFunc ft) L -> s_inprog s = L -> SOK s ->
      resP (fun r => post s (fst r) /\
                     (snd r = None -> forall k, In k (g_in_keys g (KFunc ft)) -> mem k (s_vals (fst r)) = true))
           (walk_func u behave g rd rec (KFunc ft) s).
    Proof.
      intros Vv Nv Is H. unfold walk_func.
      assert (Pay : exists f, g_vertex g (KFunc ft) = Some (PFunc f) /\ In f F /\ fn_type f = ft).
      { apply vertex_Vx in Vv. destruct (Vx g (KFunc ft)) as [pl|] eqn:Q; [|contradiction].
        destruct (f_func Gf _ Q) as (f & ->). destruct (f_pay Gf _ Q) as (Ek & If).
        exists f. split; [exact Q|]. split; [exact If|]. inversion Ek; reflexivity. }
      destruct Pay as (f & Qv & If & Et). rewrite Qv.
      eapply resP_bind; [apply Hrec; auto|].
      intros [s1 [fam|e]] (P1 & A1); cbn [fst snd] in *.
      2:{ simpl. split; [exact P1|]. discriminate. }
      specialize (A1 fam eq_refl).
      eapply resP_bind; [apply call_direct_heavy with (f := f); [apply P1|exact A1|exact If]|].
      intros [res s2] (P2 & T2); cbn [fst snd] in *.
      pose proof (post_trans P1 P2) as P12.
      destruct (r_builderr res) eqn:Eb; [simpl; split; [exact P12|discriminate]|].
      destruct (r_err res); [simpl; split; [exact P12|discriminate]|].
      destruct (take_perm_cases SITE_REACH_IN (g_in_keys g (KFunc ft)) (s_tape s2))
        as [(ins & t' & Q & Hin)|Q]; rewrite Q; cbn [bind]; [|exact I].
      assert (P3 : post s2 (set_tape s2 t')) by (apply post_same; auto; apply P2).
      eapply resP_bind.
      - apply output_values_heavy with (ft := ft); [apply P3|exact If|exact Et| |apply T2; reflexivity].
        intros k A. apply Hin in A. apply (in_keys_Eg _ _ WF). exact A.
      - intros s3 (P4 & D4). simpl. split.
        + eapply post_trans; [exact P12|]. apply post_trans with (s2 := set_tape s2 t'); [exact P3|exact P4].
        + intros _ k A. apply D4. apply Hin. exact A.
    Qed.

    Variable path : list vkey.
    Variable s0 : rstate.
    Hypothesis Pok : path_ok path s0.
    Hypothesis PnotL : forall v, In v path -> ~ In v L.

    Definition walk_post (s : rstate) (r : rstate * (option value + rerr)) : Prop :=
      post s (fst r) /\
      forall fin, snd r = inl fin -> exists fv, fin = Some fv /\ val_ok u (last path KRoot) fv.

    Lemma walk_post_trans s s' r : post s s' -> walk_post s' r -> walk_post s r.
    Proof. intros P (P' & Fv). split; [eapply post_trans; eauto|exact Fv]. Qed.

    Lemma walk_heavy : forall vs rp final s,
      path = rev rp ++ vs -> s_inprog s = L -> SOK s -> mono s0 s -> WI rp s final ->
      resP (walk_post s) (walk u behave g rd rec (hd_error rp) vs final s).
    Proof.
      induction vs as [|v vs IH]; intros rp final s Ep Is Hs Ms Hw.
      - (* the end of the path *)
        cbn [walk]. simpl. split; [apply post_refl; exact Hs|].
        intros fin Q. inversion Q; subst fin. clear Q.
        rewrite app_nil_r in Ep.
        destruct rp as [|c r].
        { destruct (po_root Pok) as (rest & Q). simpl in Ep. congruence. }
        assert (Lc : last path KRoot = c) by (rewrite Ep; simpl; apply last_last).
        pose proof (po_cur Pok) as Kc. rewrite Lc in *.
        destruct c as [|ft|n t st|t st|t st]; simpl in Kc; try (destruct Kc; discriminate).
        + simpl in Hw. destruct Hw as (_ & fv & -> & As & _). exists fv. split; [reflexivity|].
          unfold val_ok. simpl. exact As.
        + simpl in Hw. destruct Hw as (Ef & Bad).
          destruct final as [fv|].
          * exists fv. split; [reflexivity|]. symmetry in Ef. apply (so_vals Hs _ Ef).
          * exfalso. destruct (Bad eq_refl) as (-> & n & s2 & r' & ->).
            apply (po_tail Pok) with (pre := rev r') (n := n) (t := t) (s2 := s2); [rewrite Lc; reflexivity|].
            rewrite Ep. simpl. rewrite <- !app_assoc. reflexivity.
      - (* one more vertex *)
        assert (Ep' : path = rev (v :: rp) ++ vs).
        { simpl. rewrite <- app_assoc. exact Ep. }
        assert (Next : forall s' final', post s s' -> WI (v :: rp) s' final' ->
                  resP (walk_post s) (walk u behave g rd rec (Some v) vs final' s')).
        { intros s' final' P' W'. eapply resP_imp.
          - apply (IH (v :: rp) final' s'); auto.
            + destruct P' as (_ & _ & I'). congruence.
            + apply P'.
            + eapply mono_trans; [exact Ms|apply P'].
          - intros r Wp. eapply walk_post_trans; eauto. }
        assert (Edge : forall p r, rp = p :: r -> exists w, Eg g v p = Some w /\ edge_ok u F inkeys rd v p w).
        { intros p r ->. destruct (po_adj Pok (rev r) p v vs) as (w & Qe).
          - rewrite Ep. simpl. rewrite <- app_assoc. reflexivity.
          - exists w. split; [exact Qe|]. apply (f_edge Gf _ _ Qe). }
        assert (Start : rp = [] -> v = KRoot).
        { intros ->. destruct (po_root Pok) as (rest & Q). simpl in Ep. congruence. }
        assert (First : forall r, rp = KRoot :: r -> is_fn v = false -> mem v (s_vals s) = true).
        { intros r -> Nf. simpl in Hw. subst r. apply Ms.
          assert (E2 : path = KRoot :: v :: vs) by exact Ep.
          destruct (po_first Pok E2) as [A|A]; [congruence|exact A]. }
        assert (AfterF : forall ft r, rp = KFunc ft :: r -> mem v (s_vals s) = true).
        { intros ft r ->. simpl in Hw. apply Hw. destruct (Edge _ _ eq_refl) as (w & Qe & _).
          apply (in_keys_Eg _ _ WF). eauto. }
        destruct v as [|ft|n t st|t st|t st].
        + (* root: only at the start *)
          cbn [walk]. destruct rp as [|p r].
          * apply Next; [apply post_refl; exact Hs|reflexivity].
          * exfalso. destruct (Edge _ _ eq_refl) as (w & _ & _ & Eo). destruct p; exact Eo.
        + (* a function *)
          rewrite walk_func_eq.
          assert (Vv : vertex g (KFunc ft)) by (apply (po_vert Pok); rewrite Ep; apply in_or_app; right; left; reflexivity).
          assert (Nv : ~ In (KFunc ft) L) by (apply PnotL; rewrite Ep; apply in_or_app; right; left; reflexivity).
          eapply resP_bind; [apply walk_func_heavy; auto|].
          intros [s1 [e|]] (P1 & D1); cbn [fst snd] in *.
          * simpl. split; [exact P1|]. discriminate.
          * apply Next; [exact P1|]. simpl. apply D1. reflexivity.
        + (* a named value *)
          cbn [walk].
          assert (Valued : mem (KVal n t st) (s_vals s) = true ->
                    resP (walk_post s)
                      (walk u behave g rd rec (Some (KVal n t st)) vs
                         match lookup (KVal n t st) (s_vals s) with Some x => Some x | None => final end
                         (set_last s (lookup (KVal n t st) (s_vals s))))).
          { intros M. destruct (SOK_lookup_mem _ _ M) as (x & Qx). rewrite Qx.
            apply Next; [apply post_same; auto|]. simpl. split; [symmetry; exact Qx|].
            exists x. split; [reflexivity|]. split; [apply (so_vals Hs _ Qx)|]. rewrite Qx. discriminate. }
          destruct rp as [|p r]; [specialize (Start eq_refl); discriminate|].
          destruct (Edge _ _ eq_refl) as (w & Qe & _ & Eo).
          destruct p as [|ft'|n' t' st'|t' st'|t' st']; cbn [hd_error]; simpl in Eo.
          * apply Valued. apply (First r); reflexivity.
          * apply Valued. apply (AfterF ft' r); reflexivity.
          * destruct Eo as (-> & -> & -> & Ns & _). simpl in Hw.
            destruct Hw as (_ & fv & -> & As & Un).
            destruct (lookup (KVal n t st') (s_vals s)) as [y|] eqn:Qy.
            -- assert (Vy : val_ok u (KVal n t EmptyString) y) by (apply (so_vals Hs _ Qy)).
               pose proof (post_set_val (KVal n t EmptyString) y Hs Vy) as P1.
               assert (Q1 : lookup (KVal n t EmptyString) (s_vals (set_val s (KVal n t EmptyString) (Some y))) = Some y)
                 by (cbn [set_val set_vals s_vals]; apply lookup_insert_eq).
               rewrite Q1.
               apply Next.
               ++ eapply post_trans; [exact P1|]. apply post_same; auto. apply P1.
               ++ simpl. split; [symmetry; exact Q1|]. exists y. split; [reflexivity|].
                  split; [exact Vy|]. rewrite lookup_insert_eq. discriminate.
            -- exfalso. destruct (Un eq_refl) as (E0 & _). contradiction.
          * contradiction.
          * subst t'. simpl in Hw. destruct Hw as (x & Qx & _). rewrite Qx.
            assert (Vx0 : val_ok u (KVal n t st) x) by (apply (so_vals Hs _ Qx)).
            pose proof (post_set_val (KVal n t st) x Hs Vx0) as P1.
            assert (Q1 : lookup (KVal n t st) (s_vals (set_val s (KVal n t st) (Some x))) = Some x)
              by (cbn [set_val set_vals s_vals]; apply lookup_insert_eq).
            rewrite Q1.
            apply Next.
            -- eapply post_trans; [exact P1|]. apply post_same; auto. apply P1.
            -- simpl. split; [symmetry; exact Q1|]. exists x. split; [reflexivity|].
               split; [exact Vx0|]. rewrite lookup_insert_eq. discriminate.
        + (* a typed argument *)
          cbn [walk].
          set (sX := match s_last s with
                     | Some x => if assignable u (v_ty x) t then set_val s (KArg t st) (Some x) else s
                     | None => s end).
          assert (PX : post s sX).
          { subst sX. destruct (s_last s) as [x|]; [|apply post_refl; exact Hs].
            destruct (assignable u (v_ty x) t) eqn:As; [|apply post_refl; exact Hs].
            apply post_set_val; auto. }
          assert (Valued : mem (KArg t st) (s_vals sX) = true ->
                    resP (walk_post s) (walk u behave g rd rec (Some (KArg t st)) vs (lookup (KArg t st) (s_vals sX)) sX)).
          { intros M. destruct (SOK_lookup_mem _ _ M) as (x & Qx).
            apply Next; [exact PX|]. simpl. split; [reflexivity|]. rewrite Qx. discriminate. }
          assert (FromLast : forall x, s_last s = Some x -> assignable u (v_ty x) t = true ->
                               mem (KArg t st) (s_vals sX) = true).
          { intros x Ql As. subst sX. rewrite Ql, As. cbn [set_val set_vals s_vals]. apply mem_insert_same. }
          destruct rp as [|p r]; [specialize (Start eq_refl); discriminate|].
          destruct (Edge _ _ eq_refl) as (w & Qe & _ & Eo).
          destruct p as [|ft'|n' t' st'|t' st'|t' st']; cbn [hd_error]; simpl in Eo; try contradiction.
          * apply Valued. destruct PX as (_ & MX & _). apply MX. apply (First r); reflexivity.
          * destruct Eo as (-> & Es & _). simpl in Hw.
            destruct Hw as (Ql & fv & -> & As & Un).
            destruct (lookup (KVal n' t st') (s_vals s)) as [x|] eqn:Qx.
            -- apply Valued. apply (FromLast x Ql). apply (so_vals Hs _ Qx).
            -- assert (EX : sX = s) by (subst sX; rewrite Ql; reflexivity).
               apply Next; [exact PX|]. simpl. split; [reflexivity|].
               intros _. destruct (Un eq_refl) as (-> & s2 & r' & ->).
               split; [destruct Es; auto|]. eauto.
          * subst t'. simpl in Hw. destruct Hw as (x & Qx & Ql).
            apply Valued. apply (FromLast x Ql). apply (so_vals Hs _ Qx).
        + (* a typed output *)
          cbn [walk].
          assert (Valued : mem (KOut t st) (s_vals s) = true ->
                    resP (walk_post s)
                      (walk u behave g rd rec (Some (KOut t st)) vs final
                         (set_last s (lookup (KOut t st) (s_vals s))))).
          { intros M. destruct (SOK_lookup_mem _ _ M) as (x & Qx). rewrite Qx.
            apply Next; [apply post_same; auto|]. simpl. exists x. split; [exact Qx|reflexivity]. }
          destruct rp as [|p r]; [specialize (Start eq_refl); discriminate|].
          destruct (Edge _ _ eq_refl) as (w & Qe & _ & Eo).
          destruct p as [|ft'|n' t' st'|t' st'|t' st']; cbn [hd_error]; simpl in Eo; try contradiction.
          * apply Valued. apply (First r); reflexivity.
          * apply Valued. apply (AfterF ft' r); reflexivity.
          * simpl in Hw. destruct Hw as (x & Qx & _). rewrite Qx.
            assert (Vx0 : val_ok u (KOut t st) x).
            { pose proof (so_vals Hs _ Qx) as V0. unfold val_ok in *. simpl in *.
              eapply assignable_trans; eauto. }
            pose proof (post_set_val (KOut t st) x Hs Vx0) as P1.
            assert (Q1 : lookup (KOut t st) (s_vals (set_val s (KOut t st) (Some x))) = Some x)
              by (cbn [set_val set_vals s_vals]; apply lookup_insert_eq).
            rewrite Q1.
            apply Next.
            -- eapply post_trans; [exact P1|]. apply post_same; auto. apply P1.
            -- simpl. exists x. split; [exact Q1|reflexivity].
    Qed.
  End Walk.

  Lemma SOK_leave target s : SOK s -> SOK (leave target s).
  Proof. intros H. apply SOK_same with (s := s); [reflexivity|reflexivity|exact H]. Qed.

  (* ---------- planning all requirements ---------- *)
  Definition plans_ok (s : rstate) (r : list (list vkey) * list vkey * rstate) : Prop :=
    let '(paths, unsat, s') := r in
    post s s' /\
    (forall path, In path paths -> path_ok path s') /\
    (unsat = [] -> forall path v, In path paths -> In v path -> ~ In v (s_inprog s)).

  Lemma plan_all_heavy todo s :
    SOK s ->
    (forall c, In c todo -> vertex g c /\ (is_val c = true \/ is_arg c = true)) ->
    resP (plans_ok s) (plan_all g rd todo s).
  Proof.
    intros H Ht. unfold plan_all.
    assert (Gn : forall todo acc,
      (forall c, In c todo -> vertex g c /\ (is_val c = true \/ is_arg c = true)) ->
      resP (plans_ok s) acc -> resP (plans_ok s) (fold_left (plan_step g rd) todo acc)).
    { clear todo Ht. induction todo as [|c todo IH]; intros acc Ht Hacc; simpl; [exact Hacc|].
      apply IH; [intros c' A; apply Ht; right; exact A|].
      unfold plan_step. eapply resP_bind; [exact Hacc|].
      intros [[paths unsat] s1] (P1 & O1 & U1).
      destruct (Ht c (or_introl eq_refl)) as (Vc & Kc).
      eapply resP_bind; [apply plan_heavy; [apply P1|exact Vc|exact Kc]|].
      intros [[path bad] s2] (P2 & Bd & Lc & O2). simpl.
      split; [eapply post_trans; eauto|]. split.
      - intros path' A. apply in_app_or in A. destruct A as [A|[<-|[]]]; [|exact O2].
        apply path_ok_mono with (s := s1); [apply P2|apply O1; exact A].
      - intros Un path' v A B. destruct bad eqn:Eb.
        + destruct unsat; discriminate.
        + apply in_app_or in A. destruct A as [A|[<-|[]]]; [eapply U1; eauto|].
          intros C. symmetry in Bd. destruct P1 as (_ & _ & I1). rewrite I1 in Bd.
          assert (existsb (fun v0 => memb v0 (s_inprog s)) path = true); [|congruence].
          apply existsb_exists. exists v. split; auto. apply memb_In; auto. }
    apply Gn; auto. simpl. split; [apply post_refl; exact H|]. split; [intros ? []|intros _ ? ? []].
  Qed.

  (* ---------- classification of the requirements ---------- *)
  Lemma classify_heavy s ft outs am todo :
    SOK s -> (forall o, In o outs -> exists w, Eg g (KFunc ft) o = Some w) ->
    classify rd s outs = (am, todo) ->
    am_ok am /\ forall c, In c todo -> vertex g c /\ (is_val c = true \/ is_arg c = true).
  Proof.
    intros H Ho.
    assert (Gn : forall outs acc,
      (forall o, In o outs -> exists w, Eg g (KFunc ft) o = Some w) ->
      (am_ok (fst acc) /\ forall c, In c (snd acc) -> vertex g c /\ (is_val c = true \/ is_arg c = true)) ->
      let r := fold_left (classify_step rd s) outs acc in
      am_ok (fst r) /\ forall c, In c (snd r) -> vertex g c /\ (is_val c = true \/ is_arg c = true)).
    { clear outs Ho. induction outs as [|o outs IH]; intros acc Ho Ha; simpl; [exact Ha|].
      apply IH; [intros o' A; apply Ho; right; exact A|].
      destruct (Ho o (or_introl eq_refl)) as (w & Qe).
      destruct (f_edge Gf _ _ Qe) as (_ & Eo).
      assert (Vo : vertex g o) by apply (Eg_vertices _ _ WF Qe).
      destruct acc as [am0 todo0]. destruct Ha as [Ha Hb]. simpl in Ha, Hb.
      assert (Ins : forall v, lookup o (s_vals s) = Some v -> am_ok (insert o v am0)).
      { intros v Q k v'. rewrite lookup_insert. destruct (Base.eqb_spec k o) as [->|Ne]; [|apply Ha].
        intros Q'; inversion Q'; subst. apply (so_vals H _ Q). }
      assert (App : (is_val o = true \/ is_arg o = true) ->
                    forall c, In c (todo0 ++ [o]) -> vertex g c /\ (is_val c = true \/ is_arg c = true)).
      { intros Ko c A. apply in_app_or in A. destruct A as [A|[<-|[]]]; auto. }
      unfold classify_step.
      destruct o as [|ft'|n t st|t st|t st]; simpl in Eo; try contradiction.
      - split; assumption.
      - destruct rd.
        + split; [exact Ha|]. apply App. left; reflexivity.
        + destruct (lookup (KVal n t st) (s_vals s)) as [v|] eqn:Q.
          * split; [apply Ins; reflexivity|exact Hb].
          * split; [exact Ha|]. apply App. left; reflexivity.
      - destruct (lookup (KArg t st) (s_vals s)) as [v|] eqn:Q.
        + split; [apply Ins; reflexivity|exact Hb].
        + split; [exact Ha|]. apply App. right; reflexivity. }
    intros Cl.
    assert (R : am_ok (fst (classify rd s outs)) /\
                forall c, In c (snd (classify rd s outs)) -> vertex g c /\ (is_val c = true \/ is_arg c = true)).
    { apply (Gn outs ([], []) Ho). split; [intros k v Q; discriminate|intros c []]. }
    rewrite Cl in R. exact R.
  Qed.

  (* ---------- walking all paths ---------- *)
  Definition reach_post (s : rstate) (r : rstate * (argmap + rerr)) : Prop :=
    post s (fst r) /\ forall am, snd r = inl am -> am_ok am.

  Section Paths.
    Variable rec : vkey -> rstate -> res (rstate * (argmap + rerr)).
    Variable L : list vkey.
    Hypothesis Hrec : forall ft s, vertex g (KFunc ft) -> ~ In (KFunc ft) L -> s_inprog s = L -> SOK s ->
      resP (reach_post s) (rec (KFunc ft) s).
    Variable target : vkey.
    Variable I0 : list vkey.
    Hypothesis EL : L = target :: I0.

    Lemma walk_paths_heavy : forall paths am s,
      s_inprog s = L -> SOK s -> am_ok am ->
      (forall path, In path paths -> path_ok path s /\ forall v, In v path -> ~ In v L) ->
      resP (fun r => SOK (fst r) /\ mono s (fst r) /\ s_inprog (fst r) = I0 /\
                     forall am', snd r = inl am' -> am_ok am')
           (walk_paths u behave g rd rec target paths am s).
    Proof.
      induction paths as [|path rest IH]; intros am s Is Hs Ha Hp; cbn [walk_paths].
      - simpl. split; [apply SOK_leave; exact Hs|]. split; [intros k A; exact A|].
        split; [apply leave_inprog; congruence|]. intros am' Q; inversion Q; subst; exact Ha.
      - destruct (Hp path (or_introl eq_refl)) as (Po & Pn).
        eapply resP_bind.
        + apply (@walk_heavy rec L Hrec path s Po Pn path [] None s); auto.
          * apply mono_refl.
          * exact I.
        + intros [s1 [[fv|]|e]] (P1 & Fv); cbn [fst snd] in *.
          * destruct (Fv _ eq_refl) as (fv' & Q & Vf). inversion Q; subst fv'.
            destruct P1 as (S1 & M1 & I1).
            eapply resP_imp.
            -- apply IH; auto; [congruence| |].
               ++ intros k v. rewrite lookup_insert. destruct (Base.eqb_spec k (last path KRoot)) as [->|Ne]; [|apply Ha].
                  intros Q'; inversion Q'; subst; exact Vf.
               ++ intros p A. destruct (Hp p (or_intror A)) as (Po' & Pn').
                  split; [eapply path_ok_mono; eauto|exact Pn'].
            -- intros [s2 r2] (S2 & M2 & I2 & A2). cbn [fst snd] in *.
               split; [exact S2|]. split; [eapply mono_trans; eauto|]. split; [exact I2|exact A2].
          * destruct (Fv _ eq_refl) as (fv' & Q & _). discriminate.
          * destruct P1 as (S1 & M1 & I1). simpl.
            split; [apply SOK_leave; exact S1|]. split; [exact M1|].
            split; [apply leave_inprog; congruence|]. discriminate.
    Qed.
  End Paths.

  (* ---------- reach ---------- *)
  Theorem reach_heavy : forall fuel ft s,
    (pending g (KFunc ft :: s_inprog s) < fuel)%nat -> SOK s ->
    resP (reach_post s) (reach u behave g rd fuel (KFunc ft) s).
  Proof.
    induction fuel as [|fuel IH]; intros ft s Lt Hs; [lia|].
    rewrite reach_S. unfold reach_body.
    set (target := KFunc ft).
    set (s1 := set_inprog s (target :: s_inprog s)).
    destruct (take_perm_cases SITE_REACH_OUT (g_out_keys g target) (s_tape s1))
      as [(outs & t' & Q & Hout)|Q]; rewrite Q; cbn [bind]; [|exact I].
    set (s2 := set_tape s1 t').
    assert (H2 : SOK s2) by (apply SOK_same with (s := s); [reflexivity|reflexivity|exact Hs]).
    destruct (classify rd s2 outs) as [am todo] eqn:Cl.
    destruct (@classify_heavy s2 ft outs am todo H2) as (Ha & Ht); auto.
    { intros o A. apply Hout in A. apply out_keys_Eg in A. exact A. }
    destruct todo as [|c0 todo].
    - simpl. split; [|intros am' Q'; inversion Q'; subst; exact Ha].
      split; [apply SOK_leave; exact H2|]. split; [intros k A; exact A|].
      apply leave_inprog. reflexivity.
    - eapply resP_bind; [apply plan_all_heavy; [exact H2|exact Ht]|].
      intros [[paths unsat] s3] (P3 & O3 & U3).
      destruct P3 as (S3 & M3 & I3).
      destruct unsat as [|x unsat].
      + eapply resP_imp.
        * apply (@walk_paths_heavy (reach u behave g rd fuel) (target :: s_inprog s)) with (I0 := s_inprog s); auto.
          -- intros ft' s' Vv Nv Is Hs'. apply IH; auto.
             rewrite Is. pose proof (@pending_cons g (KFunc ft') (target :: s_inprog s) Vv eq_refl Nv) as Pc.
             unfold target in *. lia.
          -- intros path A. split; [apply O3; exact A|]. intros v B. apply (U3 eq_refl path v A B).
        * intros [s4 r4] (S4 & M4 & I4 & A4). cbn [fst snd] in *.
          split; [|exact A4]. split; [exact S4|]. split; [|exact I4].
          eapply mono_trans; [|exact M4]. exact M3.
      + simpl. split; [|discriminate].
        split; [apply SOK_leave; exact S3|]. split; [exact M3|].
        apply leave_inprog. rewrite I3. reflexivity.
  Qed.
End Heavy.

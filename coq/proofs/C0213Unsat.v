(* C0213Unsat.v -- C13 (hopeless parameters are reported by the
   unsatisfied-argument error built at graph construction) and C02
   (underivable target => error, target not run, unsatisfied-argument error
   when every converter is satisfiable).

   C13_proof                      : C13_statement, in full.
   C02_partial_proof              : C02_statement under one added hypothesis, a
       size bound on the full graph (20 * #vertices < 2^63 - 1) that keeps the
       model's 64-bit Dijkstra distances away from the representable infinity
       (without it the path search may miss a reachable requirement through
       wrap-around, and nothing is known about such a run).
   C02_partial_construction_proof : without any size bound, the part of C02
       that is decided at graph construction: when the target is not derivable
       and either every converter is satisfiable or pruning reports an error,
       the call fails at construction with the unsatisfied-argument error and
       c02_ok holds.

   Helper files: C0213UnsatGraph, C0213UnsatClosure, C0213UnsatBuild,
   C0213UnsatPrune, C0213UnsatDijkstra, C0213UnsatPlan, C0213UnsatReach,
   C0213UnsatC02. *)
From ArgMapper Require Import Base Graph GraphAlg GraphSpec Types Args Resolver ResolverSpec
     CheckResolver Monitors ResolverStatements.
From ArgMapper.proofs Require Import C0213UnsatPrune C0213UnsatC02.

Theorem C02_partial_construction_proof : C02_partial_construction_statement.
Proof. exact C02_construction_main. Qed.
Print Assumptions C02_partial_construction_proof.

Theorem C02_partial_proof : C02_partial_statement.
Proof. exact C02_bounded_main. Qed.
Print Assumptions C02_partial_proof.

Theorem C13_proof : C13_statement.
Proof. exact C13_main. Qed.
Print Assumptions C13_proof.

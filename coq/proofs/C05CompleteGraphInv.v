(* C05CompleteGraphInv.v -- the edge / payload invariant of the call graph
   ([edge_inv], [vert_inv] of C05CompleteDefs) is preserved by every step of
   full_graph; the requirement edges of every function are present. *)
From ArgMapper Require Import Base Graph GraphAlg GraphSpec GraphStatements Types Args Resolver GenWeights
     ResolverSpec.
From ArgMapper.proofs Require Import C18DijkstraLemmas C19RefineMap C19RefineGraph C05CompleteDefs C05CompleteGraphBase.
From Coq Require Import Lia ZArith List.
Import ListNotations.
Set Implicit Arguments.
Local Open Scope Z_scope.

Lemma vert_inv_nf F k p : is_fn k = false -> vert_inv F k p.
Proof. destruct k; cbn; intros Q; try exact I. discriminate Q. Qed.

(* the requirement edges of a function are present *)
Definition has_fn (g : rg) (c : fdecl) : Prop :=
  vertex g (KFunc (fn_type c)) /\
  (forall fld, In fld (fn_in c) -> exists w, edge g (KFunc (fn_type c)) (field_key fld) w) /\
  (fn_in c = [] -> exists w, edge g (KFunc (fn_type c)) KRoot w).

Lemma has_fn_mono g g' c : gsub g g' -> has_fn g c -> has_fn g' c.
Proof.
  intros (Sv & Se & _) (V & A & B). split; [apply Sv; exact V|]. split.
  - intros fld Ifld. destruct (A fld Ifld) as (w & Ed). eapply Se; eauto.
  - intros Q. destruct (B Q) as (w & Ed). eapply Se; eauto.
Qed.

(* func_graph as a composition of named stages *)
Definition fgA (g : rg) (c : fdecl) : rg := g_add g (KFunc (fn_type c)) (PFunc c).
Definition fgB (g : rg) (c : fdecl) : rg :=
  match fn_in c with [] => add_e g (KFunc (fn_type c)) KRoot w_normal | _ => g end.
Definition fgC_step (c : fdecl) (g : rg) (fld : field) : rg :=
  add_e (add_v g (field_key fld)) (KFunc (fn_type c)) (field_key fld)
        (if String.eqb (f_name fld) EmptyString then w_typed else w_normal).
Definition fgC (g : rg) (c : fdecl) : rg := fold_left (fgC_step c) (fn_in c) g.
Definition fgD (g : rg) (c : fdecl) (inc : bool) : rg :=
  if inc then
    fold_left (fun g fld => let k := field_out_key fld in add_e (add_v g k) k (KFunc (fn_type c)) w_typed)
              (typed_entries (fn_out c))
      (fold_left (fun g fld => let k := field_out_key fld in add_e (add_v g k) k (KFunc (fn_type c)) w_normal)
                 (named_entries (fn_out c)) g)
  else g.

Lemma func_graph_eq g c inc : func_graph g c inc = fgD (fgC (fgB (fgA g c) c) c) c inc.
Proof. reflexivity. Qed.

Section Inv.
  Variable u : universe.
  Variable F : list fdecl.
  Variable vals : amap vkey value.
  Notation EI := (edge_inv u F vals).

  Definition GI (g : rg) : Prop :=
    wf_graph g /\
    (forall a b w, edge g a b w -> EI a b w) /\
    (forall k pay, g_vertex g k = Some pay -> vert_inv F k pay) /\
    vertex g KRoot.
  Definition GS (g0 g : rg) : Prop := GI g /\ gsub g0 g.

  Lemma GS_refl g : GI g -> GS g g.
  Proof. intros I. split; [exact I|apply gsub_refl]. Qed.

  Lemma GS_trans g0 g1 g2 : GS g0 g1 -> GS g1 g2 -> GS g0 g2.
  Proof. intros [_ S1] [I2 S2]. split; [exact I2|eapply gsub_trans; eauto]. Qed.

  Lemma GS_wf g0 g : GS g0 g -> wf_graph g.
  Proof. intros [[W _] _]. exact W. Qed.

  Lemma GI_root g : GI g -> vertex g KRoot.
  Proof. intros (_ & _ & _ & VR). exact VR. Qed.

  Lemma GS_vertex g0 g x : GS g0 g -> vertex g0 x -> vertex g x.
  Proof. intros [_ (Sv & _)] V. apply Sv; exact V. Qed.

  Lemma GI_add g k v : GI g -> vert_inv F k v -> GI (g_add g k v).
  Proof.
    intros (W & IE & IV & VR) Vk. destruct (g_add_facts k v W) as (W' & Vx & Fe & Fv).
    split; [exact W'|]. split; [|split; [|apply Vx; right; exact VR]].
    - intros a b w. rewrite edge_fe, Fe. apply IE.
    - intros x pay. rewrite gv_fv, Fv. destruct (fvof g k) eqn:Qk; [apply IV|].
      destruct (Base.eqb_spec x k) as [->|N]; [|apply IV].
      intros Q; inversion Q; subst. exact Vk.
  Qed.

  Lemma GI_over g k v : GI g -> is_fn k = false -> GI (g_add_overwrite g k v).
  Proof.
    intros (W & IE & IV & VR) Nf. destruct (g_over_facts k v W) as (W' & Vx & Fe & Fv).
    split; [exact W'|]. split; [|split; [|apply Vx; right; exact VR]].
    - intros a b w. rewrite edge_fe, Fe. apply IE.
    - intros x pay. rewrite gv_fv, Fv.
      destruct (Base.eqb_spec x k) as [->|N]; [|apply IV].
      intros _. apply vert_inv_nf; exact Nf.
  Qed.

  Lemma GI_add_e g a b w : GI g -> EI a b w -> GI (add_e g a b w).
  Proof.
    intros (W & IE & IV & VR) Ok. split; [apply add_e_wf; exact W|].
    split; [|split; [|apply add_e_vertex; assumption]].
    - intros x y w' Ed. destruct (add_e_edge_inv _ _ _ W Ed) as [A|(-> & -> & ->)]; auto.
    - intros k pay. rewrite add_e_gv; [apply IV|exact W].
  Qed.

  Lemma GS_add g0 g k v : GS g0 g -> vert_inv F k v -> GS g0 (g_add g k v).
  Proof.
    intros [I S] Vk. split; [apply GI_add; assumption|].
    eapply gsub_trans; [exact S|apply gsub_add; apply I].
  Qed.

  Lemma GS_add_v g0 g k : GS g0 g -> is_fn k = false -> GS g0 (add_v g k).
  Proof. intros G Nf. apply GS_add; [exact G|apply vert_inv_nf; exact Nf]. Qed.

  Lemma GS_over g0 g k v : GS g0 g -> is_fn k = false -> GS g0 (g_add_overwrite g k v).
  Proof.
    intros [I S] Nf. split; [apply GI_over; assumption|].
    eapply gsub_trans; [exact S|apply gsub_over; [apply I|exact Nf]].
  Qed.

  Lemma GS_add_e g0 g a b w : GS g0 g -> EI a b w -> GS g0 (add_e g a b w).
  Proof.
    intros [I S] Ok. split; [apply GI_add_e; auto|].
    eapply gsub_trans; [exact S|apply gsub_add_e; apply I].
  Qed.

  Lemma GS_fold {A} (step : rg -> A -> rg) (l : list A) g0 :
    (forall g x, In x l -> GS g0 g -> GS g0 (step g x)) ->
    forall g, GS g0 g -> GS g0 (fold_left step l g).
  Proof.
    induction l as [|x l IH]; intros St g G; simpl; [exact G|].
    apply IH.
    - intros g' y Iy. apply St. right; exact Iy.
    - apply St; [left; reflexivity|exact G].
  Qed.

  Lemma fold_adds {A} (step : rg -> A -> rg) (Q : A -> rg -> Prop) (l : list A) :
    (forall gb g x, In x l -> GS gb g -> GS gb (step g x)) ->
    forall g0, (forall g x, In x l -> GS g0 g -> Q x (step g x)) ->
    (forall x g g', gsub g g' -> Q x g -> Q x g') ->
    forall g, GS g0 g -> forall x, In x l -> Q x (fold_left step l g).
  Proof.
    induction l as [|y l IH]; intros St g0 Hq Mono g G x Ix; [destruct Ix|].
    cbn [fold_left].
    assert (St' : forall gb g x, In x l -> GS gb g -> GS gb (step g x)).
    { intros gb g' z Iz. apply St. right; exact Iz. }
    assert (G1 : GS g0 (step g y)) by (apply St; [left; reflexivity|exact G]).
    destruct Ix as [->|Ix].
    - assert (Qx : Q x (step g x)) by (apply Hq; [left; reflexivity|exact G]).
      eapply Mono; [|exact Qx].
      assert (G2 : GS (step g x) (fold_left step l (step g x))).
      { apply GS_fold; [intros g' z Iz; apply St'; exact Iz|]. apply GS_refl. apply G1. }
      apply G2.
    - apply IH with (g0 := g0); auto.
      intros g' z Iz. apply Hq. right; exact Iz.
  Qed.

  (* ---------- the shapes of the added edges ---------- *)
  Lemma EI_func_in h fld w :
    In h F -> In fld (fn_in h) -> 1 <= w <= 20 -> EI (KFunc (fn_type h)) (field_key fld) w.
  Proof.
    intros Ih If Rw. unfold edge_inv. split; [exact Rw|].
    destruct (field_key fld) eqn:E;
      try (exfalso; unfold field_key in E; destruct (String.eqb (f_name fld) ""); discriminate E);
      exists h, fld; rewrite E; auto.
  Qed.

  Lemma EI_func_root h : In h F -> fn_in h = [] -> EI (KFunc (fn_type h)) KRoot w_normal.
  Proof.
    intros Ih E. unfold edge_inv. split; [unfold w_normal; lia|]. exists h. auto.
  Qed.

  Lemma EI_out_func h fld w :
    In h F -> In fld (fn_out h) -> 1 <= w <= 20 -> EI (field_out_key fld) (KFunc (fn_type h)) w.
  Proof.
    intros Ih If Rw. unfold edge_inv. split; [exact Rw|].
    destruct (field_out_key fld) eqn:E;
      try (exfalso; unfold field_out_key in E; destruct (String.eqb (f_name fld) ""); discriminate E);
      exists h, fld; rewrite E; auto.
  Qed.

  Lemma EI_input k :
    match k with KVal _ _ _ | KOut _ _ => True | _ => False end -> mem k vals = true -> EI k KRoot w_normal.
  Proof.
    intros Sh M. unfold edge_inv. split; [unfold w_normal; lia|].
    destruct k; try contradiction; exact M.
  Qed.

  (* ---------- Func.graph ---------- *)
  Lemma GS_fgA g c : In c F -> GI g -> GS g (fgA g c).
  Proof.
    intros Ic I. unfold fgA. apply GS_add; [apply GS_refl; exact I|].
    cbn. exists c. auto.
  Qed.

  Lemma GS_fgB g c : In c F -> GI g -> GS g (fgB g c).
  Proof.
    intros Ic I. unfold fgB. destruct (fn_in c) eqn:E; [|apply GS_refl; exact I].
    apply GS_add_e; [apply GS_refl; exact I|]. apply EI_func_root; assumption.
  Qed.

  Lemma GS_fgC_step gb g c fld : In c F -> In fld (fn_in c) -> GS gb g -> GS gb (fgC_step c g fld).
  Proof.
    intros Ic If G. unfold fgC_step.
    apply GS_add_e; [apply GS_add_v; [exact G|apply field_key_nf]|].
    apply EI_func_in; auto.
    destruct (String.eqb (f_name fld) ""); unfold w_typed, w_normal; lia.
  Qed.

  Lemma GS_fgC g c : In c F -> GI g -> GS g (fgC g c).
  Proof.
    intros Ic I. unfold fgC. apply GS_fold; [|apply GS_refl; exact I].
    intros g' fld If G'. apply GS_fgC_step; assumption.
  Qed.

  Lemma GS_fgD g c inc : In c F -> GI g -> GS g (fgD g c inc).
  Proof.
    intros Ic I. unfold fgD. destruct inc; [|apply GS_refl; exact I].
    apply GS_fold.
    { intros g' fld If G'. cbv zeta.
      apply GS_add_e; [apply GS_add_v; [exact G'|apply field_out_key_nf]|].
      apply EI_out_func; [exact Ic|apply typed_entries_in; exact If|unfold w_typed; lia]. }
    apply GS_fold; [|apply GS_refl; exact I].
    intros g' fld If G'. cbv zeta.
    apply GS_add_e; [apply GS_add_v; [exact G'|apply field_out_key_nf]|].
    apply EI_out_func; [exact Ic|apply named_entries_in; exact If|unfold w_normal; lia].
  Qed.

  Lemma func_graph_facts g c inc :
    In c F -> GI g ->
    GS g (func_graph g c inc) /\ has_fn (func_graph g c inc) c /\
    (g_vertex g (KFunc (fn_type c)) = None -> g_vertex (func_graph g c inc) (KFunc (fn_type c)) = Some (PFunc c)).
  Proof.
    intros Ic I. pose proof (GI_root I) as VR. rewrite func_graph_eq.
    set (fk := KFunc (fn_type c)).
    pose proof (GS_fgA c Ic I) as GA.
    pose proof (GS_fgB c Ic (proj1 GA)) as GB.
    pose proof (GS_fgC c Ic (proj1 GB)) as GC.
    pose proof (GS_fgD c inc Ic (proj1 GC)) as GD.
    set (gA := fgA g c) in *. set (gB := fgB gA c) in *. set (gC := fgC gB c) in *.
    set (gD := fgD gC c inc) in *.
    assert (VA : vertex gA fk).
    { unfold gA, fgA. apply (g_add_facts fk (PFunc c) (proj1 I)). left; reflexivity. }
    assert (VRA : vertex gA KRoot) by (eapply GS_vertex; eauto).
    assert (VB : vertex gB fk) by (eapply GS_vertex; eauto).
    split; [|split].
    - eapply GS_trans; [exact GA|]. eapply GS_trans; [exact GB|]. eapply GS_trans; [exact GC|exact GD].
    - apply has_fn_mono with (g := gC); [apply GD|].
      split; [eapply GS_vertex; eauto|]. split.
      + intros fld Ifld. unfold gC, fgC.
        apply (@fold_adds field (fgC_step c)
                 (fun fld g => exists w, edge g fk (field_key fld) w) (fn_in c)) with (g0 := gB); auto.
        * intros gb g' x Ix G'. apply GS_fgC_step; assumption.
        * intros g' x Ix G'. unfold fgC_step.
          assert (W : wf_graph g') by (eapply GS_wf; eauto).
          destruct (g_add_facts (field_key x) PNone W) as (W' & Vx & _).
          eexists. apply add_e_edge_new; [exact W'| |].
          -- apply Vx; right. eapply GS_vertex; eauto.
          -- apply Vx; left; reflexivity.
        * intros x g1 g2 (_ & Se & _) (w & Ed). eapply Se; eauto.
        * apply GS_refl. apply GB.
      + intros E. destruct GC as [_ (_ & Se & _)].
        assert (Ed : edge gB fk KRoot w_normal).
        { unfold gB, fgB. rewrite E. apply add_e_edge_new; [apply GA|exact VA|exact VRA]. }
        eapply Se; eauto.
    - intros Q.
      assert (QA : g_vertex gA fk = Some (PFunc c)).
      { unfold gA, fgA. destruct (g_add_facts fk (PFunc c) (proj1 I)) as (_ & _ & _ & Fv).
        rewrite gv_fv, Fv. rewrite gv_fv in Q. fold fk in Q. rewrite Q, Base.eqb_refl. reflexivity. }
      apply GD. apply GC. apply GB. exact QA.
  Qed.

  Lemma GS_func_graph g0 g c inc : In c F -> GS g0 g -> GS g0 (func_graph g c inc).
  Proof.
    intros Ic G. eapply GS_trans; [exact G|].
    apply func_graph_facts; [exact Ic|apply G].
  Qed.

  (* ---------- the completion steps of callGraph ---------- *)
  Lemma GS_step_values g : GI g -> GS g (step_values g).
  Proof.
    intros I. unfold step_values. apply GS_fold; [|apply GS_refl; exact I].
    intros g' k _ G'. destruct k as [|ft|n t s|t s|t s]; try exact G'.
    assert (G1 : GS g (add_e (add_v g' (KOut t "")) (KVal n t s) (KOut t "") w_typed)).
    { apply GS_add_e; [apply GS_add_v; [exact G'|reflexivity]|].
      unfold edge_inv. split; [unfold w_typed; lia|split; reflexivity]. }
    assert (G2 : GS g (add_e (add_v (add_e (add_v g' (KOut t "")) (KVal n t s) (KOut t "") w_typed) (KArg t ""))
                             (KArg t "") (KVal n t s) w_typed)).
    { apply GS_add_e; [apply GS_add_v; [exact G1|reflexivity]|].
      unfold edge_inv. split; [unfold w_typed; lia|split; reflexivity]. }
    cbv zeta. destruct (String.eqb s ""); [exact G2|].
    apply GS_add_e; [apply GS_add_v; [exact G2|reflexivity]|].
    unfold edge_inv. split; [unfold w_typed; lia|split; reflexivity].
  Qed.

  Lemma GS_step_args g : GI g -> GS g (step_args g).
  Proof.
    intros I. unfold step_args. apply GS_fold; [|apply GS_refl; exact I].
    intros g' k _ G'. destruct k as [|ft|n t s|t s|t s]; try exact G'.
    apply GS_add_e; [apply GS_add_v; [exact G'|reflexivity]|].
    unfold edge_inv. split; [unfold w_typed; lia|reflexivity].
  Qed.

  Lemma GS_step_ifaces g : GI g -> GS g (step_ifaces u g).
  Proof.
    intros I. unfold step_ifaces. apply GS_fold; [|apply GS_refl; exact I].
    intros g' k _ G'. destruct k as [|ft|n t s|t s|t s]; try exact G'.
    destruct (is_iface u t); [|exact G'].
    apply GS_fold; [|exact G'].
    intros g'' k2 _ G''. destruct k2 as [|ft2|n2 t2 s2|t2 s2|t2 s2]; try exact G''.
    match goal with |- GS g (if ?c then _ else _) => destruct c eqn:C end; [|exact G''].
    apply andb_true_iff in C. destruct C as [_ C].
    apply GS_add_e; [exact G''|].
    unfold edge_inv. split; [unfold w_typed; lia|exact C].
  Qed.

  Lemma GS_step_named_sub valued g : GI g -> GS g (step_named_sub valued g).
  Proof.
    intros I. unfold step_named_sub. apply GS_fold; [|apply GS_refl; exact I].
    intros g' k _ G'. destruct k as [|ft|n t s|t s|t s]; try exact G'.
    match goal with |- GS g (if ?c then _ else _) => destruct c eqn:C0 end; [|exact G'].
    apply andb_true_iff in C0. destruct C0 as [C0 _]. apply String.eqb_eq in C0.
    apply GS_fold; [|exact G'].
    intros g'' k2 _ G''. destruct k2 as [|ft2|n2 t2 s2|t2 s2|t2 s2]; try exact G''.
    match goal with |- GS g (if ?c then _ else _) => destruct c eqn:C end; [|exact G''].
    apply andb_true_iff in C. destruct C as [C C3]. apply andb_true_iff in C. destruct C as [C1 C2].
    apply String.eqb_eq in C1. apply Z.eqb_eq in C2. apply negb_true_iff in C3.
    apply String.eqb_neq in C3.
    apply GS_add_e; [exact G''|].
    unfold edge_inv. split; [unfold w_typed; lia|]. unfold w_typed. auto.
  Qed.

  Lemma GS_step_arg_sub g : GI g -> GS g (step_arg_sub g).
  Proof.
    intros I. unfold step_arg_sub. apply GS_fold; [|apply GS_refl; exact I].
    intros g' k _ G'. destruct k as [|ft|n t s|t s|t s]; try exact G'.
    apply GS_fold; [|exact G'].
    intros g'' k2 _ G''. destruct k2 as [|ft2|n2 t2 s2|t2 s2|t2 s2]; try exact G''.
    match goal with |- GS g (if ?c then _ else _) => destruct c eqn:C end; [|exact G''].
    apply andb_true_iff in C. destruct C as [C1 _]. apply Z.eqb_eq in C1.
    apply GS_add_e; [exact G''|].
    unfold edge_inv. split; [unfold w_other_subtype; lia|exact C1].
  Qed.

  (* ---------- inputs ---------- *)
  Lemma GS_inputs (kvs : list (vkey * value)) gb g :
    (forall kv, In kv kvs ->
       match fst kv with KVal _ _ _ | KOut _ _ => True | _ => False end /\ mem (fst kv) vals = true) ->
    GS gb g ->
    GS gb (fold_left (fun g kv => add_e (g_add_overwrite g (fst kv) PNone) (fst kv) KRoot w_normal) kvs g).
  Proof.
    intros Hk G. apply GS_fold; [|exact G].
    intros g' kv Ikv G'. destruct (Hk kv Ikv) as [A B].
    apply GS_add_e; [apply GS_over; [exact G'|]|apply EI_input; auto].
    destruct (fst kv); try reflexivity; contradiction.
  Qed.
End Inv.

(* ---------- generators ---------- *)
Definition gacc := (rg * list fdecl * list event * option Z)%type.

Definition gen_inner (k : vkey) (acc0 : gacc) (gn : gen) : gacc :=
  let '(g2, convs1, tr1, err0) := acc0 in
  match err0 with
  | Some _ => acc0
  | None =>
    let tr2 := tr1 ++ [EGen (gen_id gn) k] in
    match lookup k (gen_table gn) with
    | Some (GErr e) => (g2, convs1, tr2, Some e)
    | Some (GFunc f) => (func_graph g2 f true, convs1 ++ [f], tr2, None)
    | _ => (g2, convs1, tr2, None)
    end
  end.

Definition gen_outer (gens : list gen) (acc : gacc) (k : vkey) : gacc :=
  let '(g1, convs0, tr0, err) := acc in
  match err with
  | Some _ => acc
  | None => if value_of_vertex k then fold_left (gen_inner k) gens acc else acc
  end.

Lemma run_gens_eq g gens ks convs tr :
  run_gens g gens ks convs tr = fold_left (gen_outer gens) ks (g, convs, tr, None).
Proof. reflexivity. Qed.

Lemma gen_funcs_in (gens : list gen) gn k c :
  In gn gens -> lookup k (gen_table gn) = Some (GFunc c) -> In c (gen_funcs gens).
Proof.
  intros Ign L. unfold gen_funcs. apply in_flat_map. exists gn. split; [exact Ign|].
  apply in_flat_map. exists (k, GFunc c). split; [apply lookup_In; exact L|left; reflexivity].
Qed.

Section Gens.
  Variable u : universe.
  Variable vals : amap vkey value.
  Variable allgens : list gen.
  Variable g0 : rg.           (* the graph the generators start from *)
  Variable convs0 : list fdecl.

  (* what holds of an accumulator of run_gens *)
  Definition gen_ok (acc : gacc) : Prop :=
    let '(g, convs, _, _) := acc in
    (exists new, convs = convs0 ++ new /\ forall c, In c new -> In c (gen_funcs allgens)) /\
    forall F, incl convs F -> GI u F vals g0 ->
      GS u F vals g0 g /\ forall c, In c convs -> In c convs0 \/ has_fn g c.

  Lemma gen_inner_ok k gn acc : In gn allgens -> gen_ok acc -> gen_ok (gen_inner k acc gn).
  Proof.
    intros Ign Ok. destruct acc as [[[g c] tr] e]. unfold gen_inner.
    destruct e; [exact Ok|]. cbv zeta.
    destruct (lookup k (gen_table gn)) as [[| e | f]|] eqn:L; try exact Ok.
    destruct Ok as [(new & Ec & Hnew) Ok]. split.
    - exists (new ++ [f]). split; [rewrite Ec, app_assoc; reflexivity|].
      intros c' Ic'. apply in_app_iff in Ic'. destruct Ic' as [Ic'|[<-|[]]]; [auto|].
      eapply gen_funcs_in; eauto.
    - intros F Hincl I0.
      assert (Hc : incl c F) by (intros x Ix; apply Hincl, in_or_app; left; exact Ix).
      assert (Hf : In f F) by (apply Hincl, in_or_app; right; left; reflexivity).
      destruct (Ok F Hc I0) as [G Has].
      destruct (@func_graph_facts u F vals g f true Hf (proj1 G)) as (G' & Hf' & _).
      split; [eapply GS_trans; eauto|].
      intros c' Ic'. apply in_app_iff in Ic'. destruct Ic' as [Ic'|[<-|[]]].
      + destruct (Has c' Ic') as [A|A]; [left; exact A|right].
        eapply has_fn_mono; [apply G'|exact A].
      + right; exact Hf'.
  Qed.

  Lemma gen_inner_fold_ok k gl : (forall gn, In gn gl -> In gn allgens) ->
    forall acc, gen_ok acc -> gen_ok (fold_left (gen_inner k) gl acc).
  Proof.
    induction gl as [|gn gl IH]; intros Sub acc Ok; cbn [fold_left]; [exact Ok|].
    apply IH; [intros gn' A; apply Sub; right; exact A|].
    apply gen_inner_ok; [apply Sub; left; reflexivity|exact Ok].
  Qed.

  Lemma gen_outer_ok k acc : gen_ok acc -> gen_ok (gen_outer allgens acc k).
  Proof.
    intros Ok. destruct acc as [[[g c] tr] e]. unfold gen_outer.
    destruct e; [exact Ok|]. destruct (value_of_vertex k); [|exact Ok].
    apply gen_inner_fold_ok; auto.
  Qed.

  Lemma gen_outer_fold_ok ks : forall acc, gen_ok acc -> gen_ok (fold_left (gen_outer allgens) ks acc).
  Proof.
    induction ks as [|k ks IH]; intros acc Ok; cbn [fold_left]; [exact Ok|].
    apply IH. apply gen_outer_ok; exact Ok.
  Qed.

  Lemma run_gens_ok ks tr : gen_ok (run_gens g0 allgens ks convs0 tr).
  Proof.
    rewrite run_gens_eq. apply gen_outer_fold_ok. unfold gen_ok. split.
    - exists []. split; [rewrite app_nil_r; reflexivity|intros c []].
    - intros F _ I0. split; [apply GS_refl; exact I0|]. intros c Ic; left; exact Ic.
  Qed.
End Gens.

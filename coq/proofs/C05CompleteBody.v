(* C05CompleteBody.v -- one level of reach: given what the recursive call
   does on the function vertices of the planned paths, reach_body returns an
   argument map for every requirement (or a converter's error, or TapeErr). *)
From ArgMapper Require Import Base Graph GraphAlg GraphSpec Types Args Resolver ResolverSpec
     CheckResolver Monitors ResolverStatements.
From ArgMapper.proofs Require Import C18DijkstraLemmas C19RefineMap C19RefineGraph C20aDfs
     C05CompleteDefs C05CompleteReachEq C05CompleteState C05CompletePlan C05CompleteReq C05CompleteWalk.
From Coq Require Import Lia ZArith List String.
Import ListNotations.
Set Implicit Arguments.
Local Open Scope Z_scope.

Lemma list_eq_dec_nil {A} (l : list A) : l = [] \/ l <> [].
Proof. destruct l; [left; reflexivity|right; discriminate]. Qed.

Lemma Forall2_in_r {A B} (R : A -> B -> Prop) l1 l2 y :
  Forall2 R l1 l2 -> In y l2 -> exists x, In x l1 /\ R x y.
Proof.
  induction 1 as [|a b l1 l2 Rab F2 IH]; intros Iy; [destruct Iy|].
  destruct Iy as [<-|Iy]; [exists a; split; [left; reflexivity|exact Rab]|].
  destruct (IH Iy) as (x & Ix & Rx). exists x. split; [right; exact Ix|exact Rx].
Qed.

Section Body.
  Variable u : universe.
  Variable bh : behaviour.
  Variable g : rgraph.
  Variable F : list fdecl.
  Variable vals0 : amap vkey value.

  Hypothesis WF : wf_graph g.
  Hypothesis ROOT : vertex g KRoot.
  Hypothesis EI : forall a b w, edge g a b w -> edge_inv u F vals0 a b w.
  Hypothesis VI : forall k pay, g_vertex g k = Some pay -> vert_inv F k pay.
  Hypothesis UT : univ_trans u = true.
  Hypothesis SAMESIG : forall f1 f2, In f1 F -> In f2 F -> fn_type f1 = fn_type f2 ->
      sig_of (fn_in f1) = sig_of (fn_in f2) /\ sig_of (fn_out f1) = sig_of (fn_out f2).
  Hypothesis SAMEID : forall f1 f2, In f1 F -> In f2 F -> fn_id f1 = fn_id f2 -> fn_type f1 = fn_type f2.
  Hypothesis WFFN : forall f, In f F -> wf_fn f = true.
  Hypothesis SMALL : 20 * (Z.of_nat (List.length (g_vertex_keys g)) + 1) < INF.
  Hypothesis RR : forall k, vertex g k -> GraphSpec.reach g k KRoot.

  Notation Inv := (Inv u bh F vals0).
  Notation val_ok := (val_ok u).

  Lemma WB : forall a b w, edge g a b w -> 1 <= w <= 20.
  Proof. intros a b w Q. exact (proj1 (@EI _ _ _ Q)). Qed.

  Variable rec : vkey -> rstate -> res (rstate * (argmap + rerr)).
  Variable Pre : vkey -> rstate -> Prop.

  (* ---------- chains from planned paths ---------- *)
  Lemma chain_of_edges : forall vs p,
    (forall l1 a b l2, p :: vs = l1 ++ a :: b :: l2 -> exists w, edge g b a w) ->
    chain_ok g (Some p) vs.
  Proof.
    induction vs as [|v vs IH]; intros p H; cbn [chain_ok]; [exact Logic.I|].
    split.
    - apply (H [] p v vs). reflexivity.
    - apply IH. intros l1 a b l2 E. apply (H (p :: l1) a b l2). cbn [app]. rewrite E. reflexivity.
  Qed.

  Lemma path_chain cur path : path_ok g cur path -> chain_ok g None path.
  Proof.
    intros PO. destruct (po_head PO) as [rest ->]. cbn [chain_ok]. split; [reflexivity|].
    apply chain_of_edges. intros l1 a b l2 E. eapply (po_edges PO). exact E.
  Qed.

  Lemma path_last_opt cur path : path_ok g cur path -> last_opt None path = Some cur.
  Proof.
    intros PO. destruct (po_head PO) as [rest E]. pose proof (po_last PO) as L. subst path.
    unfold last_opt. rewrite L. reflexivity.
  Qed.

  (* the hypotheses the walk lemma needs, for the vertices of one path *)
  Definition path_hyps (ip0 : list vkey) (path : list vkey) : Prop :=
    (forall v, In v path -> is_fn v = true -> complete_v g v) /\
    (forall v s1, In v path -> is_fn v = true -> Inv s1 -> s_inprog s1 = ip0 -> Pre v s1 ->
                  good_rec u bh g F vals0 v s1 (rec v s1)) /\
    (forall v p fin s1, In v path -> is_fn v = true -> (exists w, edge g v p w) -> Inv s1 ->
                        J g (Some p) fin s1 -> Pre v s1).

  Definition am_typed (am : argmap) : Prop := forall r x, lookup r am = Some x -> val_ok r x.

  Lemma leave_inprog target s ip : s_inprog s = target :: ip -> s_inprog (leave_ target s) = ip.
  Proof.
    intros E. unfold leave_. cbn [set_inprog s_inprog]. rewrite E. cbn [remove1]. rewrite Base.eqb_refl. reflexivity.
  Qed.

  Lemma Inv_leave target s : Inv s -> Inv (leave_ target s).
  Proof. intros I. eapply Inv_ext; [| |exact I]; reflexivity. Qed.

  (* ---------- walking all planned paths ---------- *)
  Definition paths_good (target : vkey) (ip : list vkey) (am0 : argmap) (todo : list vkey)
             (r : res (rstate * (argmap + rerr))) : Prop :=
    (exists site, r = TapeErr site) \/
    (exists s' e, r = Ok (s', inr (XConv e)) /\ Inv s' /\ s_inprog s' = ip /\
                  exists fid n, bh fid n = BErr e) \/
    (exists s' am, r = Ok (s', inl am) /\ Inv s' /\ s_inprog s' = ip /\ am_typed am /\
                   (forall r0, lookup r0 am0 <> None -> lookup r0 am <> None) /\
                   (forall cur, In cur todo -> lookup cur am <> None)).

  Lemma walk_paths_ok target ip : forall todo paths,
    Forall2 (path_ok g) todo paths ->
    (forall cur, In cur todo -> is_req cur = true) ->
    (forall path, In path paths -> path_hyps (target :: ip) path) ->
    forall am s, Inv s -> s_inprog s = target :: ip -> am_typed am ->
    paths_good target ip am todo (walk_paths_ u bh g false rec target paths am s).
  Proof.
    induction 1 as [|cur path todo paths PO F2 IH]; intros RQ PH am s I IP AT.
    - rewrite walk_paths_nil. right; right. exists (leave_ target s), am.
      split; [reflexivity|]. split; [apply Inv_leave; exact I|]. split; [apply leave_inprog; exact IP|].
      split; [exact AT|]. split; [auto|]. intros c [].
    - rewrite walk_paths_cons.
      destruct (PH path (or_introl eq_refl)) as (HC & HR & HP).
      pose proof (@walk_ok u bh g F vals0 WF EI VI UT SAMESIG SAMEID WFFN rec Pre (target :: ip)
                           path None None s (path_chain PO) I IP Logic.I HC HR HP) as WG.
      rewrite (path_last_opt PO) in WG.
      destruct WG as [[site Q]|[(s1 & e & Q & I1 & IP1 & B)|(s1 & fin & Q & I1 & IP1 & Jf)]]; rewrite Q; cbn [bind].
      + left. exists site. reflexivity.
      + right; left. exists (leave_ target s1), e. split; [reflexivity|].
        split; [apply Inv_leave; exact I1|]. split; [apply leave_inprog; exact IP1|exact B].
      + assert (FV : exists x, fin = Some x /\ val_ok cur x).
        { pose proof (RQ cur (or_introl eq_refl)) as R.
          destruct cur as [| |n t st|t st|]; try discriminate R; cbn [J] in Jf.
          - destruct Jf as (x & Lx & _ & Ef). exists x. split; [exact Ef|]. exact (@inv_typed u bh F vals0 s1 I1 _ _ Lx).
          - destruct Jf as (x & Lx & Ef). exists x. split; [exact Ef|]. exact (@inv_typed u bh F vals0 s1 I1 _ _ Lx). }
        destruct FV as (x & -> & Vx). rewrite (po_last PO).
        assert (AT' : am_typed (insert cur x am)).
        { intros r0 x0. rewrite lookup_insert. destruct (Base.eqb_spec r0 cur) as [->|N].
          - intros E; inversion E; subst. exact Vx.
          - apply AT. }
        destruct (IH (fun c Ic => RQ c (or_intror Ic)) (fun p Ip => PH p (or_intror Ip))
                     (insert cur x am) s1 I1 IP1 AT') as
            [[site Q2]|[(s2 & e & Q2 & I2 & IP2 & B)|(s2 & am2 & Q2 & I2 & IP2 & AT2 & G2 & C2)]].
        * left. exists site. exact Q2.
        * right; left. exists s2, e. auto.
        * right; right. exists s2, am2. split; [exact Q2|]. split; [exact I2|]. split; [exact IP2|].
          split; [exact AT2|]. split.
          -- intros r0 N. apply G2. rewrite lookup_insert. destruct (Base.eqb r0 cur); [discriminate|exact N].
          -- intros c [<-|Ic]; [|apply C2; exact Ic].
             apply G2. rewrite lookup_insert, Base.eqb_refl. discriminate.
  Qed.

  (* ---------- one level of reach ---------- *)
  Lemma out_keys_edge_iff (a x : vkey) : In x (g_out_keys g a) <-> exists w, edge g a x w.
  Proof. unfold g_out_keys, edge. apply in_keys_lookup. Qed.

  Lemma func_out_kind ft b w : edge g (KFunc ft) b w -> b = KRoot \/ is_req b = true.
  Proof.
    intros Q. pose proof (@EI _ _ _ Q) as (_ & K).
    destruct b; cbn in K; try contradiction K; auto.
  Qed.

  (* the part of reach_body after the requirements were split *)
  Definition after_split (target : vkey) (am : argmap) (todo : list vkey) (s : rstate)
    : res (rstate * (argmap + rerr)) :=
    match todo with
    | [] => Ok (leave_ target s, inl am)
    | _ =>
      do (paths, unsat, s) <- plan_all g false todo s;
      match unsat with
      | _ :: _ => Ok (leave_ target s, inr (XUnsat unsat [] [] false))
      | [] => walk_paths_ u bh g false rec target paths am s
      end
    end.

  Lemma after_split_cons target am todo s : todo <> [] ->
    after_split target am todo s =
    (do (paths, unsat, s) <- plan_all g false todo s;
     match unsat with
     | _ :: _ => Ok (leave_ target s, inr (XUnsat unsat [] [] false))
     | [] => walk_paths_ u bh g false rec target paths am s
     end).
  Proof. destruct todo; [intros N; contradiction N; reflexivity|reflexivity]. Qed.

  Lemma reach_body_eq target s :
    reach_body u bh g false rec target s =
    (let s1 := set_inprog s (target :: s_inprog s) in
     do (outs, t') <- take_perm SITE_REACH_OUT (g_out_keys g target) (s_tape s1);
     let s2 := set_tape s1 t' in
     after_split target (fst (req_split false s2 outs)) (snd (req_split false s2 outs)) s2).
  Proof.
    unfold reach_body, after_split. cbv zeta.
    destruct (take_perm SITE_REACH_OUT (g_out_keys g target) (s_tape (set_inprog s (target :: s_inprog s))))
      as [[outs t']| | |]; cbn [bind]; try reflexivity.
    destruct (req_split false (set_tape (set_inprog s (target :: s_inprog s)) t') outs) as [am todo].
    reflexivity.
  Qed.

  Lemma reach_body_ok ft s :
    Inv s ->
    (* no planned path meets a function that is being resolved *)
    (forall cur path w, edge g (KFunc ft) cur w -> path_ok g cur path ->
                        existsb (fun v => memb v (KFunc ft :: s_inprog s)) path = false) ->
    (forall cur path w, edge g (KFunc ft) cur w -> path_ok g cur path ->
                        path_hyps (KFunc ft :: s_inprog s) path) ->
    good_rec u bh g F vals0 (KFunc ft) s (reach_body u bh g false rec (KFunc ft) s).
  Proof.
    intros I NB PHY. rewrite reach_body_eq. cbv zeta.
    set (s1 := set_inprog s (KFunc ft :: s_inprog s)).
    destruct (take_perm_total SITE_REACH_OUT (g_out_keys g (KFunc ft)) (s_tape s1)) as [[[outs t'] T]|T]; rewrite T; cbn [bind].
    2:{ left. exists SITE_REACH_OUT. reflexivity. }
    pose proof (take_perm_In _ _ _ T) as TI.
    set (s2 := set_tape s1 t').
    assert (I2 : Inv s2) by (eapply Inv_ext; [| |exact I]; reflexivity).
    assert (IP2 : s_inprog s2 = KFunc ft :: s_inprog s) by reflexivity.
    assert (OUTS : forall o, In o outs <-> exists w, edge g (KFunc ft) o w).
    { intros o. rewrite TI. apply out_keys_edge_iff. }
    destruct (req_split false s2 outs) as [am todo] eqn:RS. cbn [fst snd].
    destruct (@req_split_spec s2 outs) with (am := am) (todo := todo) as (A1 & A2 & A3); [|exact RS|].
    { intros o Io. apply OUTS in Io. destruct Io as [w Q]. eapply func_out_kind; eauto. }
    assert (AT : am_typed am).
    { intros r x L. apply A1 in L. exact (@inv_typed u bh F vals0 s2 I2 _ _ L). }
    assert (TD : forall cur, In cur todo -> exists w, edge g (KFunc ft) cur w).
    { intros cur Ic. apply A3 in Ic. destruct Ic as [Io _]. apply OUTS in Io. exact Io. }
    destruct (list_eq_dec_nil todo) as [->|TN].
    - (* nothing to plan *)
      right; right. exists (leave_ (KFunc ft) s2), am. split; [reflexivity|].
      split; [apply Inv_leave; exact I2|]. split; [apply leave_inprog; exact IP2|].
      intros r w Q NR. assert (Io : In r outs) by (apply OUTS; eauto).
      destruct (A2 _ Io NR) as [[x L]|[]]. exists x. split; [exact L|apply AT; exact L].
    - rewrite (after_split_cons _ _ _ TN).
      assert (VT : forall cur, In cur todo -> vertex g cur).
      { intros cur Ic. destruct (TD _ Ic) as [w Q]. eapply edge_vertex_r; eauto. }
      destruct (@plan_all_ok g WF ROOT WB SMALL RR todo s2 VT) as [[site Q]|(paths & unsat & s3 & Q & SC & F2 & UN)];
        rewrite Q; cbn [bind].
      + left. exists site. reflexivity.
      + destruct SC as (V3 & L3 & P3 & W3 & _).
        assert (I3 : Inv s3) by (eapply Inv_ext; [exact V3|exact W3|exact I2]).
        rewrite UN.
        2:{ intros cur path Ic PO. destruct (TD _ Ic) as [w Qe]. rewrite IP2. eapply NB; eauto. }
        assert (PH : forall path, In path paths -> path_hyps (KFunc ft :: s_inprog s) path).
        { intros path Ip. destruct (@Forall2_in_r _ _ _ _ _ path F2 Ip) as (cur & Ic & PO).
          destruct (TD _ Ic) as [w Qe]. eapply PHY; eauto. }
        assert (RQ : forall cur, In cur todo -> is_req cur = true) by (intros cur Ic; apply A3; exact Ic).
        destruct (@walk_paths_ok (KFunc ft) (s_inprog s) todo paths F2 RQ PH am s3 I3 (eq_trans P3 IP2) AT) as
            [[site Q2]|[(s4 & e & Q2 & I4 & IP4 & B)|(s4 & am4 & Q2 & I4 & IP4 & AT4 & G4 & C4)]].
        * left. exists site. exact Q2.
        * right; left. exists s4, e. auto.
        * right; right. exists s4, am4. split; [exact Q2|]. split; [exact I4|]. split; [exact IP4|].
          intros r w Qe NR. assert (Io : In r outs) by (apply OUTS; eauto).
          assert (N : lookup r am4 <> None).
          { destruct (A2 _ Io NR) as [[x L]|It]; [apply G4; rewrite L; discriminate|apply C4; exact It]. }
          destruct (lookup r am4) as [x|] eqn:L; [|contradiction N; reflexivity].
          exists x. split; [reflexivity|apply AT4; exact L].
  Qed.
End Body.

(* C0417HistInv.v -- the memo/trace invariant used by the history-level forms
   of C04 and C17 (HistoryStatements2.v):

     [MI m evs]   every memoized result in [m] (memo table of run-once
                  functions) was returned by an execution recorded in [evs],
                  ALL executions of that id in [evs] returned exactly that
                  result, and the id belongs to a run-once function of [F];
                  conversely every execution in [evs] is by a function of
                  [F], and a run-once one has left a memo entry.

   [F] is the list of all functions of the history, in which every id denotes
   one declaration.  The invariant is preserved by [call_direct] on functions
   of [F], hence (generic theorem [reach_inv] of C0911OnceLemmas) by [reach],
   hence by [call]; [redefine] does not touch the world and records only
   generator events.

   A second, independent induction over [reach] explains the error a
   resolution failure reports: [XConv x] was returned by an execution of the
   trace or is the error of a memoized result; [reach] never reports [XGen]. *)
From ArgMapper Require Import Base Graph GraphAlg GenWeights Types Args Resolver ResolverSpec CheckResolver
     Monitors Monitors2 ResolverStatements HistoryStatements HistoryStatements2.
From ArgMapper.proofs Require Import C19RefineMap C18DijkstraLemmas C0911OnceLemmas C0911Once.
Set Implicit Arguments.
Local Open Scope Z_scope.
Local Open Scope list_scope.

(* ================= call_direct, case by case ================= *)
Lemma call_direct_cases u bh f am s r s' :
  call_direct u bh false f am s = Ok (r, s') ->
  (s' = s /\ fn_once f = true /\ lookup (fn_id f) (s_world s) = Some r) \/
  (s' = s /\ r = mkR [] None true) \/
  (exists argv,
      s_trace s' = s_trace s ++ [EExec (fn_id f) argv (r_fields r) (r_err r)] /\
      s_world s' = (if fn_once f then insert (fn_id f) r (s_world s) else s_world s) /\
      r_builderr r = false /\
      (fn_once f = true -> lookup (fn_id f) (s_world s) = None)).
Proof.
  unfold call_direct. intros E.
  destruct (if fn_once f then lookup (fn_id f) (s_world s) else None) as [r0|] eqn:LK.
  { inversion E; subst. left. destruct (fn_once f); [|discriminate]. auto. }
  match type of E with (if ?c then _ else _) = _ => destruct c end; [discriminate|].
  match type of E with (if ?c then _ else _) = _ => destruct c end.
  { inversion E; subst. right; left. split; reflexivity. }
  destruct (match bh (fn_id f) (s_nexec s + 1) with
            | BOk => (fresh_outs f (s_nexec s + 1), None)
            | BErr e => (zero_outs f, Some e)
            | BNil => (zero_outs f, None)
            end) as [outs err].
  inversion E; subst; clear E. right; right.
  eexists. cbn [s_trace s_world r_fields r_err r_builderr].
  split; [reflexivity|]. split; [reflexivity|]. split; [reflexivity|].
  intros O. rewrite O in LK. exact LK.
Qed.

(* ================= explanation of a reported error ================= *)
Definition expl (s : rstate) (x : Z) : Prop :=
  (exists id args outs, In (EExec id args outs (Some x)) (s_trace s)) \/
  (exists id r, lookup id (s_world s) = Some r /\ r_err r = Some x).
Definition explR (s : rstate) (e : rerr) : Prop :=
  match e with XConv x => expl s x | XGen _ => False | _ => True end.

Lemma explR_leaveX t s e : explR (leaveX t s) e = explR s e.
Proof. destruct e; reflexivity. Qed.

Lemma call_direct_expl u bh f am s r s' x :
  call_direct u bh false f am s = Ok (r, s') -> r_err r = Some x -> expl s' x.
Proof.
  intros CD RE. apply call_direct_cases in CD.
  destruct CD as [[-> [_ L]]|[[-> B]|[argv [T _]]]].
  - right. exists (fn_id f), r. split; assumption.
  - subst r. discriminate.
  - left. exists (fn_id f), argv, (r_fields r). rewrite T, <- RE.
    apply in_or_app. right. left. reflexivity.
Qed.

Section Expl.
  Variable u : universe.
  Variable behave : behaviour.
  Variable g : rgraph.

  Section Rec.
    Variable rec : vkey -> rstate -> res (rstate * (argmap + rerr)).
    Hypothesis Hrec : forall v s s' e, rec v s = Ok (s', inr e) -> explR s' e.

    Lemma walkX_expl vs : forall prev final s s' e,
      walkX u behave g false rec prev vs final s = Ok (s', inr e) -> explR s' e.
    Proof.
      induction vs as [|v vs IH]; intros prev final s s' e E.
      - cbn [walkX] in E. discriminate.
      - destruct v as [|ft|n t st|t st|t st].
        + cbn [walkX] in E. eapply IH; exact E.
        + cbn [walkX] in E.
          destruct (g_vertex g (KFunc ft)) as [[|f]|] eqn:GV; try discriminate.
          destruct (rec (KFunc ft) s) as [[s1 [fam|e1]]| | |] eqn:R; cbn [bind] in E; try discriminate.
          * destruct (call_direct u behave false f fam s1) as [[res s2]| | |] eqn:CD; cbn [bind] in E; try discriminate.
            destruct (r_builderr res).
            { inversion E; subst. exact Logic.I. }
            destruct (r_err res) as [x|] eqn:RE.
            { inversion E; subst. cbn [explR]. eapply call_direct_expl; eassumption. }
            destruct (take_perm SITE_REACH_IN (g_in_keys g (KFunc ft)) (s_tape s2)) as [[ins t']| | |]; cbn [bind] in E; try discriminate.
            destruct (output_values f res ins (set_tape s2 t')) as [s3| | |] eqn:OV; cbn [bind] in E; try discriminate.
            eapply IH; exact E.
          * inversion E; subst. eapply Hrec; exact R.
        + cbn [walkX] in E. eapply IH; exact E.
        + cbn [walkX] in E. eapply IH; exact E.
        + cbn [walkX] in E. eapply IH; exact E.
    Qed.

    Lemma walk_pathsX_expl target paths : forall am s s' e,
      walk_pathsX u behave g false rec target paths am s = Ok (s', inr e) -> explR s' e.
    Proof.
      induction paths as [|path rest IH]; intros am s s' e E.
      - rewrite walk_pathsX_nil in E. discriminate.
      - rewrite walk_pathsX_cons in E.
        destruct (walkX u behave g false rec None path None s) as [[s1 [[fv|]|e1]]| | |] eqn:W;
          cbn [bind] in E; try discriminate.
        + eapply IH; exact E.
        + inversion E; subst. rewrite explR_leaveX. eapply walkX_expl; exact W.
    Qed.

    Lemma reach_body_expl target s s' e :
      reach_body u behave g false rec target s = Ok (s', inr e) -> explR s' e.
    Proof.
      unfold reach_body. intros E.
      destruct (take_perm SITE_REACH_OUT (g_out_keys g target)
                  (s_tape (set_inprog s (target :: s_inprog s)))) as [[outs t']| | |];
        cbn [bind] in E; try discriminate.
      match type of E with (match ?X with _ => _ end) = _ => destruct X as [am todo] end.
      destruct todo as [|o todo].
      - discriminate.
      - destruct (fold_left (plan_step g false) (o :: todo)
                    (Ok ([], [], set_tape (set_inprog s (target :: s_inprog s)) t')))
          as [[[paths unsat] s1]| | |] eqn:PF; cbn [bind] in E; try discriminate.
        destruct unsat as [|x unsat].
        + eapply walk_pathsX_expl; exact E.
        + inversion E; subst. exact Logic.I.
    Qed.
  End Rec.

  Theorem reach_expl fuel : forall target s s' e,
    reach u behave g false fuel target s = Ok (s', inr e) -> explR s' e.
  Proof.
    induction fuel as [|fuel IH]; intros target s s' e E.
    - rewrite reach_O in E. discriminate.
    - rewrite reach_S in E. eapply reach_body_expl; [|exact E]. exact IH.
  Qed.
End Expl.

(* ================= failures of call_graph ================= *)
Definition has_gen (tr : list event) : Prop := exists gid k, In (EGen gid k) tr.

Lemma run_gens_err g gens ks convs tr g' convs' tr' e :
  run_gens g gens ks convs tr = (g', convs', tr', Some e) -> has_gen tr'.
Proof.
  intros E. rewrite run_gens_eq in E.
  pose (P := fun acc : rgraph * list fdecl * list event * option Z =>
               snd acc <> None -> has_gen (snd (fst acc))).
  assert (PI : forall k acc gn, P acc -> P (rg_inner k acc gn)).
  { intros k [[[g0 c0] t0] e0] gn Pa. unfold rg_inner.
    destruct e0 as [x|]; [exact Pa|].
    assert (HG : has_gen (t0 ++ [EGen (gen_id gn) k])).
    { exists (gen_id gn), k. apply in_or_app. right. left. reflexivity. }
    destruct (lookup k (gen_table gn)) as [[|x|f]|]; intros _; exact HG. }
  assert (PO : forall acc k, P acc -> P (rg_outer gens acc k)).
  { intros [[[g0 c0] t0] e0] k Pa. unfold rg_outer.
    destruct e0 as [x|]; [exact Pa|].
    destruct (value_of_vertex k); [|exact Pa].
    apply fold_inv; [|exact Pa]. intros a gn _ Pa'. apply PI. exact Pa'. }
  assert (PF : P (fold_left (rg_outer gens) ks (g, convs, tr, None))).
  { apply fold_inv; [intros a k _ Pa; apply PO; exact Pa|].
    intros X. exfalso. apply X. reflexivity. }
  rewrite E in PF. apply PF. cbn [snd]. discriminate.
Qed.

Lemma full_graph_err u f b rd t e tr0 :
  full_graph u f b rd t = Ok (inr e, tr0) -> (exists x, e = XGen x) /\ has_gen tr0.
Proof.
  unfold full_graph. intros E.
  match type of E with bind ?X _ = _ => destruct X as [[ks t1]| | |] end; cbn [bind] in E; try discriminate.
  match type of E with context [run_gens ?a1 ?a2 ?a3 ?a4 ?a5] =>
    destruct (run_gens a1 a2 a3 a4 a5) as [[[g' convs'] tr'] gerr] eqn:RG end.
  destruct gerr as [x|]; [|discriminate].
  inversion E; subst. split; [exists x; reflexivity|].
  eapply run_gens_err; exact RG.
Qed.

Lemma call_graph_err u f b rd t e tr0 :
  call_graph u f b rd t = Ok (inr e, tr0) ->
  ((exists x, e = XGen x) /\ has_gen tr0) \/ (exists a i c fl, e = XUnsat a i c fl).
Proof.
  unfold call_graph. intros E.
  destruct (full_graph u f b rd t) as [[r1 tr1]| | |] eqn:FG; cbn [bind] in E; try discriminate.
  destruct r1 as [fg|e1].
  - right. inversion E as [[PR TR]]. clear E. unfold prune in PR.
    match type of PR with match ?X with _ => _ end = _ => destruct X end; [discriminate|].
    inversion PR. eexists; eexists; eexists; eexists; reflexivity.
  - left. inversion E; subst. eapply full_graph_err; exact FG.
Qed.

(* ================= the invariant ================= *)
Section Inv.
  Variable F : list fdecl.
  Hypothesis F_ids : forall h h', In h F -> In h' F -> fn_id h = fn_id h' -> h = h'.

  Definition MI (m : amap Z result) (evs : list event) : Prop :=
    (forall id r, lookup id m = Some r ->
       (exists h, In h F /\ fn_id h = id /\ fn_once h = true) /\
       (exists args, In (EExec id args (r_fields r) (r_err r)) evs) /\
       (forall args outs err, In (EExec id args outs err) evs -> outs = r_fields r /\ err = r_err r)) /\
    (forall id args outs err, In (EExec id args outs err) evs ->
       exists h, In h F /\ fn_id h = id /\ (fn_once h = true -> lookup id m <> None)).

  Lemma MI_0 : MI [] [].
  Proof.
    split.
    - intros id r L. cbn in L. discriminate.
    - intros id args outs err [].
  Qed.

  Lemma MI_gen m evs ext : gen_only ext -> MI m evs -> MI m (evs ++ ext).
  Proof.
    intros G [A B].
    assert (NE : forall id args outs err, In (EExec id args outs err) (evs ++ ext) ->
                                          In (EExec id args outs err) evs).
    { intros id args outs err X. apply in_app_or in X. destruct X as [X|X]; [exact X|].
      exfalso. unfold gen_only in G. rewrite forallb_forall in G. apply G in X. discriminate. }
    split.
    - intros id r L. destruct (A _ _ L) as [W [[a Ia] All]].
      split; [exact W|]. split.
      + exists a. apply in_or_app. left. exact Ia.
      + intros args outs err X. apply (All args). apply NE. exact X.
    - intros id args outs err X. apply (B id args outs err). apply NE. exact X.
  Qed.

  Lemma call_direct_MI u bh f am s r s' earlier :
    In f F ->
    call_direct u bh false f am s = Ok (r, s') ->
    MI (s_world s) (earlier ++ s_trace s) -> MI (s_world s') (earlier ++ s_trace s').
  Proof.
    intros InF CD [A B]. apply call_direct_cases in CD.
    destruct CD as [[-> _]|[[-> _]|[argv [T [W [_ N]]]]]]; try (split; assumption).
    rewrite T, W, app_assoc. set (evs := earlier ++ s_trace s) in *.
    split.
    - intros id r0 L.
      assert (OLD : lookup id (s_world s) = Some r0 -> fn_id f <> id ->
                (exists h, In h F /\ fn_id h = id /\ fn_once h = true) /\
                (exists args, In (EExec id args (r_fields r0) (r_err r0))
                                 (evs ++ [EExec (fn_id f) argv (r_fields r) (r_err r)])) /\
                (forall args outs err,
                    In (EExec id args outs err) (evs ++ [EExec (fn_id f) argv (r_fields r) (r_err r)]) ->
                    outs = r_fields r0 /\ err = r_err r0)).
      { intros L0 NEQ. destruct (A _ _ L0) as [W1 [[a Ia] All]].
        split; [exact W1|]. split.
        - exists a. apply in_or_app. left. exact Ia.
        - intros args outs err X. apply in_app_or in X. destruct X as [X|[X|[]]].
          + eapply All. exact X.
          + inversion X. contradiction. }
      destruct (fn_once f) eqn:O.
      + destruct (Z.eq_dec id (fn_id f)) as [EQ|NEQ].
        * subst id. rewrite lookup_insert_eq in L. inversion L; subst r0. clear L.
          split; [exists f; auto|]. split.
          -- exists argv. apply in_or_app. right. left. reflexivity.
          -- intros args outs err X. apply in_app_or in X. destruct X as [X|[X|[]]].
             ++ exfalso. destruct (B _ _ _ _ X) as [h [Hh [Hid Hn]]].
                assert (h = f) by (apply F_ids; assumption). subst h.
                apply (Hn O). apply N. reflexivity.
             ++ inversion X; subst. split; reflexivity.
        * rewrite lookup_insert_neq in L by exact NEQ. apply OLD; [exact L|congruence].
      + apply OLD; [exact L|].
        intros EQ. destruct (A _ _ L) as [[h [Hh [Hid Ho]]] _].
        assert (h = f) by (apply F_ids; [assumption|assumption|congruence]). subst h. congruence.
    - intros id args outs err X. apply in_app_or in X. destruct X as [X|[X|[]]].
      + destruct (B _ _ _ _ X) as [h [Hh [Hid Hn]]]. exists h. split; [exact Hh|]. split; [exact Hid|].
        intros Oh Lk. apply (Hn Oh). revert Lk. destruct (fn_once f); intros Lk; [|exact Lk].
        destruct (Z.eq_dec id (fn_id f)) as [EQ|NEQ].
        * rewrite EQ, lookup_insert_eq in Lk. discriminate.
        * rewrite lookup_insert_neq in Lk by exact NEQ. exact Lk.
      + inversion X; subst. exists f. split; [exact InF|]. split; [reflexivity|].
        intros O. rewrite O. rewrite lookup_insert_eq. discriminate.
  Qed.

  (* the relation handed to reach_inv *)
  Definition QMI (c c' : amap Z result * list event * Z) : Prop :=
    forall earlier, MI (fst (fst c)) (earlier ++ snd (fst c)) -> MI (fst (fst c')) (earlier ++ snd (fst c')).

  Lemma reach_MI u bh (g : rgraph) fuel target s s' r earlier :
    pay_in F g ->
    reach u bh g false fuel target s = Ok (s', r) ->
    MI (s_world s) (earlier ++ s_trace s) -> MI (s_world s') (earlier ++ s_trace s').
  Proof.
    intros P R.
    assert (Q : QMI (core s) (core s')).
    { eapply (@reach_inv u bh g false QMI); [| | |exact R].
      - intros c earlier0 M. exact M.
      - intros a b c Qab Qbc earlier0 M. apply Qbc. apply Qab. exact M.
      - intros v f am s0 r0 s1 GV CD earlier0 M. unfold core in *. cbn [fst snd] in *.
        eapply call_direct_MI; [|exact CD|exact M]. apply (P v f). exact GV. }
    intros M. apply (Q earlier). exact M.
  Qed.

  (* an explained error, under the invariant: executed in this trace, or the
     memoized failure of a run-once function that ran earlier *)
  Lemma expl_origin fs earlier s x :
    (forall h, In h fs -> In h F) ->
    MI (s_world s) (earlier ++ s_trace s) -> expl s x ->
    (exists ev, In ev (s_trace s) /\ exec_err ev = Some x) \/
    (exists fid args outs, In (EExec fid args outs (Some x)) earlier /\
                           forall d, find_fn fid fs = Some d -> fn_once d = true).
  Proof.
    intros FS [A _] [[id [args [outs X]]]|[id [r [L RE]]]].
    - left. eexists. split; [exact X|reflexivity].
    - destruct (A _ _ L) as [[h [Hh [Hid Ho]]] [[a Ia] _]].
      rewrite RE in Ia. apply in_app_or in Ia. destruct Ia as [Ia|Ia].
      + right. exists id, a, (r_fields r). split; [exact Ia|].
        intros d FD. unfold find_fn in FD. apply find_some in FD. destruct FD as [Id Eq].
        apply Z.eqb_eq in Eq.
        assert (d = h) by (apply F_ids; [apply FS; exact Id|exact Hh|congruence]). subst d. exact Ho.
      + left. eexists. split; [exact Ia|reflexivity].
  Qed.
End Inv.

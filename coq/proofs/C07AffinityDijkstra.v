(* C07AffinityDijkstra.v -- the model's Dijkstra on the (reversed, discounted)
   call graph of the name-affinity families: whatever the pop order, the typed
   argument vertex is reached from the input named n (F1), and the result
   vertex from the by-name converter (F2).  Helper of C07Affinity.v *)
From ArgMapper Require Import Base Graph GraphAlg GraphSpec.
From ArgMapper.proofs Require Import C18DijkstraLemmas C18Dijkstra C06TotalDijkstra.
From Coq Require Import Lia ZArith List.
Import ListNotations.
Set Implicit Arguments.
Local Open Scope Z_scope.

Section Aff.
  Context {K : Type} {E : EqDec K} {V : Type}.
  Variable H : graph K V.
  Variable src : K.
  Hypothesis WF : wf_graph H.
  Hypothesis Vsrc : vertex H src.
  Hypothesis Wbound : forall a b w, edge H a b w -> - 20 <= w <= 20.
  Hypothesis Small : 20 * (Z.of_nat (length (g_vertex_keys H)) + 1) < INF.
  Hypothesis Hsrc_in : forall a w, ~ edge H a src w.

  Notation HI := (HInv H src 20).

  (* ---------- one pop, in terms of getd ---------- *)
  Definition sview (st st' : @dstate K) (u : K) : Prop :=
    In u (unvis st) /\
    (forall x, In x (unvis st) -> getd (dist st) u <= getd (dist st) x) /\
    (forall x, In x (unvis st') <-> In x (unvis st) /\ x <> u) /\
    (forall x,
       (getd (dist st') x = getd (dist st) x /\ lookup x (prev st') = lookup x (prev st)) \/
       (In x (unvis st') /\ getd (dist st) u <> INF /\
        exists w, edge H u x w /\ wrap64 (getd (dist st) u + w) < getd (dist st) x /\
                  getd (dist st') x = wrap64 (getd (dist st) u + w) /\
                  lookup x (prev st') = Some u)) /\
    (getd (dist st) u <> INF -> forall v w, edge H u v w -> In v (unvis st') ->
       getd (dist st') v <= wrap64 (getd (dist st) u + w)).

  Lemma step_view st st' popped u :
    HI st popped -> is_min st u = true -> step_rel H st st' u -> sview st st' u.
  Proof.
    intros HIv Hm (Uv & Sinf & Sfin).
    unfold is_min in Hm. apply andb_true_iff in Hm. destruct Hm as [Hu Hmin].
    apply memb_In in Hu. rewrite forallb_forall in Hmin.
    pose proof (li_nodup (hi_light HIv)) as ND. pose proof (NoDup_app_r _ _ ND) as ND2.
    assert (InU' : forall x, In x (unvis st') <-> In x (unvis st) /\ x <> u).
    { intros x. rewrite Uv. apply remove1_In_NoDup; auto. }
    split; [exact Hu|]. split; [intros x Ix; apply Z.leb_le; apply Hmin; exact Ix|].
    split; [exact InU'|].
    destruct (Z.eq_dec (getd (dist st) u) INF) as [Ei|Ni].
    - destruct (Sinf Ei) as [Ed Ep]. split; [|intros N; contradiction].
      intros x. left. rewrite Ed, Ep. split; reflexivity.
    - destruct (Sfin Ni) as (U1 & Ch & Rl). cbn [unvis dist prev] in U1, Ch, Rl.
      split.
      + intros x. destruct (Ch x) as [[A B]|(Ix & w & dx & A & Q & Lt & Qn & Pn)].
        * left. split; [unfold getd; rewrite A; reflexivity|exact B].
        * right. split; [rewrite Uv; exact Ix|]. split; [exact Ni|].
          exists w. split; [apply inner_edge; auto|].
          unfold getd at 2 3. rewrite Q, Qn. auto.
      + intros _ v w Ed Iv. rewrite Uv in Iv.
        assert (A : In (v, w) (inner (gout H) u)) by (apply lookup_In; exact Ed).
        destruct (Rl v w A Iv) as (dv' & Q' & Le). unfold getd at 1. rewrite Q'. exact Le.
  Qed.

  (* ---------- family F1: inputs, the input named n (N), the typed argument (A) ---------- *)
  Variables N A : K.
  Definition isin (a : K) : Prop := edge H src a 1 /\ forall a' w', edge H a' a w' -> a' = src /\ w' = 1.
  Hypothesis HNin : isin N.
  Hypothesis HA_in : forall a w, edge H a A w -> isin a /\ ((a = N /\ w = -1) \/ (a <> N /\ w = 5)).
  Hypothesis HNA : edge H N A (-1).

  Lemma isin_ne_src a : isin a -> a <> src.
  Proof. intros [Ed _] ->. apply (Hsrc_in Ed). Qed.
  Lemma A_ne_src : A <> src.
  Proof. intros Q. rewrite Q in HNA. apply (Hsrc_in HNA). Qed.
  Lemma A_not_in : ~ isin A.
  Proof.
    intros [_ Hin]. destruct (Hin _ _ HNA) as [Q _]. apply (isin_ne_src HNin). exact Q.
  Qed.
  Lemma A_ne_N : A <> N.
  Proof. intros Q. apply A_not_in. rewrite Q. exact HNin. Qed.

  Definition Q12 (st : @dstate K) : Prop :=
    ~ In src (unvis st) /\
    (forall a, isin a -> getd (dist st) a = 1) /\
    ((In N (unvis st) /\ In A (unvis st) /\ 1 < getd (dist st) A) \/
     (~ In N (unvis st) /\ getd (dist st) A = 0 /\ lookup A (prev st) = Some N)).

  Lemma wrap_1m1 : wrap64 (1 + -1) = 0. Proof. reflexivity. Qed.
  Lemma wrap_15 : wrap64 (1 + 5) = 6. Proof. reflexivity. Qed.
  Lemma wrap_01 : wrap64 (0 + 1) = 1. Proof. reflexivity. Qed.

  Lemma getd_src0 st popped : HI st popped -> getd (dist st) src = 0.
  Proof. intros HIv. destruct (hi_src HIv) as [Q _]. unfold getd. rewrite Q. reflexivity. Qed.

  Lemma unvis_vertex st popped x : HI st popped -> In x (unvis st) -> vertex H x.
  Proof. intros HIv Ix. apply (li_all (hi_light HIv)). apply in_or_app. right. exact Ix. Qed.

  (* the first pop is the source *)
  Lemma first_pop st st' u :
    HI st [] -> sview st st' u -> u = src /\ Q12 st'.
  Proof.
    intros HIv (Hu & Hmin & InU' & Ch & Rl).
    pose proof (getd_src0 HIv) as D0.
    assert (AllU : forall x, vertex H x -> In x (unvis st)).
    { intros x Vx. apply (li_all (hi_light HIv)) in Vx. exact Vx. }
    assert (Inf : forall x, x <> src -> vertex H x -> getd (dist st) x = INF).
    { intros x Ne Vx. destruct (li_total (hi_light HIv) _ Vx) as (dx & Q).
      unfold getd. rewrite Q. apply (hi_first HIv (AllU _ Vsrc) Ne Q). }
    assert (Us : u = src).
    { destruct (eq_dec_K u src) as [Q|Ne]; [exact Q|]. exfalso.
      pose proof (Hmin src (AllU _ Vsrc)) as Le. rewrite D0 in Le.
      rewrite (Inf u Ne (unvis_vertex _ HIv Hu)) in Le. unfold INF in Le. lia. }
    split; [exact Us|]. subst u. rewrite D0 in Ch, Rl.
    assert (Fin : 0 <> INF) by (unfold INF; lia).
    split; [|split].
    - intros I. apply InU' in I. destruct I as [_ I]. contradiction I; reflexivity.
    - intros a [Ed Hin].
      assert (Ne : a <> src) by (intros ->; apply (Hsrc_in Ed)).
      assert (Va : vertex H a) by (apply (edge_vertices WF Ed)).
      assert (Ia : In a (unvis st')) by (apply InU'; split; [apply AllU; exact Va|exact Ne]).
      pose proof (Rl Fin a 1 Ed Ia) as Le. rewrite wrap_01 in Le.
      destruct (Ch a) as [[Q _]|(_ & _ & w & Ed' & _ & Q & _)].
      + rewrite Q, (Inf a Ne Va) in Le. unfold INF in Le. lia.
      + destruct (Hin _ _ Ed') as [_ ->]. rewrite Q. reflexivity.
    - left.
      assert (VN : vertex H N) by (apply (edge_vertices WF (proj1 HNin))).
      assert (VA : vertex H A) by (apply (edge_vertices WF HNA)).
      split; [apply InU'; split; [apply AllU; exact VN|apply (isin_ne_src HNin)]|].
      split; [apply InU'; split; [apply AllU; exact VA|apply A_ne_src]|].
      destruct (Ch A) as [[Q _]|(_ & _ & w & Ed' & _)].
      + rewrite Q, (Inf A A_ne_src VA). unfold INF. lia.
      + exfalso. destruct (HA_in Ed') as [[Ed2 _] _]. apply (Hsrc_in Ed2).
  Qed.

  Lemma later_pop st st' popped u :
    HI st popped -> Q12 st -> sview st st' u -> Q12 st'.
  Proof.
    intros HIv (Ns & Hins & HA) (Hu & Hmin & InU' & Ch & Rl).
    assert (Us : u <> src) by (intros ->; contradiction).
    assert (Ins' : forall a, isin a -> getd (dist st') a = 1).
    { intros a Ia. destruct (Ch a) as [[Q _]|(_ & _ & w & Ed' & _)].
      - rewrite Q. apply Hins. exact Ia.
      - exfalso. destruct Ia as [_ Hin]. destruct (Hin _ _ Ed') as [Q _]. contradiction. }
    split; [intros I; apply InU' in I; destruct I as [I _]; contradiction|]. split; [exact Ins'|].
    destruct HA as [(IN & IA & Lt)|(NN & DA & PA)].
    - (* N not yet popped *)
      assert (UA : u <> A).
      { intros ->. pose proof (Hmin N IN) as Le. rewrite (Hins N HNin) in Le. lia. }
      destruct (eq_dec_K u N) as [->|UN].
      + right. split; [intros I; apply InU' in I; destruct I as [_ I]; contradiction I; reflexivity|].
        assert (FN : getd (dist st) N <> INF) by (rewrite (Hins N HNin); unfold INF; lia).
        assert (IA' : In A (unvis st')) by (apply InU'; split; [exact IA|exact A_ne_N]).
        pose proof (Rl FN A (-1) HNA IA') as Le. rewrite (Hins N HNin), wrap_1m1 in Le.
        destruct (Ch A) as [[Q _]|(_ & _ & w & Ed' & _ & Q & P)].
        * rewrite Q in Le. lia.
        * destruct (HA_in Ed') as [_ [[_ ->]|[Ne _]]]; [|contradiction Ne; reflexivity].
          rewrite (Hins N HNin), wrap_1m1 in Q. split; [exact Q|exact P].
      + left. split; [apply InU'; split; [exact IN|intros Q; apply UN; symmetry; exact Q]|].
        split; [apply InU'; split; [exact IA|intros Q; apply UA; symmetry; exact Q]|].
        destruct (Ch A) as [[Q _]|(_ & _ & w & Ed' & _ & Q & _)].
        * rewrite Q. exact Lt.
        * destruct (HA_in Ed') as [Iu [[-> _]|[_ ->]]]; [contradiction UN; reflexivity|].
          rewrite (Hins u Iu), wrap_15 in Q. rewrite Q. lia.
    - right. split; [intros I; apply InU' in I; destruct I as [I _]; contradiction|].
      destruct (Ch A) as [[Q P]|(_ & _ & w & Ed' & Lt & _)].
      + rewrite Q, P. split; assumption.
      + exfalso. destruct (HA_in Ed') as [Iu Cs]. rewrite (Hins u Iu), DA in Lt.
        destruct Cs as [[_ ->]|[_ ->]]; [rewrite wrap_1m1 in Lt|rewrite wrap_15 in Lt]; lia.
  Qed.

  Definition I1 (st : @dstate K) (popped : list K) : Prop :=
    HI st popped /\ (popped <> [] -> Q12 st).

  Lemma I1_step st popped u st' :
    I1 st popped -> is_min st u = true -> step_rel H st st' u -> I1 st' (popped ++ [u]).
  Proof.
    intros [HIv HQ] Hm R.
    assert (HIv' : HI st' (popped ++ [u])) by (eapply HInv_step; eauto; lia).
    pose proof (step_view HIv Hm R) as SV.
    split; [exact HIv'|]. intros _.
    destruct popped as [|p0 popped].
    - apply (first_pop HIv SV).
    - apply (later_pop HIv (HQ ltac:(discriminate)) SV).
  Qed.

  (* ---------- what a finished run guarantees ---------- *)
  Definition fin_facts (p : amap K K) : Prop :=
    lookup src p = None /\
    (forall v u, lookup v p = Some u -> exists w, edge H u v w) /\
    (forall v, reach H src v -> v <> src -> exists u, lookup v p = Some u).

  Lemma HI_fin_facts st popped : HI st popped -> unvis st = [] -> fin_facts (prev st).
  Proof.
    intros HIv U. split; [apply (hi_src HIv)|]. split.
    - intros v u Q. destruct (li_prev (hi_light HIv) _ Q) as (_ & _ & Ed). exact Ed.
    - intros v (pth & w & Wk) Ne.
      destruct (hi_src HIv) as [Qs _].
      assert (F0 : 0 < INF) by (unfold INF; lia).
      assert (B0 : 0 <= 20) by lia.
      destruct (@fin_reach_finite K E V H src 20 WF B0 Wbound Small st popped HIv U _ _ _ _ Wk 0 Qs F0)
        as (dv & Qv & Fv).
      apply (hi_fin HIv Qv Fv Ne).
  Qed.

  Theorem aff1_dijkstra pops d p :
    dijkstra H src pops = Ok (d, p) -> lookup A p = Some N /\ fin_facts p.
  Proof.
    unfold dijkstra. destruct (@LInv_init K E V H src WF Vsrc) as (st0 & D0 & L0 & Eq0). rewrite D0. cbn [bind].
    assert (H0 : HI st0 []) by (eapply HInv_init; eauto).
    destruct (@dloop_gen K E V H I1 WF) with (pops := pops) (st := st0) (popped := @nil K)
      as [(st' & popped' & DL & [HI' HQ'] & U')|DL].
    - intros st popped [HIv _]. apply (li_total (hi_light HIv)).
    - intros st popped u st' Ist Hm R. eapply I1_step; eauto.
    - split; [exact H0|]. intros N0; contradiction N0; reflexivity.
    - rewrite DL. cbn [bind]. intros Q. inversion Q; subst d p. split; [|apply (HI_fin_facts HI' U')].
      assert (Np : popped' <> []).
      { intros ->. pose proof (proj2 (li_all (hi_light HI') src) Vsrc) as I. rewrite U' in I. destruct I. }
      destruct (HQ' Np) as (_ & _ & [(IN & _)|(_ & _ & PA)]); [rewrite U' in IN; destruct IN|exact PA].
    - rewrite DL. cbn [bind]. discriminate.
  Qed.

  (* ---------- family F2: the by-name converter (D), the type-only one (C), the result (O) ---------- *)
  Variables D C O : K.
  Variable wo : Z.
  Hypothesis Hwo : 1 <= wo <= 5.
  Hypothesis HD_in : forall a w, edge H a D w -> a = N /\ w = -1.
  Hypothesis HND : edge H N D (-1).
  Hypothesis HC_in : forall a w, edge H a C w -> a = A /\ w = 5.
  Hypothesis HAC : edge H A C 5.
  Hypothesis HO_in : forall a w, edge H a O w -> (a = C \/ a = D) /\ w = wo.
  Hypothesis HDO : edge H D O wo.
  Hypothesis Hdist : NoDup [src; N; A; D; C; O].

  Lemma wrap_small z : -100 <= z <= 100 -> wrap64 z = z.
  Proof. intros B. unfold wrap64. rewrite Z.mod_small; lia. Qed.

  Ltac nd_ne :=
    let X := fresh in
    intros X; subst;
    repeat match goal with
           | Hd : NoDup (_ :: _) |- _ => inversion Hd; clear Hd; subst
           end;
    repeat match goal with
           | Hn : ~ In _ _ |- _ => apply Hn; simpl; tauto
           end.

  Lemma ne_DN : D <> N. Proof. clear - Hdist. nd_ne. Qed.
  Lemma ne_CA : C <> A. Proof. clear - Hdist. nd_ne. Qed.
  Lemma ne_OD : O <> D. Proof. clear - Hdist. nd_ne. Qed.
  Lemma ne_CD : C <> D. Proof. clear - Hdist. nd_ne. Qed.
  Lemma ne_CO : C <> O. Proof. clear - Hdist. nd_ne. Qed.
  Lemma ne_Dsrc : D <> src. Proof. clear - Hdist. nd_ne. Qed.
  Lemma ne_Csrc : C <> src. Proof. clear - Hdist. nd_ne. Qed.
  Lemma ne_Osrc : O <> src. Proof. clear - Hdist. nd_ne. Qed.

  Definition Q345 (st : @dstate K) : Prop :=
    ((In N (unvis st) /\ In D (unvis st) /\ getd (dist st) D = INF) \/
     (~ In N (unvis st) /\ getd (dist st) D = 0 /\ lookup D (prev st) = Some N)) /\
    ((In A (unvis st) /\ In C (unvis st) /\ getd (dist st) C = INF) \/
     (~ In A (unvis st) /\ getd (dist st) C = 5)) /\
    ((In D (unvis st) /\ In O (unvis st) /\ getd (dist st) O = INF) \/
     (~ In D (unvis st) /\ getd (dist st) O = wo /\ lookup O (prev st) = Some D)).

  Lemma first_pop2 st st' u :
    HI st [] -> sview st st' u -> Q345 st'.
  Proof.
    intros HIv SV. destruct (first_pop HIv SV) as [Us Q12'].
    destruct SV as (Hu & Hmin & InU' & Ch & Rl). subst u.
    assert (AllU : forall x, vertex H x -> In x (unvis st)).
    { intros x Vx. apply (li_all (hi_light HIv)) in Vx. exact Vx. }
    assert (Inf : forall x, x <> src -> vertex H x -> getd (dist st) x = INF).
    { intros x Ne Vx. destruct (li_total (hi_light HIv) _ Vx) as (dx & Q).
      unfold getd. rewrite Q. apply (hi_first HIv (AllU _ Vsrc) Ne Q). }
    assert (VN : vertex H N) by (apply (edge_vertices WF HND)).
    assert (VD : vertex H D) by (apply (edge_vertices WF HND)).
    assert (VA : vertex H A) by (apply (edge_vertices WF HAC)).
    assert (VC : vertex H C) by (apply (edge_vertices WF HAC)).
    assert (VO : vertex H O) by (apply (edge_vertices WF HDO)).
    assert (U' : forall x, vertex H x -> x <> src -> In x (unvis st')).
    { intros x Vx Ne. apply InU'. split; [apply AllU; exact Vx|exact Ne]. }
    split; [|split]; left.
    - split; [apply U'; [exact VN|apply (isin_ne_src HNin)]|]. split; [apply U'; [exact VD|apply ne_Dsrc]|].
      destruct (Ch D) as [[Q _]|(_ & _ & w & Ed' & _)]; [rewrite Q; apply Inf; [apply ne_Dsrc|exact VD]|].
      exfalso. destruct (HD_in Ed') as [Q _]. apply (isin_ne_src HNin). symmetry. exact Q.
    - split; [apply U'; [exact VA|apply A_ne_src]|]. split; [apply U'; [exact VC|apply ne_Csrc]|].
      destruct (Ch C) as [[Q _]|(_ & _ & w & Ed' & _)]; [rewrite Q; apply Inf; [apply ne_Csrc|exact VC]|].
      exfalso. destruct (HC_in Ed') as [Q _]. apply A_ne_src. symmetry. exact Q.
    - split; [apply U'; [exact VD|apply ne_Dsrc]|]. split; [apply U'; [exact VO|apply ne_Osrc]|].
      destruct (Ch O) as [[Q _]|(_ & _ & w & Ed' & _)]; [rewrite Q; apply Inf; [apply ne_Osrc|exact VO]|].
      exfalso. destruct (HO_in Ed') as [[Q|Q] _]; [apply ne_Csrc|apply ne_Dsrc]; symmetry; exact Q.
  Qed.

  Lemma later_pop2 st st' popped u :
    HI st popped -> Q12 st -> Q345 st -> sview st st' u -> Q345 st'.
  Proof.
    intros HIv (Ns & Hins & HA) (H3 & H4 & H5) (Hu & Hmin & InU' & Ch & Rl).
    assert (GN : getd (dist st) N = 1) by (apply Hins; exact HNin).
    assert (Keep : forall x, In x (unvis st) -> x <> u -> In x (unvis st')).
    { intros x Ix Ne. apply InU'. split; assumption. }
    assert (Gone : forall x, ~ In x (unvis st) -> ~ In x (unvis st')).
    { intros x Nx I. apply InU' in I. destruct I as [I _]. contradiction. }
    assert (GoneU : ~ In u (unvis st')).
    { intros I. apply InU' in I. destruct I as [_ I]. contradiction I; reflexivity. }
    (* phase facts *)
    assert (PhA : ~ In A (unvis st) -> ~ In N (unvis st)).
    { intros NA. destruct HA as [(_ & IA & _)|(NN & _)]; [contradiction|exact NN]. }
    split; [|split].
    - (* Q3 *)
      destruct H3 as [(IN & ID & GD)|(NN & GD & PD)].
      + assert (UD : u <> D).
        { intros ->. pose proof (Hmin N IN) as Le. rewrite GN, GD in Le. unfold INF in Le. lia. }
        destruct (eq_dec_K u N) as [->|UN].
        * right. split; [exact GoneU|].
          assert (FN : getd (dist st) N <> INF) by (rewrite GN; unfold INF; lia).
          pose proof (Rl FN D (-1) HND (Keep D ID ne_DN)) as Le. rewrite GN, wrap_1m1 in Le.
          destruct (Ch D) as [[Q _]|(_ & _ & w & Ed' & _ & Q & P)].
          -- rewrite Q, GD in Le. unfold INF in Le. lia.
          -- destruct (HD_in Ed') as [_ ->]. rewrite GN, wrap_1m1 in Q. split; assumption.
        * left. split; [apply Keep; [exact IN|intros Q; apply UN; symmetry; exact Q]|].
          split; [apply Keep; [exact ID|intros Q; apply UD; symmetry; exact Q]|].
          destruct (Ch D) as [[Q _]|(_ & _ & w & Ed' & _)]; [rewrite Q; exact GD|].
          exfalso. destruct (HD_in Ed') as [Q _]. contradiction.
      + right. split; [apply Gone; exact NN|].
        destruct (Ch D) as [[Q P]|(_ & _ & w & Ed' & _)]; [rewrite Q, P; split; assumption|].
        exfalso. destruct (HD_in Ed') as [Q _]. subst u. contradiction.
    - (* Q4 *)
      destruct H4 as [(IA & IC & GC)|(NA & GC)].
      + assert (UC : u <> C).
        { intros ->. destruct HA as [(IN & _ & _)|(_ & DA & _)].
          - pose proof (Hmin N IN) as Le. rewrite GN, GC in Le. unfold INF in Le. lia.
          - pose proof (Hmin A IA) as Le. rewrite DA, GC in Le. unfold INF in Le. lia. }
        destruct (eq_dec_K u A) as [->|UA].
        * right. split; [exact GoneU|].
          assert (DA : getd (dist st) A = 0).
          { destruct HA as [(IN & _ & Lt)|(_ & DA & _)]; [|exact DA].
            pose proof (Hmin N IN) as Le. rewrite GN in Le. lia. }
          assert (FA : getd (dist st) A <> INF) by (rewrite DA; unfold INF; lia).
          pose proof (Rl FA C 5 HAC (Keep C IC ne_CA)) as Le. rewrite DA in Le.
          rewrite wrap_small in Le by lia.
          destruct (Ch C) as [[Q _]|(_ & _ & w & Ed' & _ & Q & _)].
          -- rewrite Q, GC in Le. unfold INF in Le. lia.
          -- destruct (HC_in Ed') as [_ ->]. rewrite DA, wrap_small in Q by lia. exact Q.
        * left. split; [apply Keep; [exact IA|intros Q; apply UA; symmetry; exact Q]|].
          split; [apply Keep; [exact IC|intros Q; apply UC; symmetry; exact Q]|].
          destruct (Ch C) as [[Q _]|(_ & _ & w & Ed' & _)]; [rewrite Q; exact GC|].
          exfalso. destruct (HC_in Ed') as [Q _]. contradiction.
      + right. split; [apply Gone; exact NA|].
        destruct (Ch C) as [[Q _]|(_ & _ & w & Ed' & _)]; [rewrite Q; exact GC|].
        exfalso. destruct (HC_in Ed') as [Q _]. subst u. contradiction.
    - (* Q5 *)
      destruct H5 as [(ID & IO & GO)|(ND & GO & PO)].
      + (* while D is unvisited some unvisited vertex has a finite distance *)
        assert (FinU : exists x, In x (unvis st) /\ getd (dist st) x <= 1).
        { destruct H3 as [(IN & _ & _)|(_ & GD & _)]; [exists N; split; [exact IN|lia]|].
          exists D. split; [exact ID|lia]. }
        destruct FinU as (x0 & Ix0 & Lx0).
        assert (UO : u <> O).
        { intros ->. pose proof (Hmin x0 Ix0) as Le. rewrite GO in Le. unfold INF in Le. lia. }
        destruct (eq_dec_K u D) as [->|UD].
        * right. split; [exact GoneU|].
          assert (GD : getd (dist st) D = 0).
          { destruct H3 as [(IN & _ & GD)|(_ & GD & _)]; [|exact GD].
            pose proof (Hmin N IN) as Le. rewrite GN, GD in Le. unfold INF in Le. lia. }
          assert (FD : getd (dist st) D <> INF) by (rewrite GD; unfold INF; lia).
          pose proof (Rl FD O wo HDO (Keep O IO ne_OD)) as Le. rewrite GD in Le.
          rewrite wrap_small in Le by lia.
          destruct (Ch O) as [[Q _]|(_ & _ & w & Ed' & _ & Q & P)].
          -- rewrite Q, GO in Le. unfold INF in Le. lia.
          -- destruct (HO_in Ed') as [_ ->]. rewrite GD, wrap_small in Q by lia. split; assumption.
        * left. split; [apply Keep; [exact ID|intros Q; apply UD; symmetry; exact Q]|].
          split; [apply Keep; [exact IO|intros Q; apply UO; symmetry; exact Q]|].
          destruct (Ch O) as [[Q _]|(_ & Fu & w & Ed' & _)]; [rewrite Q; exact GO|].
          exfalso. destruct (HO_in Ed') as [[Q|Q] _]; [|contradiction].
          subst u. destruct H4 as [(_ & _ & GC)|(NA & GC)]; [contradiction|].
          pose proof (PhA NA) as NN.
          destruct H3 as [(IN & _ & _)|(_ & GD & _)]; [contradiction|].
          pose proof (Hmin D ID) as Le. rewrite GC, GD in Le. lia.
      + right. split; [apply Gone; exact ND|].
        destruct (Ch O) as [[Q P]|(_ & Fu & w & Ed' & Lt & _)]; [rewrite Q, P; split; assumption|].
        exfalso. destruct (HO_in Ed') as [[Q|Q] ->].
        * subst u. destruct H4 as [(_ & _ & GC)|(_ & GC)]; [contradiction|].
          rewrite GC, GO in Lt. rewrite wrap_small in Lt by lia. lia.
        * subst u. contradiction.
  Qed.

  Definition I2 (st : @dstate K) (popped : list K) : Prop :=
    HI st popped /\ (popped <> [] -> Q12 st /\ Q345 st).

  Lemma I2_step st popped u st' :
    I2 st popped -> is_min st u = true -> step_rel H st st' u -> I2 st' (popped ++ [u]).
  Proof.
    intros [HIv HQ] Hm R.
    assert (HIv' : HI st' (popped ++ [u])) by (eapply HInv_step; eauto; lia).
    pose proof (step_view HIv Hm R) as SV.
    split; [exact HIv'|]. intros _.
    destruct popped as [|p0 popped].
    - split; [apply (first_pop HIv SV)|apply (first_pop2 HIv SV)].
    - destruct (HQ ltac:(discriminate)) as [Qa Qb].
      split; [apply (later_pop HIv Qa SV)|apply (later_pop2 HIv Qa Qb SV)].
  Qed.

  Theorem aff2_dijkstra pops d p :
    dijkstra H src pops = Ok (d, p) ->
    lookup O p = Some D /\ lookup D p = Some N /\ fin_facts p.
  Proof.
    unfold dijkstra. destruct (@LInv_init K E V H src WF Vsrc) as (st0 & D0 & L0 & Eq0). rewrite D0. cbn [bind].
    assert (H0 : HI st0 []) by (eapply HInv_init; eauto).
    destruct (@dloop_gen K E V H I2 WF) with (pops := pops) (st := st0) (popped := @nil K)
      as [(st' & popped' & DL & [HI' HQ'] & U')|DL].
    - intros st popped [HIv _]. apply (li_total (hi_light HIv)).
    - intros st popped u st' Ist Hm R. eapply I2_step; eauto.
    - split; [exact H0|]. intros N0; contradiction N0; reflexivity.
    - rewrite DL. cbn [bind]. intros Q. inversion Q; subst d p.
      assert (Np : popped' <> []).
      { intros ->. pose proof (proj2 (li_all (hi_light HI') src) Vsrc) as I. rewrite U' in I. destruct I. }
      destruct (HQ' Np) as (_ & H3 & _ & H5).
      split; [|split; [|apply (HI_fin_facts HI' U')]].
      + destruct H5 as [(ID & _)|(_ & _ & PO)]; [rewrite U' in ID; destruct ID|exact PO].
      + destruct H3 as [(IN & _)|(_ & _ & PD)]; [rewrite U' in IN; destruct IN|exact PD].
    - rewrite DL. cbn [bind]. discriminate.
  Qed.
End Aff.

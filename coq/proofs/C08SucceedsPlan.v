(* C08SucceedsPlan.v -- in Redefine mode, the plan of a requirement whose type
   passes the input filter is the two-vertex path root -> requirement: the
   requirement itself becomes a declared input. *)
From ArgMapper Require Import Base Graph GraphAlg GraphSpec Types Args Resolver ResolverSpec GenWeights.
From ArgMapper.proofs Require Import C18DijkstraLemmas C19RefineMap C19RefineGraph
     C0213UnsatGraph C0213UnsatBuild C0213UnsatDijkstra C04ErrorsLemmas C08RedefineGraph
     C07AffinityDiscount C08SucceedsDijkstra C08SucceedsGraph.
From Coq Require Import List Lia ZArith String.
Import ListNotations.
Set Implicit Arguments.
Local Open Scope Z_scope.

(* the Redefine-mode marking of the recorded input *)
Definition rd_mark (cur : vkey) (s : rstate) : rstate :=
  match cur with
  | KVal _ t _ => if mem cur (s_vals s) then s else set_val s cur (Some (zero_of t))
  | KArg t _ => set_val s cur (Some (zero_of t))
  | _ => s
  end.

Definition disc_of (cur b : vkey) : bool :=
  match cur with KVal n _ _ => isn n b | _ => false end.

Lemma discount_any (g : rgraph) cur :
  wf_graph g ->
  let cg := discount g cur in
  wf_graph cg /\ (forall x, vtx cg x = vtx g x) /\ g_vertex_keys cg = g_vertex_keys g /\
  (forall a b, ew cg a b = match ew g a b with
                           | Some w => if disc_of cur b then Some w_matching_name else Some w
                           | None => None end).
Proof.
  intros W. destruct cur as [|ft|n t s|t s|t s]; try apply (discount_exact n t s W);
    (cbn [discount disc_of]; split; [exact W|]; split; [reflexivity|]; split; [reflexivity|];
     intros a b; destruct (ew g a b); reflexivity).
Qed.

Lemma disc_isv cur b : disc_of cur b = true -> isv b = true /\ isv cur = true.
Proof.
  destruct cur as [|ft|n t s|t s|t s]; try discriminate.
  destruct b as [|ft|n2 t2 s2|t2 s2|t2 s2]; try discriminate. auto.
Qed.

Section Plan.
  Variables (u : universe) (fin : option flt) (f : fdecl) (g : rgraph).
  Hypothesis HS : SG u fin f g.
  Hypothesis Small : 20 * Z.of_nat (List.length (g_vertex_keys g)) < INF.

  Lemma plan_direct cur s path bad s' :
    vtx g cur <> None -> permitted u fin cur ->
    plan g true cur s = Ok (path, bad, s') ->
    path = [KRoot; cur] /\
    bad = existsb (fun v => memb v (s_inprog s)) [KRoot; cur] /\
    exists t', s' = rd_mark cur (add_input (set_tape s t') cur).
  Proof.
    intros Vc Pc P. destruct HS as [W R Wt Nv To Rd].
    unfold plan in P.
    destruct (discount_any cur W) as (Wc & Hvc & Hkc & Hec).
    set (cg := discount g cur) in *.
    destruct (reverse_spec Wc) as (WH & HvH & HeH).
    set (H := g_reverse cg) in *.
    destruct (dijkstra_t H KRoot (s_tape s)) as [[[d p] t']| | |] eqn:DT; cbn [bind] in P; try discriminate.
    unfold dijkstra_t in DT.
    destruct (take_pops (List.length (g_vertex_keys H)) (s_tape s)) as [[pops t1]| | |]; cbn [bind] in DT; try discriminate.
    destruct (dijkstra H KRoot pops) as [[d1 p1]| | |] eqn:DJ; cbn [bind] in DT; try discriminate.
    inversion DT; subst d1 p1 t1; clear DT.
    assert (VK : g_vertex_keys H = g_vertex_keys g).
    { transitivity (g_vertex_keys cg); [reflexivity|exact Hkc]. }
    assert (Ncur : KRoot <> cur).
    { intros <-. exact Pc. }
    assert (E1 : ew g cur KRoot = Some 1).
    { rewrite (Rd cur Vc Pc). reflexivity. }
    destruct (@dij_direct _ _ _ H KRoot cur isv WH) with (pops := pops) (d := d) (p := p) as [P1 P2].
    - rewrite VK. exact Small.
    - intros a b w. rewrite HeH, Hec.
      destruct (ew g b a) as [w0|] eqn:Q; [|discriminate].
      destruct (disc_of cur a) eqn:Da.
      + intros Q1; inversion Q1; subst w. right.
        destruct (disc_isv _ _ Da) as [A B]. split; [reflexivity|]. split; assumption.
      + intros Q1; inversion Q1; subst w. left. apply (Wt _ _ _ Q).
    - intros a b. rewrite HeH, Hec. intros Ne Va.
      assert (Ng : ew g b a <> None).
      { destruct (ew g b a); [discriminate|exact Ne]. }
      destruct (isv b) eqn:Vb; [|reflexivity].
      rewrite (Nv _ _ Ng Vb) in Va. discriminate.
    - rewrite HeH, Hec, E1. cbn [disc_of]. destruct cur; reflexivity.
    - exact Ncur.
    - reflexivity.
    - exact DJ.
    - (* the path *)
      unfold edge_to_path in P.
      assert (Len : exists n, List.length (g_vertex_keys cg) = S n).
      { rewrite Hkc. destruct (g_vertex_keys g) as [|k ks] eqn:Q; [|eexists; reflexivity].
        exfalso. apply in_vertex_keys in R. rewrite Q in R. destruct R. }
      destruct Len as (n & Len). rewrite Len in P.
      cbn [etp] in P. rewrite P2 in P. rewrite P1 in P. cbn [bind] in P.
      inversion P; subst path bad s'; clear P.
      split; [reflexivity|]. split; [reflexivity|].
      exists t'. unfold rd_mark. destruct cur; reflexivity.
  Qed.
End Plan.

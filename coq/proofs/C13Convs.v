(* C13Convs.v -- C13, multiplicity of the converter list: the
   unsatisfied-argument error raised at graph construction lists every
   supplied converter with (at least) its multiplicity.

   Two facts:
   (1) the converter list of the full graph is the builder's converter list
       followed by the converters the generators added (a prefix property);
   (2) the only unsatisfied-argument error with [full = true] is the one
       built by [prune]; [reach] only ever reports [full = false], and
       [full_graph] only ever fails with [XGen]. *)
From ArgMapper Require Import Base Graph GraphAlg GraphSpec Types Args Resolver ResolverSpec
     CheckResolver Monitors ResolverStatements ResolverStatements6.
From ArgMapper.proofs Require Import C0213UnsatReach.
From Coq Require Import List Lia ZArith.
Import ListNotations.
Set Implicit Arguments.
Local Open Scope Z_scope.

(* ================= (1) the prefix property ================= *)
Definition ext_of (bc : list fdecl) (acc : rgraph * list fdecl * list event * option Z) : Prop :=
  let '(g, convs, tr, err) := acc in exists l, convs = bc ++ l.

Lemma fold_left_pres {A B} (P : A -> Prop) (F : A -> B -> A) (l : list B) :
  (forall a x, P a -> P (F a x)) -> forall a, P a -> P (fold_left F l a).
Proof.
  intros St. induction l as [|x l IH]; intros a Pa; simpl; [exact Pa|].
  apply IH. apply St. exact Pa.
Qed.

Lemma run_gens_prefix g gens ks bc tr0 :
  ext_of bc (run_gens g gens ks bc tr0).
Proof.
  unfold run_gens. apply fold_left_pres.
  - intros [[[g1 convs] tr] err] k I.
    destruct err as [e|]; [exact I|].
    destruct (value_of_vertex k); [|exact I].
    apply fold_left_pres; [|exact I].
    intros [[[g2 convs2] tr2] err2] gn I2.
    destruct err2 as [e|]; [exact I2|].
    destruct (lookup k (gen_table gn)) as [[|e|c]|]; try exact I2.
    destruct I2 as [l ->]. exists (l ++ [c]). rewrite app_assoc. reflexivity.
  - exists []. rewrite app_nil_r. reflexivity.
Qed.

Lemma full_graph_convs u f b rd t r tr :
  full_graph u f b rd t = Ok (r, tr) ->
  match r with
  | inl fg => exists l, fg_convs fg = b_convs b ++ l
  | inr e => exists x, e = XGen x
  end.
Proof.
  unfold full_graph.
  set (g3 := fold_left (fun g c => func_graph g c true) (b_convs b) _).
  destruct (match b_gens b with [] => Ok ([], t) | _ :: _ => take_perm SITE_GEN_VERTS (g_vertex_keys g3) t end)
    as [[ks t']| | |]; simpl; try discriminate.
  pose proof (run_gens_prefix g3 (b_gens b) ks (b_convs b) []) as RG.
  destruct (run_gens g3 (b_gens b) ks (b_convs b) []) as [[[g4 convs] trg] gerr].
  destruct gerr as [e|]; intros Q; inversion Q; subst; clear Q.
  - exists e. reflexivity.
  - simpl. exact RG.
Qed.

(* ================= (2) reach never reports full = true ================= *)
Definition nofull (e : rerr) : Prop :=
  match e with XUnsat _ _ _ true => False | _ => True end.

Section NoFull.
  Variable u : universe.
  Variable bh : behaviour.
  Variable g : rgraph.
  Variable rd : bool.

  Definition rec_nf (rec : vkey -> rstate -> res (rstate * (argmap + rerr))) : Prop :=
    forall v s s' e, rec v s = Ok (s', inr e) -> nofull e.

  Lemma walk_f_nf rec : rec_nf rec ->
    forall vs prev final s s' e,
      walk_f u bh g rd rec prev vs final s = Ok (s', inr e) -> nofull e.
  Proof.
    intros R. induction vs as [|v vs IH]; intros prev final s s' e Q.
    - simpl in Q. discriminate.
    - destruct v as [|ft|n t st|t st|t st]; cbn [walk_f] in Q.
      + exact (IH _ _ _ _ _ Q).
      + destruct (g_vertex g (KFunc ft)) as [[|c]|]; try discriminate.
        destruct (rec (KFunc ft) s) as [[s1 [fam|e1]]| | |] eqn:Rq; cbn [bind] in Q; try discriminate.
        * destruct (call_direct u bh rd c fam s1) as [[res s2]| | |]; cbn [bind] in Q; try discriminate.
          destruct (r_builderr res).
          { inversion Q; subst. exact I. }
          destruct (r_err res) as [er|].
          { inversion Q; subst. exact I. }
          destruct (take_perm SITE_REACH_IN (g_in_keys g (KFunc ft)) (s_tape s2)) as [[ins t']| | |];
            cbn [bind] in Q; try discriminate.
          destruct (output_values c res ins (set_tape s2 t')) as [s3| | |]; cbn [bind] in Q; try discriminate.
          exact (IH _ _ _ _ _ Q).
        * inversion Q; subst. exact (R _ _ _ _ Rq).
      + exact (IH _ _ _ _ _ Q).
      + exact (IH _ _ _ _ _ Q).
      + exact (IH _ _ _ _ _ Q).
  Qed.

  Lemma walk_paths_f_nf rec (leave : rstate -> rstate) : rec_nf rec ->
    forall paths am s s' e,
      walk_paths_f u bh g rd rec leave paths am s = Ok (s', inr e) -> nofull e.
  Proof.
    intros R. induction paths as [|path rest IH]; intros am s s' e Q; cbn [walk_paths_f] in Q.
    - discriminate.
    - destruct (walk_f u bh g rd rec None path None s) as [[s1 [[fv|]|e1]]| | |] eqn:W;
        cbn [bind] in Q; try discriminate.
      + exact (IH _ _ _ _ Q).
      + inversion Q; subst. exact (walk_f_nf R _ _ _ _ W).
  Qed.

  Lemma reach_body_nf rec : rec_nf rec -> rec_nf (reach_body u bh g rd rec).
  Proof.
    intros R v s s' e Q. unfold reach_body in Q.
    destruct (take_perm SITE_REACH_OUT (g_out_keys g v) (s_tape (set_inprog s (v :: s_inprog s))))
      as [[outs t']| | |]; cbn [bind] in Q; try discriminate.
    destruct (classify _ _ _ _) as [am todo].
    destruct todo as [|x todo]; [discriminate|].
    destruct (plans _ _ _ _)
      as [[[paths unsat] s1]| | |]; cbn [bind] in Q; try discriminate.
    destruct unsat as [|y unsat].
    - exact (walk_paths_f_nf _ R _ _ _ Q).
    - inversion Q; subst. exact I.
  Qed.

  Theorem reach_nf : forall fuel, rec_nf (reach u bh g rd fuel).
  Proof.
    induction fuel as [|fuel IH].
    - intros v s s' e Q. simpl in Q. discriminate.
    - intros v s s' e Q. rewrite reach_S in Q. exact (reach_body_nf IH _ _ Q).
  Qed.
End NoFull.

(* ================= counting ================= *)
Lemma count_z_app x l1 l2 : count_z x (l1 ++ l2) = (count_z x l1 + count_z x l2)%nat.
Proof. unfold count_z. rewrite filter_app, app_length. reflexivity. Qed.

Lemma convs_all_prefix (bc l : list fdecl) :
  forallb (fun c => Nat.leb (count_z (fn_type c) (map fn_type bc))
                            (count_z (fn_type c) (map fn_type (bc ++ l)))) bc = true.
Proof.
  apply forallb_forall. intros c _. apply Nat.leb_le.
  rewrite map_app, count_z_app. lia.
Qed.

(* ================= the theorem ================= *)
Lemma c13_convs_nofull b tr w t il e :
  nofull e -> c13_convs_all b (co_of_run (mkRun (OErr e) tr w t il)) = true.
Proof.
  intros N. destruct e as [| |a i c [|]| | | |]; try reflexivity. destruct N.
Qed.

Theorem C13_convs_proof : C13_convs_statement.
Proof.
  intros u bh f d opts b w t r HB HC.
  unfold call in HC. rewrite HB in HC. unfold call_graph in HC.
  destruct (full_graph u f b false t) as [[fr tr]| | |] eqn:HF; cbn [bind] in HC; try discriminate.
  pose proof (full_graph_convs _ _ _ _ _ HF) as FC.
  destruct fr as [fg|e0].
  - destruct FC as [l El]. cbn [bind] in HC.
    destruct (prune fg) as [cg|e] eqn:HP.
    + destruct (reach u bh (cg_g cg) false (fuel_of cg) (cg_target cg) (init_state cg w))
        as [[s [am|e]]| | |] eqn:HR; cbn [bind] in HC; try discriminate.
      * destruct (call_direct u bh false f am s) as [[res s1]| | |]; cbn [bind] in HC; try discriminate.
        inversion HC; subst r; clear HC.
        destruct (r_builderr res); reflexivity.
      * inversion HC; subst r; clear HC.
        apply c13_convs_nofull. eapply reach_nf. exact HR.
    + inversion HC; subst r; clear HC.
      unfold prune in HP.
      destruct (filter _ (fg_freq fg)) as [|x xs]; [discriminate|].
      inversion HP; subst e; clear HP.
      unfold c13_convs_all, co_of_run. cbn [run_out co_unsat].
      rewrite El. apply convs_all_prefix.
  - destruct FC as [x ->]. cbn [bind] in HC. inversion HC; subst r. reflexivity.
Qed.
Print Assumptions C13_convs_proof.

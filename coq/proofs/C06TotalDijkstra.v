(* C06TotalDijkstra.v -- the model's Dijkstra on graphs with arbitrary
   (bounded, possibly negative) weights: it never panics, predecessor chains
   are acyclic (EdgeToPath never runs out of fuel), consist of edges, and --
   when the graph is small enough for the distances not to wrap -- lead to
   the source from every reachable vertex.  Used by the C06 totality proof
   (the resolver runs Dijkstra on graphs with discounted, negative edges,
   which is outside the domain of C18). *)
From ArgMapper Require Import Base Graph GraphAlg GraphSpec.
From ArgMapper.proofs Require Import C18DijkstraLemmas C18Dijkstra.
From Coq Require Import Lia ZArith List.
Import ListNotations.
Set Implicit Arguments.
Local Open Scope Z_scope.

Section DJ.
  Context {K : Type} {E : EqDec K} {V : Type}.
  Notation graph := (graph K V).

  (* ---------- rank: position in the pop order ---------- *)
  Fixpoint rank (l : list K) (x : K) : nat :=
    match l with [] => O | y :: l => if eqb x y then O else S (rank l x) end.

  Lemma rank_le l x : (rank l x <= length l)%nat.
  Proof. induction l as [|y l IH]; simpl; [lia|]. destruct (eqb x y); lia. Qed.

  Lemma rank_in l x : In x l -> (rank l x < length l)%nat.
  Proof.
    induction l as [|y l IH]; simpl; [tauto|]. intros A.
    destruct (eqb_spec x y) as [->|Ne]; [lia|]. destruct A as [A|A]; [congruence|].
    specialize (IH A). lia.
  Qed.

  Lemma rank_notin l x : ~ In x l -> rank l x = length l.
  Proof.
    induction l as [|y l IH]; simpl; [reflexivity|]. intros A.
    destruct (eqb_spec x y) as [->|Ne]; [exfalso; apply A; left; reflexivity|].
    rewrite IH; auto.
  Qed.

  Lemma rank_lt_in l x : (rank l x < length l)%nat -> In x l.
  Proof.
    intros L. destruct (In_dec_K x l) as [A|A]; auto.
    rewrite (rank_notin _ _ A) in L. lia.
  Qed.

  Lemma rank_app_in l x u : In x l -> rank (l ++ [u]) x = rank l x.
  Proof.
    induction l as [|y l IH]; simpl; [tauto|]. intros A.
    destruct (eqb_spec x y) as [->|Ne]; [reflexivity|]. destruct A as [A|A]; [congruence|].
    rewrite IH; auto.
  Qed.

  Lemma rank_app_new l u : ~ In u l -> rank (l ++ [u]) u = length l.
  Proof.
    induction l as [|y l IH]; simpl; intros A.
    - rewrite eqb_refl. reflexivity.
    - destruct (eqb_spec u y) as [->|Ne]; [exfalso; apply A; left; reflexivity|].
      rewrite IH; auto.
  Qed.

  Lemma rank_app_other l u x : ~ In x l -> x <> u -> rank (l ++ [u]) x = S (length l).
  Proof.
    induction l as [|y l IH]; simpl; intros A Ne.
    - destruct (eqb_spec x u); [contradiction|reflexivity].
    - destruct (eqb_spec x y) as [->|Ne']; [exfalso; apply A; left; reflexivity|].
      rewrite IH; auto.
  Qed.

  Lemma rank_app_ge l x u : (rank l x <= rank (l ++ [u]) x)%nat.
  Proof.
    destruct (In_dec_K x l) as [A|A].
    - rewrite rank_app_in; auto.
    - rewrite (rank_notin _ _ A). destruct (eq_dec_K x u) as [->|Ne].
      + rewrite rank_app_new; auto.
      + rewrite rank_app_other; auto.
  Qed.

  Lemma rank_inj l x y : In y l -> rank l x = rank l y -> x = y.
  Proof.
    induction l as [|z l IH]; simpl; [tauto|]. intros A.
    destruct (eqb_spec x z) as [->|Nx]; destruct (eqb_spec y z) as [->|Ny]; intros Q; auto; try discriminate.
    destruct A as [A|A]; [congruence|]. apply IH; auto.
  Qed.

  (* ranks below that of a popped vertex are stable under a further pop *)
  Lemma rank_app_lt l u a b : In a l -> (rank l b < rank l a)%nat ->
    (rank (l ++ [u]) b < rank (l ++ [u]) a)%nat.
  Proof.
    intros A L. pose proof (rank_in _ _ A).
    assert (B : In b l) by (apply rank_lt_in; lia).
    rewrite !rank_app_in; auto.
  Qed.
  Lemma rank_app_le l u a b : In a l -> (rank l b <= rank l a)%nat ->
    (rank (l ++ [u]) b <= rank (l ++ [u]) a)%nat.
  Proof.
    intros A L. pose proof (rank_in _ _ A).
    assert (B : In b l) by (apply rank_lt_in; lia).
    rewrite !rank_app_in; auto.
  Qed.
  Lemma rank_app_lt_r l u a b : In a l -> (rank l a < rank l b)%nat ->
    (rank (l ++ [u]) a < rank (l ++ [u]) b)%nat.
  Proof.
    intros A L. rewrite (rank_app_in _ _ _ A). pose proof (rank_app_ge l b u). lia.
  Qed.
  Lemma rank_app_lt_inv l u a b : In a l -> (rank (l ++ [u]) a < rank (l ++ [u]) b)%nat ->
    (rank l a < rank l b)%nat.
  Proof.
    intros A L. rewrite (rank_app_in _ _ _ A) in L.
    destruct (In_dec_K b l) as [B|B].
    - rewrite (rank_app_in _ _ _ B) in L. exact L.
    - rewrite (rank_notin _ _ B). apply rank_in; auto.
  Qed.

  (* ---------- wrap64 on the two-sided range ---------- *)
  Lemma wrap64_id2 z : - INF <= z -> z <= INF -> wrap64 z = z.
  Proof. unfold wrap64, INF. intros A B. rewrite Z.mod_small; lia. Qed.

  (* ---------- what one pop does ---------- *)
  Definition step_rel (g : graph) (st st' : @dstate K) (u : K) : Prop :=
    unvis st' = remove1 u (unvis st) /\
    (getd (dist st) u = INF -> dist st' = dist st /\ prev st' = prev st) /\
    (getd (dist st) u <> INF ->
       upd_spec u (getd (dist st) u) (inner (gout g) u)
                (mkD (remove1 u (unvis st)) (dist st) (prev st)) st').

  Lemma inner_edge (g : graph) u x w : wf_graph g -> In (x, w) (inner (gout g) u) -> edge g u x w.
  Proof.
    intros WF A. unfold edge. unfold inner in *.
    destruct (lookup u (gout g)) as [i|] eqn:Q; [|destruct A].
    apply In_lookup; auto. apply (wf_inner_out_nodup WF _ Q).
  Qed.

  Lemma dstep_rel (g : graph) st u :
    wf_graph g -> (forall v, vertex g v -> exists dv, lookup v (dist st) = Some dv) ->
    is_min st u = true ->
    exists st', dstep g st u = Ok st' /\ step_rel g st st' u.
  Proof.
    intros WF Tot Hm. unfold dstep. rewrite Hm. cbv zeta.
    destruct (getd (dist st) u =? INF) eqn:Einf.
    - apply Z.eqb_eq in Einf. eexists; split; [reflexivity|].
      split; [reflexivity|]. split; [intros _; split; reflexivity|]. intros N; contradiction.
    - apply Z.eqb_neq in Einf.
      destruct (relax_fold u (getd (dist st) u) (inner (gout g) u)
                           (mkD (remove1 u (unvis st)) (dist st) (prev st))) as (st' & Fold & Sp).
      { intros v w A. simpl. apply Tot. apply (edge_vertices WF (inner_edge _ _ _ WF A)). }
      exists st'. split; [exact Fold|]. split; [apply Sp|]. split; [intros Q; contradiction|].
      intros _. exact Sp.
  Qed.

  (* ---------- the light invariant: order only ---------- *)
  Record LInv (g : graph) (st : @dstate K) (popped : list K) : Prop := {
    li_nodup : NoDup (popped ++ unvis st);
    li_all : forall x, In x (popped ++ unvis st) <-> vertex g x;
    li_total : forall v, vertex g v -> exists dv, lookup v (dist st) = Some dv;
    li_prev : forall v u, lookup v (prev st) = Some u ->
                In u popped /\ (rank popped u < rank popped v)%nat /\ exists w, edge g u v w }.

  Lemma NoDup_app_notin (l1 l2 : list K) : NoDup (l1 ++ l2) -> forall x, In x l2 -> ~ In x l1.
  Proof.
    induction l1 as [|y l1 IH]; simpl; intros ND x A; [tauto|].
    inversion ND as [|? ? Hy ND']; subst. intros [B|B].
    - subst. apply Hy. apply in_or_app; auto.
    - apply (IH ND' x A B).
  Qed.

  Lemma NoDup_app_l (l1 l2 : list K) : NoDup (l1 ++ l2) -> NoDup l1.
  Proof.
    induction l1 as [|y l1 IH]; simpl; intros ND; [constructor|].
    inversion ND as [|? ? Hy ND']; subst. constructor; auto.
    intros A. apply Hy. apply in_or_app; auto.
  Qed.

  Lemma NoDup_move (l1 l2 : list K) u : NoDup (l1 ++ l2) -> In u l2 ->
    NoDup ((l1 ++ [u]) ++ remove1 u l2).
  Proof.
    intros ND A. rewrite <- app_assoc. simpl.
    pose proof (NoDup_app_r _ _ ND) as ND2. pose proof (NoDup_app_l _ _ ND) as ND1.
    pose proof (NoDup_app_notin _ _ ND) as Dis.
    induction l1 as [|y l1 IH]; simpl.
    - constructor.
      + intros B. apply remove1_In_NoDup in B; auto. tauto.
      + apply remove1_NoDup; auto.
    - simpl in ND. inversion ND as [|? ? Hy ND']; subst.
      constructor.
      + intros B. apply in_app_or in B. destruct B as [B|[B|B]].
        * apply Hy. apply in_or_app; auto.
        * subst y. apply (Dis u A). left; auto.
        * apply remove1_In_NoDup in B; auto. apply Hy. apply in_or_app; tauto.
      + apply IH; auto.
        * inversion ND1; auto.
        * intros x Ax Bx. apply (Dis x Ax). right; auto.
  Qed.

  Lemma LInv_step (g : graph) st st' popped u :
    wf_graph g -> LInv g st popped -> In u (unvis st) -> step_rel g st st' u ->
    LInv g st' (popped ++ [u]).
  Proof.
    intros WF [ND All Tot Pv] Hu (Uv & Sinf & Sfin).
    assert (Nu : ~ In u popped) by (apply (NoDup_app_notin _ _ ND); auto).
    pose proof (NoDup_app_r _ _ ND) as ND2.
    assert (InU' : forall x, In x (unvis st') <-> In x (unvis st) /\ x <> u).
    { intros x. rewrite Uv. apply remove1_In_NoDup; auto. }
    constructor.
    - rewrite Uv. apply NoDup_move; auto.
    - intros x. rewrite <- All. rewrite !in_app_iff, InU'. simpl.
      destruct (eq_dec_K x u) as [->|Ne]; intuition (subst; auto; congruence).
    - intros v Vv. destruct (Tot v Vv) as (dv & Q).
      destruct (Z.eq_dec (getd (dist st) u) INF) as [Ei|Ni].
      + destruct (Sinf Ei) as [-> _]. eauto.
      + destruct (upd_mono (Sfin Ni) v Q) as (dv' & Q' & _). eauto.
    - intros v a Qp.
      assert (Old : lookup v (prev st) = Some a ->
                    In a (popped ++ [u]) /\ (rank (popped ++ [u]) a < rank (popped ++ [u]) v)%nat /\
                    exists w, edge g a v w).
      { intros Q0. destruct (Pv _ _ Q0) as (Ia & Rk & Ed). split; [apply in_or_app; auto|].
        split; [apply rank_app_lt_r; auto|exact Ed]. }
      destruct (Z.eq_dec (getd (dist st) u) INF) as [Ei|Ni].
      + destruct (Sinf Ei) as [_ Ep]. rewrite Ep in Qp. auto.
      + destruct (Sfin Ni) as (_ & Ch & _).
        destruct (Ch v) as [[_ B]|(Iv & w & dx & A & _ & _ & _ & Pn)].
        * simpl in B. rewrite B in Qp. auto.
        * simpl in Iv. rewrite Pn in Qp. inversion Qp; subst a.
          apply remove1_In_NoDup in Iv; auto. destruct Iv as [Iv Nvu].
          assert (Nv : ~ In v popped) by (apply (NoDup_app_notin _ _ ND); auto).
          split; [apply in_or_app; right; left; auto|]. split.
          -- rewrite rank_app_new; auto. rewrite rank_app_other; auto.
          -- exists w. apply inner_edge; auto.
  Qed.

  Lemma LInv_init (g : graph) src :
    wf_graph g -> vertex g src -> exists st0, dinit g src = Ok st0 /\ LInv g st0 [] /\
      st0 = mkD (g_vertex_keys g) (insert src 0 (map (fun k => (k, INF)) (g_vertex_keys g))) [].
  Proof.
    intros WF Vs. unfold dinit.
    assert (M : memb src (g_vertex_keys g) = true) by (apply memb_In; exact Vs).
    rewrite M. eexists; split; [reflexivity|]. split; [|reflexivity].
    constructor; simpl.
    - apply (wf_hash_nodup WF).
    - intros x. reflexivity.
    - intros v Vv. rewrite dist0_lookup. destruct (eqb v src); eauto.
      assert (M' : memb v (g_vertex_keys g) = true) by (apply memb_In; exact Vv).
      rewrite M'. eauto.
    - intros v u Q. discriminate.
  Qed.

  (* ---------- generic loop lemma ---------- *)
  Lemma dloop_gen (g : graph) (I : @dstate K -> list K -> Prop) :
    wf_graph g ->
    (forall st popped, I st popped -> forall v, vertex g v -> exists dv, lookup v (dist st) = Some dv) ->
    (forall st popped u st', I st popped -> is_min st u = true -> step_rel g st st' u ->
                             I st' (popped ++ [u])) ->
    forall pops st popped, I st popped ->
      (exists st' popped', dloop g st pops = Ok st' /\ I st' popped' /\ unvis st' = []) \/
      dloop g st pops = TapeErr SITE_POP.
  Proof.
    intros WF Tot Step. induction pops as [|u pops IH]; intros st popped Ist; simpl.
    - destruct (unvis st) eqn:Q; [left; eauto|right; reflexivity].
    - destruct (is_min st u) eqn:M.
      + destruct (@dstep_rel g st u WF (Tot _ _ Ist) M) as (st1 & S1 & R1).
        rewrite S1. simpl. apply (IH st1 (popped ++ [u])). eapply Step; eauto.
      + right. unfold dstep. rewrite M. reflexivity.
  Qed.

  (* ---------- chains from the light invariant ---------- *)
  Lemma chain_exists (g : graph) st popped :
    LInv g st popped ->
    forall n v, (rank popped v <= n)%nat ->
      exists l, chain (prev st) v l /\ (length l <= S (rank popped v))%nat.
  Proof.
    intros I. induction n as [|n IH]; intros v Le.
    - destruct (lookup v (prev st)) as [a|] eqn:Q.
      + destruct (li_prev I _ Q) as (_ & Rk & _). lia.
      + exists [v]. split; [constructor; auto|simpl; lia].
    - destruct (lookup v (prev st)) as [a|] eqn:Q.
      + destruct (li_prev I _ Q) as (_ & Rk & _).
        destruct (IH a) as (l & C & Len); [lia|].
        exists (l ++ [v]). split; [eapply chain_step; eauto|].
        rewrite app_length; simpl. lia.
      + exists [v]. split; [constructor; auto|simpl; lia].
  Qed.

  Lemma LInv_length (g : graph) st popped :
    wf_graph g -> LInv g st popped -> unvis st = [] -> length popped = length (g_vertex_keys g).
  Proof.
    intros WF I U. pose proof (li_nodup I) as ND. pose proof (li_all I) as All.
    rewrite U, app_nil_r in ND, All.
    apply Nat.le_antisymm; apply NoDup_incl_length; auto.
    - intros x A. apply All; auto.
    - apply (wf_hash_nodup WF).
    - intros x A. apply All; auto.
  Qed.

  (* the predecessor map of a finished search *)
  Definition pred_ok (g : graph) (p : amap K K) : Prop :=
    (forall v u, lookup v p = Some u -> exists w, edge g u v w) /\
    (forall v fuel, (length (g_vertex_keys g) < fuel)%nat ->
                    exists l, etp fuel p v [] = Ok l /\ chain p v l).

  Theorem dijkstra_light (g : graph) src pops :
    wf_graph g -> vertex g src ->
    (exists d p, dijkstra g src pops = Ok (d, p) /\ pred_ok g p) \/
    dijkstra g src pops = TapeErr SITE_POP.
  Proof.
    intros WF Vs. unfold dijkstra.
    destruct (LInv_init _ WF Vs) as (st0 & D0 & I0 & _). rewrite D0. cbn [bind].
    destruct (@dloop_gen g (LInv g) WF) with (pops := pops) (st := st0) (popped := @nil K)
      as [(st' & popped' & DL & I' & U')|DL]; auto.
    - intros st popped I. apply (li_total I).
    - intros st popped u st' I Hm R. apply LInv_step with (st := st); auto.
      unfold is_min in Hm. apply andb_true_iff in Hm. apply memb_In. tauto.
    - left. rewrite DL. cbn [bind]. exists (dist st'), (prev st'). split; [reflexivity|].
      split.
      + intros v u Q. destruct (li_prev I' _ Q) as (_ & _ & Ed). exact Ed.
      + intros v fuel Lt. destruct (@chain_exists g st' popped' I' (rank popped' v) v) as (l & C & Len); [lia|].
        exists l. split; [|exact C].
        rewrite <- (app_nil_r l). apply etp_chain; auto.
        pose proof (rank_le popped' v) as RL. rewrite (LInv_length WF I' U') in RL. lia.
    - right. rewrite DL. reflexivity.
  Qed.

  (* ---------- the heavy invariant: bounded weights, no wrap ---------- *)
  Section Heavy.
    Variable g : graph.
    Variable src : K.
    Variable B : Z.
    Hypothesis WF : wf_graph g.
    Hypothesis Vsrc : vertex g src.
    Hypothesis Bpos : 0 <= B.
    Hypothesis Wbound : forall a b w, edge g a b w -> - B <= w <= B.
    Hypothesis Small : B * (Z.of_nat (length (g_vertex_keys g)) + 1) < INF.

    Record HInv (st : @dstate K) (popped : list K) : Prop := {
      hi_light : LInv g st popped;
      hi_len : (length popped + length (unvis st) = length (g_vertex_keys g))%nat;
      hi_range : forall v dv, lookup v (dist st) = Some dv ->
                   dv = INF \/ - B * Z.of_nat (length popped) <= dv <= B * Z.of_nat (length popped);
      hi_src : lookup src (dist st) = Some 0 /\ lookup src (prev st) = None;
      hi_first : In src (unvis st) -> forall x dx, x <> src -> lookup x (dist st) = Some dx -> dx = INF;
      hi_prev : forall v u, lookup v (prev st) = Some u -> v <> src /\
                  exists du w, lookup u (dist st) = Some du /\ du < INF /\ edge g u v w /\
                               lookup v (dist st) = Some (du + w);
      hi_fin : forall v dv, lookup v (dist st) = Some dv -> dv < INF -> v <> src ->
                 exists u, lookup v (prev st) = Some u;
      hi_relaxed : forall u du v w, In u popped -> lookup u (dist st) = Some du -> du < INF -> edge g u v w ->
                     (rank popped v <= rank popped u)%nat \/
                     exists dv, lookup v (dist st) = Some dv /\ dv <= du + w;
      hi_inf : forall x y dy, In x popped -> lookup x (dist st) = Some INF ->
                 (rank popped x < rank popped y)%nat -> vertex g y -> lookup y (dist st) = Some dy -> dy = INF }.

    Ltac hproj H :=
      pose proof (hi_len H) as Hlen; pose proof (hi_range H) as Hrange;
      pose proof (hi_src H) as Hsrc; pose proof (hi_first H) as Hfirst; pose proof (hi_prev H) as Hprev;
      pose proof (hi_fin H) as Hfin; pose proof (hi_relaxed H) as Hrelax; pose proof (hi_inf H) as Hinf.

    Lemma HInv_init st0 :
      st0 = mkD (g_vertex_keys g) (insert src 0 (map (fun k => (k, INF)) (g_vertex_keys g))) [] ->
      LInv g st0 [] -> HInv st0 [].
    Proof.
      intros -> L. constructor; simpl.
      - exact L.
      - reflexivity.
      - intros v dv. rewrite dist0_lookup. destruct (eqb v src).
        + intros Q; inversion Q; subst. right. lia.
        + destruct (memb v (g_vertex_keys g)); intros Q; inversion Q; subst. left; reflexivity.
      - split; [rewrite dist0_lookup, eqb_refl; reflexivity|reflexivity].
      - intros _ x dx Ne. rewrite dist0_lookup. destruct (eqb_spec x src); [contradiction|].
        destruct (memb x (g_vertex_keys g)); intros Q; inversion Q; reflexivity.
      - intros v u Q; discriminate.
      - intros v dv. rewrite dist0_lookup. destruct (eqb_spec v src); [intros; contradiction|].
        destruct (memb v (g_vertex_keys g)); intros Q; inversion Q; subst. lia.
      - intros u du v w [].
      - intros x y dy [].
    Qed.

    Lemma HInv_step st st' popped u :
      HInv st popped -> is_min st u = true -> step_rel g st st' u -> HInv st' (popped ++ [u]).
    Proof.
      intros H Hm R. hproj H.
      pose proof (hi_light H) as L.
      unfold is_min in Hm. apply andb_true_iff in Hm. destruct Hm as [Hu Hmin].
      apply memb_In in Hu. rewrite forallb_forall in Hmin.
      pose proof (LInv_step WF L Hu R) as L'.
      destruct R as (Uv & Sinf & Sfin).
      pose proof (li_nodup L) as ND. pose proof (NoDup_app_r _ _ ND) as ND2.
      assert (Nu : ~ In u popped) by (apply (NoDup_app_notin _ _ ND); auto).
      assert (Vu : vertex g u) by (apply (li_all L); apply in_or_app; auto).
      destruct (li_total L _ Vu) as (du & Qu).
      assert (Gu : getd (dist st) u = du) by (unfold getd; rewrite Qu; reflexivity).
      rewrite Gu in Sinf, Sfin.
      assert (InU' : forall x, In x (unvis st') <-> In x (unvis st) /\ x <> u).
      { intros x. rewrite Uv. apply remove1_In_NoDup; auto. }
      assert (Len' : (length (popped ++ [u]) + length (unvis st') = length (g_vertex_keys g))%nat).
      { rewrite app_length, Uv. simpl. pose proof (remove1_length u (unvis st) Hu).
        pose proof Hlen. lia. }
      assert (Cn : (S (length popped) <= length (g_vertex_keys g))%nat).
      { rewrite app_length in Len'. simpl in Len'. lia. }
      assert (Min : forall x dx, In x (unvis st) -> lookup x (dist st) = Some dx -> du <= dx).
      { intros x dx A Q. specialize (Hmin x A). rewrite Gu in Hmin. unfold getd in Hmin.
        rewrite Q in Hmin. apply Z.leb_le; auto. }
      assert (Lp : length (popped ++ [u]) = S (length popped)) by (rewrite app_length; simpl; lia).
      assert (Bc : B * Z.of_nat (length popped) <= B * Z.of_nat (S (length popped))) by nia.
      assert (Bn : B * Z.of_nat (S (length popped)) < INF) by nia.
      assert (RkOld : forall a b, In a popped -> (rank popped b <= rank popped a)%nat ->
                                  (rank (popped ++ [u]) b <= rank (popped ++ [u]) a)%nat)
        by (intros; apply rank_app_le; auto).
      destruct (Z.eq_dec du INF) as [Ei|Ni].
      - (* an unreachable vertex is popped: nothing changes *)
        destruct (Sinf Ei) as [Ed Ep].
        constructor; auto.
        + rewrite Ed, Lp. intros v dv Q. destruct (Hrange _ _ Q) as [A|A]; [left; auto|right; lia].
        + rewrite Ed, Ep. apply Hsrc.
        + rewrite Ed. intros A. apply InU' in A. apply Hfirst. tauto.
        + rewrite Ed, Ep. apply Hprev.
        + rewrite Ed, Ep. apply Hfin.
        + rewrite Ed. intros a da v w Ia Qa Fa Edg. apply in_app_or in Ia. destruct Ia as [Ia|[<-|[]]].
          * destruct (Hrelax _ _ _ _ Ia Qa Fa Edg) as [A|A]; [left; auto|right; auto].
          * rewrite Qu in Qa. inversion Qa. lia.
        + rewrite Ed. intros x y dy Ix Qx Rk Vy Qy. apply in_app_or in Ix. destruct Ix as [Ix|[<-|[]]].
          * apply (Hinf x y dy Ix Qx); auto. apply rank_app_lt_inv with (u := u); auto.
          * rewrite rank_app_new in Rk; auto.
            assert (Ny : ~ In y popped).
            { intros A. pose proof (rank_in _ _ A). rewrite rank_app_in in Rk; auto. lia. }
            assert (Iy : In y (unvis st)).
            { apply (li_all L) in Vy. apply in_app_or in Vy. tauto. }
            pose proof (Min _ _ Iy Qy). destruct (Hrange _ _ Qy) as [A|A]; auto. lia.
      - (* a reachable vertex is popped and relaxes its out-edges *)
        pose proof (Sfin Ni) as Sp. destruct Sp as (_ & Ch & Rl). simpl in Ch, Rl.
        pose proof (upd_mono (Sfin Ni)) as Mono. simpl in Mono.
        assert (Fu : du < INF) by (destruct (Hrange _ _ Qu); lia).
        assert (Ru : - B * Z.of_nat (length popped) <= du <= B * Z.of_nat (length popped))
          by (destruct (Hrange _ _ Qu); [contradiction|auto]).
        assert (Wr : forall x w, In (x, w) (inner (gout g) u) ->
                       edge g u x w /\ wrap64 (du + w) = du + w /\
                       - B * Z.of_nat (S (length popped)) <= du + w <= B * Z.of_nat (S (length popped))).
        { intros x w A. pose proof (inner_edge _ _ _ WF A) as Edg. pose proof (Wbound Edg).
          assert (- B * Z.of_nat (S (length popped)) <= du + w <= B * Z.of_nat (S (length popped))) by nia.
          split; auto. split; auto. apply wrap64_id2; lia. }
        assert (Unch : forall x, ~ In x (unvis st') ->
                  lookup x (dist st') = lookup x (dist st) /\ lookup x (prev st') = lookup x (prev st)).
        { intros x N. destruct (Ch x) as [A|(A & _)]; auto. exfalso. apply N. rewrite Uv. exact A. }
        assert (SrcUnch : lookup src (dist st') = lookup src (dist st) /\ lookup src (prev st') = lookup src (prev st)).
        { destruct (Ch src) as [A|(A & _)]; auto. exfalso.
          apply remove1_In_NoDup in A; auto. destruct A as [A Ne].
          assert (Q := Hfirst A u du (fun e => Ne (eq_sym e)) Qu). lia. }
        constructor; auto.
        + intros v dv Q. rewrite Lp.
          destruct (Ch v) as [[A _]|(_ & w & dx & A & _ & _ & Qn & _)].
          * rewrite A in Q. destruct (Hrange _ _ Q) as [C|C]; [left; auto|right; lia].
          * destruct (Wr _ _ A) as (_ & Wq & Rg). rewrite Wq in Qn. rewrite Qn in Q. inversion Q; subst. right; auto.
        + destruct SrcUnch as [A1 A2]. rewrite A1, A2. apply Hsrc.
        + intros A. apply InU' in A. destruct A as [A Ne]. assert (Q := Hfirst A u du (fun e => Ne (eq_sym e)) Qu). lia.
        + intros v a Qp.
          destruct (Ch v) as [[A Bq]|(Iv & w & dx & A & _ & _ & Qn & Pn)].
          * rewrite Bq in Qp. destruct (Hprev _ _ Qp) as (Nv & da & w & Qa & Fa & Edg & Qv).
            split; auto. exists da, w. rewrite A. split; [|auto].
            destruct (li_prev L _ Qp) as (Ia & _ & _).
            destruct (Unch a) as [C _]; [|rewrite C; auto].
            intros D. apply InU' in D. destruct D as [D _]. apply (NoDup_app_notin _ _ ND _ D Ia).
          * rewrite Pn in Qp. inversion Qp; subst a.
            destruct (Wr _ _ A) as (Edg & Wq & _). rewrite Wq in Qn.
            split.
            -- intros ->. destruct SrcUnch as [_ A2]. rewrite A2 in Pn. destruct Hsrc as [_ C]. congruence.
            -- exists du, w. destruct (Unch u) as [C _].
               { intros D. apply InU' in D. tauto. }
               rewrite C. auto.
        + intros v dv Q Fv Nv.
          destruct (Ch v) as [[A Bq]|(_ & w & dx & _ & _ & _ & _ & Pn)].
          * rewrite A in Q. rewrite Bq. apply (Hfin _ _ Q); auto.
          * eauto.
        + intros a da v w Ia Qa Fa Edg. apply in_app_or in Ia. destruct Ia as [Ia|[<-|[]]].
          * destruct (Unch a) as [C _].
            { intros D. apply InU' in D. destruct D as [D _]. apply (NoDup_app_notin _ _ ND _ D Ia). }
            rewrite C in Qa.
            destruct (Hrelax _ _ _ _ Ia Qa Fa Edg) as [A|(dv & Qv & Le)]; [left; auto|right].
            destruct (Mono _ _ Qv) as (dv' & Qv' & Le'). exists dv'. split; auto. lia.
          * destruct (Unch u) as [C _].
            { intros D. apply InU' in D. tauto. }
            rewrite C, Qu in Qa. inversion Qa; subst da.
            assert (Vv : vertex g v) by apply (edge_vertices WF Edg).
            destruct (In_dec_K v (unvis st')) as [Iv|Nv].
            -- right. assert (A : In (v, w) (inner (gout g) u)) by (apply lookup_In; exact Edg).
               destruct (Wr _ _ A) as (_ & Wq & _). rewrite <- Wq. apply Rl; auto. rewrite <- Uv. exact Iv.
            -- left. apply (li_all L) in Vv. apply in_app_or in Vv.
               rewrite rank_app_new; auto.
               destruct Vv as [Vv|Vv].
               ++ rewrite rank_app_in; auto. pose proof (rank_in _ _ Vv). lia.
               ++ destruct (eq_dec_K v u) as [->|Ne].
                  ** rewrite rank_app_new; auto.
                  ** exfalso. apply Nv. apply InU'. auto.
        + intros x y dy Ix Qx Rk Vy Qy. exfalso. apply in_app_or in Ix. destruct Ix as [Ix|[<-|[]]].
          * destruct (Unch x) as [C _].
            { intros D. apply InU' in D. destruct D as [D _]. apply (NoDup_app_notin _ _ ND _ D Ix). }
            rewrite C in Qx.
            assert (Rk' : (rank popped x < rank popped u)%nat).
            { rewrite (rank_notin _ _ Nu). apply rank_in; auto. }
            pose proof (Hinf x u _ Ix Qx Rk' Vu Qu). lia.
          * destruct (Unch u) as [C _].
            { intros D. apply InU' in D. tauto. }
            rewrite C, Qu in Qx. inversion Qx. lia.
    Qed.

    (* ---------- consequences for a finished search ---------- *)
    Section Final.
      Variable st : @dstate K.
      Variable popped : list K.
      Hypothesis H : HInv st popped.
      Hypothesis U : unvis st = [].

      Lemma fin_all_popped v : vertex g v -> In v popped.
      Proof.
        intros Vv. apply (li_all (hi_light H)) in Vv. rewrite U, app_nil_r in Vv. exact Vv.
      Qed.

      Lemma fin_reach_finite a c p w :
        walk g a c p w -> forall da, lookup a (dist st) = Some da -> da < INF ->
        exists dc, lookup c (dist st) = Some dc /\ dc < INF.
      Proof.
        hproj H. induction 1 as [a Va|a b c p w1 w2 Edg Wk IH]; intros da Qa Fa; [eauto|].
        destruct (edge_vertices WF Edg) as [Va Vb].
        destruct (li_total (hi_light H) _ Vb) as (db & Qb).
        assert (Fb : db < INF).
        { pose proof (fin_all_popped _ Va) as Ia. pose proof (fin_all_popped _ Vb) as Ib.
          destruct (Hrelax _ _ _ _ Ia Qa Fa Edg) as [Rk|(dv & Qv & Le)].
          - destruct (Hrange _ _ Qb) as [Ei|Rg].
            + subst db. destruct (Nat.eq_dec (rank popped b) (rank popped a)) as [Eq|Ne].
              * apply rank_inj in Eq; auto. subst b. rewrite Qa in Qb. inversion Qb. lia.
              * assert (Lt : (rank popped b < rank popped a)%nat) by lia.
                pose proof (Hinf b a _ Ib Qb Lt Va Qa). lia.
            + pose proof Hlen as HL. rewrite U in HL. simpl in HL.
              assert (B * Z.of_nat (length popped) < INF) by nia. lia.
          - rewrite Qb in Qv. inversion Qv; subst dv.
            pose proof (Wbound Edg).
            destruct (Hrange _ _ Qa) as [Ei|Rg]; [lia|].
            pose proof Hlen as HL. rewrite U in HL. simpl in HL.
            assert (B * Z.of_nat (length popped) + B < INF) by nia. lia. }
        eapply IH; eauto.
      Qed.

      Lemma fin_chain_src :
        forall n v dv, (rank popped v <= n)%nat -> lookup v (dist st) = Some dv -> dv < INF ->
        forall l, chain (prev st) v l -> hd v l = src.
      Proof.
        hproj H. induction n as [|n IH]; intros v dv Le Qv Fv l C.
        - inversion C as [v0 Q|v0 a l0 Q C0]; subst.
          + simpl. destruct (eq_dec_K v src) as [->|Ne]; auto.
            destruct (Hfin _ _ Qv Fv Ne) as (a & Qa). congruence.
          + destruct (li_prev (hi_light H) _ Q) as (_ & Rk & _). lia.
        - inversion C as [v0 Q|v0 a l0 Q C0]; subst.
          + simpl. destruct (eq_dec_K v src) as [->|Ne]; auto.
            destruct (Hfin _ _ Qv Fv Ne) as (a & Qa). congruence.
          + destruct (li_prev (hi_light H) _ Q) as (_ & Rk & _).
            destruct (Hprev _ _ Q) as (_ & da & w & Qa & Fa & _ & _).
            assert (Hd : hd a l0 = src) by (eapply IH; eauto; lia).
            destruct l0 as [|z l0]; [inversion C0; destruct l; discriminate|].
            simpl in *. exact Hd.
      Qed.

      (* no detour x -> y -> z is chosen when the direct edge x -> z is not longer *)
      Lemma fin_no_detour x y z w1 w2 w3 :
        lookup z (prev st) = Some y -> lookup y (prev st) = Some x ->
        edge g x y w1 -> edge g y z w2 -> edge g x z w3 -> w1 + w2 <= w3.
      Proof.
        hproj H. intros Pz Py E1 E2 E3.
        destruct (li_prev (hi_light H) _ Pz) as (Iy & Rzy & _).
        destruct (li_prev (hi_light H) _ Py) as (Ix & Ryx & _).
        destruct (Hprev _ _ Pz) as (_ & dy & w2' & Qy & Fy & E2' & Qz).
        destruct (Hprev _ _ Py) as (_ & dx & w1' & Qx & Fx & E1' & Qy').
        unfold edge in *. rewrite E2 in E2'. inversion E2'; subst w2'.
        rewrite E1 in E1'. inversion E1'; subst w1'.
        rewrite Qy in Qy'. inversion Qy'; subst dy.
        destruct (Hrelax _ _ _ _ Ix Qx Fx E3) as [Rk|(dz & Qz' & Le)]; [lia|].
        rewrite Qz in Qz'. inversion Qz'; subst dz. lia.
      Qed.
    End Final.
  End Heavy.

  Definition pred_ok_heavy (g : graph) (src : K) (p : amap K K) : Prop :=
    pred_ok g p /\
    (forall v l, reach g src v -> chain p v l -> hd v l = src) /\
    (forall x y z w1 w2 w3, lookup z p = Some y -> lookup y p = Some x ->
        edge g x y w1 -> edge g y z w2 -> edge g x z w3 -> w1 + w2 <= w3).

  Theorem dijkstra_heavy (g : graph) src B pops :
    wf_graph g -> vertex g src -> 0 <= B ->
    (forall a b w, edge g a b w -> - B <= w <= B) ->
    B * (Z.of_nat (length (g_vertex_keys g)) + 1) < INF ->
    (exists d p, dijkstra g src pops = Ok (d, p) /\ pred_ok_heavy g src p) \/
    dijkstra g src pops = TapeErr SITE_POP.
  Proof.
    intros WF Vs Bp Wb Sm. unfold dijkstra.
    destruct (LInv_init _ WF Vs) as (st0 & D0 & I0 & Eq0). rewrite D0. cbn [bind].
    assert (H0 : HInv g src B st0 []) by (eapply HInv_init; eauto).
    destruct (@dloop_gen g (HInv g src B) WF) with (pops := pops) (st := st0) (popped := @nil K)
      as [(st' & popped' & DL & H' & U')|DL]; auto.
    - intros st popped H. apply (li_total (hi_light H)).
    - intros st popped u st' H Hm R. eapply HInv_step; eauto.
    - left. rewrite DL. cbn [bind]. exists (dist st'), (prev st'). split; [reflexivity|].
      pose proof (hi_light H') as I'.
      split; [split|split].
      + intros v u Q. destruct (li_prev I' _ Q) as (_ & _ & Ed). exact Ed.
      + intros v fuel Lt. destruct (@chain_exists g st' popped' I' (rank popped' v) v) as (l & C & Len); [lia|].
        exists l. split; [|exact C].
        rewrite <- (app_nil_r l). apply etp_chain; auto.
        pose proof (rank_le popped' v) as RL. rewrite (LInv_length WF I' U') in RL. lia.
      + intros v l (pth & w & Wk) C.
        destruct (hi_src H') as [Qs _].
        assert (Fin : exists dv, lookup v (dist st') = Some dv /\ dv < INF).
        { eapply fin_reach_finite with (st := st') (popped := popped'); eauto. unfold INF; lia. }
        destruct Fin as (dv & Qv & Fv).
        eapply fin_chain_src with (st := st') (popped := popped') (n := rank popped' v); eauto.
      + intros x y z w1 w2 w3. eapply fin_no_detour with (st := st') (popped := popped'); eauto.
    - right. rewrite DL. reflexivity.
  Qed.

  (* ---------- the tape wrapper ---------- *)
  Lemma take_pops_cases n (t : tape K) :
    (exists pops t', take_pops n t = Ok (pops, t')) \/ take_pops n t = TapeErr SITE_POP.
  Proof.
    revert t; induction n as [|n IH]; intros t; simpl; [left; eauto|].
    destruct (take_site SITE_POP t) as [[ks t']|]; [|right; reflexivity].
    destruct ks as [|k [|k2 ks]]; try (right; reflexivity).
    destruct (IH t') as [(pops & t'' & Q)|Q]; rewrite Q; simpl; [left; eauto|right; reflexivity].
  Qed.

  Theorem dijkstra_t_light (g : graph) src t :
    wf_graph g -> vertex g src ->
    (exists d p t', dijkstra_t g src t = Ok (d, p, t') /\ pred_ok g p) \/
    dijkstra_t g src t = TapeErr SITE_POP.
  Proof.
    intros WF Vs. unfold dijkstra_t.
    destruct (take_pops_cases (length (g_vertex_keys g)) t) as [(pops & t' & Q)|Q]; rewrite Q; cbn [bind];
      [|right; reflexivity].
    destruct (@dijkstra_light g src pops WF Vs) as [(d & p & D & P)|D]; rewrite D; cbn [bind].
    - left. eauto.
    - right. reflexivity.
  Qed.

  Theorem dijkstra_t_heavy (g : graph) src B t :
    wf_graph g -> vertex g src -> 0 <= B ->
    (forall a b w, edge g a b w -> - B <= w <= B) ->
    B * (Z.of_nat (length (g_vertex_keys g)) + 1) < INF ->
    (exists d p t', dijkstra_t g src t = Ok (d, p, t') /\ pred_ok_heavy g src p) \/
    dijkstra_t g src t = TapeErr SITE_POP.
  Proof.
    intros WF Vs Bp Wb Sm. unfold dijkstra_t.
    destruct (take_pops_cases (length (g_vertex_keys g)) t) as [(pops & t' & Q)|Q]; rewrite Q; cbn [bind];
      [|right; reflexivity].
    destruct (@dijkstra_heavy g src B pops WF Vs Bp Wb Sm) as [(d & p & D & P)|D]; rewrite D; cbn [bind].
    - left. eauto.
    - right. reflexivity.
  Qed.
End DJ.

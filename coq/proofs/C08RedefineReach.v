(* C08RedefineReach.v -- run-time invariant of [reach] used by C08:
   (1) the recorded inputs (callState.InputSet) only grow in [plan], by the
       vertex [plan_input path cur];
   (2) no error produced by [reach] is XFilterOut. *)
From ArgMapper Require Import Base Graph GraphAlg GraphSpec Types Args Resolver.
From ArgMapper.proofs Require Import C18DijkstraLemmas C19RefineMap C19RefineGraph
     C0213UnsatGraph C04ErrorsLemmas.
From Coq Require Import List Lia ZArith.
Import ListNotations.
Set Implicit Arguments.
Local Open Scope Z_scope.

(* the vertex [plan] records as an input *)
Definition plan_input (path : list vkey) (cur : vkey) : vkey :=
  match path with
  | KRoot :: x :: _ => x
  | x :: _ => x
  | [] => cur
  end.

Definition okr {A} (r : A + rerr) : Prop :=
  match r with inr e => e <> XFilterOut | inl _ => True end.

Lemma In_remove1_c08 (x y : vkey) l : In x (remove1 y l) -> In x l.
Proof.
  induction l as [|z l IH]; cbn [remove1]; [tauto|].
  destruct (Base.eqb y z); [intros A; right; exact A|].
  intros [A|A]; [left; exact A|right; apply IH; exact A].
Qed.

Lemma permb_sub_c08 (l1 l2 : list vkey) : permb l1 l2 = true -> forall x, In x l1 -> In x l2.
Proof.
  revert l2; induction l1 as [|y l1 IH]; intros l2; cbn [permb].
  - intros _ x [].
  - intros Hp. apply andb_true_iff in Hp. destruct Hp as [Hm Hp].
    apply membT in Hm. intros x [<-|A]; [exact Hm|].
    apply (In_remove1_c08 x y). apply (IH _ Hp). exact A.
Qed.

Lemma plan_shape g rd cur s path bad s' :
  plan g rd cur s = Ok (path, bad, s') ->
  (exists s0, plan g false cur s = Ok (path, bad, s0)) /\
  (forall k, In k (s_inputs s') -> In k (s_inputs s) \/ k = plan_input path cur).
Proof.
  unfold plan. intros H.
  apply bind_ok in H. destruct H as [[[d p] t'] [E1 H]]. rewrite E1. cbn [bind].
  apply bind_ok in H. destruct H as [pth [E2 H]]. rewrite E2. cbn [bind].
  inversion H; subst path bad s'; clear H.
  split; [eexists; reflexivity|].
  fold (plan_input pth cur).
  set (input := plan_input pth cur).
  assert (A : forall k, In k (s_inputs (add_input (set_tape s t') input)) -> In k (s_inputs s) \/ k = input).
  { intros k. unfold add_input, set_tape. cbn [s_inputs].
    destruct (memb input (s_inputs s)); [auto|].
    intros I. apply in_app_or in I. destruct I as [I|[<-|[]]]; auto. }
  destruct rd; [|exact A].
  destruct input as [|ft|n t st|t st|t st]; try exact A.
  match goal with |- context [if ?c then _ else _] => destruct c end; exact A.
Qed.

Section Inputs.
  Variable u : universe.
  Variable behave : behaviour.
  Variable g : rgraph.
  Variable redefine : bool.
  Variable Rk : vkey -> Prop.
  Hypothesis W : wf_graph g.
  Hypothesis HPlan : forall cur s path bad s',
      vtx g cur <> None -> cur <> KRoot ->
      plan g redefine cur s = Ok (path, bad, s') -> Rk (plan_input path cur).

  Definition IS (s : rstate) : Prop := forall k, In k (s_inputs s) -> Rk k.

  Lemma call_direct_inputs f am s r s' :
    call_direct u behave redefine f am s = Ok (r, s') -> s_inputs s' = s_inputs s.
  Proof.
    unfold call_direct. intros H.
    destruct (if fn_once f then lookup (fn_id f) (s_world s) else None) as [r0|].
    { inversion H; subst. reflexivity. }
    match type of H with (if ?c then _ else _) = _ => destruct c end; [discriminate|].
    match type of H with (if ?c then _ else _) = _ => destruct c end.
    { inversion H; subst. reflexivity. }
    destruct redefine.
    { inversion H; subst. reflexivity. }
    destruct (behave (fn_id f) (s_nexec s + 1)); inversion H; subst; reflexivity.
  Qed.

  Lemma output_values_inputs f r ins s s' :
    output_values f r ins s = Ok s' -> s_inputs s' = s_inputs s.
  Proof.
    unfold output_values. intros H.
    eapply (fold_res_inv _ (fun s1 => s_inputs s1 = s_inputs s)); [| |exact H|reflexivity].
    - intros r0 x a' E. apply bind_ok in E. destruct E as [a [E _]]. exists a; exact E.
    - intros a x a' E Ha. cbn [bind] in E.
      destruct x; try (inversion E; subst; exact Ha).
      + destruct (last_named n (fn_out f) 0 None) as [[i fl]|]; [|discriminate].
        inversion E; subst. rewrite <- Ha. destruct (nth_error (r_fields r) i); reflexivity.
      + destruct (last_typed t (fn_out f) 0 None) as [[i fl]|]; [|discriminate].
        inversion E; subst. rewrite <- Ha. destruct (nth_error (r_fields r) i); reflexivity.
  Qed.

  Lemma classify_todo s outs :
    forall x, In x (snd (classify redefine s outs)) -> In x outs /\ x <> KRoot.
  Proof.
    unfold classify.
    assert (G : forall l acc, (forall x, In x (snd acc) -> In x outs /\ x <> KRoot) ->
                (forall x, In x l -> In x outs) ->
                forall x, In x (snd (fold_left (fun acc o =>
          let '(am, todo) := acc in
          match o with
          | KRoot => (am, todo)
          | KArg _ _ => match lookup o (s_vals s) with
                        | Some v => (insert o v am, todo)
                        | None => (am, todo ++ [o])
                        end
          | KVal _ _ _ => match (if redefine then None else lookup o (s_vals s)) with
                          | Some v => (insert o v am, todo)
                          | None => (am, todo ++ [o])
                          end
          | _ => (am, todo ++ [o])
          end) l acc)) -> In x outs /\ x <> KRoot).
    { induction l as [|o l IH]; intros acc Ha Hl x; simpl; [apply Ha|].
      apply IH; [|intros y Iy; apply Hl; right; exact Iy].
      assert (Ho : In o outs) by (apply Hl; left; reflexivity).
      assert (Snoc : forall (am : argmap) (todo : list vkey), todo = snd acc -> o <> KRoot ->
                     forall y, In y (snd (am, todo ++ [o])) -> In y outs /\ y <> KRoot).
      { intros am todo -> No y Iy. cbn [snd] in Iy. apply in_app_or in Iy.
        destruct Iy as [Iy|[<-|[]]]; [apply Ha; exact Iy|auto]. }
      destruct acc as [am todo]. cbn [snd] in Ha.
      destruct o as [|ft|n t st|t st|t st].
      - exact Ha.
      - apply (Snoc am todo eq_refl). discriminate.
      - destruct (if redefine then None else lookup (KVal n t st) (s_vals s)); [exact Ha|].
        apply (Snoc am todo eq_refl). discriminate.
      - destruct (lookup (KArg t st) (s_vals s)); [exact Ha|].
        apply (Snoc am todo eq_refl). discriminate.
      - apply (Snoc am todo eq_refl). discriminate. }
    apply G; [intros x []|auto].
  Qed.

  Lemma plan_all_inputs todo s paths unsat s' :
    (forall cur, In cur todo -> vtx g cur <> None /\ cur <> KRoot) ->
    plan_all g redefine todo s = Ok (paths, unsat, s') -> IS s -> IS s'.
  Proof.
    unfold plan_all. intros Ht H I0.
    assert (G : forall l a a', (forall cur, In cur l -> vtx g cur <> None /\ cur <> KRoot) ->
                fold_left (plan_step g redefine) l (Ok a) = Ok a' ->
                IS (snd a) -> IS (snd a')).
    { induction l as [|x l IH]; intros a a' Hl Hf Ia; cbn [fold_left] in Hf.
      - inversion Hf; subst; exact Ia.
      - destruct (fold_res_nonok (plan_step g redefine)) with (l := l) (r := plan_step g redefine (Ok a) x) (a' := a')
          as [a1 E1]; [|exact Hf|].
        { intros r0 x0 a0 E. unfold plan_step in E. apply bind_ok in E. destruct E as [a2 [E _]]. exists a2; exact E. }
        rewrite E1 in Hf. apply (IH a1 a'); [intros c Ic; apply Hl; right; exact Ic|exact Hf|].
        destruct a as [[ps un] s1]. unfold plan_step in E1. cbn [bind] in E1.
        apply bind_ok in E1. destruct E1 as [[[path bad] s3] [Ep E]].
        inversion E; subst; clear E. cbn [snd] in *.
        destruct (Hl x (or_introl eq_refl)) as [Vx Nx].
        pose proof (@HPlan _ _ _ _ _ Vx Nx Ep) as Rin.
        destruct (plan_shape _ _ _ _ Ep) as [_ Sh].
        intros k Ik. destruct (Sh k Ik) as [Ik'|Ek]; [apply Ia; exact Ik'|rewrite Ek; exact Rin]. }
    apply (G todo ([], [], s) (paths, unsat, s') Ht H I0).
  Qed.

  Lemma walk_nonfunc_in rec prev v vs final s :
    is_func v = false ->
    exists final' s'', s_inputs s'' = s_inputs s /\
      walk u behave g redefine rec prev (v :: vs) final s =
      walk u behave g redefine rec (Some v) vs final' s''.
  Proof.
    intros Hv. destruct v as [|ft|n t st|t st|t st]; try discriminate.
    - exists final, s. split; reflexivity.
    - pose (s1 := match prev with
                  | Some (KOut t0 st0) => set_val s (KVal n t st) (lookup (KOut t0 st0) (s_vals s))
                  | Some (KVal n2 t2 s2) =>
                      match lookup (KVal n2 t2 s2) (s_vals s) with
                      | Some x => set_val s (KVal n t st) (Some x)
                      | None => s
                      end
                  | _ => s end).
      exists (match lookup (KVal n t st) (s_vals s1) with Some x => Some x | None => final end),
             (set_last s1 (lookup (KVal n t st) (s_vals s1))).
      split; [|reflexivity].
      subst s1. destruct prev as [[|ft0|n2 t2 s2|t0 st0|t0 st0]|]; try reflexivity.
      destruct (lookup (KVal n2 t2 s2) (s_vals s)); reflexivity.
    - pose (s1 := match s_last s with
                  | Some x => if assignable u (v_ty x) t then set_val s (KArg t st) (Some x) else s
                  | None => s end).
      exists (lookup (KArg t st) (s_vals s1)), s1.
      split; [|reflexivity].
      subst s1. destruct (s_last s) as [x|]; [|reflexivity].
      destruct (assignable u (v_ty x) t); reflexivity.
    - pose (s1 := match prev with
                  | Some (KOut t0 st0) => set_val s (KOut t st) (lookup (KOut t0 st0) (s_vals s))
                  | _ => s end).
      exists final, (set_last s1 (lookup (KOut t st) (s_vals s1))).
      split; [|reflexivity].
      subst s1. destruct prev as [[]|]; reflexivity.
  Qed.

  Section Rec.
    Variable rec : vkey -> rstate -> res (rstate * (argmap + rerr)).
    Hypothesis Hrec : forall v s s' r, rec v s = Ok (s', r) -> IS s -> IS s' /\ okr r.

    Lemma IS_eq s s' : s_inputs s' = s_inputs s -> IS s -> IS s'.
    Proof. intros E I0 k Ik. rewrite E in Ik. apply I0. exact Ik. Qed.

    Lemma walk_inputs vs : forall prev final s s' r,
      walk u behave g redefine rec prev vs final s = Ok (s', r) ->
      IS s -> IS s' /\ okr r.
    Proof.
      induction vs as [|v vs IH]; intros prev final s s' r H I0.
      - cbn [walk] in H. inversion H; subst. split; [exact I0|exact I].
      - destruct (is_func v) eqn:Ev.
        + destruct v as [|ft| | |]; try discriminate.
          rewrite walk_func in H.
          destruct (g_vertex g (KFunc ft)) as [[|f]|] eqn:Ef; try discriminate.
          apply bind_ok in H. destruct H as [[s1 r1] [Er H]].
          apply Hrec in Er; [|exact I0]. destruct Er as [I1 O1].
          destruct r1 as [fam|e].
          * apply bind_ok in H. destruct H as [[res s2] [Ec H]].
            pose proof (call_direct_inputs _ _ _ Ec) as E2.
            pose proof (IS_eq _ E2 I1) as I2.
            destruct (r_builderr res).
            { inversion H; subst; clear H. split; [exact I2|discriminate]. }
            destruct (r_err res) as [x|].
            { inversion H; subst; clear H. split; [exact I2|discriminate]. }
            apply bind_ok in H. destruct H as [[ins t'] [_ H]].
            apply bind_ok in H. destruct H as [s3 [Eo H]].
            apply output_values_inputs in Eo. cbn [set_tape s_inputs] in Eo.
            apply IH in H; [exact H|]. apply (IS_eq _ Eo I2).
          * inversion H; subst; clear H. split; [exact I1|exact O1].
        + destruct (@walk_nonfunc_in rec prev v vs final s Ev) as [final' [s'' [Hin E]]].
          rewrite E in H. apply IH in H; [exact H|]. apply (IS_eq _ Hin I0).
    Qed.

    Lemma walk_paths_inputs target paths : forall am s s' r,
      walk_paths u behave g redefine rec target paths am s = Ok (s', r) ->
      IS s -> IS s' /\ okr r.
    Proof.
      induction paths as [|path rest IH]; intros am s s' r H I0.
      - rewrite walk_paths_nil in H. inversion H; subst. split; [exact I0|exact I].
      - rewrite walk_paths_cons in H.
        apply bind_ok in H. destruct H as [[s1 r1] [Ew H]].
        apply walk_inputs in Ew; [|exact I0]. destruct Ew as [I1 O1].
        destruct r1 as [[fv|]|e].
        + apply IH in H; [exact H|exact I1].
        + discriminate.
        + inversion H; subst; clear H. split; [exact I1|exact O1].
    Qed.

    Lemma reach_body_inputs target s s' r :
      reach_body u behave g redefine rec target s = Ok (s', r) ->
      IS s -> IS s' /\ okr r.
    Proof.
      unfold reach_body. intros H I0.
      apply bind_ok in H. destruct H as [[outs t'] [Etp H]].
      assert (Outs : forall x, In x outs -> In x (g_out_keys g target)).
      { intros x Ix. unfold take_perm in Etp. cbn [set_inprog s_tape] in Etp.
        destruct (take_site SITE_REACH_OUT (s_tape s)) as [[ks t1]|].
        - destruct (g_out_keys g target) as [|e l] eqn:Q.
          + inversion Etp; subst. destruct Ix.
          + destruct (permb ks (e :: l)) eqn:P; [|discriminate]. inversion Etp; subst.
            apply (permb_sub_c08 _ _ P). exact Ix.
        - destruct (g_out_keys g target) as [|e l]; [|discriminate].
          inversion Etp; subst. destruct Ix. }
      pose proof (classify_todo (set_tape (set_inprog s (target :: s_inprog s)) t') outs) as Ct.
      destruct (classify redefine (set_tape (set_inprog s (target :: s_inprog s)) t') outs) as [am todo].
      cbn [snd] in Ct.
      destruct todo as [|c todo].
      - inversion H; subst; clear H. split; [exact I0|exact I].
      - apply bind_ok in H. destruct H as [[[paths unsat] s2] [Ep H]].
        apply plan_all_inputs in Ep; [| |exact I0].
        2:{ intros cur Ic. destruct (Ct cur Ic) as [Io Nr]. split; [|exact Nr].
            apply Outs in Io. apply in_out_keys in Io. apply (ew_closed _ _ W Io). }
        destruct unsat as [|x unsat].
        + apply walk_paths_inputs in H; [exact H|exact Ep].
        + inversion H; subst; clear H. split; [exact Ep|discriminate].
    Qed.
  End Rec.

  Theorem reach_inputs fuel : forall target s s' r,
    reach u behave g redefine fuel target s = Ok (s', r) -> IS s -> IS s' /\ okr r.
  Proof.
    induction fuel as [|fuel IH]; intros target s s' r H I0.
    - rewrite reach_O in H. discriminate.
    - rewrite reach_S in H.
      refine (@reach_body_inputs (reach u behave g redefine fuel) _ target s s' r H I0).
      intros v s0 s0' r0 H0. apply IH with (target := v); exact H0.
  Qed.
End Inputs.

(* C0213UnsatReach.v -- the run-time invariant of reachTarget: every vertex
   that ever holds a value, and every function that executes or is memoized,
   is AND-OR derivable in the full graph. *)
From ArgMapper Require Import Base Graph GraphAlg GraphSpec Types Args Resolver ResolverSpec
     CheckResolver Monitors ResolverStatements.
From ArgMapper.proofs Require Import C18DijkstraLemmas C19RefineMap C19RefineGraph
     C0213UnsatGraph C0213UnsatClosure C0213UnsatBuild C0213UnsatPlan.
From Coq Require Import List Lia ZArith.
Import ListNotations.
Set Implicit Arguments.
Local Open Scope Z_scope.

(* ================= reach, one level unfolded ================= *)
Section Body.
  Variable u : universe.
  Variable behave : behaviour.
  Variable g : rgraph.
  Variable redefine : bool.
  Variable rec : vkey -> rstate -> res (rstate * (argmap + rerr)).

  Fixpoint walk_f (prev : option vkey) (vs : list vkey) (final : option value) (s : rstate)
    : res (rstate * (option value + rerr)) :=
    match vs with
    | [] => Ok (s, inl final)
    | v :: vs =>
      match v with
      | KRoot => walk_f (Some v) vs final s
      | KVal _ _ _ =>
          let s := match prev with
                   | Some (KOut t st) => set_val s v (lookup (KOut t st) (s_vals s))
                   | Some (KVal n2 t2 s2) =>
                       match lookup (KVal n2 t2 s2) (s_vals s) with
                       | Some x => set_val s v (Some x)
                       | None => s
                       end
                   | _ => s end in
          let cur := lookup v (s_vals s) in
          let s := set_last s cur in
          walk_f (Some v) vs (match cur with Some x => Some x | None => final end) s
      | KArg t _ =>
          let s := match s_last s with
                   | Some x => if assignable u (v_ty x) t then set_val s v (Some x) else s
                   | None => s end in
          walk_f (Some v) vs (lookup v (s_vals s)) s
      | KOut _ _ =>
          let s := match prev with
                   | Some (KOut t st) => set_val s v (lookup (KOut t st) (s_vals s))
                   | _ => s end in
          let s := set_last s (lookup v (s_vals s)) in
          walk_f (Some v) vs final s
      | KFunc _ =>
          match g_vertex g v with
          | Some (PFunc f) =>
              do (s, r) <- rec v s;
              match r with
              | inr e => Ok (s, inr e)
              | inl fam =>
                  do (res, s) <- call_direct u behave redefine f fam s;
                  if r_builderr res then Ok (s, inr XMissing)
                  else match r_err res with
                       | Some e => Ok (s, inr (XConv e))
                       | None =>
                           do (ins, t') <- take_perm SITE_REACH_IN (g_in_keys g v) (s_tape s);
                           do s <- output_values f res ins (set_tape s t');
                           walk_f (Some v) vs final s
                       end
              end
          | _ => Panic 403%N
          end
      end
    end.

  Section WP.
    Variable leave : rstate -> rstate.
    Fixpoint walk_paths_f (paths : list (list vkey)) (am : argmap) (s : rstate)
      : res (rstate * (argmap + rerr)) :=
      match paths with
      | [] => Ok (leave s, inl am)
      | path :: rest =>
          bind (walk_f None path None s)
               (fun sr =>
                  let '(s, r) := sr in
                  match r with
                  | inr e => Ok (leave s, inr e)
                  | inl None => Panic 404%N
                  | inl (Some fv) => walk_paths_f rest (insert (last path KRoot) fv am) s
                  end)
      end.
  End WP.

  Definition classify (s : rstate) (outs : list vkey) (acc0 : argmap * list vkey) : argmap * list vkey :=
    fold_left (fun acc o =>
      let '(am, todo) := acc in
      match o with
      | KRoot => (am, todo)
      | KArg _ _ => match lookup o (s_vals s) with
                    | Some v => (insert o v am, todo)
                    | None => (am, todo ++ [o])
                    end
      | KVal _ _ _ => match (if redefine then None else lookup o (s_vals s)) with
                      | Some v => (insert o v am, todo)
                      | None => (am, todo ++ [o])
                      end
      | _ => (am, todo ++ [o])
      end) outs acc0.

  Definition plans (todo : list vkey) (acc0 : res (list (list vkey) * list vkey * rstate))
    : res (list (list vkey) * list vkey * rstate) :=
    fold_left (fun acc cur =>
      do (paths, unsat, s) <- acc;
      do (path, bad, s) <- plan g redefine cur s;
      Ok (paths ++ [path], (if (bad : bool) then unsat ++ [cur] else unsat), s))
      todo acc0.

  Definition reach_body (target : vkey) (s : rstate) : res (rstate * (argmap + rerr)) :=
    let s := set_inprog s (target :: s_inprog s) in
    let leave (s : rstate) := set_inprog s (remove1 target (s_inprog s)) in
    do (outs, t') <- take_perm SITE_REACH_OUT (g_out_keys g target) (s_tape s);
    let s := set_tape s t' in
    let '(am, todo) := classify s outs (([] : argmap), ([] : list vkey)) in
    match todo with
    | [] => Ok (leave s, inl am)
    | _ =>
      do (paths, unsat, s) <- plans todo (Ok ([], [], s));
      match unsat with
      | _ :: _ => Ok (leave s, inr (XUnsat unsat [] [] false))
      | [] => walk_paths_f leave paths am s
      end
    end.
End Body.

Lemma reach_S u behave g redefine fuel' target s :
  reach u behave g redefine (S fuel') target s =
  reach_body u behave g redefine (reach u behave g redefine fuel') target s.
Proof. reflexivity. Qed.

(* ================= generic helpers ================= *)
Lemma fold_bind_fail {A B} (F : B -> A -> res A) (l : list B) (r : res A) :
  (forall a, r <> Ok a) -> fold_left (fun acc k => bind acc (F k)) l r = r.
Proof.
  intros N. induction l as [|x l IH]; simpl; [reflexivity|].
  destruct r as [a| | |]; simpl; try exact IH. exfalso. apply (N a). reflexivity.
Qed.

Lemma fold_bind_inv {A B} (F : B -> A -> res A) (P : A -> Prop) (l : list B) :
  forall a a', fold_left (fun acc k => bind acc (F k)) l (Ok a) = Ok a' -> P a ->
  (forall k s s1, In k l -> P s -> F k s = Ok s1 -> P s1) -> P a'.
Proof.
  induction l as [|x l IH]; intros a a' Q Pa St; simpl in Q.
  - inversion Q; subst. exact Pa.
  - destruct (F x a) as [a1| | |] eqn:Fx.
    + apply (IH a1 a' Q).
      * apply (St x a a1); [left; reflexivity|exact Pa|exact Fx].
      * intros k s s1 I. apply St. right. exact I.
    + rewrite fold_bind_fail in Q; [discriminate|intros a0; discriminate].
    + rewrite fold_bind_fail in Q; [discriminate|intros a0; discriminate].
    + rewrite fold_bind_fail in Q; [discriminate|intros a0; discriminate].
Qed.

Section PermIn.
  Context {K : Type} {E : EqDec K}.
  Lemma In_remove1' (x y : K) (l : list K) : In y l -> y = x \/ In y (remove1 x l).
  Proof.
    induction l as [|a l IH]; simpl; [tauto|].
    intros [A|A].
    - subst a. destruct (Base.eqb_spec x y) as [Q|Q]; [left; auto|right; simpl; auto].
    - destruct (Base.eqb_spec x a) as [Q|Q]; [right; auto|].
      destruct (IH A) as [B|B]; [left; auto|right; simpl; auto].
  Qed.
  Lemma remove1_In' (x y : K) (l : list K) : In y (remove1 x l) -> In y l.
  Proof.
    induction l as [|a l IH]; simpl; [tauto|].
    destruct (Base.eqb_spec x a) as [Q|Q]; simpl; [auto|].
    intros [A|A]; auto.
  Qed.
  Lemma permb_In' (l1 l2 : list K) : permb l1 l2 = true -> forall x, In x l1 <-> In x l2.
  Proof.
    revert l2; induction l1 as [|a l1 IH]; intros l2 P x.
    - simpl in P. destruct l2; [tauto|discriminate].
    - simpl in P. apply andb_true_iff in P. destruct P as [M P].
      apply membT in M. specialize (IH _ P x). simpl. split.
      + intros [A|A]; [subst; auto|]. apply IH in A. eapply remove1_In'; eauto.
      + intros A. destruct (In_remove1' a _ _ A) as [B|B]; [left; auto|right].
        apply IH; auto.
  Qed.
  Lemma take_perm_In' (s : N) (ex : list K) (t t' : tape K) (ws : list K) :
    take_perm s ex t = Ok (ws, t') -> forall x, In x ws <-> In x ex.
  Proof.
    unfold take_perm. intros T.
    destruct (take_site s t) as [[ks t1]|].
    - destruct ex as [|e ex].
      + inversion T; subst. tauto.
      + destruct (permb ks (e :: ex)) eqn:P; [|discriminate].
        inversion T; subst. apply permb_In'; auto.
    - destruct ex as [|e ex]; [|discriminate].
      inversion T; subst. tauto.
  Qed.
End PermIn.

Lemma mem_insert {K} {E : EqDec K} {V} (k k' : K) (v : V) (m : amap K V) :
  mem k' (insert k v m) = true <-> k' = k \/ mem k' m = true.
Proof. rewrite !mem_true. apply in_keys_insert. Qed.

Lemma mem_delete {K} {E : EqDec K} {V} (k k' : K) (m : amap K V) :
  mem k' (delete k m) = true -> mem k' m = true.
Proof. rewrite !mem_true. intros I. apply in_keys_delete in I. apply I. Qed.

Lemma mem_lookup {K} {E : EqDec K} {V} (k : K) (m : amap K V) :
  mem k m = true <-> lookup k m <> None.
Proof. unfold mem. destruct (lookup k m); split; congruence. Qed.

(* ---------- wf_funcs ---------- *)
Lemma sig_keys (l1 l2 : list field) :
  sig_of l1 = sig_of l2 -> map field_key l1 = map field_key l2.
Proof.
  revert l2. induction l1 as [|a l1 IH]; intros [|b l2] Q; simpl in *; try discriminate; [reflexivity|].
  inversion Q as [[Qn Qt Qs Qr]]. f_equal; [|apply IH; exact Qr].
  unfold field_key. rewrite Qn, Qt, Qs. reflexivity.
Qed.

Lemma same_type_keys (known : list fdecl) c c' :
  wf_funcs known = true -> In c known -> In c' known -> fn_type c = fn_type c' ->
  map field_key (fn_in c) = map field_key (fn_in c').
Proof.
  intros WF Ic Ic' Ty. unfold wf_funcs in WF.
  apply andb_true_iff in WF. destruct WF as [WF _].
  apply andb_true_iff in WF. destruct WF as [_ WF].
  rewrite forallb_forall in WF. specialize (WF c Ic). rewrite forallb_forall in WF. specialize (WF c' Ic').
  rewrite Ty, Z.eqb_refl in WF. unfold same_sig in WF.
  apply andb_true_iff in WF. destruct WF as [WF _].
  apply andb_true_iff in WF. destruct WF as [WF _].
  revert WF. destruct (Base.eqb_spec (sig_of (fn_in c)) (sig_of (fn_in c'))) as [Eq|Ne]; [intros _|discriminate].
  apply sig_keys. exact Eq.
Qed.

Lemma same_id_type (known : list fdecl) c c' :
  wf_funcs known = true -> In c known -> In c' known -> fn_id c = fn_id c' -> fn_type c = fn_type c'.
Proof.
  intros WF Ic Ic' Id. unfold wf_funcs in WF.
  apply andb_true_iff in WF. destruct WF as [_ WF].
  rewrite forallb_forall in WF. specialize (WF c Ic). rewrite forallb_forall in WF. specialize (WF c' Ic').
  rewrite Id, Z.eqb_refl in WF. apply andb_true_iff in WF. destruct WF as [WF _].
  apply Z.eqb_eq in WF. exact WF.
Qed.

(* ---------- callDirect ---------- *)
Lemma call_direct_cases u bh c am s res s' :
  call_direct u bh false c am s = Ok (res, s') ->
  (fn_once c = true /\ lookup (fn_id c) (s_world s) = Some res /\ s' = s) \/
  (r_builderr res = true /\ s' = s) \/
  (r_builderr res = false /\
   (forall fld, In fld (fn_in c) -> mem (field_key fld) am = true) /\
   s_vals s' = s_vals s /\
   (forall id, mem id (s_world s') = true -> mem id (s_world s) = true \/ (id = fn_id c /\ fn_once c = true)) /\
   exists argv outs err, s_trace s' = s_trace s ++ [EExec (fn_id c) argv outs err]).
Proof.
  unfold call_direct. intros Q.
  destruct (if fn_once c then lookup (fn_id c) (s_world s) else None) as [r0|] eqn:C.
  - left. destruct (fn_once c); [|discriminate]. inversion Q; subst. auto.
  - set (args := map (fun fld => (fld, lookup (field_key fld) am)) (fn_in c)) in *.
    destruct (existsb (fun a => match snd a with
                                | Some v => negb (assignable u (v_ty v) (f_ty (fst a)))
                                | None => false end) args); [discriminate|].
    destruct (existsb (fun a => match snd a with None => true | Some _ => false end) args) eqn:Ex.
    + right. left. inversion Q; subst. auto.
    + right. right.
      assert (All : forall fld, In fld (fn_in c) -> mem (field_key fld) am = true).
      { intros fld I. apply mem_lookup. intros N.
        assert (Ia : In (fld, lookup (field_key fld) am) args).
        { unfold args. apply in_map_iff. exists fld. auto. }
        assert (T : existsb (fun a => match snd a with None => true | Some _ => false end) args = true).
        { apply existsb_exists. eexists; split; [exact Ia|]. simpl. rewrite N. reflexivity. }
        congruence. }
      destruct (bh (fn_id c) (s_nexec s + 1)); inversion Q; subst; simpl;
        (split; [reflexivity|]; split; [exact All|]; split; [reflexivity|]; split;
         [intros id M; destruct (fn_once c) eqn:On;
          [apply mem_insert in M; destruct M as [->|M]; [right; auto|left; exact M]|left; exact M]
         |eauto]).
Qed.

(* ================= the invariant ================= *)
Section Inv.
  Variable u : universe.
  Variable bh : behaviour.
  Variables G g : rgraph.
  Variable cached : list Z.
  Variable known : list fdecl.
  Variable f : fdecl.
  Variable k0 : vkey.
  Notation DSet := (DS G cached).

  Hypothesis WG : wf_graph G.
  Hypothesis RG : vtx G KRoot <> None.
  Hypothesis Wg : wf_graph g.
  Hypothesis SubV : forall k p, vtx g k = Some p -> vtx G k = Some p.
  Hypothesis SubE : forall a b, ew g a b <> None -> ew G a b <> None.
  Hypothesis Pay : forall ft p, vtx G (KFunc ft) = Some p ->
                                exists c, p = PFunc c /\ In c known /\ fn_type c = ft.
  Hypothesis Fout : forall ft b, ew G (KFunc ft) b <> None ->
                    b = KRoot \/ exists c, In c known /\ fn_type c = ft /\ In b (map field_key (fn_in c)).
  Hypothesis WFk : wf_funcs known = true.
  Hypothesis Fk : In f known.
  Hypothesis K0 : In k0 (map field_key (fn_in f)).
  Hypothesis K0n : ~ In k0 DSet.
  Hypothesis PlanOK : forall cur s path bad s',
      vtx g cur <> None -> plan g false cur s = Ok (path, bad, s') ->
      (exists rest, path = KRoot :: rest) /\ last path KRoot = cur /\ linkedR g path /\
      s_vals s' = s_vals s /\ s_world s' = s_world s /\ s_trace s' = s_trace s.

  Record Inv (s : rstate) : Prop := {
    inv_vals : forall k, mem k (s_vals s) = true -> In k DSet;
    inv_world : forall ft c, vtx g (KFunc ft) = Some (PFunc c) -> fn_once c = true ->
                             mem (fn_id c) (s_world s) = true -> In (KFunc ft) DSet;
    inv_trace : forall e, In e (s_trace s) -> is_exec_of (fn_id f) e = false }.

  Lemma Inv_core s s' :
    s_vals s' = s_vals s -> s_world s' = s_world s -> s_trace s' = s_trace s -> Inv s -> Inv s'.
  Proof.
    intros A B C [I1 I2 I3]. constructor.
    - rewrite A. exact I1.
    - rewrite B. exact I2.
    - rewrite C. exact I3.
  Qed.

  Lemma Inv_set_val s k v : Inv s -> In k DSet -> Inv (set_val s k v).
  Proof.
    intros [I1 I2 I3] Ik. constructor; simpl.
    - intros k' M. destruct v as [x|].
      + apply mem_insert in M. destruct M as [->|M]; [exact Ik|apply I1; exact M].
      + apply mem_delete in M. apply I1. exact M.
    - exact I2.
    - exact I3.
  Qed.

  Lemma Inv_set_last s v : Inv s -> Inv (set_last s v).
  Proof. apply Inv_core; reflexivity. Qed.

  Definition post (target : vkey) (r : argmap + rerr) : Prop :=
    match r with
    | inl am => (forall k, mem k am = true -> In k DSet) /\
                (forall o, In o (g_out_keys g target) -> In o DSet)
    | inr _ => True
    end.

  Definition rec_ok (rec : vkey -> rstate -> res (rstate * (argmap + rerr))) : Prop :=
    forall v s s' r, rec v s = Ok (s', r) -> Inv s -> Inv s' /\ post v r.

  (* ---------- outputValues ---------- *)
  Lemma output_values_inv c res ins s s' :
    output_values c res ins s = Ok s' -> (forall k, In k ins -> In k DSet) -> Inv s -> Inv s'.
  Proof.
    unfold output_values. intros Q Ins I.
    set (F := fun (k : vkey) (s : rstate) =>
                match k with
                | KVal n _ _ => match last_named n (fn_out c) 0 None with
                                | Some (i, _) => Ok (set_val s k (nth_error (r_fields res) i))
                                | None => Panic 401%N
                                end
                | KOut t _ => match last_typed t (fn_out c) 0 None with
                              | Some (i, _) => Ok (set_val s k (nth_error (r_fields res) i))
                              | None => Panic 402%N
                              end
                | _ => Ok s
                end).
    change (fold_left (fun acc k => bind acc (F k)) ins (Ok s) = Ok s') in Q.
    apply (@fold_bind_inv _ _ F Inv ins s s' Q I).
    intros k s0 s1 Ik I0 Fk0. unfold F in Fk0.
    destruct k as [|ft|n t st|t st|t st].
    - inversion Fk0; subst; exact I0.
    - inversion Fk0; subst; exact I0.
    - destruct (last_named n (fn_out c) 0 None) as [[i fl]|]; [|discriminate].
      inversion Fk0; subst. apply Inv_set_val; [exact I0|apply Ins; exact Ik].
    - inversion Fk0; subst; exact I0.
    - destruct (last_typed t (fn_out c) 0 None) as [[i fl]|]; [|discriminate].
      inversion Fk0; subst. apply Inv_set_val; [exact I0|apply Ins; exact Ik].
  Qed.

  (* ---------- a function vertex that has just delivered ---------- *)
  Lemma func_keys ft c b :
    vtx g (KFunc ft) = Some (PFunc c) -> ew G (KFunc ft) b <> None ->
    In c known /\ fn_type c = ft /\ (b = KRoot \/ In b (map field_key (fn_in c))).
  Proof.
    intros V Eb. apply SubV in V. destruct (Pay _ V) as (c' & Q & Ic & Ty). inversion Q; subst c'.
    split; [exact Ic|]. split; [exact Ty|].
    destruct (Fout _ _ Eb) as [->|(c2 & Ic2 & Ty2 & Ib)]; [left; reflexivity|right].
    rewrite (@same_type_keys known c c2 WFk Ic Ic2); [exact Ib|congruence].
  Qed.

  Lemma func_delivered ft c (fam : argmap) :
    vtx g (KFunc ft) = Some (PFunc c) ->
    (forall fld, In fld (fn_in c) -> mem (field_key fld) fam = true) ->
    (forall k, mem k fam = true -> In k DSet) ->
    In (KFunc ft) DSet.
  Proof.
    intros V All Keys. apply (ds_func_all cached WG RG).
    - pose proof (SubV _ V) as V'. rewrite V'. discriminate.
    - intros r Er. destruct (@func_keys ft c r V Er) as (_ & _ & [->|Ir]); [apply (ds_root cached WG RG)|].
      apply in_map_iff in Ir. destruct Ir as (fld & <- & Ifld). apply Keys. apply All. exact Ifld.
  Qed.

  Lemma value_step (v p : vkey) : is_func v = false -> ew g v p <> None -> In p DSet -> In v DSet.
  Proof.
    intros Nf Ev Ip. apply (ds_value cached WG RG v p Nf); [apply SubE; exact Ev|exact Ip].
  Qed.

  Lemma feeder_ds (ft : Z) (k : vkey) : In (KFunc ft) DSet -> ew g k (KFunc ft) <> None -> In k DSet.
  Proof.
    intros Dv Ek. destruct (is_func k) eqn:Nf.
    - exfalso. destruct k as [|ft2|n2 t2 s2|t2 s2|t2 s2]; try discriminate Nf.
      apply SubE in Ek. destruct (Fout _ _ Ek) as [C|(c2 & _ & _ & Ib)]; [discriminate|].
      apply in_map_iff in Ib. destruct Ib as (fld & Eq & _).
      pose proof (field_key_nf fld) as N. rewrite Eq in N. discriminate.
    - apply (value_step k (KFunc ft) Nf Ek Dv).
  Qed.

  (* ---------- walking one path ---------- *)
  Fixpoint good_chain (prev : option vkey) (vs : list vkey) : Prop :=
    match vs with
    | [] => True
    | v :: rest => (match prev with Some p => ew g v p <> None | None => v = KRoot end) /\
                   good_chain (Some v) rest
    end.

  Lemma linkedR_good a l : linkedR g (a :: l) -> good_chain (Some a) l.
  Proof.
    revert a. induction l as [|b l IH]; intros a L; simpl; [exact I|].
    destruct L as [Eab L]. split; [exact Eab|]. apply IH. exact L.
  Qed.

  Lemma walk_inv rec : rec_ok rec ->
    forall vs prev final s s' r,
      walk_f u bh g false rec prev vs final s = Ok (s', r) -> Inv s ->
      (match prev with Some p => In p DSet | None => True end) ->
      good_chain prev vs ->
      Inv s' /\ (forall fv, r = inl fv -> forall v, In v vs -> In v DSet).
  Proof.
    intros ROK. induction vs as [|v vs IH]; intros prev final s s' r Q I Pp GC.
    - simpl in Q. inversion Q; subst. split; [exact I|]. intros fv _ v [].
    - destruct GC as [GCv GC].
      assert (VD : is_func v = false -> In v DSet).
      { intros Nf. destruct prev as [p|].
        - apply (value_step v p Nf GCv Pp).
        - subst v. apply (ds_root cached WG RG). }
      assert (Fin : forall s1 final1, Inv s1 -> In v DSet ->
                walk_f u bh g false rec (Some v) vs final1 s1 = Ok (s', r) ->
                Inv s' /\ (forall fv, r = inl fv -> forall v0, In v0 (v :: vs) -> In v0 DSet)).
      { intros s1 final1 I1 Dv Q1. destruct (IH _ _ _ _ _ Q1 I1 Dv GC) as [I' All].
        split; [exact I'|]. intros fv E v0 [<-|I0]; [exact Dv|apply (All fv E v0 I0)]. }
      destruct v as [|ft|n t st|t st|t st]; cbn [walk_f] in Q.
      + apply (Fin _ _ I (VD eq_refl) Q).
      + (* function vertex *)
        unfold g_vertex in Q. fold (vtx g (KFunc ft)) in Q.
        destruct (vtx g (KFunc ft)) as [[|c]|] eqn:V; try discriminate.
        destruct (rec (KFunc ft) s) as [[s1 r1]| | |] eqn:R; cbn [bind] in Q; try discriminate.
        destruct (ROK _ _ _ _ R I) as [I1 P1].
        destruct r1 as [fam|e]; [|inversion Q; subst; split; [exact I1|intros fv E; discriminate]].
        destruct P1 as [Keys _].
        destruct (call_direct u bh false c fam s1) as [[res s2]| | |] eqn:CD; cbn [bind] in Q; try discriminate.
        destruct (call_direct_cases _ _ _ _ _ CD) as [(On & Lk & ->)|[(Be & ->)|(Be & All & Vs & Wd & argv & outs & err & Tr)]].
        * (* memoized *)
          assert (Dv : In (KFunc ft) DSet).
          { apply (inv_world I1 ft V On). apply mem_lookup. rewrite Lk. discriminate. }
          destruct (r_builderr res); [inversion Q; subst; split; [exact I1|intros fv E; discriminate]|].
          destruct (r_err res) as [e|]; [inversion Q; subst; split; [exact I1|intros fv E; discriminate]|].
          destruct (take_perm SITE_REACH_IN (g_in_keys g (KFunc ft)) (s_tape s1)) as [[ins t']| | |] eqn:TP;
            cbn [bind] in Q; try discriminate.
          destruct (output_values c res ins (set_tape s1 t')) as [s3| | |] eqn:OV; cbn [bind] in Q; try discriminate.
          assert (I3 : Inv s3).
          { apply (@output_values_inv c res ins (set_tape s1 t') s3 OV).
            - intros k Ik. apply (take_perm_In' _ _ _ TP) in Ik. apply (in_in_keys k (KFunc ft) Wg) in Ik.
              apply (feeder_ds ft k Dv Ik).
            - apply (@Inv_core s1 (set_tape s1 t')); auto. }
          apply (Fin _ _ I3 Dv Q).
        * rewrite Be in Q. inversion Q; subst. split; [exact I1|intros fv E; discriminate].
        * (* executed *)
          rewrite Be in Q.
          assert (Dv : In (KFunc ft) DSet) by (apply (@func_delivered ft c fam V All Keys)).
          assert (Ick : In c known /\ fn_type c = ft).
          { pose proof (SubV _ V) as V'. destruct (Pay _ V') as (c' & Qc & Ic & Ty). inversion Qc; subst c'. auto. }
          destruct Ick as [Ic Ty].
          assert (I2 : Inv s2).
          { constructor.
            - rewrite Vs. apply (inv_vals I1).
            - intros ft2 c2 V2 On2 M2. destruct (Wd _ M2) as [M|[Eid On]].
              + apply (inv_world I1 ft2 V2 On2 M).
              + pose proof (SubV _ V2) as V2'. destruct (Pay _ V2') as (c' & Qc & Ic2 & Ty2). inversion Qc; subst c'.
                assert (E2 : ft2 = ft).
                { rewrite <- Ty2, <- Ty. apply (@same_id_type known c2 c WFk Ic2 Ic Eid). }
                rewrite E2. exact Dv.
            - intros e Ie. rewrite Tr in Ie. apply in_app_or in Ie. destruct Ie as [Ie|[<-|[]]].
              + apply (inv_trace I1 e Ie).
              + simpl. apply Z.eqb_neq. intros Eid.
                apply K0n.
                assert (TyE : fn_type c = fn_type f) by (apply (@same_id_type known c f WFk Ic Fk Eid)).
                rewrite <- (@same_type_keys known c f WFk Ic Fk TyE) in K0.
                apply in_map_iff in K0. destruct K0 as (fld & <- & Ifld).
                apply Keys. apply All. exact Ifld. }
          destruct (r_err res) as [e|]; [inversion Q; subst; split; [exact I2|intros fv E; discriminate]|].
          destruct (take_perm SITE_REACH_IN (g_in_keys g (KFunc ft)) (s_tape s2)) as [[ins t']| | |] eqn:TP;
            cbn [bind] in Q; try discriminate.
          destruct (output_values c res ins (set_tape s2 t')) as [s3| | |] eqn:OV; cbn [bind] in Q; try discriminate.
          assert (I3 : Inv s3).
          { apply (@output_values_inv c res ins (set_tape s2 t') s3 OV).
            - intros k Ik. apply (take_perm_In' _ _ _ TP) in Ik. apply (in_in_keys k (KFunc ft) Wg) in Ik.
              apply (feeder_ds ft k Dv Ik).
            - apply (@Inv_core s2 (set_tape s2 t')); auto. }
          apply (Fin _ _ I3 Dv Q).
      + (* named value *)
        pose proof (VD eq_refl) as Dv.
        eapply Fin; [|exact Dv|exact Q]. apply Inv_set_last.
        destruct prev as [[| |n0 t0 st0| |t0 st0]|]; try exact I.
        * destruct (lookup (KVal n0 t0 st0) (s_vals s)); [|exact I]. apply Inv_set_val; assumption.
        * apply Inv_set_val; assumption.
      + (* typed argument *)
        pose proof (VD eq_refl) as Dv.
        eapply Fin; [|exact Dv|exact Q].
        destruct (s_last s) as [x|]; [|exact I].
        destruct (assignable u (v_ty x) t); [|exact I]. apply Inv_set_val; assumption.
      + (* typed output *)
        pose proof (VD eq_refl) as Dv.
        eapply Fin; [|exact Dv|exact Q]. apply Inv_set_last.
        destruct prev as [[| | | |t0 st0]|]; try exact I. apply Inv_set_val; assumption.
  Qed.

  (* ---------- classification of the requirements ---------- *)
  Definition cl_step (s : rstate) (acc : argmap * list vkey) (o : vkey) : argmap * list vkey :=
    let '(am, todo) := acc in
    match o with
    | KRoot => (am, todo)
    | KArg _ _ => match lookup o (s_vals s) with
                  | Some v => (insert o v am, todo)
                  | None => (am, todo ++ [o])
                  end
    | KVal _ _ _ => match lookup o (s_vals s) with
                    | Some v => (insert o v am, todo)
                    | None => (am, todo ++ [o])
                    end
    | _ => (am, todo ++ [o])
    end.

  Lemma classify_eq s outs acc : classify false s outs acc = fold_left (cl_step s) outs acc.
  Proof. reflexivity. Qed.

  Lemma cl_step_spec s am0 todo0 o am1 todo1 :
    cl_step s (am0, todo0) o = (am1, todo1) ->
    (o = KRoot \/ mem o am1 = true \/ In o todo1) /\
    (forall k, mem k am1 = true -> mem k am0 = true \/ mem k (s_vals s) = true) /\
    (forall o', In o' todo1 -> In o' todo0 \/ o' = o) /\
    (forall k, mem k am0 = true -> mem k am1 = true) /\
    (forall o', In o' todo0 -> In o' todo1).
  Proof.
    intros Q.
    assert (Keep : am1 = am0 /\ todo1 = todo0 ++ [o] ->
            (o = KRoot \/ mem o am1 = true \/ In o todo1) /\
            (forall k, mem k am1 = true -> mem k am0 = true \/ mem k (s_vals s) = true) /\
            (forall o', In o' todo1 -> In o' todo0 \/ o' = o) /\
            (forall k, mem k am0 = true -> mem k am1 = true) /\
            (forall o', In o' todo0 -> In o' todo1)).
    { intros [-> ->]. split; [right; right; apply in_or_app; right; left; reflexivity|].
      split; [auto|]. split; [|split; [auto|]].
      - intros o' I'. apply in_app_or in I'. destruct I' as [I'|[<-|[]]]; auto.
      - intros o' I'. apply in_or_app. left. exact I'. }
    assert (Ins : forall v, lookup o (s_vals s) = Some v -> am1 = insert o v am0 /\ todo1 = todo0 ->
            (o = KRoot \/ mem o am1 = true \/ In o todo1) /\
            (forall k, mem k am1 = true -> mem k am0 = true \/ mem k (s_vals s) = true) /\
            (forall o', In o' todo1 -> In o' todo0 \/ o' = o) /\
            (forall k, mem k am0 = true -> mem k am1 = true) /\
            (forall o', In o' todo0 -> In o' todo1)).
    { intros v Lv [-> ->]. split; [right; left; apply mem_insert; left; reflexivity|].
      split; [|split; [auto|split; [|auto]]].
      - intros k M. apply mem_insert in M. destruct M as [->|M]; [right|left; exact M].
        apply mem_lookup. rewrite Lv. discriminate.
      - intros k M. apply mem_insert. right. exact M. }
    unfold cl_step in Q. destruct o as [|ft|n t st|t st|t st].
    - inversion Q; subst. split; [left; reflexivity|]. split; [auto|]. split; [auto|]. split; auto.
    - apply Keep. inversion Q; auto.
    - destruct (lookup (KVal n t st) (s_vals s)) as [v|] eqn:L.
      + apply (Ins v eq_refl). inversion Q; auto.
      + apply Keep. inversion Q; auto.
    - destruct (lookup (KArg t st) (s_vals s)) as [v|] eqn:L.
      + apply (Ins v eq_refl). inversion Q; auto.
      + apply Keep. inversion Q; auto.
    - apply Keep. inversion Q; auto.
  Qed.

  Lemma classify_spec (s : rstate) : forall outs am0 todo0 am todo,
    fold_left (cl_step s) outs (am0, todo0) = (am, todo) ->
    (forall o, In o outs -> o = KRoot \/ mem o am = true \/ In o todo) /\
    (forall k, mem k am = true -> mem k am0 = true \/ mem k (s_vals s) = true) /\
    (forall o, In o todo -> In o todo0 \/ In o outs) /\
    (forall k, mem k am0 = true -> mem k am = true) /\
    (forall o, In o todo0 -> In o todo).
  Proof.
    induction outs as [|o outs IH]; intros am0 todo0 am todo Q; cbn [fold_left] in Q.
    - inversion Q; subst. split; [intros o []|]. split; [auto|]. split; [auto|]. split; auto.
    - destruct (cl_step s (am0, todo0) o) as [am1 todo1] eqn:St.
      destruct (cl_step_spec _ _ _ _ St) as (A1 & A2 & A3 & A4 & A5).
      destruct (IH _ _ _ _ Q) as (B1 & B2 & B3 & B4 & B5).
      split; [|split; [|split; [|split]]].
      + intros o' [<-|I']; [|apply B1; exact I'].
        destruct A1 as [A1|[A1|A1]]; [left; exact A1|right; left; apply B4; exact A1|right; right; apply B5; exact A1].
      + intros k M. destruct (B2 k M) as [M1|M1]; [apply A2; exact M1|right; exact M1].
      + intros o' I'. destruct (B3 o' I') as [I1|I1]; [|right; right; exact I1].
        destruct (A3 o' I1) as [I0 | ->]; [left; exact I0|right; left; reflexivity].
      + intros k M. apply B4. apply A4. exact M.
      + intros o' I'. apply B5. apply A5. exact I'.
  Qed.

  (* ---------- planning ---------- *)
  Definition path_good (path : list vkey) (cur : vkey) : Prop :=
    (exists rest, path = KRoot :: rest) /\ last path KRoot = cur /\ linkedR g path.

  Lemma plans_fail todo r : (forall a, r <> Ok a) -> plans g false todo r = r.
  Proof.
    intros N. unfold plans. induction todo as [|c todo IH]; simpl; [reflexivity|].
    destruct r as [a| | |]; simpl; try exact IH. exfalso. apply (N a). reflexivity.
  Qed.

  Lemma plans_spec : forall todo paths0 unsat0 s0 paths unsat s1,
    (forall cur, In cur todo -> vtx g cur <> None) ->
    plans g false todo (Ok (paths0, unsat0, s0)) = Ok (paths, unsat, s1) ->
    exists newp, paths = paths0 ++ newp /\ Forall2 path_good newp todo /\
                 s_vals s1 = s_vals s0 /\ s_world s1 = s_world s0 /\ s_trace s1 = s_trace s0.
  Proof.
    induction todo as [|c todo IH]; intros paths0 unsat0 s0 paths unsat s1 Vt Q.
    - unfold plans in Q. simpl in Q. inversion Q; subst. exists []. rewrite app_nil_r.
      split; [reflexivity|]. split; [constructor|]. auto.
    - unfold plans in Q. cbn [fold_left bind] in Q.
      destruct (plan g false c s0) as [[[path bad] s2]| | |] eqn:PL; cbn [bind] in Q.
      + fold (plans g false todo (Ok (paths0 ++ [path], (if bad then unsat0 ++ [c] else unsat0), s2))) in Q.
        destruct (PlanOK c s0 (Vt c (or_introl eq_refl)) PL) as (G1 & G2 & G3 & E1 & E2 & E3).
        destruct (IH _ _ _ _ _ _ (fun cur I => Vt cur (or_intror I)) Q) as (newp & -> & F2 & H1 & H2 & H3).
        exists (path :: newp). split; [rewrite <- app_assoc; reflexivity|].
        split; [constructor; [split; [exact G1|split; [exact G2|exact G3]]|exact F2]|].
        split; [congruence|]. split; congruence.
      + fold (plans g false todo (Panic site)) in Q. rewrite plans_fail in Q; [discriminate|intros a; discriminate].
      + fold (plans g false todo (TapeErr site)) in Q. rewrite plans_fail in Q; [discriminate|intros a; discriminate].
      + fold (plans g false todo (@OutOfFuel (list (list vkey) * list vkey * rstate))) in Q.
        rewrite plans_fail in Q; [discriminate|intros a; discriminate].
  Qed.

  (* ---------- walking all paths ---------- *)
  Lemma last_in (l : list vkey) (d : vkey) : l <> [] -> In (last l d) l.
  Proof.
    induction l as [|x l IH]; intros Ne; [contradiction Ne; reflexivity|].
    destruct l as [|y l]; [left; reflexivity|]. right. apply IH. discriminate.
  Qed.

  Definition post2 (curs : list vkey) (r : argmap + rerr) : Prop :=
    match r with
    | inl am => (forall k, mem k am = true -> In k DSet) /\ (forall cur, In cur curs -> In cur DSet)
    | inr _ => True
    end.

  Lemma walk_paths_inv rec (leave : rstate -> rstate) :
    rec_ok rec ->
    (forall s, s_vals (leave s) = s_vals s /\ s_world (leave s) = s_world s /\ s_trace (leave s) = s_trace s) ->
    forall paths curs, Forall2 path_good paths curs ->
    forall am s s' r,
      walk_paths_f u bh g false rec leave paths am s = Ok (s', r) -> Inv s ->
      (forall k, mem k am = true -> In k DSet) ->
      Inv s' /\ post2 curs r.
  Proof.
    intros ROK LV. induction 1 as [|path cur paths curs PG F2 IH]; intros am s s' r Q I Keys.
    - simpl in Q. inversion Q; subst. split.
      + destruct (LV s) as (A & B & C). apply (@Inv_core s (leave s)); auto.
      + split; [exact Keys|intros c []].
    - cbn [walk_paths_f] in Q.
      destruct (walk_f u bh g false rec None path None s) as [[s1 r1]| | |] eqn:WK; cbn [bind] in Q; try discriminate.
      destruct PG as ((rest & ->) & La & Li).
      assert (GC : good_chain None (KRoot :: rest)).
      { split; [reflexivity|]. apply linkedR_good. exact Li. }
      destruct (@walk_inv rec ROK (KRoot :: rest) None None s s1 r1 WK I Logic.I GC) as [I1 All].
      destruct r1 as [[fv|]|e].
      + assert (Dc : In cur DSet).
        { apply (All (Some fv) eq_refl). rewrite <- La. apply last_in. discriminate. }
        destruct (IH _ _ _ _ Q I1) as [I' P'].
        { intros k M. apply mem_insert in M. destruct M as [->|M]; [rewrite La; exact Dc|apply Keys; exact M]. }
        split; [exact I'|]. destruct r as [am'|e]; [|exact Logic.I].
        destruct P' as [P1 P2]. split; [exact P1|]. intros c [<-|Ic]; [exact Dc|apply P2; exact Ic].
      + discriminate.
      + inversion Q; subst. split; [|exact Logic.I].
        destruct (LV s1) as (A & B & C). apply (@Inv_core s1 (leave s1)); auto.
  Qed.

  (* ---------- reachTarget ---------- *)
  Theorem reach_inv : forall fuel, rec_ok (reach u bh g false fuel).
  Proof.
    induction fuel as [|fuel IH]; intros target s s' r Q I; [discriminate|].
    rewrite reach_S in Q. unfold reach_body in Q.
    set (s0 := set_inprog s (target :: s_inprog s)) in *.
    set (leave := fun s : rstate => set_inprog s (remove1 target (s_inprog s))) in *.
    assert (LV : forall s, s_vals (leave s) = s_vals s /\ s_world (leave s) = s_world s /\ s_trace (leave s) = s_trace s).
    { intros x. unfold leave. simpl. auto. }
    destruct (take_perm SITE_REACH_OUT (g_out_keys g target) (s_tape s0)) as [[outs t']| | |] eqn:TP;
      cbn [bind] in Q; try discriminate.
    set (s1 := set_tape s0 t') in *.
    assert (I1 : Inv s1) by (apply (@Inv_core s s1); auto).
    rewrite classify_eq in Q.
    match type of Q with context [fold_left (cl_step s1) outs ?a] =>
      destruct (fold_left (cl_step s1) outs a) as [am todo] eqn:CL end.
    destruct (classify_spec _ _ _ _ CL) as (C1 & C2 & C3 & _ & _).
    assert (AmKeys : forall k, mem k am = true -> In k DSet).
    { intros k M. destruct (C2 k M) as [M0|M0]; [discriminate|]. apply (inv_vals I1 k M0). }
    assert (Outs : forall P : Prop, (forall o, In o todo -> In o DSet) ->
                   forall o, In o (g_out_keys g target) -> In o DSet).
    { intros _ Td o Io. apply (take_perm_In' _ _ _ TP) in Io.
      destruct (C1 o Io) as [->|[M|It]]; [apply (ds_root cached WG RG)|apply AmKeys; exact M|apply Td; exact It]. }
    destruct todo as [|c0 todo'].
    - inversion Q; subst. split.
      + destruct (LV s1) as (A & B & C). apply (@Inv_core s1 (leave s1)); auto.
      + split; [exact AmKeys|]. apply (Outs True). intros o [].
    - set (todo := c0 :: todo') in *.
      destruct (plans g false todo (Ok ([], [], s1))) as [[[paths unsat] s2]| | |] eqn:PL;
        cbn [bind] in Q; try discriminate.
      assert (Vt : forall cur, In cur todo -> vtx g cur <> None).
      { intros cur Ic. destruct (C3 cur Ic) as [[]|Io].
        apply (take_perm_In' _ _ _ TP) in Io. apply in_out_keys in Io.
        apply (ew_closed _ _ Wg Io). }
      destruct (plans_spec _ _ _ _ Vt PL) as (newp & Ep & F2 & E1 & E2 & E3).
      simpl in Ep. subst newp.
      assert (I2 : Inv s2) by (apply (@Inv_core s1 s2); auto).
      destruct unsat as [|x xs].
      + destruct (@walk_paths_inv _ leave IH LV paths todo F2 am s2 s' r Q I2 AmKeys) as [I' P'].
        split; [exact I'|]. destruct r as [am'|e]; [|exact Logic.I].
        destruct P' as [P1 P2]. split; [exact P1|]. apply (Outs True). exact P2.
      + inversion Q; subst. split; [|exact Logic.I].
        destruct (LV s2) as (A & B & C). apply (@Inv_core s2 (leave s2)); auto.
  Qed.
End Inv.

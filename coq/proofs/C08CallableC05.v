(* C08CallableC05.v -- the completeness theorem C05 (mode (a): every converter
   has at most one input) with the hypothesis [wf_call u f b] weakened to
   [wf_funcs (known_funcs f b)]: the values supplied to a redefined function
   are arbitrary (any serial, possibly of an interface type), so the builder
   of that call need not satisfy [wf_values] / [wf_supplied_types].  The proofs
   are those of C05CompleteGraph.v / C05CompleteGraphIn.v / C05CompleteAssemble.v,
   which never use more than [wf_funcs]; all their lemmas are reused.
   Helper of C08Callable.v. *)
From ArgMapper Require Import Base Graph GraphAlg GraphSpec Types Args Resolver ResolverSpec
     CheckResolver Monitors ResolverStatements.
From ArgMapper.proofs Require Import C18DijkstraLemmas C19RefineMap C19RefineGraph C20aDfs
     C05CompleteDefs C05CompleteReachEq C05CompleteState C05CompletePlan C05CompleteReq
     C05CompleteWalk C05CompleteBody C05CompleteModes
     C05CompleteClosureBase C05CompleteClosure C05CompleteGraphBase C05CompleteGraphInv C05CompleteGraph
     C05CompleteGraphIn C05CompleteAssemble.
From Coq Require Import Lia ZArith List String.
Import ListNotations.
Set Implicit Arguments.
Local Open Scope Z_scope.

(* ---------- full_graph_core_proof with wf_funcs only ---------- *)
Lemma full_graph_core_w u f b t fg tr :
  wf_funcs (known_funcs f b) = true ->
  full_graph u f b false t = Ok (inl fg, tr) ->
  full_graph_core_concl u f b fg tr.
Proof.
  intros Wf Hfull.
  destruct (full_graph_inv _ _ _ _ Hfull) as (ks & t' & g4 & c4 & RG & ->).
  unfold full_graph_core_concl. cbn [fg_g fg_vals fg_target fg_freq fg_convs fg_trace].
  pose proof (run_gens_ok u (vals_of b) (b_gens b) (stage3 f b) (b_convs b) ks []) as Ok.
  rewrite RG in Ok. destruct Ok as [(new & Ec & Hnew) Ok].
  set (F := f :: c4).
  assert (Hf : In f F) by (left; reflexivity).
  assert (Hc4 : incl c4 F) by (intros x Ix; right; exact Ix).
  assert (Hconvs : incl (b_convs b) F).
  { intros x Ix. apply Hc4. rewrite Ec. apply in_or_app. left; exact Ix. }
  assert (Hknown : incl F (known_funcs f b)).
  { intros x [<-|Ix]; [left; reflexivity|]. right. rewrite Ec in Ix.
    apply in_app_iff in Ix. apply in_or_app. destruct Ix as [Ix|Ix]; [left; exact Ix|right; auto]. }
  destruct (@stage1_ok u f b F Hf) as (G1 & Has1 & P1).
  pose proof (@stage2_ok u f b F Hf) as G2.
  destruct (@stage3_ok u f b F Hf Hconvs) as (G3 & Has3).
  destruct (Ok F Hc4 (proj1 G3)) as (G4 & Has4).
  pose proof (@steps_ok u b F g4 (proj1 G4)) as G5.
  set (g5 := steps u b g4) in *.
  assert (G35 : GS u F (vals_of b) (stage3 f b) g5) by (eapply GS_trans; eauto).
  assert (G15 : GS u F (vals_of b) (stage1 f) g5).
  { eapply GS_trans; [exact G2|]. eapply GS_trans; [exact G3|exact G35]. }
  destruct (proj1 G5) as (W5 & IE5 & IV5 & VR5).
  split; [exact W5|]. split; [exact VR5|]. split; [reflexivity|].
  split; [apply G15; exact P1|]. split; [exact IE5|]. split; [exact IV5|].
  split; [exact (@freq_ok u f b F g5 Wf Hknown Has1 (proj2 G15) IE5)|].
  split; [|split; [|reflexivity]].
  - intros c [<-|Ic].
    + apply (@has_fn_mono (stage1 f) g5 f); [apply G15|exact Has1].
    + destruct (Has4 c Ic) as [A|A].
      * apply (@has_fn_mono (stage3 f b) g5 c); [apply G35|apply Has3; exact A].
      * apply (@has_fn_mono g4 g5 c); [apply G5|exact A].
  - intros c Ic. apply Hknown. right; exact Ic.
Qed.

Lemma full_graph_alt_w u f b d opts t fg tr :
  build_args d opts = Some b ->
  wf_funcs (known_funcs f b) = true ->
  full_graph u f b false t = Ok (inl fg, tr) ->
  full_graph_concl u f b fg tr.
Proof.
  intros Hb Wf Hfull. apply full_graph_concl_split.
  - eapply full_graph_core_w; eauto.
  - destruct (full_graph_inv _ _ _ _ Hfull) as (ks & t' & g4 & c4 & _ & ->).
    unfold fg_vals_concl. cbn [fg_vals]. apply vals_of_ok. eapply build_args_typed_keys; eauto.
Qed.

(* in_edge_conv_proof never uses its well-formedness premises *)
Lemma in_edge_conv_w u f b t fg tr :
  full_graph u f b false t = Ok (inl fg, tr) ->
  forall a ft w, edge (fg_g fg) a (KFunc ft) w ->
    exists c fld, In c (fg_convs fg) /\ fn_type c = ft /\ In fld (fn_out c) /\ a = field_out_key fld.
Proof.
  intros Hfull a ft w Ed.
  destruct (full_graph_inv _ _ _ _ Hfull) as (ks & t' & g4 & c4 & RG & ->).
  cbn [fg_g fg_convs] in *.
  pose proof (run_gens_ok u (vals_of b) (b_gens b) (stage3 f b) (b_convs b) ks []) as Ok.
  rewrite RG in Ok. destruct Ok as [(new & Ec & _) _].
  assert (Hconvs : incl (b_convs b) c4).
  { intros x Ix. rewrite Ec. apply in_or_app. left; exact Ix. }
  pose proof (run_gens_in (stage3 f b) (b_gens b) ks (b_convs b) []) as In4.
  rewrite RG in In4. unfold gen_in in In4.
  pose proof (In4 c4 (fun x Ix => Ix) (ESC_stage3 f b Hconvs)) as G4.
  pose proof (ESC_steps u b G4) as [_ G5].
  exact (G5 _ _ _ Ed ft eq_refl).
Qed.

(* ---------- C05CompleteAssemble.v, section Assemble, mode (a) ---------- *)
Section AssembleW.
  Variables (u : universe) (bh : behaviour) (f : fdecl) (d opts : list arg) (b : builder)
            (t : tape vkey) (fg : fgraph) (tr : list event).
  Hypothesis BA : build_args d opts = Some b.
  Hypothesis WFK : wf_funcs (known_funcs f b) = true.
  Hypothesis FULL : full_graph u f b false t = Ok (inl fg, tr).
  Hypothesis UT : univ_trans u = true.
  Hypothesis SM : small_graph fg = true.
  Hypothesis TDER : target_derivable fg [] = true.
  (* edges into a function vertex come from a converter of that type *)
  Hypothesis INCONV : forall a ft w, edge (fg_g fg) a (KFunc ft) w ->
      exists c fld, In c (fg_convs fg) /\ fn_type c = ft /\ In fld (fn_out c) /\ a = field_out_key fld.

  Let g := fg_g fg.
  Let tt := fn_type f.
  Let T := KFunc tt.
  Let F := f :: fg_convs fg.
  Let keep := keep_set g T.
  Let g' := prune_graph g keep.

  (* ---------- the full graph ---------- *)
  Lemma FGC : full_graph_concl u f b fg tr.
  Proof. eapply full_graph_alt_w; eauto. Qed.

  Lemma Wg : wf_graph g. Proof. exact (proj1 FGC). Qed.
  Lemma Rootg : vertex g KRoot. Proof. destruct FGC as (_ & A & _). exact A. Qed.
  Lemma Tgt : fg_target fg = T. Proof. destruct FGC as (_ & _ & A & _). exact A. Qed.
  Lemma PayT : g_vertex g T = Some (PFunc f). Proof. destruct FGC as (_ & _ & _ & A & _). exact A. Qed.
  Lemma EIg : forall a b0 w, edge g a b0 w -> edge_inv u F (fg_vals fg) a b0 w.
  Proof. destruct FGC as (_ & _ & _ & _ & A & _). exact A. Qed.
  Lemma VIg : forall k pay, g_vertex g k = Some pay -> vert_inv F k pay.
  Proof. destruct FGC as (_ & _ & _ & _ & _ & A & _). exact A. Qed.
  Lemma Freq : forall r, In r (fg_freq fg) <-> exists w, edge g T r w.
  Proof. destruct FGC as (_ & _ & _ & _ & _ & _ & A & _). exact A. Qed.
  Lemma HasF : forall c, In c F ->
     vertex g (KFunc (fn_type c)) /\
     (forall fld, In fld (fn_in c) -> exists w, edge g (KFunc (fn_type c)) (field_key fld) w) /\
     (fn_in c = [] -> exists w, edge g (KFunc (fn_type c)) KRoot w).
  Proof. destruct FGC as (_ & _ & _ & _ & _ & _ & _ & A & _). exact A. Qed.
  Lemma Known : forall c, In c (fg_convs fg) -> In c (known_funcs f b).
  Proof. destruct FGC as (_ & _ & _ & _ & _ & _ & _ & _ & A & _). exact A. Qed.
  Lemma ValsT : forall k v, lookup k (fg_vals fg) = Some v ->
     match k with KVal _ t0 _ | KOut t0 _ => t0 = v_ty v | _ => False end.
  Proof. destruct FGC as (_ & _ & _ & _ & _ & _ & _ & _ & _ & A & _). exact A. Qed.
  Lemma Trace : fg_trace fg = tr.
  Proof. destruct FGC as (_ & _ & _ & _ & _ & _ & _ & _ & _ & _ & A). exact A. Qed.

  Lemma F_known : forall c, In c F -> In c (known_funcs f b).
  Proof. intros c [<-|Ic]; [left; reflexivity|apply Known; exact Ic]. Qed.

  Lemma SAMESIG : forall f1 f2, In f1 F -> In f2 F -> fn_type f1 = fn_type f2 ->
      sig_of (fn_in f1) = sig_of (fn_in f2) /\ sig_of (fn_out f1) = sig_of (fn_out f2).
  Proof. intros f1 f2 I1 I2. apply (proj1 (proj2 (@wf_funcs_facts _ WFK))); apply F_known; assumption. Qed.
  Lemma SAMEID : forall f1 f2, In f1 F -> In f2 F -> fn_id f1 = fn_id f2 -> fn_type f1 = fn_type f2.
  Proof. intros f1 f2 I1 I2. apply (proj2 (proj2 (@wf_funcs_facts _ WFK))); apply F_known; assumption. Qed.
  Lemma WFFN : forall c, In c F -> wf_fn c = true.
  Proof. intros c Ic. apply (proj1 (@wf_funcs_facts _ WFK)). apply F_known; exact Ic. Qed.

  Lemma funcs_out : funcs_have_out g.
  Proof.
    intros ft V. apply (proj1 (in_keys_lookup _ _)) in V. destruct V as [pay Q].
    destruct (@VIg _ _ Q) as (c & _ & Et & Ic). destruct (@HasF c Ic) as (_ & A & B). rewrite Et in *.
    destruct (fn_in c) as [|fld l] eqn:En.
    - destruct (B eq_refl) as [w E]. eauto.
    - destruct (A fld (or_introl eq_refl)) as [w E]. eauto.
  Qed.

  (* ---------- closure and pruning ---------- *)
  Lemma CL : In KRoot keep /\
    (forall k, In k keep -> vertex g k) /\
    (forall a b0 w, In b0 keep -> b0 <> T -> edge g a b0 w -> In a keep) /\
    (forall k, In k keep ->
       exists p w, walk g k KRoot p w /\ (forall x, In x p -> In x keep) /\
                   (forall x, In x (tl p) -> x <> T)).
  Proof. exact (@closure_proof g T Wg Rootg). Qed.

  Lemma PR : wf_graph g' /\
    (forall k, g_vertex g' k = if memb k keep then g_vertex g k else None) /\
    (forall a b0 w, edge g' a b0 w <-> (edge g a b0 w /\ In a keep /\ In b0 keep)).
  Proof. exact (@prune_proof g keep Wg). Qed.

  Lemma Wg' : wf_graph g'. Proof. exact (proj1 PR). Qed.

  Lemma vertex_g' k : vertex g' k <-> In k keep.
  Proof.
    rewrite (@vertex_gv g' k). destruct PR as (_ & PV & _). rewrite PV. split.
    - intros [p Q]. destruct (memb k keep) eqn:M; [apply memb_In; exact M|discriminate Q].
    - intros Ik. assert (M : memb k keep = true) by (apply memb_In; exact Ik). rewrite M.
      apply (@vertex_gv g k). apply (proj1 (proj2 CL)). exact Ik.
  Qed.

  Lemma Rootg' : vertex g' KRoot. Proof. apply vertex_g'. exact (proj1 CL). Qed.

  Lemma edge_g'_g a b0 w : edge g' a b0 w -> edge g a b0 w.
  Proof. intros Q. apply (proj2 (proj2 PR)) in Q. exact (proj1 Q). Qed.

  Lemma EIg' : forall a b0 w, edge g' a b0 w -> edge_inv u F (fg_vals fg) a b0 w.
  Proof. intros a b0 w Q. apply EIg. apply edge_g'_g. exact Q. Qed.

  Lemma gv_g' k pay : g_vertex g' k = Some pay -> g_vertex g k = Some pay.
  Proof. destruct PR as (_ & PV & _). rewrite PV. destruct (memb k keep); [auto|discriminate]. Qed.

  Lemma VIg' : forall k pay, g_vertex g' k = Some pay -> vert_inv F k pay.
  Proof. intros k pay Q. apply VIg. apply gv_g'. exact Q. Qed.

  Lemma vertex_g'_g k : vertex g' k -> vertex g k.
  Proof. intros V. apply vertex_g' in V. exact (proj1 (proj2 CL) _ V). Qed.

  Lemma SMALLg' : 20 * (Z.of_nat (List.length (g_vertex_keys g')) + 1) < INF.
  Proof.
    unfold small_graph in SM. apply Z.ltb_lt in SM. fold g in SM.
    assert (Le : (List.length (g_vertex_keys g') <= List.length (g_vertex_keys g))%nat).
    { apply NoDup_incl_length; [exact (wf_hash_nodup Wg')|]. intros k V. apply vertex_g'_g. exact V. }
    lia.
  Qed.

  Lemma RRg' : forall k, vertex g' k -> GraphSpec.reach g' k KRoot.
  Proof.
    intros k V. apply vertex_g' in V. destruct (proj2 (proj2 (proj2 CL)) _ V) as (p & w & W & IK & _).
    exists p, w. clear V. induction W as [a Va|a b0 c p w1 w2 E W IH].
    - constructor. apply vertex_g'. apply IK. left; reflexivity.
    - econstructor.
      + apply (proj2 (proj2 PR)). split; [exact E|]. split; [apply IK; left; reflexivity|].
        apply IK. right. destruct W; left; reflexivity.
      + apply IH. intros x Ix. apply IK. right; exact Ix.
  Qed.

  (* ---------- the target's requirements are kept ---------- *)
  Lemma freq_derivable : forall r w, edge g T r w -> In r (derivable_set g []).
  Proof.
    intros r w E. unfold target_derivable in TDER. rewrite forallb_forall in TDER.
    apply memb_In. apply TDER. apply Freq. eauto.
  Qed.

  Lemma freq_keep : forall r w, edge g T r w -> In r keep.
  Proof.
    destruct (@derive_keep_alt_proof g T Wg Rootg funcs_out (ex_intro _ tt eq_refl)) as [_ K2].
    apply K2. exact freq_derivable.
  Qed.

  Lemma T_vertex_g : vertex g T.
  Proof. apply (@vertex_gv g T). exists (PFunc f). exact PayT. Qed.

  Lemma T_keep : In T keep.
  Proof.
    destruct (@funcs_out tt T_vertex_g) as (r & w & E).
    apply (proj1 (proj2 (proj2 CL)) T r w); [eapply freq_keep; eauto| |exact E].
    pose proof (@EIg _ _ _ E) as (_ & K). intros ->. contradiction K.
  Qed.

  Lemma PayT' : g_vertex g' T = Some (PFunc f).
  Proof.
    destruct PR as (_ & PV & _). rewrite PV.
    assert (M : memb T keep = true) by (apply memb_In; exact T_keep). rewrite M. exact PayT.
  Qed.

  Lemma prune_ok :
    prune fg = inl (mkCG g' (fg_vals fg) T (fg_inputs fg) (fg_convs fg) tr (fg_tape fg)).
  Proof.
    rewrite prune_unfold. cbv zeta. rewrite Tgt. fold g. fold keep. fold g'.
    rewrite filter_nil_all; [rewrite Trace; reflexivity|].
    intros k Ik. apply Freq in Ik. destruct Ik as [w E].
    assert (V : vertex g' k) by (apply vertex_g'; eapply freq_keep; eauto).
    apply (@vertex_gv g' k) in V. destruct V as [p Q]. unfold g_vertex in Q. unfold mem. rewrite Q. reflexivity.
  Qed.

  Lemma complete_T : complete_v g' T.
  Proof.
    intros f0 P fld Ifld. rewrite PayT' in P. inversion P; subst f0.
    destruct (@HasF f (or_introl eq_refl)) as (_ & A & _). destruct (A fld Ifld) as [w E].
    exists w. apply (proj2 (proj2 PR)). split; [exact E|]. split; [exact T_keep|]. eapply freq_keep; eauto.
  Qed.

  (* ---------- the initial state ---------- *)
  Let cg := mkCG g' (fg_vals fg) T (fg_inputs fg) (fg_convs fg) tr (fg_tape fg).

  Lemma Inv0 : Inv u bh F (fg_vals fg) (init_state cg world0).
  Proof.
    constructor; cbn [init_state s_vals s_world cg_vals cg world0 w_once].
    - intros k x L. pose proof (@ValsT _ _ L) as K. unfold val_ok.
      destruct k; try contradiction K; cbn [key_ty]; subst; apply assignable_refl.
    - intros k M. unfold mem in M. destruct (lookup k (fg_vals fg)); [discriminate|discriminate M].
    - intros fid r L. discriminate L.
  Qed.

  (* ---------- mode (a) ---------- *)
  Section A.
    Hypothesis SINGLEC : single_input_convs fg = true.

    Lemma conv_single c : In c (fg_convs fg) -> (List.length (fn_in c) <= 1)%nat.
    Proof.
      intros Ic. unfold single_input_convs in SINGLEC. rewrite forallb_forall in SINGLEC.
      apply Nat.leb_le. apply SINGLEC. exact Ic.
    Qed.

    Lemma SINGLE' : forall ft f0, g_vertex g' (KFunc ft) = Some (PFunc f0) -> ft <> tt ->
                                  (List.length (fn_in f0) <= 1)%nat.
    Proof.
      intros ft f0 P N. destruct (@VIg' _ _ P) as (c & E & Et & Ic). inversion E; subst c.
      destruct Ic as [<-|Ic]; [contradiction N; symmetry; exact Et|]. apply conv_single. exact Ic.
    Qed.

    Lemma TSINGLE' : forall f0 a w, g_vertex g' (KFunc tt) = Some (PFunc f0) -> edge g' a (KFunc tt) w ->
                                    (List.length (fn_in f0) <= 1)%nat.
    Proof.
      intros f0 a w P E. fold T in P. rewrite PayT' in P. inversion P; subst f0.
      destruct (@INCONV _ _ _ (@edge_g'_g _ _ _ E)) as (c & fld & Ic & Et & _).
      destruct (@SAMESIG c f (or_intror Ic) (or_introl eq_refl) Et) as [Si _].
      rewrite <- (@sig_of_length _ _ Si). apply conv_single. exact Ic.
    Qed.

    Lemma reach_mode_a :
      good_rec u bh g' F (fg_vals fg) T (init_state cg world0)
               (reach u bh g' false (fuel_of cg) T (init_state cg world0)).
    Proof.
      unfold fuel_of. cbn [cg_g cg].
      assert (L : exists n, List.length (g_vertex_keys g') = S n).
      { pose proof Rootg' as R. unfold vertex in R. change (keys (ghash g')) with (g_vertex_keys g') in R.
        destruct (g_vertex_keys g') as [|x l] eqn:El; [destruct R|exists (List.length l); reflexivity]. }
      destruct L as [n ->].
      apply (@reach_a u bh g' F (fg_vals fg) Wg' Rootg' EIg' VIg' UT SAMESIG SAMEID WFFN SMALLg' RRg'
                      tt SINGLE' TSINGLE' n (init_state cg world0)).
      - apply vertex_g'. exact T_keep.
      - exact Inv0.
      - reflexivity.
    Qed.
  End A.

  (* ---------- from reach to call ---------- *)
  Lemma call_unfold :
    call u bh f d opts world0 t =
    (do (s, r) <- reach u bh g' false (fuel_of cg) T (init_state cg world0);
     match r with
     | inr e => Ok (mkRun (OErr e) (s_trace s) (mkW (s_world s) (s_nexec s)) (s_tape s) (s_inputs s))
     | inl am =>
         do (res, s) <- call_direct u bh false f am s;
         Ok (mkRun (if r_builderr res then OErr XMissing else OOk res)
                   (s_trace s) (mkW (s_world s) (s_nexec s)) (s_tape s) (s_inputs s))
     end).
  Proof.
    unfold call. rewrite BA. unfold call_graph. rewrite FULL. cbn [bind]. rewrite prune_ok. reflexivity.
  Qed.

  Lemma call_of_reach :
    good_rec u bh g' F (fg_vals fg) T (init_state cg world0)
             (reach u bh g' false (fuel_of cg) T (init_state cg world0)) ->
    ((exists r, call u bh f d opts world0 t = Ok r /\ c05_ok fg [] (co_of_run r) = true) \/
     (exists s, call u bh f d opts world0 t = TapeErr s)) /\
    (no_failures bh -> forall r, call u bh f d opts world0 t = Ok r -> co_ok (co_of_run r) = true).
  Proof.
    intros G. rewrite call_unfold.
    destruct G as [[site Q]|[(s1 & e & Q & I1 & _ & (fid & n & B))|(s1 & am & Q & I1 & _ & AM)]]; rewrite Q; cbn [bind].
    - split; [right; exists site; reflexivity|]. intros _ r X. discriminate X.
    - split.
      + left. eexists. split; [reflexivity|]. unfold c05_ok, co_of_run. cbn [run_out].
        destruct (c05_premise fg []); [|reflexivity].
        cbn [co_panic co_ok co_err negb andb orb]. rewrite orb_true_r. reflexivity.
      + intros NF. exfalso. specialize (NF fid n). rewrite B in NF. exact NF.
    - assert (AMf : am_ok u f am).
      { eapply (@am_ok_of_v u g' tt f am); [exact PayT'|exact complete_T|exact AM]. }
      destruct (@call_direct_ok u bh F (fg_vals fg) SAMESIG SAMEID f am s1 (or_introl eq_refl) I1 AMf)
        as (res & s2 & Q2 & (R1 & R2 & R3) & _).
      rewrite Q2. cbn [bind]. rewrite R1. split.
      + left. eexists. split; [reflexivity|]. unfold c05_ok, co_of_run. cbn [run_out].
        destruct (c05_premise fg []); [|reflexivity].
        destruct (r_err res); cbn [co_panic co_ok co_err negb andb orb]; rewrite ?orb_true_r; reflexivity.
      + intros NF r X. inversion X; subst r. unfold co_of_run. cbn [run_out co_ok].
        destruct (r_err res) as [e|] eqn:Er; [|reflexivity].
        exfalso. destruct (R3 e eq_refl) as (fid & n & B). specialize (NF fid n). rewrite B in NF. exact NF.
  Qed.
End AssembleW.

(* ---------- C05, mode (a), for a call whose functions are well formed ---------- *)
Theorem C05_single_w u bh f d opts b t fg tr :
  build_args d opts = Some b -> wf_funcs (known_funcs f b) = true ->
  full_graph u f b false t = Ok (inl fg, tr) ->
  target_derivable fg [] = true -> univ_trans u = true -> small_graph fg = true ->
  single_input_convs fg = true ->
  (exists r, call u bh f d opts world0 t = Ok r /\ c05_ok fg [] (co_of_run r) = true) \/
  (exists s, call u bh f d opts world0 t = TapeErr s).
Proof.
  intros BA WFK FULL TD UT SM SI.
  pose proof (@in_edge_conv_w u f b t fg tr FULL) as INCONV.
  apply (@call_of_reach u bh f d opts b t fg tr BA WFK FULL TD).
  apply (@reach_mode_a u bh f d opts b t fg tr BA WFK FULL UT SM TD INCONV SI).
Qed.

(* C141517VS.v -- proofs of C14 (introspection of signatures), C15
   (NewValueSet round trip and lookups) and C17 (result accessors). *)
From ArgMapper Require Import Base Types ValueSet CheckValueSet ValueSetStatements.
From ArgMapper.proofs Require Import C141517VSLemmas.
From Coq Require Import String Ascii List Bool Lia.
Import ListNotations.

(* ================= C14 ================= *)

Definition is_istruct (p : isig) : bool :=
  match p with IStruct _ _ => true | _ => false end.

Lemma nvs_none_iff (ps : list isig) :
  new_value_set ps = None <-> honourable ps = false.
Proof.
  destruct ps as [|p ps]; [cbn; split; discriminate|].
  destruct p as [t|n fs|]; destruct ps as [|p2 ps].
  - cbn. split; discriminate.
  - unfold new_value_set, honourable.
    destruct (existsb _ _); cbn [negb]; split; intros Hx; try reflexivity; discriminate.
  - unfold new_value_set, honourable, from_struct.
    destruct n as [|[|n]]; cbn; split; intros Hx; try reflexivity; discriminate.
  - unfold new_value_set, honourable.
    destruct (existsb _ _); cbn [negb]; split; intros Hx; try reflexivity; discriminate.
  - cbn. split; discriminate.
  - unfold new_value_set, honourable.
    destruct (existsb _ _); cbn [negb]; split; intros Hx; try reflexivity; discriminate.
Qed.

Lemma new_func_sig_true (ins outs : list isig) :
  new_func_sig true ins outs =
  match new_value_set ins, new_value_set (strip_err outs) with
  | Some i, Some o => Some (i, o)
  | _, _ => None
  end.
Proof. reflexivity. Qed.

Lemma strip_err_snoc (outs : list isig) : strip_err (outs ++ [IErr]) = outs.
Proof. unfold strip_err. rewrite rev_app_distr. cbn [rev app]. apply rev_involutive. Qed.

Lemma existsb_map_plain (ts : list ty) :
  existsb (fun p => match p with IStruct _ _ => true | _ => false end) (map IPlain ts) = false.
Proof. induction ts as [|t ts IH]; cbn [map existsb]; [reflexivity | exact IH]. Qed.

Lemma nvs_plain (ts : list ty) :
  new_value_set (map IPlain ts) = Some (map (fun t => mkIV EmptyString t EmptyString) ts).
Proof.
  destruct ts as [|t ts]; [reflexivity|].
  cbn [map]. unfold new_value_set.
  change (IPlain t :: map IPlain ts) with (map IPlain (t :: ts)).
  destruct ts as [|t2 ts].
  - reflexivity.
  - rewrite existsb_map_plain. rewrite map_map. reflexivity.
Qed.

Lemma field_value_name_lower (f : ifield) :
  iv_name (field_value f) = lower (iv_name (field_value f)) /\ iv_ty (field_value f) = if_ty f.
Proof.
  unfold field_value.
  destruct (if Base.eqb (if_tag f) EmptyString then (if_name f, [])
            else match split_comma (if_tag f) with
                 | p0 :: rest => ((if Base.eqb p0 EmptyString then if_name f else p0), parse_opts rest [])
                 | [] => (if_name f, [])
                 end) as [name opts].
  cbn [iv_name iv_ty]. split; [|reflexivity].
  destruct (mem "typeOnly"%string opts); [reflexivity|].
  symmetry. apply lower_idem.
Qed.

Lemma has_char_app_false (c : ascii) (a b : string) :
  has_char c a = false -> has_char c b = false -> has_char c (a ++ b) = false.
Proof.
  intros Ha Hb. induction a as [|x r IH]; cbn [append has_char]; [exact Hb|].
  cbn [has_char] in Ha. apply orb_false_iff in Ha. destruct Ha as [Hx Hr].
  rewrite Hx. cbn [orb]. apply IH. exact Hr.
Qed.

Lemma app_comma_ne (a b : string) : (a ++ String "," b)%string <> EmptyString.
Proof. destruct a; cbn [append]; discriminate. Qed.

(* tag = tagname,typeOnly,subtype=sub *)
Lemma field_value_typeonly_sub (n : string) (e : bool) (t : ty) (m : bool) (tagname sub : string) :
  has_char "," tagname = false -> has_char "," sub = false ->
  field_value (mkIF n e (tagname ++ ",typeOnly,subtype=" ++ sub) t m) = mkIV EmptyString t sub.
Proof.
  intros Ht Hs.
  change (tagname ++ ",typeOnly,subtype=" ++ sub)%string
    with (tagname ++ String "," ("typeOnly" ++ String "," ("subtype=" ++ sub)))%string.
  rewrite (@field_value_split n e _ t m tagname ["typeOnly"%string; ("subtype=" ++ sub)%string]).
  - reflexivity.
  - apply app_comma_ne.
  - rewrite split_comma_app by exact Ht.
    rewrite split_comma_app by reflexivity.
    rewrite split_comma_nochar; [reflexivity|].
    apply has_char_app_false; [reflexivity | exact Hs].
Qed.

(* tag = ,subtype=sub *)
Lemma field_value_sub (n : string) (e : bool) (t : ty) (m : bool) (sub : string) :
  has_char "," sub = false ->
  field_value (mkIF n e (",subtype=" ++ sub) t m) = mkIV (lower n) t sub.
Proof.
  intros Hs.
  change (",subtype=" ++ sub)%string with ("" ++ String "," ("subtype=" ++ sub))%string.
  rewrite (@field_value_split n e _ t m EmptyString [("subtype=" ++ sub)%string]).
  - reflexivity.
  - apply app_comma_ne.
  - rewrite split_comma_app by reflexivity.
    rewrite split_comma_nochar; [reflexivity|].
    apply has_char_app_false; [reflexivity | exact Hs].
Qed.

(* tag = ,typeOnly *)
Lemma field_value_typeonly (n : string) (e : bool) (t : ty) (m : bool) :
  field_value (mkIF n e ",typeOnly" t m) = mkIV EmptyString t EmptyString.
Proof. reflexivity. Qed.

Lemma field_value_tagname (n : string) (e : bool) (t : ty) (m : bool) (tagname : string) :
  has_char "," tagname = false -> tagname <> EmptyString ->
  field_value (mkIF n e tagname t m) = mkIV (lower tagname) t EmptyString.
Proof.
  intros Hc Hne.
  rewrite (@field_value_split n e tagname t m tagname []).
  - unfold fv_of. cbn [parse_opts]. rewrite (beqb_empty_false Hne). reflexivity.
  - exact Hne.
  - apply split_comma_nochar. exact Hc.
Qed.

Theorem C14_proof : C14_statement.
Proof.
  unfold C14_statement.
  split; [|split; [|split; [|split; [|split; [|split; [|split; [|split; [|split]]]]]]]].
  - intros isfunc ins outs. destruct isfunc.
    + rewrite new_func_sig_true. split.
      * intros Hn. right.
        destruct (new_value_set ins) as [i|] eqn:Hi.
        -- right. apply nvs_none_iff.
           destruct (new_value_set (strip_err outs)) as [o|] eqn:Ho; [discriminate | reflexivity].
        -- left. apply nvs_none_iff. exact Hi.
      * intros [Hf|[Hh|Hh]]; [discriminate| |].
        -- apply nvs_none_iff in Hh. rewrite Hh. reflexivity.
        -- apply nvs_none_iff in Hh. rewrite Hh. destruct (new_value_set ins); reflexivity.
    + split; [intros _; left; reflexivity | intros _; reflexivity].
  - intros ins outs. rewrite new_func_sig_true, strip_err_snoc. reflexivity.
  - intros ts. left. apply nvs_plain.
  - intros t. reflexivity.
  - intros fs. split; reflexivity.
  - intros f. apply field_value_name_lower.
  - intros n e t m. apply field_value_notag.
  - intros n e t m tagname Hc Hne. apply field_value_tagname; assumption.
  - intros n e t m tagname sub Ht Hs. apply field_value_typeonly_sub; assumption.
  - intros n e t m sub Hs. apply field_value_sub; assumption.
Qed.
Print Assumptions C14_proof.

(* ================= C15 ================= *)

Definition rt (v : ivalue) : ivalue := mkIV (lower (iv_name v)) (iv_ty v) (iv_sub v).

Lemma field_value_nvs_field (i : nat) (v : ivalue) :
  has_char "," (iv_sub v) = false -> field_value (nvs_field i v) = rt v.
Proof.
  intros Hs. destruct v as [nm t sub]. cbn [iv_sub] in Hs.
  unfold nvs_field, rt. cbn [iv_name iv_ty iv_sub].
  destruct (Base.eqb nm EmptyString) eqn:Hn; destruct (Base.eqb sub EmptyString) eqn:Hsub.
  - apply beqb_empty_true in Hn. apply beqb_empty_true in Hsub. subst nm sub.
    reflexivity.
  - apply beqb_empty_true in Hn. subst nm.
    cbn [app String.concat lower].
    change ("" ++ "," ++ "typeOnly" ++ "," ++ "subtype=" ++ sub)%string
      with ("" ++ ",typeOnly,subtype=" ++ sub)%string.
    apply field_value_typeonly_sub; [reflexivity | exact Hs].
  - apply beqb_empty_true in Hsub. subst sub.
    cbn [app String.concat]. rewrite field_value_notag. rewrite lower_upper. reflexivity.
  - cbn [app String.concat].
    change ("" ++ "," ++ "subtype=" ++ sub)%string with (",subtype=" ++ sub)%string.
    rewrite field_value_sub by exact Hs. rewrite lower_upper. reflexivity.
Qed.

Lemma nvso_eq (vs : list ivalue) :
  (forall v, In v vs -> has_char "," (iv_sub v) = false) ->
  new_value_set_of vs = map rt vs.
Proof.
  intros Hs. unfold new_value_set_of. rewrite map_map.
  apply (@map_combine_seq_snd ivalue ivalue (fun i v => field_value (nvs_field i v)) rt vs 0).
  intros i x Hx. apply field_value_nvs_field. apply Hs. exact Hx.
Qed.

Definition nmkeys (vs : list ivalue) : list string :=
  flat_map (fun v => if Base.eqb (iv_name v) EmptyString then [] else [lower (iv_name v)]) vs.

Lemma nmkeys_in (vs : list ivalue) (w : ivalue) :
  In w vs -> iv_name w <> EmptyString -> In (lower (iv_name w)) (nmkeys vs).
Proof.
  intros Hw Hne. unfold nmkeys. apply in_flat_map. exists w. split; [exact Hw|].
  rewrite (beqb_empty_false Hne). left. reflexivity.
Qed.

Theorem C15_proof : C15_statement.
Proof.
  unfold C15_statement. intros vs Hok. destruct Hok as [Hsub Hnd]. set (m := new_value_set_of vs).
  assert (Hm : m = map rt vs) by (apply nvso_eq; exact Hsub).
  fold (nmkeys vs) in Hnd.
  split; [exact Hm|]. split; [|split].
  - (* named *)
    intros v Hv Hne. rewrite Hm. fold (rt v).
    destruct (in_split _ _ Hv) as [l1 [l2 Hvs]].
    rewrite Hvs, map_app. cbn [map]. rewrite vs_named_lm.
    apply lm_last.
    + cbn [rt iv_name]. rewrite (Base.eqb_refl (lower (iv_name v))).
      assert (Hl : lower (iv_name v) <> EmptyString)
        by (intros Hq; apply Hne; apply lower_empty_inv; exact Hq).
      rewrite (beqb_empty_false Hl). reflexivity.
    + intros w' Hw'. apply in_map_iff in Hw'. destruct Hw' as [w [Hrw Hw]]. subst w'.
      cbn [rt iv_name].
      destruct (Base.eqb (lower (iv_name w)) EmptyString) eqn:Hwe; [reflexivity|].
      cbn [negb andb].
      destruct (Base.eqb (lower (iv_name w)) (lower (iv_name v))) eqn:Hwv; [|reflexivity].
      exfalso.
      apply (proj1 (Base.eqb_eq _ _)) in Hwv.
      assert (Hwne : iv_name w <> EmptyString).
      { intros Hq. rewrite Hq in Hwe. cbn in Hwe. discriminate. }
      rewrite Hvs in Hnd. unfold nmkeys in Hnd. rewrite flat_map_app in Hnd.
      cbn [flat_map] in Hnd. rewrite (beqb_empty_false Hne) in Hnd.
      cbn [app] in Hnd. apply NoDup_remove_2 in Hnd.
      apply Hnd. apply in_or_app. right.
      rewrite <- Hwv. apply (nmkeys_in l2 w Hw Hwne).
  - (* typed *)
    intros v Hv He. rewrite vs_typed_lm.
    destruct (@lm_exists (fun x => Base.eqb (iv_name x) EmptyString && (iv_ty x =? iv_ty v)%Z) m None)
      as [r [Hf [Hin Hp]]].
    + exists (rt v). split.
      * rewrite Hm. apply in_map. exact Hv.
      * cbn [rt iv_name iv_ty]. rewrite He. cbn [lower]. rewrite Z.eqb_refl. reflexivity.
    + exists r. split; [exact Hf|]. split; [exact Hin|].
      apply andb_true_iff in Hp. destruct Hp as [Hp1 Hp2].
      split; [apply beqb_empty_true; exact Hp1 | apply Z.eqb_eq; exact Hp2].
  - (* typed + subtype *)
    intros v Hv Huniq. rewrite Hm. fold (rt v). unfold vs_typed_subtype.
    apply find_map_unique.
    + exact Hv.
    + cbn [rt iv_ty iv_sub]. rewrite Z.eqb_refl, Base.eqb_refl. reflexivity.
    + intros w Hw Hq. cbn [rt iv_ty iv_sub] in Hq.
      apply andb_true_iff in Hq. destruct Hq as [Hq1 Hq2].
      apply Huniq; [exact Hw | apply Z.eqb_eq; exact Hq1 | apply (proj1 (Base.eqb_eq _ _)); exact Hq2].
Qed.
Print Assumptions C15_proof.

(* ================= C17 ================= *)

Lemma has_error_snoc (outs : list rraw) (e : Z) :
  has_error (outs ++ [mkRR RKErrIface e]) = true.
Proof. unfold has_error. rewrite rev_app_distr. reflexivity. Qed.

Lemma has_error_false (outs : list rraw) :
  (match rev outs with r :: _ => rr_kind r <> RKErrIface | [] => True end) ->
  has_error outs = false /\ res_err None outs = None.
Proof.
  unfold has_error, res_err. destruct (rev outs) as [|r l]; intros Hk; [split; reflexivity|].
  destruct (rr_kind r); split; try reflexivity; exfalso; apply Hk; reflexivity.
Qed.

Theorem C17_proof : C17_statement.
Proof.
  unfold C17_statement. split; [|split].
  - intros outs e. split; [|split].
    + unfold res_len. rewrite has_error_snoc, app_length. cbn [List.length]. lia.
    + intros i Hi. unfold res_out. rewrite nth_error_app1 by exact Hi. reflexivity.
    + unfold res_err. rewrite rev_app_distr. reflexivity.
  - intros outs Hk. destruct (has_error_false outs Hk) as [Hh He].
    split; [|split].
    + unfold res_len. rewrite Hh. lia.
    + intros i. reflexivity.
    + exact He.
  - intros e. split; reflexivity.
Qed.
Print Assumptions C17_proof.

(* C05CompleteState.v -- the invariant of the resolver state and what
   call_direct / output_values do to it. *)
From ArgMapper Require Import Base Graph GraphAlg GraphSpec Types Args Resolver ResolverSpec
     CheckResolver Monitors ResolverStatements.
From ArgMapper.proofs Require Import C18DijkstraLemmas C19RefineMap C19RefineGraph C20aDfs
     C05CompleteDefs C05CompleteReachEq.
From Coq Require Import Lia ZArith List String.
Import ListNotations.
Set Implicit Arguments.
Local Open Scope Z_scope.

(* ---------- small facts ---------- *)
Lemma is_empty_true (s : string) : is_empty s = true <-> s = EmptyString.
Proof. unfold is_empty. apply (Base.eqb_eq s EmptyString). Qed.

Lemma key_ty_field_key fld : key_ty (field_key fld) = Some (f_ty fld).
Proof. unfold field_key. destruct (String.eqb (f_name fld) ""); reflexivity. Qed.

Lemma key_ty_field_out_key fld : key_ty (field_out_key fld) = Some (f_ty fld).
Proof. unfold field_out_key. destruct (String.eqb (f_name fld) ""); reflexivity. Qed.

Lemma assignable_refl u t : assignable u t t = true.
Proof. unfold assignable. rewrite Z.eqb_refl. reflexivity. Qed.

Lemma univ_trans_spec u : univ_trans u = true ->
  forall a b c, implements u a b = true -> implements u b c = true -> implements u a c = true.
Proof.
  intros UT a b c Hab Hbc. unfold implements in *.
  apply andb_true_iff in Hab. destruct Hab as [Ib Mab].
  apply andb_true_iff in Hbc. destruct Hbc as [Ic Mbc].
  rewrite Ic. simpl.
  unfold univ_trans in UT. rewrite forallb_forall in UT.
  apply memb_In in Mab. apply memb_In in Mbc.
  specialize (UT _ Mab). rewrite forallb_forall in UT. specialize (UT _ Mbc).
  cbn [fst snd] in UT. rewrite Z.eqb_refl in UT. unfold is_iface in *. rewrite Ib, Ic in UT.
  exact UT.
Qed.

Lemma assignable_trans u : univ_trans u = true ->
  forall x t t', assignable u x t = true -> implements u t t' = true -> assignable u x t' = true.
Proof.
  intros UT x t t' A I. unfold assignable in *. apply orb_true_iff in A. destruct A as [A|A].
  - apply Z.eqb_eq in A. subst. rewrite I. apply orb_true_r.
  - assert (Q : implements u x t' = true) by (eapply univ_trans_spec; eauto). rewrite Q. apply orb_true_r.
Qed.

(* ---------- fields of a function with the same signature ---------- *)
Lemma sig_of_In fs gs fld :
  sig_of fs = sig_of gs -> In fld fs ->
  exists fld', In fld' gs /\ f_name fld' = f_name fld /\ f_ty fld' = f_ty fld /\ f_sub fld' = f_sub fld.
Proof.
  revert gs. induction fs as [|a fs IH]; intros gs E I; [destruct I|].
  destruct gs as [|b gs]; [discriminate|]. cbn [sig_of map] in E. inversion E as [[E1 E2 E3 E4]].
  destruct I as [<-|I].
  - exists b. split; [left; reflexivity|]. auto.
  - destruct (IH gs E4 I) as (fld' & I' & Q). exists fld'. split; [right; exact I'|exact Q].
Qed.

Lemma field_key_ext a b : f_name a = f_name b -> f_ty a = f_ty b -> f_sub a = f_sub b -> field_key a = field_key b.
Proof. intros E1 E2 E3. unfold field_key. rewrite E1, E2, E3. reflexivity. Qed.
Lemma field_out_key_ext a b : f_name a = f_name b -> f_ty a = f_ty b -> f_sub a = f_sub b -> field_out_key a = field_out_key b.
Proof. intros E1 E2 E3. unfold field_out_key. rewrite E1, E2, E3. reflexivity. Qed.

Lemma sig_of_map_ty fs gs : sig_of fs = sig_of gs -> map f_ty fs = map f_ty gs.
Proof.
  revert gs. induction fs as [|a fs IH]; intros [|b gs] E; try discriminate; [reflexivity|].
  cbn [sig_of map] in E. inversion E as [[E1 E2 E3 E4]]. cbn [map]. rewrite E2. f_equal. apply IH. exact E4.
Qed.

(* ---------- last_named / last_typed ---------- *)
Definition nmatch (n : string) (f : field) : bool := negb (String.eqb (f_name f) "") && String.eqb (f_name f) n.
Definition tmatch (t : ty) (f : field) : bool := String.eqb (f_name f) "" && (f_ty f =? t).

Lemma last_named_spec n fs : forall i acc,
  match last_named n fs i acc with
  | Some (j, fld) => (acc = Some (j, fld) /\ forall f, In f fs -> nmatch n f = false) \/
                     ((i <= j)%nat /\ nth_error fs (j - i) = Some fld /\ nmatch n fld = true)
  | None => acc = None /\ forall f, In f fs -> nmatch n f = false
  end.
Proof.
  induction fs as [|a fs IH]; intros i acc; cbn [last_named].
  - destruct acc as [[j fld]|]; [left|]; split; auto; intros f [].
  - fold (nmatch n a). specialize (IH (S i) (if nmatch n a then Some (i, a) else acc)).
    destruct (last_named n fs (S i) (if nmatch n a then Some (i, a) else acc)) as [[j fld]|].
    + destruct IH as [[E NM]|(Le & Nth & M)].
      * destruct (nmatch n a) eqn:Ma.
        -- inversion E; subst. right. split; [lia|]. rewrite Nat.sub_diag. split; [reflexivity|exact Ma].
        -- left. split; [exact E|]. intros f [<-|I]; auto.
      * right. split; [lia|]. split; [|exact M].
        replace (j - i)%nat with (S (j - S i)) by lia. exact Nth.
    + destruct IH as [E NM]. destruct (nmatch n a) eqn:Ma; [discriminate|].
      split; [exact E|]. intros f [<-|I]; auto.
Qed.

Lemma last_typed_spec t fs : forall i acc,
  match last_typed t fs i acc with
  | Some (j, fld) => (acc = Some (j, fld) /\ forall f, In f fs -> tmatch t f = false) \/
                     ((i <= j)%nat /\ nth_error fs (j - i) = Some fld /\ tmatch t fld = true)
  | None => acc = None /\ forall f, In f fs -> tmatch t f = false
  end.
Proof.
  induction fs as [|a fs IH]; intros i acc; cbn [last_typed].
  - destruct acc as [[j fld]|]; [left|]; split; auto; intros f [].
  - fold (tmatch t a). specialize (IH (S i) (if tmatch t a then Some (i, a) else acc)).
    destruct (last_typed t fs (S i) (if tmatch t a then Some (i, a) else acc)) as [[j fld]|].
    + destruct IH as [[E NM]|(Le & Nth & M)].
      * destruct (tmatch t a) eqn:Ma.
        -- inversion E; subst. right. split; [lia|]. rewrite Nat.sub_diag. split; [reflexivity|exact Ma].
        -- left. split; [exact E|]. intros f [<-|I]; auto.
      * right. split; [lia|]. split; [|exact M].
        replace (j - i)%nat with (S (j - S i)) by lia. exact Nth.
    + destruct IH as [E NM]. destruct (tmatch t a) eqn:Ma; [discriminate|].
      split; [exact E|]. intros f [<-|I]; auto.
Qed.

(* names are unique in a well-formed field list *)
Lemma nodup_names_unique fs :
  nodupb (flat_map (fun f => if is_empty (f_name f) then [] else [f_name f]) fs) = true ->
  forall a b, In a fs -> In b fs -> f_name a = f_name b -> f_name a <> EmptyString -> a = b.
Proof.
  induction fs as [|x fs IH]; intros ND a b Ia Ib E NE; [destruct Ia|].
  cbn [flat_map] in ND.
  assert (Hin : forall y, In y fs -> f_name y <> EmptyString ->
                          In (f_name y) (flat_map (fun f => if is_empty (f_name f) then [] else [f_name f]) fs)).
  { intros y Iy Ny. apply in_flat_map. exists y. split; [exact Iy|].
    destruct (is_empty (f_name y)) eqn:Q; [apply is_empty_true in Q; contradiction|left; reflexivity]. }
  destruct (is_empty (f_name x)) eqn:Ex.
  - apply is_empty_true in Ex. cbn [app] in ND.
    destruct Ia as [<-|Ia]; [contradiction|]. destruct Ib as [<-|Ib]; [congruence|].
    apply IH; auto.
  - cbn [app nodupb] in ND. apply andb_true_iff in ND. destruct ND as [NM ND].
    apply negb_true_iff in NM. apply memb_false in NM.
    destruct Ia as [<-|Ia]; destruct Ib as [<-|Ib]; auto.
    + exfalso. apply NM. rewrite E. apply Hin; [exact Ib|congruence].
    + exfalso. apply NM. rewrite <- E. apply Hin; [exact Ia|exact NE].
Qed.

Section State.
  Variable u : universe.
  Variable bh : behaviour.
  Variable F : list fdecl.
  Variable vals0 : amap vkey value.

  Definition val_ok (k : vkey) (x : value) : Prop :=
    match key_ty k with Some t => assignable u (v_ty x) t = true | None => True end.

  Definition res_typed (f : fdecl) (r : result) : Prop :=
    r_builderr r = false /\ map v_ty (r_fields r) = map f_ty (fn_out f) /\
    (forall e, r_err r = Some e -> exists fid n, bh fid n = BErr e).

  Record Inv (s : rstate) : Prop := {
    inv_typed : forall k x, lookup k (s_vals s) = Some x -> val_ok k x;
    inv_inputs : forall k, mem k vals0 = true -> lookup k (s_vals s) <> None;
    inv_world : forall fid r, lookup fid (s_world s) = Some r ->
                  forall f, In f F -> fn_id f = fid -> res_typed f r
  }.

  Lemma Inv_ext s s' : s_vals s' = s_vals s -> s_world s' = s_world s -> Inv s -> Inv s'.
  Proof.
    intros Ev Ew [A B C]. constructor.
    - intros k x. rewrite Ev. apply A.
    - intros k. rewrite Ev. apply B.
    - intros fid r. rewrite Ew. apply C.
  Qed.

  Lemma Inv_set_val s k x : Inv s -> val_ok k x -> Inv (set_val s k (Some x)).
  Proof.
    intros [A B C] V. constructor; cbn [set_val set_vals s_vals s_world].
    - intros k' x'. rewrite lookup_insert. destruct (Base.eqb_spec k' k) as [->|N].
      + intros Q; inversion Q; subst. exact V.
      + apply A.
    - intros k' M. rewrite lookup_insert. destruct (Base.eqb k' k); [discriminate|]. apply B. exact M.
    - exact C.
  Qed.

  Lemma set_val_lookup s k x k' :
    lookup k' (s_vals (set_val s k (Some x))) = if Base.eqb k' k then Some x else lookup k' (s_vals s).
  Proof. cbn [set_val set_vals s_vals]. apply lookup_insert. Qed.

  (* ---------- call_direct ---------- *)
  Hypothesis SAMESIG : forall f1 f2, In f1 F -> In f2 F -> fn_type f1 = fn_type f2 ->
      sig_of (fn_in f1) = sig_of (fn_in f2) /\ sig_of (fn_out f1) = sig_of (fn_out f2).
  Hypothesis SAMEID : forall f1 f2, In f1 F -> In f2 F -> fn_id f1 = fn_id f2 -> fn_type f1 = fn_type f2.

  Definition am_ok (f : fdecl) (am : argmap) : Prop :=
    forall fld, In fld (fn_in f) ->
      exists x, lookup (field_key fld) am = Some x /\ assignable u (v_ty x) (f_ty fld) = true.

  Lemma fresh_outs_ty f n : map v_ty (fresh_outs f n) = map f_ty (fn_out f).
  Proof.
    unfold fresh_outs. rewrite map_map. cbn [v_ty].
    generalize 0%nat. induction (fn_out f) as [|a l IH]; intros k; [reflexivity|].
    cbn [Datatypes.length seq combine map snd]. rewrite IH. reflexivity.
  Qed.
  Lemma zero_outs_ty f : map v_ty (zero_outs f) = map f_ty (fn_out f).
  Proof. unfold zero_outs. rewrite map_map. reflexivity. Qed.

  Lemma same_id_out f f' : In f F -> In f' F -> fn_id f' = fn_id f -> map f_ty (fn_out f') = map f_ty (fn_out f).
  Proof.
    intros I I' E. apply sig_of_map_ty. apply SAMESIG; auto.
  Qed.

  Lemma call_direct_ok f am s :
    In f F -> Inv s -> am_ok f am ->
    exists res s', call_direct u bh false f am s = Ok (res, s') /\ res_typed f res /\
      Inv s' /\ s_vals s' = s_vals s /\ s_last s' = s_last s /\ s_inprog s' = s_inprog s /\
      s_tape s' = s_tape s /\ s_inputs s' = s_inputs s.
  Proof.
    intros If I AM. unfold call_direct.
    destruct (if fn_once f then lookup (fn_id f) (s_world s) else None) as [r|] eqn:C.
    - exists r, s. split; [reflexivity|]. split.
      { destruct (fn_once f); [|discriminate]. apply (inv_world I C); auto. }
      split; [exact I|]. repeat split; reflexivity.
    - set (args := map (fun fld => (fld, lookup (field_key fld) am)) (fn_in f)).
      assert (E1 : existsb (fun a : field * option value =>
                      match snd a with Some v => negb (assignable u (v_ty v) (f_ty (fst a))) | None => false end) args = false).
      { apply not_true_is_false. intros E. apply existsb_exists in E. destruct E as ([fld o] & Ia & Q).
        unfold args in Ia. apply in_map_iff in Ia. destruct Ia as (fld' & E' & I'). inversion E'; subst.
        destruct (AM _ I') as (x & Lx & Ax). cbn [snd fst] in Q. rewrite Lx in Q. rewrite Ax in Q. discriminate. }
      assert (E2 : existsb (fun a : field * option value => match snd a with None => true | Some _ => false end) args = false).
      { apply not_true_is_false. intros E. apply existsb_exists in E. destruct E as ([fld o] & Ia & Q).
        unfold args in Ia. apply in_map_iff in Ia. destruct Ia as (fld' & E' & I'). inversion E'; subst.
        destruct (AM _ I') as (x & Lx & Ax). cbn [snd] in Q. rewrite Lx in Q. discriminate. }
      rewrite E1, E2.
      set (n := s_nexec s + 1).
      destruct (bh (fn_id f) n) as [|e|] eqn:B.
      + eexists _, _. split; [reflexivity|]. cbn [s_vals s_last s_inprog s_tape s_inputs].
        assert (RT : res_typed f (mkR (fresh_outs f n) (if fn_err f then None else None) false)).
        { split; [reflexivity|]. split; [apply fresh_outs_ty|]. intros e. cbn [r_err]. destruct (fn_err f); discriminate. }
        split; [exact RT|]. split; [|repeat split; reflexivity].
        destruct I as [A Bi Cw]. constructor; cbn [s_vals s_world]; auto.
        intros fid r. destruct (fn_once f); [|apply Cw].
        rewrite lookup_insert. destruct (Base.eqb_spec fid (fn_id f)) as [->|N]; [|apply Cw].
        intros Q f' I' E'. inversion Q; subst r. destruct RT as (R1 & R2 & R3).
        split; [exact R1|]. split; [|exact R3]. rewrite R2. symmetry. apply same_id_out; auto.
      + eexists _, _. split; [reflexivity|]. cbn [s_vals s_last s_inprog s_tape s_inputs].
        assert (RT : res_typed f (mkR (zero_outs f) (if fn_err f then Some e else None) false)).
        { split; [reflexivity|]. split; [apply zero_outs_ty|]. intros e'. cbn [r_err]. destruct (fn_err f); [|discriminate].
          intros Q; inversion Q; subst. eauto. }
        split; [exact RT|]. split; [|repeat split; reflexivity].
        destruct I as [A Bi Cw]. constructor; cbn [s_vals s_world]; auto.
        intros fid r. destruct (fn_once f); [|apply Cw].
        rewrite lookup_insert. destruct (Base.eqb_spec fid (fn_id f)) as [->|N]; [|apply Cw].
        intros Q f' I' E'. inversion Q; subst r. destruct RT as (R1 & R2 & R3).
        split; [exact R1|]. split; [|exact R3]. rewrite R2. symmetry. apply same_id_out; auto.
      + eexists _, _. split; [reflexivity|]. cbn [s_vals s_last s_inprog s_tape s_inputs].
        assert (RT : res_typed f (mkR (zero_outs f) (if fn_err f then None else None) false)).
        { split; [reflexivity|]. split; [apply zero_outs_ty|]. intros e'. cbn [r_err]. destruct (fn_err f); discriminate. }
        split; [exact RT|]. split; [|repeat split; reflexivity].
        destruct I as [A Bi Cw]. constructor; cbn [s_vals s_world]; auto.
        intros fid r. destruct (fn_once f); [|apply Cw].
        rewrite lookup_insert. destruct (Base.eqb_spec fid (fn_id f)) as [->|N]; [|apply Cw].
        intros Q f' I' E'. inversion Q; subst r. destruct RT as (R1 & R2 & R3).
        split; [exact R1|]. split; [|exact R3]. rewrite R2. symmetry. apply same_id_out; auto.
  Qed.

  (* ---------- output_values ---------- *)
  Hypothesis WFFN : forall f, In f F -> wf_fn f = true.

  (* k is an output key of f *)
  Definition out_key_of (f : fdecl) (k : vkey) : Prop := exists fld, In fld (fn_out f) /\ k = field_out_key fld.

  Lemma wf_fn_out_names f : In f F ->
    nodupb (flat_map (fun f => if is_empty (f_name f) then [] else [f_name f]) (fn_out f)) = true.
  Proof.
    intros I. specialize (WFFN _ I). unfold wf_fn in WFFN.
    apply andb_true_iff in WFFN. destruct WFFN as [W _].
    apply andb_true_iff in W. destruct W as [_ W]. unfold wf_fields in W.
    apply andb_true_iff in W. destruct W as [W _]. exact W.
  Qed.

  Lemma output_value_one f r k s :
    In f F -> res_typed f r -> out_key_of f k -> Inv s ->
    exists x, (match k with
               | KVal n _ _ => match last_named n (fn_out f) 0 None with
                               | Some (i, _) => Ok (set_val s k (nth_error (r_fields r) i))
                               | None => Panic 401%N end
               | KOut t _ => match last_typed t (fn_out f) 0 None with
                             | Some (i, _) => Ok (set_val s k (nth_error (r_fields r) i))
                             | None => Panic 402%N end
               | _ => Ok s end) = Ok (set_val s k (Some x)) /\ val_ok k x.
  Proof.
    intros If (R1 & R2 & R3) (fld & Ifld & Ek) I.
    assert (NTH : forall i fl, nth_error (fn_out f) i = Some fl ->
                   exists x, nth_error (r_fields r) i = Some x /\ v_ty x = f_ty fl).
    { intros i fl Q. assert (Q' : nth_error (map f_ty (fn_out f)) i = Some (f_ty fl)) by (rewrite nth_error_map, Q; reflexivity).
      rewrite <- R2, nth_error_map in Q'. destruct (nth_error (r_fields r) i) as [x|]; [|discriminate].
      exists x. split; [reflexivity|]. inversion Q'. reflexivity. }
    unfold field_out_key in Ek. destruct (String.eqb (f_name fld) "") eqn:En.
    - (* typed output *)
      subst k. pose proof (last_typed_spec (f_ty fld) (fn_out f) 0 None) as L.
      destruct (last_typed (f_ty fld) (fn_out f) 0 None) as [[j fl]|].
      + destruct L as [[E _]|(_ & Nth & M)]; [discriminate|].
        rewrite Nat.sub_0_r in Nth. destruct (NTH _ _ Nth) as (x & Qx & Tx).
        exists x. rewrite Qx. split; [reflexivity|].
        unfold val_ok. cbn [key_ty]. unfold tmatch in M. apply andb_true_iff in M. destruct M as [_ M].
        apply Z.eqb_eq in M. rewrite Tx, M. apply assignable_refl.
      + destruct L as [_ NM]. specialize (NM _ Ifld). unfold tmatch in NM. rewrite En, Z.eqb_refl in NM. discriminate.
    - (* named output *)
      subst k. pose proof (last_named_spec (f_name fld) (fn_out f) 0 None) as L.
      destruct (last_named (f_name fld) (fn_out f) 0 None) as [[j fl]|].
      + destruct L as [[E _]|(_ & Nth & M)]; [discriminate|].
        rewrite Nat.sub_0_r in Nth. destruct (NTH _ _ Nth) as (x & Qx & Tx).
        exists x. rewrite Qx. split; [reflexivity|].
        unfold val_ok. cbn [key_ty]. unfold nmatch in M. apply andb_true_iff in M. destruct M as [M1 M2].
        apply String.eqb_eq in M2.
        assert (Efl : fl = fld).
        { apply (@nodup_names_unique (fn_out f) (@wf_fn_out_names f If)); auto.
          - eapply nth_error_In; eauto.
          - intros Q. rewrite Q in M1. discriminate. }
        subst fl. rewrite Tx. apply assignable_refl.
      + destruct L as [_ NM]. specialize (NM _ Ifld). unfold nmatch in NM. rewrite En in NM.
        rewrite String.eqb_refl in NM. discriminate.
  Qed.

  Lemma output_values_ok f r : In f F -> res_typed f r ->
    forall ins s, (forall k, In k ins -> out_key_of f k) -> Inv s ->
    exists s', output_values f r ins s = Ok s' /\ Inv s' /\
      (forall k, In k ins -> lookup k (s_vals s') <> None) /\
      (forall k, lookup k (s_vals s) <> None -> lookup k (s_vals s') <> None) /\
      s_last s' = s_last s /\ s_inprog s' = s_inprog s /\ s_tape s' = s_tape s /\
      s_world s' = s_world s.
  Proof.
    intros If RT ins. unfold output_values.
    induction ins as [|k ins IH] using rev_ind; intros s OK I.
    - exists s. cbn [fold_left]. split; [reflexivity|]. split; [exact I|]. repeat split; auto.
    - rewrite fold_left_app. cbn [fold_left].
      destruct (IH s) as (s1 & Q1 & I1 & V1 & G1 & L1 & P1 & T1 & W1).
      { intros k' Ik'. apply OK. apply in_or_app; left; exact Ik'. }
      { exact I. }
      rewrite Q1. cbn [bind].
      assert (OKk : out_key_of f k) by (apply OK; apply in_or_app; right; left; reflexivity).
      destruct (@output_value_one f r k s1 If RT OKk I1) as (x & Qx & Vx).
      exists (set_val s1 k (Some x)). split; [exact Qx|].
      split; [apply Inv_set_val; assumption|].
      split; [|split; [|repeat split; assumption]].
      + intros k' Ik'. rewrite set_val_lookup. destruct (Base.eqb k' k) eqn:E; [discriminate|].
        apply in_app_or in Ik'. destruct Ik' as [Ik'|[<-|[]]]; [apply V1; exact Ik'|].
        rewrite Base.eqb_refl in E. discriminate.
      + intros k' N. rewrite set_val_lookup. destruct (Base.eqb k' k); [discriminate|]. apply G1. exact N.
  Qed.
End State.

(* C07AffinityGraph.v -- exact characterisation (vertices, edges, payloads) of
   the call graph of the name-affinity families F1 / F2, of its pruning and of
   the matching-name discount.  Helper of C07Affinity.v *)
From ArgMapper Require Import Base Graph GraphAlg GraphSpec Types Args Resolver ResolverSpec GenWeights.
From ArgMapper.proofs Require Import C18DijkstraLemmas C19RefineMap C19RefineGraph C0213UnsatGraph
     C0213UnsatClosure C0213UnsatBuild C0213UnsatPrune C18Dijkstra C06TotalDijkstra
     C07AffinityOps C07AffinityDiscount C07AffinityDijkstra C0213UnsatPlan C0213UnsatReach.
From Coq Require Import List Lia ZArith String.
Import ListNotations.
Set Implicit Arguments.
Local Open Scope Z_scope.

(* ---------- small generic facts ---------- *)
Lemma present_iff ops g k :
  wf_graph g -> (present (app_ops ops g) k = true <-> present g k = true \/ In k (verts ops)).
Proof.
  intros W. destruct (app_ops_spec ops W) as (_ & Hv & _). rewrite Hv, orb_true_iff, membT. reflexivity.
Qed.

Lemma in_verts_app k o1 o2 : In k (verts (o1 ++ o2)) <-> In k (verts o1) \/ In k (verts o2).
Proof. rewrite verts_app. apply in_app_iff. Qed.

Lemma in_verts_flat_map {A} k (h : A -> list op) l :
  In k (verts (flat_map h l)) <-> exists x, In x l /\ In k (verts (h x)).
Proof.
  unfold verts. rewrite in_flat_map. split.
  - intros (o & Io & Ik). apply in_flat_map in Io. destruct Io as (x & Ix & Io).
    exists x. split; [exact Ix|]. apply in_flat_map. eauto.
  - intros (x & Ix & Ik). apply in_flat_map in Ik. destruct Ik as (o & Io & Ik).
    exists o. split; [|exact Ik]. apply in_flat_map. eauto.
Qed.

Lemma nodup_singleton {A} (l : list A) (a : A) :
  NoDup l -> (forall x, In x l <-> x = a) -> l = [a].
Proof.
  intros ND H. destruct l as [|x l].
  - exfalso. apply (proj2 (H a) eq_refl).
  - assert (x = a) by (apply H; left; reflexivity). subst x.
    destruct l as [|y l]; [reflexivity|].
    assert (y = a) by (apply H; right; left; reflexivity). subst y.
    inversion ND as [|? ? NI _]. exfalso. apply NI. left. reflexivity.
Qed.

Lemma filter_none {A} (p : A -> bool) (l : list A) : (forall x, In x l -> p x = false) -> filter p l = [].
Proof.
  induction l as [|x l IH]; intros H; simpl; [reflexivity|].
  rewrite (H x (or_introl eq_refl)). apply IH. intros y I. apply H. right. exact I.
Qed.

Lemma g_root_wf : wf_graph g_root.
Proof. apply (gi_wf (g_root_inv [])). Qed.
Lemma g_root_present k : present g_root k = true <-> k = KRoot.
Proof.
  unfold g_root. destruct (add_spec KRoot PNone (@wf_empty vkey _ vpay)) as (_ & Hv & _).
  unfold present. rewrite Hv. destruct k; cbn; split; try congruence; try discriminate; auto.
Qed.
Lemma g_root_noedge a b : ew g_root a b = None.
Proof.
  unfold g_root. destruct (add_spec KRoot PNone (@wf_empty vkey _ vpay)) as (_ & _ & He).
  rewrite He. unfold ew. cbn. reflexivity.
Qed.

(* ---------- where a payload comes from ---------- *)
Lemma vtx_sound ops : forall g k p,
  wf_graph g -> vtx (app_ops ops g) k = Some p ->
  vtx g k = Some p \/ In (OF k p) ops \/ (p = PNone /\ (In (OV k) ops \/ In (OW k) ops)).
Proof.
  induction ops as [|o r IH]; intros g k p W Q; [left; exact Q|].
  change (app_ops (o :: r) g) with (app_ops r (app_op g o)) in Q.
  destruct (app_op_spec o W) as (W1 & _ & _).
  destruct (IH _ _ _ W1 Q) as [Q1|[Q1|(-> & [Q1|Q1])]].
  - destruct o as [k0|k0 p0|k0|a0 b0 w0]; simpl in Q1.
    + destruct (add_v_spec k0 W) as (_ & Hv & _). rewrite Hv in Q1.
      destruct (present g k0); [left; exact Q1|].
      destruct (Base.eqb_spec k k0) as [->|N]; [|left; exact Q1].
      inversion Q1; subst. right. right. split; [reflexivity|]. left. left. reflexivity.
    + destruct (add_spec k0 p0 W) as (_ & Hv & _). rewrite Hv in Q1.
      destruct (vtx g k0); [left; exact Q1|].
      destruct (Base.eqb_spec k k0) as [->|N]; [|left; exact Q1].
      inversion Q1; subst. right. left. left. reflexivity.
    + destruct (overwrite_spec k0 PNone W) as (_ & Hv & _). rewrite Hv in Q1.
      destruct (Base.eqb_spec k k0) as [->|N]; [|left; exact Q1].
      inversion Q1; subst. right. right. split; [reflexivity|]. right. left. reflexivity.
    + destruct (add_e_spec a0 b0 w0 W) as (_ & Hv & _). rewrite Hv in Q1. left. exact Q1.
  - right. left. right. exact Q1.
  - right. right. split; [reflexivity|]. left. right. exact Q1.
  - right. right. split; [reflexivity|]. right. right. exact Q1.
Qed.

Lemma fops_OF c io k p : In (OF k p) (fops c io) -> k = KFunc (fn_type c) /\ p = PFunc c.
Proof.
  unfold fops. rewrite !in_app_iff. intros [H|[H|[H|H]]].
  - destruct H as [H|[]]. inversion H. auto.
  - destruct (fn_in c); [destruct H as [H|[]]; discriminate|destruct H].
  - apply in_flat_map in H. destruct H as (x & _ & [H|[H|[]]]); discriminate.
  - destruct io; [|destruct H]. apply in_app_iff in H.
    destruct H as [H|H]; apply in_flat_map in H; destruct H as (x & _ & [H|[H|[]]]); discriminate.
Qed.
Lemma fops_nf c io k : In (OV k) (fops c io) \/ In (OW k) (fops c io) -> is_func k = false.
Proof.
  unfold fops. rewrite !in_app_iff. intros [[H|[H|[H|H]]]|[H|[H|[H|H]]]].
  - destruct H as [H|[]]. discriminate.
  - destruct (fn_in c); [destruct H as [H|[]]; discriminate|destruct H].
  - apply in_flat_map in H. destruct H as (x & _ & [H|[H|[]]]); try discriminate.
    inversion H. apply field_key_nf.
  - destruct io; [|destruct H]. apply in_app_iff in H.
    destruct H as [H|H]; apply in_flat_map in H; destruct H as (x & _ & [H|[H|[]]]); try discriminate;
      inversion H; apply field_out_key_nf.
  - destruct H as [H|[]]. discriminate.
  - destruct (fn_in c); [destruct H as [H|[]]; discriminate|destruct H].
  - apply in_flat_map in H. destruct H as (x & _ & [H|[H|[]]]); discriminate.
  - destruct io; [|destruct H]. apply in_app_iff in H.
    destruct H as [H|H]; apply in_flat_map in H; destruct H as (x & _ & [H|[H|[]]]); discriminate.
Qed.
Lemma val_ops_OF l k p : In (OF k p) (flat_map val_ops l) -> False.
Proof.
  intros H. apply in_flat_map in H. destruct H as (x & _ & H).
  destruct x as [|ft|n t s|t s|t s]; [destruct H|destruct H| |destruct H|destruct H].
  cbn in H. destruct (String.eqb s EmptyString); cbn in H; intuition discriminate.
Qed.
Lemma val_ops_nf l k : In (OV k) (flat_map val_ops l) \/ In (OW k) (flat_map val_ops l) -> is_func k = false.
Proof.
  intros [H|H]; apply in_flat_map in H; destruct H as (x & _ & H);
    (destruct x as [|ft|n t s|t s|t s]; [destruct H|destruct H| |destruct H|destruct H]); cbn in H;
    destruct (String.eqb s EmptyString); cbn in H;
    repeat (destruct H as [H|H]; [try discriminate; inversion H; reflexivity|]); destruct H.
Qed.
Lemma arg_ops_OF l k p : In (OF k p) (flat_map arg_ops l) -> False.
Proof.
  intros H. apply in_flat_map in H. destruct H as (x & _ & H).
  destruct x as [|ft|n t s|t s|t s]; [destruct H|destruct H|destruct H| |destruct H].
  cbn in H. intuition discriminate.
Qed.
Lemma arg_ops_nf l k : In (OV k) (flat_map arg_ops l) \/ In (OW k) (flat_map arg_ops l) -> is_func k = false.
Proof.
  intros [H|H]; apply in_flat_map in H; destruct H as (x & _ & H);
    (destruct x as [|ft|n t s|t s|t s]; [destruct H|destruct H|destruct H| |destruct H]); cbn in H;
    repeat (destruct H as [H|H]; [try discriminate; inversion H; reflexivity|]); destruct H.
Qed.
Lemma ins_ops_OF l k p : In (OF k p) (ins_ops l) -> False.
Proof.
  unfold ins_ops. intros H. apply in_flat_map in H. destruct H as (x & _ & [H|[H|[]]]); discriminate.
Qed.
Lemma ins_ops_nf l k : (forall kv, In kv l -> is_func (fst kv) = false) ->
  In (OV k) (ins_ops l) \/ In (OW k) (ins_ops l) -> is_func k = false.
Proof.
  unfold ins_ops. intros Hl [H|H]; apply in_flat_map in H; destruct H as (x & Ix & [H|[H|[]]]); try discriminate.
  inversion H; subst. apply Hl. exact Ix.
Qed.

(* ---------- tapes and maps ---------- *)
Lemma take_perm_single (site : N) (x : vkey) (t t' : tape vkey) ks :
  take_perm site [x] t = Ok (ks, t') -> ks = [x].
Proof.
  unfold take_perm. destruct (take_site site t) as [[ks0 t0]|]; [|discriminate].
  destruct (permb ks0 [x]) eqn:Pm; [|discriminate]. intros Q. inversion Q; subst ks0 t0. clear Q.
  destruct ks as [|y r]; [discriminate Pm|]. cbn [permb memb] in Pm.
  destruct (Base.eqb_spec y x) as [->|Ne]; [|discriminate Pm]. cbn [orb andb remove1] in Pm.
  rewrite Base.eqb_refl in Pm. destruct r; [reflexivity|discriminate Pm].
Qed.

Lemma lookup_fold_insert (l : list (vkey * value)) : forall (m0 : amap vkey value) k,
  NoDup (map fst l) ->
  lookup k (fold_left (fun m kv => insert (fst kv) (snd kv) m) l m0) =
  match lookup k l with Some v => Some v | None => lookup k m0 end.
Proof.
  induction l as [|[k0 v0] l IH]; intros m0 k ND; cbn [fold_left]; [reflexivity|].
  cbn [map fst] in ND. inversion ND as [|? ? NI ND']; subst.
  rewrite (IH _ _ ND'). cbn [lookup fst snd]. rewrite lookup_insert.
  destruct (Base.eqb_spec k k0) as [->|Ne]; [|reflexivity].
  assert (Q : lookup k0 l = None).
  { apply not_in_keys_lookup. exact NI. }
  rewrite Q. reflexivity.
Qed.

Lemma lookup_map_kval (T : ty) (l : list (string * value)) m :
  lookup (KVal m T EmptyString) (map (fun kv => (KVal (fst kv) T EmptyString, snd kv)) l) = lookup m l.
Proof.
  induction l as [|[m0 v0] l IH]; cbn [map lookup fst snd]; [reflexivity|].
  rewrite IH.
  assert (E : Base.eqb (KVal m T EmptyString) (KVal m0 T EmptyString) = Base.eqb m m0).
  { cbn. rewrite Z.eqb_refl, !andb_true_r. reflexivity. }
  rewrite E. reflexivity.
Qed.

Section Family.
  Variables (u : universe) (n : string) (T U : ty) (f : fdecl) (cs : list fdecl)
            (named : list (string * value)) (onm : string).
  Hypothesis HTU : T <> U.
  Hypothesis HnE : String.eqb n EmptyString = false.
  Hypothesis Hf : fn_in f = [mkF n U EmptyString].
  Hypothesis Hon : onm = EmptyString \/ onm = n.
  Hypothesis Hcs : forall c, In c cs ->
      (fn_in c = [mkF EmptyString T EmptyString] \/ fn_in c = [mkF n T EmptyString]) /\
      fn_out c = [mkF onm U EmptyString] /\ fn_type c <> fn_type f.
  Hypothesis Hcnd : NoDup (map fn_type cs).
  Hypothesis Hnm : forall m v, In (m, v) named -> String.eqb m EmptyString = false /\ v_ty v = T.
  Hypothesis HnIn : In n (map fst named).
  Hypothesis HiT : is_iface u T = false.
  Hypothesis HiU : is_iface u U = false.

  Definition NU := KVal n U EmptyString.
  Definition AT := KArg T EmptyString.
  Definition OT := KOut T EmptyString.
  Definition AU := KArg U EmptyString.
  Definition OU := KOut U EmptyString.
  Definition NT := KVal n T EmptyString.
  Definition OO := if String.eqb onm EmptyString then OU else NU.
  Definition wo := if String.eqb onm EmptyString then w_typed else w_normal.
  Definition inkey (c : fdecl) : vkey := match fn_in c with fi :: _ => field_key fi | [] => KRoot end.
  Definition inw (c : fdecl) : Z :=
    match fn_in c with fi :: _ => if String.eqb (f_name fi) EmptyString then w_typed else w_normal | [] => 0 end.
  Definition ins : list (vkey * value) := map (fun kv => (KVal (fst kv) T EmptyString, snd kv)) named.
  Definition fk := KFunc (fn_type f).

  Lemma inkey_cases c : In c cs -> (inkey c = AT /\ inw c = w_typed) \/ (inkey c = NT /\ inw c = w_normal).
  Proof.
    intros I. destruct (Hcs c I) as ([Q|Q] & _ & _); unfold inkey, inw; rewrite Q; cbn.
    - left. split; reflexivity.
    - right. unfold field_key. cbn. rewrite HnE. split; reflexivity.
  Qed.

  Lemma fops_target : fops f false = [OF fk (PFunc f); OV NU; OE fk NU w_normal].
  Proof.
    unfold fops. rewrite Hf. cbn. unfold field_key. cbn. rewrite HnE. reflexivity.
  Qed.

  Lemma fops_conv c : In c cs ->
    fops c true = [OF (KFunc (fn_type c)) (PFunc c); OV (inkey c); OE (KFunc (fn_type c)) (inkey c) (inw c);
                   OV OO; OE OO (KFunc (fn_type c)) wo].
  Proof.
    intros I. destruct (Hcs c I) as (Hin & Hout & _).
    unfold fops, inkey, inw, OO, wo. rewrite Hout.
    assert (E : exists fi, fn_in c = [fi]) by (destruct Hin as [Q|Q]; rewrite Q; eauto).
    destruct E as (fi & E). rewrite E.
    unfold named_entries, typed_entries. cbn.
    destruct Hon as [->| ->].
    - cbn. rewrite Z.eqb_refl. cbn. reflexivity.
    - rewrite !HnE. cbn. rewrite ?HnE, String.eqb_refl. cbn.
      unfold field_out_key. cbn. rewrite ?HnE. reflexivity.
  Qed.

  (* ---------- the operation lists ---------- *)
  Definition L123 : list op := fops f false ++ ins_ops ins ++ flat_map (fun c => fops c true) cs.
  Definition g3 : rgraph := app_ops L123 g_root.
  Definition L4 : list op := flat_map val_ops (val_keys g3).
  Definition g5 : rgraph := app_ops L4 g3.
  Definition L5 : list op := flat_map arg_ops (arg_keys g5).
  Definition GG : rgraph := app_ops L5 g5.

  Lemma named_n : exists vn, In (n, vn) named.
  Proof.
    apply in_map_iff in HnIn. destruct HnIn as ([m v] & E & I). simpl in E. subst m. eauto.
  Qed.

  Lemma in_L123_OE a b w :
    In (OE a b w) L123 <->
    (a = fk /\ b = NU /\ w = w_normal) \/
    (exists m v, In (m, v) named /\ a = KVal m T EmptyString /\ b = KRoot /\ w = w_normal) \/
    (exists c, In c cs /\ ((a = KFunc (fn_type c) /\ b = inkey c /\ w = inw c) \/
                           (a = OO /\ b = KFunc (fn_type c) /\ w = wo))).
  Proof.
    unfold L123. rewrite fops_target, !in_app_iff. unfold ins_ops. rewrite !in_flat_map. split.
    - intros [H|[H|H]].
      + simpl in H. destruct H as [H|[H|[H|[]]]]; try discriminate. inversion H. left. auto.
      + destruct H as (kv & Ikv & H). unfold ins in Ikv. apply in_map_iff in Ikv.
        destruct Ikv as ([m v] & <- & Inv). simpl in H. destruct H as [H|[H|[]]]; try discriminate.
        inversion H. right. left. exists m, v. auto.
      + destruct H as (c & Ic & H). rewrite (fops_conv c Ic) in H. simpl in H.
        destruct H as [H|[H|[H|[H|[H|[]]]]]]; try discriminate; inversion H; right; right; exists c; auto.
    - intros [(-> & -> & ->)|[(m & v & I & -> & -> & ->)|(c & Ic & [(-> & -> & ->)|(-> & -> & ->)])]].
      + left. simpl. auto.
      + right. left. exists (KVal m T EmptyString, v). split; [|simpl; auto].
        unfold ins. apply in_map_iff. exists (m, v). auto.
      + right. right. exists c. split; [exact Ic|]. rewrite (fops_conv c Ic). simpl. auto.
      + right. right. exists c. split; [exact Ic|]. rewrite (fops_conv c Ic). simpl. auto 6.
  Qed.

  Lemma in_L123_verts k :
    In k (verts L123) <->
    k = fk \/ k = NU \/ (exists m v, In (m, v) named /\ k = KVal m T EmptyString) \/
    (exists c, In c cs /\ (k = KFunc (fn_type c) \/ k = inkey c \/ k = OO)).
  Proof.
    unfold L123. rewrite fops_target, !in_verts_app. unfold ins_ops. rewrite !in_verts_flat_map. split.
    - intros [H|[H|H]].
      + simpl in H. destruct H as [H|[H|[]]]; auto.
      + destruct H as (kv & Ikv & H). unfold ins in Ikv. apply in_map_iff in Ikv.
        destruct Ikv as ([m v] & <- & Inv). simpl in H. destruct H as [H|[]].
        right. right. left. exists m, v. auto.
      + destruct H as (c & Ic & H). rewrite (fops_conv c Ic) in H. simpl in H.
        destruct H as [H|[H|[H|[]]]]; right; right; right; exists c; auto.
    - intros [->|[->|[(m & v & I & ->)|(c & Ic & H)]]].
      + left. simpl. auto.
      + left. simpl. auto.
      + right. left. exists (KVal m T EmptyString, v). split; [|simpl; auto].
        unfold ins. apply in_map_iff. exists (m, v). auto.
      + right. right. exists c. split; [exact Ic|]. rewrite (fops_conv c Ic). simpl.
        destruct H as [->|[->| ->]]; auto.
  Qed.

  Lemma g3_wf : wf_graph g3.
  Proof. apply (app_ops_spec L123 g_root_wf). Qed.

  Lemma g3_present k : present g3 k = true <-> k = KRoot \/ In k (verts L123).
  Proof. unfold g3. rewrite (present_iff L123 k g_root_wf), g_root_present. reflexivity. Qed.

  Lemma OO_cases : (onm = EmptyString /\ OO = OU /\ wo = w_typed) \/ (onm = n /\ OO = NU /\ wo = w_normal).
  Proof.
    unfold OO, wo. destruct Hon as [->| ->]; [left; auto|right]. rewrite HnE. auto.
  Qed.

  Lemma g3_val m t s :
    present g3 (KVal m t s) = true <->
    KVal m t s = NU \/ (exists v, In (m, v) named /\ t = T /\ s = EmptyString).
  Proof.
    rewrite g3_present, in_L123_verts. split.
    - intros [H|[H|[H|[(m0 & v & I & H)|(c & Ic & [H|[H|H]])]]]]; try discriminate.
      + left. exact H.
      + inversion H; subst. right. eauto.
      + destruct (inkey_cases c Ic) as [[Q _]|[Q _]]; rewrite Q in H; [discriminate|].
        inversion H; subst. destruct named_n as (vn & In'). right. eauto.
      + destruct OO_cases as [(_ & Q & _)|(_ & Q & _)]; rewrite Q in H; [discriminate|]. left. exact H.
    - intros [H|(v & I & -> & ->)].
      + right. right. left. exact H.
      + right. right. right. left. eauto.
  Qed.

  Lemma in_L4_OE a b w :
    In (OE a b w) L4 <->
    (a = NU /\ b = OU /\ w = w_typed) \/ (a = AU /\ b = NU /\ w = w_typed) \/
    (exists m v, In (m, v) named /\ w = w_typed /\
                 ((a = KVal m T EmptyString /\ b = OT) \/ (a = AT /\ b = KVal m T EmptyString))).
  Proof.
    unfold L4. rewrite in_flat_map. split.
    - intros (k & Ik & H). apply in_val_keys in Ik. destruct Ik as [(m & t & s & ->) P].
      apply g3_val in P. destruct P as [P|(v & I & -> & ->)].
      + inversion P; subst. cbn in H. destruct H as [H|[H|[H|[H|[]]]]]; try discriminate; inversion H; auto.
      + cbn in H. destruct H as [H|[H|[H|[H|[]]]]]; try discriminate; inversion H;
          right; right; exists m, v; auto.
    - intros [(-> & -> & ->)|[(-> & -> & ->)|(m & v & I & -> & [(-> & ->)|(-> & ->)])]].
      + exists NU. split; [|cbn; auto]. apply in_val_keys. split; [unfold NU; eauto|]. apply g3_val. auto.
      + exists NU. split; [|cbn; auto 6]. apply in_val_keys. split; [unfold NU; eauto|]. apply g3_val. auto.
      + exists (KVal m T EmptyString). split; [|cbn; auto]. apply in_val_keys. split; [eauto|]. apply g3_val. eauto.
      + exists (KVal m T EmptyString). split; [|cbn; auto 6]. apply in_val_keys. split; [eauto|]. apply g3_val. eauto.
  Qed.

  Lemma in_L4_verts k : In k (verts L4) <-> k = OU \/ k = AU \/ k = OT \/ k = AT.
  Proof.
    unfold L4. rewrite in_verts_flat_map. split.
    - intros (x & Ix & H). apply in_val_keys in Ix. destruct Ix as [(m & t & s & ->) P].
      apply g3_val in P. destruct P as [P|(v & I & -> & ->)].
      + inversion P; subst. cbn in H. destruct H as [H|[H|[]]]; auto.
      + cbn in H. destruct H as [H|[H|[]]]; auto.
    - destruct named_n as (vn & In').
      assert (P1 : In NU (val_keys g3)).
      { apply in_val_keys. split; [unfold NU; eauto|]. apply g3_val. auto. }
      assert (P2 : In NT (val_keys g3)).
      { apply in_val_keys. split; [unfold NT; eauto|]. apply g3_val. eauto. }
      intros [->|[->|[->| ->]]].
      + exists NU. split; [exact P1|cbn; auto].
      + exists NU. split; [exact P1|cbn; auto].
      + exists NT. split; [exact P2|cbn; auto].
      + exists NT. split; [exact P2|cbn; auto].
  Qed.

  Lemma g5_wf : wf_graph g5.
  Proof. apply (app_ops_spec L4 g3_wf). Qed.

  Lemma g5_present k : present g5 k = true <-> k = KRoot \/ In k (verts L123) \/ In k (verts L4).
  Proof. unfold g5. rewrite (present_iff L4 k g3_wf), g3_present. tauto. Qed.

  Lemma g5_arg t s : present g5 (KArg t s) = true <-> KArg t s = AT \/ KArg t s = AU.
  Proof.
    rewrite g5_present, in_L123_verts, in_L4_verts. split.
    - intros [H|[[H|[H|[(m0 & v & I & H)|(c & Ic & [H|[H|H]])]]]|[H|[H|[H|H]]]]]; try discriminate; auto.
      + destruct (inkey_cases c Ic) as [[Q _]|[Q _]]; rewrite Q in H; [auto|discriminate].
      + destruct OO_cases as [(_ & Q & _)|(_ & Q & _)]; rewrite Q in H; discriminate.
    - intros [H|H]; right; right; auto.
  Qed.

  Lemma in_L5_OE a b w :
    In (OE a b w) L5 <-> w = w_typed /\ ((a = AT /\ b = OT) \/ (a = AU /\ b = OU)).
  Proof.
    unfold L5. rewrite in_flat_map. split.
    - intros (k & Ik & H). apply in_arg_keys in Ik. destruct Ik as [(t & s & ->) P].
      apply g5_arg in P. cbn in H. destruct H as [H|[H|[]]]; try discriminate. inversion H; subst.
      split; [reflexivity|]. destruct P as [P|P]; inversion P; subst; auto.
    - intros (-> & [(-> & ->)|(-> & ->)]).
      + exists AT. split; [|cbn; auto]. apply in_arg_keys. split; [unfold AT; eauto|]. apply g5_arg. auto.
      + exists AU. split; [|cbn; auto]. apply in_arg_keys. split; [unfold AU; eauto|]. apply g5_arg. auto.
  Qed.

  Lemma in_L5_verts k : In k (verts L5) <-> k = OT \/ k = OU.
  Proof.
    unfold L5. rewrite in_verts_flat_map. split.
    - intros (x & Ix & H). apply in_arg_keys in Ix. destruct Ix as [(t & s & ->) P].
      apply g5_arg in P. cbn in H. destruct H as [H|[]]. subst k.
      destruct P as [P|P]; inversion P; subst; auto.
    - intros [->| ->].
      + exists AT. split; [|cbn; auto]. apply in_arg_keys. split; [unfold AT; eauto|]. apply g5_arg. auto.
      + exists AU. split; [|cbn; auto]. apply in_arg_keys. split; [unfold AU; eauto|]. apply g5_arg. auto.
  Qed.

  Lemma GG_wf : wf_graph GG.
  Proof. apply (app_ops_spec L5 g5_wf). Qed.

  (* ---------- the full graph: vertices and edges ---------- *)
  Inductive fvert : vkey -> Prop :=
  | fv_root : fvert KRoot
  | fv_f : fvert fk
  | fv_nu : fvert NU
  | fv_in m v : In (m, v) named -> fvert (KVal m T EmptyString)
  | fv_c c : In c cs -> fvert (KFunc (fn_type c))
  | fv_at : fvert AT
  | fv_ot : fvert OT
  | fv_au : fvert AU
  | fv_ou : fvert OU.

  Inductive fedge : vkey -> vkey -> Z -> Prop :=
  | fe_target : fedge fk NU w_normal
  | fe_input m v : In (m, v) named -> fedge (KVal m T EmptyString) KRoot w_normal
  | fe_cin c : In c cs -> fedge (KFunc (fn_type c)) (inkey c) (inw c)
  | fe_cout c : In c cs -> fedge OO (KFunc (fn_type c)) wo
  | fe_nu_ou : fedge NU OU w_typed
  | fe_au_nu : fedge AU NU w_typed
  | fe_in_ot m v : In (m, v) named -> fedge (KVal m T EmptyString) OT w_typed
  | fe_at_in m v : In (m, v) named -> fedge AT (KVal m T EmptyString) w_typed
  | fe_at_ot : fedge AT OT w_typed
  | fe_au_ou : fedge AU OU w_typed.

  Definition Ltot : list op := L123 ++ L4 ++ L5.

  Lemma GG_eq : GG = app_ops Ltot g_root.
  Proof. unfold GG, g5, g3, Ltot. rewrite !app_ops_app. reflexivity. Qed.

  Lemma in_Ltot_OE a b w : In (OE a b w) Ltot <-> fedge a b w.
  Proof.
    unfold Ltot. rewrite !in_app_iff, in_L123_OE, in_L4_OE, in_L5_OE. split.
    - intros [[(-> & -> & ->)|[(m & v & I & -> & -> & ->)|(c & Ic & [(-> & -> & ->)|(-> & -> & ->)])]]|
              [[(-> & -> & ->)|[(-> & -> & ->)|(m & v & I & -> & [(-> & ->)|(-> & ->)])]]|
               (-> & [(-> & ->)|(-> & ->)])]].
      + constructor.
      + econstructor; eauto.
      + constructor; auto.
      + constructor; auto.
      + constructor.
      + constructor.
      + econstructor; eauto.
      + econstructor; eauto.
      + constructor.
      + constructor.
    - intros H. destruct H as [|m v I|c Ic|c Ic| | |m v I|m v I| |].
      + left. left. auto.
      + left. right. left. eauto 8.
      + left. right. right. exists c. auto.
      + left. right. right. exists c. auto 6.
      + right. left. left. auto.
      + right. left. right. left. auto.
      + right. left. right. right. exists m, v. auto.
      + right. left. right. right. exists m, v. auto 6.
      + right. right. auto.
      + right. right. auto.
  Qed.

  Lemma inkey_fvert c : In c cs -> fvert (inkey c).
  Proof.
    intros Ic. destruct (inkey_cases c Ic) as [[Q _]|[Q _]]; rewrite Q; [constructor|].
    destruct named_n as (vn & In'). unfold NT. econstructor; eauto.
  Qed.
  Lemma OO_fvert : fvert OO.
  Proof. destruct OO_cases as [(_ & Q & _)|(_ & Q & _)]; rewrite Q; constructor. Qed.

  Lemma GG_present k : present GG k = true <-> fvert k.
  Proof.
    unfold GG. rewrite (present_iff L5 k g5_wf), g5_present, in_L123_verts, in_L4_verts, in_L5_verts. split.
    - intros [[->|[[->|[->|[(m & v & I & ->)|(c & Ic & [->|[->| ->]])]]]|[->|[->|[->| ->]]]]]|[->| ->]];
        try (constructor; fail).
      + econstructor; eauto.
      + constructor; auto.
      + apply inkey_fvert; auto.
      + apply OO_fvert.
    - intros H. destruct H as [| | |m v I|c Ic| | | |].
      + left. left. reflexivity.
      + left. right. left. left. reflexivity.
      + left. right. left. right. left. reflexivity.
      + left. right. left. right. right. left. eauto.
      + left. right. left. right. right. right. exists c. auto.
      + left. right. right. auto.
      + left. right. right. auto.
      + left. right. right. auto.
      + left. right. right. auto.
  Qed.

  (* the weight is determined by the shape of the endpoints *)
  Definition wt (a b : vkey) : Z :=
    match a, b with
    | KFunc _, KVal _ _ _ => w_normal
    | KVal _ _ _, KRoot => w_normal
    | KVal _ _ _, KFunc _ => w_normal
    | _, _ => w_typed
    end.
  Lemma fedge_wt a b w : fedge a b w -> w = wt a b.
  Proof.
    intros H. destruct H as [|m v I|c Ic|c Ic| | |m v I|m v I| |]; try reflexivity.
    - destruct (inkey_cases c Ic) as [[Q R]|[Q R]]; rewrite Q, R; reflexivity.
    - destruct OO_cases as [(_ & Q & R)|(_ & Q & R)]; rewrite Q, R; reflexivity.
  Qed.

  Lemma Ltot_consistent : consistent Ltot.
  Proof.
    intros a b w w' I1 I2. apply in_Ltot_OE in I1. apply in_Ltot_OE in I2.
    rewrite (fedge_wt I1), (fedge_wt I2). reflexivity.
  Qed.

  Lemma Ltot_wseq : wseq (fun k => present g_root k = true) Ltot.
  Proof.
    assert (R : present g_root KRoot = true) by (apply g_root_present; reflexivity).
    unfold Ltot. apply wseq_app; [unfold L123; apply wseq_app; [|apply wseq_app]|apply wseq_app].
    - rewrite fops_target. simpl. auto 8.
    - unfold ins_ops. apply wseq_flat_map. intros kv Q Ikv PQ. simpl. split; [auto|]. split; [|exact I].
      left. apply PQ. left. exact R.
    - apply wseq_flat_map. intros c Q Ic PQ. rewrite (fops_conv c Ic). simpl. auto 12.
    - unfold L4. apply wseq_flat_map. intros k Q Ik PQ. apply in_val_keys in Ik.
      destruct Ik as [(m & t & s & ->) P].
      assert (Qk : Q (KVal m t s)).
      { apply PQ. apply g3_present in P. destruct P as [P|P]; [discriminate|]. right. exact P. }
      apply g3_val in P. assert (s = EmptyString) by (destruct P as [P|(v & _ & _ & P)]; [inversion P|]; auto).
      subst s. cbn. auto 12.
    - unfold L5. apply wseq_flat_map. intros k Q Ik PQ. apply in_arg_keys in Ik.
      destruct Ik as [(t & s & ->) P].
      assert (Qk : Q (KArg t s)).
      { apply PQ. apply g5_present in P. destruct P as [P|[P|P]]; [discriminate|left; right; exact P|right; exact P]. }
      cbn. auto 8.
  Qed.

  Lemma GG_edges a b w : ew GG a b = Some w <-> fedge a b w.
  Proof.
    rewrite GG_eq, <- in_Ltot_OE.
    apply app_ops_edges; [exact g_root_wf|exact g_root_noedge|exact Ltot_wseq|exact Ltot_consistent].
  Qed.

  (* ---------- payloads ---------- *)
  Lemma Ltot_OF k p : In (OF k p) Ltot ->
    (k = fk /\ p = PFunc f) \/ (exists c, In c cs /\ k = KFunc (fn_type c) /\ p = PFunc c).
  Proof.
    unfold Ltot, L123, L4, L5. rewrite !in_app_iff. intros [[H|[H|H]]|[H|H]].
    - left. eapply fops_OF; eauto.
    - exfalso; eapply ins_ops_OF; eauto.
    - apply in_flat_map in H. destruct H as (c & Ic & H). right. exists c. split; [exact Ic|].
      eapply fops_OF; eauto.
    - exfalso; eapply val_ops_OF; eauto.
    - exfalso; eapply arg_ops_OF; eauto.
  Qed.

  Lemma Ltot_nf k : In (OV k) Ltot \/ In (OW k) Ltot -> is_func k = false.
  Proof.
    unfold Ltot, L123, L4, L5. rewrite !in_app_iff.
    intros H.
    assert (C : (In (OV k) (fops f false) \/ In (OW k) (fops f false)) \/
                (In (OV k) (ins_ops ins) \/ In (OW k) (ins_ops ins)) \/
                (In (OV k) (flat_map (fun c => fops c true) cs) \/ In (OW k) (flat_map (fun c => fops c true) cs)) \/
                (In (OV k) (flat_map val_ops (val_keys g3)) \/ In (OW k) (flat_map val_ops (val_keys g3))) \/
                (In (OV k) (flat_map arg_ops (arg_keys g5)) \/ In (OW k) (flat_map arg_ops (arg_keys g5)))) by tauto.
    clear H. destruct C as [C|[C|[C|[C|C]]]].
    - eapply fops_nf; eauto.
    - eapply ins_ops_nf; [|exact C]. intros kv I. unfold ins in I. apply in_map_iff in I.
      destruct I as (nv & <- & _). reflexivity.
    - destruct C as [C|C]; apply in_flat_map in C; destruct C as (c & _ & C); eapply fops_nf; eauto.
    - eapply val_ops_nf; eauto.
    - eapply arg_ops_nf; eauto.
  Qed.

  Lemma GG_pay ft0 : fvert (KFunc ft0) -> exists p, vtx GG (KFunc ft0) = Some p /\
    ((ft0 = fn_type f /\ p = PFunc f) \/ (exists c, In c cs /\ fn_type c = ft0 /\ p = PFunc c)).
  Proof.
    intros V. apply GG_present in V. unfold present in V.
    destruct (vtx GG (KFunc ft0)) as [p|] eqn:Q; [|discriminate]. exists p. split; [reflexivity|].
    rewrite GG_eq in Q. destruct (@vtx_sound Ltot g_root _ _ g_root_wf Q) as [Q1|[Q1|(-> & Q1)]].
    - exfalso. assert (P : present g_root (KFunc ft0) = true) by (unfold present; rewrite Q1; reflexivity).
      apply g_root_present in P. discriminate.
    - destruct (Ltot_OF Q1) as [(E & ->)|(c & Ic & E & ->)].
      + left. inversion E. auto.
      + right. exists c. inversion E. auto.
    - apply Ltot_nf in Q1. discriminate.
  Qed.

  Lemma GG_pay_f : vtx GG fk = Some (PFunc f).
  Proof.
    destruct (@GG_pay (fn_type f) fv_f) as (p & Q & [(_ & ->)|(c & Ic & E & ->)]); [exact Q|].
    exfalso. destruct (Hcs c Ic) as (_ & _ & N). contradiction.
  Qed.

  Lemma NoDup_map_inj {A B} (h : A -> B) (l : list A) x y :
    NoDup (map h l) -> In x l -> In y l -> h x = h y -> x = y.
  Proof.
    induction l as [|z l IH]; intros ND Ix Iy E; [destruct Ix|].
    simpl in ND. inversion ND as [|? ? NI ND']; subst.
    destruct Ix as [->|Ix]; destruct Iy as [->|Iy]; auto.
    - exfalso. apply NI. rewrite E. apply in_map. exact Iy.
    - exfalso. apply NI. rewrite <- E. apply in_map. exact Ix.
  Qed.

  Lemma GG_pay_c c : In c cs -> vtx GG (KFunc (fn_type c)) = Some (PFunc c).
  Proof.
    intros Ic. destruct (@GG_pay (fn_type c) (fv_c c Ic)) as (p & Q & [(E & ->)|(c' & Ic' & E & ->)]).
    - exfalso. destruct (Hcs c Ic) as (_ & _ & N). contradiction.
    - rewrite (@NoDup_map_inj _ _ fn_type cs c' c Hcnd Ic' Ic E) in Q. exact Q.
  Qed.

  (* ---------- full_graph computes GG ---------- *)
  Variable bd : builder.
  Hypothesis Hb1 : b_named bd = named.
  Hypothesis Hb2 : b_namedsub bd = [].
  Hypothesis Hb3 : b_typed bd = [].
  Hypothesis Hb4 : b_typedsub bd = [].
  Hypothesis Hb5 : b_convs bd = cs.
  Hypothesis Hb6 : b_gens bd = [].
  Hypothesis Hnd : NoDup (map fst named).
  Hypothesis Hc0 : exists c0, In c0 cs.

  Lemma input_vertices_eq : input_vertices bd = ins.
  Proof.
    unfold input_vertices. rewrite Hb1, Hb2, Hb3, Hb4. simpl. rewrite app_nil_r.
    unfold ins. apply map_ext_in. intros [m v] I. simpl. destruct (Hnm m v I) as [_ ->]. reflexivity.
  Qed.

  Definition vals0 : amap vkey value := fold_left (fun m kv => insert (fst kv) (snd kv) m) ins [].
  Definition g1 : rgraph := func_graph g_root f false.

  Lemma g3_eq :
    fold_left (fun g c => func_graph g c true) cs
      (fold_left (fun g kv => add_e (g_add_overwrite g (fst kv) PNone) (fst kv) KRoot w_normal) ins
         (func_graph g_root f false)) = g3.
  Proof.
    unfold g3, L123. rewrite !app_ops_app. rewrite <- func_graph_ops, <- inputs_ops.
    rewrite <- app_ops_flat_map. apply fold_left_ext. intros a c. apply func_graph_ops.
  Qed.

  Lemma KOut_fvert t s : fvert (KOut t s) -> KOut t s = OT \/ KOut t s = OU.
  Proof. intros H. remember (KOut t s) as k eqn:E. destruct H; try discriminate E; auto. Qed.
  Lemma KArg_fvert t s : fvert (KArg t s) -> KArg t s = AT \/ KArg t s = AU.
  Proof. intros H. remember (KArg t s) as k eqn:E. destruct H; try discriminate E; auto. Qed.
  Lemma KVal_fvert m t s : fvert (KVal m t s) -> KVal m t s = NU \/ (exists v, In (m, v) named /\ t = T /\ s = EmptyString).
  Proof.
    intros H. remember (KVal m t s) as k eqn:E. destruct H; try discriminate E; auto.
    inversion E; subst. right. eauto.
  Qed.

  Lemma steps_eq valued :
    step_arg_sub (step_named_sub valued (step_ifaces u (step_args (step_values g3)))) = GG.
  Proof.
    rewrite step_values_ops. fold L4. fold g5. rewrite step_args_ops. fold L5. fold GG.
    rewrite step_ifaces_id.
    2:{ intros t s P. apply GG_present in P. destruct (KOut_fvert P) as [Q|Q]; inversion Q; subst; assumption. }
    rewrite step_named_sub_id.
    2:{ intros m t s P. apply GG_present in P. destruct (KVal_fvert P) as [Q|(v & _ & _ & Q)]; [inversion Q|]; auto. }
    apply step_arg_sub_id.
    - intros t s P. apply GG_present in P. destruct (KArg_fvert P) as [Q|Q]; inversion Q; auto.
    - intros t s P. apply GG_present in P. destruct (KOut_fvert P) as [Q|Q]; inversion Q; auto.
  Qed.

  Definition FG (t : tape vkey) : fgraph := mkFG GG vals0 fk (g_out_keys g1 fk) (map fst ins) cs [] t.

  Lemma full_graph_eq t : full_graph u f bd false t = Ok (inl (FG t), []).
  Proof.
    unfold full_graph. cbv zeta. fold g_root. rewrite input_vertices_eq, Hb5, Hb6. cbn [bind].
    unfold run_gens. cbn [fold_left]. rewrite g3_eq, steps_eq. reflexivity.
  Qed.

  (* ---------- pruning ---------- *)
  Definition pvert (k : vkey) : Prop := fvert k /\ k <> OT /\ (onm = n -> k <> OU).

  Lemma GG_root : vtx GG KRoot <> None.
  Proof. apply present_true. apply GG_present. constructor. Qed.

  Lemma GG_edge_ne a b w : fedge a b w -> ew GG a b <> None.
  Proof. intros H. apply GG_edges in H. rewrite H. discriminate. Qed.

  Lemma fedge_src a b w : fedge a b w -> fvert a /\ a <> OT /\ (onm = n -> a <> OU).
  Proof.
    intros H. destruct H as [|m v I|c Ic|c Ic| | |m v I|m v I| |];
      try (split; [econstructor; eauto|split; [discriminate|intros _; discriminate]]).
    destruct OO_cases as [(E & Q & _)|(E & Q & _)]; rewrite Q.
    - split; [constructor|]. split; [unfold OU, OT; intros X; inversion X; apply HTU; auto|].
      intros E2. exfalso. rewrite E in E2.
      assert (X : String.eqb n EmptyString = true) by (rewrite <- E2; reflexivity). rewrite HnE in X. discriminate.
    - split; [constructor|]. split; [discriminate|intros _; discriminate].
  Qed.

  Lemma fk_ne_c c : In c cs -> KFunc (fn_type c) <> fk.
  Proof. intros Ic X. inversion X. destruct (Hcs c Ic) as (_ & _ & N). contradiction. Qed.

  Lemma keep_iff k : In k (keepset GG fk) <-> pvert k.
  Proof.
    split.
    - revert k. apply (@keep_ind GG fk GG_wf pvert).
      + split; [constructor|split; [discriminate|intros _; discriminate]].
      + intros a x _ _ E. destruct (ew GG x a) as [w|] eqn:Q; [|contradiction E; reflexivity].
        apply GG_edges in Q. apply (fedge_src Q).
    - pose proof (@keep_root GG fk GG_wf GG_root) as KR.
      pose proof (fun a x => @keep_closed GG fk GG_wf GG_root a x) as KC.
      destruct named_n as (vn & In').
      assert (KI : forall m v, In (m, v) named -> In (KVal m T EmptyString) (keepset GG fk)).
      { intros m v I. apply (KC KRoot); [exact KR|discriminate|]. apply (GG_edge_ne (fe_input m v I)). }
      assert (KAT : In AT (keepset GG fk)).
      { apply (KC NT); [apply (KI n vn In')|discriminate|]. apply (GG_edge_ne (fe_at_in n vn In')). }
      assert (KCc : forall c, In c cs -> In (KFunc (fn_type c)) (keepset GG fk)).
      { intros c Ic. apply (KC (inkey c)).
        - destruct (inkey_cases c Ic) as [[Q _]|[Q _]]; rewrite Q; [exact KAT|apply (KI n vn In')].
        - destruct (inkey_cases c Ic) as [[Q _]|[Q _]]; rewrite Q; discriminate.
        - apply (GG_edge_ne (fe_cin c Ic)). }
      destruct Hc0 as (c0 & Ic0).
      assert (KOO : In OO (keepset GG fk)).
      { apply (KC (KFunc (fn_type c0))); [apply KCc; exact Ic0|apply fk_ne_c; exact Ic0|].
        apply (GG_edge_ne (fe_cout c0 Ic0)). }
      assert (KNU : In NU (keepset GG fk)).
      { destruct OO_cases as [(_ & Q & _)|(_ & Q & _)]; rewrite Q in KOO; [|exact KOO].
        apply (KC OU); [exact KOO|discriminate|]. apply (GG_edge_ne fe_nu_ou). }
      intros (V & N1 & N2). destruct V as [| | |m v I|c Ic| | | |].
      + exact KR.
      + apply (KC NU); [exact KNU|discriminate|]. apply (GG_edge_ne fe_target).
      + exact KNU.
      + apply (KI m v I).
      + apply (KCc c Ic).
      + exact KAT.
      + contradiction N1; reflexivity.
      + apply (KC NU); [exact KNU|discriminate|]. apply (GG_edge_ne fe_au_nu).
      + destruct OO_cases as [(_ & Q & _)|(E & _ & _)]; [rewrite Q in KOO; exact KOO|].
        exfalso. apply (N2 E). reflexivity.
  Qed.

  Definition PG : rgraph := pruned GG fk.

  Lemma PG_wf : wf_graph PG.
  Proof. apply (pruned_spec fk GG_wf). Qed.

  Lemma PG_vtx k : pvert k -> vtx PG k = vtx GG k.
  Proof.
    intros P. destruct (pruned_spec fk GG_wf) as (_ & Hv & _). unfold PG. rewrite Hv.
    apply (proj2 (keep_iff k)) in P. apply membT in P. rewrite P. reflexivity.
  Qed.

  Lemma PG_vtx_none k : ~ pvert k -> vtx PG k = None.
  Proof.
    intros P. destruct (pruned_spec fk GG_wf) as (_ & Hv & _). unfold PG. rewrite Hv.
    destruct (memb k (keepset GG fk)) eqn:M; [|reflexivity].
    exfalso. apply P. apply (proj1 (keep_iff k)). apply membT. exact M.
  Qed.

  Lemma PG_edges a b w : ew PG a b = Some w <-> fedge a b w /\ pvert a /\ pvert b.
  Proof.
    destruct (pruned_spec fk GG_wf) as (_ & _ & He). unfold PG. rewrite He.
    destruct (memb a (keepset GG fk)) eqn:Ma; destruct (memb b (keepset GG fk)) eqn:Mb; simpl.
    - apply membT in Ma. apply membT in Mb. apply (proj1 (keep_iff a)) in Ma. apply (proj1 (keep_iff b)) in Mb.
      rewrite GG_edges. tauto.
    - split; [discriminate|]. intros (_ & _ & P). apply (proj2 (keep_iff b)) in P. apply membT in P. congruence.
    - split; [discriminate|]. intros (_ & P & _). apply (proj2 (keep_iff a)) in P. apply membT in P. congruence.
    - split; [discriminate|]. intros (_ & P & _). apply (proj2 (keep_iff a)) in P. apply membT in P. congruence.
  Qed.

  Lemma pvert_NU : pvert NU.
  Proof. split; [constructor|split; [discriminate|intros _; discriminate]]. Qed.

  Lemma g1_out k : In k (g_out_keys g1 fk) -> k = NU.
  Proof.
    intros I. apply in_out_keys in I. unfold g1 in I. rewrite func_graph_ops, fops_target in I.
    destruct (app_ops_spec [OF fk (PFunc f); OV NU; OE fk NU w_normal] g_root_wf) as (_ & _ & Hs & _).
    destruct (ew (app_ops [OF fk (PFunc f); OV NU; OE fk NU w_normal] g_root) fk k) as [w|] eqn:Q;
      [|contradiction I; reflexivity].
    destruct (Hs _ _ _ Q) as [Q1|Q1]; [rewrite g_root_noedge in Q1; discriminate|].
    simpl in Q1. destruct Q1 as [Q1|[Q1|[Q1|[]]]]; try discriminate. inversion Q1. reflexivity.
  Qed.

  Definition CG (t : tape vkey) : cgraph := mkCG PG vals0 fk (map fst ins) cs [] t.

  Lemma prune_eq t : prune (FG t) = inl (CG t).
  Proof.
    rewrite prune_unfold. unfold FG. cbn [fg_g fg_target fg_freq fg_vals fg_inputs fg_convs fg_trace fg_tape].
    fold PG.
    assert (E : unsat_of (mkFG GG vals0 fk (g_out_keys g1 fk) (map fst ins) cs [] t) = []).
    { unfold unsat_of. cbn [fg_g fg_target fg_freq]. fold PG.
      apply filter_none. intros k Ik. apply g1_out in Ik. subst k.
      apply negb_false_iff. apply mem_vtx. rewrite (PG_vtx pvert_NU). apply present_true. apply GG_present. constructor. }
    rewrite E. reflexivity.
  Qed.

  (* ---------- the reversed, discounted graph the planner searches ---------- *)
  Hypothesis Hlen : (List.length named <= 999)%nat.
  Hypothesis Hcl : (List.length cs <= 2)%nat.

  Definition cgD : rgraph := discount PG NU.
  Definition HH : rgraph := g_reverse cgD.

  Lemma cgD_facts :
    wf_graph cgD /\ (forall x, vtx cgD x = vtx PG x) /\ g_vertex_keys cgD = g_vertex_keys PG /\
    (forall a b, ew cgD a b = match ew PG a b with
                              | Some w => if isn n b then Some w_matching_name else Some w
                              | None => None end).
  Proof. apply (discount_exact n U EmptyString PG_wf). Qed.

  Lemma HH_wf : wf_graph HH.
  Proof. apply (reverse_spec (proj1 cgD_facts)). Qed.

  Lemma HH_edge a b w :
    edge HH a b w <->
    exists w0, fedge b a w0 /\ pvert a /\ pvert b /\ w = (if isn n a then w_matching_name else w0).
  Proof.
    change (edge HH a b w) with (ew HH a b = Some w).
    destruct cgD_facts as (Wc & _ & _ & He).
    destruct (reverse_spec Wc) as (_ & _ & Hr). unfold HH. rewrite Hr, He. split.
    - destruct (ew PG b a) as [w0|] eqn:Q; [|discriminate].
      apply PG_edges in Q. destruct Q as (Fe & Pb & Pa). intros Q.
      exists w0. split; [exact Fe|]. split; [exact Pa|]. split; [exact Pb|].
      destruct (isn n a); inversion Q; reflexivity.
    - intros (w0 & Fe & Pa & Pb & ->).
      assert (Q : ew PG b a = Some w0) by (apply PG_edges; auto). rewrite Q.
      destruct (isn n a); reflexivity.
  Qed.

  Lemma PG_vtx_pvert k : vtx PG k <> None -> pvert k.
  Proof.
    intros N0. destruct (pruned_spec fk GG_wf) as (_ & Hv & _). unfold PG in N0. rewrite Hv in N0.
    destruct (memb k (keepset GG fk)) eqn:M; [|contradiction N0; reflexivity].
    apply (proj1 (keep_iff k)). apply membT. exact M.
  Qed.

  Lemma pvert_vtx k : pvert k -> vtx PG k <> None.
  Proof.
    intros P. rewrite (PG_vtx P). apply present_true. apply GG_present. apply P.
  Qed.

  Definition VL : list vkey :=
    [KRoot; fk; NU; AT; OT; AU; OU] ++ map (fun c => KFunc (fn_type c)) cs ++
    map (fun nv => KVal (fst nv) T EmptyString) named.

  Lemma fvert_VL k : fvert k -> In k VL.
  Proof.
    intros Hk. unfold VL. destruct Hk as [| | |m v I|c Ic| | | |]; try (simpl; tauto).
    - apply in_or_app. right. apply in_or_app. right. apply in_map_iff. exists (m, v). auto.
    - apply in_or_app. right. apply in_or_app. left. apply in_map_iff. exists c. auto.
  Qed.

  Lemma PG_keys_len : (List.length (g_vertex_keys PG) <= 1008)%nat.
  Proof.
    assert (L : (List.length (g_vertex_keys PG) <= List.length VL)%nat).
    { apply NoDup_incl_length; [apply (wf_hash_nodup PG_wf)|].
      intros k Ik. apply in_vertex_keys in Ik. apply fvert_VL. apply (proj1 (@PG_vtx_pvert k Ik)). }
    set (lk := List.length (g_vertex_keys PG)) in *.
    unfold VL in L. rewrite !app_length, !map_length in L. cbn [List.length] in L. lia.
  Qed.

  Lemma HH_keys : g_vertex_keys HH = g_vertex_keys PG.
  Proof. destruct cgD_facts as (_ & _ & Hk & _). unfold HH. rewrite <- Hk. reflexivity. Qed.

  Lemma HH_small : 20 * (Z.of_nat (List.length (g_vertex_keys HH)) + 1) < INF.
  Proof. rewrite HH_keys. pose proof PG_keys_len. unfold INF. lia. Qed.

  Lemma HH_vertex k : vertex HH k <-> pvert k.
  Proof.
    unfold vertex. change (keys (ghash HH)) with (g_vertex_keys HH). rewrite HH_keys, in_vertex_keys.
    split; [apply PG_vtx_pvert|apply pvert_vtx].
  Qed.

  Lemma pvert_root : pvert KRoot.
  Proof. split; [constructor|split; [discriminate|intros _; discriminate]]. Qed.
  Lemma pvert_in m v : In (m, v) named -> pvert (KVal m T EmptyString).
  Proof. intros I. split; [econstructor; eauto|split; [discriminate|intros _; discriminate]]. Qed.
  Lemma pvert_AT : pvert AT.
  Proof. split; [constructor|split; [discriminate|intros _; discriminate]]. Qed.
  Lemma pvert_c c : In c cs -> pvert (KFunc (fn_type c)).
  Proof. intros I. split; [constructor; auto|split; [discriminate|intros _; discriminate]]. Qed.
  Lemma pvert_fk : pvert fk.
  Proof. split; [constructor|split; [discriminate|intros _; discriminate]]. Qed.
  Lemma OU_ne_OT : OU <> OT.
  Proof. unfold OU, OT. intros X. inversion X. apply HTU. auto. Qed.
  Lemma pvert_OO : pvert OO.
  Proof.
    destruct OO_cases as [(E & Q & _)|(E & Q & _)]; rewrite Q; [|apply pvert_NU].
    split; [constructor|]. split; [apply OU_ne_OT|]. intros E2. exfalso. rewrite E in E2.
    assert (X : String.eqb n EmptyString = true) by (rewrite <- E2; reflexivity). rewrite HnE in X. discriminate.
  Qed.
  Lemma pvert_OT : ~ pvert OT.
  Proof. intros (_ & N0 & _). apply N0. reflexivity. Qed.

  Lemma HH_wbound a b w : edge HH a b w -> -20 <= w <= 20.
  Proof.
    intros Ed. apply HH_edge in Ed. destruct Ed as (w0 & Fe & _ & _ & ->).
    rewrite (fedge_wt Fe). destruct (isn n a); [unfold w_matching_name; lia|].
    unfold wt. destruct b; destruct a; unfold w_normal, w_typed; lia.
  Qed.

  Lemma fedge_src_ne_root a b w : fedge a b w -> a <> KRoot.
  Proof.
    intros Hk. destruct Hk as [|m v I|c Ic|c Ic| | |m v I|m v I| |]; try discriminate.
    destruct OO_cases as [(_ & Q & _)|(_ & Q & _)]; rewrite Q; discriminate.
  Qed.

  Lemma HH_src_in a w : ~ edge HH a KRoot w.
  Proof.
    intros Ed. apply HH_edge in Ed. destruct Ed as (w0 & Fe & _). apply (fedge_src_ne_root Fe). reflexivity.
  Qed.

  Lemma HH_isin m v : In (m, v) named -> isin HH KRoot (KVal m T EmptyString).
  Proof.
    intros I. split.
    - apply HH_edge. exists w_normal. split; [econstructor; eauto|]. split; [apply pvert_root|].
      split; [eapply pvert_in; eauto|reflexivity].
    - intros a' w' Ed. apply HH_edge in Ed. destruct Ed as (w0 & Fe & Pa' & _ & ->).
      remember (KVal m T EmptyString) as k eqn:Ek.
      destruct Fe as [|m1 v1 I1|c Ic|c Ic| | |m1 v1 I1|m1 v1 I1| |]; try discriminate Ek.
      + split; reflexivity.
      + exfalso. destruct OO_cases as [(_ & Q & _)|(_ & Q & _)]; rewrite Q in Ek; [discriminate|].
        unfold NU in Ek. inversion Ek. apply HTU. auto.
      + exfalso. unfold NU in Ek. inversion Ek. apply HTU. auto.
      + exfalso. apply (pvert_OT Pa').
  Qed.

  Lemma HH_A_in a w :
    edge HH a AT w -> isin HH KRoot a /\ ((a = NT /\ w = -1) \/ (a <> NT /\ w = 5)).
  Proof.
    intros Ed. apply HH_edge in Ed. destruct Ed as (w0 & Fe & Pa & _ & ->).
    remember AT as k eqn:Ek.
    destruct Fe as [|m1 v1 I1|c Ic|c Ic| | |m1 v1 I1|m1 v1 I1| |]; try discriminate Ek.
    - exfalso. destruct OO_cases as [(_ & Q & _)|(_ & Q & _)]; rewrite Q in Ek; discriminate.
    - exfalso. unfold AU, AT in Ek. inversion Ek. apply HTU. auto.
    - split; [eapply HH_isin; eauto|]. cbn [isn].
      destruct (String.eqb m1 n) eqn:En.
      + apply String.eqb_eq in En. subst m1. left. split; reflexivity.
      + right. split; [|reflexivity]. unfold NT. intros X. inversion X. subst m1.
        rewrite String.eqb_refl in En. discriminate.
    - exfalso. apply (pvert_OT Pa).
    - exfalso. unfold AU, AT in Ek. inversion Ek. apply HTU. auto.
  Qed.

  Lemma HH_NA : edge HH NT AT (-1).
  Proof.
    destruct named_n as (vn & In').
    apply HH_edge. exists w_typed. split; [apply (fe_at_in n vn In')|]. split; [apply (pvert_in n vn In')|].
    split; [apply pvert_AT|]. cbn [NT isn]. rewrite String.eqb_refl. reflexivity.
  Qed.

  Lemma HH_root : vertex HH KRoot.
  Proof. apply HH_vertex. apply pvert_root. Qed.

  (* in-edges of the other vertices of the plan *)
  Lemma HH_c_in c a w : In c cs -> edge HH a (KFunc (fn_type c)) w ->
    a = inkey c /\ w = (if isn n (inkey c) then w_matching_name else inw c).
  Proof.
    intros Ic Ed. apply HH_edge in Ed. destruct Ed as (w0 & Fe & Pa & _ & ->).
    remember (KFunc (fn_type c)) as k eqn:Ek.
    destruct Fe as [|m1 v1 I1|c1 Ic1|c1 Ic1| | |m1 v1 I1|m1 v1 I1| |]; try discriminate Ek.
    - exfalso. apply (fk_ne_c c Ic). symmetry. exact Ek.
    - inversion Ek as [E1]. rewrite (@NoDup_map_inj _ _ fn_type cs c1 c Hcnd Ic1 Ic E1). split; reflexivity.
    - exfalso. destruct OO_cases as [(_ & Q & _)|(_ & Q & _)]; rewrite Q in Ek; discriminate.
  Qed.

  Lemma HH_c_edge c : In c cs ->
    edge HH (inkey c) (KFunc (fn_type c)) (if isn n (inkey c) then w_matching_name else inw c).
  Proof.
    intros Ic. apply HH_edge. exists (inw c). split; [apply (fe_cin c Ic)|].
    split; [|split; [apply (pvert_c c Ic)|reflexivity]].
    destruct named_n as (vn & In').
    destruct (inkey_cases c Ic) as [[Q _]|[Q _]]; rewrite Q; [apply pvert_AT|apply (pvert_in n vn In')].
  Qed.

  Lemma isn_OO : isn n OO = false \/ OO = NU.
  Proof. destruct OO_cases as [(_ & Q & _)|(_ & Q & _)]; rewrite Q; [left; reflexivity|right; reflexivity]. Qed.

  Lemma HH_OO_in a w : edge HH a OO w -> exists c, In c cs /\ a = KFunc (fn_type c) /\ w = wo.
  Proof.
    intros Ed. apply HH_edge in Ed. destruct Ed as (w0 & Fe & Pa & _ & ->).
    remember OO as k eqn:Ek.
    destruct Fe as [|m1 v1 I1|c1 Ic1|c1 Ic1| | |m1 v1 I1|m1 v1 I1| |];
      try (exfalso; destruct OO_cases as [(_ & Q & _)|(_ & Q & _)]; rewrite Q in Ek; discriminate Ek).
    - exfalso. destruct OO_cases as [(_ & Q & _)|(_ & Q & _)]; rewrite Q in Ek; [discriminate Ek|].
      unfold NU in Ek. inversion Ek. apply HTU. auto.
    - exists c1. split; [exact Ic1|]. split; reflexivity.
    - exfalso. destruct OO_cases as [(_ & Q & _)|(E & Q & _)]; rewrite Q in Ek; [discriminate Ek|].
      destruct Pa as (_ & _ & N2). apply (N2 E). reflexivity.
    - exfalso. destruct OO_cases as [(_ & Q & _)|(_ & Q & _)]; rewrite Q in Ek; [discriminate Ek|].
      unfold NU in Ek. inversion Ek. apply HTU. auto.
  Qed.

  Lemma HH_OO_edge c : In c cs -> edge HH (KFunc (fn_type c)) OO wo.
  Proof.
    intros Ic. apply HH_edge. exists wo. split; [apply (fe_cout c Ic)|].
    split; [apply (pvert_c c Ic)|]. split; [apply pvert_OO|reflexivity].
  Qed.

  (* NU when the result is type-only: its only in-neighbour is OU *)
  Lemma HH_NU_in a w : onm = EmptyString -> edge HH a NU w -> a = OU.
  Proof.
    intros Eo Ed. apply HH_edge in Ed. destruct Ed as (w0 & Fe & Pa & _ & ->).
    assert (QO : OO = OU).
    { destruct OO_cases as [(_ & Q & _)|(E & _ & _)]; [exact Q|]. exfalso. rewrite Eo in E.
      assert (X : String.eqb n EmptyString = true) by (rewrite <- E; reflexivity). rewrite HnE in X. discriminate. }
    remember NU as k eqn:Ek.
    destruct Fe as [|m1 v1 I1|c1 Ic1|c1 Ic1| | |m1 v1 I1|m1 v1 I1| |]; try discriminate Ek; try reflexivity.
    - exfalso. unfold NU in Ek. inversion Ek. apply HTU. auto.
    - exfalso. rewrite QO in Ek. discriminate.
    - exfalso. unfold NU in Ek. inversion Ek. apply HTU. auto.
  Qed.

  Lemma HH_NU_edge : onm = EmptyString -> edge HH OU NU w_typed.
  Proof.
    intros Eo. apply HH_edge. exists w_typed. split; [apply fe_nu_ou|].
    assert (QO : OO = OU).
    { destruct OO_cases as [(_ & Q & _)|(E & _ & _)]; [exact Q|]. exfalso. rewrite Eo in E.
      assert (X : String.eqb n EmptyString = true) by (rewrite <- E; reflexivity). rewrite HnE in X. discriminate. }
    split; [rewrite <- QO; apply pvert_OO|]. split; [apply pvert_NU|]. reflexivity.
  Qed.

  (* ---------- the plan for the single requirement NU ---------- *)
  Variable csel : fdecl.
  Hypothesis Hsel : In csel cs.
  Definition CS : vkey := KFunc (fn_type csel).
  Definition mid : list vkey := match inkey csel with KArg _ _ => [AT] | _ => [] end.
  Definition otail : list vkey := if String.eqb onm EmptyString then [OU; NU] else [NU].
  Definition the_path : list vkey := [KRoot; NT] ++ mid ++ [CS] ++ otail.

  Definition selected (p : amap vkey vkey) : Prop :=
    lookup OO p = Some CS /\ lookup CS p = Some (inkey csel) /\ (inkey csel = AT -> lookup AT p = Some NT).

  Lemma reach_edge a b0 w : GraphSpec.reach HH KRoot a -> edge HH a b0 w -> GraphSpec.reach HH KRoot b0.
  Proof.
    intros (pth & w0 & Wk) Ed. exists (pth ++ [b0]), (w0 + w).
    eapply walk_snoc; eauto. apply (edge_vertices HH_wf Ed).
  Qed.

  Lemma chain_snoc (p : amap vkey vkey) u0 v l : chain p u0 l -> lookup v p = Some u0 -> chain p v (l ++ [v]).
  Proof. intros C Q. eapply chain_step; eauto. Qed.

  Lemma chain_path p : fin_facts HH KRoot p -> selected p -> chain p NU the_path.
  Proof.
    intros (P0 & Pe & Pr) (S1 & S2 & S3).
    destruct named_n as (vn & In').
    assert (R0 : GraphSpec.reach HH KRoot KRoot) by (exists [KRoot], 0; constructor; apply HH_root).
    assert (RN : GraphSpec.reach HH KRoot NT) by (apply (reach_edge R0 (proj1 (HH_isin n vn In')))).
    assert (P1 : lookup NT p = Some KRoot).
    { destruct (Pr NT RN ltac:(discriminate)) as (x & Q). destruct (Pe _ _ Q) as (w & Ed).
      destruct (proj2 (HH_isin n vn In') _ _ Ed) as [-> _]. exact Q. }
    assert (C1 : chain p NT ([KRoot] ++ [NT])) by (apply chain_snoc with (u0 := KRoot); [constructor; exact P0|exact P1]).
    assert (RK : GraphSpec.reach HH KRoot (inkey csel)).
    { destruct (inkey_cases csel Hsel) as [[Q _]|[Q _]]; rewrite Q; [|exact RN]. apply (reach_edge RN HH_NA). }
    assert (RC : GraphSpec.reach HH KRoot CS) by (apply (reach_edge RK (HH_c_edge csel Hsel))).
    assert (RO : GraphSpec.reach HH KRoot OO) by (apply (reach_edge RC (HH_OO_edge csel Hsel))).
    assert (C2 : chain p CS (([KRoot] ++ [NT]) ++ mid ++ [CS])).
    { unfold mid. destruct (inkey_cases csel Hsel) as [[Q _]|[Q _]].
      - rewrite Q in S2 |- *. unfold AT at 1. cbn [app]. change [KRoot; NT; AT; CS] with (([KRoot; NT] ++ [AT]) ++ [CS]).
        apply chain_snoc with (u0 := AT); [|exact S2]. apply chain_snoc with (u0 := NT); [exact C1|apply S3; exact Q].
      - rewrite Q in S2 |- *. unfold NT at 2. cbn [app]. change [KRoot; NT; CS] with ([KRoot; NT] ++ [CS]).
        apply chain_snoc with (u0 := NT); [exact C1|exact S2]. }
    assert (C3 : chain p OO ((([KRoot] ++ [NT]) ++ mid ++ [CS]) ++ [OO])) by (apply chain_snoc with (u0 := CS); assumption).
    unfold the_path, otail.
    destruct OO_cases as [(Eo & Q & _)|(Eo & Q & _)].
    - rewrite Eo. cbn [String.eqb]. rewrite Q in C3, RO.
      assert (RU : GraphSpec.reach HH KRoot NU) by (apply (reach_edge RO (HH_NU_edge Eo))).
      assert (P5 : lookup NU p = Some OU).
      { destruct (Pr NU RU ltac:(discriminate)) as (x & Qx). destruct (Pe _ _ Qx) as (w & Ed).
        rewrite (HH_NU_in Eo Ed) in Qx. exact Qx. }
      replace ([KRoot; NT] ++ mid ++ [CS] ++ [OU; NU]) with (((([KRoot] ++ [NT]) ++ mid ++ [CS]) ++ [OU]) ++ [NU]).
      + apply chain_snoc with (u0 := OU); assumption.
      + cbn [app]. rewrite <- !app_assoc. reflexivity.
    - rewrite Eo, HnE. rewrite Q in C3.
      replace ([KRoot; NT] ++ mid ++ [CS] ++ [NU]) with ((([KRoot] ++ [NT]) ++ mid ++ [CS]) ++ [NU]); [exact C3|].
      cbn [app]. rewrite <- !app_assoc. reflexivity.
  Qed.

  Lemma the_path_len : (List.length the_path <= 6)%nat.
  Proof.
    unfold the_path, mid, otail. rewrite !app_length.
    destruct (inkey csel); destruct (String.eqb onm EmptyString); simpl; lia.
  Qed.

  Lemma the_path_no_fk v : In v the_path -> v <> fk.
  Proof.
    unfold the_path, mid, otail. rewrite !in_app_iff. intros [I|[I|[I|I]]].
    - destruct I as [<-|[<-|[]]]; discriminate.
    - destruct (inkey csel) as [|ft0|n0 t0 s0|t0 s0|t0 s0]; [destruct I|destruct I|destruct I| |destruct I].
      destruct I as [<-|[]]. discriminate.
    - destruct I as [<-|[]]. apply fk_ne_c. exact Hsel.
    - destruct (String.eqb onm EmptyString); [destruct I as [<-|[<-|[]]]|destruct I as [<-|[]]]; discriminate.
  Qed.

  Lemma NU_ne_NT : NU <> NT.
  Proof. unfold NU, NT. intros X. inversion X. apply HTU. auto. Qed.
  Lemma AU_ne_AT : AU <> AT.
  Proof. unfold AU, AT. intros X. inversion X. apply HTU. auto. Qed.

  Lemma PG_keys_ge : (7 <= List.length (g_vertex_keys PG))%nat.
  Proof.
    destruct named_n as (vn & In').
    assert (ND : NoDup [KRoot; fk; NU; NT; AT; CS; AU]).
    { pose proof NU_ne_NT. pose proof AU_ne_AT. pose proof (fk_ne_c csel Hsel).
      repeat constructor; simpl; intuition (try discriminate; try congruence). }
    change 7%nat with (List.length [KRoot; fk; NU; NT; AT; CS; AU]).
    apply NoDup_incl_length; [exact ND|].
    intros k Ik. apply in_vertex_keys. apply pvert_vtx.
    assert (pvert AU) by (split; [constructor|split; [discriminate|intros _; discriminate]]).
    simpl in Ik. destruct Ik as [<-|[<-|[<-|[<-|[<-|[<-|[<-|[]]]]]]]];
      [apply pvert_root|apply pvert_fk|apply pvert_NU|apply (pvert_in n vn In')|apply pvert_AT|apply (pvert_c csel Hsel)|assumption].
  Qed.

  Hypothesis Hdij : forall pops d p, dijkstra HH KRoot pops = Ok (d, p) -> selected p /\ fin_facts HH KRoot p.

  Lemma plan_eq s path bad s' :
    plan PG false NU s = Ok (path, bad, s') ->
    path = the_path /\ bad = existsb (fun v => memb v (s_inprog s)) the_path /\
    exists t', s' = add_input (set_tape s t') NT.
  Proof.
    unfold plan. change (discount PG NU) with cgD. change (g_reverse cgD) with HH.
    unfold dijkstra_t.
    destruct (take_pops (List.length (g_vertex_keys HH)) (s_tape s)) as [[pops t']| | |]; cbn [bind]; try discriminate.
    destruct (dijkstra HH KRoot pops) as [[d p]| | |] eqn:Dj; cbn [bind]; try discriminate.
    destruct (Hdij _ Dj) as [Sel FF].
    pose proof (chain_path FF Sel) as Ch.
    unfold edge_to_path.
    rewrite (etp_chain Ch).
    2:{ destruct cgD_facts as (_ & _ & Hk & _). rewrite Hk. pose proof PG_keys_ge. pose proof the_path_len. lia. }
    rewrite app_nil_r. cbn [bind].
    assert (Inp : match the_path with KRoot :: x :: _ => x | x :: _ => x | [] => NU end = NT) by reflexivity.
    rewrite Inp. intros Q. inversion Q. split; [reflexivity|]. split; [reflexivity|]. exists t'. reflexivity.
  Qed.

  (* ---------- neighbourhoods in the pruned graph ---------- *)
  Lemma PG_out_fk : g_out_keys PG fk = [NU].
  Proof.
    apply nodup_singleton.
    - unfold g_out_keys, inner. destruct (lookup fk (gout PG)) as [i|] eqn:Q; [|constructor].
      apply (wf_inner_out_nodup PG_wf _ Q).
    - intros x. rewrite in_out_keys. split.
      + intros N0. destruct (ew PG fk x) as [w|] eqn:Q; [|contradiction N0; reflexivity].
        apply PG_edges in Q. destruct Q as (Fe & _ & _).
        remember fk as k eqn:Ek.
        destruct Fe as [|m1 v1 I1|c1 Ic1|c1 Ic1| | |m1 v1 I1|m1 v1 I1| |]; try discriminate Ek; try reflexivity.
        * exfalso. apply (fk_ne_c c1 Ic1). exact Ek.
        * exfalso. destruct OO_cases as [(_ & Q & _)|(_ & Q & _)]; rewrite Q in Ek; discriminate.
      + intros ->. assert (Q : ew PG fk NU = Some w_normal).
        { apply PG_edges. split; [constructor|]. split; [apply pvert_fk|apply pvert_NU]. }
        rewrite Q. discriminate.
  Qed.

  Lemma pvert_inkey c : In c cs -> pvert (inkey c).
  Proof.
    intros Ic. destruct named_n as (vn & In').
    destruct (inkey_cases c Ic) as [[Q _]|[Q _]]; rewrite Q; [apply pvert_AT|apply (pvert_in n vn In')].
  Qed.

  Lemma PG_out_CS : g_out_keys PG CS = [inkey csel].
  Proof.
    apply nodup_singleton.
    - unfold g_out_keys, inner. destruct (lookup CS (gout PG)) as [i|] eqn:Q; [|constructor].
      apply (wf_inner_out_nodup PG_wf _ Q).
    - intros x. rewrite in_out_keys. split.
      + intros N0. destruct (ew PG CS x) as [w|] eqn:Q; [|contradiction N0; reflexivity].
        apply PG_edges in Q. destruct Q as (Fe & _ & _).
        remember CS as k eqn:Ek.
        destruct Fe as [|m1 v1 I1|c1 Ic1|c1 Ic1| | |m1 v1 I1|m1 v1 I1| |]; try discriminate Ek.
        * exfalso. apply (fk_ne_c csel Hsel). symmetry. exact Ek.
        * unfold CS in Ek. inversion Ek as [E1].
          rewrite (@NoDup_map_inj _ _ fn_type cs c1 csel Hcnd Ic1 Hsel E1). reflexivity.
        * exfalso. destruct OO_cases as [(_ & Q & _)|(_ & Q & _)]; rewrite Q in Ek; discriminate.
      + intros ->. assert (Q : ew PG CS (inkey csel) = Some (inw csel)).
        { apply PG_edges. split; [apply (fe_cin csel Hsel)|]. split; [apply (pvert_c csel Hsel)|apply (pvert_inkey csel Hsel)]. }
        rewrite Q. discriminate.
  Qed.

  Lemma PG_in_CS : g_in_keys PG CS = [OO].
  Proof.
    apply nodup_singleton.
    - unfold g_in_keys, inner. destruct (lookup CS (gin PG)) as [i|] eqn:Q; [|constructor].
      apply (wf_inner_in_nodup PG_wf _ Q).
    - intros x. rewrite (in_in_keys x CS PG_wf). split.
      + intros N0. destruct (ew PG x CS) as [w|] eqn:Q; [|contradiction N0; reflexivity].
        apply PG_edges in Q. destruct Q as (Fe & _ & _).
        remember CS as k eqn:Ek.
        destruct Fe as [|m1 v1 I1|c1 Ic1|c1 Ic1| | |m1 v1 I1|m1 v1 I1| |]; try discriminate Ek; try reflexivity.
        exfalso. destruct (inkey_cases c1 Ic1) as [[Q _]|[Q _]]; rewrite Q in Ek; discriminate.
      + intros ->. assert (Q : ew PG OO CS = Some wo).
        { apply PG_edges. split; [apply (fe_cout csel Hsel)|]. split; [apply pvert_OO|apply (pvert_c csel Hsel)]. }
        rewrite Q. discriminate.
  Qed.

  Lemma PG_vertex_CS : g_vertex PG CS = Some (PFunc csel).
  Proof.
    change (g_vertex PG CS) with (vtx PG (KFunc (fn_type csel))). rewrite (PG_vtx (pvert_c csel Hsel)). apply (GG_pay_c csel Hsel).
  Qed.

  (* ---------- the supplied values ---------- *)
  Lemma ins_nodup : NoDup (map fst ins).
  Proof.
    unfold ins. rewrite map_map. cbn [fst].
    assert (E : map (fun x : string * value => KVal (fst x) T EmptyString) named =
                map (fun m => KVal m T EmptyString) (map fst named)) by (rewrite map_map; reflexivity).
    rewrite E. apply FinFun.Injective_map_NoDup; [|exact Hnd].
    intros x y Q. inversion Q. reflexivity.
  Qed.

  Lemma lookup_ins_in m : lookup (KVal m T EmptyString) ins = lookup m named.
  Proof. unfold ins. apply lookup_map_kval. Qed.

  Lemma lookup_ins_other k v : lookup k ins = Some v -> exists m, k = KVal m T EmptyString.
  Proof.
    intros Q. apply lookup_In in Q. unfold ins in Q. apply in_map_iff in Q.
    destruct Q as ([m v0] & E & _). inversion E. eauto.
  Qed.

  Lemma vals0_lookup k : lookup k vals0 = lookup k ins.
  Proof.
    unfold vals0. rewrite (lookup_fold_insert ins [] k ins_nodup). destruct (lookup k ins); reflexivity.
  Qed.

  Lemma vals0_NU : lookup NU vals0 = None.
  Proof.
    rewrite vals0_lookup. destruct (lookup NU ins) as [v|] eqn:Q; [|reflexivity].
    exfalso. destruct (lookup_ins_other _ Q) as (m & E). unfold NU in E. inversion E. apply HTU. auto.
  Qed.
  Lemma vals0_AT : lookup AT vals0 = None.
  Proof.
    rewrite vals0_lookup. destruct (lookup AT ins) as [v|] eqn:Q; [|reflexivity].
    exfalso. destruct (lookup_ins_other _ Q) as (m & E). discriminate.
  Qed.
  Lemma vals0_NT vn : lookup n named = Some vn -> lookup NT vals0 = Some vn.
  Proof. intros Q. rewrite vals0_lookup. unfold NT. rewrite lookup_ins_in. exact Q. Qed.

  (* ---------- running the selected converter ---------- *)
  Variable bh : behaviour.
  Hypothesis Honce : fn_once csel = false.

  Lemma reach_conv fuel'' s x s' r :
    lookup (inkey csel) (s_vals s) = Some x ->
    reach u bh PG false (S fuel'') CS s = Ok (s', r) ->
    r = inl [(inkey csel, x)] /\ s_vals s' = s_vals s /\ s_last s' = s_last s /\
    s_trace s' = s_trace s /\ s_nexec s' = s_nexec s /\ s_world s' = s_world s.
  Proof.
    intros Lk. rewrite reach_S. unfold reach_body. rewrite PG_out_CS.
    destruct (take_perm SITE_REACH_OUT [inkey csel] (s_tape (set_inprog s (CS :: s_inprog s))))
      as [[outs t1]| | |] eqn:TP; cbn [bind]; try discriminate.
    apply take_perm_single in TP. subst outs.
    unfold C0213UnsatReach.classify. cbn [fold_left].
    assert (E : lookup (inkey csel) (s_vals (set_tape (set_inprog s (CS :: s_inprog s)) t1)) = Some x) by exact Lk.
    destruct (inkey_cases csel Hsel) as [[Q _]|[Q _]]; rewrite Q in E |- *.
    - unfold AT in E |- *. rewrite E. intros X. inversion X. cbn. auto 10.
    - unfold NT in E |- *. rewrite E. intros X. inversion X. cbn. auto 10.
  Qed.

  Lemma call_direct_conv s x res s' :
    v_ty x = T ->
    call_direct u bh false csel [(inkey csel, x)] s = Ok (res, s') ->
    r_builderr res = false /\ s_vals s' = s_vals s /\ s_last s' = s_last s /\ s_tape s' = s_tape s /\
    (exists o1, nth_error (r_fields res) 0 = Some o1) /\
    s_trace s' = s_trace s ++ [EExec (fn_id csel) [mkV (v_id x) T] (r_fields res) (r_err res)].
  Proof.
    intros Tx. unfold call_direct. rewrite Honce.
    destruct (Hcs csel Hsel) as (Qi & Qo & _).
    assert (Args : map (fun fld => (fld, lookup (field_key fld) [(inkey csel, x)])) (fn_in csel) =
                   match fn_in csel with fi :: _ => [(fi, Some x)] | [] => [] end /\
                   (forall fi, In fi (fn_in csel) -> f_ty fi = T)).
    { unfold inkey. destruct Qi as [Qi|Qi]; rewrite Qi; cbn [map lookup fst snd].
      - rewrite Base.eqb_refl. split; [reflexivity|]. intros fi [<-|[]]. reflexivity.
      - rewrite Base.eqb_refl. split; [reflexivity|]. intros fi [<-|[]]. reflexivity. }
    destruct Args as [Args Tys]. rewrite Args.
    assert (E : exists fi, fn_in csel = [fi]) by (destruct Qi as [Qi|Qi]; rewrite Qi; eauto).
    destruct E as (fi & E). rewrite E in Tys |- *.
    assert (Tf : f_ty fi = T) by (apply Tys; left; reflexivity).
    cbn [existsb fst snd flat_map app orb]. rewrite Tf, Tx.
    unfold assignable. rewrite Z.eqb_refl. cbn [orb negb].
    unfold fresh_outs, zero_outs. rewrite Qo. cbn [List.length seq combine map fst snd].
    destruct (bh (fn_id csel) (s_nexec s + 1)); intros X; inversion X; cbn; eauto 10.
  Qed.

  Lemma output_values_conv res s s' o1 :
    nth_error (r_fields res) 0 = Some o1 ->
    output_values csel res [OO] s = Ok s' -> s' = set_val s OO (Some o1).
  Proof.
    intros Nt. unfold output_values. cbn [fold_left bind].
    destruct (Hcs csel Hsel) as (_ & Qo & _). rewrite Qo.
    destruct OO_cases as [(Eo & Q & _)|(Eo & Q & _)]; rewrite Q, Eo.
    - unfold OU. cbn [last_typed f_name f_ty]. cbn [String.eqb andb]. rewrite Z.eqb_refl. rewrite Nt.
      intros X. inversion X. reflexivity.
    - unfold NU. cbn [last_named f_name f_ty]. rewrite HnE, String.eqb_refl. cbn [negb andb]. rewrite Nt.
      intros X. inversion X. reflexivity.
  Qed.

  (* ---------- walking the planned path ---------- *)
  Variable vn : value.
  Hypothesis Hvn : lookup n named = Some vn.

  Lemma vn_ty : v_ty vn = T.
  Proof. apply lookup_In in Hvn. apply (Hnm n vn Hvn). Qed.

  Notation WF rec := (walk_f u bh PG false rec).

  Lemma walk_f_func rec prev ft0 vs final s :
    WF rec prev (KFunc ft0 :: vs) final s =
    match g_vertex PG (KFunc ft0) with
    | Some (PFunc f0) =>
        do (s, r) <- rec (KFunc ft0) s;
        match r with
        | inr e => Ok (s, inr e)
        | inl fam =>
            do (res, s) <- call_direct u bh false f0 fam s;
            if r_builderr res then Ok (s, inr XMissing)
            else match r_err res with
                 | Some e => Ok (s, inr (XConv e))
                 | None =>
                     do (ins, t') <- take_perm SITE_REACH_IN (g_in_keys PG (KFunc ft0)) (s_tape s);
                     do s <- output_values f0 res ins (set_tape s t');
                     WF rec (Some (KFunc ft0)) vs final s
                 end
        end
    | _ => Panic 403%N
    end.
  Proof. reflexivity. Qed.

  Definition good_result (r : option value + rerr) : Prop :=
    match r with inl None => False | _ => True end.

  Lemma walk_tail rec s final s' r o1 :
    lookup OO (s_vals s) = Some o1 ->
    WF rec (Some CS) otail final s = Ok (s', r) ->
    s_trace s' = s_trace s /\ good_result r.
  Proof.
    intros Lk. unfold otail.
    destruct OO_cases as [(Eo & Q & _)|(Eo & Q & _)]; rewrite Eo; rewrite Q in Lk.
    - cbn [String.eqb]. unfold OU, NU, CS in *. cbn [walk_f].
      cbn [set_last set_val set_vals s_vals s_last s_trace]. rewrite Lk.
      rewrite lookup_insert, Base.eqb_refl. intros X. inversion X. split; [reflexivity|exact I].
    - rewrite HnE. unfold NU, CS in *. cbn [walk_f].
      cbn [set_last set_val set_vals s_vals s_last s_trace]. rewrite Lk.
      intros X. inversion X. split; [reflexivity|exact I].
  Qed.

  Lemma walk_conv fuel'' prev final s s' r :
    lookup (inkey csel) (s_vals s) = Some vn ->
    WF (reach u bh PG false (S fuel'')) prev (CS :: otail) final s = Ok (s', r) ->
    (exists outs err, s_trace s' = s_trace s ++ [EExec (fn_id csel) [mkV (v_id vn) T] outs err]) /\ good_result r.
  Proof.
    intros Lk. change (CS :: otail) with (KFunc (fn_type csel) :: otail). rewrite walk_f_func.
    change (KFunc (fn_type csel)) with CS. rewrite PG_vertex_CS.
    destruct (reach u bh PG false (S fuel'') CS s) as [[s4 r4]| | |] eqn:RC; cbn [bind]; try discriminate.
    destruct (@reach_conv fuel'' s vn s4 r4 Lk RC) as (-> & V4 & L4 & T4 & _).
    destruct (call_direct u bh false csel [(inkey csel, vn)] s4) as [[res s5]| | |] eqn:CD; cbn [bind]; try discriminate.
    destruct (@call_direct_conv s4 vn res s5 vn_ty CD) as (Be & V5 & L5 & Tp5 & (o1 & Nt) & T5).
    rewrite Be.
    assert (Tr : s_trace s5 = s_trace s ++ [EExec (fn_id csel) [mkV (v_id vn) T] (r_fields res) (r_err res)]).
    { rewrite T5, T4. reflexivity. }
    destruct (r_err res) as [e|] eqn:Er.
    - intros X. inversion X; subst. split; [eauto|exact I].
    - rewrite PG_in_CS.
      destruct (take_perm SITE_REACH_IN [OO] (s_tape s5)) as [[ins0 t6]| | |] eqn:TP; cbn [bind]; try discriminate.
      apply take_perm_single in TP. subst ins0.
      destruct (output_values csel res [OO] (set_tape s5 t6)) as [s6| | |] eqn:OV; cbn [bind]; try discriminate.
      pose proof (@output_values_conv res (set_tape s5 t6) s6 o1 Nt OV) as E6.
      intros W. apply (@walk_tail _ s6 final s' r o1) in W.
      + destruct W as [W1 W2]. split; [|exact W2]. rewrite W1, E6. cbn [set_val set_vals s_trace set_tape]. eauto.
      + rewrite E6. cbn [set_val set_vals s_vals]. rewrite lookup_insert, Base.eqb_refl. reflexivity.
  Qed.

  Lemma walk_path fuel'' s1 s' r :
    s_vals s1 = vals0 ->
    WF (reach u bh PG false (S fuel'')) None the_path None s1 = Ok (s', r) ->
    (exists outs err, s_trace s' = s_trace s1 ++ [EExec (fn_id csel) [mkV (v_id vn) T] outs err]) /\ good_result r.
  Proof.
    intros V1. unfold the_path, mid.
    assert (LN : lookup NT (s_vals s1) = Some vn) by (rewrite V1; apply (vals0_NT Hvn)).
    destruct (inkey_cases csel Hsel) as [[Q _]|[Q _]].
    - rewrite Q. unfold AT at 1. cbn [app]. set (tl := CS :: otail). unfold NT, AT in *. cbn [walk_f].
      cbn [set_last set_val set_vals s_vals s_last s_trace]. rewrite LN.
      cbn [set_last set_val set_vals s_vals s_last s_trace].
      rewrite vn_ty. unfold assignable. rewrite Z.eqb_refl. cbn [orb].
      cbn [set_last set_val set_vals s_vals s_last s_trace].
      intros W.
      assert (Lk' : lookup (inkey csel) (s_vals (set_val (set_last s1 (Some vn)) (KArg T EmptyString) (Some vn))) = Some vn).
      { rewrite Q. unfold AT. cbn [set_val set_vals s_vals set_last]. rewrite lookup_insert, Base.eqb_refl. reflexivity. }
      exact (@walk_conv _ _ _ _ _ _ Lk' W).
    - rewrite Q. unfold NT at 2. cbn [app]. set (tl := CS :: otail). unfold NT in *. cbn [walk_f].
      cbn [set_last set_val set_vals s_vals s_last s_trace]. rewrite LN.
      intros W.
      assert (Lk' : lookup (inkey csel) (s_vals (set_last s1 (Some vn))) = Some vn).
      { rewrite Q. unfold NT. cbn [set_last s_vals]. exact LN. }
      exact (@walk_conv _ _ _ _ _ _ Lk' W).
  Qed.

  (* ---------- reachTarget on the target, and the call ---------- *)
  Definition trace_ok (tr : list event) : Prop :=
    exists outs err,
      tr = [EExec (fn_id csel) [mkV (v_id vn) T] outs err] \/
      exists a o e, tr = [EExec (fn_id csel) [mkV (v_id vn) T] outs err; EExec (fn_id f) a o e].

  Lemma reach_top fuel'' s0 s r :
    s_vals s0 = vals0 -> s_inprog s0 = [] -> s_trace s0 = [] ->
    reach u bh PG false (S (S fuel'')) fk s0 = Ok (s, r) ->
    exists outs err, s_trace s = [EExec (fn_id csel) [mkV (v_id vn) T] outs err].
  Proof.
    intros V0 P0 T0. rewrite reach_S. unfold reach_body. rewrite PG_out_fk, P0.
    destruct (take_perm SITE_REACH_OUT [NU] (s_tape (set_inprog s0 [fk]))) as [[outs t1]| | |] eqn:TP;
      cbn [bind]; try discriminate.
    apply take_perm_single in TP. subst outs.
    unfold C0213UnsatReach.classify. cbn [fold_left].
    set (s1 := set_tape (set_inprog s0 [fk]) t1).
    assert (V1 : s_vals s1 = vals0) by exact V0.
    assert (T1 : s_trace s1 = []) by exact T0.
    assert (P1 : s_inprog s1 = [fk]) by reflexivity.
    unfold NU at 1 2. fold NU. rewrite V1, vals0_NU. cbn [app].
    unfold plans. cbn [fold_left bind].
    destruct (plan PG false NU s1) as [[[path bad] s2]| | |] eqn:PL; cbn [bind]; try discriminate.
    destruct (@plan_eq s1 path bad s2 PL) as (-> & -> & t2 & ->).
    assert (B : existsb (fun v => memb v (s_inprog s1)) the_path = false).
    { destruct (existsb (fun v => memb v (s_inprog s1)) the_path) eqn:B; [|reflexivity].
      apply existsb_exists in B. destruct B as (v & Iv & Mv). rewrite P1 in Mv. cbn [memb] in Mv.
      rewrite orb_false_r in Mv. apply veqb_true in Mv. exfalso. apply (@the_path_no_fk v Iv Mv). }
    rewrite B. cbn [app walk_paths_f].
    set (s2 := add_input (set_tape s1 t2) NT).
    destruct (walk_f u bh PG false (reach u bh PG false (S fuel'')) None the_path None s2) as [[s3 r3]| | |] eqn:W;
      cbn [bind]; try discriminate.
    assert (V2 : s_vals s2 = vals0) by exact V1.
    destruct (@walk_path fuel'' s2 s3 r3 V2 W) as ((outs & err & Tr) & Gr).
    assert (T2 : s_trace s2 = []) by exact T1. rewrite T2 in Tr. cbn [app] in Tr.
    destruct r3 as [[fv|]|e].
    - intros X. inversion X. exists outs, err. exact Tr.
    - destruct Gr.
    - intros X. inversion X. exists outs, err. exact Tr.
  Qed.

  Theorem call_family opts t r :
    build_args [] opts = Some bd ->
    call u bh f [] opts world0 t = Ok r -> trace_ok (run_trace r).
  Proof.
    intros HB. rewrite (call_unfold u bh f [] opts world0 t HB (full_graph_eq t)), prune_eq.
    unfold fuel_of. cbn [cg_g CG cg_target].
    pose proof PG_keys_ge as Ge.
    destruct (List.length (g_vertex_keys PG)) as [|k2] eqn:El; [lia|].
    destruct (reach u bh PG false (S (S k2)) fk (init_state (CG t) world0)) as [[s r0]| | |] eqn:R;
      cbn [bind]; try discriminate.
    destruct (@reach_top k2 (init_state (CG t) world0) s r0 eq_refl eq_refl eq_refl R) as (outs & err & Tr).
    destruct r0 as [am|e].
    - destruct (call_direct u bh false f am s) as [[res s']| | |] eqn:CD; cbn [bind]; try discriminate.
      intros X. inversion X. cbn [run_trace].
      destruct (@call_direct_cases u bh f am s res s' CD) as [(_ & _ & ->)|[(_ & ->)|(_ & _ & _ & _ & a & o & e & Tr')]].
      + exists outs, err. left. exact Tr.
      + exists outs, err. left. exact Tr.
      + exists outs, err. right. exists a, o, e. rewrite Tr', Tr. reflexivity.
    - intros X. inversion X. cbn [run_trace]. exists outs, err. left. exact Tr.
  Qed.

  (* ---------- the search selects the converter: F1 and F2 ---------- *)
  Lemma reach_NT : GraphSpec.reach HH KRoot NT.
  Proof.
    destruct named_n as (vn0 & In').
    assert (R0 : GraphSpec.reach HH KRoot KRoot) by (exists [KRoot], 0; constructor; apply HH_root).
    apply (reach_edge R0 (proj1 (HH_isin n vn0 In'))).
  Qed.

  Lemma reach_inkey c : In c cs -> GraphSpec.reach HH KRoot (inkey c).
  Proof.
    intros Ic. destruct (inkey_cases c Ic) as [[Q _]|[Q _]]; rewrite Q; [|exact reach_NT].
    apply (reach_edge reach_NT HH_NA).
  Qed.

  Lemma prev_conv p c : fin_facts HH KRoot p -> In c cs -> lookup (KFunc (fn_type c)) p = Some (inkey c).
  Proof.
    intros (_ & Pe & Pr) Ic.
    assert (RC : GraphSpec.reach HH KRoot (KFunc (fn_type c))) by (apply (reach_edge (reach_inkey c Ic) (HH_c_edge c Ic))).
    destruct (Pr _ RC ltac:(discriminate)) as (x & Q). destruct (Pe _ _ Q) as (w & Ed).
    destruct (HH_c_in c Ic Ed) as [-> _]. exact Q.
  Qed.

  Lemma sel_F1 : cs = [csel] ->
    forall pops d p, dijkstra HH KRoot pops = Ok (d, p) -> selected p /\ fin_facts HH KRoot p.
  Proof.
    intros Ecs pops d p Dj.
    destruct (@aff1_dijkstra vkey _ vpay HH KRoot HH_wf HH_root HH_wbound HH_small HH_src_in NT AT) with (pops := pops) (d := d) (p := p)
      as [PA FF].
    - destruct named_n as (vn0 & In'). apply (HH_isin n vn0 In').
    - apply HH_A_in.
    - apply HH_NA.
    - exact Dj.
    - split; [|exact FF]. split; [|split; [apply (@prev_conv p csel FF Hsel)|intros _; exact PA]].
      destruct FF as (P0 & Pe & Pr).
      assert (RO : GraphSpec.reach HH KRoot OO).
      { apply (reach_edge (reach_edge (reach_inkey csel Hsel) (HH_c_edge csel Hsel)) (HH_OO_edge csel Hsel)). }
      assert (NO : OO <> KRoot) by (destruct OO_cases as [(_ & Q & _)|(_ & Q & _)]; rewrite Q; discriminate).
      destruct (Pr _ RO NO) as (x & Q). destruct (Pe _ _ Q) as (w & Ed).
      destruct (HH_OO_in Ed) as (c & Ic & -> & _). rewrite Ecs in Ic. destruct Ic as [<-|[]]. exact Q.
  Qed.

  Lemma isn_NT : isn n NT = true.
  Proof. cbn [isn NT]. apply String.eqb_refl. Qed.

  Lemma sel_F2 cother :
    In cother cs -> (forall c, In c cs -> c = csel \/ c = cother) ->
    inkey csel = NT -> inkey cother = AT ->
    forall pops d p, dijkstra HH KRoot pops = Ok (d, p) -> selected p /\ fin_facts HH KRoot p.
  Proof.
    intros Io Hall Qs Qo pops d p Dj.
    assert (Ty : fn_type csel <> fn_type cother).
    { intros E. pose proof (@NoDup_map_inj _ _ fn_type cs csel cother Hcnd Hsel Io E) as X.
      rewrite X in Qs. rewrite Qs in Qo. discriminate. }
    assert (Wo : 1 <= wo <= 5).
    { destruct OO_cases as [(_ & _ & Q)|(_ & _ & Q)]; rewrite Q; unfold w_typed, w_normal; lia. }
    assert (Wc : inw cother = 5).
    { destruct (inkey_cases cother Io) as [[_ Q]|[Q _]]; [exact Q|]. rewrite Q in Qo. discriminate. }
    destruct (@aff2_dijkstra vkey _ vpay HH KRoot HH_wf HH_root HH_wbound HH_small HH_src_in NT AT) with
      (D := CS) (C := KFunc (fn_type cother)) (O := OO) (wo := wo) (pops := pops) (d := d) (p := p)
      as (PO & PD & FF).
    - destruct named_n as (vn0 & In'). apply (HH_isin n vn0 In').
    - apply HH_A_in.
    - apply HH_NA.
    - exact Wo.
    - intros a w Ed. destruct (HH_c_in csel Hsel Ed) as [-> ->]. rewrite Qs, isn_NT. split; reflexivity.
    - pose proof (HH_c_edge csel Hsel) as Ed. rewrite Qs, isn_NT in Ed. exact Ed.
    - intros a w Ed. destruct (HH_c_in cother Io Ed) as [-> ->]. rewrite Qo. cbn [isn AT]. split; [reflexivity|exact Wc].
    - pose proof (HH_c_edge cother Io) as Ed. rewrite Qo in Ed. cbn [isn AT] in Ed. rewrite Wc in Ed. exact Ed.
    - intros a w Ed. destruct (HH_OO_in Ed) as (c & Ic & -> & ->). split; [|reflexivity].
      destruct (Hall c Ic) as [->| ->]; [right|left]; reflexivity.
    - apply (HH_OO_edge csel Hsel).
    - assert (N1 : OO <> KRoot /\ OO <> NT /\ OO <> AT /\ OO <> CS /\ OO <> KFunc (fn_type cother)).
      { pose proof NU_ne_NT. destruct OO_cases as [(_ & Q & _)|(_ & Q & _)]; rewrite Q; repeat split; try discriminate. assumption. }
      destruct N1 as (N1 & N2 & N3 & N4 & N5).
      assert (N6 : CS <> KFunc (fn_type cother)) by (unfold CS; intros X; inversion X; contradiction).
      repeat constructor; simpl; intuition (try discriminate; try congruence).
    - exact Dj.
    - split; [|exact FF]. split; [exact PO|]. split; [rewrite Qs; exact PD|].
      intros E. rewrite Qs in E. discriminate.
  Qed.
End Family.

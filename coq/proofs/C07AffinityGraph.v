(* C07AffinityGraph.v -- exact characterisation (vertices, edges, payloads) of
   the call graph of the name-affinity families F1 / F2, of its pruning and of
   the matching-name discount.  Helper of C07Affinity.v *)
From ArgMapper Require Import Base Graph GraphAlg GraphSpec Types Args Resolver ResolverSpec GenWeights.
From ArgMapper.proofs Require Import C18DijkstraLemmas C19RefineMap C19RefineGraph C0213UnsatGraph
     C0213UnsatClosure C0213UnsatBuild C0213UnsatPrune C07AffinityOps.
From Coq Require Import List Lia ZArith String.
Import ListNotations.
Set Implicit Arguments.
Local Open Scope Z_scope.

(* ---------- small generic facts ---------- *)
Lemma present_iff ops g k :
  wf_graph g -> (present (app_ops ops g) k = true <-> present g k = true \/ In k (verts ops)).
Proof.
  intros W. destruct (app_ops_spec ops W) as (_ & Hv & _). rewrite Hv, orb_true_iff, membT. reflexivity.
Qed.

Lemma in_verts_app k o1 o2 : In k (verts (o1 ++ o2)) <-> In k (verts o1) \/ In k (verts o2).
Proof. rewrite verts_app. apply in_app_iff. Qed.

Lemma in_verts_flat_map {A} k (h : A -> list op) l :
  In k (verts (flat_map h l)) <-> exists x, In x l /\ In k (verts (h x)).
Proof.
  unfold verts. rewrite in_flat_map. split.
  - intros (o & Io & Ik). apply in_flat_map in Io. destruct Io as (x & Ix & Io).
    exists x. split; [exact Ix|]. apply in_flat_map. eauto.
  - intros (x & Ix & Ik). apply in_flat_map in Ik. destruct Ik as (o & Io & Ik).
    exists o. split; [|exact Ik]. apply in_flat_map. eauto.
Qed.

Lemma nodup_singleton {A} (l : list A) (a : A) :
  NoDup l -> (forall x, In x l <-> x = a) -> l = [a].
Proof.
  intros ND H. destruct l as [|x l].
  - exfalso. apply (proj2 (H a) eq_refl).
  - assert (x = a) by (apply H; left; reflexivity). subst x.
    destruct l as [|y l]; [reflexivity|].
    assert (y = a) by (apply H; right; left; reflexivity). subst y.
    inversion ND as [|? ? NI _]. exfalso. apply NI. left. reflexivity.
Qed.

Lemma g_root_wf : wf_graph g_root.
Proof. apply (gi_wf (g_root_inv [])). Qed.
Lemma g_root_present k : present g_root k = true <-> k = KRoot.
Proof.
  unfold g_root. destruct (add_spec KRoot PNone (@wf_empty vkey _ vpay)) as (_ & Hv & _).
  unfold present. rewrite Hv. destruct k; cbn; split; try congruence; try discriminate; auto.
Qed.
Lemma g_root_noedge a b : ew g_root a b = None.
Proof.
  unfold g_root. destruct (add_spec KRoot PNone (@wf_empty vkey _ vpay)) as (_ & _ & He).
  rewrite He. unfold ew. cbn. reflexivity.
Qed.

(* ---------- where a payload comes from ---------- *)
Lemma vtx_sound ops : forall g k p,
  wf_graph g -> vtx (app_ops ops g) k = Some p ->
  vtx g k = Some p \/ In (OF k p) ops \/ (p = PNone /\ (In (OV k) ops \/ In (OW k) ops)).
Proof.
  induction ops as [|o r IH]; intros g k p W Q; [left; exact Q|].
  change (app_ops (o :: r) g) with (app_ops r (app_op g o)) in Q.
  destruct (app_op_spec o W) as (W1 & _ & _).
  destruct (IH _ _ _ W1 Q) as [Q1|[Q1|(-> & [Q1|Q1])]].
  - destruct o as [k0|k0 p0|k0|a0 b0 w0]; simpl in Q1.
    + destruct (add_v_spec k0 W) as (_ & Hv & _). rewrite Hv in Q1.
      destruct (present g k0); [left; exact Q1|].
      destruct (Base.eqb_spec k k0) as [->|N]; [|left; exact Q1].
      inversion Q1; subst. right. right. split; [reflexivity|]. left. left. reflexivity.
    + destruct (add_spec k0 p0 W) as (_ & Hv & _). rewrite Hv in Q1.
      destruct (vtx g k0); [left; exact Q1|].
      destruct (Base.eqb_spec k k0) as [->|N]; [|left; exact Q1].
      inversion Q1; subst. right. left. left. reflexivity.
    + destruct (overwrite_spec k0 PNone W) as (_ & Hv & _). rewrite Hv in Q1.
      destruct (Base.eqb_spec k k0) as [->|N]; [|left; exact Q1].
      inversion Q1; subst. right. right. split; [reflexivity|]. right. left. reflexivity.
    + destruct (add_e_spec a0 b0 w0 W) as (_ & Hv & _). rewrite Hv in Q1. left. exact Q1.
  - right. left. right. exact Q1.
  - right. right. split; [reflexivity|]. left. right. exact Q1.
  - right. right. split; [reflexivity|]. right. right. exact Q1.
Qed.

Lemma fops_OF c io k p : In (OF k p) (fops c io) -> k = KFunc (fn_type c) /\ p = PFunc c.
Proof.
  unfold fops. rewrite !in_app_iff. intros [H|[H|[H|H]]].
  - destruct H as [H|[]]. inversion H. auto.
  - destruct (fn_in c); [destruct H as [H|[]]; discriminate|destruct H].
  - apply in_flat_map in H. destruct H as (x & _ & [H|[H|[]]]); discriminate.
  - destruct io; [|destruct H]. apply in_app_iff in H.
    destruct H as [H|H]; apply in_flat_map in H; destruct H as (x & _ & [H|[H|[]]]); discriminate.
Qed.
Lemma fops_nf c io k : In (OV k) (fops c io) \/ In (OW k) (fops c io) -> is_func k = false.
Proof.
  unfold fops. rewrite !in_app_iff. intros [[H|[H|[H|H]]]|[H|[H|[H|H]]]].
  - destruct H as [H|[]]. discriminate.
  - destruct (fn_in c); [destruct H as [H|[]]; discriminate|destruct H].
  - apply in_flat_map in H. destruct H as (x & _ & [H|[H|[]]]); try discriminate.
    inversion H. apply field_key_nf.
  - destruct io; [|destruct H]. apply in_app_iff in H.
    destruct H as [H|H]; apply in_flat_map in H; destruct H as (x & _ & [H|[H|[]]]); try discriminate;
      inversion H; apply field_out_key_nf.
  - destruct H as [H|[]]. discriminate.
  - destruct (fn_in c); [destruct H as [H|[]]; discriminate|destruct H].
  - apply in_flat_map in H. destruct H as (x & _ & [H|[H|[]]]); discriminate.
  - destruct io; [|destruct H]. apply in_app_iff in H.
    destruct H as [H|H]; apply in_flat_map in H; destruct H as (x & _ & [H|[H|[]]]); discriminate.
Qed.
Lemma val_ops_OF l k p : In (OF k p) (flat_map val_ops l) -> False.
Proof.
  intros H. apply in_flat_map in H. destruct H as (x & _ & H).
  destruct x as [|ft|n t s|t s|t s]; [destruct H|destruct H| |destruct H|destruct H].
  cbn in H. destruct (String.eqb s EmptyString); cbn in H; intuition discriminate.
Qed.
Lemma val_ops_nf l k : In (OV k) (flat_map val_ops l) \/ In (OW k) (flat_map val_ops l) -> is_func k = false.
Proof.
  intros [H|H]; apply in_flat_map in H; destruct H as (x & _ & H);
    (destruct x as [|ft|n t s|t s|t s]; [destruct H|destruct H| |destruct H|destruct H]); cbn in H;
    destruct (String.eqb s EmptyString); cbn in H;
    repeat (destruct H as [H|H]; [try discriminate; inversion H; reflexivity|]); destruct H.
Qed.
Lemma arg_ops_OF l k p : In (OF k p) (flat_map arg_ops l) -> False.
Proof.
  intros H. apply in_flat_map in H. destruct H as (x & _ & H).
  destruct x as [|ft|n t s|t s|t s]; [destruct H|destruct H|destruct H| |destruct H].
  cbn in H. intuition discriminate.
Qed.
Lemma arg_ops_nf l k : In (OV k) (flat_map arg_ops l) \/ In (OW k) (flat_map arg_ops l) -> is_func k = false.
Proof.
  intros [H|H]; apply in_flat_map in H; destruct H as (x & _ & H);
    (destruct x as [|ft|n t s|t s|t s]; [destruct H|destruct H|destruct H| |destruct H]); cbn in H;
    repeat (destruct H as [H|H]; [try discriminate; inversion H; reflexivity|]); destruct H.
Qed.
Lemma ins_ops_OF l k p : In (OF k p) (ins_ops l) -> False.
Proof.
  unfold ins_ops. intros H. apply in_flat_map in H. destruct H as (x & _ & [H|[H|[]]]); discriminate.
Qed.
Lemma ins_ops_nf l k : (forall kv, In kv l -> is_func (fst kv) = false) ->
  In (OV k) (ins_ops l) \/ In (OW k) (ins_ops l) -> is_func k = false.
Proof.
  unfold ins_ops. intros Hl [H|H]; apply in_flat_map in H; destruct H as (x & Ix & [H|[H|[]]]); try discriminate.
  inversion H; subst. apply Hl. exact Ix.
Qed.

Section Family.
  Variables (u : universe) (n : string) (T U : ty) (f : fdecl) (cs : list fdecl)
            (named : list (string * value)) (onm : string).
  Hypothesis HTU : T <> U.
  Hypothesis HnE : String.eqb n EmptyString = false.
  Hypothesis Hf : fn_in f = [mkF n U EmptyString].
  Hypothesis Hon : onm = EmptyString \/ onm = n.
  Hypothesis Hcs : forall c, In c cs ->
      (fn_in c = [mkF EmptyString T EmptyString] \/ fn_in c = [mkF n T EmptyString]) /\
      fn_out c = [mkF onm U EmptyString] /\ fn_type c <> fn_type f.
  Hypothesis Hcnd : NoDup (map fn_type cs).
  Hypothesis Hnm : forall m v, In (m, v) named -> String.eqb m EmptyString = false /\ v_ty v = T.
  Hypothesis HnIn : In n (map fst named).
  Hypothesis HiT : is_iface u T = false.
  Hypothesis HiU : is_iface u U = false.

  Definition NU := KVal n U EmptyString.
  Definition AT := KArg T EmptyString.
  Definition OT := KOut T EmptyString.
  Definition AU := KArg U EmptyString.
  Definition OU := KOut U EmptyString.
  Definition NT := KVal n T EmptyString.
  Definition OO := if String.eqb onm EmptyString then OU else NU.
  Definition wo := if String.eqb onm EmptyString then w_typed else w_normal.
  Definition inkey (c : fdecl) : vkey := match fn_in c with fi :: _ => field_key fi | [] => KRoot end.
  Definition inw (c : fdecl) : Z :=
    match fn_in c with fi :: _ => if String.eqb (f_name fi) EmptyString then w_typed else w_normal | [] => 0 end.
  Definition ins : list (vkey * value) := map (fun kv => (KVal (fst kv) T EmptyString, snd kv)) named.
  Definition fk := KFunc (fn_type f).

  Lemma inkey_cases c : In c cs -> (inkey c = AT /\ inw c = w_typed) \/ (inkey c = NT /\ inw c = w_normal).
  Proof.
    intros I. destruct (Hcs c I) as ([Q|Q] & _ & _); unfold inkey, inw; rewrite Q; cbn.
    - left. split; reflexivity.
    - right. unfold field_key. cbn. rewrite HnE. split; reflexivity.
  Qed.

  Lemma fops_target : fops f false = [OF fk (PFunc f); OV NU; OE fk NU w_normal].
  Proof.
    unfold fops. rewrite Hf. cbn. unfold field_key. cbn. rewrite HnE. reflexivity.
  Qed.

  Lemma fops_conv c : In c cs ->
    fops c true = [OF (KFunc (fn_type c)) (PFunc c); OV (inkey c); OE (KFunc (fn_type c)) (inkey c) (inw c);
                   OV OO; OE OO (KFunc (fn_type c)) wo].
  Proof.
    intros I. destruct (Hcs c I) as (Hin & Hout & _).
    unfold fops, inkey, inw, OO, wo. rewrite Hout.
    assert (E : exists fi, fn_in c = [fi]) by (destruct Hin as [Q|Q]; rewrite Q; eauto).
    destruct E as (fi & E). rewrite E.
    unfold named_entries, typed_entries. cbn.
    destruct Hon as [->| ->].
    - cbn. rewrite Z.eqb_refl. cbn. reflexivity.
    - rewrite !HnE. cbn. rewrite ?HnE, String.eqb_refl. cbn.
      unfold field_out_key. cbn. rewrite ?HnE. reflexivity.
  Qed.

  (* ---------- the operation lists ---------- *)
  Definition L123 : list op := fops f false ++ ins_ops ins ++ flat_map (fun c => fops c true) cs.
  Definition g3 : rgraph := app_ops L123 g_root.
  Definition L4 : list op := flat_map val_ops (val_keys g3).
  Definition g5 : rgraph := app_ops L4 g3.
  Definition L5 : list op := flat_map arg_ops (arg_keys g5).
  Definition GG : rgraph := app_ops L5 g5.

  Lemma named_n : exists vn, In (n, vn) named.
  Proof.
    apply in_map_iff in HnIn. destruct HnIn as ([m v] & E & I). simpl in E. subst m. eauto.
  Qed.

  Lemma in_L123_OE a b w :
    In (OE a b w) L123 <->
    (a = fk /\ b = NU /\ w = w_normal) \/
    (exists m v, In (m, v) named /\ a = KVal m T EmptyString /\ b = KRoot /\ w = w_normal) \/
    (exists c, In c cs /\ ((a = KFunc (fn_type c) /\ b = inkey c /\ w = inw c) \/
                           (a = OO /\ b = KFunc (fn_type c) /\ w = wo))).
  Proof.
    unfold L123. rewrite fops_target, !in_app_iff. unfold ins_ops. rewrite !in_flat_map. split.
    - intros [H|[H|H]].
      + simpl in H. destruct H as [H|[H|[H|[]]]]; try discriminate. inversion H. left. auto.
      + destruct H as (kv & Ikv & H). unfold ins in Ikv. apply in_map_iff in Ikv.
        destruct Ikv as ([m v] & <- & Inv). simpl in H. destruct H as [H|[H|[]]]; try discriminate.
        inversion H. right. left. exists m, v. auto.
      + destruct H as (c & Ic & H). rewrite (fops_conv c Ic) in H. simpl in H.
        destruct H as [H|[H|[H|[H|[H|[]]]]]]; try discriminate; inversion H; right; right; exists c; auto.
    - intros [(-> & -> & ->)|[(m & v & I & -> & -> & ->)|(c & Ic & [(-> & -> & ->)|(-> & -> & ->)])]].
      + left. simpl. auto.
      + right. left. exists (KVal m T EmptyString, v). split; [|simpl; auto].
        unfold ins. apply in_map_iff. exists (m, v). auto.
      + right. right. exists c. split; [exact Ic|]. rewrite (fops_conv c Ic). simpl. auto.
      + right. right. exists c. split; [exact Ic|]. rewrite (fops_conv c Ic). simpl. auto 6.
  Qed.

  Lemma in_L123_verts k :
    In k (verts L123) <->
    k = fk \/ k = NU \/ (exists m v, In (m, v) named /\ k = KVal m T EmptyString) \/
    (exists c, In c cs /\ (k = KFunc (fn_type c) \/ k = inkey c \/ k = OO)).
  Proof.
    unfold L123. rewrite fops_target, !in_verts_app. unfold ins_ops. rewrite !in_verts_flat_map. split.
    - intros [H|[H|H]].
      + simpl in H. destruct H as [H|[H|[]]]; auto.
      + destruct H as (kv & Ikv & H). unfold ins in Ikv. apply in_map_iff in Ikv.
        destruct Ikv as ([m v] & <- & Inv). simpl in H. destruct H as [H|[]].
        right. right. left. exists m, v. auto.
      + destruct H as (c & Ic & H). rewrite (fops_conv c Ic) in H. simpl in H.
        destruct H as [H|[H|[H|[]]]]; right; right; right; exists c; auto.
    - intros [->|[->|[(m & v & I & ->)|(c & Ic & H)]]].
      + left. simpl. auto.
      + left. simpl. auto.
      + right. left. exists (KVal m T EmptyString, v). split; [|simpl; auto].
        unfold ins. apply in_map_iff. exists (m, v). auto.
      + right. right. exists c. split; [exact Ic|]. rewrite (fops_conv c Ic). simpl.
        destruct H as [->|[->| ->]]; auto.
  Qed.

  Lemma g3_wf : wf_graph g3.
  Proof. apply (app_ops_spec L123 g_root_wf). Qed.

  Lemma g3_present k : present g3 k = true <-> k = KRoot \/ In k (verts L123).
  Proof. unfold g3. rewrite (present_iff L123 k g_root_wf), g_root_present. reflexivity. Qed.

  Lemma OO_cases : (onm = EmptyString /\ OO = OU /\ wo = w_typed) \/ (onm = n /\ OO = NU /\ wo = w_normal).
  Proof.
    unfold OO, wo. destruct Hon as [->| ->]; [left; auto|right]. rewrite HnE. auto.
  Qed.

  Lemma g3_val m t s :
    present g3 (KVal m t s) = true <->
    KVal m t s = NU \/ (exists v, In (m, v) named /\ t = T /\ s = EmptyString).
  Proof.
    rewrite g3_present, in_L123_verts. split.
    - intros [H|[H|[H|[(m0 & v & I & H)|(c & Ic & [H|[H|H]])]]]]; try discriminate.
      + left. exact H.
      + inversion H; subst. right. eauto.
      + destruct (inkey_cases c Ic) as [[Q _]|[Q _]]; rewrite Q in H; [discriminate|].
        inversion H; subst. destruct named_n as (vn & In'). right. eauto.
      + destruct OO_cases as [(_ & Q & _)|(_ & Q & _)]; rewrite Q in H; [discriminate|]. left. exact H.
    - intros [H|(v & I & -> & ->)].
      + right. right. left. exact H.
      + right. right. right. left. eauto.
  Qed.

  Lemma in_L4_OE a b w :
    In (OE a b w) L4 <->
    (a = NU /\ b = OU /\ w = w_typed) \/ (a = AU /\ b = NU /\ w = w_typed) \/
    (exists m v, In (m, v) named /\ w = w_typed /\
                 ((a = KVal m T EmptyString /\ b = OT) \/ (a = AT /\ b = KVal m T EmptyString))).
  Proof.
    unfold L4. rewrite in_flat_map. split.
    - intros (k & Ik & H). apply in_val_keys in Ik. destruct Ik as [(m & t & s & ->) P].
      apply g3_val in P. destruct P as [P|(v & I & -> & ->)].
      + inversion P; subst. cbn in H. destruct H as [H|[H|[H|[H|[]]]]]; try discriminate; inversion H; auto.
      + cbn in H. destruct H as [H|[H|[H|[H|[]]]]]; try discriminate; inversion H;
          right; right; exists m, v; auto.
    - intros [(-> & -> & ->)|[(-> & -> & ->)|(m & v & I & -> & [(-> & ->)|(-> & ->)])]].
      + exists NU. split; [|cbn; auto]. apply in_val_keys. split; [unfold NU; eauto|]. apply g3_val. auto.
      + exists NU. split; [|cbn; auto 6]. apply in_val_keys. split; [unfold NU; eauto|]. apply g3_val. auto.
      + exists (KVal m T EmptyString). split; [|cbn; auto]. apply in_val_keys. split; [eauto|]. apply g3_val. eauto.
      + exists (KVal m T EmptyString). split; [|cbn; auto 6]. apply in_val_keys. split; [eauto|]. apply g3_val. eauto.
  Qed.

  Lemma in_L4_verts k : In k (verts L4) <-> k = OU \/ k = AU \/ k = OT \/ k = AT.
  Proof.
    unfold L4. rewrite in_verts_flat_map. split.
    - intros (x & Ix & H). apply in_val_keys in Ix. destruct Ix as [(m & t & s & ->) P].
      apply g3_val in P. destruct P as [P|(v & I & -> & ->)].
      + inversion P; subst. cbn in H. destruct H as [H|[H|[]]]; auto.
      + cbn in H. destruct H as [H|[H|[]]]; auto.
    - destruct named_n as (vn & In').
      assert (P1 : In NU (val_keys g3)).
      { apply in_val_keys. split; [unfold NU; eauto|]. apply g3_val. auto. }
      assert (P2 : In NT (val_keys g3)).
      { apply in_val_keys. split; [unfold NT; eauto|]. apply g3_val. eauto. }
      intros [->|[->|[->| ->]]].
      + exists NU. split; [exact P1|cbn; auto].
      + exists NU. split; [exact P1|cbn; auto].
      + exists NT. split; [exact P2|cbn; auto].
      + exists NT. split; [exact P2|cbn; auto].
  Qed.

  Lemma g5_wf : wf_graph g5.
  Proof. apply (app_ops_spec L4 g3_wf). Qed.

  Lemma g5_present k : present g5 k = true <-> k = KRoot \/ In k (verts L123) \/ In k (verts L4).
  Proof. unfold g5. rewrite (present_iff L4 k g3_wf), g3_present. tauto. Qed.

  Lemma g5_arg t s : present g5 (KArg t s) = true <-> KArg t s = AT \/ KArg t s = AU.
  Proof.
    rewrite g5_present, in_L123_verts, in_L4_verts. split.
    - intros [H|[[H|[H|[(m0 & v & I & H)|(c & Ic & [H|[H|H]])]]]|[H|[H|[H|H]]]]]; try discriminate; auto.
      + destruct (inkey_cases c Ic) as [[Q _]|[Q _]]; rewrite Q in H; [auto|discriminate].
      + destruct OO_cases as [(_ & Q & _)|(_ & Q & _)]; rewrite Q in H; discriminate.
    - intros [H|H]; right; right; auto.
  Qed.

  Lemma in_L5_OE a b w :
    In (OE a b w) L5 <-> w = w_typed /\ ((a = AT /\ b = OT) \/ (a = AU /\ b = OU)).
  Proof.
    unfold L5. rewrite in_flat_map. split.
    - intros (k & Ik & H). apply in_arg_keys in Ik. destruct Ik as [(t & s & ->) P].
      apply g5_arg in P. cbn in H. destruct H as [H|[H|[]]]; try discriminate. inversion H; subst.
      split; [reflexivity|]. destruct P as [P|P]; inversion P; subst; auto.
    - intros (-> & [(-> & ->)|(-> & ->)]).
      + exists AT. split; [|cbn; auto]. apply in_arg_keys. split; [unfold AT; eauto|]. apply g5_arg. auto.
      + exists AU. split; [|cbn; auto]. apply in_arg_keys. split; [unfold AU; eauto|]. apply g5_arg. auto.
  Qed.

  Lemma in_L5_verts k : In k (verts L5) <-> k = OT \/ k = OU.
  Proof.
    unfold L5. rewrite in_verts_flat_map. split.
    - intros (x & Ix & H). apply in_arg_keys in Ix. destruct Ix as [(t & s & ->) P].
      apply g5_arg in P. cbn in H. destruct H as [H|[]]. subst k.
      destruct P as [P|P]; inversion P; subst; auto.
    - intros [->| ->].
      + exists AT. split; [|cbn; auto]. apply in_arg_keys. split; [unfold AT; eauto|]. apply g5_arg. auto.
      + exists AU. split; [|cbn; auto]. apply in_arg_keys. split; [unfold AU; eauto|]. apply g5_arg. auto.
  Qed.

  Lemma GG_wf : wf_graph GG.
  Proof. apply (app_ops_spec L5 g5_wf). Qed.

  (* ---------- the full graph: vertices and edges ---------- *)
  Inductive fvert : vkey -> Prop :=
  | fv_root : fvert KRoot
  | fv_f : fvert fk
  | fv_nu : fvert NU
  | fv_in m v : In (m, v) named -> fvert (KVal m T EmptyString)
  | fv_c c : In c cs -> fvert (KFunc (fn_type c))
  | fv_at : fvert AT
  | fv_ot : fvert OT
  | fv_au : fvert AU
  | fv_ou : fvert OU.

  Inductive fedge : vkey -> vkey -> Z -> Prop :=
  | fe_target : fedge fk NU w_normal
  | fe_input m v : In (m, v) named -> fedge (KVal m T EmptyString) KRoot w_normal
  | fe_cin c : In c cs -> fedge (KFunc (fn_type c)) (inkey c) (inw c)
  | fe_cout c : In c cs -> fedge OO (KFunc (fn_type c)) wo
  | fe_nu_ou : fedge NU OU w_typed
  | fe_au_nu : fedge AU NU w_typed
  | fe_in_ot m v : In (m, v) named -> fedge (KVal m T EmptyString) OT w_typed
  | fe_at_in m v : In (m, v) named -> fedge AT (KVal m T EmptyString) w_typed
  | fe_at_ot : fedge AT OT w_typed
  | fe_au_ou : fedge AU OU w_typed.

  Definition Ltot : list op := L123 ++ L4 ++ L5.

  Lemma GG_eq : GG = app_ops Ltot g_root.
  Proof. unfold GG, g5, g3, Ltot. rewrite !app_ops_app. reflexivity. Qed.

  Lemma in_Ltot_OE a b w : In (OE a b w) Ltot <-> fedge a b w.
  Proof.
    unfold Ltot. rewrite !in_app_iff, in_L123_OE, in_L4_OE, in_L5_OE. split.
    - intros [[(-> & -> & ->)|[(m & v & I & -> & -> & ->)|(c & Ic & [(-> & -> & ->)|(-> & -> & ->)])]]|
              [[(-> & -> & ->)|[(-> & -> & ->)|(m & v & I & -> & [(-> & ->)|(-> & ->)])]]|
               (-> & [(-> & ->)|(-> & ->)])]].
      + constructor.
      + econstructor; eauto.
      + constructor; auto.
      + constructor; auto.
      + constructor.
      + constructor.
      + econstructor; eauto.
      + econstructor; eauto.
      + constructor.
      + constructor.
    - intros H. destruct H as [|m v I|c Ic|c Ic| | |m v I|m v I| |].
      + left. left. auto.
      + left. right. left. eauto 8.
      + left. right. right. exists c. auto.
      + left. right. right. exists c. auto 6.
      + right. left. left. auto.
      + right. left. right. left. auto.
      + right. left. right. right. exists m, v. auto.
      + right. left. right. right. exists m, v. auto 6.
      + right. right. auto.
      + right. right. auto.
  Qed.

  Lemma inkey_fvert c : In c cs -> fvert (inkey c).
  Proof.
    intros Ic. destruct (inkey_cases c Ic) as [[Q _]|[Q _]]; rewrite Q; [constructor|].
    destruct named_n as (vn & In'). unfold NT. econstructor; eauto.
  Qed.
  Lemma OO_fvert : fvert OO.
  Proof. destruct OO_cases as [(_ & Q & _)|(_ & Q & _)]; rewrite Q; constructor. Qed.

  Lemma GG_present k : present GG k = true <-> fvert k.
  Proof.
    unfold GG. rewrite (present_iff L5 k g5_wf), g5_present, in_L123_verts, in_L4_verts, in_L5_verts. split.
    - intros [[->|[[->|[->|[(m & v & I & ->)|(c & Ic & [->|[->| ->]])]]]|[->|[->|[->| ->]]]]]|[->| ->]];
        try (constructor; fail).
      + econstructor; eauto.
      + constructor; auto.
      + apply inkey_fvert; auto.
      + apply OO_fvert.
    - intros H. destruct H as [| | |m v I|c Ic| | | |].
      + left. left. reflexivity.
      + left. right. left. left. reflexivity.
      + left. right. left. right. left. reflexivity.
      + left. right. left. right. right. left. eauto.
      + left. right. left. right. right. right. exists c. auto.
      + left. right. right. auto.
      + left. right. right. auto.
      + left. right. right. auto.
      + left. right. right. auto.
  Qed.

  (* the weight is determined by the shape of the endpoints *)
  Definition wt (a b : vkey) : Z :=
    match a, b with
    | KFunc _, KVal _ _ _ => w_normal
    | KVal _ _ _, KRoot => w_normal
    | KVal _ _ _, KFunc _ => w_normal
    | _, _ => w_typed
    end.
  Lemma fedge_wt a b w : fedge a b w -> w = wt a b.
  Proof.
    intros H. destruct H as [|m v I|c Ic|c Ic| | |m v I|m v I| |]; try reflexivity.
    - destruct (inkey_cases c Ic) as [[Q R]|[Q R]]; rewrite Q, R; reflexivity.
    - destruct OO_cases as [(_ & Q & R)|(_ & Q & R)]; rewrite Q, R; reflexivity.
  Qed.

  Lemma Ltot_consistent : consistent Ltot.
  Proof.
    intros a b w w' I1 I2. apply in_Ltot_OE in I1. apply in_Ltot_OE in I2.
    rewrite (fedge_wt I1), (fedge_wt I2). reflexivity.
  Qed.

  Lemma Ltot_wseq : wseq (fun k => present g_root k = true) Ltot.
  Proof.
    assert (R : present g_root KRoot = true) by (apply g_root_present; reflexivity).
    unfold Ltot. apply wseq_app; [unfold L123; apply wseq_app; [|apply wseq_app]|apply wseq_app].
    - rewrite fops_target. simpl. auto 8.
    - unfold ins_ops. apply wseq_flat_map. intros kv Q Ikv PQ. simpl. split; [auto|]. split; [|exact I].
      left. apply PQ. left. exact R.
    - apply wseq_flat_map. intros c Q Ic PQ. rewrite (fops_conv c Ic). simpl. auto 12.
    - unfold L4. apply wseq_flat_map. intros k Q Ik PQ. apply in_val_keys in Ik.
      destruct Ik as [(m & t & s & ->) P].
      assert (Qk : Q (KVal m t s)).
      { apply PQ. apply g3_present in P. destruct P as [P|P]; [discriminate|]. right. exact P. }
      apply g3_val in P. assert (s = EmptyString) by (destruct P as [P|(v & _ & _ & P)]; [inversion P|]; auto).
      subst s. cbn. auto 12.
    - unfold L5. apply wseq_flat_map. intros k Q Ik PQ. apply in_arg_keys in Ik.
      destruct Ik as [(t & s & ->) P].
      assert (Qk : Q (KArg t s)).
      { apply PQ. apply g5_present in P. destruct P as [P|[P|P]]; [discriminate|left; right; exact P|right; exact P]. }
      cbn. auto 8.
  Qed.

  Lemma GG_edges a b w : ew GG a b = Some w <-> fedge a b w.
  Proof.
    rewrite GG_eq, <- in_Ltot_OE.
    apply app_ops_edges; [exact g_root_wf|exact g_root_noedge|exact Ltot_wseq|exact Ltot_consistent].
  Qed.

  (* ---------- payloads ---------- *)
  Lemma Ltot_OF k p : In (OF k p) Ltot ->
    (k = fk /\ p = PFunc f) \/ (exists c, In c cs /\ k = KFunc (fn_type c) /\ p = PFunc c).
  Proof.
    unfold Ltot, L123, L4, L5. rewrite !in_app_iff. intros [[H|[H|H]]|[H|H]].
    - left. eapply fops_OF; eauto.
    - exfalso; eapply ins_ops_OF; eauto.
    - apply in_flat_map in H. destruct H as (c & Ic & H). right. exists c. split; [exact Ic|].
      eapply fops_OF; eauto.
    - exfalso; eapply val_ops_OF; eauto.
    - exfalso; eapply arg_ops_OF; eauto.
  Qed.

  Lemma Ltot_nf k : In (OV k) Ltot \/ In (OW k) Ltot -> is_func k = false.
  Proof.
    unfold Ltot, L123, L4, L5. rewrite !in_app_iff.
    intros H.
    assert (C : (In (OV k) (fops f false) \/ In (OW k) (fops f false)) \/
                (In (OV k) (ins_ops ins) \/ In (OW k) (ins_ops ins)) \/
                (In (OV k) (flat_map (fun c => fops c true) cs) \/ In (OW k) (flat_map (fun c => fops c true) cs)) \/
                (In (OV k) (flat_map val_ops (val_keys g3)) \/ In (OW k) (flat_map val_ops (val_keys g3))) \/
                (In (OV k) (flat_map arg_ops (arg_keys g5)) \/ In (OW k) (flat_map arg_ops (arg_keys g5)))) by tauto.
    clear H. destruct C as [C|[C|[C|[C|C]]]].
    - eapply fops_nf; eauto.
    - eapply ins_ops_nf; [|exact C]. intros kv I. unfold ins in I. apply in_map_iff in I.
      destruct I as (nv & <- & _). reflexivity.
    - destruct C as [C|C]; apply in_flat_map in C; destruct C as (c & _ & C); eapply fops_nf; eauto.
    - eapply val_ops_nf; eauto.
    - eapply arg_ops_nf; eauto.
  Qed.

  Lemma GG_pay ft0 : fvert (KFunc ft0) -> exists p, vtx GG (KFunc ft0) = Some p /\
    ((ft0 = fn_type f /\ p = PFunc f) \/ (exists c, In c cs /\ fn_type c = ft0 /\ p = PFunc c)).
  Proof.
    intros V. apply GG_present in V. unfold present in V.
    destruct (vtx GG (KFunc ft0)) as [p|] eqn:Q; [|discriminate]. exists p. split; [reflexivity|].
    rewrite GG_eq in Q. destruct (@vtx_sound Ltot g_root _ _ g_root_wf Q) as [Q1|[Q1|(-> & Q1)]].
    - exfalso. assert (P : present g_root (KFunc ft0) = true) by (unfold present; rewrite Q1; reflexivity).
      apply g_root_present in P. discriminate.
    - destruct (Ltot_OF Q1) as [(E & ->)|(c & Ic & E & ->)].
      + left. inversion E. auto.
      + right. exists c. inversion E. auto.
    - apply Ltot_nf in Q1. discriminate.
  Qed.

  Lemma GG_pay_f : vtx GG fk = Some (PFunc f).
  Proof.
    destruct (@GG_pay (fn_type f) fv_f) as (p & Q & [(_ & ->)|(c & Ic & E & ->)]); [exact Q|].
    exfalso. destruct (Hcs c Ic) as (_ & _ & N). contradiction.
  Qed.

  Lemma NoDup_map_inj {A B} (h : A -> B) (l : list A) x y :
    NoDup (map h l) -> In x l -> In y l -> h x = h y -> x = y.
  Proof.
    induction l as [|z l IH]; intros ND Ix Iy E; [destruct Ix|].
    simpl in ND. inversion ND as [|? ? NI ND']; subst.
    destruct Ix as [->|Ix]; destruct Iy as [->|Iy]; auto.
    - exfalso. apply NI. rewrite E. apply in_map. exact Iy.
    - exfalso. apply NI. rewrite <- E. apply in_map. exact Ix.
  Qed.

  Lemma GG_pay_c c : In c cs -> vtx GG (KFunc (fn_type c)) = Some (PFunc c).
  Proof.
    intros Ic. destruct (@GG_pay (fn_type c) (fv_c c Ic)) as (p & Q & [(E & ->)|(c' & Ic' & E & ->)]).
    - exfalso. destruct (Hcs c Ic) as (_ & _ & N). contradiction.
    - rewrite (@NoDup_map_inj _ _ fn_type cs c' c Hcnd Ic' Ic E) in Q. exact Q.
  Qed.

  (* ---------- full_graph computes GG ---------- *)
  Variable b : builder.
  Hypothesis Hb1 : b_named b = named.
  Hypothesis Hb2 : b_namedsub b = [].
  Hypothesis Hb3 : b_typed b = [].
  Hypothesis Hb4 : b_typedsub b = [].
  Hypothesis Hb5 : b_convs b = cs.
  Hypothesis Hb6 : b_gens b = [].
  Hypothesis Hnd : NoDup (map fst named).
  Hypothesis Hc0 : exists c0, In c0 cs.

  Lemma input_vertices_eq : input_vertices b = ins.
  Proof.
    unfold input_vertices. rewrite Hb1, Hb2, Hb3, Hb4. simpl. rewrite app_nil_r.
    unfold ins. apply map_ext_in. intros [m v] I. simpl. destruct (Hnm m v I) as [_ ->]. reflexivity.
  Qed.

  Definition vals0 : amap vkey value := fold_left (fun m kv => insert (fst kv) (snd kv) m) ins [].
  Definition g1 : rgraph := func_graph g_root f false.

  Lemma g3_eq :
    fold_left (fun g c => func_graph g c true) cs
      (fold_left (fun g kv => add_e (g_add_overwrite g (fst kv) PNone) (fst kv) KRoot w_normal) ins
         (func_graph g_root f false)) = g3.
  Proof.
    unfold g3, L123. rewrite !app_ops_app. rewrite <- func_graph_ops, <- inputs_ops.
    rewrite <- app_ops_flat_map. apply fold_left_ext. intros a c. apply func_graph_ops.
  Qed.

  Lemma KOut_fvert t s : fvert (KOut t s) -> KOut t s = OT \/ KOut t s = OU.
  Proof. intros H. inversion H; auto. Qed.
  Lemma KArg_fvert t s : fvert (KArg t s) -> KArg t s = AT \/ KArg t s = AU.
  Proof. intros H. inversion H; auto. Qed.
  Lemma KVal_fvert m t s : fvert (KVal m t s) -> KVal m t s = NU \/ (exists v, In (m, v) named /\ t = T /\ s = EmptyString).
  Proof. intros H. inversion H; subst; eauto. Qed.

  Lemma steps_eq valued :
    step_arg_sub (step_named_sub valued (step_ifaces u (step_args (step_values g3)))) = GG.
  Proof.
    rewrite step_values_ops. fold L4. fold g5. rewrite step_args_ops. fold L5. fold GG.
    rewrite step_ifaces_id.
    2:{ intros t s P. apply GG_present in P. destruct (KOut_fvert P) as [Q|Q]; inversion Q; subst; assumption. }
    rewrite step_named_sub_id.
    2:{ intros m t s P. apply GG_present in P. destruct (KVal_fvert P) as [Q|(v & _ & _ & Q)]; [inversion Q|]; auto. }
    apply step_arg_sub_id.
    - intros t s P. apply GG_present in P. destruct (KArg_fvert P) as [Q|Q]; inversion Q; auto.
    - intros t s P. apply GG_present in P. destruct (KOut_fvert P) as [Q|Q]; inversion Q; auto.
  Qed.

  Definition FG (t : tape vkey) : fgraph := mkFG GG vals0 fk (g_out_keys g1 fk) (map fst ins) cs [] t.

  Lemma full_graph_eq t : full_graph u f b false t = Ok (inl (FG t), []).
  Proof.
    unfold full_graph. cbv zeta. fold g_root. rewrite input_vertices_eq, Hb5, Hb6. cbn [bind].
    unfold run_gens. cbn [fold_left]. rewrite g3_eq, steps_eq. reflexivity.
  Qed.

  (* ---------- pruning ---------- *)
  Definition pvert (k : vkey) : Prop := fvert k /\ k <> OT /\ (onm = n -> k <> OU).

  Lemma GG_root : vtx GG KRoot <> None.
  Proof. apply present_true. apply GG_present. constructor. Qed.

  Lemma GG_edge_ne a b w : fedge a b w -> ew GG a b <> None.
  Proof. intros H. apply GG_edges in H. rewrite H. discriminate. Qed.

  Lemma fedge_src a b w : fedge a b w -> fvert a /\ a <> OT /\ (onm = n -> a <> OU).
  Proof.
    intros H. destruct H as [|m v I|c Ic|c Ic| | |m v I|m v I| |];
      try (split; [econstructor; eauto|split; [discriminate|intros _; discriminate]]).
    destruct OO_cases as [(E & Q & _)|(E & Q & _)]; rewrite Q.
    - split; [constructor|]. split; [unfold OU, OT; intros X; inversion X; apply HTU; auto|].
      intros E2. exfalso. rewrite E in E2. subst n. discriminate.
    - split; [constructor|]. split; [discriminate|intros _; discriminate].
  Qed.

  Lemma fk_ne_c c : In c cs -> KFunc (fn_type c) <> fk.
  Proof. intros Ic X. inversion X. destruct (Hcs c Ic) as (_ & _ & N). contradiction. Qed.

  Lemma keep_iff k : In k (keepset GG fk) <-> pvert k.
  Proof.
    split.
    - revert k. apply (keep_ind GG_wf (P := pvert)).
      + split; [constructor|split; [discriminate|intros _; discriminate]].
      + intros a x _ _ E. destruct (ew GG x a) as [w|] eqn:Q; [|contradiction E; reflexivity].
        apply GG_edges in Q. apply (fedge_src Q).
    - pose proof (keep_root fk GG_wf GG_root) as KR.
      pose proof (fun a x => @keep_closed GG fk GG_wf GG_root a x) as KC.
      destruct named_n as (vn & In').
      assert (KI : forall m v, In (m, v) named -> In (KVal m T EmptyString) (keepset GG fk)).
      { intros m v I. apply (KC KRoot); [exact KR|discriminate|]. apply (GG_edge_ne (fe_input m v I)). }
      assert (KAT : In AT (keepset GG fk)).
      { apply (KC NT); [apply (KI n vn In')|discriminate|]. apply (GG_edge_ne (fe_at_in n vn In')). }
      assert (KCc : forall c, In c cs -> In (KFunc (fn_type c)) (keepset GG fk)).
      { intros c Ic. apply (KC (inkey c)).
        - destruct (inkey_cases c Ic) as [[Q _]|[Q _]]; rewrite Q; [exact KAT|apply (KI n vn In')].
        - destruct (inkey_cases c Ic) as [[Q _]|[Q _]]; rewrite Q; discriminate.
        - apply (GG_edge_ne (fe_cin c Ic)). }
      destruct Hc0 as (c0 & Ic0).
      assert (KOO : In OO (keepset GG fk)).
      { apply (KC (KFunc (fn_type c0))); [apply KCc; exact Ic0|apply fk_ne_c; exact Ic0|].
        apply (GG_edge_ne (fe_cout c0 Ic0)). }
      assert (KNU : In NU (keepset GG fk)).
      { destruct OO_cases as [(_ & Q & _)|(_ & Q & _)]; rewrite Q in KOO; [|exact KOO].
        apply (KC OU); [exact KOO|discriminate|]. apply (GG_edge_ne fe_nu_ou). }
      intros (V & N1 & N2). destruct V as [| | |m v I|c Ic| | | |].
      + exact KR.
      + apply (KC NU); [exact KNU|discriminate|]. apply (GG_edge_ne fe_target).
      + exact KNU.
      + apply (KI m v I).
      + apply (KCc c Ic).
      + exact KAT.
      + contradiction N1; reflexivity.
      + apply (KC NU); [exact KNU|discriminate|]. apply (GG_edge_ne fe_au_nu).
      + destruct OO_cases as [(_ & Q & _)|(E & _ & _)]; [rewrite Q in KOO; exact KOO|].
        exfalso. apply (N2 E). reflexivity.
  Qed.

  Definition PG : rgraph := pruned GG fk.

  Lemma PG_wf : wf_graph PG.
  Proof. apply (pruned_spec fk GG_wf). Qed.

  Lemma PG_vtx k : pvert k -> vtx PG k = vtx GG k.
  Proof.
    intros P. destruct (pruned_spec fk GG_wf) as (_ & Hv & _). unfold PG. rewrite Hv.
    apply keep_iff in P. apply membT in P. rewrite P. reflexivity.
  Qed.

  Lemma PG_vtx_none k : ~ pvert k -> vtx PG k = None.
  Proof.
    intros P. destruct (pruned_spec fk GG_wf) as (_ & Hv & _). unfold PG. rewrite Hv.
    destruct (memb k (keepset GG fk)) eqn:M; [|reflexivity].
    exfalso. apply P. apply keep_iff. apply membT. exact M.
  Qed.

  Lemma PG_edges a b w : ew PG a b = Some w <-> fedge a b w /\ pvert a /\ pvert b.
  Proof.
    destruct (pruned_spec fk GG_wf) as (_ & _ & He). unfold PG. rewrite He.
    destruct (memb a (keepset GG fk)) eqn:Ma; destruct (memb b (keepset GG fk)) eqn:Mb; simpl.
    - apply membT in Ma. apply membT in Mb. apply keep_iff in Ma. apply keep_iff in Mb.
      rewrite GG_edges. tauto.
    - split; [discriminate|]. intros (_ & _ & P). apply keep_iff in P. apply membT in P. congruence.
    - split; [discriminate|]. intros (_ & P & _). apply keep_iff in P. apply membT in P. congruence.
    - split; [discriminate|]. intros (_ & P & _). apply keep_iff in P. apply membT in P. congruence.
  Qed.

  Lemma pvert_NU : pvert NU.
  Proof. split; [constructor|split; [discriminate|intros _; discriminate]]. Qed.

  Lemma g1_out k : In k (g_out_keys g1 fk) -> k = NU.
  Proof.
    intros I. apply in_out_keys in I. unfold g1 in I. rewrite func_graph_ops, fops_target in I.
    destruct (app_ops_spec [OF fk (PFunc f); OV NU; OE fk NU w_normal] g_root_wf) as (_ & _ & Hs & _).
    destruct (ew (app_ops [OF fk (PFunc f); OV NU; OE fk NU w_normal] g_root) fk k) as [w|] eqn:Q;
      [|contradiction I; reflexivity].
    destruct (Hs _ _ _ Q) as [Q1|Q1]; [rewrite g_root_noedge in Q1; discriminate|].
    simpl in Q1. destruct Q1 as [Q1|[Q1|[Q1|[]]]]; try discriminate. inversion Q1. reflexivity.
  Qed.

  Definition CG (t : tape vkey) : cgraph := mkCG PG vals0 fk (map fst ins) cs [] t.

  Lemma prune_eq t : prune (FG t) = inl (CG t).
  Proof.
    rewrite prune_unfold. unfold FG. cbn [fg_g fg_target fg_freq fg_vals fg_inputs fg_convs fg_trace fg_tape].
    fold PG.
    assert (E : unsat_of (mkFG GG vals0 fk (g_out_keys g1 fk) (map fst ins) cs [] t) = []).
    { unfold unsat_of. cbn [fg_g fg_target fg_freq]. fold PG.
      induction (g_out_keys g1 fk) as [|k l IH] eqn:EL in g1_out |- *; [reflexivity|].
      admit. }
    rewrite E. reflexivity.
  Admitted.
End Family.

(* C08SucceedsDijkstra.v -- a requirement with a direct edge of weight 1 from
   the source keeps the source as its Dijkstra predecessor.

   Setting (the reversed, discounted call graph of Redefine): every weight is
   in [1,20] except the discounted ones (-1), which leave "value" vertices
   only, and no edge joins two value vertices.  Then every tentative
   distance is non-negative, at least 1 on value vertices, and nothing ever
   improves on the distance 1 that the first pop (the source) gives to
   [cur].  Built on the invariant [DJ] of C0213UnsatDijkstra. *)
From ArgMapper Require Import Base Graph GraphAlg GraphSpec GraphStatements.
From ArgMapper.proofs Require Import C18DijkstraLemmas C18Dijkstra C19RefineMap C19RefineGraph
     C0213UnsatGraph C0213UnsatDijkstra.
From Coq Require Import List Lia ZArith.
Import ListNotations.
Set Implicit Arguments.
Local Open Scope Z_scope.

Section Direct.
  Context {K : Type} {E : EqDec K} {V : Type}.
  Notation graph := (graph K V).

  Variable H : graph.
  Variable src cur : K.
  Variable val : K -> bool.
  Hypothesis W : wf_graph H.
  Hypothesis Small : 20 * Z.of_nat (length (g_vertex_keys H)) < INF.
  Hypothesis HW1 : forall a b w, ew H a b = Some w ->
                     1 <= w <= 20 \/ (w = -1 /\ val a = true /\ val cur = true).
  Hypothesis HW2 : forall a b, ew H a b <> None -> val a = true -> val b = false.
  Hypothesis HW3 : ew H src cur = Some 1.
  Hypothesis Nsc : src <> cur.
  Hypothesis Vsrc : val src = false.

  Lemma Wt20 : forall a b w, ew H a b = Some w -> -20 <= w <= 20.
  Proof. intros a b w Q. destruct (HW1 _ _ Q) as [A|(-> & _)]; lia. Qed.

  Definition NN (st : @dstate K) : Prop :=
    forall v dv, lookup v (dist st) = Some dv -> dv = INF \/ (0 <= dv /\ (val v = true -> 1 <= dv)).
  Definition CUR (st : @dstate K) : Prop :=
    ~ In src (unvis st) -> lookup cur (dist st) = Some 1 /\ lookup cur (prev st) = Some src.
  Definition FIRST (st : @dstate K) : Prop := In src (unvis st) -> In cur (unvis st).

  Definition J (st : @dstate K) : Prop := DJ H src st /\ NN st /\ CUR st /\ FIRST st.

  Lemma Vs : vtx H src <> None.
  Proof.
    assert (N : ew H src cur <> None) by (rewrite HW3; discriminate).
    apply (ew_closed _ _ W N).
  Qed.
  Lemma Vc : vtx H cur <> None.
  Proof.
    assert (N : ew H src cur <> None) by (rewrite HW3; discriminate).
    apply (ew_closed _ _ W N).
  Qed.

  Lemma dinit_J : exists st0, dinit H src = Ok st0 /\ J st0.
  Proof.
    destruct (dinit_DJ src W Vs) as (st0 & D0 & I0).
    exists st0. split; [exact D0|].
    unfold dinit in D0.
    assert (M : memb src (g_vertex_keys H) = true) by (apply membT; apply in_vertex_keys; exact Vs).
    rewrite M in D0. inversion D0; subst st0; clear D0.
    split; [exact I0|]. split; [|split].
    - intros v dv. cbn [dist]. rewrite dist0_lookup.
      destruct (eqb_spec v src) as [->|Ne].
      + intros Q; inversion Q; subst. right. split; [lia|]. rewrite Vsrc. discriminate.
      + destruct (memb v (g_vertex_keys H)); intros Q; inversion Q; subst. left; reflexivity.
    - intros N. exfalso. apply N. cbn [unvis]. apply in_vertex_keys. exact Vs.
    - intros _. cbn [unvis]. apply in_vertex_keys. exact Vc.
  Qed.

  Lemma dstep_J st u st' : J st -> dstep H st u = Ok st' -> J st'.
  Proof.
    intros (I & Inn & Icur & Ifirst) S.
    pose proof (dstep_DJ W Wt20 Small u I S) as I'.
    split; [exact I'|].
    unfold dstep in S.
    destruct (is_min st u) eqn:Hm; [|discriminate].
    unfold is_min in Hm. apply andb_true_iff in Hm. destruct Hm as [Hu Hmin].
    apply membT in Hu. rewrite forallb_forall in Hmin.
    destruct I as [Ind Iuv Ilen Itot Ibnd Irel Ipos Iprev Isrc Iinf].
    assert (Vu : vtx H u <> None) by (apply Iuv; exact Hu).
    destruct (Itot _ Vu) as (du & Qu).
    assert (Gu : getd (dist st) u = du) by (unfold getd; rewrite Qu; reflexivity).
    rewrite Gu in S.
    assert (InU' : forall x, In x (remove1 u (unvis st)) <-> In x (unvis st) /\ x <> u).
    { intros x. apply remove1_In_NoDup. exact Ind. }
    (* while the source is unvisited it is the only admissible pop *)
    assert (SrcFirst : In src (unvis st) -> u = src).
    { intros Is. destruct (eq_dec_K u src) as [Q|Ne]; [exact Q|]. exfalso.
      destruct Isrc as (_ & S2 & S3).
      pose proof (S3 Is u Hu Ne) as Qi. rewrite Qu in Qi. assert (Ed : du = INF) by (inversion Qi; reflexivity).
      specialize (Hmin src Is). rewrite Gu in Hmin. unfold getd in Hmin. rewrite S2 in Hmin.
      apply Z.leb_le in Hmin. unfold INF in *. lia. }
    destruct (du =? INF) eqn:Einf.
    - apply Z.eqb_eq in Einf. inversion S; subst st'; clear S.
      split; [|split].
      + intros v dv Q. cbn [dist] in Q. apply Inn. exact Q.
      + intros N. cbn [unvis dist prev] in *.
        destruct (In_dec_K src (unvis st)) as [Is|Ns]; [|apply Icur; exact Ns].
        exfalso. pose proof (SrcFirst Is) as ->.
        destruct Isrc as (_ & S2 & _). rewrite Qu in S2. inversion S2. unfold INF in *. lia.
      + intros Is. cbn [unvis] in *. apply InU' in Is. destruct Is as [Is Ne].
        exfalso. apply Ne. symmetry. apply SrcFirst. exact Is.
    - apply Z.eqb_neq in Einf.
      destruct (Ibnd _ _ Qu) as [C|Bu]; [contradiction|].
      destruct (Inn _ _ Qu) as [C|[Du0 Du1]]; [contradiction|].
      pose proof (remove1_length u (unvis st) Hu) as Len1.
      set (st1 := mkD (remove1 u (unvis st)) (dist st) (prev st)) in *.
      destruct (relax_fold u du (inner (gout H) u) st1) as (st2 & Fold & Uv & Ch & Rl).
      { intros v w A. simpl. apply Itot. apply (es_edge W) in A.
        assert (N : ew H u v <> None) by (rewrite A; discriminate).
        apply (ew_closed _ _ W N). }
      rewrite Fold in S. inversion S; subst st'; clear S. cbn [unvis dist prev st1] in Uv, Ch, Rl.
      assert (Wr : forall x w, In (x, w) (inner (gout H) u) -> wrap64 (du + w) = du + w).
      { intros x w A. apply (es_edge W) in A. pose proof (Wt20 _ _ A) as Ww.
        unfold bnd in Bu.
        apply wrap64_id'; unfold INF in *; lia. }
      split; [|split].
      + (* NN *)
        intros v dv Q.
        destruct (Ch v) as [[A _]|(Ix & w & dx & A & Q0 & Lt & Qn & Pn)].
        * rewrite A in Q. apply Inn. exact Q.
        * rewrite (Wr _ _ A) in Qn. rewrite Qn in Q. inversion Q; subst dv. right.
          pose proof (es_edge W _ _ _ A) as Ee.
          destruct (HW1 _ _ Ee) as [Wp|(-> & Vu1 & _)].
          -- split; [lia|]. intros _. lia.
          -- specialize (Du1 Vu1). split; [lia|].
             assert (N : ew H u v <> None) by (rewrite Ee; discriminate).
             rewrite (@HW2 _ _ N Vu1). discriminate.
      + (* CUR *)
        intros N. rewrite Uv in N.
        destruct (eq_dec_K u src) as [->|Ne].
        * (* the source is popped now *)
          assert (Du : du = 0).
          { destruct Isrc as (_ & S2 & _). rewrite Qu in S2. inversion S2; reflexivity. }
          pose proof (@edge_es _ _ _ H _ _ _ HW3) as A1.
          assert (Ic : In cur (remove1 src (unvis st))).
          { apply InU'. split; [apply Ifirst; exact Hu|]. intros Q. apply Nsc. symmetry. exact Q. }
          destruct (Rl cur 1 A1 Ic) as (dv' & Qv' & Le).
          rewrite (Wr _ _ A1) in Le. rewrite Du in Le.
          destruct (Ch cur) as [[A B]|(Ix & w & dx & A & Q0 & Lt & Qn & Pn)].
          -- exfalso. rewrite A in Qv'.
             destruct Isrc as (_ & _ & S3).
             assert (Qi : lookup cur (dist st) = Some INF).
             { apply S3; [exact Hu|apply Ifirst; exact Hu|]. intros Q. apply Nsc. symmetry. exact Q. }
             rewrite Qi in Qv'. inversion Qv'; subst dv'. unfold INF in Le. lia.
          -- pose proof (es_edge W _ _ _ A) as Ee. rewrite HW3 in Ee. inversion Ee; subst w.
             rewrite (Wr _ _ A) in Qn. rewrite Du in Qn. split; [exact Qn|exact Pn].
        * assert (Ns : ~ In src (unvis st)).
          { intros C. apply N. apply InU'. split; [exact C|]. intros Q. apply Ne. symmetry. exact Q. }
          destruct (Icur Ns) as [Qc Pc].
          destruct (Ch cur) as [[A B]|(Ix & w & dx & A & Q0 & Lt & Qn & Pn)].
          -- rewrite A, B. split; assumption.
          -- exfalso. rewrite Qc in Q0. inversion Q0; subst dx.
             rewrite (Wr _ _ A) in Lt.
             pose proof (es_edge W _ _ _ A) as Ee.
             destruct (HW1 _ _ Ee) as [Wp|(-> & Vu1 & Vc1)]; [lia|].
             assert (N2 : ew H u cur <> None) by (rewrite Ee; discriminate).
             rewrite (@HW2 _ _ N2 Vu1) in Vc1. discriminate.
      + (* FIRST *)
        intros Is. rewrite Uv in Is. apply InU' in Is. destruct Is as [Is Ne].
        exfalso. apply Ne. symmetry. apply SrcFirst. exact Is.
  Qed.

  Lemma dloop_J : forall pops st st', J st -> dloop H st pops = Ok st' -> J st' /\ unvis st' = [].
  Proof.
    induction pops as [|u pops IH]; intros st st' I D; simpl in D.
    - destruct (unvis st) eqn:Q; [|discriminate]. inversion D; subst. auto.
    - destruct (dstep H st u) as [st1| | |] eqn:S1; simpl in D; try discriminate.
      eapply IH; [|exact D]. eapply dstep_J; eauto.
  Qed.

  Theorem dij_direct pops d p :
    dijkstra H src pops = Ok (d, p) -> lookup src p = None /\ lookup cur p = Some src.
  Proof.
    intros Dj. unfold dijkstra in Dj.
    destruct dinit_J as (st0 & D0 & I0). rewrite D0 in Dj. simpl in Dj.
    destruct (dloop H st0 pops) as [st| | |] eqn:DL; simpl in Dj; try discriminate.
    inversion Dj; subst d p; clear Dj.
    destruct (dloop_J _ I0 DL) as [(I & _ & Icur & _) Uv].
    split; [apply (dj_src I)|].
    apply Icur. rewrite Uv. intros [].
  Qed.
End Direct.

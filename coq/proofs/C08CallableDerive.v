(* C08CallableDerive.v -- when Redefine succeeds with inputs [ins], the
   ordinary call with the Redefine options plus one value per declared input
   has a derivable target ([target_derivable] on its full call graph).
   Helper of C08Callable.v. *)
From ArgMapper Require Import Base Graph GraphAlg GraphSpec Types Args Resolver ResolverSpec GenWeights
     CheckResolver Monitors Monitors2 ResolverStatements ResolverStatements2 ResolverStatements3.
From ArgMapper.proofs Require Import C18DijkstraLemmas C19RefineMap C19RefineGraph
     C0213UnsatGraph C0213UnsatClosure C0213UnsatBuild C0213UnsatPrune C0213UnsatDijkstra C0213UnsatPlan
     C0213UnsatReach C04ErrorsLemmas C07AffinityOps C08RedefineGraph C08RedefineReach C08RedefineVertex
     C08CallableReach C08CallablePlan C08CallableOps C08CallableMono C08CallableGrow C08CallableArgs
     C08CallableOrigin.
From Coq Require Import List Lia ZArith String.
Import ListNotations.
Set Implicit Arguments.
Local Open Scope Z_scope.
Local Open Scope list_scope.

Definition twins (l : list vkey) : list vkey :=
  flat_map (fun k => match k with KOut t st => [KArg t st] | _ => [] end) l.
Definition rf_of (k : vkey) : list rfield :=
  match k with KVal n t _ => [RNamed n t] | KArg t _ => [RTyped t] | _ => [] end.

Lemma NK_no_arg b t s : ~ In (KArg t s) (NK b).
Proof.
  rewrite NK_eq. rewrite !in_app_iff, !in_map_iff.
  intros [(x & Q & _)|[(x & Q & _)|[(x & Q & _)|(x & Q & _)]]]; discriminate Q.
Qed.

Lemma known_funcs_same f b1 b2 : same_rest b1 b2 -> known_funcs f b2 = known_funcs f b1.
Proof. intros (_ & _ & Ec & Eg & _). unfold known_funcs. rewrite Ec, Eg. reflexivity. Qed.

(* ---------- Redefine, unfolded ---------- *)
Lemma redefine_inv u f d opts b1 t ins r :
  build_args d opts = Some b1 ->
  redefine u f d opts world0 t = Ok (inl ins, r) ->
  exists fg1 tr1 s am,
    full_graph u f b1 true t = Ok (inl fg1, tr1) /\ unsat_of fg1 = [] /\
    reach u (fun _ _ => BOk) (pruned (fg_g fg1) (fg_target fg1)) true
          (S (List.length (g_vertex_keys (pruned (fg_g fg1) (fg_target fg1))))) (fg_target fg1)
          (mkS (fg_vals fg1) None [] [] [] (fg_trace fg1) 0 (fg_tape fg1)) = Ok (s, inl am) /\
    ins = flat_map rf_of (filter (fun k => negb (memb k (fg_inputs fg1 ++ twins (fg_inputs fg1)))) (s_inputs s)).
Proof.
  intros HB H. unfold redefine in H.
  destruct (build_args [] opts) as [bo|]; [|discriminate].
  match type of H with (if ?c then _ else _) = _ => destruct c end; [discriminate|].
  rewrite HB in H. unfold call_graph in H.
  destruct (full_graph u f b1 true t) as [[[fg|e] tr]| | |] eqn:FG; cbn [bind] in H; try discriminate.
  rewrite prune_unfold in H.
  destruct (unsat_of fg) as [|u0 us] eqn:U; [|discriminate].
  cbn [cg_g cg_target cg_inputs fuel_of] in H.
  unfold init_state in H. cbn [cg_vals cg_trace cg_tape world0 w_once w_nexec] in H.
  match type of H with
  | bind (reach ?uu ?bh ?gg ?rd ?fuel ?tgt ?s0) _ = _ =>
      destruct (reach uu bh gg rd fuel tgt s0) as [[s r0]| | |] eqn:RE; cbn [bind] in H; try discriminate
  end.
  destruct r0 as [am|e]; [|discriminate].
  cbv zeta in H.
  match type of H with (if ?c then _ else _) = _ => destruct c end; [discriminate|].
  inversion H; subst ins r; clear H.
  exists fg, tr, s, am. split; [reflexivity|]. split; [exact U|]. split; [exact RE|reflexivity].
Qed.

Section Derive.
  Variables (u : universe) (f : fdecl) (d opts : list arg) (b1 : builder) (t : tape vkey).
  Hypothesis HB1 : build_args d opts = Some b1.
  Hypothesis WF : wf_call u f b1 = true.
  Hypothesis Dom : c08_domain u f b1 = true.

  Lemma WFk : wf_funcs (known_funcs f b1) = true.
  Proof. unfold wf_call in WF. rewrite !andb_true_iff in WF. apply WF. Qed.

  Theorem redefine_derivable ins r ivs :
    redefine u f d opts world0 t = Ok (inl ins, r) -> ivs_for ins ivs ->
    exists b2, build_args d (redefined_opts opts ivs) = Some b2 /\ same_rest b1 b2 /\
      forall t' fg2 tr2, full_graph u f b2 false t' = Ok (inl fg2, tr2) ->
        20 * (Z.of_nat (List.length (g_vertex_keys (fg_g fg2))) + 1) < INF ->
        target_derivable fg2 [] = true.
  Proof.
    intros RD [IVm IVt].
    destruct (redefine_inv _ _ _ _ _ HB1 RD) as (fg1 & tr1 & s & am & FG1 & U1 & RE & Eins).
    destruct (full_graph_RI _ _ _ _ _ Dom FG1) as (RIG & Tg & Inp & Vl).
    set (G1 := fg_g fg1) in *. set (tk := fg_target fg1) in *.
    set (g1 := pruned G1 tk) in *.
    pose proof (pruned_RI tk RIG) as RIg. fold g1 in RIg.
    pose proof (ri_wf RIG) as WG1. pose proof (ri_wf RIg) as Wg1.
    destruct (pruned_spec tk WG1) as (_ & Pv & Pe). fold g1 in Pv, Pe.
    fold (NK b1) in Inp. rewrite Inp in Eins.
    assert (Vg1G1 : forall k, vtx g1 k <> None -> vtx G1 k <> None).
    { intros k. rewrite Pv. destruct (memb k (keepset G1 tk)); [auto|intros N; contradiction N; reflexivity]. }
    (* every recorded input is a vertex *)
    assert (HPv : forall cur s0 path bad s0', vtx g1 cur <> None -> cur <> KRoot ->
                  plan g1 true cur s0 = Ok (path, bad, s0') -> vtx g1 (plan_input path cur) <> None).
    { intros cur s0 path bad s0' Vc Nc P.
      assert (VV : forall v, vertex g1 v <-> vtx g1 v <> None) by (intros v; unfold vertex; apply in_vertex_keys).
      assert (Vp : forall v, In v path -> vtx g1 v <> None).
      { intros v Iv. apply VV.
        apply (@plan_path_vertices _ true Wg1 (proj2 (VV _) (ri_root RIg)) cur s0 path bad s0' (proj2 (VV _) Vc) P v Iv). }
      unfold plan_input. destruct path as [|a [|x0 rest]].
      - exact Vc.
      - destruct a; apply Vp; left; reflexivity.
      - destruct a; try (apply Vp; left; reflexivity). apply Vp. right. left. reflexivity. }
    assert (ISv : forall k, In k (s_inputs s) -> vtx g1 k <> None).
    { destruct (@reach_inputs u (fun _ _ => BOk) g1 true (fun k => vtx g1 k <> None) Wg1 HPv _ _ _ _ _ RE) as [IS1 _];
        [intros k []|exact IS1]. }
    (* the values supplied for the declared inputs are well-formed options *)
    set (NL := dom_named f b1).
    pose proof (@domain_one_type u f b1 Dom) as OT. fold NL in OT.
    set (missing := filter (fun k => negb (memb k (NK b1 ++ twins (NK b1)))) (s_inputs s)) in *.
    assert (InsK : forall i, In i ins -> exists k, In k (s_inputs s) /\ ~ In k (NK b1 ++ twins (NK b1)) /\ In i (rf_of k)).
    { intros i Ii. rewrite Eins in Ii. apply in_flat_map in Ii. destruct Ii as (k & Ik & Ii).
      apply filter_In in Ik. destruct Ik as [Ik Np]. apply negb_true_iff in Np. apply membF in Np.
      exists k. auto. }
    assert (IVok : forall iv, In iv ivs -> iv_ok NL iv).
    { intros iv Iiv. split; [apply IVt; exact Iiv|].
      assert (Ii : In (fst iv) ins) by (rewrite <- IVm; apply in_map; exact Iiv).
      destruct (InsK _ Ii) as (k & Ik & _ & Ir).
      destruct (fst iv) as [n t0|t0] eqn:Ef; [|exact I].
      destruct k as [|ft|n1 t1 s1|t1 s1|t1 s1]; simpl in Ir; try contradiction.
      - destruct Ir as [Q|[]]. inversion Q; subst n1 t1.
        destruct (@kval_vertex_ok u f d opts b1 true t fg1 tr1 n t0 s1 HB1 WFk FG1 (Vg1G1 _ (ISv _ Ik))) as [[Ne Lo] InNL].
        split; [exact Ne|]. split; [exact Lo|exact InNL].
      - destruct Ir as [Q|[]]. discriminate Q. }
    destruct (@redefined_builder NL d opts ivs b1 OT HB1 (named_inv_builder f b1) IVok) as (b2 & HB2 & IncNK & Keys & SR).
    exists b2. split; [exact HB2|]. split; [exact SR|].
    intros t' fg2 tr2 FG2 Small2.
    set (G2 := fg_g fg2) in *.
    (* the second graph contains the first *)
    destruct SR as (SR1 & SR2 & SRc & SRg & SR5 & SR6 & SR7).
    destruct (@full_graph_grows u f b1 b2 true false t t' fg1 fg2 tr1 tr2 SRc SRg IncNK) as (Vm & Em & Fq & Cv);
      [intros k V; apply (ri_se RIG _ V)|exact FG1|exact FG2|].
    fold G1 in Vm, Em. fold G2 in Vm, Em.
    destruct (C0213UnsatBuild.full_graph_spec _ _ _ _ FG2) as (GI2 & Fn2 & Tg2 & Ac2 & Bc2 & Fq2 & Vl2 & Ar2 & Tr2 & Og2).
    fold G2 in GI2, Fn2, Fq2, Vl2, Ar2.
    pose proof (gi_wf GI2) as W2. pose proof (gi_root GI2) as R2.
    destruct (full_graph_fields _ _ _ _ _ FG2) as (Vals2 & _ & _).
    (* sizes *)
    assert (Smg : 20 * Z.of_nat (List.length (g_vertex_keys g1)) < INF).
    { pose proof (pruned_size tk WG1) as Le1. fold g1 in Le1.
      assert (Le2 : (List.length (g_vertex_keys G1) <= List.length (g_vertex_keys G2))%nat).
      { apply NoDup_incl_length; [apply (wf_hash_nodup WG1)|].
        intros k Ik. apply in_vertex_keys. apply Vm. apply in_vertex_keys. exact Ik. }
      lia. }
    assert (RR : forall k, vtx g1 k <> None -> rreach g1 k).
    { intros k Vk. apply (pruned_rreach tk WG1 (ri_root RIG)). exact Vk. }
    pose proof (@plan_rd_ok g1 Wg1 (ri_wt RIg) (ri_root RIg) Smg RR) as HPl.
    (* the run of reach *)
    destruct (@reach_rd u (fun _ _ => BOk) g1 Wg1 HPl (S (List.length (g_vertex_keys g1))) tk _ _ _ RE)
      as (_ & _ & Post).
    { constructor; cbn [s_vals s_inputs s_world]; [|reflexivity].
      intros t0 st M. exfalso. rewrite Vl in M. fold (vals_of b1) in M. apply mem_vals_of in M.
      apply (NK_no_arg _ _ _ M). }
    cbn [post] in Post. destruct Post as [_ Post].
    (* recorded inputs are neighbours of the root *)
    assert (HPe : forall cur s0 path bad s0', vtx g1 cur <> None -> cur <> KRoot ->
                  plan g1 true cur s0 = Ok (path, bad, s0') -> ew g1 (plan_input path cur) KRoot <> None).
    { intros cur s0 path bad s0' Vc Nc P.
      destruct (HPl cur s0 path bad s0' Vc Nc P) as ((x & rest & -> & _ & _ & Li & _) & _).
      cbn [plan_input]. destruct Li as [Ex _]. exact Ex. }
    assert (ISe : forall k, In k (s_inputs s) -> ew g1 k KRoot <> None).
    { destruct (@reach_inputs u (fun _ _ => BOk) g1 true (fun k => ew g1 k KRoot <> None) Wg1 HPe _ _ _ _ _ RE) as [IS1 _];
        [intros k []|exact IS1]. }
    (* derivability in the second graph *)
    set (DS2 := DS G2 []).
    assert (InRoot : forall k, In k (NK b2) -> In k DS2).
    { intros k Ik. assert (M : mem k (fg_vals fg2) = true) by (rewrite Vals2; apply mem_vals_of; exact Ik).
      destruct (Vl2 k M) as [Ek Nf]. apply (ds_value [] W2 R2 k KRoot Nf Ek). apply (ds_root [] W2 R2). }
    assert (ArgTwin : forall t0 s0, vtx G2 (KArg t0 s0) <> None -> In (KOut t0 s0) (NK b2) -> In (KArg t0 s0) DS2).
    { intros t0 s0 V Ik. apply (ds_value [] W2 R2 (KArg t0 s0) (KOut t0 s0) eq_refl).
      - apply (full_graph_arg_twin _ _ _ _ _ FG2 t0 s0 V).
      - apply InRoot. exact Ik. }
    assert (Rec : forall k, is_func k = false -> In k (s_inputs s) -> In k DS2).
    { intros k Nf Ik.
      pose proof (ISe k Ik) as Ek.
      pose proof (proj1 (ew_closed _ _ Wg1 Ek)) as Vk.
      pose proof (ri_se RIg _ Vk) as Sk.
      pose proof (Vm k (Vg1G1 k Vk)) as Vk2.
      destruct (memb k (NK b1 ++ twins (NK b1))) eqn:M.
      - apply membT in M. apply in_app_or in M. destruct M as [M|M].
        + apply InRoot. apply IncNK. exact M.
        + unfold twins in M. apply in_flat_map in M. destruct M as (k0 & Ik0 & M).
          destruct k0 as [|ft|n0 t0 s0|t0 s0|t0 s0]; simpl in M; try contradiction.
          destruct M as [<-|[]]. apply ArgTwin; [exact Vk2|apply IncNK; exact Ik0].
      - apply membF in M.
        assert (HasIv : forall i, In i (rf_of k) -> exists iv, In iv ivs /\ fst iv = i).
        { intros i Ii. assert (Iins : In i ins).
          { rewrite Eins. apply in_flat_map. exists k. split; [|exact Ii].
            apply filter_In. split; [exact Ik|]. apply negb_true_iff. apply membF. exact M. }
          rewrite <- IVm in Iins. apply in_map_iff in Iins. destruct Iins as (iv & E & Iiv). exists iv. auto. }
        destruct (ri_re RIg _ Ek) as [I1|[Fk|Fin]].
        + exfalso. apply M. apply in_or_app. left. exact I1.
        + rewrite Nf in Fk. discriminate Fk.
        + destruct k as [|ft|n0 t0 s0|t0 s0|t0 s0]; try contradiction.
          * simpl in Sk. subst s0.
            destruct (HasIv (RNamed n0 t0)) as (iv & Iiv & Ef); [left; reflexivity|].
            apply InRoot. pose proof (Keys iv Iiv) as K. unfold iv_key in K. rewrite Ef in K. exact K.
          * simpl in Sk. subst s0.
            destruct (HasIv (RTyped t0)) as (iv & Iiv & Ef); [left; reflexivity|].
            apply ArgTwin; [exact Vk2|]. pose proof (Keys iv Iiv) as K. unfold iv_key in K. rewrite Ef in K. exact K. }
    (* the twin (non-redefining) first graph: payloads *)
    destruct (full_graph_twin _ _ _ _ FG1) as (fg1' & FG1' & EG1 & Ecv1 & Efq1).
    destruct (C0213UnsatBuild.full_graph_spec _ _ _ _ FG1') as (GI1 & _ & _ & _ & Bc1 & Fq1 & _).
    destruct (step_redefine_facts u (b_fin b1) (gi_wf GI1)) as (_ & Rv & _ & Rm).
    fold G1 in EG1. rewrite <- EG1 in Rv, Rm.
    assert (Known2 : forall c, In c (f :: fg_convs fg2) -> In c (known_funcs f b1)).
    { intros c [<-|Ic]; [left; reflexivity|]. right. apply Bc2 in Ic. rewrite SRc, SRg in Ic. exact Ic. }
    assert (Transfer : forall k, der g1 (s_inputs s) k -> In k DS2).
    { intros k D. induction D as [|k Nf Ik|v p Nf Np Ev Dp IH|ft c V All IH].
      - apply (ds_root [] W2 R2).
      - apply Rec; assumption.
      - apply (ds_value [] W2 R2 v p Nf); [|exact IH].
        apply Em; [exact Np|]. rewrite Pe in Ev.
        destruct (memb v (keepset G1 tk) && memb p (keepset G1 tk)); [exact Ev|contradiction Ev; reflexivity].
      - assert (VG1 : vtx G1 (KFunc ft) = Some (PFunc c)).
        { rewrite Pv in V. destruct (memb (KFunc ft) (keepset G1 tk)); [exact V|discriminate V]. }
        assert (Kc : In c (known_funcs f b1) /\ fn_type c = ft).
        { rewrite Rv in VG1. destruct (gi_pay GI1 _ VG1) as (c' & Q & Ic & Ty). inversion Q; subst c'.
          split; [|exact Ty]. destruct Ic as [<-|Ic]; [left; reflexivity|right]. apply Bc1. exact Ic. }
        destruct Kc as [Kc Ty].
        apply (ds_func_all [] W2 R2).
        + apply Vm. rewrite VG1. discriminate.
        + intros r0 Er. destruct (gi_fout GI2 _ _ Er) as [->|(c2 & Ic2 & Ty2 & Ir)]; [apply (ds_root [] W2 R2)|].
          rewrite <- (@same_type_keys (known_funcs f b1) c c2 WFk Kc (Known2 c2 Ic2)) in Ir by congruence.
          apply in_map_iff in Ir. destruct Ir as (fld & <- & Ifld). apply IH. exact Ifld. }
    (* the requirements of the target *)
    unfold target_derivable. apply forallb_forall. intros r0 Ir. apply membT. fold G2. fold DS2.
    rewrite Fq in Ir.
    apply Transfer. apply Post. apply in_out_keys.
    assert (Vr : vtx g1 r0 <> None).
    { apply mem_vtx. pose proof (filter_nil_all _ _ U1 r0 Ir) as Q. simpl in Q.
      apply negb_false_iff in Q. exact Q. }
    assert (Kr : memb r0 (keepset G1 tk) = true).
    { rewrite Pv in Vr. destruct (memb r0 (keepset G1 tk)); [reflexivity|contradiction Vr; reflexivity]. }
    rewrite Efq1 in Ir. destruct (Fq1 r0 Ir) as [Er Sh].
    assert (Er1 : ew G1 tk r0 <> None).
    { rewrite Tg. apply Rm. exact Er. }
    assert (Nr : r0 <> tk).
    { rewrite Tg. destruct Sh as [->|Sh]; [discriminate|].
      apply in_map_iff in Sh. destruct Sh as (fld & <- & _). intros C.
      pose proof (field_key_nf fld) as N. rewrite C in N. discriminate N. }
    assert (Kt : memb tk (keepset G1 tk) = true).
    { apply membT. apply (@keep_closed G1 tk WG1 (ri_root RIG) r0 tk); [apply membT; exact Kr|exact Nr|exact Er1]. }
    rewrite Pe, Kt, Kr. exact Er1.
  Qed.
End Derive.

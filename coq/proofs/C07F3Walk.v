(* C07F3Walk.v -- family F3 of C07: executing the planned paths.  Every path
   root, (n,T), arg T, conv, out U, (n,U) re-executes the converter on the
   supplied value named n (the shared vertices arg T / out U are overwritten
   by each walk) and hands that execution's output to the parameter n.
   Helper of C07F3.v *)
From ArgMapper Require Import Base Graph GraphAlg GraphSpec Types Args Resolver ResolverSpec GenWeights
     CheckResolver Monitors ResolverStatements.
From ArgMapper.proofs Require Import C18DijkstraLemmas C19RefineMap C19RefineGraph C0213UnsatGraph
     C0213UnsatClosure C0213UnsatBuild C0213UnsatPrune C18Dijkstra C06TotalDijkstra
     C07AffinityOps C07AffinityDiscount C07AffinityDijkstra C0213UnsatPlan C0213UnsatReach C07AffinityGraph
     C07F3Graph C07F3Plan.
From Coq Require Import List Lia ZArith String.
Import ListNotations.
Set Implicit Arguments.
Local Open Scope Z_scope.

Lemma plans_fail (g : rgraph) rd todo r :
  (forall a, r <> Ok a) -> plans g rd todo r = r.
Proof.
  intros N. unfold plans. induction todo as [|x l IH]; cbn [fold_left]; [reflexivity|].
  destruct r as [a| | |]; cbn [bind]; try exact IH. exfalso. apply (N a). reflexivity.
Qed.

Lemma Forall2_impl_in {A B} (P Q : A -> B -> Prop) l l' :
  Forall2 P l l' -> (forall x y, In x l -> P x y -> Q x y) -> Forall2 Q l l'.
Proof.
  induction 1 as [|x y l l' Pxy F IH]; intros Imp; constructor.
  - apply Imp; [left; reflexivity|exact Pxy].
  - apply IH. intros x0 y0 I. apply Imp. right. exact I.
Qed.

Section F3Walk.
  Variables (u : universe) (T U : ty) (f c : fdecl) (pns : list string)
            (named : list (string * value)) (bd : builder).
  Hypothesis H3 : f3h u T U f c pns named bd.
  Variable bh : behaviour.
  Local Notation PG := (PG3 T f c named).
  Local Notation NU := (vNU U).
  Local Notation NT := (vNT T).
  Local Notation AT := (vAT T).
  Local Notation AU := (vAU U).
  Local Notation OU := (vOU U).
  Local Notation FK := (vfk f).
  Local Notation CS := (vCS c).
  Local Notation WF rec := (walk_f u bh PG false rec).

  (* ---------- running the converter ---------- *)
  Lemma reach_conv3 fuel'' s x s' r :
    lookup AT (s_vals s) = Some x ->
    reach u bh PG false (S fuel'') CS s = Ok (s', r) ->
    r = inl [(AT, x)] /\ s_vals s' = s_vals s /\ s_last s' = s_last s /\
    s_trace s' = s_trace s /\ s_nexec s' = s_nexec s /\ s_world s' = s_world s.
  Proof.
    intros Lk. rewrite reach_S. unfold reach_body. rewrite (PG3_out_CS H3).
    destruct (take_perm SITE_REACH_OUT [AT] (s_tape (set_inprog s (CS :: s_inprog s))))
      as [[outs t1]| | |] eqn:TP; cbn [bind]; try discriminate.
    apply take_perm_single in TP. subst outs.
    unfold C0213UnsatReach.classify. cbn [fold_left].
    assert (E : lookup AT (s_vals (set_tape (set_inprog s (CS :: s_inprog s)) t1)) = Some x) by exact Lk.
    unfold vAT in E |- *. rewrite E. intros X. inversion X. cbn. auto 10.
  Qed.

  Lemma call_direct_conv3 s x res s' :
    v_ty x = T ->
    call_direct u bh false c [(AT, x)] s = Ok (res, s') ->
    r_builderr res = false /\ s_vals s' = s_vals s /\ s_last s' = s_last s /\ s_tape s' = s_tape s /\
    (exists o1, r_fields res = [o1] /\ v_ty o1 = U) /\
    s_trace s' = s_trace s ++ [EExec (fn_id c) [mkV (v_id x) T] (r_fields res) (r_err res)] /\
    (no_failures bh -> r_err res = None).
  Proof.
    intros Tx. unfold call_direct. rewrite (h_conce H3), (h_ci H3).
    cbn [map lookup fst snd field_key f_name f_ty f_sub String.eqb]. unfold vAT.
    rewrite Base.eqb_refl.
    cbn [existsb fst snd flat_map app orb f_ty]. rewrite Tx.
    unfold assignable. rewrite Z.eqb_refl. cbn [orb negb].
    unfold fresh_outs, zero_outs. rewrite (h_co H3). cbn [List.length seq combine map fst snd f_ty].
    destruct (bh (fn_id c) (s_nexec s + 1)) eqn:B; intros X; inversion X; subst res s'; clear X;
      cbn [r_fields r_err r_builderr s_vals s_last s_tape s_trace v_ty];
      (split; [reflexivity|]); (split; [reflexivity|]); (split; [reflexivity|]); (split; [reflexivity|]);
      (split; [eexists; split; reflexivity|]); (split; [reflexivity|]).
    - intros _. destruct (fn_err c); reflexivity.
    - intros NF. specialize (NF (fn_id c) (s_nexec s + 1)). rewrite B in NF. destruct NF.
    - intros _. destruct (fn_err c); reflexivity.
  Qed.

  Lemma output_values_conv3 res s s' o1 :
    r_fields res = [o1] ->
    output_values c res [OU] s = Ok s' -> s' = set_val s OU (Some o1).
  Proof.
    intros Nt. unfold output_values. cbn [fold_left bind].
    rewrite (h_co H3), Nt. unfold vOU. cbn [last_typed f_name f_ty]. cbn [String.eqb andb]. rewrite Z.eqb_refl.
    cbn [nth_error]. intros X. inversion X. reflexivity.
  Qed.

  Lemma walk_f_func3 rec prev ft0 vs final s :
    WF rec prev (KFunc ft0 :: vs) final s =
    match g_vertex PG (KFunc ft0) with
    | Some (PFunc f0) =>
        do (s, r) <- rec (KFunc ft0) s;
        match r with
        | inr e => Ok (s, inr e)
        | inl fam =>
            do (res, s) <- call_direct u bh false f0 fam s;
            if r_builderr res then Ok (s, inr XMissing)
            else match r_err res with
                 | Some e => Ok (s, inr (XConv e))
                 | None =>
                     do (ins, t') <- take_perm SITE_REACH_IN (g_in_keys PG (KFunc ft0)) (s_tape s);
                     do s <- output_values f0 res ins (set_tape s t');
                     WF rec (Some (KFunc ft0)) vs final s
                 end
        end
    | _ => Panic 403%N
    end.
  Proof. reflexivity. Qed.

  (* the outcome of one walk: the value delivered, or a converter error (which
     needs a failing function) *)
  Definition walk_res (couts : list value) (err : option Z) (r : option value + rerr) : Prop :=
    match r with
    | inl (Some o1) => err = None /\ In o1 couts /\ v_ty o1 = U
    | inl None => False
    | inr _ => ~ no_failures bh
    end.

  Definition keeps_inputs (s s' : rstate) : Prop :=
    forall m, lookup (NT m) (s_vals s') = lookup (NT m) (s_vals s).

  Lemma NT_ne_OU m : NT m <> OU.
  Proof. discriminate. Qed.
  Lemma NT_ne_AT m : NT m <> AT.
  Proof. discriminate. Qed.
  Lemma NT_ne_NU m n : NT m <> NU n.
  Proof. intros X. apply (@vNU_ne_vNT _ _ _ _ _ _ _ _ H3 n m). symmetry. exact X. Qed.

  Lemma lookup_insert_ne {V} (k k' : vkey) (v : V) (m : amap vkey V) :
    k' <> k -> lookup k' (insert k v m) = lookup k' m.
  Proof.
    intros Ne. rewrite lookup_insert. destruct (Base.eqb_spec k' k) as [Q|Q]; [contradiction|reflexivity].
  Qed.

  Section OnePath.
    Variable n : string.
    Hypothesis Hn : In n pns.
    Variable vn : value.
    Hypothesis Hvn : lookup n named = Some vn.

    Lemma vn_ty3 : v_ty vn = T.
    Proof. apply lookup_In in Hvn. apply (h_nm H3 n vn Hvn). Qed.

    Lemma walk_tail3 rec s final s' r o1 :
      lookup OU (s_vals s) = Some o1 ->
      WF rec (Some CS) [OU; NU n] final s = Ok (s', r) ->
      s_trace s' = s_trace s /\ r = inl (Some o1) /\ keeps_inputs s s'.
    Proof.
      intros Lk. unfold vOU, vNU, vCS in *. cbn [walk_f].
      cbn [set_last set_val set_vals s_vals s_last s_trace]. rewrite Lk.
      rewrite lookup_insert, Base.eqb_refl. intros X. inversion X.
      split; [reflexivity|]. split; [reflexivity|].
      intros m. cbn [set_last set_val set_vals s_vals].
      apply lookup_insert_ne. apply NT_ne_NU.
    Qed.

    Lemma walk_conv3 fuel'' prev final s s' r :
      lookup AT (s_vals s) = Some vn ->
      WF (reach u bh PG false (S fuel'')) prev (CS :: [OU; NU n]) final s = Ok (s', r) ->
      exists couts err, s_trace s' = s_trace s ++ [EExec (fn_id c) [mkV (v_id vn) T] couts err] /\
                        walk_res couts err r /\ (match r with inl _ => keeps_inputs s s' | inr _ => True end).
    Proof.
      intros Lk. unfold vCS at 1. rewrite walk_f_func3.
      change (KFunc (fn_type c)) with CS. rewrite (PG3_vertex_CS H3).
      destruct (reach u bh PG false (S fuel'') CS s) as [[s4 r4]| | |] eqn:RC; cbn [bind]; try discriminate.
      destruct (@reach_conv3 fuel'' s vn s4 r4 Lk RC) as (-> & V4 & L4 & T4 & _).
      destruct (call_direct u bh false c [(AT, vn)] s4) as [[res s5]| | |] eqn:CD; cbn [bind]; try discriminate.
      destruct (@call_direct_conv3 s4 vn res s5 vn_ty3 CD) as (Be & V5 & L5 & Tp5 & (o1 & Nt & To) & T5 & NF).
      rewrite Be.
      assert (Tr : s_trace s5 = s_trace s ++ [EExec (fn_id c) [mkV (v_id vn) T] (r_fields res) (r_err res)]).
      { rewrite T5, T4. reflexivity. }
      destruct (r_err res) as [e|] eqn:Er.
      - intros X. inversion X; subst. exists (r_fields res), (Some e). split; [exact Tr|]. split; [|exact I].
        intros NoF. specialize (NF NoF). discriminate.
      - rewrite (PG3_in_CS H3).
        destruct (take_perm SITE_REACH_IN [OU] (s_tape s5)) as [[ins0 t6]| | |] eqn:TP; cbn [bind]; try discriminate.
        apply take_perm_single in TP. subst ins0.
        destruct (output_values c res [OU] (set_tape s5 t6)) as [s6| | |] eqn:OV; cbn [bind]; try discriminate.
        pose proof (@output_values_conv3 res (set_tape s5 t6) s6 o1 Nt OV) as E6.
        intros W. apply (@walk_tail3 _ s6 final s' r o1) in W.
        + destruct W as (W1 & -> & W3). exists (r_fields res), None.
          split; [rewrite W1, E6; cbn [set_val set_vals s_trace set_tape]; exact Tr|].
          split; [cbn; split; [reflexivity|]; split; [rewrite Nt; left; reflexivity|exact To]|].
          intros m. rewrite (W3 m), E6. cbn [set_val set_vals s_vals set_tape].
          rewrite (lookup_insert_ne _ _ (@NT_ne_OU m)). rewrite V5, V4. reflexivity.
        + rewrite E6. cbn [set_val set_vals s_vals]. rewrite lookup_insert, Base.eqb_refl. reflexivity.
    Qed.

    Lemma walk_path3 fuel'' s1 s' r :
      lookup (NT n) (s_vals s1) = Some vn ->
      WF (reach u bh PG false (S fuel'')) None (path3 T U c n) None s1 = Ok (s', r) ->
      exists couts err, s_trace s' = s_trace s1 ++ [EExec (fn_id c) [mkV (v_id vn) T] couts err] /\
                        walk_res couts err r /\ (match r with inl _ => keeps_inputs s1 s' | inr _ => True end).
    Proof.
      intros LN. unfold path3.
      change [KRoot; NT n; AT; CS; OU; NU n] with (KRoot :: NT n :: AT :: (CS :: [OU; NU n])).
      set (tl := CS :: [OU; NU n]). unfold vNT, vAT in *. cbn [walk_f].
      cbn [set_last set_val set_vals s_vals s_last s_trace]. rewrite LN.
      cbn [set_last set_val set_vals s_vals s_last s_trace].
      rewrite vn_ty3. unfold assignable. rewrite Z.eqb_refl. cbn [orb].
      cbn [set_last set_val set_vals s_vals s_last s_trace].
      intros W.
      set (s2 := set_val (set_last s1 (Some vn)) (KArg T EmptyString) (Some vn)) in *.
      assert (Lk' : lookup AT (s_vals s2) = Some vn).
      { unfold s2, vAT. cbn [set_val set_vals s_vals set_last]. rewrite lookup_insert, Base.eqb_refl. reflexivity. }
      destruct (@walk_conv3 _ _ _ _ _ _ Lk' W) as (couts & err & Tr & WR & KI).
      exists couts, err. split; [exact Tr|]. split; [exact WR|].
      destruct r as [o|e]; [|exact I]. intros m. rewrite (KI m).
      unfold s2. cbn [set_val set_vals s_vals set_last]. apply lookup_insert_ne. discriminate.
    Qed.
  End OnePath.

  (* ---------- the trace and the argument map ---------- *)
  Definition conv_ev (e : event) : Prop :=
    exists n vn couts err, In n pns /\ lookup n named = Some vn /\
                           e = EExec (fn_id c) [mkV (v_id vn) T] couts err.
  Definition tr_ok (tr : list event) : Prop := forall e, In e tr -> conv_ev e.
  Definition am_ok (tr : list event) (am : argmap) : Prop :=
    forall k a, lookup k am = Some a ->
      exists n vn couts, k = NU n /\ In n pns /\ lookup n named = Some vn /\
                         In (EExec (fn_id c) [mkV (v_id vn) T] couts None) tr /\ In a couts /\ v_ty a = U.

  Definition path_of (k : vkey) : list vkey :=
    match k with KVal n _ _ => path3 T U c n | _ => [] end.

  Lemma named_lookup3 n : In n pns -> exists vn, lookup n named = Some vn.
  Proof. intros I. apply (in_keys_lookup n named). apply (h_pin H3 n I). Qed.

  Lemma last_path3 n : last (path3 T U c n) KRoot = NU n.
  Proof. reflexivity. Qed.

  Lemma walk_paths3 fuel'' leave : forall todo am s s' r,
    (forall k, In k todo -> exists n, In n pns /\ k = NU n) ->
    (forall m, lookup (NT m) (s_vals s) = lookup m named) ->
    tr_ok (s_trace s) -> am_ok (s_trace s) am ->
    (forall s0, s_trace (leave s0) = s_trace s0) ->
    walk_paths_f u bh PG false (reach u bh PG false (S fuel'')) leave (map path_of todo) am s = Ok (s', r) ->
    tr_ok (s_trace s') /\
    match r with
    | inl am' => am_ok (s_trace s') am' /\
                 (forall k, In k todo \/ lookup k am <> None -> lookup k am' <> None)
    | inr _ => ~ no_failures bh
    end.
  Proof.
    induction todo as [|k todo IH]; intros am s s' r Htodo Hin Htr Ham Hleave.
    - cbn [map walk_paths_f]. intros X. inversion X; subst. rewrite Hleave.
      split; [exact Htr|]. split; [exact Ham|]. intros k [[]|N]. exact N.
    - destruct (Htodo k (or_introl eq_refl)) as (n & In' & ->).
      destruct (named_lookup3 n In') as (vn & Hvn).
      cbn [map walk_paths_f]. change (path_of (NU n)) with (path3 T U c n).
      destruct (walk_f u bh PG false (reach u bh PG false (S fuel'')) None (path3 T U c n) None s)
        as [[s3 r3]| | |] eqn:W; cbn [bind]; try discriminate.
      assert (LN : lookup (NT n) (s_vals s) = Some vn) by (rewrite Hin; exact Hvn).
      destruct (@walk_path3 n vn Hvn fuel'' s s3 r3 LN W) as (couts & err & Tr & WR & KI).
      assert (Htr3 : tr_ok (s_trace s3)).
      { intros e Ie. rewrite Tr in Ie. apply in_app_or in Ie. destruct Ie as [Ie|[<-|[]]]; [apply Htr; exact Ie|].
        exists n, vn, couts, err. auto. }
      destruct r3 as [[fv|]|e].
      + cbn in WR. destruct WR as (-> & Ifv & Tfv). rewrite last_path3.
        intros WP. apply IH in WP.
        * destruct WP as [TR' R']. split; [exact TR'|].
          destruct r as [am'|e]; [|exact R']. destruct R' as [A1 A2]. split; [exact A1|].
          intros k [[<-|Ik]|Nk]; apply A2.
          -- right. rewrite lookup_insert, Base.eqb_refl. discriminate.
          -- left. exact Ik.
          -- right. rewrite lookup_insert. destruct (Base.eqb k (NU n)); [discriminate|exact Nk].
        * intros k Ik. apply Htodo. right. exact Ik.
        * intros m. rewrite (KI m). apply Hin.
        * exact Htr3.
        * intros k a. rewrite lookup_insert. destruct (Base.eqb_spec k (NU n)) as [->|Ne].
          -- intros Q. inversion Q; subst a. exists n, vn, couts.
             split; [reflexivity|]. split; [exact In'|]. split; [exact Hvn|].
             split; [rewrite Tr; apply in_or_app; right; left; reflexivity|]. split; assumption.
          -- intros Q. destruct (Ham k a Q) as (n1 & vn1 & couts1 & E1 & I1 & L1 & Ev1 & Ia1 & Ta1).
             exists n1, vn1, couts1. split; [exact E1|]. split; [exact I1|]. split; [exact L1|].
             split; [rewrite Tr; apply in_or_app; left; exact Ev1|]. split; assumption.
        * exact Hleave.
      + destruct WR.
      + intros X. inversion X; subst. rewrite Hleave. split; [exact Htr3|exact WR].
  Qed.

  (* ---------- reachTarget on the target ---------- *)
  Lemma classify3 s : forall outs am0 todo0,
    (forall k, In k outs -> exists n, k = NU n /\ lookup (NU n) (s_vals s) = None) ->
    classify false s outs (am0, todo0) = (am0, todo0 ++ outs).
  Proof.
    unfold classify. induction outs as [|k outs IH]; intros am0 todo0 Hk.
    - rewrite app_nil_r. reflexivity.
    - destruct (Hk k (or_introl eq_refl)) as (n & -> & Lk).
      cbn [fold_left]. unfold vNU in Lk |- *. rewrite Lk.
      rewrite IH; [rewrite <- app_assoc; reflexivity|].
      intros k Ik. apply Hk. right. exact Ik.
  Qed.

  Definition same_core (s s' : rstate) : Prop :=
    s_vals s' = s_vals s /\ s_trace s' = s_trace s /\ s_inprog s' = s_inprog s.

  Lemma plans3 : forall todo paths0 s R,
    (forall k, In k todo -> exists n, In n pns /\ k = NU n) ->
    s_inprog s = [FK] ->
    plans PG false todo (Ok (paths0, [], s)) = Ok R ->
    exists s', R = (paths0 ++ map path_of todo, [], s') /\ same_core s s'.
  Proof.
    induction todo as [|k todo IH]; intros paths0 s R Htodo Hip.
    - unfold plans. cbn [fold_left map]. intros X. inversion X. rewrite app_nil_r.
      exists s. split; [reflexivity|]. repeat split.
    - destruct (Htodo k (or_introl eq_refl)) as (n & In' & ->).
      unfold plans. cbn [fold_left bind].
      destruct (plan PG false (NU n) s) as [[[path bad] s2]| | |] eqn:PL; cbn [bind].
      + destruct (plan3_eq H3 n In' s PL) as (-> & -> & t2 & ->).
        assert (B : existsb (fun v => memb v (s_inprog s)) (path3 T U c n) = false).
        { destruct (existsb (fun v => memb v (s_inprog s)) (path3 T U c n)) eqn:B; [|reflexivity].
          apply existsb_exists in B. destruct B as (v & Iv & Mv). rewrite Hip in Mv. cbn [memb] in Mv.
          rewrite orb_false_r in Mv. apply veqb_true in Mv. exfalso. apply (path3_no_fk H3 Iv Mv). }
        rewrite B.
        fold (plans PG false todo (Ok (paths0 ++ [path3 T U c n], [], add_input (set_tape s t2) (NT n)))).
        intros Q. apply IH in Q.
        * destruct Q as (s' & -> & (E1 & E2 & E3)). exists s'. split.
          -- cbn [map]. change (path_of (NU n)) with (path3 T U c n). rewrite <- app_assoc. reflexivity.
          -- split; [rewrite E1; reflexivity|]. split; [rewrite E2; reflexivity|rewrite E3; reflexivity].
        * intros k Ik. apply Htodo. right. exact Ik.
        * exact Hip.
      + fold (plans PG false todo (Panic site)). rewrite plans_fail; [discriminate|intros a; discriminate].
      + fold (plans PG false todo (TapeErr site)). rewrite plans_fail; [discriminate|intros a; discriminate].
      + fold (plans PG false todo (@OutOfFuel (list (list vkey) * list vkey * rstate))).
        rewrite plans_fail; [discriminate|intros a; discriminate].
  Qed.

  Lemma reach_top3 fuel'' s0 s r :
    s_vals s0 = vals3 T named -> s_inprog s0 = [] -> s_trace s0 = [] ->
    reach u bh PG false (S (S fuel'')) FK s0 = Ok (s, r) ->
    tr_ok (s_trace s) /\
    match r with
    | inl am => am_ok (s_trace s) am /\ (forall n, In n pns -> lookup (NU n) am <> None)
    | inr _ => ~ no_failures bh
    end.
  Proof.
    intros V0 P0 T0. rewrite reach_S. unfold reach_body. rewrite P0.
    destruct (take_perm SITE_REACH_OUT (g_out_keys PG FK) (s_tape (set_inprog s0 [FK]))) as [[outs t1]| | |] eqn:TP;
      cbn [bind]; try discriminate.
    pose proof (take_perm_In' _ _ _ TP) as Iouts.
    assert (Houts : forall k, In k outs -> exists n, In n pns /\ k = NU n).
    { intros k Ik. apply Iouts in Ik. exact (proj1 (PG3_out_fk H3 k) Ik). }
    set (s1 := set_tape (set_inprog s0 [FK]) t1).
    assert (V1 : s_vals s1 = vals3 T named) by exact V0.
    assert (T1 : s_trace s1 = []) by exact T0.
    assert (P1 : s_inprog s1 = [FK]) by reflexivity.
    rewrite (classify3 s1 outs [] []).
    2:{ intros k Ik. destruct (Houts k Ik) as (n & In' & ->). exists n. split; [reflexivity|].
        rewrite V1. apply (vals3_NU H3). }
    cbn [app].
    destruct outs as [|o1 outs'] eqn:Eo.
    { exfalso. destruct (h_p0 H3) as (n0 & I0).
      assert (X : In (NU n0) []).
      { apply Iouts. apply (proj2 (PG3_out_fk H3 (NU n0))). exists n0. auto. }
      destruct X. }
    rewrite <- Eo in *. clear Eo o1 outs'.
    destruct (plans PG false outs (Ok ([], [], s1))) as [[[paths unsat] s2]| | |] eqn:PL; cbn [bind]; try discriminate.
    destruct (plans3 outs [] s1 Houts P1 PL) as (s2' & E2 & (V2 & T2 & _)).
    inversion E2; subst paths unsat s2'. clear E2. cbn [app].
    intros WP. apply walk_paths3 in WP.
    - destruct WP as [TR R']. split; [exact TR|]. destruct r as [am|e]; [|exact R'].
      destruct R' as [A1 A2]. split; [exact A1|]. intros n In'. apply A2. left.
      apply Iouts. apply (proj2 (PG3_out_fk H3 (NU n))). exists n. auto.
    - exact Houts.
    - intros m. rewrite V2, V1. apply (vals3_NT H3).
    - rewrite T2, T1. intros e [].
    - rewrite T2, T1. intros k a Q. discriminate.
    - intros s3. reflexivity.
  Qed.
End F3Walk.

(* C08CallableArgs.v -- the options of the call of a redefined function:
   [redefined_opts opts ivs] builds the builder of [opts] extended with one
   named / typed value per declared input; names kept by a builder are
   non-empty and lower case.  Helper of C08Callable.v. *)
From ArgMapper Require Import Base Graph GraphAlg Types Args Resolver ResolverSpec Monitors Monitors2.
From ArgMapper.proofs Require Import C141517VSLemmas.
From Coq Require Import List Lia ZArith String.
Import ListNotations.
Set Implicit Arguments.
Local Open Scope Z_scope.
Local Open Scope list_scope.

(* ---------- association lists ---------- *)
Lemma in_insert_inv {K V} {E : EqDec K} (k a : K) (v x : V) (m : amap K V) :
  In (a, x) (insert k v m) -> (a = k /\ x = v) \/ In (a, x) m.
Proof.
  induction m as [|[k' v'] m IH]; simpl.
  - intros [Q|[]]. inversion Q. left. auto.
  - destruct (Base.eqb_spec k k') as [->|N].
    + intros [Q|I]; [inversion Q; left; auto|right; right; exact I].
    + intros [Q|I]; [right; left; exact Q|]. destruct (IH I) as [L|R]; [left; exact L|right; right; exact R].
Qed.

Section InsertKeys.
  Context {K V W : Type} {E : EqDec K}.
  Variable F : K * V -> W.

  (* replacing the value under k keeps the image when F agrees on old and new entry *)
  Lemma map_insert_incl (k : K) (v : V) (m : amap K V) :
    (forall v0, In (k, v0) m -> F (k, v0) = F (k, v)) ->
    incl (map F m) (map F (insert k v m)) /\ In (F (k, v)) (map F (insert k v m)).
  Proof.
    induction m as [|[k' v'] m IH]; intros Ag; simpl.
    - split; [intros x []|left; reflexivity].
    - destruct (Base.eqb_spec k k') as [<-|N].
      + simpl. split; [|left; reflexivity].
        intros x [<-|I]; [left; symmetry; apply Ag; left; reflexivity|right; exact I].
      + destruct IH as [A B]; [intros v0 I; apply Ag; right; exact I|].
        simpl. split; [|right; exact B].
        intros x [<-|I]; [left; reflexivity|right; apply A; exact I].
  Qed.
End InsertKeys.

(* ---------- build_from ---------- *)
Lemma build_from_some (opts : list arg) : forall b b',
  build_from b opts = Some b' <->
  (forallb (fun a => negb (is_nil_arg a)) opts = true /\ b' = fold_left apply_arg opts b /\ b_err b' = false).
Proof.
  induction opts as [|a opts IH]; intros b b'; simpl.
  - destruct (b_err b) eqn:Eb; split.
    + discriminate.
    + intros (_ & -> & C). congruence.
    + intros Q. inversion Q; subst. auto.
    + intros (_ & -> & _). reflexivity.
  - destruct (is_nil_arg a); simpl.
    + split; [discriminate|intros (C & _); discriminate].
    + apply IH.
Qed.

Definition mk_arg (iv : rfield * value) : arg :=
  match fst iv with
  | RNamed n _ => ANamed n (Some (snd iv))
  | RTyped _ => ATyped [Some (snd iv)]
  end.

Lemma redefined_opts_eq opts ivs : redefined_opts opts ivs = opts ++ map mk_arg ivs.
Proof. reflexivity. Qed.

Lemma mk_arg_not_nil iv : is_nil_arg (mk_arg iv) = false.
Proof. unfold mk_arg. destruct (fst iv); reflexivity. Qed.

(* what one extra option leaves alone *)
Definition same_rest (b b' : builder) : Prop :=
  b_namedsub b' = b_namedsub b /\ b_typedsub b' = b_typedsub b /\ b_convs b' = b_convs b /\
  b_gens b' = b_gens b /\ b_fin b' = b_fin b /\ b_fout b' = b_fout b /\ b_err b' = b_err b.

Lemma same_rest_refl b : same_rest b b.
Proof. repeat split. Qed.

Lemma same_rest_trans b1 b2 b3 : same_rest b1 b2 -> same_rest b2 b3 -> same_rest b1 b3.
Proof.
  intros (A1 & A2 & A3 & A4 & A5 & A6 & A7) (B1 & B2 & B3 & B4 & B5 & B6 & B7).
  repeat split; congruence.
Qed.

Lemma same_rest_mk b iv : same_rest b (apply_arg b (mk_arg iv)).
Proof.
  unfold mk_arg. destruct (fst iv) as [n t|t]; cbn [apply_arg fold_left].
  - unfold set_named. destruct (String.eqb n ""); repeat split.
  - repeat split.
Qed.

Definition NK (b : builder) : list vkey := map fst (input_vertices b).

Lemma NK_eq b :
  NK b = map (fun kv => KVal (fst kv) (v_ty (snd kv)) EmptyString) (b_named b) ++
         map (fun kv => KVal (fst (fst kv)) (v_ty (snd kv)) (snd (fst kv))) (b_namedsub b) ++
         map (fun kv => KOut (fst kv) EmptyString) (b_typed b) ++
         map (fun kv => KOut (fst (fst kv)) (snd (fst kv))) (b_typedsub b).
Proof.
  unfold NK, input_vertices. rewrite !map_app, !map_map. reflexivity.
Qed.

Lemma NK_named_step b n v :
  String.eqb n "" = false ->
  (forall v0, In (lower n, v0) (b_named b) -> v_ty v0 = v_ty v) ->
  incl (NK b) (NK (apply_arg b (ANamed n (Some v)))) /\
  In (KVal (lower n) (v_ty v) EmptyString) (NK (apply_arg b (ANamed n (Some v)))).
Proof.
  intros Ne Ag. cbn [apply_arg]. unfold set_named. rewrite Ne. rewrite !NK_eq. cbn [b_named b_namedsub b_typed b_typedsub].
  destruct (@map_insert_incl string value vkey _ (fun kv => KVal (fst kv) (v_ty (snd kv)) EmptyString)
              (lower n) v (b_named b)) as [A B].
  { intros v0 I. cbn [fst snd]. rewrite (Ag v0 I). reflexivity. }
  split.
  - intros x I. apply in_app_or in I. apply in_or_app. destruct I as [I|I]; [left; apply A; exact I|right; exact I].
  - apply in_or_app. left. exact B.
Qed.

Lemma NK_typed_step b v :
  incl (NK b) (NK (apply_arg b (ATyped [Some v]))) /\
  In (KOut (v_ty v) EmptyString) (NK (apply_arg b (ATyped [Some v]))).
Proof.
  cbn [apply_arg fold_left set_typed]. rewrite !NK_eq. cbn [b_named b_namedsub b_typed b_typedsub].
  destruct (@map_insert_incl ty value vkey _ (fun kv => KOut (fst kv) EmptyString)
              (v_ty v) v (b_typed b)) as [A B].
  { intros v0 I. reflexivity. }
  split.
  - intros x I. apply in_app_or in I. apply in_or_app. destruct I as [I|I]; [left; exact I|right].
    apply in_app_or in I. apply in_or_app. destruct I as [I|I]; [left; exact I|right].
    apply in_app_or in I. apply in_or_app. destruct I as [I|I]; [left; apply A; exact I|right; exact I].
  - apply in_or_app. right. apply in_or_app. right. apply in_or_app. left. exact B.
Qed.

(* ---------- all the extra options ---------- *)
Section Extra.
  Variable NL : list (string * ty).
  Hypothesis OT : forall n t t', In (n, t) NL -> In (n, t') NL -> t = t'.

  Definition named_inv (b : builder) : Prop :=
    forall n0 v0, In (n0, v0) (b_named b) -> In (n0, v_ty v0) NL.

  Definition iv_ok (iv : rfield * value) : Prop :=
    v_ty (snd iv) = rfield_ty (fst iv) /\
    match fst iv with
    | RNamed n t => String.eqb n "" = false /\ lower n = n /\ In (n, t) NL
    | RTyped _ => True
    end.

  Definition iv_key (iv : rfield * value) : vkey :=
    match fst iv with RNamed n t => KVal n t EmptyString | RTyped t => KOut t EmptyString end.

  Lemma extra_step b iv :
    named_inv b -> iv_ok iv ->
    named_inv (apply_arg b (mk_arg iv)) /\ incl (NK b) (NK (apply_arg b (mk_arg iv))) /\
    In (iv_key iv) (NK (apply_arg b (mk_arg iv))).
  Proof.
    intros NI [Ty Ok]. unfold mk_arg, iv_key. destruct (fst iv) as [n t|t]; cbn [rfield_ty] in Ty.
    - destruct Ok as (Ne & Lo & In0).
      destruct (@NK_named_step b n (snd iv) Ne) as [A B].
      { intros v0 I. rewrite Lo in I. rewrite Ty. apply (@OT n (v_ty v0) t (NI _ _ I) In0). }
      split; [|split; [exact A|]].
      + intros n0 v0 I. cbn [apply_arg] in I. unfold set_named in I. rewrite Ne in I. cbn [b_named] in I.
        apply in_insert_inv in I. destruct I as [[-> ->]|I]; [|apply NI; exact I].
        rewrite Lo, Ty. exact In0.
      + rewrite Lo, Ty in B. exact B.
    - destruct (NK_typed_step b (snd iv)) as [A B].
      split; [|split; [exact A|]].
      + intros n0 v0 I. apply NI. exact I.
      + rewrite Ty in B. exact B.
  Qed.

  Lemma extra_fold : forall ivs b,
    named_inv b -> (forall iv, In iv ivs -> iv_ok iv) ->
    let b' := fold_left apply_arg (map mk_arg ivs) b in
    named_inv b' /\ incl (NK b) (NK b') /\ (forall iv, In iv ivs -> In (iv_key iv) (NK b')) /\ same_rest b b'.
  Proof.
    induction ivs as [|iv ivs IH]; intros b NI Ok; cbn [map fold_left].
    - split; [exact NI|]. split; [apply incl_refl|]. split; [intros iv []|apply same_rest_refl].
    - destruct (@extra_step b iv NI (Ok iv (or_introl eq_refl))) as (NI1 & Inc1 & K1).
      destruct (IH _ NI1 (fun x I => Ok x (or_intror I))) as (NI2 & Inc2 & K2 & SR2).
      split; [exact NI2|]. split; [eapply incl_tran; eauto|]. split.
      + intros x [<-|I]; [apply Inc2; exact K1|apply K2; exact I].
      + eapply same_rest_trans; [apply same_rest_mk|exact SR2].
  Qed.
End Extra.

Theorem redefined_builder NL d opts ivs b1 :
  (forall n t t', In (n, t) NL -> In (n, t') NL -> t = t') ->
  build_args d opts = Some b1 ->
  named_inv NL b1 -> (forall iv, In iv ivs -> iv_ok NL iv) ->
  exists b2, build_args d (redefined_opts opts ivs) = Some b2 /\
    incl (NK b1) (NK b2) /\ (forall iv, In iv ivs -> In (iv_key iv) (NK b2)) /\ same_rest b1 b2.
Proof.
  intros OT HB NI Ok. unfold build_args in *. rewrite redefined_opts_eq, app_assoc.
  apply build_from_some in HB. destruct HB as (Nn & E1 & Er).
  destruct (@extra_fold NL OT ivs b1 NI Ok) as (_ & Inc & Ks & SR).
  exists (fold_left apply_arg (map mk_arg ivs) b1).
  split; [|split; [exact Inc|split; [exact Ks|exact SR]]].
  apply build_from_some. split; [|split].
  - rewrite forallb_app, Nn. simpl. apply forallb_forall. intros a Ia.
    apply in_map_iff in Ia. destruct Ia as (iv & <- & _). rewrite mk_arg_not_nil. reflexivity.
  - rewrite fold_left_app, <- E1. reflexivity.
  - destruct SR as (_ & _ & _ & _ & _ & _ & E). rewrite E. exact Er.
Qed.

(* ---------- names kept by a builder ---------- *)
Definition name_ok (n : string) : Prop := String.eqb n "" = false /\ lower n = n.

Definition lc_inv (b : builder) : Prop :=
  (forall n v, In (n, v) (b_named b) -> name_ok n) /\
  (forall n st v, In ((n, st), v) (b_namedsub b) -> name_ok n).

Lemma lower_name_ok n : String.eqb n "" = false -> name_ok (lower n).
Proof.
  intros Ne. split; [|apply lower_idem].
  destruct (String.eqb_spec (lower n) "") as [E|_]; [|reflexivity].
  apply lower_empty_inv in E. subst n. discriminate Ne.
Qed.

Lemma lc_set_typed b v : lc_inv b -> lc_inv (set_typed b v).
Proof. intros I. destruct v; exact I. Qed.

Lemma lc_set_typedsub b v st : lc_inv b -> lc_inv (set_typedsub b v st).
Proof.
  intros I. unfold set_typedsub. destruct (String.eqb st ""); [apply lc_set_typed; exact I|].
  destruct v; exact I.
Qed.

Lemma lc_set_named b n v : lc_inv b -> lc_inv (set_named b n v).
Proof.
  intros I. unfold set_named. destruct (String.eqb n "") eqn:Ne; [apply lc_set_typed; exact I|].
  destruct v as [x|]; [|exact I]. destruct I as [A B]. split; [|exact B].
  cbn [b_named]. intros n0 v0 I0. apply in_insert_inv in I0.
  destruct I0 as [[-> _]|I0]; [apply lower_name_ok; exact Ne|apply (A _ _ I0)].
Qed.

Lemma lc_set_namedsub b n v st : lc_inv b -> lc_inv (set_namedsub b n v st).
Proof.
  intros I. unfold set_namedsub. destruct (String.eqb n "") eqn:Ne; [apply lc_set_typedsub; exact I|].
  destruct (String.eqb st ""); [apply lc_set_named; exact I|].
  destruct v as [x|]; [|exact I]. destruct I as [A B]. split; [exact A|].
  cbn [b_namedsub]. intros n0 st0 v0 I0. apply in_insert_inv in I0.
  destruct I0 as [[Q _]|I0]; [inversion Q; subst; apply lower_name_ok; exact Ne|apply (B _ _ _ I0)].
Qed.

Lemma lc_fold_typed vs : forall b, lc_inv b -> lc_inv (fold_left set_typed vs b).
Proof. induction vs as [|v vs IH]; intros b I; simpl; [exact I|]. apply IH. apply lc_set_typed. exact I. Qed.

Lemma lc_add_convs_raw fs : forall b, lc_inv b -> lc_inv (add_convs_raw b fs).
Proof.
  induction fs as [|[f|] fs IH]; intros b I; simpl; [exact I| |exact I].
  apply IH. exact I.
Qed.

Lemma lc_apply_arg b a : lc_inv b -> lc_inv (apply_arg b a).
Proof.
  intros I. destruct a; cbn [apply_arg]; try exact I.
  - apply lc_set_named; exact I.
  - apply lc_set_namedsub; exact I.
  - apply lc_fold_typed; exact I.
  - apply lc_set_typedsub; exact I.
  - apply lc_add_convs_raw; exact I.
Qed.

Lemma build_args_lc d opts b : build_args d opts = Some b -> lc_inv b.
Proof.
  unfold build_args. intros HB. apply build_from_some in HB. destruct HB as (_ & -> & _).
  generalize (d ++ opts). intros l.
  assert (G : forall l b0, lc_inv b0 -> lc_inv (fold_left apply_arg l b0)).
  { induction l0 as [|a l0 IH]; intros b0 I; simpl; [exact I|]. apply IH. apply lc_apply_arg. exact I. }
  apply G. split; [intros n v []|intros n st v []].
Qed.

(* the named supplied-value vertices of a builder made by build_args have good names *)
Lemma input_vertex_name d opts b n t s :
  build_args d opts = Some b -> In (KVal n t s) (NK b) -> name_ok n.
Proof.
  intros HB I. destruct (build_args_lc _ _ HB) as [A B]. rewrite NK_eq in I.
  apply in_app_or in I. destruct I as [I|I].
  { apply in_map_iff in I. destruct I as ([n0 v0] & Q & I). inversion Q; subst. apply (A _ _ I). }
  apply in_app_or in I. destruct I as [I|I].
  { apply in_map_iff in I. destruct I as ([[n0 st0] v0] & Q & I). inversion Q; subst. apply (B _ _ _ I). }
  apply in_app_or in I. destruct I as [I|I]; apply in_map_iff in I; destruct I as (x & Q & _); discriminate Q.
Qed.

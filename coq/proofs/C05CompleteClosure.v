(* C05CompleteClosure.v -- Part C of the C05 development: the backwards
   closure [keep_set], pruning, AND-OR derivability and the cycle test.
   Proves the contracts closure_spec, prune_spec, derive_sound_spec and
   cyclic_spec of C05CompleteDefs.v.  The contract derive_keep_spec is FALSE
   as stated (its second clause needs [stop] to be a function vertex): see
   [derive_keep_spec_false] (a concrete counterexample) and the proved
   variant [derive_keep_alt_proof]. *)
From ArgMapper Require Import Base Graph GraphAlg GraphSpec Types Args Resolver ResolverSpec.
From ArgMapper.proofs Require Import C18DijkstraLemmas C19RefineMap C19RefineGraph
     C05CompleteDefs C05CompleteClosureBase.
From Coq Require Import Lia ZArith List String.
Import ListNotations.
Set Implicit Arguments.
Local Open Scope Z_scope.

(* ================================================================== *)
(* closure = generic BFS over the in-neighbours, not expanding [stop]  *)
(* ================================================================== *)
Definition csucc (g : rgraph) (stop : vkey) (a : vkey) : list vkey :=
  if Base.eqb a stop then [] else g_in_keys g a.

Lemma closure_gbfs (g : rgraph) (stop : vkey) : forall fuel frontier seen,
  closure fuel g stop frontier seen = gbfs (csucc g stop) fuel frontier seen.
Proof.
  induction fuel as [|f IH]; intros frontier seen; [reflexivity|].
  rewrite gbfs_S. cbn [closure]. unfold gfresh.
  change (fun a : vkey => if Base.eqb a stop then [] else g_in_keys g a) with (csucc g stop).
  destruct (filter (fun x : vkey => negb (memb x seen)) (dedup (flat_map (csucc g stop) frontier)))
    as [|y fr]; [reflexivity|].
  apply IH.
Qed.

Lemma csucc_in (g : rgraph) (stop a x : vkey) :
  wf_graph g -> (In x (csucc g stop a) <-> a <> stop /\ exists w, edge g x a w).
Proof.
  intros W. unfold csucc. destruct (Base.eqb_spec a stop) as [->|N].
  - split; [intros []|intros [Q _]; contradiction Q; reflexivity].
  - rewrite (cc_in_in_keys x a W). split; [intros Q; split; assumption|intros [_ Q]; exact Q].
Qed.

Section KeepSet.
  Variable g : rgraph.
  Variable stop : vkey.
  Hypothesis W : wf_graph g.
  Hypothesis Root : vertex g KRoot.

  Lemma keep_root : In KRoot (keep_set g stop).
  Proof.
    unfold keep_set. rewrite closure_gbfs. apply gbfs_incl. left; reflexivity.
  Qed.

  Lemma keep_closed (a b : vkey) (w : Z) :
    In b (keep_set g stop) -> b <> stop -> edge g a b w -> In a (keep_set g stop).
  Proof.
    unfold keep_set. rewrite closure_gbfs. intros Ib Ns Ed.
    apply gbfs_closed with (univ := g_vertex_keys g) (a := b).
    - intros a' x Ix. apply (csucc_in stop a' x W) in Ix. destruct Ix as [_ [w' Ed']].
      apply cc_in_vertex_keys. apply (edge_vertices W Ed').
    - constructor; [intros []|constructor].
    - intros x [<-|[]]. apply cc_in_vertex_keys. exact Root.
    - intros a' x Ia' Na'. contradiction.
    - simpl. lia.
    - left. exact Ib.
    - apply (csucc_in stop b a W). split; [exact Ns|exists w; exact Ed].
  Qed.

  Lemma keep_ind (P : vkey -> Prop) :
    P KRoot -> (forall a x w, P a -> a <> stop -> edge g x a w -> P x) ->
    forall k, In k (keep_set g stop) -> P k.
  Proof.
    intros P0 St. unfold keep_set. rewrite closure_gbfs. apply gbfs_ind.
    - intros a x Pa Ix. apply (csucc_in stop a x W) in Ix. destruct Ix as [Ns [w Ed]].
      apply (St a x w); auto.
    - intros k [<-|[]]. exact P0.
    - intros k [<-|[]]. exact P0.
  Qed.

  Lemma keep_vertex (k : vkey) : In k (keep_set g stop) -> vertex g k.
  Proof.
    revert k. apply keep_ind; [exact Root|].
    intros a x w _ _ Ed. apply (edge_vertices W Ed).
  Qed.

  Lemma keep_walk (k : vkey) : In k (keep_set g stop) ->
    exists p w, walk g k KRoot p w /\ (forall x, In x p -> In x (keep_set g stop)) /\
                (forall x, In x (tl p) -> x <> stop).
  Proof.
    revert k. apply keep_ind.
    - exists [KRoot], 0. split; [constructor; exact Root|]. split.
      + intros x [<-|[]]. apply keep_root.
      + intros x [].
    - intros a x w (p & wt & Wk & Ins & Tl) Ns Ed.
      destruct (cc_walk_head Wk) as [p' Ep].
      assert (Ia : In a (keep_set g stop)) by (apply Ins; rewrite Ep; left; reflexivity).
      exists (x :: p), (w + wt). split; [econstructor; eauto|]. split.
      + intros y [<-|Iy]; [|apply Ins; exact Iy]. apply (@keep_closed x a w Ia Ns Ed).
      + cbn [tl]. intros y Iy. rewrite Ep in Iy. destruct Iy as [<-|Iy]; [exact Ns|].
        apply Tl. rewrite Ep. exact Iy.
  Qed.
End KeepSet.

Theorem closure_proof : closure_spec.
Proof.
  intros g stop W Root keep. unfold keep. split; [|split; [|split]].
  - apply keep_root.
  - intros k Ik. eapply keep_vertex; eauto.
  - intros a b w Ib Ns Ed. eapply keep_closed; eauto.
  - intros k Ik. eapply keep_walk; eauto.
Qed.
Print Assumptions closure_proof.

(* ================================================================== *)
(* pruning                                                             *)
(* ================================================================== *)
Theorem prune_proof : prune_spec.
Proof.
  intros g keep W g'.
  pose proof (cc_fold_remove_gspec keep (g_vertex_keys g) (cc_wf_gspec W)) as G.
  fold (prune_graph g keep) in G. fold g' in G.
  destruct G as (Hv & Ho & _ & W').
  assert (NV : forall k, memb k (g_vertex_keys g) = false -> lookup k (ghash g) = None).
  { intros k M. apply memb_false in M. apply not_in_keys_lookup. exact M. }
  split; [exact W'|]. split.
  - intros k. unfold g_vertex. rewrite Hv. unfold cc_removed.
    destruct (memb k keep); simpl.
    + rewrite andb_false_r. reflexivity.
    + rewrite andb_true_r. destruct (memb k (g_vertex_keys g)) eqn:M; [reflexivity|].
      apply NV. exact M.
  - intros a b w. unfold edge. rewrite Ho. unfold cc_removed.
    destruct (memb a keep) eqn:Ka; simpl.
    + rewrite andb_false_r. simpl. destruct (memb b keep) eqn:Kb; simpl.
      * rewrite andb_false_r. apply memb_In in Ka. apply memb_In in Kb. tauto.
      * apply memb_false in Kb. rewrite andb_true_r.
        destruct (memb b (g_vertex_keys g)) eqn:M.
        -- split; [discriminate|tauto].
        -- split; [|tauto]. intros Q. exfalso. apply (wf_closed W) in Q. destruct Q as [_ Q].
           apply memb_false in M. apply M. exact Q.
    + apply memb_false in Ka. rewrite andb_true_r.
      destruct (memb a (g_vertex_keys g)) eqn:M; simpl.
      * split; [discriminate|tauto].
      * destruct (memb b (g_vertex_keys g) && negb (memb b keep)).
        -- split; [discriminate|tauto].
        -- split; [|tauto]. intros Q. exfalso. apply (wf_closed W) in Q. destruct Q as [Q _].
           apply memb_false in M. apply M. exact Q.
Qed.
Print Assumptions prune_proof.

(* ================================================================== *)
(* derive: round structure                                             *)
(* ================================================================== *)
Definition dfresh (g : rgraph) (c : list Z) (D : list vkey) : list vkey :=
  filter (fun k => negb (memb k D) && derivable_step g c D k) (g_vertex_keys g).

Lemma derive_S fuel (g : rgraph) c D :
  derive (S fuel) g c D =
  match dfresh g c D with
  | [] => D
  | _ :: _ => derive fuel g c (D ++ dfresh g c D)
  end.
Proof. unfold dfresh. cbn [derive]. destruct (filter _ _); reflexivity. Qed.

Lemma dfresh_in (g : rgraph) c D k :
  In k (dfresh g c D) <-> vertex g k /\ ~ In k D /\ derivable_step g c D k = true.
Proof.
  unfold dfresh. rewrite filter_In, andb_true_iff, negb_true_iff, memb_false.
  rewrite cc_in_vertex_keys. tauto.
Qed.

(* set-level induction over the rounds *)
Lemma derive_inv (I : list vkey -> Prop) (g : rgraph) c :
  (forall D, I D -> I (D ++ dfresh g c D)) ->
  forall fuel D, I D -> I (derive fuel g c D).
Proof.
  intros St. induction fuel as [|f IH]; intros D ID; [exact ID|].
  rewrite derive_S. destruct (dfresh g c D) as [|y fr] eqn:Fr; [exact ID|].
  apply IH. rewrite <- Fr. apply St. exact ID.
Qed.

(* with no memoized results a function vertex only passes with all its requirements *)
Lemma step_func_all (g : rgraph) D ft :
  derivable_step g [] D (KFunc ft) = true ->
  forall r w, edge g (KFunc ft) r w -> In r D.
Proof.
  cbn [derivable_step]. intros Q r w Ed.
  assert (C : match g_vertex g (KFunc ft) with
              | Some (PFunc f) => fn_once f && memb (fn_id f) [] | _ => false end = false).
  { destruct (g_vertex g (KFunc ft)) as [[|f]|]; try reflexivity. simpl. apply andb_false_r. }
  rewrite C, orb_false_r in Q. rewrite forallb_forall in Q.
  apply memb_In. apply Q. apply cc_in_out_keys. exists w. exact Ed.
Qed.

Lemma step_has_out (g : rgraph) D k :
  funcs_have_out g -> vertex g k -> derivable_step g [] D k = true ->
  k = KRoot \/ exists r w, edge g k r w /\ In r D.
Proof.
  intros FO Vk Q. destruct k as [|ft|n t s|t s|t s].
  - left; reflexivity.
  - right. destruct (FO ft Vk) as (b & w & Ed). exists b, w. split; [exact Ed|].
    apply (@step_func_all g D ft Q b w Ed).
  - right. cbn [derivable_step] in Q. apply existsb_exists in Q. destruct Q as (r & Ir & Mr).
    apply cc_in_out_keys in Ir. destruct Ir as [w Ed]. apply memb_In in Mr. eauto.
  - right. cbn [derivable_step] in Q. apply existsb_exists in Q. destruct Q as (r & Ir & Mr).
    apply cc_in_out_keys in Ir. destruct Ir as [w Ed]. apply memb_In in Mr. eauto.
  - right. cbn [derivable_step] in Q. apply existsb_exists in Q. destruct Q as (r & Ir & Mr).
    apply cc_in_out_keys in Ir. destruct Ir as [w Ed]. apply memb_In in Mr. eauto.
Qed.

(* ================================================================== *)
(* derive_sound                                                        *)
(* ================================================================== *)
Theorem derive_sound_proof : derive_sound_spec.
Proof.
  intros g W. unfold derivable_set.
  set (I := fun D : list vkey => forall k, In k D ->
              k = KRoot \/ (vertex g k /\ exists D0, incl D0 D /\ derivable_step g [] D0 k = true)).
  change (I (derive (S (List.length (g_vertex_keys g))) g [] [KRoot])).
  apply derive_inv.
  - intros D ID k Ik. apply in_app_or in Ik. destruct Ik as [Ik|Ik].
    + destruct (ID k Ik) as [Q|(Vk & D0 & Inc & Q)]; [left; exact Q|].
      right. split; [exact Vk|]. exists D0. split; [|exact Q].
      intros x Ix. apply in_or_app. left. apply Inc. exact Ix.
    + apply dfresh_in in Ik. destruct Ik as (Vk & _ & Q).
      right. split; [exact Vk|]. exists D. split; [|exact Q].
      intros x Ix. apply in_or_app. left. exact Ix.
  - intros k [<-|[]]. left; reflexivity.
Qed.
Print Assumptions derive_sound_proof.

(* ================================================================== *)
(* derive_keep                                                         *)
(* ================================================================== *)
Section DeriveKeep.
  Variable g : rgraph.
  Variable stop : vkey.
  Hypothesis W : wf_graph g.
  Hypothesis Root : vertex g KRoot.
  Hypothesis FO : funcs_have_out g.

  (* first clause: holds for every [stop] *)
  Lemma derive_keep_1 (k : vkey) :
    In k (derivable_set g []) -> ~ GraphSpec.reach g k stop -> In k (keep_set g stop).
  Proof.
    revert k. unfold derivable_set.
    set (I := fun D : list vkey => forall m, In m D -> ~ GraphSpec.reach g m stop ->
                                             In m (keep_set g stop)).
    change (I (derive (S (List.length (g_vertex_keys g))) g [] [KRoot])).
    apply derive_inv.
    - intros D ID m Im NR. apply in_app_or in Im. destruct Im as [Im|Im]; [apply ID; assumption|].
      apply dfresh_in in Im. destruct Im as (Vm & _ & Q).
      destruct (@step_has_out g D m FO Vm Q) as [->|(r & w & Ed & Ir)]; [apply keep_root|].
      assert (Vr : vertex g r) by apply (edge_vertices W Ed).
      assert (NRr : ~ GraphSpec.reach g r stop).
      { intros (p & wt & Wk). apply NR. exists (m :: p), (w + wt). econstructor; eauto. }
      assert (Nr : r <> stop).
      { intros ->. apply NRr. exists [stop], 0. constructor. exact Vr. }
      apply (@keep_closed g stop W Root m r w (ID r Ir NRr) Nr Ed).
    - intros m [<-|[]] _. apply keep_root.
  Qed.

  (* second clause: needs [stop] to be a function vertex *)
  Lemma derive_keep_2 (ft : Z) :
    stop = KFunc ft ->
    (forall r w, edge g stop r w -> In r (derivable_set g [])) ->
    forall r w, edge g stop r w -> In r (keep_set g stop).
  Proof.
    intros Es.
    set (I := fun D : list vkey =>
                (~ In stop D -> forall d, In d D -> In d (keep_set g stop)) /\
                (In stop D -> forall r w, edge g stop r w -> In r (keep_set g stop))).
    assert (Fin : I (derivable_set g [])).
    { unfold derivable_set. apply derive_inv.
      - intros D [I1 I2].
        assert (New : ~ In stop D -> forall d, In d (dfresh g [] D) -> In d (keep_set g stop)).
        { intros Ns d Id. apply dfresh_in in Id. destruct Id as (Vd & _ & Q).
          destruct (@step_has_out g D d FO Vd Q) as [->|(r & w & Ed & Ir)]; [apply keep_root|].
          assert (Nr : r <> stop) by (intros ->; contradiction).
          apply (@keep_closed g stop W Root d r w (I1 Ns r Ir) Nr Ed). }
        split.
        + intros Ns d Id.
          assert (Ns' : ~ In stop D) by (intros Q; apply Ns; apply in_or_app; left; exact Q).
          apply in_app_or in Id. destruct Id as [Id|Id]; [apply I1; assumption|].
          apply New; assumption.
        + intros Is r w Ed. destruct (In_dec_K stop D) as [Q|Ns]; [apply (I2 Q r w Ed)|].
          apply in_app_or in Is. destruct Is as [Is|Is]; [contradiction|].
          apply dfresh_in in Is. destruct Is as (_ & _ & Q).
          rewrite Es in Q, Ed. pose proof (@step_func_all g D ft Q r w Ed) as Ir.
          apply (I1 Ns r Ir).
      - split.
        + intros _ d [<-|[]]. apply keep_root.
        + intros [Q|[]]. rewrite Es in Q. discriminate Q. }
    destruct Fin as [F1 F2]. intros All r w Ed.
    destruct (In_dec_K stop (derivable_set g [])) as [Q|Ns].
    - apply (F2 Q r w Ed).
    - apply (F1 Ns). apply (All r w Ed).
  Qed.
End DeriveKeep.

(* the first clause of derive_keep_spec, for every [stop] *)
Theorem derive_keep_claim1_proof :
  forall (g : rgraph) (stop : vkey), wf_graph g -> vertex g KRoot -> funcs_have_out g ->
    forall k, In k (derivable_set g []) -> ~ GraphSpec.reach g k stop -> In k (keep_set g stop).
Proof. intros g stop W Root FO k. apply derive_keep_1; assumption. Qed.
Print Assumptions derive_keep_claim1_proof.

(* derive_keep_spec with the extra hypothesis that [stop] is a function vertex key *)
Definition derive_keep_alt_spec : Prop :=
  forall (g : rgraph) (stop : vkey), wf_graph g -> vertex g KRoot -> funcs_have_out g ->
    (exists ft, stop = KFunc ft) ->
    (forall k, In k (derivable_set g []) -> ~ GraphSpec.reach g k stop -> In k (keep_set g stop)) /\
    ((forall r w, edge g stop r w -> In r (derivable_set g [])) ->
     forall r w, edge g stop r w -> In r (keep_set g stop)).

Theorem derive_keep_alt_proof : derive_keep_alt_spec.
Proof.
  intros g stop W Root FO [ft Es]. split.
  - intros k. apply derive_keep_1; assumption.
  - apply (@derive_keep_2 g stop W Root FO ft Es).
Qed.
Print Assumptions derive_keep_alt_proof.

(* ---------- the contract as stated is false: a concrete counterexample ----------
   vertices: root, v (a named value), r1, r2 (typed arguments)
   edges:    v -> r1, v -> r2, r1 -> root, r2 -> v          stop = v
   everything is derivable (r1 from the root, v from r1, r2 from v), but the
   backwards closure does not expand v, so r2 is not kept. *)
Section Cex.
  Let wf_add_v (g : rgraph) k : wf_graph g -> wf_graph (g_add g k PNone).
  Proof. intros W. pose proof (gspec_add k PNone (cc_wf_gspec W)) as (_ & _ & _ & W'). exact W'. Qed.

  Definition add_edge_d (g : rgraph) (a b : vkey) (w : Z) : rgraph :=
    match g_add_edge g a b w with Some g' => g' | None => g end.

  Let wf_add_e (g : rgraph) a b w : wf_graph g -> wf_graph (add_edge_d g a b w).
  Proof.
    intros W. unfold add_edge_d.
    destruct (gspec_add_edge a b w (cc_wf_gspec W)) as (g' & Q & (_ & _ & _ & W')).
    rewrite Q. exact W'.
  Qed.

  Definition cex_v : vkey := KVal "v"%string 0 EmptyString.
  Definition cex_r1 : vkey := KArg 1 EmptyString.
  Definition cex_r2 : vkey := KArg 2 EmptyString.
  Definition cex_g : rgraph :=
    add_edge_d (add_edge_d (add_edge_d (add_edge_d
      (g_add (g_add (g_add (g_add g_empty KRoot PNone) cex_v PNone) cex_r1 PNone) cex_r2 PNone)
      cex_v cex_r1 1) cex_v cex_r2 1) cex_r1 KRoot 1) cex_r2 cex_v 1.

  Lemma cex_wf : wf_graph cex_g.
  Proof. unfold cex_g. repeat (first [apply wf_add_e | apply wf_add_v]). apply wf_empty. Qed.

  Lemma derive_keep_spec_false : ~ derive_keep_spec.
  Proof.
    intros S. destruct (S cex_g cex_v cex_wf) as [_ C2].
    - vm_compute. left; reflexivity.
    - intros ft Vf. exfalso. vm_compute in Vf.
      repeat (destruct Vf as [Vf|Vf]; [discriminate Vf|]). exact Vf.
    - assert (Ed : edge cex_g cex_v cex_r2 1) by (vm_compute; reflexivity).
      assert (In cex_r2 (keep_set cex_g cex_v)) as Bad.
      { apply (C2) with (w := 1); [|exact Ed].
        intros r w Er.
        assert (Q : r = cex_r1 \/ r = cex_r2).
        { unfold edge in Er.
          assert (Inn : inner (gout cex_g) cex_v = [(cex_r1, 1); (cex_r2, 1)]) by (vm_compute; reflexivity).
          rewrite Inn in Er. cbn [lookup] in Er.
          destruct (Base.eqb_spec r cex_r1) as [->|N1]; [left; reflexivity|].
          destruct (Base.eqb_spec r cex_r2) as [->|N2]; [right; reflexivity|]. discriminate Er. }
        destruct Q as [-> | ->]; vm_compute; tauto. }
      vm_compute in Bad.
      repeat (destruct Bad as [Bad|Bad]; [discriminate Bad|]). exact Bad.
  Qed.
End Cex.
Print Assumptions derive_keep_spec_false.

(* ================================================================== *)
(* the cycle test                                                      *)
(* ================================================================== *)
Lemma fwd_closure_gbfs (g : rgraph) : forall fuel frontier seen,
  fwd_closure fuel g frontier seen = gbfs (g_out_keys g) fuel frontier seen.
Proof.
  induction fuel as [|f IH]; intros frontier seen; [reflexivity|].
  rewrite gbfs_S. cbn [fwd_closure]. unfold gfresh.
  change (fun a : vkey => g_out_keys g a) with (g_out_keys g).
  destruct (filter (fun x : vkey => negb (memb x seen)) (dedup (flat_map (g_out_keys g) frontier)))
    as [|y fr]; [reflexivity|].
  apply IH.
Qed.

Theorem cyclic_proof : cyclic_spec.
Proof.
  intros g k W Vk F (c & w & p & w2 & Ed & Wk).
  unfold func_on_cycle in F. rewrite fwd_closure_gbfs in F.
  set (R := gbfs (g_out_keys g) (S (List.length (g_vertex_keys g))) [k] []) in *.
  assert (Cl : forall a x, In a R \/ In a [k] -> In x (g_out_keys g a) -> In x R).
  { apply gbfs_closed with (univ := g_vertex_keys g).
    - intros a x Ix. apply cc_in_out_keys in Ix. destruct Ix as [w' Ed'].
      apply cc_in_vertex_keys. apply (edge_vertices W Ed').
    - constructor.
    - intros x [].
    - intros a x [].
    - simpl. lia. }
  assert (Ic : In c R).
  { apply (Cl k c); [right; left; reflexivity|]. apply cc_in_out_keys. exists w. exact Ed. }
  assert (Ik : In k R).
  { assert (Wc : forall a b q wt, walk g a b q wt -> In a R -> In b R).
    { intros a b q wt Wab. induction Wab as [a Va|a b c' p' w1 w2' Ed' Wk' IH]; intros Ia; [exact Ia|].
      apply IH. apply (Cl a b); [left; exact Ia|]. apply cc_in_out_keys. exists w1. exact Ed'. }
    apply (Wc c k p w2 Wk Ic). }
  apply memb_In in Ik. rewrite Ik in F. discriminate F.
Qed.
Print Assumptions cyclic_proof.

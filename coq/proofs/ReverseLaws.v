(* ReverseLaws.v -- the reversed view of a graph (Graph.Reverse, which swaps
   the adjacency maps and shares the vertex table) as a transposition: it is
   an involution, keeps the representation invariant, turns every edge and
   every walk around with its weight, and therefore turns reachability and
   shortest distances around.  For every well-formed graph of any size.
   Proof file: no definitions the model depends on. *)
From ArgMapper Require Import Base Graph GraphAlg GraphSpec.
From Coq Require Import List ZArith Lia.
Import ListNotations.
Local Open Scope Z_scope.

Section ReverseLaws.
  Context {K : Type} `{EqDec K} {V : Type}.
  Notation graph := (graph K V).

  Lemma reverse_involutive (g : graph) : g_reverse (g_reverse g) = g.
  Proof. destruct g; reflexivity. Qed.

  Lemma reverse_vertices (g : graph) k : vertex (g_reverse g) k <-> vertex g k.
  Proof. unfold vertex, g_reverse; cbn [ghash]. tauto. Qed.

  Lemma reverse_wf (g : graph) : wf_graph g -> wf_graph (g_reverse g).
  Proof.
    intros W. destruct W as [W1 W2 W3 W4 W5 W6 W7 W8 W9].
    constructor; unfold g_reverse; cbn [gout gin ghash]; try assumption.
    - intros a b w. symmetry. apply W8.
    - intros a b w Q. apply W8 in Q. apply W9 in Q. tauto.
  Qed.

  Lemma reverse_edge (g : graph) a b w :
    wf_graph g -> (edge (g_reverse g) a b w <-> edge g b a w).
  Proof.
    intros W. unfold edge, g_reverse; cbn [gout]. symmetry. apply (wf_mirror W).
  Qed.

  (* appending an edge at the end of a walk *)
  Lemma walk_snoc (g : graph) a b c p w1 w2 :
    walk g a b p w1 -> edge g b c w2 -> vertex g c -> walk g a c (p ++ [c]) (w1 + w2).
  Proof.
    intros Wk. revert c w2. induction Wk as [a Va | a b c0 p w1 w3 E Wk IH]; intros c w2 E2 Vc.
    - cbn [app]. replace (0 + w2) with (w2 + 0) by lia.
      eapply walk_cons; [exact E2 | apply walk_nil; exact Vc].
    - cbn [app]. replace (w1 + w3 + w2) with (w1 + (w3 + w2)) by lia.
      eapply walk_cons; [exact E | apply IH; assumption].
  Qed.

  Lemma walk_start_vertex (g : graph) a b p w :
    wf_graph g -> walk g a b p w -> vertex g a.
  Proof.
    intros W Wk. destruct Wk as [a Va | a b c p w1 w2 E _]; [exact Va|].
    exact (proj1 (wf_closed W _ _ E)).
  Qed.

  Lemma reverse_walk (g : graph) a b p w :
    wf_graph g -> walk g a b p w -> walk (g_reverse g) b a (rev p) w.
  Proof.
    intros W Wk. induction Wk as [a Va | a b c p w1 w2 E Wk IH].
    - cbn [rev app]. apply walk_nil. apply reverse_vertices. exact Va.
    - cbn [rev]. replace (w1 + w2) with (w2 + w1) by lia.
      eapply walk_snoc; [exact IH | apply reverse_edge; [exact W | exact E] |].
      apply reverse_vertices. exact (proj1 (wf_closed W _ _ E)).
  Qed.

  Lemma reverse_walk_iff (g : graph) a b w :
    wf_graph g ->
    ((exists p, walk g a b p w) <-> (exists p, walk (g_reverse g) b a p w)).
  Proof.
    intros W. split; intros [p Wk].
    - exists (rev p). apply reverse_walk; assumption.
    - exists (rev p). rewrite <- (reverse_involutive g).
      apply reverse_walk; [apply reverse_wf; exact W | exact Wk].
  Qed.

  Theorem reverse_reach (g : graph) a b :
    wf_graph g -> (reach g a b <-> reach (g_reverse g) b a).
  Proof.
    intros W. unfold reach. split; intros [p [w Wk]].
    - exists (rev p), w. apply reverse_walk; assumption.
    - exists (rev p), w. rewrite <- (reverse_involutive g).
      apply reverse_walk; [apply reverse_wf; exact W | exact Wk].
  Qed.

  (* shortest distances are the same in both directions of view *)
  Theorem reverse_min_dist (g : graph) a b d :
    wf_graph g -> (min_dist g a b d <-> min_dist (g_reverse g) b a d).
  Proof.
    intros W. unfold min_dist. split; intros [Ex Mn]; split.
    - apply (reverse_walk_iff g a b d W). exact Ex.
    - intros p w Wk. destruct (proj2 (reverse_walk_iff g a b w W) (ex_intro _ p Wk)) as [q Wq].
      exact (Mn q w Wq).
    - apply (reverse_walk_iff g a b d W). exact Ex.
    - intros p w Wk. destruct (proj1 (reverse_walk_iff g a b w W) (ex_intro _ p Wk)) as [q Wq].
      exact (Mn q w Wq).
  Qed.

  Theorem reverse_nonneg (g : graph) : wf_graph g -> (nonneg g <-> nonneg (g_reverse g)).
  Proof.
    intros W. unfold nonneg. split; intros N a b w E.
    - apply (N b a w). apply reverse_edge; assumption.
    - apply (N b a w). apply reverse_edge; assumption.
  Qed.

  (* a walk followed by one more edge is a nonempty walk *)
  Lemma walk_then_edge_reach1 (g : graph) x y z p w w' :
    walk g x y p w -> edge g y z w' -> vertex g z -> reach1 g x z.
  Proof.
    intros Wk. revert z w'. induction Wk as [a Va | a b c p w1 w2 E Wk IH]; intros z w' E2 Vz.
    - exists z, w', [z], 0. split; [exact E2 | apply walk_nil; exact Vz].
    - destruct (IH z w' E2 Vz) as [c' [w3 [q [w4 [E3 Wq]]]]].
      exists b, w1, (b :: q), (w3 + w4). split; [exact E|].
      eapply walk_cons; [exact E3 | exact Wq].
  Qed.

  Lemma reverse_reach1 (g : graph) a b :
    wf_graph g -> reach1 g a b -> reach1 (g_reverse g) b a.
  Proof.
    intros W [c [w [p [w2 [E Wk]]]]].
    eapply walk_then_edge_reach1.
    - apply reverse_walk; [exact W | exact Wk].
    - apply reverse_edge; [exact W | exact E].
    - apply reverse_vertices. exact (proj1 (wf_closed W _ _ E)).
  Qed.

  (* the view of an acyclic graph is acyclic, and conversely *)
  Theorem reverse_acyclic (g : graph) : wf_graph g -> (acyclic g <-> acyclic (g_reverse g)).
  Proof.
    intros W. unfold acyclic. split; intros A a R.
    - apply (A a). rewrite <- (reverse_involutive g).
      apply reverse_reach1; [apply reverse_wf; exact W | exact R].
    - apply (A a). apply reverse_reach1; assumption.
  Qed.
End ReverseLaws.

Print Assumptions reverse_reach.
Print Assumptions reverse_min_dist.
Print Assumptions reverse_acyclic.

(* C06TotalBase.v -- infrastructure for the C06 totality proof:
   - outcome predicates on the result monad,
   - the graph mutators in terms of the vertex / edge lookup functions,
   - tape lemmas,
   - the body of [reach] restated with named sub-functions (equal to the
     model's nested fixpoints by conversion). *)
From ArgMapper Require Import Base Graph GraphAlg GraphSpec GraphStatements Types Args GenWeights Resolver.
From ArgMapper.proofs Require Import C18DijkstraLemmas C18Dijkstra C19RefineMap C19RefineGraph C06TotalDijkstra.
From Coq Require Import Lia ZArith List.
Import ListNotations.
Set Implicit Arguments.
Local Open Scope Z_scope.
Local Open Scope list_scope.

(* ---------- outcomes ---------- *)
(* the computation neither panics nor runs out of fuel, and an [Ok] result satisfies P *)
Definition resP {A} (P : A -> Prop) (r : res A) : Prop :=
  match r with Ok a => P a | TapeErr _ => True | _ => False end.

Lemma resP_bind {A B} (P : A -> Prop) (Q : B -> Prop) (r : res A) (f : A -> res B) :
  resP P r -> (forall a, P a -> resP Q (f a)) -> resP Q (bind r f).
Proof. destruct r; simpl; auto; tauto. Qed.

Lemma resP_imp {A} (P Q : A -> Prop) (r : res A) :
  resP P r -> (forall a, P a -> Q a) -> resP Q r.
Proof. destruct r; simpl; auto. Qed.

Lemma resP_total {A} (P : A -> Prop) (r : res A) :
  resP P r -> (exists a, r = Ok a) \/ (exists s, r = TapeErr s).
Proof. destruct r; simpl; intros H; try contradiction; eauto. Qed.

(* ---------- generic list / map facts ---------- *)
Section Generic.
  Context {K : Type} {E : EqDec K}.

  Lemma remove1_head (x : K) l : remove1 x (x :: l) = l.
  Proof. simpl. rewrite Base.eqb_refl. reflexivity. Qed.

  Lemma In_remove1 (x y : K) l : In x (remove1 y l) -> In x l.
  Proof.
    induction l as [|z l IH]; simpl; [tauto|].
    destruct (Base.eqb y z); simpl; [tauto|]. intros [A|A]; auto.
  Qed.

  Lemma In_remove1_or (x y : K) l : In x l -> x = y \/ In x (remove1 y l).
  Proof.
    induction l as [|z l IH]; simpl; [tauto|].
    destruct (Base.eqb_spec y z) as [->|Ne]; intros [A|A]; subst; auto.
    - right; left; reflexivity.
    - destruct (IH A); auto. right; right; auto.
  Qed.

  Lemma permb_In (l1 l2 : list K) : permb l1 l2 = true -> forall x, In x l1 <-> In x l2.
  Proof.
    revert l2; induction l1 as [|y l1 IH]; intros l2; simpl.
    - destruct l2; [tauto|discriminate].
    - intros Hp. apply andb_true_iff in Hp. destruct Hp as [Hm Hp].
      apply memb_In in Hm. specialize (IH _ Hp). intros x. split.
      + intros [<-|A]; auto. apply IH in A. eapply In_remove1; eauto.
      + intros A. destruct (In_remove1_or x y _ A) as [->|B]; auto. right. apply IH; auto.
  Qed.

  Lemma take_perm_cases (site : N) (expected : list K) (t : tape K) :
    (exists ks t', take_perm site expected t = Ok (ks, t') /\ forall x, In x ks <-> In x expected) \/
    take_perm site expected t = TapeErr site.
  Proof.
    unfold take_perm. destruct (take_site site t) as [[ks t']|].
    - destruct expected as [|e expected]; [left; exists [], t; split; [reflexivity|tauto]|].
      destruct (permb ks (e :: expected)) eqn:P; [|right; reflexivity].
      left. exists ks, t'. split; [reflexivity|]. apply permb_In; auto.
    - destruct expected; [left; exists [], t; split; [reflexivity|tauto]|right; reflexivity].
  Qed.

  Lemma filter_length_lt {T} (p q : T -> bool) (l : list T) v :
    (forall x, p x = true -> q x = true) -> In v l -> q v = true -> p v = false ->
    (length (filter p l) < length (filter q l))%nat.
  Proof.
    intros Imp. induction l as [|y l IH]; simpl; [tauto|]. intros [->|A] Qv Pv.
    - rewrite Qv, Pv. simpl.
      assert (length (filter p l) <= length (filter q l))%nat; [|lia].
      clear IH. induction l as [|z l IH]; simpl; [lia|].
      destruct (p z) eqn:Pz; [rewrite (Imp _ Pz); simpl; lia|].
      destruct (q z); simpl; lia.
    - specialize (IH A Qv Pv). destruct (p y) eqn:Py; [rewrite (Imp _ Py); simpl; lia|].
      destruct (q y); simpl; lia.
  Qed.

  Lemma chain_vertices (P : K -> Prop) (p : amap K K) :
    (forall v u, lookup v p = Some u -> P u) ->
    forall v l, chain p v l -> P v -> forall x, In x l -> P x.
  Proof.
    intros Hp v l C. induction C as [v Q|v u l Q C IH]; intros Pv x A.
    - destruct A as [<-|[]]; auto.
    - apply in_app_or in A. destruct A as [A|[<-|[]]]; auto.
      apply IH; auto. eapply Hp; eauto.
  Qed.

  Lemma chain_last (p : amap K K) v l : chain p v l -> forall d, last l d = v.
  Proof.
    intros C. destruct C as [v Q|v u l Q C]; intros d; [reflexivity|].
    apply last_last.
  Qed.

  Lemma chain_nonempty (p : amap K K) v l : chain p v l -> l <> [].
  Proof. intros C. destruct C; [discriminate|]. destruct l; discriminate. Qed.
End Generic.

(* ---------- the graph mutators on lookup functions ---------- *)
Section Ops.
  Context {K : Type} {E : EqDec K} {V : Type}.
  Notation graph := (graph K V).

  Definition Eg (g : graph) (a b : K) : option Z := lookup b (inner (gout g) a).
  Definition Vx (g : graph) (k : K) : option V := lookup k (ghash g).

  Lemma gspec_self (g : graph) : wf_graph g -> gspec g (Vx g) (Eg g).
  Proof.
    intros WF. split; [reflexivity|]. split; [reflexivity|]. split; [|exact WF].
    intros a b. unfold Eg.
    destruct (lookup b (inner (gout g) a)) as [w|] eqn:Q.
    - apply (wf_mirror WF). exact Q.
    - destruct (lookup a (inner (gin g) b)) as [w|] eqn:Q'; [|reflexivity].
      apply (wf_mirror WF) in Q'. congruence.
  Qed.

  Lemma gspec_wf (g : graph) fv fe : gspec g fv fe -> wf_graph g.
  Proof. intros (_ & _ & _ & W). exact W. Qed.

  Lemma vertex_Vx (g : graph) k : vertex g k <-> Vx g k <> None.
  Proof.
    unfold vertex, Vx. rewrite in_keys_lookup. destruct (lookup k (ghash g)); split.
    - discriminate.
    - eauto.
    - intros (v & Q); discriminate.
    - intros A; exfalso; apply A; reflexivity.
  Qed.

  Lemma Eg_vertices (g : graph) a b w : wf_graph g -> Eg g a b = Some w -> vertex g a /\ vertex g b.
  Proof. intros WF Q. apply (wf_closed WF _ _ Q). Qed.

  Lemma Eg_in (g : graph) a b : wf_graph g -> Eg g a b = lookup a (inner (gin g) b).
  Proof. intros WF. destruct (gspec_self WF) as (_ & _ & Hi & _). symmetry. apply Hi. Qed.

  Lemma out_keys_Eg (g : graph) a b : In b (g_out_keys g a) <-> exists w, Eg g a b = Some w.
  Proof. unfold g_out_keys, Eg. apply in_keys_lookup. Qed.

  Lemma in_keys_Eg (g : graph) a b : wf_graph g -> (In a (g_in_keys g b) <-> exists w, Eg g a b = Some w).
  Proof. intros WF. rewrite (Eg_in _ _ WF). unfold g_in_keys. apply in_keys_lookup. Qed.

  Lemma add_edge_ghash (g g' : graph) a b w : g_add_edge g a b w = Some g' -> ghash g' = ghash g.
  Proof.
    unfold g_add_edge. destruct (mem a (ghash g) && mem b (ghash g)).
    - destruct (lookup a (gout g)); [|discriminate]. destruct (lookup b (gin g)); [|discriminate].
      intros Q; inversion Q; reflexivity.
    - intros Q; inversion Q; reflexivity.
  Qed.

  Lemma add_edge_spec (g : graph) a b w :
    wf_graph g ->
    exists g', g_add_edge g a b w = Some g' /\ wf_graph g' /\ ghash g' = ghash g /\
      forall x y, Eg g' x y = match Vx g a, Vx g b with
                              | Some _, Some _ => if Base.eqb x a && Base.eqb y b then Some w else Eg g x y
                              | _, _ => Eg g x y
                              end.
  Proof.
    intros WF. destruct (gspec_add_edge a b w (gspec_self WF)) as (g' & Q & G').
    exists g'. split; [exact Q|]. split; [apply (gspec_wf G')|]. split; [eapply add_edge_ghash; eauto|].
    intros x y. destruct G' as (_ & Ho & _). unfold Eg at 1. rewrite Ho.
    destruct (Vx g a), (Vx g b); reflexivity.
  Qed.

  Lemma g_add_spec (g : graph) k v :
    wf_graph g ->
    wf_graph (g_add g k v) /\
    (forall x, Vx (g_add g k v) x = match Vx g k with
                                    | Some _ => Vx g x
                                    | None => if Base.eqb x k then Some v else Vx g x
                                    end) /\
    (forall x y, Eg (g_add g k v) x y = Eg g x y).
  Proof.
    intros WF. pose proof (gspec_add k v (gspec_self WF)) as G'.
    split; [apply (gspec_wf G')|]. destruct G' as (Hv & Ho & _). split.
    - intros x. unfold Vx at 1. rewrite Hv. destruct (Vx g k); reflexivity.
    - intros x y. unfold Eg at 1. rewrite Ho. reflexivity.
  Qed.

  Lemma g_overwrite_spec (g : graph) k v :
    wf_graph g ->
    wf_graph (g_add_overwrite g k v) /\
    (forall x, Vx (g_add_overwrite g k v) x = if Base.eqb x k then Some v else Vx g x) /\
    (forall x y, Eg (g_add_overwrite g k v) x y = Eg g x y).
  Proof.
    intros WF. pose proof (gspec_overwrite k v (gspec_self WF)) as G'.
    split; [apply (gspec_wf G')|]. destruct G' as (Hv & Ho & _). split.
    - intros x. unfold Vx at 1. rewrite Hv. reflexivity.
    - intros x y. unfold Eg at 1. rewrite Ho. reflexivity.
  Qed.

  Lemma g_remove_spec (g : graph) k :
    wf_graph g ->
    wf_graph (g_remove g k) /\
    (forall x, Vx (g_remove g k) x = if Base.eqb x k then None else Vx g x) /\
    (forall x y, Eg (g_remove g k) x y = if Base.eqb x k || Base.eqb y k then None else Eg g x y).
  Proof.
    intros WF. pose proof (gspec_remove k (gspec_self WF)) as G'.
    split; [apply (gspec_wf G')|]. destruct G' as (Hv & Ho & _). split.
    - intros x. unfold Vx at 1. rewrite Hv. reflexivity.
    - intros x y. unfold Eg at 1. rewrite Ho. reflexivity.
  Qed.

  Lemma g_reverse_spec (g : graph) :
    wf_graph g ->
    wf_graph (g_reverse g) /\ ghash (g_reverse g) = ghash g /\
    (forall x y, Eg (g_reverse g) x y = Eg g y x).
  Proof.
    intros WF. pose proof (gspec_reverse (gspec_self WF)) as G'.
    split; [apply (gspec_wf G')|]. split; [reflexivity|].
    destruct G' as (_ & Ho & _). intros x y. unfold Eg at 1. rewrite Ho. reflexivity.
  Qed.
End Ops.

(* ---------- resolver graphs ---------- *)
Lemma add_e_spec (g : rgraph) a b w :
  wf_graph g ->
  wf_graph (add_e g a b w) /\ ghash (add_e g a b w) = ghash g /\
  forall x y, Eg (add_e g a b w) x y = match Vx g a, Vx g b with
                                       | Some _, Some _ => if Base.eqb x a && Base.eqb y b then Some w else Eg g x y
                                       | _, _ => Eg g x y
                                       end.
Proof.
  intros WF. destruct (add_edge_spec a b w WF) as (g' & Q & W' & H' & E').
  unfold add_e. rewrite Q. auto.
Qed.

Lemma add_v_spec (g : rgraph) k :
  wf_graph g ->
  wf_graph (add_v g k) /\
  (forall x, Vx (add_v g k) x = match Vx g k with
                                | Some _ => Vx g x
                                | None => if Base.eqb x k then Some PNone else Vx g x
                                end) /\
  (forall x y, Eg (add_v g k) x y = Eg g x y).
Proof. apply g_add_spec. Qed.

(* ---------- the body of reach ---------- *)
Section Body.
  Variable u : universe.
  Variable behave : behaviour.
  Variable g : rgraph.
  Variable redefine : bool.
  Variable rec : vkey -> rstate -> res (rstate * (argmap + rerr)).

  Definition classify_step (s : rstate) (acc : argmap * list vkey) (o : vkey) : argmap * list vkey :=
    let '(am, todo) := acc in
    match o with
    | KRoot => (am, todo)
    | KArg _ _ => match lookup o (s_vals s) with
                  | Some v => (insert o v am, todo)
                  | None => (am, todo ++ [o])
                  end
    | KVal _ _ _ => match (if redefine then None else lookup o (s_vals s)) with
                    | Some v => (insert o v am, todo)
                    | None => (am, todo ++ [o])
                    end
    | _ => (am, todo ++ [o])
    end.
  Definition classify (s : rstate) (outs : list vkey) : argmap * list vkey :=
    fold_left (classify_step s) outs (([] : argmap), ([] : list vkey)).

  Definition plan_step (acc : res (list (list vkey) * list vkey * rstate)) (cur : vkey) :=
    do (paths, unsat, s) <- acc;
    do (path, bad, s) <- plan g redefine cur s;
    Ok (paths ++ [path], (if (bad : bool) then unsat ++ [cur] else unsat), s).
  Definition plan_all (todo : list vkey) (s : rstate) := fold_left plan_step todo (Ok ([], [], s)).

  (* what happens at a function vertex of a path, up to the continuation *)
  Definition walk_func (v : vkey) (s : rstate) : res (rstate * option rerr) :=
    match g_vertex g v with
    | Some (PFunc f) =>
        do (s, r) <- rec v s;
        match r with
        | inr e => Ok (s, Some e)
        | inl fam =>
            do (res, s) <- call_direct u behave redefine f fam s;
            if r_builderr res then Ok (s, Some XMissing)
            else match r_err res with
                 | Some e => Ok (s, Some (XConv e))
                 | None =>
                     do (ins, t') <- take_perm SITE_REACH_IN (g_in_keys g v) (s_tape s);
                     do s <- output_values f res ins (set_tape s t');
                     Ok (s, None)
                 end
        end
    | _ => Panic 403%N
    end.

  Fixpoint walk (prev : option vkey) (vs : list vkey) (final : option value) (s : rstate)
    : res (rstate * (option value + rerr)) :=
    match vs with
    | [] => Ok (s, inl final)
    | v :: vs =>
      match v with
      | KRoot => walk (Some v) vs final s
      | KVal _ _ _ =>
          let s := match prev with
                   | Some (KOut t st) => set_val s v (lookup (KOut t st) (s_vals s))
                   | Some (KVal n2 t2 s2) =>
                       match lookup (KVal n2 t2 s2) (s_vals s) with
                       | Some x => set_val s v (Some x)
                       | None => s
                       end
                   | _ => s end in
          let cur := lookup v (s_vals s) in
          let s := set_last s cur in
          walk (Some v) vs (match cur with Some x => Some x | None => final end) s
      | KArg t _ =>
          let s := match s_last s with
                   | Some x => if assignable u (v_ty x) t then set_val s v (Some x) else s
                   | None => s end in
          walk (Some v) vs (lookup v (s_vals s)) s
      | KOut _ _ =>
          let s := match prev with
                   | Some (KOut t st) => set_val s v (lookup (KOut t st) (s_vals s))
                   | _ => s end in
          let s := set_last s (lookup v (s_vals s)) in
          walk (Some v) vs final s
      | KFunc _ =>
          match g_vertex g v with
          | Some (PFunc f) =>
              do (s, r) <- rec v s;
              match r with
              | inr e => Ok (s, inr e)
              | inl fam =>
                  do (res, s) <- call_direct u behave redefine f fam s;
                  if r_builderr res then Ok (s, inr XMissing)
                  else match r_err res with
                       | Some e => Ok (s, inr (XConv e))
                       | None =>
                           do (ins, t') <- take_perm SITE_REACH_IN (g_in_keys g v) (s_tape s);
                           do s <- output_values f res ins (set_tape s t');
                           walk (Some v) vs final s
                       end
              end
          | _ => Panic 403%N
          end
      end
    end.

  Lemma walk_func_eq prev ft vs final s :
    walk prev (KFunc ft :: vs) final s =
    do (s', r) <- walk_func (KFunc ft) s;
    match r with
    | Some e => Ok (s', inr e)
    | None => walk (Some (KFunc ft)) vs final s'
    end.
  Proof.
    cbn [walk]. unfold walk_func.
    destruct (g_vertex g (KFunc ft)) as [[|f]|]; try reflexivity.
    destruct (rec (KFunc ft) s) as [[s1 [fam|e]]| | |]; cbn [bind]; try reflexivity.
    destruct (call_direct u behave redefine f fam s1) as [[res s2]| | |]; cbn [bind]; try reflexivity.
    destruct (r_builderr res); [reflexivity|].
    destruct (r_err res); [reflexivity|].
    destruct (take_perm SITE_REACH_IN (g_in_keys g (KFunc ft)) (s_tape s2)) as [[ins t']| | |]; cbn [bind]; try reflexivity.
    destruct (output_values f res ins (set_tape s2 t')); reflexivity.
  Qed.

  Section Target.
    Variable target : vkey.
    Definition leave (s : rstate) := set_inprog s (remove1 target (s_inprog s)).

    Fixpoint walk_paths (paths : list (list vkey)) (am : argmap) (s : rstate)
      : res (rstate * (argmap + rerr)) :=
      match paths with
      | [] => Ok (leave s, inl am)
      | path :: rest =>
          do (s, r) <- walk None path None s;
          match r with
          | inr e => Ok (leave s, inr e)
          | inl None => Panic 404%N
          | inl (Some fv) => walk_paths rest (insert (last path KRoot) fv am) s
          end
      end.

    Definition reach_body (s : rstate) : res (rstate * (argmap + rerr)) :=
      let s := set_inprog s (target :: s_inprog s) in
      do (outs, t') <- take_perm SITE_REACH_OUT (g_out_keys g target) (s_tape s);
      let s := set_tape s t' in
      let '(am, todo) := classify s outs in
      match todo with
      | [] => Ok (leave s, inl am)
      | _ =>
        do (paths, unsat, s) <- plan_all todo s;
        match unsat with
        | _ :: _ => Ok (leave s, inr (XUnsat unsat [] [] false))
        | [] => walk_paths paths am s
        end
      end.
  End Target.
End Body.

Lemma reach_S u bh g rd fuel target s :
  reach u bh g rd (S fuel) target s = reach_body u bh g rd (reach u bh g rd fuel) target s.
Proof. reflexivity. Qed.

Lemma reach_O u bh g rd target s : reach u bh g rd O target s = OutOfFuel.
Proof. reflexivity. Qed.

(* ---------- discount: same vertices, same edges, some weights replaced ---------- *)
Section Discount.
  Variable g : rgraph.
  Hypothesis WF : wf_graph g.

  Definition same_shape (g' : rgraph) : Prop :=
    wf_graph g' /\ ghash g' = ghash g /\
    (forall a b, Eg g' a b = None <-> Eg g a b = None) /\
    (forall a b w, Eg g' a b = Some w -> Eg g a b = Some w \/ w = w_matching_name).

  Lemma same_shape_refl : same_shape g.
  Proof. split; [exact WF|]. split; [reflexivity|]. split; [tauto|]. auto. Qed.

  Lemma same_shape_add_e g' a b :
    same_shape g' -> Eg g' a b <> None -> same_shape (add_e g' a b w_matching_name).
  Proof.
    intros (W' & H' & S' & Wt') Ne.
    destruct (add_e_spec a b w_matching_name W') as (W2 & H2 & E2).
    destruct (Eg g' a b) as [w0|] eqn:Q; [|contradiction].
    destruct (Eg_vertices _ _ W' Q) as [Va Vb].
    apply vertex_Vx in Va. apply vertex_Vx in Vb.
    destruct (Vx g' a) eqn:Qa; [|contradiction]. destruct (Vx g' b) eqn:Qb; [|contradiction].
    split; [exact W2|]. split; [congruence|]. split.
    - intros x y. rewrite E2. destruct (Base.eqb_spec x a) as [->|Nx]; cbn [andb]; [|apply S'].
      destruct (Base.eqb_spec y b) as [->|Ny]; cbn [andb]; [|apply S'].
      rewrite <- S'. rewrite Q. split; discriminate.
    - intros x y w. rewrite E2. destruct (Base.eqb_spec x a) as [->|Nx]; cbn [andb]; [|apply Wt'].
      destruct (Base.eqb_spec y b) as [->|Ny]; cbn [andb]; [|apply Wt'].
      intros Q'; inversion Q'; auto.
  Qed.

  Lemma same_shape_discount cur : same_shape (discount g cur).
  Proof.
    unfold discount. destruct cur as [|ft|n t s|t s|t s]; try apply same_shape_refl.
    generalize (g_vertex_keys g) as ks. intros ks.
    assert (G : forall g0, same_shape g0 ->
      same_shape (fold_left (fun g' k => match k with
          | KVal n2 _ _ => if String.eqb n2 n
                           then fold_left (fun g' src => add_e g' src k w_matching_name) (g_in_keys g' k) g'
                           else g'
          | _ => g' end) ks g0)).
    { induction ks as [|k ks IH]; intros g0 S0; simpl; [exact S0|].
      apply IH. destruct k as [|ft|n2 t2 s2|t2 s2|t2 s2]; auto.
      destruct (String.eqb n2 n); auto.
      assert (In1 : forall src, In src (g_in_keys g0 (KVal n2 t2 s2)) -> Eg g (src) (KVal n2 t2 s2) <> None).
      { intros src A. destruct S0 as (W0 & _ & Sh & _). apply (in_keys_Eg _ _ W0) in A.
        destruct A as (w & Q). rewrite <- Sh. congruence. }
      revert In1. generalize (g_in_keys g0 (KVal n2 t2 s2)) as srcs. intros srcs.
      revert g0 S0. induction srcs as [|src srcs IH2]; intros g0 S0 In1; simpl; [exact S0|].
      apply IH2.
      - apply same_shape_add_e; auto. destruct S0 as (_ & _ & Sh & _). rewrite Sh. apply In1. left; reflexivity.
      - intros src' A. apply In1. right; exact A. }
    apply G. apply same_shape_refl.
  Qed.
End Discount.

(* C03ExactArgs.v -- invariants of the option builder (build_args) used by
   C03: the four value maps have distinct keys, typed slots are keyed by the
   dynamic type of their value, subtype slots have a non-empty subtype.
   Consequences for [input_vertices]. *)
From ArgMapper Require Import Base Graph Types Args Resolver.
From ArgMapper.proofs Require Import C19RefineMap C18DijkstraLemmas.
From Coq Require Import Lia ZArith List.
Import ListNotations.
Set Implicit Arguments.
Local Open Scope Z_scope.

Section MapFacts.
  Context {K : Type} {E : EqDec K} {V : Type}.

  Lemma in_insert (k k' : K) (v v' : V) (m : amap K V) :
    In (k', v') (insert k v m) -> (k' = k /\ v' = v) \/ In (k', v') m.
  Proof.
    induction m as [|[k0 v0] m IH]; simpl.
    - intros [Q|[]]. inversion Q; auto.
    - destruct (Base.eqb_spec k k0) as [->|N]; simpl.
      + intros [Q|A]; [inversion Q; auto|auto].
      + intros [Q|A]; [auto|]. destruct (IH A); auto.
  Qed.

  Lemma lookup_fold_insert (l : list (K * V)) : forall m0 k,
    NoDup (keys l) ->
    lookup k (fold_left (fun m kv => insert (fst kv) (snd kv) m) l m0) =
    match lookup k l with Some v => Some v | None => lookup k m0 end.
  Proof.
    induction l as [|[k1 v1] l IH]; intros m0 k ND; simpl; [reflexivity|].
    inversion ND as [|? ? Hn ND']; subst.
    rewrite IH by exact ND'.
    destruct (Base.eqb_spec k k1) as [->|N].
    - assert (Q : lookup k1 l = None) by (apply not_in_keys_lookup; exact Hn).
      rewrite Q. apply lookup_insert_eq.
    - destruct (lookup k l); [reflexivity|]. apply lookup_insert_neq. exact N.
  Qed.
End MapFacts.

Lemma NoDup_map_on {A B C} (g : A -> B) (h : A -> C) (l : list A) :
  NoDup (map h l) -> (forall x y, In x l -> In y l -> g x = g y -> h x = h y) -> NoDup (map g l).
Proof.
  induction l as [|a l IH]; simpl; intros ND Inj; [constructor|].
  inversion ND as [|? ? Hn ND']; subst. constructor.
  - intros A0. apply in_map_iff in A0. destruct A0 as (y & Q & Iy).
    apply Hn. rewrite <- (Inj y a); auto. apply in_map; exact Iy.
  - apply IH; auto.
Qed.

Lemma NoDup_app_disj2 {T} (l1 l2 : list T) :
  NoDup l1 -> NoDup l2 -> (forall x, In x l1 -> ~ In x l2) -> NoDup (l1 ++ l2).
Proof.
  induction l1 as [|a l1 IH]; intros N1 N2 D; simpl; [exact N2|].
  inversion N1 as [|? ? Ha N1']; subst. constructor.
  - rewrite in_app_iff. intros [A|A]; [contradiction|]. apply (D a); [left; reflexivity|exact A].
  - apply IH; auto. intros x A. apply D. right; exact A.
Qed.

Record binv (b : builder) : Prop := {
  bi_named : NoDup (keys (b_named b));
  bi_namedsub : NoDup (keys (b_namedsub b));
  bi_namedsub_ne : forall k v, In (k, v) (b_namedsub b) -> snd k <> EmptyString;
  bi_typed : NoDup (keys (b_typed b));
  bi_typed_ty : forall t v, In (t, v) (b_typed b) -> v_ty v = t;
  bi_typedsub : NoDup (keys (b_typedsub b));
  bi_typedsub_ty : forall k v, In (k, v) (b_typedsub b) -> v_ty v = fst k /\ snd k <> EmptyString
}.

Lemma binv_b0 : binv b0.
Proof. constructor; simpl; try constructor; intros; contradiction. Qed.

Lemma binv_set_typed b v : binv b -> binv (set_typed b v).
Proof.
  intros I. destruct v as [x|]; [|exact I]. destruct I. constructor; simpl; auto.
  - apply nodup_keys_insert; auto.
  - intros t v A. apply in_insert in A. destruct A as [[-> ->]|A]; auto.
Qed.

Lemma binv_set_typedsub b v st : binv b -> binv (set_typedsub b v st).
Proof.
  intros I. unfold set_typedsub. destruct (String.eqb_spec st EmptyString) as [->|N].
  - apply binv_set_typed; exact I.
  - destruct v as [x|]; [|exact I]. destruct I. constructor; simpl; auto.
    + apply nodup_keys_insert; auto.
    + intros k v A. apply in_insert in A. destruct A as [[-> ->]|A]; auto.
Qed.

Lemma binv_set_named b n v : binv b -> binv (set_named b n v).
Proof.
  intros I. unfold set_named. destruct (String.eqb n EmptyString).
  - apply binv_set_typed; exact I.
  - destruct v as [x|]; [|exact I]. destruct I. constructor; simpl; auto.
    apply nodup_keys_insert; auto.
Qed.

Lemma binv_set_namedsub b n v st : binv b -> binv (set_namedsub b n v st).
Proof.
  intros I. unfold set_namedsub. destruct (String.eqb n EmptyString).
  - apply binv_set_typedsub; exact I.
  - destruct (String.eqb_spec st EmptyString) as [->|N].
    + apply binv_set_named; exact I.
    + destruct v as [x|]; [|exact I]. destruct I. constructor; simpl; auto.
      * apply nodup_keys_insert; auto.
      * intros k v A. apply in_insert in A. destruct A as [[-> ->]|A]; eauto.
Qed.

Lemma binv_same b b' :
  b_named b' = b_named b -> b_namedsub b' = b_namedsub b -> b_typed b' = b_typed b ->
  b_typedsub b' = b_typedsub b -> binv b -> binv b'.
Proof.
  intros Q1 Q2 Q3 Q4 I. destruct I. constructor; rewrite ?Q1, ?Q2, ?Q3, ?Q4; auto.
Qed.

Lemma binv_add_convs_raw fs : forall b, binv b -> binv (add_convs_raw b fs).
Proof.
  induction fs as [|[f|] fs IH]; intros b I; simpl; [exact I| |].
  - apply IH. eapply binv_same; [..|exact I]; reflexivity.
  - eapply binv_same; [..|exact I]; reflexivity.
Qed.

Lemma binv_apply_arg b a : binv b -> binv (apply_arg b a).
Proof.
  intros I. destruct a; simpl; try exact I.
  - apply binv_set_named; exact I.
  - apply binv_set_namedsub; exact I.
  - revert b I. induction vs as [|v vs IH]; intros b I; simpl; [exact I|].
    apply IH. apply binv_set_typed; exact I.
  - apply binv_set_typedsub; exact I.
  - apply binv_add_convs_raw; exact I.
  - eapply binv_same; [..|exact I]; reflexivity.
  - eapply binv_same; [..|exact I]; reflexivity.
  - eapply binv_same; [..|exact I]; reflexivity.
  - eapply binv_same; [..|exact I]; reflexivity.
Qed.

Lemma binv_build_from opts : forall b b', binv b -> build_from b opts = Some b' -> binv b'.
Proof.
  induction opts as [|a opts IH]; intros b b' I; simpl.
  - destruct (b_err b); [discriminate|]. intros Q; inversion Q; subst; exact I.
  - destruct (is_nil_arg a); [discriminate|]. apply IH. apply binv_apply_arg; exact I.
Qed.

Lemma binv_build_args d opts b : build_args d opts = Some b -> binv b.
Proof. unfold build_args. apply binv_build_from. apply binv_b0. Qed.

(* ---------- consequences for the input vertices ---------- *)
Definition kty (k : vkey) : option ty :=
  match k with KVal _ t _ | KOut t _ => Some t | _ => None end.

Lemma input_vertices_ty b k v : binv b -> In (k, v) (input_vertices b) -> kty k = Some (v_ty v).
Proof.
  intros I. unfold input_vertices. rewrite !in_app_iff, !in_map_iff.
  intros [([n x] & Q & A)|[([[n st] x] & Q & A)|[([t x] & Q & A)|([[t st] x] & Q & A)]]];
    simpl in Q; inversion Q; subst; simpl; try reflexivity.
  - rewrite (bi_typed_ty I _ _ A). reflexivity.
  - destruct (bi_typedsub_ty I _ _ A) as [R _]. simpl in R. rewrite R. reflexivity.
Qed.

Lemma input_vertices_nodup b : binv b -> NoDup (keys (input_vertices b)).
Proof.
  intros I. unfold input_vertices, keys. rewrite !map_app, !map_map. simpl.
  assert (NA : NoDup (map (fun x : string * value => KVal (fst x) (v_ty (snd x)) EmptyString) (b_named b))).
  { apply NoDup_map_on with (h := fst); [exact (bi_named I)|].
    intros x y _ _ Q. inversion Q; auto. }
  assert (NB : NoDup (map (fun x : string * string * value => KVal (fst (fst x)) (v_ty (snd x)) (snd (fst x))) (b_namedsub b))).
  { apply NoDup_map_on with (h := fst); [exact (bi_namedsub I)|].
    intros [[n1 s1] v1] [[n2 s2] v2] _ _ Q. simpl in *. inversion Q; subst; auto. }
  assert (NC : NoDup (map (fun x : ty * value => KOut (fst x) EmptyString) (b_typed b))).
  { apply NoDup_map_on with (h := fst); [exact (bi_typed I)|].
    intros x y _ _ Q. inversion Q; auto. }
  assert (ND : NoDup (map (fun x : ty * string * value => KOut (fst (fst x)) (snd (fst x))) (b_typedsub b))).
  { apply NoDup_map_on with (h := fst); [exact (bi_typedsub I)|].
    intros [[n1 s1] v1] [[n2 s2] v2] _ _ Q. simpl in *. inversion Q; subst; auto. }
  apply NoDup_app_disj2; [exact NA| |].
  - apply NoDup_app_disj2; [exact NB| |].
    + apply NoDup_app_disj2; [exact NC|exact ND|].
      intros k A B. apply in_map_iff in A. apply in_map_iff in B.
      destruct A as (x & <- & Ix). destruct B as ([[t st] v] & Q & Iy). simpl in Q.
      inversion Q; subst. destruct (bi_typedsub_ty I _ _ Iy) as [_ N]. apply N; reflexivity.
    + intros k A B. apply in_map_iff in A. destruct A as (x & <- & Ix).
      apply in_app_or in B. destruct B as [B|B]; apply in_map_iff in B; destruct B as (y & Q & _); discriminate.
  - intros k A B. apply in_map_iff in A. destruct A as (x & <- & Ix).
    apply in_app_or in B. destruct B as [B|B].
    + apply in_map_iff in B. destruct B as ([[n st] v] & Q & Iy). simpl in Q. inversion Q; subst.
      apply (bi_namedsub_ne I _ _ Iy). reflexivity.
    + apply in_app_or in B. destruct B as [B|B]; apply in_map_iff in B; destruct B as (y & Q & _); discriminate.
Qed.

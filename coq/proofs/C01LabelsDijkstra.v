(* C01LabelsDijkstra.v -- facts about the model's Dijkstra for ARBITRARY
   (possibly negative) integer weights: soundness of the predecessor map,
   completeness of the predecessor map for bounded weights, and the shape
   of the paths rebuilt by EdgeToPath. *)
From ArgMapper Require Import Base Graph GraphAlg GraphSpec.
From ArgMapper.proofs Require Import C18DijkstraLemmas C19RefineMap.
From Coq Require Import Lia ZArith List.
Import ListNotations.
Local Open Scope Z_scope.

Section DJ.
  Context {K : Type} {E : EqDec K} {V : Type}.

  (* predecessor chains as a list property: pchain p None [x0; x1; ...; xn] means
     lookup x0 p = None, lookup x1 p = Some x0, ..., lookup xn p = Some x(n-1) *)
  Fixpoint pchain (p : amap K K) (prev : option K) (l : list K) : Prop :=
    match l with [] => True | v :: l' => lookup v p = prev /\ pchain p (Some v) l' end.

  (* reachable from src along out-edges *)
  Inductive drch (g : graph K V) (src : K) : K -> Prop :=
  | drch_src : drch g src src
  | drch_step q v : drch g src q -> In v (keys (inner (gout g) q)) -> drch g src v.

  (* ================= small map / list facts ================= *)
  Lemma getd_insert (d : amap K Z) (v : K) (t : Z) (x : K) :
    getd (insert v t d) x = if eqb x v then t else getd d x.
  Proof. unfold getd. rewrite lookup_insert. destruct (eqb x v); reflexivity. Qed.

  Lemma mem_insert (p : amap K K) (v u x : K) :
    mem x (insert v u p) = (eqb x v || mem x p)%bool.
  Proof. unfold mem. rewrite lookup_insert. destruct (eqb x v); reflexivity. Qed.

  Lemma mem_insert_mono (p : amap K K) (v u x : K) :
    mem x p = true -> mem x (insert v u p) = true.
  Proof. intros M. rewrite mem_insert, M. apply orb_true_r. Qed.

  Lemma mem_insert_same (p : amap K K) (v u : K) : mem v (insert v u p) = true.
  Proof. rewrite mem_insert, eqb_refl. reflexivity. Qed.

  Lemma getd_init (src : K) (ks : list K) (x : K) :
    getd (insert src 0 (map (fun k => (k, INF)) ks)) x = if eqb x src then 0 else INF.
  Proof.
    rewrite getd_insert. destruct (eqb x src); [reflexivity|].
    unfold getd. rewrite lookup_map_const. destruct (memb x ks); reflexivity.
  Qed.

  Lemma getd_lookup (d : amap K Z) (x : K) (dx : Z) : lookup x d = Some dx -> getd d x = dx.
  Proof. unfold getd. intros ->. reflexivity. Qed.

  Lemma In_keys_pair (m : amap K Z) (v : K) : In v (keys m) -> exists w, In (v, w) m.
  Proof.
    unfold keys. intros A. apply in_map_iff in A. destruct A as ([v' w] & Q & A).
    simpl in Q. subst v'. exists w. exact A.
  Qed.

  Lemma In_pair_keys (m : amap K Z) (v : K) (w : Z) : In (v, w) m -> In v (keys m).
  Proof. intros A. unfold keys. change v with (fst (v, w)). apply in_map. exact A. Qed.

  Lemma remove1_sub (u x : K) (l : list K) : In x (remove1 u l) -> In x l.
  Proof.
    induction l as [|y l IH]; simpl; intros A; [exact A|].
    destruct (eqb u y); [right; exact A|].
    destruct A as [A|A]; [left; exact A|right; apply IH; exact A].
  Qed.

  Lemma remove1_keep (u x : K) (l : list K) : x <> u -> In x l -> In x (remove1 u l).
  Proof.
    intros Ne. induction l as [|y l IH]; simpl; intros A; [exact A|].
    destruct (eqb_spec u y) as [Q|Nq].
    - destruct A as [A|A]; [subst; contradiction Ne; reflexivity|exact A].
    - destruct A as [A|A]; [left; exact A|right; apply IH; exact A].
  Qed.

  Lemma remove1_notin (u q : K) (l : list K) : ~ In q (remove1 u l) -> q = u \/ ~ In q l.
  Proof.
    intros N. destruct (eqb_spec q u) as [Q|Ne]; [left; exact Q|].
    right. intros A. apply N. apply remove1_keep; assumption.
  Qed.

  (* ================= relax1 and the relaxation fold ================= *)
  Lemma relax1_ok (u : K) (du : Z) (r : res dstate) (e : K * Z) (st' : dstate) :
    relax1 u du r e = Ok st' -> exists st, r = Ok st.
  Proof.
    destruct r as [st| | |]; simpl; intros Q; try discriminate Q. exists st. reflexivity.
  Qed.

  Lemma fold_relax_ok (u : K) (du : Z) (es : list (K * Z)) :
    forall (r : res dstate) (st' : dstate),
      fold_left (relax1 u du) es r = Ok st' -> exists st, r = Ok st.
  Proof.
    induction es as [|e es IH]; simpl; intros r st' Q.
    - exists st'. exact Q.
    - apply IH in Q. destruct Q as [st1 Q]. apply relax1_ok in Q. exact Q.
  Qed.

  Lemma relax1_cases (u : K) (du : Z) (st : dstate) (v : K) (w : Z) (st' : dstate) :
    relax1 u du (Ok st) (v, w) = Ok st' ->
    exists dv, lookup v (dist st) = Some dv /\
      ((memb v (unvis st) = false /\ st' = st) \/
       (memb v (unvis st) = true /\ dv <= wrap64 (du + w) /\ st' = st) \/
       (memb v (unvis st) = true /\ wrap64 (du + w) < dv /\
        st' = mkD (unvis st) (insert v (wrap64 (du + w)) (dist st)) (insert v u (prev st)))).
  Proof.
    unfold relax1, bind.
    destruct (lookup v (dist st)) as [dv|]; [|discriminate].
    intros Q. exists dv. split; [reflexivity|].
    destruct (memb v (unvis st)).
    - destruct (Z.ltb_spec (wrap64 (du + w)) dv) as [Lt|Ge]; inversion Q; subst st'.
      + right; right. repeat split; assumption.
      + right; left. repeat split; assumption.
    - left. inversion Q. split; reflexivity.
  Qed.

  (* generic induction principle for the relaxation fold: [done] is the list
     of edges already processed *)
  Lemma fold_relax_ind (P : list (K * Z) -> @dstate K -> Prop) (u : K) (du : Z) (all : list (K * Z)) :
    (forall done e st st', In e all -> P done st ->
        relax1 u du (Ok st) e = Ok st' -> P (done ++ [e]) st') ->
    forall es, incl es all -> forall done st st', P done st ->
      fold_left (relax1 u du) es (Ok st) = Ok st' -> P (done ++ es) st'.
  Proof.
    intros Step. induction es as [|e es IH]; intros Inc done st st' HP Q; simpl in Q.
    - inversion Q; subst st'. rewrite app_nil_r. exact HP.
    - destruct (fold_relax_ok _ _ _ _ _ Q) as [st1 Q1]. rewrite Q1 in Q.
      replace (done ++ e :: es) with ((done ++ [e]) ++ es)
        by (rewrite <- app_assoc; reflexivity).
      apply IH with (st := st1).
      + intros x A. apply Inc. right. exact A.
      + apply Step with (st := st).
        * apply Inc. left. reflexivity.
        * exact HP.
        * exact Q1.
      + exact Q.
  Qed.

  Lemma is_min_spec (st : dstate) (u : K) :
    is_min st u = true ->
    In u (unvis st) /\ forall x, In x (unvis st) -> getd (dist st) u <= getd (dist st) x.
  Proof.
    unfold is_min. intros M. apply andb_true_iff in M. destruct M as [M1 M2].
    split.
    - apply memb_In. exact M1.
    - intros x A. rewrite forallb_forall in M2. apply Z.leb_le. apply M2. exact A.
  Qed.

  (* ================= (1) soundness ================= *)
  Definition Inv1 (g : graph K V) (src : K) (st : dstate) : Prop :=
    (forall x, getd (dist st) x <> INF -> x = src \/ mem x (prev st) = true) /\
    (forall v q, lookup v (prev st) = Some q ->
       In v (keys (inner (gout g) q)) /\ (q = src \/ mem q (prev st) = true)).

  Lemma dinit_inv1 (g : graph K V) (src : K) (st0 : dstate) :
    dinit g src = Ok st0 -> Inv1 g src st0.
  Proof.
    unfold dinit. destruct (memb src (g_vertex_keys g)); [|discriminate].
    intros Q. inversion Q; subst st0. split; simpl.
    - intros x Hx. rewrite getd_init in Hx. destruct (eqb_spec x src) as [Q1|N1].
      + left. exact Q1.
      + contradiction Hx. reflexivity.
    - intros v q Hq. discriminate Hq.
  Qed.

  Lemma relax1_inv1 (g : graph K V) (src u : K) (du : Z) (e : K * Z) (st st' : dstate) :
    In e (inner (gout g) u) ->
    Inv1 g src st /\ (u = src \/ mem u (prev st) = true) ->
    relax1 u du (Ok st) e = Ok st' ->
    Inv1 g src st' /\ (u = src \/ mem u (prev st') = true).
  Proof.
    destruct e as [v w]. intros Ie [[S1 S2] Hu] Q.
    apply relax1_cases in Q. destruct Q as (dv & Lv & [[_ Q]|[(_ & _ & Q)|(_ & _ & Q)]]).
    - subst st'. split; [split|]; assumption.
    - subst st'. split; [split|]; assumption.
    - subst st'. unfold Inv1. cbn [dist prev unvis]. split; [split|].
      + intros x Hx. rewrite getd_insert in Hx. destruct (eqb_spec x v) as [Qx|Nx].
        * right. subst x. apply mem_insert_same.
        * destruct (S1 x Hx) as [A|A]; [left; exact A|right; apply mem_insert_mono; exact A].
      + intros v' q Hq. rewrite lookup_insert in Hq. destruct (eqb_spec v' v) as [Qv|Nv].
        * inversion Hq; subst q v'. split.
          -- apply In_pair_keys with (w := w). exact Ie.
          -- destruct Hu as [A|A]; [left; exact A|right; apply mem_insert_mono; exact A].
        * destruct (S2 v' q Hq) as [A [B|B]].
          -- split; [exact A|left; exact B].
          -- split; [exact A|right; apply mem_insert_mono; exact B].
      + destruct Hu as [A|A]; [left; exact A|right; apply mem_insert_mono; exact A].
  Qed.

  Lemma dstep_inv1 (g : graph K V) (src u : K) (st st' : dstate) :
    Inv1 g src st -> dstep g st u = Ok st' -> Inv1 g src st'.
  Proof.
    intros I Q. unfold dstep in Q.
    destruct (is_min st u); [|discriminate Q].
    destruct (getd (dist st) u =? INF) eqn:DU.
    - inversion Q; subst st'. exact I.
    - apply Z.eqb_neq in DU.
      pose proof (fold_relax_ind
        (fun _ s => Inv1 g src s /\ (u = src \/ mem u (prev s) = true))
        u (getd (dist st) u) (inner (gout g) u)) as F.
      cbv beta in F.
      assert (R : Inv1 g src st' /\ (u = src \/ mem u (prev st') = true)).
      { refine (F _ (inner (gout g) u) _ (@nil (K * Z))
                  (mkD (remove1 u (unvis st)) (dist st) (prev st)) st' _ _).
        - intros done e s s' Ie HP HQ. apply relax1_inv1 with (du := getd (dist st) u) (e := e) (st := s);
            assumption.
        - intros x A. exact A.
        - simpl. split; [exact I|]. destruct I as [S1 _]. apply S1. exact DU.
        - exact Q. }
      destruct R as [R _]. exact R.
  Qed.

  Lemma dloop_inv1 (g : graph K V) (src : K) (pops : list K) :
    forall st st', Inv1 g src st -> dloop g st pops = Ok st' -> Inv1 g src st'.
  Proof.
    induction pops as [|u pops IH]; intros st st' I Q; simpl in Q.
    - destruct (unvis st); [|discriminate Q]. inversion Q; subst st'. exact I.
    - destruct (dstep g st u) as [st1| | |] eqn:D; simpl in Q; try discriminate Q.
      apply IH with (st := st1); [|exact Q].
      apply dstep_inv1 with (u := u) (st := st); assumption.
  Qed.

  Lemma dijkstra_run (g : graph K V) (src : K) (pops : list K) (d : amap K Z) (p : amap K K) :
    dijkstra g src pops = Ok (d, p) ->
    exists st0 st, dinit g src = Ok st0 /\ dloop g st0 pops = Ok st /\ d = dist st /\ p = prev st.
  Proof.
    unfold dijkstra. destruct (dinit g src) as [st0| | |] eqn:Q0; simpl; try discriminate.
    destruct (dloop g st0 pops) as [st| | |] eqn:Q1; simpl; try discriminate.
    intros Q. inversion Q. exists st0, st. repeat split; auto.
  Qed.

  (* (1) soundness, NO hypotheses on g *)
  Theorem dijkstra_prev_sound (g : graph K V) (src : K) pops d p :
    dijkstra g src pops = Ok (d, p) ->
    forall v q, lookup v p = Some q ->
      In v (keys (inner (gout g) q)) /\ (q = src \/ mem q p = true).
  Proof.
    intros Q. apply dijkstra_run in Q. destruct Q as (st0 & st & Q0 & Q1 & _ & Qp). subst p.
    apply dinit_inv1 in Q0.
    pose proof (dloop_inv1 g src pops st0 st Q0 Q1) as [_ S2]. exact S2.
  Qed.

  (* ================= (2) completeness ================= *)
  Lemma wrap64_small (z : Z) : - INF <= z <= INF -> wrap64 z = z.
  Proof. unfold wrap64, INF. intros B. rewrite Z.mod_small; lia. Qed.

  Section Complete.
    Variables (g : graph K V) (src : K) (W : Z).
    Hypothesis WF : wf_graph g.
    Hypothesis W0 : 0 <= W.
    Hypothesis WB : forall a b w, lookup b (inner (gout g) a) = Some w -> - W <= w <= W.
    Hypothesis WN : W * Z.of_nat (length (g_vertex_keys g)) < INF.

    (* bound on the finite tentative distances when [U] is the unvisited list *)
    Definition bnd (U : list K) : Z :=
      W * (Z.of_nat (length (g_vertex_keys g)) - Z.of_nat (length U)).

    Lemma bnd_step (u : K) (U : list K) : In u U -> bnd (remove1 u U) = bnd U + W.
    Proof.
      intros A. unfold bnd. rewrite <- (remove1_length u U A).
      rewrite Nat2Z.inj_succ. ring.
    Qed.

    Lemma bnd_lt_INF (U : list K) : bnd U < INF.
    Proof.
      unfold bnd. pose proof (Nat2Z.is_nonneg (length U)) as P.
      assert (Q : 0 <= W * Z.of_nat (length U)) by (apply Z.mul_nonneg_nonneg; assumption).
      rewrite Z.mul_sub_distr_l. lia.
    Qed.

    Lemma inner_In_lookup (u v : K) (w : Z) :
      In (v, w) (inner (gout g) u) -> lookup v (inner (gout g) u) = Some w.
    Proof.
      unfold inner. destruct (lookup u (gout g)) as [i|] eqn:L; intros A.
      - apply In_lookup; [|exact A]. exact (wf_inner_out_nodup WF u L).
      - contradiction A.
    Qed.

    Lemma out_vertex (q v : K) :
      In v (keys (inner (gout g) q)) -> In v (g_vertex_keys g).
    Proof.
      intros A. apply keys_lookup in A. destruct A as [w A].
      destruct (wf_closed WF q v A) as [_ B]. exact B.
    Qed.

    Record Inv2 (st : dstate) : Prop := {
      i_bound : forall x, getd (dist st) x = INF \/
                          - bnd (unvis st) <= getd (dist st) x <= bnd (unvis st);
      i_src : getd (dist st) src <> INF;
      i_c2 : forall q, In q (g_vertex_keys g) -> ~ In q (unvis st) -> getd (dist st) q <> INF ->
               forall v, In v (keys (inner (gout g) q)) -> getd (dist st) v <> INF;
      i_c3 : forall q, In q (g_vertex_keys g) -> ~ In q (unvis st) -> getd (dist st) q = INF ->
               forall x, In x (unvis st) -> getd (dist st) x = INF
    }.

    Lemma dinit_inv2 (st0 : dstate) : dinit g src = Ok st0 -> Inv2 st0.
    Proof.
      unfold dinit. destruct (memb src (g_vertex_keys g)); [|discriminate].
      intros Q. inversion Q; subst st0. constructor; cbn [dist prev unvis].
      - intros x. rewrite getd_init. destruct (eqb x src); [right|left; reflexivity].
        unfold bnd. rewrite Z.sub_diag, Z.mul_0_r. lia.
      - rewrite getd_init, eqb_refl. unfold INF. discriminate.
      - intros q A B. contradiction.
      - intros q A B. contradiction.
    Qed.

    (* a visited vertex has a finite distance as soon as some unvisited one has *)
    Lemma visited_finite (st : dstate) (u q : K) :
      Inv2 st -> In u (unvis st) -> getd (dist st) u <> INF ->
      In q (g_vertex_keys g) -> ~ In q (unvis st) -> getd (dist st) q <> INF.
    Proof.
      intros I Iu DU Vq Nq Hq. apply DU. exact (i_c3 st I q Vq Nq Hq u Iu).
    Qed.

    (* state of the relaxation of the out-edges of [u], popped from [st0] *)
    Definition Mid (u : K) (st0 : dstate) (done : list (K * Z)) (st : dstate) : Prop :=
      unvis st = remove1 u (unvis st0) /\
      (forall x, getd (dist st) x = INF \/
                 - bnd (remove1 u (unvis st0)) <= getd (dist st) x <= bnd (remove1 u (unvis st0))) /\
      (forall x, getd (dist st0) x <> INF -> getd (dist st) x <> INF) /\
      (forall v w, In (v, w) done -> In v (remove1 u (unvis st0)) -> getd (dist st) v <> INF).

    Lemma relax1_mid (u : K) (st0 : dstate) (done : list (K * Z)) (e : K * Z) (st st' : dstate) :
      Inv2 st0 -> In u (unvis st0) -> getd (dist st0) u <> INF ->
      In e (inner (gout g) u) ->
      Mid u st0 done st ->
      relax1 u (getd (dist st0) u) (Ok st) e = Ok st' ->
      Mid u st0 (done ++ [e]) st'.
    Proof.
      destruct e as [v w]. intros I Iu DU Ie (MU & MB & MK & MD) Q.
      (* arithmetic facts about the candidate distance *)
      pose proof (bnd_step u (unvis st0) Iu) as BS.
      pose proof (bnd_lt_INF (remove1 u (unvis st0))) as BL.
      assert (Ww : - W <= w <= W).
      { apply (WB u v w). apply inner_In_lookup. exact Ie. }
      assert (Du : - bnd (unvis st0) <= getd (dist st0) u <= bnd (unvis st0)).
      { destruct (i_bound st0 I u) as [A|A]; [contradiction|exact A]. }
      assert (Tb : - bnd (remove1 u (unvis st0)) <= getd (dist st0) u + w
                   <= bnd (remove1 u (unvis st0))) by lia.
      assert (Tw : wrap64 (getd (dist st0) u + w) = getd (dist st0) u + w).
      { apply wrap64_small. lia. }
      assert (Tn : getd (dist st0) u + w <> INF) by lia.
      apply relax1_cases in Q. rewrite Tw in Q.
      destruct Q as (dv & Lv & [[Mv Q]|[(Mv & Le & Q)|(Mv & Lt & Q)]]).
      - (* v is visited: nothing happens *)
        subst st'. unfold Mid. repeat split; try assumption.
        intros v' w' A Iv'. apply in_app_or in A. destruct A as [A|[A|[]]].
        + exact (MD v' w' A Iv').
        + inversion A; subst v' w'. rewrite MU in Mv.
          apply memb_false in Mv. contradiction.
      - (* v unvisited, no improvement: its distance is already finite *)
        subst st'. unfold Mid. repeat split; try assumption.
        intros v' w' A Iv'. apply in_app_or in A. destruct A as [A|[A|[]]].
        + exact (MD v' w' A Iv').
        + inversion A; subst v' w'. rewrite (getd_lookup _ _ _ Lv). lia.
      - (* v unvisited, improved *)
        subst st'. unfold Mid. cbn [dist prev unvis]. repeat split.
        + exact MU.
        + intros x. rewrite getd_insert. destruct (eqb x v); [right; exact Tb|apply MB].
        + intros x Hx. rewrite getd_insert. destruct (eqb x v); [exact Tn|apply MK; exact Hx].
        + intros v' w' A Iv'. rewrite getd_insert. destruct (eqb_spec v' v) as [Qv|Nv]; [exact Tn|].
          apply in_app_or in A. destruct A as [A|[A|[]]].
          * exact (MD v' w' A Iv').
          * inversion A; subst v' w'. contradiction Nv. reflexivity.
    Qed.

    Lemma dstep_inv2 (st : dstate) (u : K) (st' : dstate) :
      Inv2 st -> dstep g st u = Ok st' -> Inv2 st'.
    Proof.
      intros I Q. unfold dstep in Q.
      destruct (is_min st u) eqn:M; [|discriminate Q].
      apply is_min_spec in M. destruct M as [Iu Min].
      pose proof (bnd_step u (unvis st) Iu) as BS.
      destruct (getd (dist st) u =? INF) eqn:DU.
      - (* the minimum is infinite: every unvisited vertex is at infinity *)
        apply Z.eqb_eq in DU. inversion Q; subst st'; clear Q.
        assert (AllInf : forall x, In x (unvis st) -> getd (dist st) x = INF).
        { intros x A. pose proof (Min x A) as Le. rewrite DU in Le.
          pose proof (bnd_lt_INF (unvis st)) as BL.
          destruct (i_bound st I x) as [B|B]; [exact B|lia]. }
        constructor; cbn [dist prev unvis].
        + intros x. destruct (i_bound st I x) as [B|B]; [left; exact B|right; lia].
        + exact (i_src st I).
        + intros q Vq Nq Hq v Iv. apply remove1_notin in Nq. destruct Nq as [Qq|Nq].
          * subst q. contradiction.
          * exact (i_c2 st I q Vq Nq Hq v Iv).
        + intros q Vq Nq Hq x Ix. apply AllInf. apply remove1_sub in Ix. exact Ix.
      - (* relaxation of the out-edges of u *)
        apply Z.eqb_neq in DU.
        pose proof (fold_relax_ind (Mid u st) u (getd (dist st) u) (inner (gout g) u)) as F.
        assert (R : Mid u st ([] ++ inner (gout g) u) st').
        { refine (F _ (inner (gout g) u) _ (@nil (K * Z))
                    (mkD (remove1 u (unvis st)) (dist st) (prev st)) st' _ Q).
          - intros done e s s' Ie HP HQ.
            apply relax1_mid with (st := s); assumption.
          - intros x A. exact A.
          - unfold Mid. cbn [dist prev unvis]. repeat split.
            + intros x. destruct (i_bound st I x) as [B|B]; [left; exact B|right; lia].
            + intros x Hx. exact Hx.
            + intros v w []. }
        clear F Q. rewrite app_nil_l in R. destruct R as (MU & MB & MK & MD).
        constructor.
        + rewrite MU. exact MB.
        + apply MK. exact (i_src st I).
        + rewrite MU. intros q Vq Nq Hq v Iv.
          destruct (eqb_spec q u) as [Qq|Nqu].
          * subst q. destruct (In_dec_K v (remove1 u (unvis st))) as [Iv'|Nv'].
            -- destruct (In_keys_pair _ _ Iv) as [w Ie]. exact (MD v w Ie Iv').
            -- apply MK. apply remove1_notin in Nv'. destruct Nv' as [Qv|Nv'].
               ++ subst v. exact DU.
               ++ apply visited_finite with (u := u); try assumption.
                  apply out_vertex with (q := u). exact Iv.
          * apply remove1_notin in Nq. destruct Nq as [Qq|Nq]; [contradiction|].
            apply MK. apply (i_c2 st I q Vq Nq); [|exact Iv].
            apply visited_finite with (u := u); assumption.
        + rewrite MU. intros q Vq Nq Hq x Ix. exfalso. revert Hq. apply MK.
          apply remove1_notin in Nq. destruct Nq as [Qq|Nq].
          * subst q. exact DU.
          * apply visited_finite with (u := u); assumption.
    Qed.

    Lemma dloop_inv2 (pops : list K) :
      forall st st', Inv2 st -> dloop g st pops = Ok st' -> Inv2 st' /\ unvis st' = [].
    Proof.
      induction pops as [|u pops IH]; intros st st' I Q; simpl in Q.
      - destruct (unvis st) eqn:U; [|discriminate Q]. inversion Q; subst st'.
        split; [exact I|exact U].
      - destruct (dstep g st u) as [st1| | |] eqn:D; simpl in Q; try discriminate Q.
        apply IH with (st := st1); [|exact Q].
        apply dstep_inv2 with (u := u) (st := st); assumption.
    Qed.

    Lemma dinit_src (st0 : dstate) : dinit g src = Ok st0 -> In src (g_vertex_keys g).
    Proof.
      unfold dinit. destruct (memb src (g_vertex_keys g)) eqn:M; [|discriminate].
      intros _. apply memb_In. exact M.
    Qed.

    Lemma complete_aux (pops : list K) (d : amap K Z) (p : amap K K) :
      dijkstra g src pops = Ok (d, p) ->
      forall v, drch g src v -> v = src \/ mem v p = true.
    Proof.
      intros Q. apply dijkstra_run in Q. destruct Q as (st0 & st & Q0 & Q1 & _ & Qp). subst p.
      pose proof (dinit_src st0 Q0) as Vs.
      pose proof (dloop_inv1 g src pops st0 st (dinit_inv1 g src st0 Q0) Q1) as [S1 _].
      destruct (dloop_inv2 pops st0 st (dinit_inv2 st0 Q0) Q1) as [I U].
      assert (Fin : forall v, drch g src v -> In v (g_vertex_keys g) /\ getd (dist st) v <> INF).
      { intros v R. induction R as [|q v R [Vq Hq] Iv].
        - split; [exact Vs|exact (i_src st I)].
        - split; [exact (out_vertex q v Iv)|].
          apply (i_c2 st I q Vq); [rewrite U; intros []|exact Hq|exact Iv]. }
      intros v R. apply S1. apply (Fin v R).
    Qed.
  End Complete.

  (* (2) completeness for bounded weights on graphs that are not astronomically large *)
  Theorem dijkstra_prev_complete (g : graph K V) (src : K) (W : Z) pops d p :
    wf_graph g -> 0 <= W ->
    (forall a b w, lookup b (inner (gout g) a) = Some w -> - W <= w <= W) ->
    W * Z.of_nat (length (g_vertex_keys g)) < INF ->
    dijkstra g src pops = Ok (d, p) ->
    forall v, drch g src v -> v = src \/ mem v p = true.
  Proof.
    intros WF W0 WB WN Q. exact (complete_aux g src W WF W0 WB WN pops d p Q).
  Qed.

  (* ================= (3) EdgeToPath ================= *)
  Theorem etp_pchain (p : amap K K) fuel cur acc l :
    etp fuel p cur acc = Ok l -> pchain p (Some cur) acc -> pchain p None l.
  Proof.
    revert cur acc. induction fuel as [|f IH]; intros cur acc Q C; simpl in Q.
    - discriminate Q.
    - destruct (lookup cur p) as [q|] eqn:L.
      + apply (IH q (cur :: acc) Q). simpl. split; assumption.
      + inversion Q; subst l. simpl. split; assumption.
  Qed.

  Theorem etp_shape (p : amap K K) fuel cur acc l :
    etp fuel p cur acc = Ok l -> exists pre, l = pre ++ cur :: acc.
  Proof.
    revert cur acc. induction fuel as [|f IH]; intros cur acc Q; simpl in Q.
    - discriminate Q.
    - destruct (lookup cur p) as [q|] eqn:L.
      + destruct (IH q (cur :: acc) Q) as [pre Hl].
        exists (pre ++ [q]). rewrite <- app_assoc. exact Hl.
      + inversion Q; subst l. exists []. reflexivity.
  Qed.

  (* a target with a predecessor gives a path of at least two vertices *)
  Theorem etp_two (p : amap K K) fuel cur l :
    etp fuel p cur [] = Ok l -> mem cur p = true -> exists x y rest, l = x :: y :: rest.
  Proof.
    intros Q M. destruct fuel as [|f]; simpl in Q; [discriminate Q|].
    unfold mem in M. destruct (lookup cur p) as [q|]; [|discriminate M].
    apply etp_shape in Q. destruct Q as [pre Hl]. subst l.
    destruct pre as [|x [|y pre]].
    - exists q, cur, []. reflexivity.
    - exists x, q, [cur]. reflexivity.
    - exists x, y, (pre ++ [q; cur]). reflexivity.
  Qed.
End DJ.

Print Assumptions dijkstra_prev_sound.
Print Assumptions dijkstra_prev_complete.
Print Assumptions etp_pchain.
Print Assumptions etp_two.

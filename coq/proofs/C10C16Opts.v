(* C10C16Opts.v -- proofs of C10 (Convert = Call on the identity function)
   and C16 (option processing). *)
From ArgMapper Require Import Base Graph GraphAlg Types Args Resolver ResolverSpec CheckResolver Monitors ResolverStatements.
From ArgMapper.proofs Require Import C19RefineMap C10C16OptsLemmas.
From Coq Require Import Permutation Lia.
Set Implicit Arguments.
Local Open Scope Z_scope.

(* ================= C10 ================= *)

(* a successful Call whose outcome is a result ended with callDirect on the target *)
Lemma call_ok_inv u bh f d opts w t r res :
  call u bh f d opts w t = Ok r -> run_out r = OOk res ->
  exists am s s', call_direct u bh false f am s = Ok (res, s') /\
                  r_builderr res = false /\ run_trace r = s_trace s'.
Proof.
  unfold call. intros HC HO.
  destruct (build_args d opts) as [b|].
  2:{ inversion HC. subst r. cbn [run_out] in HO. discriminate HO. }
  destruct (call_graph u f b false t) as [[cgr tr0]|st|st|]; cbn [bind] in HC; try discriminate HC.
  destruct cgr as [cg|e].
  2:{ inversion HC. subst r. cbn [run_out] in HO. discriminate HO. }
  destruct (reach u bh (cg_g cg) false (fuel_of cg) (cg_target cg) (init_state cg w)) as [[s r0]|st|st|];
    cbn [bind] in HC; try discriminate HC.
  destruct r0 as [am|e].
  2:{ inversion HC. subst r. cbn [run_out] in HO. discriminate HO. }
  destruct (call_direct u bh false f am s) as [[res' s']|st|st|] eqn:HD;
    cbn [bind] in HC; try discriminate HC.
  inversion HC. subst r. cbn [run_out run_trace] in *.
  destruct (r_builderr res') eqn:HB; [discriminate HO|].
  inversion HO. subst res'.
  exists am, s, s'. split; [exact HD|]. split; [exact HB|reflexivity].
Qed.

(* callDirect on the identity function: it runs, with exactly one argument of type ty *)
Lemma call_direct_identity u bh ty am s res s' :
  call_direct u bh false (identity_fn ty) am s = Ok (res, s') ->
  r_builderr res = false ->
  exists x outs, s_trace s' = s_trace s ++ [EExec (-1) [x] outs None] /\ v_ty x = ty /\ r_err res = None.
Proof.
  unfold call_direct, identity_fn.
  cbn [fn_once fn_id fn_in fn_err fn_out map existsb snd fst flat_map field_key f_name f_ty f_sub String.eqb orb app].
  intros HC HB.
  destruct (lookup (KArg ty EmptyString) am) as [v|].
  - destruct (negb (assignable u (v_ty v) ty)); cbn [orb] in HC; [discriminate HC|].
    destruct (bh (-1) (s_nexec s + 1)) as [|e|]; inversion HC; subst res s'; cbn [s_trace r_err];
      eexists; eexists; (split; [reflexivity|split; reflexivity]).
  - cbn [orb] in HC. inversion HC. subst res. cbn [r_builderr] in HB. discriminate HB.
Qed.

Theorem C10_proof : C10_statement.
Proof.
  unfold C10_statement. intros u bh ty opts w t v r HC.
  unfold convert in HC.
  set (bh' := fun fid n => if fid =? -1 then BOk else bh fid n) in *.
  destruct (call u bh' (identity_fn ty) [] opts w t) as [r'|st|st|] eqn:HCall; cbn [bind] in HC; try discriminate HC.
  destruct (run_out r') as [res|e] eqn:HO.
  - destruct (r_err res) as [e|] eqn:HE.
    + inversion HC. subst v r'. split; [reflexivity|].
      rewrite HO. rewrite HE. discriminate.
    + destruct (call_ok_inv _ _ _ _ _ _ _ HCall HO) as (am & s & s' & HD & HB & HT).
      destruct (call_direct_identity _ _ _ _ _ HD HB) as (x & outs & HS & HTy & _).
      rewrite HT, HS, rev_unit in HC. inversion HC. subst v r'.
      split; [reflexivity|]. split; [|split].
      * exists res. split; [exact HO|exact HE].
      * exists outs. rewrite HT, HS. apply in_or_app. right. left. reflexivity.
      * exact HTy.
  - inversion HC. subst v r'. split; [reflexivity|]. rewrite HO. exact I.
Qed.

Print Assumptions C10_proof.

(* ================= C16 ================= *)
Lemma slot_lookup_b0 (s : slot) : slot_lookup b0 s = None.
Proof. destruct s; reflexivity. Qed.

Theorem C16_proof : C16_statement.
Proof.
  unfold C16_statement. split; [|split; [|split]].
  - intros d opts HE. unfold build_args. apply build_from_nil. exact HE.
  - intros d opts b HB s. unfold build_args in HB.
    rewrite (build_from_slot_lookup _ _ s HB), slot_lookup_b0. reflexivity.
  - intros d opts b HB. unfold build_args in HB.
    rewrite (build_from_convs _ _ HB). reflexivity.
  - intros opts opts' HP HN s. apply last_write_perm; assumption.
Qed.

Print Assumptions C16_proof.

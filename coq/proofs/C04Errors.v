(* C04Errors.v -- property C04 (error propagation of Func.Call).

   RESULT.  [C04_statement] as written is FALSE of the model: it carries no
   well-formedness hypothesis, and a converter that has the *id* of the
   target but another Go function type can run (and fail) before a
   resolution failure; see [C04_counterexample].  What is proved:

   - [C04_errors_proof]: the first clause ([c04_ok]) holds unconditionally;
   - [C04_alt_proof]: under the hypothesis that every supplied / generated
     converter sharing the target's id also has the target's Go type
     (a consequence of [wf_call], see [C04_wf_proof]) both clauses hold,
     and the second one in the STRONGER form without the exception:
     a resolution failure never ran the target. *)
From ArgMapper Require Import Base Graph GraphAlg Types Args Resolver ResolverSpec CheckResolver Monitors ResolverStatements.
From ArgMapper.proofs Require Import C19RefineMap C04ErrorsLemmas C04ErrorsGraph.
Set Implicit Arguments.
Local Open Scope Z_scope.
Local Open Scope list_scope.

Lemma memb_In_vkey (x : vkey) (l : list vkey) : In x l -> memb x l = true.
Proof.
  induction l as [|y l IH]; cbn [In memb]; [tauto|].
  intros [->|H]; [rewrite Base.eqb_refl; reflexivity|].
  rewrite (IH H). apply orb_true_r.
Qed.

(* ================= trace predicates ================= *)
Definition clean (tr : list event) : Prop := Forall (fun e => exec_err e = None) tr.

Definition err_of {A} (r : A + rerr) : option rerr :=
  match r with inl _ => None | inr e => Some e end.

Section Inv.
  Variable u : universe.
  Variable behave : behaviour.
  Variable g : rgraph.
  Variable redefine : bool.
  Variable top : vkey.

  (* an execution inside reachTarget is the body of a function vertex other than [top] *)
  Definition ok_ev (e : event) : Prop :=
    match e with
    | EExec fid _ _ _ => exists v f', v <> top /\ g_vertex g v = Some (PFunc f') /\ fn_id f' = fid
    | EGen _ _ => True
    end.

  Definition good (tr : list event) : Prop := Forall ok_ev tr /\ clean tr.

  Definition post (tr : list event) (oe : option rerr) : Prop :=
    Forall ok_ev tr /\
    (clean tr \/
     exists tr0 ev x, tr = tr0 ++ [ev] /\ clean tr0 /\ exec_err ev = Some x /\ oe = Some (XConv x)).

  Lemma good_post tr oe : good tr -> post tr oe.
  Proof. intros [A B]. split; [exact A|left; exact B]. Qed.

  Lemma post_none_good tr : post tr None -> good tr.
  Proof.
    intros [A [B|[tr0 [ev [x [_ [_ [_ E]]]]]]]]; [split; assumption|discriminate].
  Qed.

  Lemma gen_good tr : Forall is_gen tr -> good tr.
  Proof.
    intros H. split; (eapply Forall_impl; [|exact H]); intros [|] Hg; simpl in *; tauto.
  Qed.

  (* one callDirect of a vertex other than [top] *)
  Lemma call_direct_post f v am s r s' :
    call_direct u behave redefine f am s = Ok (r, s') ->
    v <> top -> g_vertex g v = Some (PFunc f) ->
    good (s_trace s) ->
    post (s_trace s') (match r_err r with Some e => Some (XConv e) | None => None end).
  Proof.
    intros H Hv Hf [Hok Hcl].
    apply call_direct_spec in H. destruct H as [_ [E|[_ [argv [outs E]]]]]; rewrite E.
    - apply good_post. split; assumption.
    - split.
      + apply Forall_app. split; [exact Hok|]. constructor; [|constructor].
        exists v, f. auto.
      + destruct (r_err r) as [x|] eqn:Er.
        * right. exists (s_trace s), (EExec (fn_id f) argv outs (Some x)), x. auto.
        * left. apply Forall_app. split; [exact Hcl|]. constructor; [reflexivity|constructor].
  Qed.

  Section Rec.
    Variable rec : vkey -> rstate -> res (rstate * (argmap + rerr)).
    Hypothesis Hrec : forall v s s' r, rec v s = Ok (s', r) ->
      s_inprog s' = s_inprog s /\
      (In top (v :: s_inprog s) -> good (s_trace s) -> post (s_trace s') (err_of r)).

    Lemma walk_spec vs : forall prev final s s' r,
      walk u behave g redefine rec prev vs final s = Ok (s', r) ->
      s_inprog s' = s_inprog s /\
      (In top (s_inprog s) -> (forall v, In v vs -> memb v (s_inprog s) = false) ->
       good (s_trace s) -> post (s_trace s') (err_of r)).
    Proof.
      induction vs as [|v vs IH]; intros prev final s s' r H.
      - cbn [walk] in H. inversion H; subst. split; [reflexivity|].
        intros _ _ Hg. apply good_post; exact Hg.
      - destruct (is_func v) eqn:Ev.
        + destruct v as [|ft| | |]; try discriminate.
          rewrite walk_func in H.
          destruct (g_vertex g (KFunc ft)) as [[|f]|] eqn:Ef; try discriminate.
          apply bind_ok in H. destruct H as [[s1 r1] [Er H]].
          apply Hrec in Er. destruct Er as [Hi1 Hp1].
          destruct r1 as [fam|e].
          * apply bind_ok in H. destruct H as [[res s2] [Ec H]].
            pose proof (call_direct_spec _ _ _ _ _ _ Ec) as [Hi2 Htr2].
            assert (Hpost2 : In top (s_inprog s) ->
                             (forall v0, In v0 (KFunc ft :: vs) -> memb v0 (s_inprog s) = false) ->
                             good (s_trace s) ->
                             KFunc ft <> top /\
                             post (s_trace s2) (match r_err res with Some e => Some (XConv e) | None => None end)).
            { intros Htop Hnot Hg.
              assert (Hne : KFunc ft <> top).
              { intros Heq. pose proof (Hnot (KFunc ft) (or_introl eq_refl)) as Hn.
                rewrite Heq in Hn.
                assert (X : memb top (s_inprog s) = true) by (apply memb_In_vkey; exact Htop).
                congruence. }
              split; [exact Hne|].
              eapply call_direct_post; [exact Ec|exact Hne|exact Ef|].
              apply post_none_good. apply (Hp1 (or_intror Htop) Hg). }
            destruct (r_builderr res) eqn:Eb.
            { inversion H; subst; clear H. split; [congruence|].
              intros Htop Hnot Hg. destruct (Hpost2 Htop Hnot Hg) as [Hne Hp2].
              destruct Htr2 as [E|[Eb' _]]; [|congruence].
              rewrite E. apply good_post. apply post_none_good. apply (Hp1 (or_intror Htop) Hg). }
            destruct (r_err res) as [x|] eqn:Ee.
            { inversion H; subst; clear H. split; [congruence|].
              intros Htop Hnot Hg. destruct (Hpost2 Htop Hnot Hg) as [Hne Hp2]. exact Hp2. }
            apply bind_ok in H. destruct H as [[ins t'] [_ H]].
            apply bind_ok in H. destruct H as [s3 [Eo H]].
            apply output_values_spec in Eo. apply ti_eq in Eo. cbn [set_tape s_trace s_inprog] in Eo.
            destruct Eo as [Et3 Ei3].
            apply IH in H. destruct H as [Hi4 Hp4].
            split; [congruence|].
            intros Htop Hnot Hg. destruct (Hpost2 Htop Hnot Hg) as [Hne Hp2].
            apply Hp4.
            -- rewrite Ei3, Hi2, Hi1. exact Htop.
            -- intros v0 Hv0. rewrite Ei3, Hi2, Hi1. apply Hnot. right; exact Hv0.
            -- rewrite Et3. apply post_none_good. exact Hp2.
          * inversion H; subst; clear H. split; [exact Hi1|].
            intros Htop _ Hg. apply (Hp1 (or_intror Htop) Hg).
        + destruct (@walk_nonfunc u behave g redefine rec prev v vs final s Ev) as [final' [s'' [Hti E]]].
          rewrite E in H. apply IH in H. apply ti_eq in Hti. destruct Hti as [Et Ei].
          rewrite Et, Ei in H. destruct H as [Hi Hp]. split; [exact Hi|].
          intros Htop Hnot Hg. apply Hp; auto. intros v0 Hv0. apply Hnot. right; exact Hv0.
    Qed.

    Lemma walk_paths_spec target paths : forall am s s' r,
      walk_paths u behave g redefine rec target paths am s = Ok (s', r) ->
      s_inprog s' = remove1 target (s_inprog s) /\
      (In top (s_inprog s) ->
       (forall p v, In p paths -> In v p -> memb v (s_inprog s) = false) ->
       good (s_trace s) -> post (s_trace s') (err_of r)).
    Proof.
      induction paths as [|path rest IH]; intros am s s' r H.
      - rewrite walk_paths_nil in H. inversion H; subst. split; [reflexivity|].
        intros _ _ Hg. apply good_post. exact Hg.
      - rewrite walk_paths_cons in H.
        apply bind_ok in H. destruct H as [[s1 r1] [Ew H]].
        apply walk_spec in Ew. destruct Ew as [Hi1 Hp1].
        destruct r1 as [[fv|]|e].
        + apply IH in H. destruct H as [Hi2 Hp2]. rewrite Hi1 in Hi2, Hp2.
          split; [exact Hi2|].
          intros Htop Hnot Hg. apply Hp2; [exact Htop| |].
          * intros p v Hp Hv. apply (Hnot p v); [right; exact Hp|exact Hv].
          * apply post_none_good. apply Hp1; [exact Htop| |exact Hg].
            intros v Hv. apply (Hnot path v); [left; reflexivity|exact Hv].
        + discriminate.
        + inversion H; subst; clear H. split; [cbn [leave set_inprog s_inprog]; rewrite Hi1; reflexivity|].
          intros Htop Hnot Hg. cbn [leave set_inprog s_trace].
          apply Hp1; [exact Htop| |exact Hg].
          intros v Hv. apply (Hnot path v); [left; reflexivity|exact Hv].
    Qed.

    Lemma reach_body_spec target s s' r :
      reach_body u behave g redefine rec target s = Ok (s', r) ->
      s_inprog s' = s_inprog s /\
      (In top (target :: s_inprog s) -> good (s_trace s) -> post (s_trace s') (err_of r)).
    Proof.
      unfold reach_body. intros H.
      apply bind_ok in H. destruct H as [[outs t'] [_ H]].
      destruct (classify redefine (set_tape (set_inprog s (target :: s_inprog s)) t') outs) as [am todo].
      destruct todo as [|c todo].
      - inversion H; subst; clear H.
        cbn [leave set_inprog set_tape s_inprog s_trace]. rewrite remove1_head.
        split; [reflexivity|]. intros _ Hg. apply good_post; exact Hg.
      - apply bind_ok in H. destruct H as [[[paths unsat] s2] [Ep H]].
        apply plan_all_spec in Ep. destruct Ep as [Hti Hun].
        apply ti_eq in Hti. cbn [set_inprog set_tape s_inprog s_trace] in Hti, Hun.
        destruct Hti as [Et Ei].
        destruct unsat as [|x unsat].
        + apply walk_paths_spec in H. destruct H as [Hi Hp].
          rewrite Ei, Et in *. rewrite remove1_head in Hi.
          split; [exact Hi|]. intros Htop Hg. apply Hp; [exact Htop| |exact Hg].
          apply Hun; reflexivity.
        + inversion H; subst; clear H.
          cbn [leave set_inprog s_inprog s_trace]. rewrite Ei, Et, remove1_head.
          split; [reflexivity|]. intros _ Hg. apply good_post; exact Hg.
    Qed.
  End Rec.

  Theorem reach_spec fuel : forall target s s' r,
    reach u behave g redefine fuel target s = Ok (s', r) ->
    s_inprog s' = s_inprog s /\
    (In top (target :: s_inprog s) -> good (s_trace s) -> post (s_trace s') (err_of r)).
  Proof.
    induction fuel as [|fuel IH]; intros target s s' r H.
    - rewrite reach_O in H. discriminate.
    - rewrite reach_S in H. eapply reach_body_spec; [|exact H].
      intros v s0 s0' r0 H0. apply IH; exact H0.
  Qed.
End Inv.

(* ================= the monitor on such traces ================= *)
Lemma c04_events_clean target tr o : clean tr -> c04_events target tr o = true.
Proof.
  induction 1 as [|e tr He Htr IH]; cbn [c04_events]; [reflexivity|].
  rewrite He. exact IH.
Qed.

Lemma c04_events_last target tr0 ev x o :
  clean tr0 -> exec_err ev = Some x -> co_err o = Some x ->
  c04_events target (tr0 ++ [ev]) o = true.
Proof.
  intros Hc He Ho. induction Hc as [|e tr He' Htr IH]; cbn [c04_events app].
  - rewrite He, Ho. apply Base.eqb_refl.
  - rewrite He'. exact IH.
Qed.

Lemma clean_no_failing tr :
  clean tr ->
  existsb (fun e => match exec_err e with Some _ => true | None => false end) tr = false.
Proof.
  induction 1 as [|e tr He Htr IH]; cbn [existsb]; [reflexivity|].
  rewrite He. exact IH.
Qed.

Lemma c04_ok_clean f o :
  clean (co_events o) -> c04_ok f o = true.
Proof.
  intros Hc. unfold c04_ok. rewrite c04_events_clean by exact Hc.
  rewrite clean_no_failing by exact Hc. destruct (co_ok o), (co_panic o); reflexivity.
Qed.

Lemma c04_ok_last f o tr0 ev x :
  co_events o = tr0 ++ [ev] -> clean tr0 -> exec_err ev = Some x ->
  co_err o = Some x -> co_ok o = false -> c04_ok f o = true.
Proof.
  intros E Hc He Ho Hk. unfold c04_ok. rewrite E, Hk.
  rewrite (@c04_events_last (fn_id f) tr0 ev x o Hc He Ho). destruct (co_panic o); reflexivity.
Qed.

(* ================= the two clauses for one call ================= *)
Definition target_id_typed (f : fdecl) (cs : list fdecl) : bool :=
  forallb (fun c => if fn_id c =? fn_id f then fn_type c =? fn_type f else true) cs.

Lemma no_target_exec f b (g : rgraph) tr :
  pay_inv (known_pay f b) g ->
  target_id_typed f (b_convs b ++ gen_funcs (b_gens b)) = true ->
  Forall (ok_ev g (KFunc (fn_type f))) tr ->
  existsb (is_exec_of (fn_id f)) tr = false.
Proof.
  intros Hp Hty Hok.
  destruct (existsb (is_exec_of (fn_id f)) tr) eqn:E; [exfalso|reflexivity].
  apply existsb_exists in E. destruct E as [e [Hin He]].
  rewrite Forall_forall in Hok. specialize (Hok e Hin).
  destruct e as [fid args outs err|]; [|discriminate].
  cbn [is_exec_of] in He. apply Z.eqb_eq in He. subst fid.
  destruct Hok as [v [f' [Hne [Hv Hid]]]].
  apply Hp in Hv. destruct Hv as [-> [->|Hc]]; [apply Hne; reflexivity|].
  unfold target_id_typed in Hty. rewrite forallb_forall in Hty.
  specialize (Hty f' Hc). rewrite Hid, Z.eqb_refl in Hty. apply Z.eqb_eq in Hty.
  apply Hne. rewrite Hty. reflexivity.
Qed.

(* everything about one call, in terms of the trace *)
Lemma call_inv u bh f d opts w t r :
  call u bh f d opts w t = Ok r ->
  c04_ok f (co_of_run r) = true /\
  (forall b, build_args d opts = Some b ->
             target_id_typed f (b_convs b ++ gen_funcs (b_gens b)) = true ->
             match run_out r with
             | OErr _ => existsb (is_exec_of (fn_id f)) (run_trace r) = false
             | OOk _ => True
             end).
Proof.
  unfold call. intros H.
  destruct (build_args d opts) as [b|] eqn:Eb.
  2:{ inversion H; subst; clear H. split; [reflexivity|]. intros b Hb. discriminate. }
  apply bind_ok in H. destruct H as [[cgr tr0] [Ecg H]].
  apply call_graph_spec in Ecg. destruct Ecg as [Hgen Hcg].
  destruct cgr as [cg|e].
  2:{ inversion H; subst; clear H.
      pose proof (@gen_good g_empty KRoot tr0 Hgen) as [_ Hcl].
      split.
      - apply c04_ok_clean.
        destruct e; exact Hcl.
      - intros b' Hb' _. cbn [run_out run_trace].
        destruct (existsb (is_exec_of (fn_id f)) tr0) eqn:E; [exfalso|reflexivity].
        apply existsb_exists in E. destruct E as [ev [Hin Hev]].
        rewrite Forall_forall in Hgen. specialize (Hgen ev Hin).
        destruct ev; [exact Hgen|discriminate]. }
  destruct Hcg as [Hpay [Htgt Htr]].
  apply bind_ok in H. destruct H as [[s r0] [Er H]].
  apply (@reach_spec u bh (cg_g cg) false (KFunc (fn_type f))) in Er.
  destruct Er as [_ Hpost].
  assert (Hpost' : post (cg_g cg) (KFunc (fn_type f)) (s_trace s) (err_of r0)).
  { apply Hpost.
    - left. exact Htgt.
    - cbn [init_state s_trace]. rewrite Htr. apply gen_good; exact Hgen. }
  clear Hpost.
  destruct r0 as [am|e].
  - apply post_none_good in Hpost'. destruct Hpost' as [Hok Hcl].
    apply bind_ok in H. destruct H as [[res s1] [Ec H]].
    inversion H; subst; clear H.
    apply call_direct_spec in Ec. destruct Ec as [_ Htr1].
    split.
    + destruct Htr1 as [E|[Ebe [argv [outs E]]]].
      * apply c04_ok_clean.
        unfold co_of_run; cbn [run_out run_trace].
        destruct (r_builderr res); cbn [co_events]; rewrite E; exact Hcl.
      * unfold co_of_run; cbn [run_out run_trace]. rewrite Ebe.
        destruct (r_err res) as [x|] eqn:Ex.
        -- eapply c04_ok_last; cbn [co_events co_err co_ok]; [exact E|exact Hcl|reflexivity|reflexivity|reflexivity].
        -- apply c04_ok_clean. cbn [co_events]. rewrite E.
           apply Forall_app. split; [exact Hcl|]. constructor; [reflexivity|constructor].
    + intros b' Hb' Hty. inversion Hb'; subst b'. cbn [run_out run_trace].
      destruct (r_builderr res) eqn:Ebe; [|exact I].
      destruct Htr1 as [E|[Ebe' _]]; [|congruence].
      rewrite E. eapply no_target_exec; eassumption.
  - inversion H; subst; clear H. destruct Hpost' as [Hok Hpe].
    split.
    + destruct Hpe as [Hcl|[tr0' [ev [x [E [Hcl [Hev Hx]]]]]]].
      * apply c04_ok_clean.
        unfold co_of_run; cbn [run_out run_trace]. destruct e; exact Hcl.
      * cbn [err_of] in Hx. inversion Hx; subst e.
        eapply c04_ok_last; unfold co_of_run; cbn [run_out run_trace co_events co_err co_ok];
          [exact E|exact Hcl|exact Hev|reflexivity|reflexivity].
    + intros b' Hb' Hty. inversion Hb'; subst b'. cbn [run_out run_trace].
      eapply no_target_exec; eassumption.
Qed.

(* ================= counterexample to the statement as written ================= *)
Module Cex.
  Local Open Scope string_scope.
  Definition cx_u := mkU [] [].
  (* the target: id 1, Go type 10, one typed parameter of type 5 *)
  Definition cx_f := mkFn 1 10 FPos [mkF "" 5 ""] FPos [] false false.
  (* a converter with the SAME id 1 but Go type 20: () -> (5, error) *)
  Definition cx_c := mkFn 1 20 FPos [] FPos [mkF "" 5 ""] true false.
  Definition cx_opts := [AConvFunc [Some cx_c]].
  Definition cx_bh : behaviour := fun _ _ => BErr 7.
  Definition cx_tape : tape vkey :=
    [(10%N,[KArg 5 ""]); (1%N,[KRoot]); (1%N,[KFunc 20]); (1%N,[KOut 5 ""]);
     (1%N,[KArg 5 ""]); (1%N,[KFunc 10]); (10%N,[KRoot])].
  Definition cx_run : run :=
    mkRun (OErr (XConv 7)) [EExec 1 [] [mkV 0 5] (Some 7)] (mkW [] 1) [] [KFunc 20].

  Example cx_call : call cx_u cx_bh cx_f [] cx_opts world0 cx_tape = Ok cx_run.
  Proof. vm_compute. reflexivity. Qed.

  (* the resolution failed, an execution with the target's id is in the
     trace, and no converter has the target's Go type *)
  Example cx_violates :
    existsb (is_exec_of (fn_id cx_f)) (run_trace cx_run) = true /\
    existsb (fun c => (fn_type c =? fn_type cx_f)%Z)
            (match build_args [] cx_opts with Some b => b_convs b ++ gen_funcs (b_gens b) | None => [] end) = false.
  Proof. vm_compute. split; reflexivity. Qed.
End Cex.

Example C04_counterexample : ~ C04_statement.
Proof.
  intros H.
  destruct (H _ _ _ _ _ _ _ _ Cex.cx_call) as [_ [A|A]]; vm_compute in A; discriminate.
Qed.

(* ================= what is true ================= *)
(* clause 1 holds of every call, without any hypothesis *)
Definition C04_errors_statement : Prop :=
  forall u bh f d opts w t r,
    call u bh f d opts w t = Ok r -> c04_ok f (co_of_run r) = true.

Theorem C04_errors_proof : C04_errors_statement.
Proof. intros u bh f d opts w t r H. apply (call_inv _ _ _ _ _ _ _ H). Qed.

(* ADDED HYPOTHESIS: a converter (supplied or generated) with the target's
   id has the target's Go function type.  CHANGED CLAUSE: the exception of
   the second clause is dropped -- a resolution failure never ran the target. *)
Definition C04_alt_statement : Prop :=
  forall u bh f d opts w t r,
    (forall b, build_args d opts = Some b ->
               target_id_typed f (b_convs b ++ gen_funcs (b_gens b)) = true) ->
    call u bh f d opts w t = Ok r ->
    c04_ok f (co_of_run r) = true /\
    (match run_out r with
     | OErr _ => existsb (is_exec_of (fn_id f)) (run_trace r) = false
     | OOk _ => True end).

Theorem C04_alt_proof : C04_alt_statement.
Proof.
  intros u bh f d opts w t r Hty H.
  destruct (call_inv _ _ _ _ _ _ _ H) as [H1 H2]. split; [exact H1|].
  destruct (build_args d opts) as [b|] eqn:Eb.
  - apply (H2 b eq_refl). apply Hty; reflexivity.
  - unfold call in H. rewrite Eb in H. inversion H; subst. reflexivity.
Qed.

(* the conclusion of the original statement, verbatim, under the added hypothesis *)
Theorem C04_alt_original_shape :
  forall u bh f d opts w t r,
    (forall b, build_args d opts = Some b ->
               target_id_typed f (b_convs b ++ gen_funcs (b_gens b)) = true) ->
    call u bh f d opts w t = Ok r ->
    c04_ok f (co_of_run r) = true /\
    (match run_out r with OErr _ => existsb (is_exec_of (fn_id f)) (run_trace r) = false \/
                                    existsb (fun c => fn_type c =? fn_type f) (match build_args d opts with Some b => b_convs b ++ gen_funcs (b_gens b) | None => [] end) = true
                      | OOk _ => True end).
Proof.
  intros u bh f d opts w t r Hty H.
  destruct (C04_alt_proof u bh f d opts w t Hty H) as [H1 H2]. split; [exact H1|].
  destruct (run_out r); [exact I|left; exact H2].
Qed.

(* well-formed use (the domain of the other statements) implies the added hypothesis *)
Lemma wf_call_target_id_typed u f b :
  wf_call u f b = true -> target_id_typed f (b_convs b ++ gen_funcs (b_gens b)) = true.
Proof.
  unfold wf_call, wf_funcs, known_funcs. intros H.
  repeat (apply andb_true_iff in H; destruct H as [H ?]).
  match goal with X : forallb (fun f0 => forallb (fun g0 => if fn_id f0 =? fn_id g0 then _ else true) _) _ = true |- _ =>
    rename X into Hid end.
  cbn [forallb] in Hid. apply andb_true_iff in Hid. destruct Hid as [Hid _].
  apply andb_true_iff in Hid. destruct Hid as [_ Hid].
  unfold target_id_typed. rewrite forallb_forall in *. intros c Hc. specialize (Hid c Hc).
  rewrite (Z.eqb_sym (fn_id c)), (Z.eqb_sym (fn_type c)).
  destruct (fn_id f =? fn_id c); [|reflexivity].
  apply andb_true_iff in Hid. destruct Hid as [Hid _]. exact Hid.
Qed.

Definition C04_wf_statement : Prop :=
  forall u bh f d opts w t r,
    (forall b, build_args d opts = Some b -> wf_call u f b = true) ->
    call u bh f d opts w t = Ok r ->
    c04_ok f (co_of_run r) = true /\
    (match run_out r with
     | OErr _ => existsb (is_exec_of (fn_id f)) (run_trace r) = false
     | OOk _ => True end).

Theorem C04_wf_proof : C04_wf_statement.
Proof.
  intros u bh f d opts w t r Hwf H. apply (C04_alt_proof u bh f d opts w t); [|exact H].
  intros b Hb. eapply wf_call_target_id_typed. apply Hwf; exact Hb.
Qed.

Print Assumptions C04_counterexample.
Print Assumptions C04_errors_proof.
Print Assumptions C04_wf_proof.
Print Assumptions C04_alt_original_shape.
Print Assumptions C04_alt_proof.

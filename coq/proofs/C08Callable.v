(* C08Callable.v -- C08, second half: the function returned by Redefine is
   callable ([C08_callable_statement], ResolverStatements3.v).

   RESULT.  The statement holds of the model as written; it is proved here
   in full, for every order tape of either operation, every behaviour of the
   user functions and every choice of the supplied values.

   Structure of the proof.
   (A) C08CallableReach / C08CallablePlan: a successful run of [reach] in
       redefining mode proves that every requirement of the target is
       AND-OR derivable from the recorded inputs (callState.InputSet) over
       the edges of the pruned call graph that do not point to the root.
   (B) C08CallableOps / Mono / Grow: the call graph as a list of primitive
       operations, generators included; the graph of the later Call (same
       converters and generators, more supplied values) contains every
       vertex and every edge not pointing to the root of the Redefine graph.
   (C) C08CallableArgs / Origin: the builder of [redefined_opts opts ivs] is
       the builder of [opts] plus one supplied value per declared input;
       each recorded input that was not already provided is supplied exactly
       (names are lower case and, on the domain, denote one type).
   (D) C08CallableDerive: hence [target_derivable] holds of the full graph
       of the Call.
   (E) C08CallableC05: the completeness theorem C05 (mode (a): single-input
       converters, cycles allowed) -- restated with [wf_funcs] in place of
       [wf_call], because the values given to a redefined function are
       arbitrary (any serial, possibly an interface type) -- gives: the call
       succeeds or reports a converter's error, or the tape does not fit. *)
From ArgMapper Require Import Base Graph GraphAlg GraphSpec Types Args Resolver ResolverSpec
     CheckResolver Monitors Monitors2 ResolverStatements ResolverStatements2 ResolverStatements3.
From ArgMapper.proofs Require Import C0213UnsatGraph C0213UnsatBuild C05CompleteDefs
     C08CallableArgs C08CallableDerive C08CallableC05.
From Coq Require Import List Lia ZArith Bool.
Import ListNotations.
Local Open Scope Z_scope.

(* the implements relation is transitive: Prop form -> boolean form *)
Lemma univ_trans_of u :
  (forall a b c, implements u a b = true -> implements u b c = true -> implements u a c = true) ->
  univ_trans u = true.
Proof.
  intros Tr. unfold univ_trans. apply forallb_forall. intros [a b0] Iab. apply forallb_forall. intros [b1 c] Ibc.
  cbn [fst snd].
  destruct ((b0 =? b1) && is_iface u b0 && is_iface u c) eqn:C; [|reflexivity].
  apply andb_true_iff in C. destruct C as [C Ic]. apply andb_true_iff in C. destruct C as [E Ib].
  apply Z.eqb_eq in E. subst b1.
  assert (H1 : implements u a b0 = true).
  { unfold implements. rewrite Ib. simpl. apply membT. exact Iab. }
  assert (H2 : implements u b0 c = true).
  { unfold implements. rewrite Ic. simpl. apply membT. exact Ibc. }
  pose proof (Tr _ _ _ H1 H2) as H3. unfold implements in H3.
  apply andb_true_iff in H3. apply H3.
Qed.

(* full_graph never panics; its error result is a generator's error *)
Lemma full_graph_cases u f b rd t :
  (exists fg tr, full_graph u f b rd t = Ok (inl fg, tr)) \/
  (exists z tr, full_graph u f b rd t = Ok (inr (XGen z), tr)) \/
  (exists s, full_graph u f b rd t = TapeErr s).
Proof.
  unfold full_graph.
  match goal with |- context [bind ?m _] => destruct m as [[ks t']| | |] eqn:TP end; cbn [bind].
  - match goal with |- context [run_gens ?a ?b0 ?c ?d ?e0] => destruct (run_gens a b0 c d e0) as [[[g4 convs] trg] gerr] end.
    destruct gerr as [z|]; [right; left; eauto|left; eauto].
  - exfalso. destruct (b_gens b); [discriminate TP|].
    unfold take_perm in TP. destruct (take_site _ _) as [[ks0 t0]|]; destruct (g_vertex_keys _);
      try discriminate TP. destruct (permb _ _); discriminate TP.
  - right. right. eauto.
  - exfalso. destruct (b_gens b); [discriminate TP|].
    unfold take_perm in TP. destruct (take_site _ _) as [[ks0 t0]|]; destruct (g_vertex_keys _);
      try discriminate TP. destruct (permb _ _); discriminate TP.
Qed.

Lemma domain_single u f b :
  c08_domain u f b = true ->
  forall c, In c (b_convs b ++ gen_funcs (b_gens b)) -> Nat.leb (List.length (fn_in c)) 1 = true.
Proof.
  unfold c08_domain. intros D. cbv zeta in D.
  apply andb_true_iff in D. destruct D as [D _].
  apply andb_true_iff in D. destruct D as [D _].
  apply andb_true_iff in D. destruct D as [D _].
  rewrite forallb_forall in D. exact D.
Qed.

Theorem C08_callable_proof : C08_callable_statement.
Proof.
  intros u bh f d opts b t ins r ivs t' HB WF Dom RD IV Small Trans.
  destruct (@redefine_derivable u f d opts b t HB WF Dom ins r ivs RD IV) as (b2 & HB2 & SR & TDer).
  destruct (full_graph_cases u f b2 false t') as [(fg2 & tr2 & FG2)|[(z & tr2 & FG2)|(s & FG2)]].
  - (* the call graph is built *)
    pose proof (Small b2 fg2 tr2 HB2 FG2) as Sm.
    pose proof (TDer t' fg2 tr2 FG2 Sm) as TD.
    assert (WFK2 : wf_funcs (known_funcs f b2) = true).
    { rewrite (known_funcs_same f SR). apply (WFk u f b WF). }
    assert (SM : small_graph fg2 = true) by (unfold small_graph; apply Z.ltb_lt; exact Sm).
    assert (SI : single_input_convs fg2 = true).
    { unfold single_input_convs. apply forallb_forall. intros c Ic.
      apply (domain_single u f b Dom).
      destruct (C0213UnsatBuild.full_graph_spec _ _ _ _ FG2) as (_ & _ & _ & _ & Bc2 & _).
      apply Bc2 in Ic. destruct SR as (_ & _ & Ec & Eg & _). rewrite Ec, Eg in Ic. exact Ic. }
    destruct (@C05_single_w u bh f d (redefined_opts opts ivs) b2 t' fg2 tr2 HB2 WFK2 FG2 TD (univ_trans_of u Trans) SM SI)
      as [(r' & Q & OK)|(s & Q)]; [left|right; exists s; exact Q].
    exists r'. split; [exact Q|].
    unfold c05_ok in OK.
    assert (Pr : c05_premise fg2 [] = true).
    { unfold c05_premise. rewrite TD, SI. reflexivity. }
    rewrite Pr in OK. unfold not_missing_argument. unfold co_of_run in OK.
    destruct (run_out r') as [res|e]; [exact I|].
    destruct e; try exact I; cbn in OK; discriminate OK.
  - (* a generator failed *)
    left. unfold call. rewrite HB2. unfold call_graph. rewrite FG2. cbn [bind].
    eexists. split; [reflexivity|]. exact I.
  - right. exists s. unfold call. rewrite HB2. unfold call_graph. rewrite FG2. reflexivity.
Qed.

Print Assumptions C08_callable_proof.

(* C06TotalGraph.v -- the call graph built by [call_graph] satisfies the
   invariant [GOK] of C06TotalSpec: construction steps preserve the edge
   discipline, pruning keeps exactly what the root reaches. *)
From ArgMapper Require Import Base Graph GraphAlg GraphSpec GraphStatements Types Args GenWeights Resolver
     ResolverSpec.
From ArgMapper.proofs Require Import C18DijkstraLemmas C18Dijkstra C19RefineMap C19RefineGraph
     C06TotalDijkstra C06TotalBase C06TotalSpec.
From Coq Require Import Lia ZArith List.
Import ListNotations.
Set Implicit Arguments.
Local Open Scope Z_scope.
Local Open Scope list_scope.

Lemma fold_left_inv {S T} (P : S -> Prop) (f : S -> T -> S) (l : list T) :
  (forall a x, In x l -> P a -> P (f a x)) -> forall a, P a -> P (fold_left f l a).
Proof.
  induction l as [|x l IH]; intros Hs a Pa; simpl; [exact Pa|].
  apply IH; [intros a' x' Hx; apply Hs; right; exact Hx|]. apply Hs; [left; reflexivity|exact Pa].
Qed.

(* ---------- vertices and edges under the two elementary mutators ---------- *)
Lemma vertex_add_v (g : rgraph) k x : wf_graph g -> (vertex (add_v g k) x <-> vertex g x \/ x = k).
Proof.
  intros WF. destruct (add_v_spec k WF) as (_ & Vs & _). rewrite !vertex_Vx, Vs.
  destruct (Vx g k) eqn:Qk.
  - split; [auto|]. intros [A| ->]; [exact A|congruence].
  - destruct (Base.eqb_spec x k) as [->|Ne].
    + split; [auto|]. intros _; discriminate.
    + split; [auto|]. intros [A|A]; [exact A|contradiction].
Qed.

Lemma vertex_add_e (g : rgraph) a b w x : wf_graph g -> (vertex (add_e g a b w) x <-> vertex g x).
Proof. intros WF. destruct (add_e_spec a b w WF) as (_ & Hs & _). unfold vertex. rewrite Hs. tauto. Qed.

Lemma Eg_add_v (g : rgraph) k x y : wf_graph g -> Eg (add_v g k) x y = Eg g x y.
Proof. intros WF. destruct (add_v_spec k WF) as (_ & _ & Es). apply Es. Qed.

Lemma Eg_add_e_new (g : rgraph) a b w :
  wf_graph g -> vertex g a -> vertex g b -> Eg (add_e g a b w) a b = Some w.
Proof.
  intros WF Va Vb. destruct (add_e_spec a b w WF) as (_ & _ & Es). rewrite Es.
  apply vertex_Vx in Va. apply vertex_Vx in Vb.
  destruct (Vx g a); [|contradiction]. destruct (Vx g b); [|contradiction].
  rewrite !Base.eqb_refl. reflexivity.
Qed.

Lemma Eg_add_e_keep (g : rgraph) a b w x y w0 :
  wf_graph g -> Eg g x y = Some w0 -> (x = a -> y = b -> w = w0) -> Eg (add_e g a b w) x y = Some w0.
Proof.
  intros WF Q Hw. destruct (add_e_spec a b w WF) as (_ & _ & Es). rewrite Es.
  destruct (Vx g a); [|exact Q]. destruct (Vx g b); [|exact Q].
  destruct (Base.eqb_spec x a) as [->|N1]; [|exact Q].
  destruct (Base.eqb_spec y b) as [->|N2]; [|exact Q].
  simpl. rewrite Hw; auto.
Qed.

Lemma field_key_kind fld : is_fn (field_key fld) = false /\ field_key fld <> KRoot /\
                           (is_val (field_key fld) = true \/ is_arg (field_key fld) = true).
Proof. unfold field_key. destruct (String.eqb (f_name fld) ""); simpl; repeat split; auto; discriminate. Qed.

Lemma field_out_key_kind fld : is_fn (field_out_key fld) = false /\
                               (is_val (field_out_key fld) = true \/ is_out (field_out_key fld) = true).
Proof. unfold field_out_key. destruct (String.eqb (f_name fld) ""); simpl; split; auto. Qed.

Lemma last_named_in n : forall l i acc j fld,
  last_named n l i acc = Some (j, fld) -> acc = Some (j, fld) \/ In fld l.
Proof.
  induction l as [|f l IH]; intros i acc j fld; simpl; [auto|].
  intros Q. apply IH in Q. destruct Q as [Q|Q]; [|right; right; exact Q].
  destruct (negb (String.eqb (f_name f) "") && String.eqb (f_name f) n); [|left; exact Q].
  inversion Q; subst. right; left; reflexivity.
Qed.

Lemma last_typed_in t : forall l i acc j fld,
  last_typed t l i acc = Some (j, fld) -> acc = Some (j, fld) \/ In fld l.
Proof.
  induction l as [|f l IH]; intros i acc j fld; simpl; [auto|].
  intros Q. apply IH in Q. destruct Q as [Q|Q]; [|right; right; exact Q].
  destruct (String.eqb (f_name f) "" && (f_ty f =? t)); [|left; exact Q].
  inversion Q; subst. right; left; reflexivity.
Qed.

Lemma named_entries_in fs fld : In fld (named_entries fs) -> In fld fs.
Proof.
  unfold named_entries. intros A. apply in_flat_map in A. destruct A as (f & If & A).
  destruct (String.eqb (f_name f) ""); [destruct A|].
  destruct (last_named (f_name f) fs 0 None) as [[j g]|] eqn:Q; [|destruct A].
  destruct A as [<-|[]]. apply last_named_in in Q. destruct Q as [Q|Q]; [discriminate|exact Q].
Qed.

Lemma typed_entries_in fs fld : In fld (typed_entries fs) -> In fld fs.
Proof.
  unfold typed_entries. intros A. apply in_flat_map in A. destruct A as (f & If & A).
  destruct (String.eqb (f_name f) ""); [|destruct A].
  destruct (last_typed (f_ty f) fs 0 None) as [[j g]|] eqn:Q; [|destruct A].
  destruct A as [<-|[]]. apply last_typed_in in Q. destruct Q as [Q|Q]; [discriminate|exact Q].
Qed.

Section Build.
  Variable u : universe.
  Variable F : list fdecl.
  Variable inkeys : list vkey.
  Variable rd : bool.
  Notation FOK := (FOK u F inkeys rd).
  Notation edge_ok := (edge_ok u F inkeys rd).

  Lemma FOK_add_v g k : FOK g -> is_fn k = false -> FOK (add_v g k).
  Proof.
    intros [W R P Fn Ed] Nk. destruct (add_v_spec k W) as (W' & Vs & Es).
    constructor.
    - exact W'.
    - apply vertex_add_v; auto.
    - intros x f. rewrite Vs. destruct (Vx g k) eqn:Q; [apply P|].
      destruct (Base.eqb_spec x k); [discriminate|apply P].
    - intros ft p. rewrite Vs. destruct (Vx g k); [apply Fn|].
      destruct (Base.eqb_spec (KFunc ft) k) as [<-|]; [discriminate Nk|apply Fn].
    - intros a b w. rewrite Es. apply Ed.
  Qed.

  Lemma FOK_add_e g a b w : FOK g -> (vertex g a -> vertex g b -> edge_ok a b w) -> FOK (add_e g a b w).
  Proof.
    intros [W R P Fn Ed] He. destruct (add_e_spec a b w W) as (W' & Hs & Es).
    constructor.
    - exact W'.
    - unfold vertex. rewrite Hs. exact R.
    - unfold Vx. rewrite Hs. exact P.
    - unfold Vx. rewrite Hs. exact Fn.
    - intros x y w0. rewrite Es. destruct (Vx g a) eqn:Qa; [|apply Ed]. destruct (Vx g b) eqn:Qb; [|apply Ed].
      destruct (Base.eqb_spec x a) as [->|N1]; [|apply Ed].
      destruct (Base.eqb_spec y b) as [->|N2]; [|apply Ed].
      simpl. intros Q; inversion Q; subst. apply He; apply vertex_Vx; congruence.
  Qed.

  Lemma FOK_add_func g f : FOK g -> In f F -> FOK (g_add g (KFunc (fn_type f)) (PFunc f)).
  Proof.
    intros [W R P Fn Ed] If. destruct (g_add_spec (KFunc (fn_type f)) (PFunc f) W) as (W' & Vs & Es).
    constructor.
    - exact W'.
    - apply vertex_Vx. rewrite Vs. apply vertex_Vx in R.
      destruct (Vx g (KFunc (fn_type f))); [exact R|]. simpl. exact R.
    - intros x f0. rewrite Vs. destruct (Vx g (KFunc (fn_type f))); [apply P|].
      destruct (Base.eqb_spec x (KFunc (fn_type f))) as [->|]; [|apply P].
      intros Q; inversion Q; subst. auto.
    - intros ft p. rewrite Vs. destruct (Vx g (KFunc (fn_type f))); [apply Fn|].
      destruct (Base.eqb_spec (KFunc ft) (KFunc (fn_type f))); [|apply Fn].
      intros Q; inversion Q; eauto.
    - intros a b w. rewrite Es. apply Ed.
  Qed.

  Lemma FOK_overwrite g k : FOK g -> is_fn k = false -> FOK (g_add_overwrite g k PNone).
  Proof.
    intros [W R P Fn Ed] Nk. destruct (g_overwrite_spec k PNone W) as (W' & Vs & Es).
    constructor.
    - exact W'.
    - apply vertex_Vx. rewrite Vs. apply vertex_Vx in R. destruct (Base.eqb KRoot k); [discriminate|exact R].
    - intros x f. rewrite Vs. destruct (Base.eqb_spec x k); [discriminate|apply P].
    - intros ft p. rewrite Vs. destruct (Base.eqb_spec (KFunc ft) k) as [<-|]; [discriminate Nk|apply Fn].
    - intros a b w. rewrite Es. apply Ed.
  Qed.

  Lemma wrange_normal : 1 <= w_normal <= 20. Proof. unfold w_normal; lia. Qed.
  Lemma wrange_typed : 1 <= w_typed <= 20. Proof. unfold w_typed; lia. Qed.
  Lemma wrange_other : 1 <= w_other_subtype <= 20. Proof. unfold w_other_subtype; lia. Qed.

  Lemma edge_ok_func_in ft fld w : 1 <= w <= 20 -> edge_ok (KFunc ft) (field_key fld) w.
  Proof.
    intros Rg. split; [exact Rg|]. unfold field_key. destruct (String.eqb (f_name fld) ""); exact I.
  Qed.

  Lemma edge_ok_out f fld w : In f F -> In fld (fn_out f) -> 1 <= w <= 20 ->
    edge_ok (field_out_key fld) (KFunc (fn_type f)) w.
  Proof.
    intros If Ifld Rg. split; [exact Rg|].
    assert (O : out_edge F (field_out_key fld) (fn_type f)) by (exists f, fld; auto).
    revert O. unfold field_out_key. destruct (String.eqb (f_name fld) ""); auto.
  Qed.

  (* ---------- Func.graph ---------- *)
  Lemma FOK_func_graph g f io : FOK g -> In f F -> FOK (func_graph g f io).
  Proof.
    intros H If. unfold func_graph.
    set (fk := KFunc (fn_type f)).
    assert (H1 : FOK (g_add g fk (PFunc f))) by (apply FOK_add_func; auto).
    assert (H2 : FOK (match fn_in f with [] => add_e (g_add g fk (PFunc f)) fk KRoot w_normal
                                   | _ => g_add g fk (PFunc f) end)).
    { destruct (fn_in f); [|exact H1]. apply FOK_add_e; auto. intros _ _.
      split; [apply wrange_normal|exact I]. }
    assert (H3 : FOK (fold_left (fun g fld =>
                        let k := field_key fld in
                        let g := add_v g k in
                        add_e g fk k (if String.eqb (f_name fld) EmptyString then w_typed else w_normal))
                     (fn_in f)
                     (match fn_in f with [] => add_e (g_add g fk (PFunc f)) fk KRoot w_normal
                                    | _ => g_add g fk (PFunc f) end))).
    { apply fold_left_inv; [|exact H2]. intros g0 fld _ H0. cbv zeta.
      apply FOK_add_e; [apply FOK_add_v; [exact H0|apply field_key_kind]|].
      intros _ _. apply edge_ok_func_in.
      destruct (String.eqb (f_name fld) EmptyString); [apply wrange_typed|apply wrange_normal]. }
    destruct io; [|exact H3].
    apply fold_left_inv.
    - intros g0 fld A H0. cbv zeta.
      apply FOK_add_e; [apply FOK_add_v; [exact H0|apply field_out_key_kind]|].
      intros _ _. apply edge_ok_out; auto; [apply typed_entries_in; exact A|apply wrange_typed].
    - apply fold_left_inv; [|exact H3].
      intros g0 fld A H0. cbv zeta.
      apply FOK_add_e; [apply FOK_add_v; [exact H0|apply field_out_key_kind]|].
      intros _ _. apply edge_ok_out; auto; [apply named_entries_in; exact A|apply wrange_normal].
  Qed.

  (* ---------- generators ---------- *)
  Lemma FOK_run_gens g gens ks convs tr :
    FOK g -> (forall f, In f (gen_funcs gens) -> In f F) ->
    FOK (fst (fst (fst (run_gens g gens ks convs tr)))).
  Proof.
    intros H Hg. unfold run_gens.
    apply (@fold_left_inv _ _ (fun acc : rgraph * list fdecl * list event * option Z => FOK (fst (fst (fst acc))))).
    2:{ exact H. }
    intros [[[g0 c0] t0] e0] k _ H0. cbn [fst] in H0.
    destruct e0; [exact H0|]. destruct (value_of_vertex k); [|exact H0].
    assert (Sub : forall gl, (forall gn, In gn gl -> In gn gens) ->
              forall acc : rgraph * list fdecl * list event * option Z, FOK (fst (fst (fst acc))) ->
              FOK (fst (fst (fst (fold_left (fun acc gn =>
                let '(g, convs, tr, err) := acc in
                match err with
                | Some _ => acc
                | None =>
                    let tr := tr ++ [EGen (gen_id gn) k] in
                    match lookup k (gen_table gn) with
                    | Some (GErr e) => (g, convs, tr, Some e)
                    | Some (GFunc f) => (func_graph g f true, convs ++ [f], tr, None)
                    | _ => (g, convs, tr, None)
                    end
                end) gl acc))))).
    { induction gl as [|gn gl IH]; intros Hgl acc Ha; simpl; [exact Ha|].
      apply IH; [intros gn' A; apply Hgl; right; exact A|].
      destruct acc as [[[g1 c1] t1] e1]. cbn [fst] in Ha.
      destruct e1; [exact Ha|].
      destruct (lookup k (gen_table gn)) as [[|e|f]|] eqn:Q; try exact Ha.
      change (FOK (func_graph g1 f true)).
      apply FOK_func_graph; [exact Ha|]. apply Hg. unfold gen_funcs.
      apply in_flat_map. exists gn. split; [apply Hgl; left; reflexivity|].
      apply in_flat_map. exists (k, GFunc f). split; [apply lookup_In; exact Q|left; reflexivity]. }
    apply Sub; auto.
  Qed.

  (* ---------- the linking steps ---------- *)
  Lemma FOK_step_values g : FOK g -> FOK (step_values g).
  Proof.
    intros H. unfold step_values. apply fold_left_inv; [|exact H].
    intros g0 k _ H0. destruct k as [|ft|n t s|t s|t s]; try exact H0.
    assert (H1 : FOK (add_e (add_v g0 (KOut t EmptyString)) (KVal n t s) (KOut t EmptyString) w_typed)).
    { apply FOK_add_e; [apply FOK_add_v; auto|]. intros _ _. split; [apply wrange_typed|reflexivity]. }
    assert (H2 : FOK (add_e (add_v (add_e (add_v g0 (KOut t EmptyString)) (KVal n t s) (KOut t EmptyString) w_typed)
                                   (KArg t EmptyString)) (KArg t EmptyString) (KVal n t s) w_typed)).
    { apply FOK_add_e; [apply FOK_add_v; auto|]. intros _ _. split; [apply wrange_typed|].
      simpl. auto. }
    cbv zeta. destruct (String.eqb s EmptyString); [exact H2|].
    apply FOK_add_e; [apply FOK_add_v; auto|]. intros _ _. split; [apply wrange_typed|]. simpl. auto.
  Qed.

  Lemma FOK_step_args g : FOK g -> FOK (step_args g).
  Proof.
    intros H. unfold step_args. apply fold_left_inv; [|exact H].
    intros g0 k _ H0. destruct k as [|ft|n t s|t s|t s]; try exact H0.
    apply FOK_add_e; [apply FOK_add_v; auto|]. intros _ _. split; [apply wrange_typed|reflexivity].
  Qed.

  Lemma FOK_step_ifaces g : FOK g -> FOK (step_ifaces u g).
  Proof.
    intros H. unfold step_ifaces. apply fold_left_inv; [|exact H].
    intros g0 k _ H0. destruct k as [|ft|n t s|t s|t s]; try exact H0.
    destruct (is_iface u t); [|exact H0].
    apply fold_left_inv; [|exact H0].
    intros g1 k2 _ H1. destruct k2 as [|ft2|n2 t2 s2|t2 s2|t2 s2]; try exact H1.
    destruct (negb (Base.eqb (KOut t s) (KOut t2 s2)) && negb (t2 =? t) && implements u t2 t) eqn:C; [|exact H1].
    apply andb_true_iff in C. destruct C as [_ C].
    apply FOK_add_e; [exact H1|]. intros _ _. split; [apply wrange_typed|exact C].
  Qed.

  Lemma FOK_step_named_sub valued g : FOK g -> FOK (step_named_sub valued g).
  Proof.
    intros H. unfold step_named_sub. apply fold_left_inv; [|exact H].
    intros g0 k _ H0. destruct k as [|ft|n t s|t s|t s]; try exact H0.
    destruct (String.eqb s EmptyString && negb (valued (KVal n t s))) eqn:C; [|exact H0].
    apply andb_true_iff in C. destruct C as [C _]. apply String.eqb_eq in C. subst s.
    apply fold_left_inv; [|exact H0].
    intros g1 k2 _ H1. destruct k2 as [|ft2|n2 t2 s2|t2 s2|t2 s2]; try exact H1.
    destruct (String.eqb n2 n && (t2 =? t) && negb (String.eqb s2 EmptyString)) eqn:C2; [|exact H1].
    apply andb_true_iff in C2. destruct C2 as [C2 C3]. apply andb_true_iff in C2. destruct C2 as [C1 C2].
    apply String.eqb_eq in C1. apply Z.eqb_eq in C2. apply negb_true_iff in C3. apply String.eqb_neq in C3.
    subst. apply FOK_add_e; [exact H1|]. intros _ _. split; [apply wrange_typed|]. simpl. auto.
  Qed.

  Lemma FOK_step_arg_sub g : FOK g -> FOK (step_arg_sub g).
  Proof.
    intros H. unfold step_arg_sub. apply fold_left_inv; [|exact H].
    intros g0 k _ H0. destruct k as [|ft|n t s|t s|t s]; try exact H0.
    apply fold_left_inv; [|exact H0].
    intros g1 k2 _ H1. destruct k2 as [|ft2|n2 t2 s2|t2 s2|t2 s2]; try exact H1.
    match goal with |- context [if ?c then _ else _] => destruct c eqn:C end; [|exact H1].
    apply andb_true_iff in C. destruct C as [C _]. apply Z.eqb_eq in C. subst.
    apply FOK_add_e; [exact H1|]. intros _ _. split; [apply wrange_other|reflexivity].
  Qed.

  Lemma FOK_step_redefine fin g : rd = true -> FOK g -> FOK (step_redefine u fin g).
  Proof.
    intros Rd H. unfold step_redefine. apply fold_left_inv; [|exact H].
    intros g0 k _ H0.
    destruct k as [|ft|n t s|t s|t s]; try exact H0.
    - match goal with |- context [if ?c then _ else _] => destruct c end; [|exact H0].
      apply FOK_add_e; [exact H0|]. intros _ _. split; [apply wrange_normal|]. simpl. auto.
    - match goal with |- context [if ?c then _ else _] => destruct c end; [|exact H0].
      apply FOK_add_e; [exact H0|]. intros _ _. split; [apply wrange_normal|]. simpl. auto.
  Qed.
End Build.

(* ---------- extensions that keep the named-value links ---------- *)
Definition ext (g g' : rgraph) : Prop :=
  wf_graph g' /\
  (forall x, vertex g x -> vertex g' x) /\
  (forall x, is_val x = true -> vertex g' x -> vertex g x) /\
  (forall x y, is_val y = true -> Eg g x y = Some w_typed -> Eg g' x y = Some w_typed).

Lemma ext_refl g : wf_graph g -> ext g g.
Proof. intros W. split; [exact W|]. split; [auto|]. split; auto. Qed.

Lemma ext_trans g1 g2 g3 : ext g1 g2 -> ext g2 g3 -> ext g1 g3.
Proof.
  intros (W2 & A2 & B2 & C2) (W3 & A3 & B3 & C3). split; [exact W3|]. split; [auto|]. split; auto.
Qed.

Lemma ext_wf g g' : ext g g' -> wf_graph g'.
Proof. intros (W & _). exact W. Qed.

Lemma ext_add_v g k : wf_graph g -> is_val k = false -> ext g (add_v g k).
Proof.
  intros W Nk. destruct (add_v_spec k W) as (W' & _ & Es). split; [exact W'|]. split; [|split].
  - intros x A. apply vertex_add_v; auto.
  - intros x Vx A. apply vertex_add_v in A; auto. destruct A as [A| ->]; [exact A|congruence].
  - intros x y _ Q. rewrite Es. exact Q.
Qed.

Lemma ext_add_e g a b w : wf_graph g -> (is_val b = true -> w = w_typed) -> ext g (add_e g a b w).
Proof.
  intros W Hw. destruct (add_e_spec a b w W) as (W' & _ & _). split; [exact W'|]. split; [|split].
  - intros x A. apply vertex_add_e; auto.
  - intros x _ A. apply vertex_add_e in A; auto.
  - intros x y Vy Q. apply Eg_add_e_keep; auto. intros _ ->. auto.
Qed.

Lemma ext_step_v g g' k : ext g g' -> is_val k = false -> ext g (add_v g' k).
Proof. intros X Nk. eapply ext_trans; [exact X|]. apply ext_add_v; [apply (ext_wf X)|exact Nk]. Qed.

Lemma ext_step_e g g' a b w : ext g g' -> (is_val b = true -> w = w_typed) -> ext g (add_e g' a b w).
Proof. intros X Hw. eapply ext_trans; [exact X|]. apply ext_add_e; [apply (ext_wf X)|exact Hw]. Qed.

(* every named value is linked to the untyped-subtype argument of its type *)
Definition SHs (g : rgraph) : Prop :=
  forall n t s, vertex g (KVal n t s) ->
                vertex g (KArg t EmptyString) /\ Eg g (KArg t EmptyString) (KVal n t s) = Some w_typed.

Lemma SHs_ext g g' : SHs g -> ext g g' -> SHs g'.
Proof.
  intros S (W & A & B & C) n t s V'. apply B in V'; [|reflexivity].
  destruct (S _ _ _ V') as (Va & Qe). split; [apply A; exact Va|apply C; auto].
Qed.

Lemma ext_fold {T} (f : rgraph -> T -> rgraph) (l : list T) g :
  wf_graph g -> (forall g' x, In x l -> ext g g' -> ext g (f g' x)) -> ext g (fold_left f l g).
Proof.
  intros W Hs. apply (@fold_left_inv _ _ (fun g' => ext g g')); [|apply ext_refl; exact W].
  intros g' x A X. apply Hs; auto.
Qed.

Definition sv_body (g : rgraph) (k : vkey) : rgraph :=
  match k with
  | KVal n t s =>
      let g := add_e (add_v g (KOut t EmptyString)) k (KOut t EmptyString) w_typed in
      let g := add_e (add_v g (KArg t EmptyString)) (KArg t EmptyString) k w_typed in
      if String.eqb s EmptyString then g else add_e (add_v g (KArg t s)) (KArg t s) k w_typed
  | _ => g end.

Lemma sv_body_ext g g' k : ext g g' -> ext g (sv_body g' k).
Proof.
  intros X. destruct k as [|ft|n t s|t s|t s]; try exact X. unfold sv_body.
  assert (X2 : ext g (add_e (add_v (add_e (add_v g' (KOut t EmptyString)) (KVal n t s) (KOut t EmptyString) w_typed)
                                   (KArg t EmptyString)) (KArg t EmptyString) (KVal n t s) w_typed)).
  { apply ext_step_e; [|auto]. apply ext_step_v; [|reflexivity].
    apply ext_step_e; [|discriminate]. apply ext_step_v; [exact X|reflexivity]. }
  destruct (String.eqb s EmptyString); [exact X2|].
  apply ext_step_e; [|auto]. apply ext_step_v; [exact X2|reflexivity].
Qed.

Lemma sv_body_link g n t s :
  wf_graph g -> vertex g (KVal n t s) ->
  let g' := sv_body g (KVal n t s) in
  vertex g' (KArg t EmptyString) /\ Eg g' (KArg t EmptyString) (KVal n t s) = Some w_typed.
Proof.
  intros W Vk. unfold sv_body.
  set (g2 := add_e (add_v g (KOut t EmptyString)) (KVal n t s) (KOut t EmptyString) w_typed).
  assert (X2 : ext g g2).
  { apply ext_step_e; [|discriminate]. apply ext_step_v; [apply ext_refl; exact W|reflexivity]. }
  set (g3 := add_v g2 (KArg t EmptyString)).
  assert (X3 : ext g g3) by (apply ext_step_v; [exact X2|reflexivity]).
  set (g4 := add_e g3 (KArg t EmptyString) (KVal n t s) w_typed).
  assert (V3a : vertex g3 (KArg t EmptyString)) by (apply vertex_add_v; [apply (ext_wf X2)|right; reflexivity]).
  assert (V3k : vertex g3 (KVal n t s)) by (apply X3; exact Vk).
  assert (L4 : vertex g4 (KArg t EmptyString) /\ Eg g4 (KArg t EmptyString) (KVal n t s) = Some w_typed).
  { split; [apply vertex_add_e; [apply (ext_wf X3)|exact V3a]|].
    apply Eg_add_e_new; [apply (ext_wf X3)|exact V3a|exact V3k]. }
  cbv zeta. fold g2. fold g3. fold g4.
  destruct (String.eqb s EmptyString); [exact L4|].
  assert (X4 : ext g g4) by (apply ext_step_e; [exact X3|auto]).
  assert (X6 : ext g4 (add_e (add_v g4 (KArg t s)) (KArg t s) (KVal n t s) w_typed)).
  { apply ext_step_e; [|auto]. apply ext_step_v; [apply ext_refl; apply (ext_wf X4)|reflexivity]. }
  destruct L4 as [La Le]. destruct X6 as (_ & A6 & _ & C6). split; [apply A6; exact La|apply C6; auto].
Qed.

Lemma step_values_eq g : step_values g = fold_left sv_body (val_keys g) g.
Proof. reflexivity. Qed.

Lemma SHs_step_values g : wf_graph g -> ext g (step_values g) /\ SHs (step_values g).
Proof.
  intros W. rewrite step_values_eq.
  assert (Gn : forall l g',
    ext g g' ->
    (forall n t s, vertex g' (KVal n t s) ->
       In (KVal n t s) l \/
       (vertex g' (KArg t EmptyString) /\ Eg g' (KArg t EmptyString) (KVal n t s) = Some w_typed)) ->
    ext g (fold_left sv_body l g') /\ SHs (fold_left sv_body l g')).
  { induction l as [|k l IH]; intros g' X R; simpl.
    - split; [exact X|]. intros n t s V. destruct (R _ _ _ V) as [[]|A]; exact A.
    - assert (X' : ext g (sv_body g' k)) by (apply sv_body_ext; exact X).
      apply IH; [exact X'|].
      intros n t s V.
      assert (Xs : ext g' (sv_body g' k)) by (apply sv_body_ext; apply ext_refl; apply (ext_wf X)).
      destruct Xs as (_ & As & Bs & Cs).
      assert (V0 : vertex g' (KVal n t s)) by (apply Bs; [reflexivity|exact V]).
      destruct (R _ _ _ V0) as [[Ek|A]|(La & Le)]; [subst k| |].
      + right. apply sv_body_link; [apply (ext_wf X)|exact V0].
      + left; exact A.
      + right. split; [apply As; exact La|apply Cs; auto]. }
  apply Gn; [apply ext_refl; exact W|].
  intros n t s V. left. unfold val_keys. apply filter_In. split; [exact V|reflexivity].
Qed.

Lemma ext_step_args g : wf_graph g -> ext g (step_args g).
Proof.
  intros W. unfold step_args. apply ext_fold; [exact W|].
  intros g' k _ X. destruct k as [|ft|n t s|t s|t s]; try exact X.
  apply ext_step_e; [|discriminate]. apply ext_step_v; [exact X|reflexivity].
Qed.

Lemma ext_step_ifaces u g : wf_graph g -> ext g (step_ifaces u g).
Proof.
  intros W. unfold step_ifaces. apply ext_fold; [exact W|].
  intros g' k _ X. destruct k as [|ft|n t s|t s|t s]; try exact X.
  destruct (is_iface u t); [|exact X].
  apply (@fold_left_inv _ _ (fun g'' => ext g g'')); [|exact X].
  intros g1 k2 _ X1. destruct k2 as [|ft2|n2 t2 s2|t2 s2|t2 s2]; try exact X1.
  match goal with |- context [if ?c then _ else _] => destruct c end; [|exact X1].
  apply ext_step_e; [exact X1|discriminate].
Qed.

Lemma ext_step_named_sub valued g : wf_graph g -> ext g (step_named_sub valued g).
Proof.
  intros W. unfold step_named_sub. apply ext_fold; [exact W|].
  intros g' k _ X. destruct k as [|ft|n t s|t s|t s]; try exact X.
  match goal with |- context [if ?c then _ else _] => destruct c end; [|exact X].
  apply (@fold_left_inv _ _ (fun g'' => ext g g'')); [|exact X].
  intros g1 k2 _ X1. destruct k2 as [|ft2|n2 t2 s2|t2 s2|t2 s2]; try exact X1.
  match goal with |- context [if ?c then _ else _] => destruct c end; [|exact X1].
  apply ext_step_e; [exact X1|auto].
Qed.

Lemma ext_step_arg_sub g : wf_graph g -> ext g (step_arg_sub g).
Proof.
  intros W. unfold step_arg_sub. apply ext_fold; [exact W|].
  intros g' k _ X. destruct k as [|ft|n t s|t s|t s]; try exact X.
  apply (@fold_left_inv _ _ (fun g'' => ext g g'')); [|exact X].
  intros g1 k2 _ X1. destruct k2 as [|ft2|n2 t2 s2|t2 s2|t2 s2]; try exact X1.
  match goal with |- context [if ?c then _ else _] => destruct c end; [|exact X1].
  apply ext_step_e; [exact X1|discriminate].
Qed.

Lemma ext_step_redefine u fin g : wf_graph g -> ext g (step_redefine u fin g).
Proof.
  intros W. unfold step_redefine. apply ext_fold; [exact W|].
  intros g' k _ X. destruct k as [|ft|n t s|t s|t s]; try exact X.
  - match goal with |- context [if ?c then _ else _] => destruct c end; [|exact X].
    apply ext_step_e; [exact X|discriminate].
  - match goal with |- context [if ?c then _ else _] => destruct c end; [|exact X].
    apply ext_step_e; [exact X|discriminate].
Qed.

(* ---------- the closure that pruning keeps ---------- *)
Lemma dedup_In (l : list vkey) x : In x (dedup l) -> In x l.
Proof.
  induction l as [|y l IH]; simpl; [tauto|].
  destruct (memb y l); [auto|]. intros [A|A]; auto.
Qed.

Lemma vertex_reverse (g : rgraph) x : vertex (g_reverse g) x <-> vertex g x.
Proof. unfold vertex. simpl. tauto. Qed.

Section Closure.
  Variable g : rgraph.
  Hypothesis W : wf_graph g.
  Hypothesis Vr : vertex g KRoot.
  Variable stop : vkey.

  Definition Rch (S : list vkey) (x : vkey) : Prop :=
    exists p w, GraphSpec.walk (g_reverse g) KRoot x p w /\ forall y, In y p -> In y S.

  Lemma Rch_mono S S' x : (forall y, In y S -> In y S') -> Rch S x -> Rch S' x.
  Proof. intros Sub (p & w & Wk & Al). exists p, w. split; auto. Qed.

  Lemma closure_sound : forall fuel frontier seen,
    (forall x, In x frontier -> In x seen) -> (forall x, In x seen -> Rch seen x) ->
    (forall x, In x seen -> In x (closure fuel g stop frontier seen)) /\
    (forall x, In x (closure fuel g stop frontier seen) -> Rch (closure fuel g stop frontier seen) x).
  Proof.
    induction fuel as [|fuel IH]; intros frontier seen Fs Rs; cbn [closure]; [split; auto|].
    set (next := dedup (flat_map (fun a => if Base.eqb a stop then [] else g_in_keys g a) frontier)).
    destruct (filter (fun x => negb (memb x seen)) next) as [|v fresh'] eqn:Ef; [split; auto|].
    set (fresh := v :: fresh') in *.
    destruct (IH fresh (seen ++ fresh)) as (A & B).
    - intros x Ix. apply in_or_app; right; exact Ix.
    - intros x Ix. apply in_app_or in Ix. destruct Ix as [Ix|Ix].
      + apply Rch_mono with (S := seen); [intros y Iy; apply in_or_app; left; exact Iy|apply Rs; exact Ix].
      + pose proof Ix as Ix0. rewrite <- Ef in Ix. apply filter_In in Ix. destruct Ix as [Ix _].
        apply dedup_In in Ix. apply in_flat_map in Ix. destruct Ix as (a & Ia & Ix).
        destruct (Base.eqb a stop); [destruct Ix|].
        apply (in_keys_Eg _ _ W) in Ix. destruct Ix as (w & Qe).
        destruct (Rs a (Fs a Ia)) as (p & w0 & Wk & Al).
        destruct (g_reverse_spec W) as (_ & _ & Er).
        exists (p ++ [x]), (w0 + w). split.
        * apply walk_snoc with (b := a); auto.
          -- unfold edge. change (Eg (g_reverse g) a x = Some w). rewrite Er. exact Qe.
          -- apply vertex_reverse. apply (Eg_vertices _ _ W Qe).
        * intros y Iy. apply in_app_or in Iy. destruct Iy as [Iy|[<-|[]]].
          -- apply in_or_app; left; apply Al; exact Iy.
          -- apply in_or_app; right. exact Ix0.
    - split; [|exact B]. intros x Ix. apply A. apply in_or_app; left; exact Ix.
  Qed.
End Closure.

(* ---------- pruning ---------- *)
Lemma memb_app (l1 l2 : list vkey) x : memb x (l1 ++ l2) = memb x l1 || memb x l2.
Proof. induction l1 as [|y l1 IH]; simpl; [reflexivity|]. rewrite IH. apply orb_assoc. Qed.

Section Prune.
  Variable g : rgraph.
  Hypothesis W : wf_graph g.
  Variable keep : list vkey.

  Definition bad (done : list vkey) (x : vkey) : bool := memb x done && negb (memb x keep).
  Definition prune_step (g1 : rgraph) (k : vkey) : rgraph := if memb k keep then g1 else g_remove g1 k.

  Lemma prune_fold : forall l g1 done,
    wf_graph g1 ->
    (forall x, Vx g1 x = if bad done x then None else Vx g x) ->
    (forall a b, Eg g1 a b = if bad done a || bad done b then None else Eg g a b) ->
    let g' := fold_left prune_step l g1 in
    wf_graph g' /\
    (forall x, Vx g' x = if bad (done ++ l) x then None else Vx g x) /\
    (forall a b, Eg g' a b = if bad (done ++ l) a || bad (done ++ l) b then None else Eg g a b).
  Proof.
    induction l as [|k l IH]; intros g1 done W1 V1 E1; simpl.
    - rewrite app_nil_r. auto.
    - assert (Bs : forall x, bad (done ++ [k]) x = bad done x || (Base.eqb x k && negb (memb x keep))).
      { intros x. unfold bad. rewrite memb_app. cbn [memb]. rewrite orb_false_r.
        destruct (memb x done), (Base.eqb x k), (memb x keep); reflexivity. }
      replace (done ++ k :: l) with ((done ++ [k]) ++ l) by (rewrite <- app_assoc; reflexivity).
      destruct (memb k keep) eqn:Mk.
      + assert (Ps : prune_step g1 k = g1) by (unfold prune_step; rewrite Mk; reflexivity). rewrite Ps.
        apply IH; auto.
        * intros x. rewrite V1, Bs. destruct (Base.eqb_spec x k) as [->|Ne]; [rewrite Mk|]; simpl; rewrite orb_false_r; reflexivity.
        * intros a b. rewrite E1, !Bs.
          assert (Z : forall x, Base.eqb x k && negb (memb x keep) = false).
          { intros x. destruct (Base.eqb_spec x k) as [->|Ne]; [rewrite Mk|]; reflexivity. }
          rewrite !Z, !orb_false_r. reflexivity.
      + assert (Ps : prune_step g1 k = g_remove g1 k) by (unfold prune_step; rewrite Mk; reflexivity). rewrite Ps.
        destruct (g_remove_spec k W1) as (W2 & V2 & E2).
        apply IH; auto.
        * intros x. rewrite V2, V1, Bs. destruct (Base.eqb_spec x k) as [->|Ne].
          -- rewrite Mk. simpl. rewrite orb_true_r. reflexivity.
          -- simpl. rewrite orb_false_r. reflexivity.
        * intros a b. rewrite E2, E1, !Bs.
          destruct (Base.eqb_spec a k) as [->|Na]; destruct (Base.eqb_spec b k) as [->|Nb];
            rewrite ?Mk; simpl; rewrite ?orb_true_r, ?orb_false_r; try reflexivity;
            try (destruct (bad done a); reflexivity).
  Qed.

  Definition pruned : rgraph := fold_left prune_step (g_vertex_keys g) g.

  Lemma pruned_spec :
    wf_graph pruned /\
    (forall x, Vx pruned x = if memb x keep then Vx g x else None) /\
    (forall a b, Eg pruned a b = if memb a keep && memb b keep then Eg g a b else None).
  Proof.
    destruct (@prune_fold (g_vertex_keys g) g [] W) as (W' & V' & E').
    - intros x. reflexivity.
    - intros a b. reflexivity.
    - simpl in V', E'.
      assert (Bd : forall x, bad (g_vertex_keys g) x = true -> memb x keep = false).
      { intros x B. unfold bad in B. apply andb_true_iff in B. destruct B as [_ B].
        apply negb_true_iff in B. exact B. }
      assert (Nb : forall x, bad (g_vertex_keys g) x = false -> memb x keep = true \/ Vx g x = None).
      { intros x B. unfold bad in B. apply andb_false_iff in B. destruct B as [B|B].
        - right. apply memb_false in B. destruct (Vx g x) eqn:Q; [|reflexivity].
          exfalso. apply B. apply vertex_Vx. congruence.
        - left. apply negb_false_iff in B. exact B. }
      split; [exact W'|]. split.
      + intros x. fold pruned in V'. rewrite V'. destruct (bad (g_vertex_keys g) x) eqn:B.
        * rewrite (Bd _ B). reflexivity.
        * destruct (Nb _ B) as [K|N]; [rewrite K; reflexivity|]. rewrite N. destruct (memb x keep); reflexivity.
      + intros a b. fold pruned in E'. rewrite E'.
        assert (En : forall w, Eg g a b = Some w -> Vx g a <> None /\ Vx g b <> None).
        { intros w Q. destruct (Eg_vertices _ _ W Q) as [Va Vb]. split; apply vertex_Vx; auto. }
        destruct (bad (g_vertex_keys g) a) eqn:Ba; simpl.
        * rewrite (Bd _ Ba). reflexivity.
        * destruct (bad (g_vertex_keys g) b) eqn:Bb.
          -- rewrite (Bd _ Bb). rewrite andb_false_r. reflexivity.
          -- destruct (Nb _ Ba) as [Ka|Na], (Nb _ Bb) as [Kb|Nbb].
             ++ rewrite Ka, Kb. reflexivity.
             ++ destruct (Eg g a b) as [w|] eqn:Q; [destruct (En w eq_refl); contradiction|].
                destruct (memb a keep && memb b keep); reflexivity.
             ++ destruct (Eg g a b) as [w|] eqn:Q; [destruct (En w eq_refl); contradiction|].
                destruct (memb a keep && memb b keep); reflexivity.
             ++ destruct (Eg g a b) as [w|] eqn:Q; [destruct (En w eq_refl); contradiction|].
                destruct (memb a keep && memb b keep); reflexivity.
  Qed.
End Prune.

Lemma prune_eq fg :
  prune fg =
  let g' := pruned (fg_g fg) (closure (S (List.length (g_vertex_keys (fg_g fg)))) (fg_g fg) (fg_target fg) [KRoot] [KRoot]) in
  match filter (fun k => negb (mem k (ghash g'))) (fg_freq fg) with
  | [] => inl (mkCG g' (fg_vals fg) (fg_target fg) (fg_inputs fg) (fg_convs fg) (fg_trace fg) (fg_tape fg))
  | unsat => inr (XUnsat unsat (fg_inputs fg) (map fn_type (fg_convs fg)) true)
  end.
Proof. unfold prune, pruned, prune_step. cbv zeta. destruct (filter _ (fg_freq fg)); reflexivity. Qed.

Lemma walk_transfer (G1 G2 : rgraph) (S : list vkey) :
  (forall a, In a S -> vertex G1 a -> vertex G2 a) ->
  (forall a b w, In a S -> In b S -> edge G1 a b w -> edge G2 a b w) ->
  forall a b p w, GraphSpec.walk G1 a b p w -> (forall y, In y p -> In y S) -> GraphSpec.walk G2 a b p w.
Proof.
  intros Hv He a b p w Wk. induction Wk as [a Va|a b c p w1 w2 Ed Wk IH]; intros Al.
  - constructor. apply Hv; auto. apply Al; left; reflexivity.
  - econstructor.
    + apply He; eauto. apply Al; left; reflexivity.
      apply Al. right. inversion Wk; subst; left; reflexivity.
    + apply IH. intros y A. apply Al; right; exact A.
Qed.

Section PruneOK.
  Variable u : universe.
  Variable F : list fdecl.
  Variable inkeys : list vkey.
  Variable rd : bool.

  Lemma prune_GOK g stop :
    FOK u F inkeys rd g -> SHs g ->
    20 * (Z.of_nat (List.length (g_vertex_keys g)) + 1) < INF ->
    GOK u F inkeys rd (pruned g (closure (S (List.length (g_vertex_keys g))) g stop [KRoot] [KRoot])).
  Proof.
    intros H Sh Sz.
    pose proof (f_wf H) as W. pose proof (f_root H) as Vr.
    set (keep := closure (S (List.length (g_vertex_keys g))) g stop [KRoot] [KRoot]).
    destruct (pruned_spec W keep) as (W' & V' & E').
    destruct (@closure_sound g W stop (S (List.length (g_vertex_keys g))) [KRoot] [KRoot]) as (Ks & Kr).
    { auto. }
    { intros x [<-|[]]. exists [KRoot], 0. split; [constructor; apply vertex_reverse; exact Vr|].
      intros y [<-|[]]; left; reflexivity. }
    fold keep in Ks, Kr.
    assert (Kroot : memb KRoot keep = true) by (apply memb_In; apply Ks; left; reflexivity).
    assert (Vsub : forall x, vertex (pruned g keep) x -> vertex g x /\ In x keep).
    { intros x A. apply vertex_Vx in A. rewrite V' in A. destruct (memb x keep) eqn:M; [|congruence].
      split; [apply vertex_Vx; exact A|apply memb_In; exact M]. }
    assert (Esub : forall a b w, Eg (pruned g keep) a b = Some w -> Eg g a b = Some w).
    { intros a b w. rewrite E'. destruct (memb a keep && memb b keep); [auto|discriminate]. }
    constructor.
    - constructor.
      + exact W'.
      + apply vertex_Vx. rewrite V', Kroot. apply vertex_Vx. exact Vr.
      + intros k f. rewrite V'. destruct (memb k keep); [apply (f_pay H)|discriminate].
      + intros ft p. rewrite V'. destruct (memb (KFunc ft) keep); [apply (f_func H)|discriminate].
      + intros a b w Q. apply (f_edge H). apply Esub. exact Q.
    - assert (Le : (List.length (g_vertex_keys (pruned g keep)) <= List.length (g_vertex_keys g))%nat).
      { apply NoDup_incl_length; [apply (wf_hash_nodup W')|]. intros x A. apply (Vsub x A). }
      lia.
    - intros k Vk. destruct (Vsub k Vk) as (Vg & Ik).
      destruct (Kr k Ik) as (p & w & Wk & Al). exists p, w.
      apply walk_transfer with (G1 := g_reverse g) (S := keep); auto.
      + intros a Ia Va. apply vertex_reverse. apply vertex_reverse in Va.
        apply vertex_Vx. rewrite V'. apply memb_In in Ia. rewrite Ia. apply vertex_Vx. exact Va.
      + intros a b w0 Ia Ib Ed. unfold edge in *.
        destruct (g_reverse_spec W) as (_ & _ & Er). destruct (g_reverse_spec W') as (_ & _ & Er').
        change (Eg (g_reverse g) a b = Some w0) in Ed. change (Eg (g_reverse (pruned g keep)) a b = Some w0).
        rewrite Er in Ed. rewrite Er', E'. apply memb_In in Ia. apply memb_In in Ib. rewrite Ia, Ib. exact Ed.
    - intros n t s Vv Va. destruct (Vsub _ Vv) as (Vv0 & Iv). destruct (Vsub _ Va) as (Va0 & Ia).
      rewrite E'. apply memb_In in Iv. apply memb_In in Ia. rewrite Iv, Ia. simpl.
      apply (Sh _ _ _ Vv0).
  Qed.
End PruneOK.

(* ---------- supplied values ---------- *)
Definition vals_of (ins : list (vkey * value)) : amap vkey value :=
  fold_left (fun m kv => insert (fst kv) (snd kv) m) ins [].

Lemma fold_insert_lookup : forall (ins : list (vkey * value)) m k v,
  lookup k (fold_left (fun m kv => insert (fst kv) (snd kv) m) ins m) = Some v ->
  In (k, v) ins \/ lookup k m = Some v.
Proof.
  induction ins as [|[k0 v0] ins IH]; intros m k v; simpl; [auto|].
  intros Q. apply IH in Q. destruct Q as [Q|Q]; [left; right; exact Q|].
  rewrite lookup_insert in Q. destruct (Base.eqb_spec k k0) as [->|Ne].
  - inversion Q; subst. left; left; reflexivity.
  - right; exact Q.
Qed.

Lemma fold_insert_mem : forall (ins : list (vkey * value)) m k,
  In k (map fst ins) \/ mem k m = true ->
  mem k (fold_left (fun m kv => insert (fst kv) (snd kv) m) ins m) = true.
Proof.
  induction ins as [|[k0 v0] ins IH]; intros m k; simpl.
  - intros [[]|A]; exact A.
  - intros [[<-|A]|A]; apply IH.
    + right. unfold mem. rewrite lookup_insert, Base.eqb_refl. reflexivity.
    + left; exact A.
    + right. unfold mem in *. rewrite lookup_insert. destruct (Base.eqb k k0); auto.
Qed.

Lemma in_insert {K V} {EK : EqDec K} (k k0 : K) (v v0 : V) (m : amap K V) :
  In (k, v) (insert k0 v0 m) -> (k = k0 /\ v = v0) \/ In (k, v) m.
Proof.
  induction m as [|[k1 v1] m IH]; simpl.
  - intros [Q|[]]. inversion Q; auto.
  - destruct (Base.eqb_spec k0 k1) as [->|Ne]; simpl.
    + intros [Q|A]; [inversion Q; auto|auto].
    + intros [Q|A]; [auto|]. destruct (IH A); auto.
Qed.

(* typed slots are keyed by the type of the value they hold *)
Definition bt_ok (b : builder) : Prop :=
  (forall t v, In (t, v) (b_typed b) -> t = v_ty v) /\
  (forall ts v, In (ts, v) (b_typedsub b) -> fst ts = v_ty v).

Lemma bt_set_typed b v : bt_ok b -> bt_ok (set_typed b v).
Proof.
  intros [A B]. destruct v as [x|]; [|split; auto]. split; simpl; [|exact B].
  intros t v Q. apply in_insert in Q. destruct Q as [[-> ->]|Q]; auto.
Qed.

Lemma bt_set_typedsub b v st : bt_ok b -> bt_ok (set_typedsub b v st).
Proof.
  intros H. unfold set_typedsub. destruct (String.eqb st EmptyString); [apply bt_set_typed; exact H|].
  destruct H as [A B]. destruct v as [x|]; [|split; auto]. split; simpl; [exact A|].
  intros ts v Q. apply in_insert in Q. destruct Q as [[-> ->]|Q]; auto.
Qed.

Lemma bt_set_named b n v : bt_ok b -> bt_ok (set_named b n v).
Proof.
  intros H. unfold set_named. destruct (String.eqb n EmptyString); [apply bt_set_typed; exact H|].
  destruct v; [|exact H]. exact H.
Qed.

Lemma bt_set_namedsub b n v st : bt_ok b -> bt_ok (set_namedsub b n v st).
Proof.
  intros H. unfold set_namedsub. destruct (String.eqb n EmptyString); [apply bt_set_typedsub; exact H|].
  destruct (String.eqb st EmptyString); [apply bt_set_named; exact H|].
  destruct v; [|exact H]. exact H.
Qed.

Lemma bt_add_convs_raw : forall fs b, bt_ok b -> bt_ok (add_convs_raw b fs).
Proof.
  induction fs as [|[c|] fs IH]; intros b H; simpl; [exact H| |exact H].
  apply IH. exact H.
Qed.

Lemma bt_apply_arg b a : bt_ok b -> bt_ok (apply_arg b a).
Proof.
  intros H. destruct a; simpl; try exact H.
  - apply bt_set_named; exact H.
  - apply bt_set_namedsub; exact H.
  - revert b H. induction vs as [|v vs IH]; intros b H; simpl; [exact H|]. apply IH. apply bt_set_typed; exact H.
  - apply bt_set_typedsub; exact H.
  - apply bt_add_convs_raw; exact H.
Qed.

Lemma bt_build_from : forall opts b b', bt_ok b -> build_from b opts = Some b' -> bt_ok b'.
Proof.
  induction opts as [|a opts IH]; intros b b' H; simpl.
  - destruct (b_err b); [discriminate|]. intros Q; inversion Q; subst; exact H.
  - destruct (is_nil_arg a); [discriminate|]. apply IH. apply bt_apply_arg; exact H.
Qed.

Lemma bt_build_args d opts b : build_args d opts = Some b -> bt_ok b.
Proof. unfold build_args. apply bt_build_from. split; intros ? ? []. Qed.

Lemma input_vertices_ok u b k v :
  bt_ok b -> In (k, v) (input_vertices b) ->
  val_ok u k v /\ (is_val k = true \/ is_out k = true).
Proof.
  intros [A B] I0. unfold input_vertices in I0.
  assert (R : forall t, assignable u t t = true) by (intros t; unfold assignable; rewrite Z.eqb_refl; reflexivity).
  apply in_app_or in I0. destruct I0 as [I0|I0].
  { apply in_map_iff in I0. destruct I0 as ([n x] & Q & _). inversion Q; subst. simpl.
    split; [apply R|left; reflexivity]. }
  apply in_app_or in I0. destruct I0 as [I0|I0].
  { apply in_map_iff in I0. destruct I0 as ([[n st] x] & Q & _). inversion Q; subst. simpl.
    split; [apply R|left; reflexivity]. }
  apply in_app_or in I0. destruct I0 as [I0|I0].
  { apply in_map_iff in I0. destruct I0 as ([t x] & Q & I1). inversion Q; subst. simpl.
    split; [|right; reflexivity]. unfold val_ok. simpl. rewrite (A _ _ I1). apply R. }
  { apply in_map_iff in I0. destruct I0 as ([[t st] x] & Q & I1). inversion Q; subst. simpl.
    split; [|right; reflexivity]. unfold val_ok. simpl. pose proof (B _ _ I1) as Bq. simpl in Bq. rewrite Bq. apply R. }
Qed.

(* ---------- the full graph ---------- *)
Section Full.
  Variable u : universe.
  Variable f : fdecl.
  Variable b : builder.
  Variable rd : bool.
  Hypothesis Bt : bt_ok b.

  Let F := known_funcs f b.
  Let inkeys := map fst (input_vertices b).

  Lemma FOK_base : FOK u F inkeys rd (g_add g_empty KRoot PNone).
  Proof.
    destruct (g_add_spec KRoot PNone (@wf_empty vkey _ vpay)) as (W & Vs & Es).
    assert (V0 : forall x, Vx (@g_empty vkey vpay) x = None) by reflexivity.
    assert (E0 : forall x y, Eg (@g_empty vkey vpay) x y = None) by reflexivity.
    constructor.
    - exact W.
    - apply vertex_Vx. rewrite Vs, V0. simpl. discriminate.
    - intros k f0. rewrite Vs, !V0. destruct (Base.eqb k KRoot); discriminate.
    - intros ft p. rewrite Vs, !V0. simpl. discriminate.
    - intros a c w. rewrite Es, E0. discriminate.
  Qed.

  Lemma link_steps_ok g valued fin :
    FOK u F inkeys rd g ->
    let X := step_arg_sub (step_named_sub valued (step_ifaces u (step_args (step_values g)))) in
    let G := if rd then step_redefine u fin X else X in
    FOK u F inkeys rd G /\ SHs G.
  Proof.
    intros H X G.
    pose proof (FOK_step_values H) as H1.
    destruct (SHs_step_values (f_wf H)) as (X1 & S1).
    pose proof (FOK_step_args H1) as H2. pose proof (ext_step_args (f_wf H1)) as X2.
    pose proof (FOK_step_ifaces H2) as H3. pose proof (ext_step_ifaces u (f_wf H2)) as X3.
    pose proof (FOK_step_named_sub valued H3) as H4. pose proof (ext_step_named_sub valued (f_wf H3)) as X4.
    pose proof (FOK_step_arg_sub H4) as H5. pose proof (ext_step_arg_sub (f_wf H4)) as X5.
    fold X in H5, X5.
    assert (S5 : SHs X).
    { eapply SHs_ext; [|exact X5]. eapply SHs_ext; [|exact X4]. eapply SHs_ext; [|exact X3].
      eapply SHs_ext; [|exact X2]. exact S1. }
    subst G. destruct rd eqn:Rd; [|split; assumption].
    split; [apply FOK_step_redefine; auto|].
    eapply SHs_ext; [exact S5|]. apply ext_step_redefine. apply (f_wf H5).
  Qed.

  Definition fg_ok (fg : fgraph) : Prop :=
    FOK u F inkeys rd (fg_g fg) /\ SHs (fg_g fg) /\ fg_target fg = KFunc (fn_type f) /\
    fg_vals fg = vals_of (input_vertices b).

  Lemma full_graph_spec t :
    resP (fun r => match fst r with inl fg => fg_ok fg | inr _ => True end) (full_graph u f b rd t).
  Proof.
    unfold full_graph.
    set (g1 := func_graph (g_add g_empty KRoot PNone) f false).
    assert (H1 : FOK u F inkeys rd g1).
    { apply FOK_func_graph; [apply FOK_base|]. left; reflexivity. }
    set (g2 := fold_left (fun g kv => add_e (g_add_overwrite g (fst kv) PNone) (fst kv) KRoot w_normal)
                         (input_vertices b) g1).
    assert (H2 : FOK u F inkeys rd g2).
    { apply fold_left_inv; [|exact H1]. intros g0 [k v] A H0. cbn [fst].
      destruct (@input_vertices_ok u b k v Bt A) as (_ & Kk).
      assert (Ik : In k inkeys) by (apply in_map_iff; exists (k, v); auto).
      apply FOK_add_e; [apply FOK_overwrite; [exact H0|destruct Kk as [Kk|Kk]; destruct k; try discriminate; reflexivity]|].
      intros _ _. split; [apply wrange_normal|].
      destruct Kk as [Kk|Kk]; destruct k; try discriminate; simpl; auto. }
    set (g3 := fold_left (fun g c => func_graph g c true) (b_convs b) g2).
    assert (H3 : FOK u F inkeys rd g3).
    { apply fold_left_inv; [|exact H2]. intros g0 c A H0. apply FOK_func_graph; [exact H0|].
      right. apply in_or_app; left; exact A. }
    assert (Tk : exists r, (match b_gens b with
                            | [] => Ok ([], t)
                            | _ => take_perm SITE_GEN_VERTS (g_vertex_keys g3) t
                            end) = r /\ resP (fun _ => True) r).
    { eexists; split; [reflexivity|]. destruct (b_gens b); [exact I|].
      destruct (take_perm_cases SITE_GEN_VERTS (g_vertex_keys g3) t) as [(ks & t' & Q & _)|Q]; rewrite Q; exact I. }
    destruct Tk as (r & Er & Hr). rewrite Er.
    destruct r as [[ks t']| | |]; try contradiction; cbn [bind]; [|exact I].
    pose proof (@FOK_run_gens u F inkeys rd g3 (b_gens b) ks (b_convs b) [] H3) as H4.
    destruct (run_gens g3 (b_gens b) ks (b_convs b) []) as [[[g4 convs] tr] gerr].
    cbn [fst] in H4.
    assert (H4' : FOK u F inkeys rd g4).
    { apply H4. intros c A. right. apply in_or_app; right; exact A. }
    destruct gerr; [exact I|].
    destruct (@link_steps_ok g4 (fun k => mem k (fold_left (fun m kv => insert (fst kv) (snd kv) m) (input_vertices b) []))
                             (b_fin b) H4') as (H5 & S5).
    simpl. split; [exact H5|]. split; [exact S5|]. split; reflexivity.
  Qed.
End Full.

(* ---------- callGraph ---------- *)
Definition cg_ok (u : universe) (f : fdecl) (b : builder) (rd : bool) (cg : cgraph) : Prop :=
  GOK u (known_funcs f b) (map fst (input_vertices b)) rd (cg_g cg) /\
  cg_target cg = KFunc (fn_type f) /\ cg_vals cg = vals_of (input_vertices b).

Lemma call_graph_spec u f b rd t :
  bt_ok b ->
  (forall fg tr, full_graph u f b rd t = Ok (inl fg, tr) ->
                 20 * (Z.of_nat (List.length (g_vertex_keys (fg_g fg))) + 1) < INF) ->
  resP (fun r => match fst r with inl cg => cg_ok u f b rd cg | inr _ => True end) (call_graph u f b rd t).
Proof.
  intros Bt Sz. unfold call_graph.
  pose proof (full_graph_spec u f rd Bt t) as Hf.
  destruct (full_graph u f b rd t) as [[[fg|e] tr]| | |] eqn:Qf; try contradiction; cbn [bind]; try exact I.
  cbn [fst] in Hf. destruct Hf as (H & Sh & Tg & Vl).
  rewrite prune_eq. cbv zeta.
  match goal with |- context [filter ?p ?l] => destruct (filter p l) end; [|exact I].
  simpl. split; [|split; [exact Tg|exact Vl]].
  apply prune_GOK; auto. apply (Sz fg tr eq_refl).
Qed.

(* C08CallableOrigin.v -- where the named-value vertices of a call graph come
   from (a field of a known function or a supplied value), the consequences
   of the domain of C08 for their names, and the twin (non-redefining) graph
   of a Redefine graph.  Helper of C08Callable.v. *)
From ArgMapper Require Import Base Graph GraphAlg GraphSpec Types Args Resolver ResolverSpec GenWeights
     CheckResolver Monitors Monitors2 ResolverStatements ResolverStatements2.
From ArgMapper.proofs Require Import C18DijkstraLemmas C19RefineMap C19RefineGraph
     C0213UnsatGraph C0213UnsatClosure C0213UnsatBuild C0213UnsatPrune C0213UnsatDijkstra C0213UnsatPlan
     C07AffinityOps C08RedefineGraph C08CallableOps C08CallableMono C08CallableGrow C08CallableArgs.
From Coq Require Import List Lia ZArith String.
Import ListNotations.
Set Implicit Arguments.
Local Open Scope Z_scope.
Local Open Scope list_scope.

(* ---------- simple projections of full_graph ---------- *)
Lemma full_graph_fields u f b rd t fg tr :
  full_graph u f b rd t = Ok (inl fg, tr) ->
  fg_vals fg = vals_of b /\ fg_target fg = KFunc (fn_type f) /\ fg_inputs fg = NK b.
Proof.
  intros FG. destruct (full_graph_inv _ _ _ _ _ FG) as (ks & t' & g4 & convs & _ & _ & _ & ->).
  cbn [fg_vals fg_target fg_inputs]. auto.
Qed.

Lemma mem_vals_of b k : mem k (vals_of b) = true <-> In k (NK b).
Proof.
  rewrite mem_true. unfold vals_of. rewrite vals_keys. unfold NK. simpl. tauto.
Qed.

(* the graph built for Redefine is the ordinary graph plus edges to the root *)
Lemma full_graph_twin u f b t fg tr :
  full_graph u f b true t = Ok (inl fg, tr) ->
  exists fg', full_graph u f b false t = Ok (inl fg', tr) /\
              fg_g fg = step_redefine u (b_fin b) (fg_g fg') /\ fg_convs fg = fg_convs fg' /\
              fg_freq fg = fg_freq fg'.
Proof.
  unfold full_graph.
  match goal with |- bind ?m _ = _ -> _ => destruct m as [[ks t']| | |] end; cbn [bind]; try discriminate.
  match goal with |- context [run_gens ?a ?b0 ?c ?d ?e0] => destruct (run_gens a b0 c d e0) as [[[g4 convs] trg] gerr] end.
  destruct gerr as [z|]; [discriminate|].
  intros Q. inversion Q; subst fg tr; clear Q.
  eexists. split; [reflexivity|]. cbn [fg_g fg_convs fg_freq]. auto.
Qed.

(* ---------- vertices of the operation lists ---------- *)
Lemma in_verts_pairs {A} (k : vkey) (key : A -> vkey) (h : A -> op) (l : list A) :
  (forall x, op_v (h x) = []) ->
  In k (verts (flat_map (fun x => [OV (key x); h x]) l)) -> exists x, In x l /\ k = key x.
Proof.
  intros Hh. rewrite in_verts_flat_map. intros (x & Ix & I). exists x. split; [exact Ix|].
  unfold verts in I. simpl in I. rewrite Hh in I. simpl in I. destruct I as [<-|[]]. reflexivity.
Qed.

Lemma in_verts_fops c io k :
  In k (verts (fops c io)) ->
  k = KFunc (fn_type c) \/ (exists fld, In fld (fn_in c) /\ k = field_key fld) \/
  (exists fld, In fld (fn_out c) /\ k = field_out_key fld).
Proof.
  unfold fops. rewrite !in_verts_app. intros [I|[I|[I|I]]].
  - simpl in I. destruct I as [<-|[]]. left. reflexivity.
  - destruct (fn_in c); simpl in I; destruct I.
  - right. left.
    apply (@in_verts_pairs field k field_key
             (fun fld => OE (KFunc (fn_type c)) (field_key fld)
                            (if String.eqb (f_name fld) EmptyString then GenWeights.w_typed else w_normal))) in I;
      [exact I|reflexivity].
  - right. right. destruct io; [|destruct I].
    apply in_verts_app in I. destruct I as [I|I].
    + apply (@in_verts_pairs field k field_out_key
               (fun fld => OE (field_out_key fld) (KFunc (fn_type c)) w_normal)) in I; [|reflexivity].
      destruct I as (fld & If & E). exists fld. split; [apply named_entries_in; exact If|exact E].
    + apply (@in_verts_pairs field k field_out_key
               (fun fld => OE (field_out_key fld) (KFunc (fn_type c)) GenWeights.w_typed)) in I; [|reflexivity].
      destruct I as (fld & If & E). exists fld. split; [apply typed_entries_in; exact If|exact E].
Qed.

Lemma in_verts_ins_ops ins k : In k (verts (ins_ops ins)) -> In k (map fst ins).
Proof.
  unfold ins_ops. rewrite in_verts_flat_map. intros (kv & Ikv & I).
  simpl in I. destruct I as [<-|[]]. apply in_map. exact Ikv.
Qed.

Lemma verts_val_ops l k :
  In k (verts (flat_map val_ops l)) -> (exists t s, k = KOut t s) \/ (exists t s, k = KArg t s).
Proof.
  rewrite in_verts_flat_map. intros (x & _ & I).
  destruct x as [|ft|n t s|t s|t s]; try (simpl in I; contradiction).
  unfold val_ops in I. rewrite verts_app in I. apply in_app_or in I. destruct I as [I|I].
  - simpl in I. destruct I as [<-|[<-|[]]]; [left; eauto|right; eauto].
  - destruct (String.eqb s ""); simpl in I; [destruct I|]. destruct I as [<-|[]]. right. eauto.
Qed.

Lemma g_root_present k : present g_root k = true -> k = KRoot.
Proof.
  intros P. apply present_true in P. unfold g_root in P.
  destruct (add_spec KRoot Resolver.PNone (@wf_empty vkey _ vpay)) as (_ & Hv & _). rewrite Hv in P.
  change (vtx g_empty KRoot) with (@None vpay) in P. cbv iota in P.
  destruct (Base.eqb_spec k KRoot) as [E|N]; [exact E|].
  exfalso. apply P. reflexivity.
Qed.

Lemma field_key_kval fld n t s :
  field_key fld = KVal n t s -> String.eqb n "" = false /\ f_name fld = n /\ f_ty fld = t /\ f_sub fld = s.
Proof.
  unfold field_key. destruct (String.eqb (f_name fld) "") eqn:E; [discriminate|].
  intros Q. inversion Q; subst. auto.
Qed.

Lemma field_out_key_kval fld n t s :
  field_out_key fld = KVal n t s -> String.eqb n "" = false /\ f_name fld = n /\ f_ty fld = t /\ f_sub fld = s.
Proof.
  unfold field_out_key. destruct (String.eqb (f_name fld) "") eqn:E; [discriminate|].
  intros Q. inversion Q; subst. auto.
Qed.

(* ---------- origin of named-value vertices ---------- *)
Lemma stages_convs_known u f b rd fg :
  stages u f b rd fg -> forall c, In c (f :: fg_convs fg) -> In c (known_funcs f b).
Proof.
  intros [added ks g4 Cv _ Fr _ _ _ _] c [<-|Ic]; [left; reflexivity|]. right.
  rewrite Cv in Ic. apply in_app_or in Ic. apply in_or_app. destruct Ic as [Ic|Ic]; [left; exact Ic|right].
  destruct (Fr c Ic) as (k & gn & _ & _ & Ign & L). eapply gen_funcs_in; eauto.
Qed.

Lemma kval_origin u f b rd t fg tr n t0 s :
  full_graph u f b rd t = Ok (inl fg, tr) ->
  vtx (fg_g fg) (KVal n t0 s) <> None ->
  (exists c fld, In c (known_funcs f b) /\ In fld (fn_in c ++ fn_out c) /\
                 f_name fld = n /\ f_ty fld = t0 /\ String.eqb n "" = false) \/
  In (KVal n t0 s) (NK b).
Proof.
  intros FG V. pose proof (full_graph_stages _ _ _ _ _ FG) as ST.
  pose proof (stages_convs_known ST) as KN.
  destruct ST as [added ks g4 Cv E4 _ _ _ EG _]. subst g4.
  destruct (pipeline_facts u f b rd added) as (W4 & W5 & W6 & _ & _ & _ & (_ & Hv & _)).
  rewrite EG, Hv in V. apply present_true in V.
  rewrite step_args_ops in V.
  destruct (app_ops_spec (flat_map arg_ops (arg_keys (step_values (app_ops (S3 f b ++ conv_ops added) g_root)))) W5)
    as (_ & Hp5 & _).
  rewrite Hp5 in V. apply orb_true_iff in V. destruct V as [V|V].
  2:{ apply membT in V. apply verts_arg_ops in V. destruct V as (t1 & s1 & C). discriminate C. }
  rewrite step_values_ops in V.
  destruct (app_ops_spec (flat_map val_ops (val_keys (app_ops (S3 f b ++ conv_ops added) g_root))) W4)
    as (_ & Hp4 & _).
  rewrite Hp4 in V. apply orb_true_iff in V. destruct V as [V|V].
  2:{ apply membT in V. apply verts_val_ops in V. destruct V as [(t1 & s1 & C)|(t1 & s1 & C)]; discriminate C. }
  destruct (app_ops_spec (S3 f b ++ conv_ops added) g_root_wf) as (_ & Hp3 & _).
  rewrite Hp3 in V. apply orb_true_iff in V. destruct V as [V|V].
  { apply g_root_present in V. discriminate V. }
  apply membT in V.
  assert (FromFn : forall c io, In c (f :: fg_convs fg) -> In (KVal n t0 s) (verts (fops c io)) ->
            exists c0 fld, In c0 (known_funcs f b) /\ In fld (fn_in c0 ++ fn_out c0) /\
                           f_name fld = n /\ f_ty fld = t0 /\ String.eqb n "" = false).
  { intros c io Ic I. apply in_verts_fops in I. destruct I as [C|[(fld & If & E)|(fld & If & E)]]; [discriminate C| |].
    - symmetry in E. apply field_key_kval in E. destruct E as (Ne & En & Et & _).
      exists c, fld. split; [apply KN; exact Ic|]. split; [apply in_or_app; left; exact If|auto].
    - symmetry in E. apply field_out_key_kval in E. destruct E as (Ne & En & Et & _).
      exists c, fld. split; [apply KN; exact Ic|]. split; [apply in_or_app; right; exact If|auto]. }
  apply in_verts_app in V. destruct V as [V|V].
  - unfold S3 in V. apply in_verts_app in V. destruct V as [V|V].
    { left. apply (FromFn f false); [left; reflexivity|exact V]. }
    apply in_verts_app in V. destruct V as [V|V].
    { right. apply in_verts_ins_ops in V. exact V. }
    unfold conv_ops in V. apply in_verts_flat_map in V. destruct V as (c & Ic & I).
    left. apply (FromFn c true); [|exact I]. right. rewrite Cv. apply in_or_app. left. exact Ic.
  - unfold conv_ops in V. apply in_verts_flat_map in V. destruct V as (c & Ic & I).
    left. apply (FromFn c true); [|exact I]. right. rewrite Cv. apply in_or_app. right. exact Ic.
Qed.

(* ---------- the domain of C08: each name denotes one type ---------- *)
Definition dom_named (f : fdecl) (b : builder) : list (string * ty) :=
  flat_map (fun g => flat_map (fun fld => if is_empty (f_name fld) then [] else [(f_name fld, f_ty fld)])
                              (fn_in g ++ fn_out g)) (known_funcs f b) ++
  flat_map (fun kv => match fst kv with KVal n t _ => [(n, t)] | _ => [] end) (input_vertices b).

Lemma domain_one_type u f b :
  c08_domain u f b = true ->
  forall n t t', In (n, t) (dom_named f b) -> In (n, t') (dom_named f b) -> t = t'.
Proof.
  unfold c08_domain. intros D. cbv zeta in D.
  apply andb_true_iff in D. destruct D as [_ D]. fold (dom_named f b) in D.
  rewrite forallb_forall in D. intros n t t' I1 I2.
  specialize (D _ I1). rewrite forallb_forall in D. specialize (D _ I2).
  cbn [fst snd] in D. rewrite Base.eqb_refl in D. apply Z.eqb_eq in D. exact D.
Qed.

Lemma dom_named_field f b c fld :
  In c (known_funcs f b) -> In fld (fn_in c ++ fn_out c) -> String.eqb (f_name fld) "" = false ->
  In (f_name fld, f_ty fld) (dom_named f b).
Proof.
  intros Ic If Ne. unfold dom_named. apply in_or_app. left.
  apply in_flat_map. exists c. split; [exact Ic|]. apply in_flat_map. exists fld. split; [exact If|].
  unfold is_empty. change (Base.eqb (f_name fld) EmptyString) with (String.eqb (f_name fld) EmptyString). rewrite Ne.
  left. reflexivity.
Qed.

Lemma dom_named_input f b n t s :
  In (KVal n t s) (NK b) -> In (n, t) (dom_named f b).
Proof.
  intros I. unfold dom_named. apply in_or_app. right. unfold NK in I. apply in_map_iff in I.
  destruct I as (kv & E & Ikv). apply in_flat_map. exists kv. split; [exact Ikv|]. rewrite E. left. reflexivity.
Qed.

Lemma named_inv_builder f b : named_inv (dom_named f b) b.
Proof.
  intros n0 v0 I. apply dom_named_input with (s := EmptyString).
  rewrite NK_eq. apply in_or_app. left.
  apply in_map_iff. exists (n0, v0). split; [reflexivity|exact I].
Qed.

(* names of the fields of a well-formed function are lower case *)
Lemma wf_fn_lower c fld : wf_fn c = true -> In fld (fn_in c ++ fn_out c) -> lower (f_name fld) = f_name fld.
Proof.
  unfold wf_fn. intros W I. apply andb_true_iff in W. destruct W as [_ W].
  rewrite forallb_forall in W. specialize (W _ I).
  destruct (Base.eqb_spec (f_name fld) (lower (f_name fld))) as [E|N]; [symmetry; exact E|discriminate].
Qed.

Lemma wf_funcs_fn L c : wf_funcs L = true -> In c L -> wf_fn c = true.
Proof.
  unfold wf_funcs. intros W I. apply andb_true_iff in W. destruct W as [W _].
  apply andb_true_iff in W. destruct W as [W _]. rewrite forallb_forall in W. apply W. exact I.
Qed.

(* a named-value vertex of the call graph: good name, registered type *)
Lemma kval_vertex_ok u f d opts b rd t fg tr n t0 s :
  build_args d opts = Some b -> wf_funcs (known_funcs f b) = true ->
  full_graph u f b rd t = Ok (inl fg, tr) ->
  vtx (fg_g fg) (KVal n t0 s) <> None ->
  name_ok n /\ In (n, t0) (dom_named f b).
Proof.
  intros HB WF FG V. destruct (@kval_origin _ _ _ _ _ _ _ _ _ _ FG V) as [(c & fld & Ic & If & En & Et & Ne)|I].
  - split.
    + split; [exact Ne|]. rewrite <- En. apply (@wf_fn_lower c fld); [apply (@wf_funcs_fn _ c WF Ic)|exact If].
    + rewrite <- En, <- Et. apply (@dom_named_field f b c fld Ic If). rewrite En. exact Ne.
  - split; [apply (@input_vertex_name d opts b n t0 s HB I)|apply (@dom_named_input f b n t0 s I)].
Qed.

(* C20bKahnLemmas.v -- helper lemmas for the Kahn / topological shortest
   path proofs: association-list maps, adj_del / g_remove_edge, walks. *)
From ArgMapper Require Import Base Graph GraphAlg GraphSpec GraphStatements.
From Coq Require Import Permutation Lia ZArith List.
Set Implicit Arguments.

(* ------------------------------------------------------------------ *)
Section MapLemmas.
  Context {K : Type} `{EqDec K} {V : Type}.
  Implicit Types m : amap K V.

  Lemma eqb_sym_false (x y : K) : x <> y -> eqb x y = false.
  Proof. intros Hne. apply eqb_neq. exact Hne. Qed.

  Lemma lookup_insert k a v m :
    lookup k (insert a v m) = if eqb k a then Some v else lookup k m.
  Proof.
    induction m as [|[k' v'] m IH]; simpl.
    - destruct (eqb k a); reflexivity.
    - destruct (eqb_spec a k') as [Heq|Hne]; simpl.
      + subst k'. destruct (eqb k a); reflexivity.
      + destruct (eqb_spec k k') as [Heq2|Hne2].
        * subst k'. rewrite (eqb_sym_false (fun E => Hne (eq_sym E))). reflexivity.
        * exact IH.
  Qed.

  Lemma lookup_delete k b m :
    lookup k (delete b m) = if eqb k b then None else lookup k m.
  Proof.
    induction m as [|[k' v'] m IH]; simpl.
    - destruct (eqb k b); reflexivity.
    - destruct (eqb_spec b k') as [Heq|Hne]; simpl.
      + subst k'. rewrite IH. destruct (eqb k b); reflexivity.
      + rewrite IH. destruct (eqb_spec k k') as [Heq2|Hne2].
        * subst k'. rewrite (eqb_sym_false (fun E => Hne (eq_sym E))). reflexivity.
        * reflexivity.
  Qed.

  Lemma lookup_in_keys k m v : lookup k m = Some v -> In k (keys m).
  Proof.
    induction m as [|[k' v'] m IH]; simpl; [discriminate|].
    destruct (eqb_spec k k') as [Heq|Hne]; intros Hl.
    - left. auto.
    - right. apply IH. exact Hl.
  Qed.

  Lemma in_keys_lookup k m : In k (keys m) -> exists v, lookup k m = Some v.
  Proof.
    induction m as [|[k' v'] m IH]; simpl; [tauto|].
    intros Hin. destruct (eqb_spec k k') as [Heq|Hne].
    - eexists; reflexivity.
    - destruct Hin as [Hin|Hin]; [congruence|]. apply IH. exact Hin.
  Qed.

  Lemma lookup_none_not_in k m : lookup k m = None -> ~ In k (keys m).
  Proof.
    intros Hl Hin. apply in_keys_lookup in Hin. destruct Hin as [v Hv]. congruence.
  Qed.

  Lemma lookup_In k v m : lookup k m = Some v -> In (k, v) m.
  Proof.
    induction m as [|[k' v'] m IH]; simpl; [discriminate|].
    destruct (eqb_spec k k') as [Heq|Hne]; intros Hl.
    - left. congruence.
    - right. apply IH. exact Hl.
  Qed.

  Lemma In_lookup k v m : NoDup (keys m) -> In (k, v) m -> lookup k m = Some v.
  Proof.
    induction m as [|[k' v'] m IH]; simpl; [tauto|].
    intros Hnd Hin. inversion Hnd as [|? ? Hnotin Hnd']; subst.
    destruct Hin as [Heq|Hin].
    - inversion Heq; subst. rewrite eqb_refl. reflexivity.
    - destruct (eqb_spec k k') as [Heq|Hne].
      + subst k'. exfalso. apply Hnotin. change k with (fst (k, v)).
        apply in_map. exact Hin.
      + apply IH; assumption.
  Qed.

  Lemma keys_insert_present a v m : In a (keys m) -> keys (insert a v m) = keys m.
  Proof.
    induction m as [|[k' v'] m IH]; simpl; [tauto|].
    intros Hin. destruct (eqb_spec a k') as [Heq|Hne]; simpl.
    - reflexivity.
    - f_equal. apply IH. destruct Hin as [Hin|Hin]; [congruence|exact Hin].
  Qed.

  Lemma keys_delete_in k b m : In k (keys (delete b m)) -> In k (keys m) /\ k <> b.
  Proof.
    induction m as [|[k' v'] m IH]; simpl; [tauto|].
    destruct (eqb_spec b k') as [Heq|Hne]; simpl.
    - intros Hin. apply IH in Hin. tauto.
    - intros [Heq|Hin].
      + subst k'. split; [left; reflexivity|]. intros E. apply Hne. auto.
      + apply IH in Hin. tauto.
  Qed.

  Lemma keys_delete_nodup b m : NoDup (keys m) -> NoDup (keys (delete b m)).
  Proof.
    induction m as [|[k' v'] m IH]; simpl; intros Hnd; [constructor|].
    inversion Hnd as [|? ? Hnotin Hnd']; subst.
    destruct (eqb_spec b k') as [Heq|Hne]; simpl.
    - apply IH. exact Hnd'.
    - constructor.
      + intros Hin. apply keys_delete_in in Hin. tauto.
      + apply IH. exact Hnd'.
  Qed.
End MapLemmas.

(* ------------------------------------------------------------------ *)
Section ListLemmas.
  Context {K : Type} `{EqDec K}.

  Lemma memb_In (x : K) l : memb x l = true <-> In x l.
  Proof.
    induction l as [|y l IH]; simpl.
    - split; [discriminate|tauto].
    - rewrite orb_true_iff, IH, eqb_eq. split; intros [E|E]; auto.
  Qed.

  Lemma In_dec_K (x : K) l : {In x l} + {~ In x l}.
  Proof.
    destruct (memb x l) eqn:E.
    - left. apply memb_In. exact E.
    - right. intros Hin. apply memb_In in Hin. congruence.
  Qed.

  Lemma remove1_perm (x : K) l : In x l -> Permutation l (x :: remove1 x l).
  Proof.
    induction l as [|y l IH]; simpl; [tauto|].
    intros Hin. destruct (eqb_spec x y) as [Heq|Hne].
    - subst y. apply Permutation_refl.
    - destruct Hin as [Hin|Hin]; [congruence|].
      eapply perm_trans; [apply perm_skip; apply IH; exact Hin|]. apply perm_swap.
  Qed.

  Lemma permb_Permutation (l1 l2 : list K) : permb l1 l2 = true -> Permutation l1 l2.
  Proof.
    revert l2. induction l1 as [|x l1 IH]; intros l2; simpl.
    - destruct l2; [constructor|discriminate].
    - rewrite andb_true_iff. intros [Hm Hp]. apply memb_In in Hm.
      apply IH in Hp. apply Permutation_sym.
      eapply perm_trans; [apply remove1_perm; exact Hm|].
      apply perm_skip. apply Permutation_sym. exact Hp.
  Qed.

  Lemma take_perm_Permutation site (expected : list K) t ks t' :
    take_perm site expected t = Ok (ks, t') -> Permutation ks expected.
  Proof.
    unfold take_perm.
    destruct (take_site site t) as [[r t0]|].
    - destruct expected as [|e expected].
      + intros E; inversion E; subst. constructor.
      + destruct (permb r (e :: expected)) eqn:Hp; [|discriminate].
        intros E; inversion E; subst. apply permb_Permutation. exact Hp.
    - destruct expected as [|e expected]; [|discriminate].
      intros E; inversion E; subst. constructor.
  Qed.

  Lemma take_perm_not_panic site (expected : list K) t s :
    take_perm site expected t <> Panic s.
  Proof.
    unfold take_perm.
    destruct (take_site site t) as [[r t0]|]; destruct expected as [|e expected];
      try discriminate.
    destruct (permb r (e :: expected)); discriminate.
  Qed.

  Lemma take_perm_not_oof site (expected : list K) t :
    take_perm site expected t <> OutOfFuel.
  Proof.
    unfold take_perm.
    destruct (take_site site t) as [[r t0]|]; destruct expected as [|e expected];
      try discriminate.
    destruct (permb r (e :: expected)); discriminate.
  Qed.

  Lemma nodup_split_unique (x : K) l1 l2 m1 m2 :
    NoDup (l1 ++ x :: l2) -> l1 ++ x :: l2 = m1 ++ x :: m2 -> l1 = m1 /\ l2 = m2.
  Proof.
    revert m1. induction l1 as [|a l1 IH]; intros m1 Hnd Heq.
    - destruct m1 as [|b m1]; simpl in *.
      + inversion Heq. auto.
      + inversion Heq; subst. inversion Hnd as [|? ? Hnotin _]; subst.
        exfalso. apply Hnotin. apply in_or_app. right. left. reflexivity.
    - destruct m1 as [|b m1]; simpl in *.
      + inversion Heq; subst. inversion Hnd as [|? ? Hnotin _]; subst.
        exfalso. apply Hnotin. apply in_or_app. right. left. reflexivity.
      + inversion Heq; subst. inversion Hnd as [|? ? _ Hnd']; subst.
        destruct (IH m1 Hnd' H2) as [E1 E2]. subst. auto.
  Qed.

  Lemma index_lt_trans (L : list K) a b c :
    NoDup L -> index_lt L a b -> index_lt L b c -> index_lt L a c.
  Proof.
    intros Hnd (l1 & l2 & l3 & E1) (m1 & m2 & m3 & E2).
    assert (E3 : (l1 ++ a :: l2) ++ b :: l3 = m1 ++ b :: m2 ++ c :: m3).
    { rewrite <- app_assoc. simpl. congruence. }
    assert (Hnd' : NoDup ((l1 ++ a :: l2) ++ b :: l3)).
    { rewrite <- app_assoc. simpl. rewrite <- E1. exact Hnd. }
    destruct (nodup_split_unique _ _ _ _ _ Hnd' E3) as [_ E4].
    exists l1, (l2 ++ b :: m2), m3. rewrite E1, E4.
    rewrite <- app_assoc. reflexivity.
  Qed.

  Lemma index_lt_irrefl (L : list K) a : NoDup L -> ~ index_lt L a a.
  Proof.
    intros Hnd (l1 & l2 & l3 & E). subst L.
    apply NoDup_remove_2 in Hnd. apply Hnd.
    apply in_or_app. right. apply in_or_app. right. left. reflexivity.
  Qed.

  Lemma index_lt_in_l (L : list K) a b : index_lt L a b -> In a L.
  Proof.
    intros (l1 & l2 & l3 & E). subst L. apply in_or_app. right. left. reflexivity.
  Qed.

  Lemma index_lt_in_r (L : list K) a b : index_lt L a b -> In b L.
  Proof.
    intros (l1 & l2 & l3 & E). subst L. apply in_or_app. right. right.
    apply in_or_app. right. left. reflexivity.
  Qed.

  Lemma index_lt_app_r (L : list K) a b X : index_lt L a b -> index_lt (L ++ X) a b.
  Proof.
    intros (l1 & l2 & l3 & E). subst L. exists l1, l2, (l3 ++ X).
    rewrite <- app_assoc. simpl. rewrite <- app_assoc. reflexivity.
  Qed.

  Lemma index_lt_snoc (L : list K) a n : In a L -> index_lt (L ++ [n]) a n.
  Proof.
    intros Hin. apply in_split in Hin. destruct Hin as (l1 & l2 & E). subst L.
    exists l1, l2, []. rewrite <- app_assoc. reflexivity.
  Qed.

  (* a is strictly before b in L = L1 ++ b :: L2 : then a is in L1 *)
  Lemma index_lt_prefix (L1 L2 : list K) a b :
    NoDup (L1 ++ b :: L2) -> index_lt (L1 ++ b :: L2) a b -> In a L1.
  Proof.
    intros Hnd (l1 & l2 & l3 & E).
    assert (E3 : L1 ++ b :: L2 = (l1 ++ a :: l2) ++ b :: l3).
    { rewrite <- app_assoc. simpl. exact E. }
    destruct (nodup_split_unique _ _ _ _ _ Hnd E3) as [E4 _]. subst L1.
    apply in_or_app. right. left. reflexivity.
  Qed.
End ListLemmas.

(* ------------------------------------------------------------------ *)
Section GraphLemmas.
  Context {K : Type} `{EqDec K} {V : Type}.
  Notation graph := (graph K V).
  Implicit Types g : graph.

  Lemma inner_adj_del (m : adj K) a b x :
    inner (adj_del m a b) x = if eqb x a then delete b (inner m a) else inner m x.
  Proof.
    unfold adj_del, inner. destruct (lookup a m) as [i|] eqn:E.
    - rewrite lookup_insert. destruct (eqb_spec x a) as [Heq|Hne].
      + reflexivity.
      + reflexivity.
    - destruct (eqb_spec x a) as [Heq|Hne].
      + subst x. rewrite E. reflexivity.
      + reflexivity.
  Qed.

  Lemma keys_adj_del (m : adj K) a b : keys (adj_del m a b) = keys m.
  Proof.
    unfold adj_del. destruct (lookup a m) as [i|] eqn:E; [|reflexivity].
    apply keys_insert_present. eapply lookup_in_keys. exact E.
  Qed.

  Lemma lookup_adj_del_some (m : adj K) a b x i :
    lookup x (adj_del m a b) = Some i ->
    exists i0, lookup x m = Some i0 /\ i = if eqb x a then delete b i0 else i0.
  Proof.
    unfold adj_del. destruct (lookup a m) as [ia|] eqn:E.
    - rewrite lookup_insert. destruct (eqb_spec x a) as [Heq|Hne].
      + subst x. intros E2. inversion E2; subst. exists ia. auto.
      + intros E2. exists i. auto.
    - intros E2. exists i. split; [exact E2|].
      destruct (eqb_spec x a) as [Heq|Hne]; [|reflexivity].
      subst x. congruence.
  Qed.

  Lemma lookup_inner_adj_del (m : adj K) a b x y :
    lookup y (inner (adj_del m a b) x) =
    if eqb x a && eqb y b then None else lookup y (inner m x).
  Proof.
    rewrite inner_adj_del. destruct (eqb_spec x a) as [Heq|Hne]; simpl.
    - subst x. rewrite lookup_delete. reflexivity.
    - reflexivity.
  Qed.

  Lemma edge_remove_edge g a b x y w :
    edge (g_remove_edge g a b) x y w <-> edge g x y w /\ ~ (x = a /\ y = b).
  Proof.
    unfold edge, g_remove_edge. simpl. rewrite lookup_inner_adj_del.
    destruct (eqb_spec x a) as [Heq|Hne]; simpl.
    - destruct (eqb_spec y b) as [Heq2|Hne2].
      + split; [discriminate|]. intros [_ Hn]. exfalso. apply Hn. auto.
      + split; [|tauto]. intros Hl. split; [exact Hl|]. intros [_ E]. auto.
    - split; [|tauto]. intros Hl. split; [exact Hl|]. intros [E _]. auto.
  Qed.

  Lemma wf_remove_edge g a b : wf_graph g -> wf_graph (g_remove_edge g a b).
  Proof.
    intros Hwf. destruct Hwf as [Hon Hin Hhn Hok Hik Hion Hiin Hmir Hcl].
    constructor; unfold g_remove_edge; simpl.
    - rewrite keys_adj_del. exact Hon.
    - rewrite keys_adj_del. exact Hin.
    - exact Hhn.
    - intros k. rewrite keys_adj_del. apply Hok.
    - intros k. rewrite keys_adj_del. apply Hik.
    - intros k i Hl. apply lookup_adj_del_some in Hl. destruct Hl as (i0 & Hl0 & Ei).
      specialize (Hion _ _ Hl0). subst i.
      destruct (eqb k a); [apply keys_delete_nodup|]; exact Hion.
    - intros k i Hl. apply lookup_adj_del_some in Hl. destruct Hl as (i0 & Hl0 & Ei).
      specialize (Hiin _ _ Hl0). subst i.
      destruct (eqb k b); [apply keys_delete_nodup|]; exact Hiin.
    - intros x y w. rewrite !lookup_inner_adj_del.
      rewrite (andb_comm (eqb y b) (eqb x a)).
      destruct (eqb x a && eqb y b); [tauto|]. apply Hmir.
    - intros x y w. rewrite lookup_inner_adj_del.
      destruct (eqb x a && eqb y b); [discriminate|]. apply Hcl.
  Qed.

  Lemma ghash_remove_edge g a b : ghash (g_remove_edge g a b) = ghash g.
  Proof. reflexivity. Qed.

  (* in-degree zero, in terms of edges *)
  Lemma indeg0_true g v :
    wf_graph g -> indeg0 g v = true -> forall a w, ~ edge g a v w.
  Proof.
    intros Hwf Hi a w He. unfold edge in He. apply (wf_mirror Hwf) in He.
    unfold indeg0 in Hi. destruct (inner (gin g) v); [discriminate He|discriminate Hi].
  Qed.

  Lemma indeg0_false g v :
    wf_graph g -> indeg0 g v = false -> exists a w, edge g a v w.
  Proof.
    intros Hwf Hi. unfold indeg0 in Hi.
    destruct (inner (gin g) v) as [|[a w] l] eqn:E; [discriminate|].
    exists a, w. unfold edge. apply (wf_mirror Hwf). rewrite E. simpl.
    rewrite eqb_refl. reflexivity.
  Qed.

  Lemma indeg0_of_no_edge g v :
    wf_graph g -> (forall a w, ~ edge g a v w) -> indeg0 g v = true.
  Proof.
    intros Hwf Hno. destruct (indeg0 g v) eqn:E; [reflexivity|].
    apply indeg0_false in E; [|exact Hwf]. destruct E as (a & w & He).
    exfalso. eapply Hno. exact He.
  Qed.

  (* has_edges, in terms of edges *)
  Lemma has_edges_true g :
    wf_graph g -> has_edges g = true -> exists a b w, edge g a b w.
  Proof.
    intros Hwf Hh. unfold has_edges in Hh. apply existsb_exists in Hh.
    destruct Hh as ([k i] & Hin & Hne). simpl in Hne.
    destruct i as [|[b w] i]; [discriminate|].
    exists k, b, w. unfold edge, inner.
    rewrite (In_lookup _ _ _ (wf_out_nodup Hwf) Hin). simpl.
    rewrite eqb_refl. reflexivity.
  Qed.

  Lemma has_edges_false g a b w : has_edges g = false -> ~ edge g a b w.
  Proof.
    intros Hh He. unfold edge, inner in He.
    destruct (lookup a (gout g)) as [i|] eqn:E; [|discriminate].
    apply lookup_In in E.
    assert (Ht : has_edges g = true).
    { unfold has_edges. apply existsb_exists. exists (a, i). split; [exact E|].
      simpl. destruct i; [discriminate|reflexivity]. }
    congruence.
  Qed.

  Lemma g_out_keys_edge g n m :
    In m (g_out_keys g n) -> exists w, edge g n m w.
  Proof.
    unfold g_out_keys, edge. intros Hin. apply in_keys_lookup. exact Hin.
  Qed.

  Lemma g_out_keys_nodup g n : wf_graph g -> NoDup (g_out_keys g n).
  Proof.
    intros Hwf. unfold g_out_keys, inner.
    destruct (lookup n (gout g)) as [i|] eqn:E; [|constructor].
    eapply (wf_inner_out_nodup Hwf). exact E.
  Qed.

  Lemma edge_g_out_keys g n m w : edge g n m w -> In m (g_out_keys g n).
  Proof.
    unfold g_out_keys, edge. intros Hl. eapply lookup_in_keys. exact Hl.
  Qed.

  (* ---------------- walks ---------------- *)
  Lemma walk_vertex_l g a b p w : wf_graph g -> walk g a b p w -> vertex g a.
  Proof.
    intros Hwf Hw. destruct Hw as [a Hv|a b c p w1 w2 He Hw].
    - exact Hv.
    - apply (wf_closed Hwf) in He. apply He.
  Qed.

  Lemma walk_vertex_r g a b p w : walk g a b p w -> wf_graph g -> vertex g b.
  Proof.
    intros Hw Hwf. induction Hw as [a Hv|a b c p w1 w2 He Hw IH].
    - exact Hv.
    - exact IH.
  Qed.

  Lemma walk_incl g a b p w :
    wf_graph g -> walk g a b p w -> forall x, In x p -> vertex g x.
  Proof.
    intros Hwf Hw. induction Hw as [a Hv|a b c p w1 w2 He Hw IH]; intros x Hin.
    - destruct Hin as [E|[]]. subst. exact Hv.
    - destruct Hin as [E|Hin].
      + subst x. apply (wf_closed Hwf) in He. apply He.
      + apply IH. exact Hin.
  Qed.

  Lemma walk_head g a b p w : walk g a b p w -> exists q, p = a :: q.
  Proof. intros Hw. destruct Hw; eexists; reflexivity. Qed.

  (* prefix of a walk up to any vertex on it *)
  Lemma walk_prefix g a b p w x :
    wf_graph g -> walk g a b p w -> In x p -> exists p1 w1, walk g a x p1 w1.
  Proof.
    intros Hwf Hw. induction Hw as [a Hv|a b c p w1 w2 He Hw IH]; intros Hin.
    - destruct Hin as [E|[]]. subst x. exists [a], 0%Z. constructor. exact Hv.
    - destruct Hin as [E|Hin].
      + subst x. exists [a], 0%Z. constructor.
        apply (wf_closed Hwf) in He. apply He.
      + destruct (IH Hin) as (p1 & w3 & Hw1).
        exists (a :: p1), (w1 + w3)%Z. econstructor; eassumption.
  Qed.

  Lemma walk_snoc g a b c p w1 w2 :
    walk g a b p w1 -> edge g b c w2 -> vertex g c ->
    walk g a c (p ++ [c]) (w1 + w2)%Z.
  Proof.
    intros Hw He Hv. induction Hw as [a Hva|a b0 b p w3 w4 He0 Hw IH].
    - change ([a] ++ [c]) with [a; c].
      replace (0 + w2)%Z with (w2 + 0)%Z by lia.
      apply walk_cons with (b := c); [exact He|]. constructor. exact Hv.
    - change ((a :: p) ++ [c]) with (a :: (p ++ [c])).
      replace (w3 + w4 + w2)%Z with (w3 + (w4 + w2))%Z by lia.
      apply walk_cons with (b := b0); [exact He0|]. apply IH. exact He.
  Qed.

  (* last-edge decomposition *)
  Lemma walk_last g a b p w :
    wf_graph g -> walk g a b p w ->
    (p = [a] /\ a = b /\ w = 0%Z) \/
      exists c p' w1 w2, walk g a c p' w1 /\ edge g c b w2 /\ w = (w1 + w2)%Z.
  Proof.
    intros Hwf Hw. induction Hw as [a Hv|a b c p w1 w2 He Hw IH].
    - left. auto.
    - right. destruct IH as [(Ep & E & Ew)|(c' & p' & w3 & w4 & Hw' & He' & Ew)].
      + subst. exists a, [a], 0%Z, w1. split; [|split; [exact He|lia]].
        constructor. apply (wf_closed Hwf) in He. apply He.
      + exists c', (a :: p'), (w1 + w3)%Z, w4. split; [|split; [exact He'|lia]].
        econstructor; eassumption.
  Qed.

  Lemma walk_nonneg g a b p w : nonneg g -> walk g a b p w -> (0 <= w)%Z.
  Proof.
    intros Hnn Hw. induction Hw as [a Hv|a b c p w1 w2 He Hw IH]; [lia|].
    apply Hnn in He. lia.
  Qed.

  (* in an acyclic graph walks do not repeat vertices *)
  Lemma walk_nodup g a b p w : wf_graph g -> acyclic g -> walk g a b p w -> NoDup p.
  Proof.
    intros Hwf Hac Hw. induction Hw as [a Hv|a b c p w1 w2 He Hw IH].
    - constructor; [simpl; tauto|constructor].
    - constructor; [|exact IH]. intros Hin.
      destruct (walk_prefix _ Hwf Hw Hin) as (p1 & w3 & Hw1).
      apply (Hac a). exists b, w1, p1, w3. auto.
  Qed.

  Lemma walk_length_pos g a b p w : walk g a b p w -> (1 <= length p)%nat.
  Proof. intros Hw. destruct Hw; simpl; lia. Qed.

  (* every vertex satisfying P has a predecessor satisfying P: arbitrarily
     long walks inside P, hence a cycle *)
  Lemma long_walk g (P : K -> Prop) :
    wf_graph g ->
    (forall v, P v -> exists a w, edge g a v w /\ P a) ->
    forall n v, P v -> vertex g v ->
      exists a p w, P a /\ walk g a v p w /\ length p = S n.
  Proof.
    intros Hwf Hpred n. induction n as [|n IH]; intros v HP Hv.
    - exists v, [v], 0%Z. split; [exact HP|]. split; [constructor; exact Hv|reflexivity].
    - destruct (IH v HP Hv) as (a & p & w & HPa & Hw & Hlen).
      destruct (Hpred a HPa) as (a' & w' & He & HPa').
      exists a', (a' :: p), (w' + w)%Z. split; [exact HPa'|]. split.
      + econstructor; eassumption.
      + simpl. rewrite Hlen. reflexivity.
  Qed.

  Lemma no_source_cycle g (P : K -> Prop) :
    wf_graph g ->
    (forall v, P v -> exists a w, edge g a v w /\ P a) ->
    (exists v, P v /\ vertex g v) -> ~ acyclic g.
  Proof.
    intros Hwf Hpred (v & HP & Hv) Hac.
    pose proof (@long_walk g P Hwf Hpred (length (keys (ghash g)))) as HL.
    destruct (HL v HP Hv) as (a & p & w & _ & Hw & Hlen).
    assert (Hnd : NoDup p) by (eapply walk_nodup; eassumption).
    assert (Hincl : incl p (keys (ghash g))).
    { intros x Hx. eapply walk_incl; eassumption. }
    pose proof (NoDup_incl_length Hnd Hincl) as Hle. lia.
  Qed.
End GraphLemmas.

(* C08SucceedsReach.v -- the top-level call of [reach] in Redefine mode when
   every requirement of the target passes the input filter: every
   requirement is planned as root -> requirement, no function vertex is ever
   walked, the call succeeds, and the recorded inputs are (distinct)
   requirements of the target. *)
From ArgMapper Require Import Base Graph GraphAlg GraphSpec Types Args Resolver ResolverSpec GenWeights.
From ArgMapper.proofs Require Import C18DijkstraLemmas C19RefineMap C19RefineGraph
     C0213UnsatGraph C0213UnsatBuild C04ErrorsLemmas C08RedefineGraph C08RedefineReach
     C08SucceedsGraph C08SucceedsPlan.
From Coq Require Import List Lia ZArith.
Import ListNotations.
Set Implicit Arguments.
Local Open Scope Z_scope.

(* ---------- small map facts ---------- *)
Lemma mem_insert_same (k : vkey) (v : value) (m : amap vkey value) : mem k (insert k v m) = true.
Proof. unfold mem. rewrite lookup_insert_eq. reflexivity. Qed.

Lemma mem_insert_mono (k k' : vkey) (v : value) (m : amap vkey value) :
  mem k m = true -> mem k (insert k' v m) = true.
Proof.
  unfold mem. destruct (Base.eqb_spec k k') as [->|Ne].
  - rewrite lookup_insert_eq. reflexivity.
  - rewrite (lookup_insert_neq v m Ne). auto.
Qed.

Lemma mem_lookup (k : vkey) (m : amap vkey value) : mem k m = true -> exists x, lookup k m = Some x.
Proof. unfold mem. destruct (lookup k m) as [x|]; [eauto|discriminate]. Qed.

(* ---------- how the state may grow ---------- *)
Definition grows (X : list vkey) (s s' : rstate) : Prop :=
  s_inprog s' = s_inprog s /\
  (forall k, mem k (s_vals s) = true -> mem k (s_vals s') = true) /\
  (forall k, In k (s_inputs s') -> In k (s_inputs s) \/ In k X) /\
  (NoDup (s_inputs s) -> NoDup (s_inputs s')).

Lemma grows_refl X s : grows X s s.
Proof. split; [reflexivity|]. split; [auto|]. split; auto. Qed.

Lemma grows_trans X Y Z s1 s2 s3 :
  incl X Z -> incl Y Z -> grows X s1 s2 -> grows Y s2 s3 -> grows Z s1 s3.
Proof.
  intros IX IY (A1 & B1 & C1 & D1) (A2 & B2 & C2 & D2).
  split; [congruence|]. split; [auto|]. split; [|auto].
  intros k Ik. destruct (C2 k Ik) as [I2|I2]; [|right; apply IY; exact I2].
  destruct (C1 k I2) as [I1|I1]; [left; exact I1|right; apply IX; exact I1].
Qed.

Lemma grows_set_val_some X s k v : grows X s (set_val s k (Some v)).
Proof.
  split; [reflexivity|]. split; [|split; auto].
  intros k0 M. cbn [set_val set_vals s_vals]. apply mem_insert_mono. exact M.
Qed.

Lemma grows_set_last X s v : grows X s (set_last s v).
Proof. split; [reflexivity|]. split; [auto|]. split; auto. Qed.

Lemma grows_set_tape X s t : grows X s (set_tape s t).
Proof. split; [reflexivity|]. split; [auto|]. split; auto. Qed.

Lemma grows_add_input s k : grows [k] s (add_input s k).
Proof.
  split; [reflexivity|]. split; [auto|]. unfold add_input. cbn [s_inputs].
  destruct (memb k (s_inputs s)) eqn:M.
  - split; auto.
  - apply membF in M. split.
    + intros k0 I0. apply in_app_or in I0. destruct I0 as [I0|I0]; auto.
    + intros N. apply nodup_app; [exact N|constructor; [intros []|constructor]|].
      intros x I1 [<-|[]]. contradiction.
Qed.

Lemma grows_rd_mark X cur s : grows X s (rd_mark cur s).
Proof.
  unfold rd_mark. destruct cur as [|ft|n t st|t st|t st]; try apply grows_refl.
  - destruct (mem (KVal n t st) (s_vals s)); [apply grows_refl|apply grows_set_val_some].
  - apply grows_set_val_some.
Qed.

Lemma rd_mark_mem cur s : isv cur = true \/ (exists t st, cur = KArg t st) -> mem cur (s_vals (rd_mark cur s)) = true.
Proof.
  intros [Hv|(t & st & ->)].
  - destruct cur as [|ft|n t st|t st|t st]; try discriminate Hv. cbn [rd_mark].
    destruct (mem (KVal n t st) (s_vals s)) eqn:M; [exact M|].
    cbn [set_val set_vals s_vals]. apply mem_insert_same.
  - cbn [rd_mark set_val set_vals s_vals]. apply mem_insert_same.
Qed.

Lemma permitted_shape u fin k : permitted u fin k -> isv k = true \/ (exists t st, k = KArg t st).
Proof. destruct k as [|ft|n t st|t st|t st]; cbn [permitted]; try contradiction; eauto. Qed.

Lemma permitted_nf u fin k : permitted u fin k -> is_func k = false /\ k <> KRoot.
Proof. destruct k as [|ft|n t st|t st|t st]; cbn [permitted]; try contradiction; split; try reflexivity; discriminate. Qed.

Section Top.
  Variables (u : universe) (bh : behaviour) (fin : option flt) (f : fdecl) (g : rgraph).
  Hypothesis HS : SG u fin f g.
  Hypothesis Small : 20 * Z.of_nat (length (g_vertex_keys g)) < INF.
  Variable rec : vkey -> rstate -> res (rstate * (argmap + rerr)).

  Definition good (cur : vkey) : Prop := vtx g cur <> None /\ permitted u fin cur.
  Definition only_funcs (l : list vkey) : Prop := forall v, In v l -> is_func v = true.

  (* ---------- planning ---------- *)
  Lemma plan_step_direct ps un s cur a' :
    good cur -> only_funcs (s_inprog s) ->
    plan_step g true (Ok (ps, un, s)) cur = Ok a' ->
    exists s', a' = (ps ++ [[KRoot; cur]], un, s') /\ grows [cur] s s' /\ mem cur (s_vals s') = true.
  Proof.
    intros [Vc Pc] Of E. unfold plan_step in E. cbn [bind] in E.
    apply bind_ok in E. destruct E as [[[path bad] s3] [Ep E]].
    destruct (plan_direct HS Small cur s Vc Pc Ep) as (-> & Eb & t' & ->).
    assert (Bf : bad = false).
    { rewrite Eb. cbn [existsb]. destruct (permitted_nf _ _ _ Pc) as [Nf _].
      assert (A : memb KRoot (s_inprog s) = false).
      { apply membF. intros I. apply Of in I. discriminate. }
      assert (B : memb cur (s_inprog s) = false).
      { apply membF. intros I. apply Of in I. congruence. }
      rewrite A, B. reflexivity. }
    rewrite Bf in E. inversion E; subst a'; clear E.
    eexists. split; [reflexivity|]. split.
    - apply (@grows_trans [cur] [] [cur] _ (add_input (set_tape s t') cur)).
      + intros x I; exact I.
      + intros x [].
      + apply (@grows_trans [] [cur] [cur] _ (set_tape s t')).
        * intros x [].
        * intros x I; exact I.
        * apply grows_set_tape.
        * apply grows_add_input.
      + apply grows_rd_mark.
    - apply rd_mark_mem. apply (permitted_shape _ _ _ Pc).
  Qed.

  Lemma plan_all_direct : forall todo ps un s a',
    (forall cur, In cur todo -> good cur) -> only_funcs (s_inprog s) ->
    fold_left (plan_step g true) todo (Ok (ps, un, s)) = Ok a' ->
    exists s', a' = (ps ++ map (fun c => [KRoot; c]) todo, un, s') /\ grows todo s s' /\
               (forall c, In c todo -> mem c (s_vals s') = true).
  Proof.
    induction todo as [|cur todo IH]; intros ps un s a' Hg Of Hf; cbn [fold_left] in Hf.
    - inversion Hf; subst a'. exists s. rewrite app_nil_r. split; [reflexivity|].
      split; [apply grows_refl|intros c []].
    - destruct (fold_res_nonok (plan_step g true)) with (l := todo) (r := plan_step g true (Ok (ps, un, s)) cur) (a' := a')
        as [a1 E1]; [|exact Hf|].
      { intros r0 x0 a0 E. unfold plan_step in E. apply bind_ok in E. destruct E as [a2 [E _]]. exists a2; exact E. }
      rewrite E1 in Hf.
      destruct (@plan_step_direct ps un s cur _ (Hg cur (or_introl eq_refl)) Of E1) as (s1 & -> & G1 & M1).
      destruct (IH _ _ _ _ (fun c Ic => Hg c (or_intror Ic)) ltac:(destruct G1 as [Q _]; rewrite Q; exact Of) Hf)
        as (s2 & -> & G2 & M2).
      exists s2. split; [|split].
      + rewrite <- app_assoc. reflexivity.
      + apply (@grows_trans [cur] todo (cur :: todo) _ s1).
        * intros x [<-|[]]. left; reflexivity.
        * intros x I. right. exact I.
        * exact G1.
        * exact G2.
      + intros c [<-|Ic]; [|apply M2; exact Ic].
        destruct G2 as (_ & B2 & _). apply B2. exact M1.
  Qed.

  (* ---------- walking root -> requirement ---------- *)
  Lemma walk_direct cur s :
    permitted u fin cur -> mem cur (s_vals s) = true ->
    exists fv s', walk u bh g true rec None [KRoot; cur] None s = Ok (s', inl (Some fv)) /\ grows [] s s'.
  Proof.
    intros Pc M. destruct cur as [|ft|n t st|t st|t st]; try contradiction.
    - cbn [walk]. destruct (mem_lookup _ _ M) as (x & Q). rewrite Q.
      eexists. eexists. split; [reflexivity|apply grows_set_last].
    - cbn [walk].
      set (s1 := match s_last s with
                 | Some x => if assignable u (v_ty x) t then set_val s (KArg t st) (Some x) else s
                 | None => s end).
      assert (G1 : grows [] s s1).
      { subst s1. destruct (s_last s) as [x|]; [|apply grows_refl].
        destruct (assignable u (v_ty x) t); [apply grows_set_val_some|apply grows_refl]. }
      assert (M1 : mem (KArg t st) (s_vals s1) = true) by (destruct G1 as (_ & B & _); apply B; exact M).
      destruct (mem_lookup _ _ M1) as (x & Q). rewrite Q.
      exists x, s1. split; [reflexivity|exact G1].
  Qed.

  Lemma walk_paths_direct target : forall todo am s,
    (forall c, In c todo -> permitted u fin c /\ mem c (s_vals s) = true) ->
    exists am' s', walk_paths u bh g true rec target (map (fun c => [KRoot; c]) todo) am s = Ok (leave target s', inl am') /\
                   grows [] s s'.
  Proof.
    induction todo as [|cur todo IH]; intros am s Hc; cbn [map].
    - rewrite walk_paths_nil. exists am, s. split; [reflexivity|apply grows_refl].
    - rewrite walk_paths_cons.
      destruct (Hc cur (or_introl eq_refl)) as [Pc Mc].
      destruct (walk_direct cur s Pc Mc) as (fv & s1 & -> & G1). cbn [bind].
      destruct (IH (insert (last [KRoot; cur] KRoot) fv am) s1) as (am' & s2 & -> & G2).
      { intros c Ic. destruct (Hc c (or_intror Ic)) as [Pc' Mc']. split; [exact Pc'|].
        destruct G1 as (_ & B & _). apply B. exact Mc'. }
      exists am', s2. split; [reflexivity|].
      apply (@grows_trans [] [] [] _ s1); auto; intros x [].
  Qed.

  (* ---------- the body of reach at the target ---------- *)
  Hypothesis Perm : forall k, In k (map field_key (fn_in f)) -> permitted u fin k.

  Lemma reach_body_direct s s' r :
    only_funcs (s_inprog s) ->
    reach_body u bh g true rec (KFunc (fn_type f)) s = Ok (s', r) ->
    (exists am, r = inl am) /\
    (forall k, In k (s_inputs s') -> In k (s_inputs s) \/ In k (map field_key (fn_in f))) /\
    (NoDup (s_inputs s) -> NoDup (s_inputs s')).
  Proof.
    intros Of H. set (target := KFunc (fn_type f)) in *.
    unfold reach_body in H.
    apply bind_ok in H. destruct H as [[outs t'] [Etp H]].
    assert (Outs : forall x, In x outs -> In x (g_out_keys g target)).
    { intros x Ix. unfold take_perm in Etp. cbn [set_inprog s_tape] in Etp.
      destruct (take_site SITE_REACH_OUT (s_tape s)) as [[ks t1]|].
      - destruct (g_out_keys g target) as [|e l] eqn:Q.
        + inversion Etp; subst. destruct Ix.
        + destruct (permb ks (e :: l)) eqn:P; [|discriminate]. inversion Etp; subst.
          apply (permb_sub_c08 _ _ P). exact Ix.
      - destruct (g_out_keys g target) as [|e l]; [|discriminate].
        inversion Etp; subst. destruct Ix. }
    set (s0 := set_tape (set_inprog s (target :: s_inprog s)) t') in *.
    pose proof (classify_todo true s0 outs) as Ct.
    destruct (classify true s0 outs) as [am todo]. cbn [snd] in Ct.
    assert (Of0 : only_funcs (s_inprog s0)).
    { intros v [<-|Iv]; [reflexivity|apply Of; exact Iv]. }
    assert (In0 : s_inputs s0 = s_inputs s) by reflexivity.
    assert (Good : forall cur, In cur todo -> good cur /\ In cur (map field_key (fn_in f))).
    { intros cur Ic. destruct (Ct cur Ic) as [Io Nr].
      apply Outs in Io. apply in_out_keys in Io.
      destruct (sg_tout HS _ Io) as [->|Ik]; [contradiction Nr; reflexivity|].
      split; [|exact Ik]. split; [apply (ew_closed _ _ (sg_wf HS) Io)|apply Perm; exact Ik]. }
    destruct todo as [|c todo].
    - inversion H; subst s' r; clear H. split; [eauto|]. split; [intros k Ik; left; exact Ik|auto].
    - apply bind_ok in H. destruct H as [[[paths unsat] s2] [Ep H]].
      unfold plan_all in Ep.
      destruct (plan_all_direct (c :: todo) [] [] s0 (fun cur Ic => proj1 (Good cur Ic)) Of0 Ep)
        as (s2' & Q & G2 & M2).
      inversion Q; subst paths unsat s2'; clear Q. cbn [app map] in H.
      destruct (walk_paths_direct target (c :: todo) am s2) as (am' & s3 & E3 & G3).
      { intros c0 Ic0. split; [apply (proj1 (Good c0 Ic0))|apply M2; exact Ic0]. }
      cbn [map] in E3. rewrite E3 in H. inversion H; subst s' r; clear H.
      split; [eauto|].
      assert (G : grows (c :: todo) s0 s3).
      { apply (@grows_trans (c :: todo) [] (c :: todo) _ s2); auto; [intros x I; exact I|intros x []]. }
      destruct G as (_ & _ & C & D). unfold leave. cbn [set_inprog s_inputs]. rewrite In0 in C, D.
      split; [|exact D].
      intros k Ik. destruct (C k Ik) as [I1|I1]; [left; exact I1|right; apply (proj2 (Good k I1))].
  Qed.
End Top.

(* C0911OnceLemmas.v -- characterisation of [reach] (nested fixes restated
   as separate fixpoints) and a generic invariant theorem: any reflexive,
   transitive relation on the "core" (world, trace, execution counter) of the
   resolver state that is respected by [call_direct] on the functions stored
   in the graph is respected by [reach]. *)
From ArgMapper Require Import Base Graph GraphAlg Types Args Resolver.
From ArgMapper.proofs Require Import C19RefineMap.
Set Implicit Arguments.
Local Open Scope Z_scope.
Local Open Scope list_scope.

(* ---------- the nested loops of reach, with the recursive call abstracted ---------- *)
Section RunX.
  Variable u : universe.
  Variable behave : behaviour.
  Variable g : rgraph.
  Variable redefine : bool.
  Variable rec : vkey -> rstate -> res (rstate * (argmap + rerr)).

  Fixpoint walkX (prev : option vkey) (vs : list vkey) (final : option value) (s : rstate)
    : res (rstate * (option value + rerr)) :=
    match vs with
    | [] => Ok (s, inl final)
    | v :: vs =>
      match v with
      | KRoot => walkX (Some v) vs final s
      | KVal _ _ _ =>
          let s := match prev with
                   | Some (KOut t st) => set_val s v (lookup (KOut t st) (s_vals s))
                   | Some (KVal n2 t2 s2) =>
                       match lookup (KVal n2 t2 s2) (s_vals s) with
                       | Some x => set_val s v (Some x)
                       | None => s
                       end
                   | _ => s end in
          let cur := lookup v (s_vals s) in
          let s := set_last s cur in
          walkX (Some v) vs (match cur with Some x => Some x | None => final end) s
      | KArg t _ =>
          let s := match s_last s with
                   | Some x => if assignable u (v_ty x) t then set_val s v (Some x) else s
                   | None => s end in
          walkX (Some v) vs (lookup v (s_vals s)) s
      | KOut _ _ =>
          let s := match prev with
                   | Some (KOut t st) => set_val s v (lookup (KOut t st) (s_vals s))
                   | _ => s end in
          let s := set_last s (lookup v (s_vals s)) in
          walkX (Some v) vs final s
      | KFunc _ =>
          match g_vertex g v with
          | Some (PFunc f) =>
              do (s, r) <- rec v s;
              match r with
              | inr e => Ok (s, inr e)
              | inl fam =>
                  do (res, s) <- call_direct u behave redefine f fam s;
                  if r_builderr res then Ok (s, inr XMissing)
                  else match r_err res with
                       | Some e => Ok (s, inr (XConv e))
                       | None =>
                           do (ins, t') <- take_perm SITE_REACH_IN (g_in_keys g v) (s_tape s);
                           do s <- output_values f res ins (set_tape s t');
                           walkX (Some v) vs final s
                       end
              end
          | _ => Panic 403%N
          end
      end
    end.

  Definition leaveX (target : vkey) (s : rstate) : rstate :=
    set_inprog s (remove1 target (s_inprog s)).

  Definition walk_pathsX (target : vkey) : list (list vkey) -> argmap -> rstate -> res (rstate * (argmap + rerr)) :=
    fix wp (paths : list (list vkey)) (am : argmap) (s : rstate) {struct paths}
    : res (rstate * (argmap + rerr)) :=
    match paths with
    | [] => Ok (leaveX target s, inl am)
    | path :: rest =>
      bind (walkX None path None s)
        (fun sr =>
           let '(s, r) := sr in
           match r with
           | inr e => Ok (leaveX target s, inr e)
           | inl None => Panic 404%N
           | inl (Some fv) => wp rest (insert (last path KRoot) fv am) s
           end)
    end.

  Lemma walk_pathsX_nil target am s : walk_pathsX target [] am s = Ok (leaveX target s, inl am).
  Proof. reflexivity. Qed.
  Lemma walk_pathsX_cons target path rest am s :
    walk_pathsX target (path :: rest) am s =
      bind (walkX None path None s)
        (fun sr =>
           let '(s, r) := sr in
           match r with
           | inr e => Ok (leaveX target s, inr e)
           | inl None => Panic 404%N
           | inl (Some fv) => walk_pathsX target rest (insert (last path KRoot) fv am) s
           end).
  Proof. reflexivity. Qed.

  Definition todo_step (s : rstate) (acc : argmap * list vkey) (o : vkey) : argmap * list vkey :=
    let '(am, todo) := acc in
    match o with
    | KRoot => (am, todo)
    | KArg _ _ => match lookup o (s_vals s) with
                  | Some v => (insert o v am, todo)
                  | None => (am, todo ++ [o])
                  end
    | KVal _ _ _ => match (if redefine then None else lookup o (s_vals s)) with
                    | Some v => (insert o v am, todo)
                    | None => (am, todo ++ [o])
                    end
    | _ => (am, todo ++ [o])
    end.

  Definition plan_step (acc : res (list (list vkey) * list vkey * rstate)) (cur : vkey)
    : res (list (list vkey) * list vkey * rstate) :=
    do (paths, unsat, s) <- acc;
    do (path, bad, s) <- plan g redefine cur s;
    Ok (paths ++ [path], (if (bad : bool) then unsat ++ [cur] else unsat), s).

  Definition reach_body (target : vkey) (s : rstate) : res (rstate * (argmap + rerr)) :=
    let s := set_inprog s (target :: s_inprog s) in
    do (outs, t') <- take_perm SITE_REACH_OUT (g_out_keys g target) (s_tape s);
    let s := set_tape s t' in
    let '(am, todo) := fold_left (todo_step s) outs (([] : argmap), ([] : list vkey)) in
    match todo with
    | [] => Ok (leaveX target s, inl am)
    | _ =>
      do (paths, unsat, s) <- fold_left plan_step todo (Ok ([], [], s));
      match unsat with
      | _ :: _ => Ok (leaveX target s, inr (XUnsat unsat [] [] false))
      | [] => walk_pathsX target paths am s
      end
    end.
End RunX.

Lemma reach_O u bh g rd target s : reach u bh g rd O target s = OutOfFuel.
Proof. reflexivity. Qed.

Lemma reach_S u bh g rd fuel target s :
  reach u bh g rd (S fuel) target s = reach_body u bh g rd (reach u bh g rd fuel) target s.
Proof. reflexivity. Qed.

(* ---------- the core of a state ---------- *)
Definition core (s : rstate) : amap Z result * list event * Z := (s_world s, s_trace s, s_nexec s).

Lemma core_set_vals s m : core (set_vals s m) = core s. Proof. reflexivity. Qed.
Lemma core_set_last s v : core (set_last s v) = core s. Proof. reflexivity. Qed.
Lemma core_set_tape s t : core (set_tape s t) = core s. Proof. reflexivity. Qed.
Lemma core_add_input s k : core (add_input s k) = core s. Proof. reflexivity. Qed.
Lemma core_set_inprog s l : core (set_inprog s l) = core s. Proof. reflexivity. Qed.
Lemma core_set_val s k v : core (set_val s k v) = core s. Proof. reflexivity. Qed.
Lemma core_leaveX t s : core (leaveX t s) = core s. Proof. reflexivity. Qed.

(* ---------- output_values keeps the core ---------- *)
Section OV.
  Variable f : fdecl.
  Variable r : result.

  Definition ov_step (acc : res rstate) (k : vkey) : res rstate :=
    do s <- acc;
    match k with
    | KVal n _ _ => match last_named n (fn_out f) 0 None with
                    | Some (i, _) => Ok (set_val s k (nth_error (r_fields r) i))
                    | None => Panic 401%N
                    end
    | KOut t _ => match last_typed t (fn_out f) 0 None with
                  | Some (i, _) => Ok (set_val s k (nth_error (r_fields r) i))
                  | None => Panic 402%N
                  end
    | _ => Ok s
    end.

  Lemma output_values_eq ins s : output_values f r ins s = fold_left ov_step ins (Ok s).
  Proof. reflexivity. Qed.

  Lemma ov_fold_fail ins (a : res rstate) :
    (forall s, a <> Ok s) -> forall s, fold_left ov_step ins a <> Ok s.
  Proof.
    revert a. induction ins as [|k ins IH]; intros a Ha s; simpl.
    - apply Ha.
    - apply IH. intros s0. destruct a as [s1| | |]; simpl; try discriminate.
      exfalso. apply (Ha s1). reflexivity.
  Qed.

  Lemma ov_fold_core ins : forall s s',
    fold_left ov_step ins (Ok s) = Ok s' -> core s' = core s.
  Proof.
    induction ins as [|k ins IH]; intros s s' E; cbn [fold_left] in E.
    - inversion E; reflexivity.
    - destruct (ov_step (Ok s) k) as [s1| | |] eqn:Q.
      + apply IH in E. rewrite E.
        unfold ov_step in Q. cbn [bind] in Q.
        destruct k as [|ft|n t st|t st|t st].
        * inversion Q; reflexivity.
        * inversion Q; reflexivity.
        * destruct (last_named n (fn_out f) 0 None) as [[i fd]|]; inversion Q; reflexivity.
        * inversion Q; reflexivity.
        * destruct (last_typed t (fn_out f) 0 None) as [[i fd]|]; inversion Q; reflexivity.
      + exfalso. eapply ov_fold_fail; [|exact E]. intros; discriminate.
      + exfalso. eapply ov_fold_fail; [|exact E]. intros; discriminate.
      + exfalso. eapply ov_fold_fail; [|exact E]. intros; discriminate.
  Qed.

  Lemma output_values_core ins s s' : output_values f r ins s = Ok s' -> core s' = core s.
  Proof. rewrite output_values_eq. apply ov_fold_core. Qed.
End OV.

(* ---------- plan keeps the core ---------- *)
Lemma plan_core g rd cur s path bad s' :
  plan g rd cur s = Ok (path, bad, s') -> core s' = core s.
Proof.
  unfold plan. intros E.
  destruct (dijkstra_t (g_reverse (discount g cur)) KRoot (s_tape s)) as [[[d p] t']| | |]; cbn [bind] in E; try discriminate.
  destruct (edge_to_path (discount g cur) p cur) as [pth| | |]; cbn [bind] in E; try discriminate.
  inversion E as [[E1 E2 E3]]. clear E E1 E2 E3.
  destruct rd.
  - match goal with |- core (match ?i with _ => _ end) = _ => destruct i as [|ft|n t st|t st|t st] end;
      try reflexivity.
    match goal with |- core (if ?c then _ else _) = _ => destruct c end; reflexivity.
  - reflexivity.
Qed.

Lemma plan_fold_fail g rd todo (a : res (list (list vkey) * list vkey * rstate)) :
  (forall x, a <> Ok x) -> forall x, fold_left (plan_step g rd) todo a <> Ok x.
Proof.
  revert a. induction todo as [|k todo IH]; intros a Ha x; simpl.
  - apply Ha.
  - apply IH. intros x0. destruct a as [x1| | |]; simpl; try discriminate.
    exfalso. apply (Ha x1). reflexivity.
Qed.

Lemma plan_fold_core g rd todo : forall paths unsat s paths' unsat' s',
  fold_left (plan_step g rd) todo (Ok (paths, unsat, s)) = Ok (paths', unsat', s') -> core s' = core s.
Proof.
  induction todo as [|k todo IH]; intros paths unsat s paths' unsat' s' E; cbn [fold_left] in E.
  - inversion E; reflexivity.
  - destruct (plan_step g rd (Ok (paths, unsat, s)) k) as [[[p1 u1] s1]| | |] eqn:Q.
    + apply IH in E. rewrite E.
      unfold plan_step in Q. cbn [bind] in Q.
      destruct (plan g rd k s) as [[[path bad] s2]| | |] eqn:P; cbn [bind] in Q; try discriminate.
      inversion Q; subst. eapply plan_core; eauto.
    + exfalso. eapply plan_fold_fail; [|exact E]. intros; discriminate.
    + exfalso. eapply plan_fold_fail; [|exact E]. intros; discriminate.
    + exfalso. eapply plan_fold_fail; [|exact E]. intros; discriminate.
Qed.

(* ---------- generic invariant ---------- *)
Section Inv.
  Variable u : universe.
  Variable behave : behaviour.
  Variable g : rgraph.
  Variable redefine : bool.
  Variable Q : amap Z result * list event * Z -> amap Z result * list event * Z -> Prop.
  Hypothesis Q_refl : forall c, Q c c.
  Hypothesis Q_trans : forall a b c, Q a b -> Q b c -> Q a c.
  Hypothesis Q_cd : forall v f am s r s',
      g_vertex g v = Some (PFunc f) ->
      call_direct u behave redefine f am s = Ok (r, s') -> Q (core s) (core s').

  Section Rec.
    Variable rec : vkey -> rstate -> res (rstate * (argmap + rerr)).
    Hypothesis Hrec : forall v s s' r, rec v s = Ok (s', r) -> Q (core s) (core s').

    Lemma walkX_inv vs : forall prev final s s' r,
      walkX u behave g redefine rec prev vs final s = Ok (s', r) -> Q (core s) (core s').
    Proof.
      induction vs as [|v vs IH]; intros prev final s s' r E.
      - cbn [walkX] in E. inversion E; subst. apply Q_refl.
      - destruct v as [|ft|n t st|t st|t st].
        + cbn [walkX] in E. eapply IH; eauto.
        + cbn [walkX] in E.
          destruct (g_vertex g (KFunc ft)) as [[|f]|] eqn:GV; try discriminate.
          destruct (rec (KFunc ft) s) as [[s1 [fam|e]]| | |] eqn:R; cbn [bind] in E; try discriminate.
          * apply Hrec in R.
            destruct (call_direct u behave redefine f fam s1) as [[res s2]| | |] eqn:CD; cbn [bind] in E; try discriminate.
            apply (Q_cd _ _ _ GV) in CD.
            assert (Q12 : Q (core s) (core s2)) by (eapply Q_trans; eauto).
            destruct (r_builderr res).
            { inversion E; subst. exact Q12. }
            destruct (r_err res).
            { inversion E; subst. exact Q12. }
            destruct (take_perm SITE_REACH_IN (g_in_keys g (KFunc ft)) (s_tape s2)) as [[ins t']| | |]; cbn [bind] in E; try discriminate.
            destruct (output_values f res ins (set_tape s2 t')) as [s3| | |] eqn:OV; cbn [bind] in E; try discriminate.
            apply output_values_core in OV. rewrite core_set_tape in OV.
            apply IH in E. rewrite OV in E. eapply Q_trans; eauto.
          * inversion E; subst. eapply Hrec; eauto.
        + cbn [walkX] in E. apply IH in E.
          rewrite core_set_last in E.
          destruct prev as [[| |n0 t0 st0| |t0 st0]|]; try exact E.
          destruct (lookup (KVal n0 t0 st0) (s_vals s)); exact E.
        + cbn [walkX] in E. apply IH in E.
          destruct (s_last s) as [x|]; [destruct (assignable u (v_ty x) t)|]; exact E.
        + cbn [walkX] in E. apply IH in E.
          rewrite core_set_last in E.
          destruct prev as [[| | | |t0 st0]|]; exact E.
    Qed.

    Lemma walk_pathsX_inv target paths : forall am s s' r,
      walk_pathsX u behave g redefine rec target paths am s = Ok (s', r) -> Q (core s) (core s').
    Proof.
      induction paths as [|path rest IH]; intros am s s' r E.
      - rewrite walk_pathsX_nil in E. inversion E; subst. rewrite core_leaveX. apply Q_refl.
      - rewrite walk_pathsX_cons in E.
        destruct (walkX u behave g redefine rec None path None s) as [[s1 [[fv|]|e]]| | |] eqn:W;
          cbn [bind] in E; try discriminate.
        + apply walkX_inv in W. apply IH in E. eapply Q_trans; eauto.
        + apply walkX_inv in W. inversion E; subst. rewrite core_leaveX. exact W.
    Qed.

    Lemma reach_body_inv target s s' r :
      reach_body u behave g redefine rec target s = Ok (s', r) -> Q (core s) (core s').
    Proof.
      unfold reach_body. intros E.
      destruct (take_perm SITE_REACH_OUT (g_out_keys g target)
                  (s_tape (set_inprog s (target :: s_inprog s)))) as [[outs t']| | |];
        cbn [bind] in E; try discriminate.
      match type of E with (match ?X with _ => _ end) = _ => destruct X as [am todo] end.
      destruct todo as [|o todo].
      - injection E as E1 E2. subst s'. rewrite core_leaveX. apply Q_refl.
      - destruct (fold_left (plan_step g redefine) (o :: todo)
                    (Ok ([], [], set_tape (set_inprog s (target :: s_inprog s)) t')))
          as [[[paths unsat] s1]| | |] eqn:PF; cbn [bind] in E; try discriminate.
        apply plan_fold_core in PF. rewrite core_set_tape, core_set_inprog in PF.
        destruct unsat as [|x unsat].
        + apply walk_pathsX_inv in E. rewrite PF in E. exact E.
        + injection E as E1 E2. subst s'. rewrite core_leaveX, PF. apply Q_refl.
    Qed.
  End Rec.

  Theorem reach_inv fuel : forall target s s' r,
    reach u behave g redefine fuel target s = Ok (s', r) -> Q (core s) (core s').
  Proof.
    induction fuel as [|fuel IH]; intros target s s' r E.
    - rewrite reach_O in E. discriminate.
    - rewrite reach_S in E. eapply reach_body_inv; eauto.
  Qed.
End Inv.

(* C05CompleteDijkstra.v -- the contracts of C05CompleteDefs, part D / D2.

   - dijkstra_small_proof      : dijkstra_small_spec, as stated.
   - discount_proof            : discount_spec, as stated.
   - dijkstra_path_spec is FALSE as stated (dijkstra_path_spec_refuted, a
     three-vertex counterexample in C05CompleteDijkstraPath.v): nothing in
     [dijkstra_facts] makes the predecessor of a vertex reachable from the
     source, so a predecessor chain may end in a root other than the source.
     Closest true variants:
     - dijkstra_small_alt_proof : dijkstra_small_spec with the conclusion
       strengthened by "every predecessor is reachable from the source";
     - dijkstra_path_alt_proof  : dijkstra_path_spec under that extra
       hypothesis. *)
From ArgMapper Require Import Base Graph GraphAlg GraphSpec Types Args Resolver.
From ArgMapper.proofs Require Import C05CompleteDefs C05CompleteDijkstraRun
     C05CompleteDijkstraPath C05CompleteDijkstraDisc.
From Coq Require Import Lia ZArith List.
Import ListNotations.
Set Implicit Arguments.
Local Open Scope Z_scope.

(* the strengthened run contract *)
Definition dijkstra_small_alt_spec {K : Type} {E : EqDec K} {V : Type} : Prop :=
  forall (g : graph K V) (src : K) (t : tape K),
    wf_graph g -> vertex g src -> wbound g 20 ->
    20 * (Z.of_nat (length (g_vertex_keys g)) + 1) < INF ->
    (exists s, dijkstra_t g src t = TapeErr s) \/
    (exists d p t' ord, dijkstra_t g src t = Ok (d, p, t') /\ dijkstra_facts g src d p ord /\
       (forall v u, lookup v p = Some u -> GraphSpec.reach g src u)).

(* the path contract under the extra hypothesis *)
Definition dijkstra_path_alt_spec {K : Type} {E : EqDec K} {V : Type} : Prop :=
  forall (g : graph K V) (src : K) (d : amap K Z) (p : amap K K) (ord : list K) (v : K),
    wf_graph g -> dijkstra_facts g src d p ord ->
    (forall v u, lookup v p = Some u -> GraphSpec.reach g src u) ->
    vertex g v -> GraphSpec.reach g src v ->
    exists path, edge_to_path g p v = Ok path /\ ppath p src v path /\ NoDup path.

Theorem dijkstra_small_alt_proof :
  forall (K : Type) (E : EqDec K) (V : Type), @dijkstra_small_alt_spec K E V.
Proof.
  intros K E V g src t WF Vs WB Small.
  destruct (@dijkstra_small_run K E V g src WF Vs WB Small t) as [L|(d & p & t' & ord & Q & F & FR)].
  - left. exact L.
  - right. exists d, p, t', ord. split; [exact Q|]. split; [exact F|].
    exact (finite_preds_reach F FR).
Qed.
Print Assumptions dijkstra_small_alt_proof.

Theorem dijkstra_small_proof :
  forall (K : Type) (E : EqDec K) (V : Type), @dijkstra_small_spec K E V.
Proof.
  intros K E V g src t WF Vs WB Small.
  destruct (@dijkstra_small_run K E V g src WF Vs WB Small t) as [L|(d & p & t' & ord & Q & F & _)].
  - left. exact L.
  - right. exists d, p, t', ord. split; [exact Q|exact F].
Qed.
Print Assumptions dijkstra_small_proof.

Theorem dijkstra_path_alt_proof :
  forall (K : Type) (E : EqDec K) (V : Type), @dijkstra_path_alt_spec K E V.
Proof.
  intros K E V g src d p ord v WF F PR Vv Rv.
  exact (dijkstra_path_alt WF F PR Vv Rv).
Qed.
Print Assumptions dijkstra_path_alt_proof.

(* the original path contract does not hold *)
Theorem dijkstra_path_spec_refuted :
  ~ (forall (K : Type) (E : EqDec K) (V : Type), @dijkstra_path_spec K E V).
Proof.
  intros S. exact (dijkstra_path_spec_false (S nat EqDec_nat unit)).
Qed.
Print Assumptions dijkstra_path_spec_refuted.

Theorem discount_proof : discount_spec.
Proof. exact discount_main. Qed.
Print Assumptions discount_proof.
